#!/usr/bin/env python3
"""writes MANIFEST.json from the table below (kept beside the checks so that both change together)"""
import json, os
V = os.path.dirname(os.path.dirname(os.path.abspath(__file__)))
CLAIMS = json.load(open(os.path.join(V, "bin", "claims.json")))
checks = []
for pid in sorted(CLAIMS["claims"]):
    c = CLAIMS["claims"][pid]
    checks.append({
        "property_id": pid,
        "quick_cmd": f"bin/check {pid} quick",
        "thorough_cmd": f"bin/check {pid} thorough",
        "evidence_file": f"evidence/{pid}.json",
        "replay_cmd_template": "bin/replay {path}",
        "engine": "coq-model",
        "level_claimed": {"category": "proof", "text": c["text"], "design_ref": c.get("design_ref", "DESIGN.md section 2, " + pid)},
        "level_note": c["note"],
        "technique": c["technique"],
    })
m = {
    "version": 1,
    "setup_cmd": "bin/setup",
    "hooks": {
        "guard": "verif",
        "enable": "go build -tags verif (the harness module replaces github.com/nulab/autog by /repo)",
        "baseline_off_cmd": "cd /repo && go test -vet=off -count=1 ./...",
        "source_commits": CLAIMS["hook_commits"],
        "add_only": True,
    },
    "engines": [
        {"name": "coq-model", "path": "coq", "serves_properties": sorted(CLAIMS["claims"]),
         "kind_free_text": "Coq 8.16.1: hand-written executable Gallina model of the pipeline (coq/Model), theorems (coq/Proofs, coq/Properties), facts regenerated from the Go source by a translator (coq/Generated), correspondence check evaluated by vm_compute on states observed in the implementation"},
        {"name": "go-harness", "path": "harness", "serves_properties": sorted(CLAIMS["claims"]),
         "kind_free_text": "Go: case generators, tracing through the verif hooks, direct oracles used to search for a failing input when a proof obligation or the correspondence breaks"},
    ],
    "checks": checks,
    "notes": CLAIMS["notes"],
    "not_applicable": CLAIMS["not_applicable"],
}
json.dump(m, open(os.path.join(V, "MANIFEST.json"), "w"), indent=1)
print("claims:", len(checks), "not_applicable:", len(m["not_applicable"]))
