"""Per-property configuration of bin/check: which steps/fields of the correspondence a property depends on,
which generator and oracle of the Go harness serve it, how many cases per tier, and custom steps."""
import json, os, re, subprocess, sys, time

STRUCT = {1, 6, 9, 10}
LAYER = {2, 11}
POS = {3, 11}
SIZE = {4}
XY = {5, 12}
ROUTE = {7}
TREE = {8}
ERR = {97, 98, 99}
ALLF = STRUCT | LAYER | POS | SIZE | XY | ROUTE
COMP = {9, 10, 20, 21, 50}


def rel(steps):
    def f(code):
        if code >= 4000:
            return False
        step, field = divmod(code, 100)
        fs = steps.get(step)
        return fs is not None and (field in fs or field in ERR)
    return f


def c03_unit(c):
    if c.get("infeasible_edge"):
        return "edge %s -> %s joins bands %d and %d afterwards: it no longer points to a lower band" % (
            c["infeasible_edge"][0], c["infeasible_edge"][1], c["after"][c["infeasible_edge"][0]], c["after"][c["infeasible_edge"][1]])
    return None


def c10_unit(c):
    if c["fn"] == "ns":
        if c.get("infeasible_edge"):
            return c03_unit(c)
        if c.get("model_certified") and c["length_after"] > c["model_optimum"]:
            return "network simplex returns total edge length %d, the certified minimum is %d" % (c["length_after"], c["model_optimum"])
        if c.get("empty_layer", -1) != -1:
            return "band %d is empty" % c["empty_layer"]
        return None
    if c.get("infeasible_edge"):
        return c03_unit(c)
    if c["length_after"] != c["length_before"]:
        return "total edge length changed from %d to %d" % (c["length_before"], c["length_after"])
    if c.get("empty_layer", -1) != -1 and c["fn"] == "vbalance":
        return "band %d is empty afterwards" % c["empty_layer"]
    return None


def c04_unit(c):
    if c.get("fn") == "pos" and c.get("overlap"):
        return "positioner %s: %s" % (c.get("alg"), c["overlap"])
    return None


def c05_unit(c):
    if c.get("fn") == "route" and c.get("c05"):
        return "positioner %s, router %s: %s" % (c.get("alg"), c.get("route"), c["c05"])
    return None


def c06_unit(c):
    if c.get("fn") == "route" and c.get("c06"):
        return "positioner %s, router %s: %s" % (c.get("alg"), c.get("route"), c["c06"])
    return None


def c12_unit(c):
    if c.get("fn") == "order" and c.get("reported") and sum(c["reported"]) != c.get("counted"):
        return "the ordering phase reports %s crossings, the order it installs has %d" % (c["reported"], c["counted"])
    if c.get("fn") == "crossings" and c.get("count_impl") != c.get("count_naive"):
        return "the crossing counter reports %d crossings for an order that has %d (layer widths %s)" % (c["count_impl"], c["count_naive"], c.get("widths"))
    return None


PROPS = {
    "C01": dict(custom=["spline_step"], units=["p1greedy", "p1dfs", "pos-bk", "pos-ns", "pos-sink"], n_units=dict(quick=1500, thorough=20000), trace_gen="C02", oracle="C01", relevant=rel({s: set() for s in list(range(0, 9)) + [15, 16]}),
                trace_env={"VH_DEEP": "1"}, n_trace=dict(quick=96, thorough=800), n_search=dict(quick=1500, thorough=40000)),
    "C02": dict(trace_gen="C02", oracle="C02",
                relevant=rel({0: STRUCT | SIZE | {50}, 1: COMP, 2: STRUCT, 3: STRUCT, 5: STRUCT, 7: STRUCT | ROUTE, 8: STRUCT | ROUTE | SIZE, 9: {1, 2}}),
                n_trace=dict(quick=200, thorough=2000), n_search=dict(quick=3000, thorough=60000)),
    "C03": dict(trace_gen="C03", oracle="C03",
                relevant=rel({3: STRUCT, 4: LAYER, 5: LAYER | STRUCT, 6: XY, 7: ROUTE | STRUCT, 8: ROUTE | STRUCT, 9: {1, 2}}),
                n_trace=dict(quick=200, thorough=2000), n_search=dict(quick=3000, thorough=60000),
                units=["vbalance", "normalize", "ns"], n_units=dict(quick=1200, thorough=12000), unit_classify=c03_unit),
    "C04": dict(units=["pos-sink", "pos-valign", "pos-packright", "pos-ns"], n_units=dict(quick=400, thorough=6000), unit_classify=c04_unit, trace_gen="C04", oracle="C04", relevant=rel({5: POS, 6: XY | SIZE, 9: {1}}),
                n_trace=dict(quick=160, thorough=1500), n_search=dict(quick=3000, thorough=60000)),
    "C05": dict(units=["route-sink-polyline", "route-valign-ortho", "route-packright-straight", "route-bk-polyline"], n_units=dict(quick=200, thorough=4000), unit_classify=c05_unit,
                custom=["spline_step"], trace_gen="C05", oracle="C05", relevant=rel({6: XY, 7: ROUTE | STRUCT, 8: ROUTE | STRUCT, 9: {1, 2}}),
                n_trace=dict(quick=200, thorough=2000), n_search=dict(quick=3000, thorough=60000)),
    "C06": dict(units=["route-sink-ortho", "route-valign-polyline", "route-packright-ortho", "route-bk-straight"], n_units=dict(quick=200, thorough=4000), unit_classify=c06_unit,
                custom=["spline_step"], trace_gen="C06", oracle="C06", relevant=rel({5: STRUCT | LAYER | POS, 6: XY, 7: ROUTE | STRUCT, 9: {1, 2}}),
                n_trace=dict(quick=160, thorough=1500), n_search=dict(quick=3000, thorough=60000)),
    "C07": dict(trace_gen="C07", oracle="C07", relevant=rel({**{s: ALLF | COMP for s in list(range(0, 10)) + [16]}, 13: {0}, 15: ALLF | {0}}),
                trace_env={"VH_DEEP": "1"}, n_trace=dict(quick=96, thorough=800), n_search=dict(quick=1500, thorough=20000)),
    "C08": dict(trace_gen="C08", oracle="C08", relevant=rel({0: ALLF | {50}}),
                n_trace=dict(quick=200, thorough=2000), n_search=dict(quick=2500, thorough=40000)),
    "C09": dict(trace_gen="C09", oracle="C09", relevant=rel({0: STRUCT, 1: COMP, 6: XY, 9: {1, 2}}),
                n_trace=dict(quick=160, thorough=1500), n_search=dict(quick=2500, thorough=40000)),
    "C10": dict(trace_gen="C10", oracle="C10", relevant=rel({3: STRUCT, 4: LAYER | TREE, 14: {1, 2, 3}}), trace_env={"VH_CERT": "1"},
                units=["vbalance", "normalize", "ns"], n_units=dict(quick=1200, thorough=12000), unit_classify=c10_unit,
                n_trace=dict(quick=200, thorough=2000), n_search=dict(quick=36000, thorough=300000)),
    "C11": dict(trace_gen="C11", oracle="C11", relevant=rel({3: STRUCT, 4: LAYER}),
                n_trace=dict(quick=200, thorough=2000), n_search=dict(quick=3000, thorough=60000)),
    "C12": dict(units=["crossings", "order"], n_units=dict(quick=240, thorough=4000), unit_classify=c12_unit, trace_gen="C12", oracle="C12", relevant=rel({5: POS | STRUCT, 6: XY, 7: ROUTE, 9: {1, 2}, 13: {0, 1}, 15: ALLF | {0}, 16: {2, 3, 4}}),
                trace_env={"VH_DEEP": "1"}, n_trace=dict(quick=96, thorough=800), n_search=dict(quick=1500, thorough=30000)),
    "C13": dict(units=["crossings", "order"], n_units=dict(quick=120, thorough=2000), unit_classify=c12_unit, trace_gen="C13", oracle="C13", relevant=rel({4: LAYER, 5: POS | STRUCT, 13: {0, 1}, 15: ALLF | {0}, 16: {4}}),
                trace_env={"VH_DEEP": "1"}, n_trace=dict(quick=96, thorough=800), n_search=dict(quick=2000, thorough=40000)),
    "C14": dict(units=["p1greedy", "p1dfs"], n_units=dict(quick=1500, thorough=20000), trace_gen="C14", oracle="C14", relevant=rel({2: STRUCT, 3: STRUCT, 8: STRUCT}),
                n_trace=dict(quick=200, thorough=2000), n_search=dict(quick=3000, thorough=60000)),
    "C15": dict(level="proof", oracle="C15", n_search=dict(quick=150, thorough=3000), race=True, n_race=dict(quick=40, thorough=600)),
    "C16": dict(units=["pos-valign", "pos-packright"], n_units=dict(quick=400, thorough=6000), trace_gen="C16", oracle="C16", relevant=rel({5: POS | STRUCT, 6: XY | SIZE, 9: {1}}),
                n_trace=dict(quick=200, thorough=2000), n_search=dict(quick=3000, thorough=60000)),
    "C17": dict(units=["pos-bk", "pos-sink"], n_units=dict(quick=300, thorough=5000), trace_gen="C17", oracle="C17", relevant=rel({6: XY | SIZE, 7: ROUTE}),
                n_trace=dict(quick=160, thorough=1500), n_search=dict(quick=2500, thorough=40000)),
    "C18": dict(level="proof", oracle="C18", n_search=dict(quick=600, thorough=20000)),
    "C19": dict(level="proof", custom=["c19_step"]),
    "C20": dict(level="proof", custom=["c20_step"]),
}


VERIF = os.path.dirname(os.path.dirname(os.path.abspath(__file__)))
COQ = os.path.join(VERIF, "coq")
WORK = os.path.join(VERIF, "work")
_ENV = dict(os.environ, GOFLAGS="-mod=mod", GOPROXY="off", GOSUMDB="off", GOTOOLCHAIN="local")


def sh(cmd, cwd=None, timeout=None):
    p = subprocess.run(cmd, cwd=cwd, stdout=subprocess.PIPE, stderr=subprocess.STDOUT, timeout=timeout, env=_ENV, text=True, errors="replace")
    return p.returncode, p.stdout


def _coq_shards(run, udir, pattern, regex):
    """runs coqc on every shard (bounded parallelism, once per directory); returns the list of failing indices
    (or None when one could not be evaluated)"""
    import glob as _g
    from __main__ import coq_pool
    cache = run.__dict__.setdefault("_shard_out", {})
    files = sorted(_g.glob(os.path.join(udir, pattern)))
    if (udir, pattern) not in cache:
        cache[(udir, pattern)] = coq_pool(files, udir)
    res = cache[(udir, pattern)]
    bad = []
    for f in files:
        rc, out = res[f]
        m = re.search(regex, out, re.S)
        if rc != 0 or not m:
            run.violation(f"the model could not be evaluated on {os.path.basename(f)}: " + out[-600:], {"kind": "correspondence", "step": "coqc", "output": out[-3000:]}, False)
            return None
        bad += [int(x) for x in re.findall(r"(\d+)%nat", m.group(1))]
    return bad


def in_router_class(c):
    """start strictly inside the top edge of the first rectangle, end strictly inside the bottom edge of the last"""
    f, l = c["rects"][0], c["rects"][-1]
    return (c["start"][1] == f["TLY"] and f["TLX"] < c["start"][0] < f["BRX"]
            and c["end"][1] == l["BRY"] and l["TLX"] < c["end"][0] < l["BRX"])


def c19_known_subclass(c):
    """Outside the router's class the recorded finding is delimited to two exactly described situations (exact rational tests):
    'last-rect-widens-both': the end point is not on the bottom edge of the last rectangle and that rectangle extends beyond its
       predecessor on both sides (the path detours through its bottom-right corner);
    'degenerate-position': the start (unless strictly inside the top edge of the first rectangle) or the end (unless strictly inside
       the bottom edge of the last) is collinear with two corridor vertices: on a corner, on a rectangle side or its extension, on a
       line that can be a diagonal of the triangulation.
    Anything else that fails outside the class is reported."""
    from fractions import Fraction as Fr
    R = c["rects"]
    f, l = R[0], R[-1]
    s, e = c["start"], c["end"]
    if len(R) >= 2 and e[1] != l["BRY"] and l["TLX"] < R[-2]["TLX"] and l["BRX"] > R[-2]["BRX"]:
        return "last-rect-widens-both"
    V = sorted({(Fr(x), Fr(y)) for r in R for x in (r["TLX"], r["BRX"]) for y in (r["TLY"], r["BRY"])})

    def collinear(p):
        px, py = Fr(p[0]), Fr(p[1])
        for i, u in enumerate(V):
            for v in V[i + 1:]:
                if (v[0] - u[0]) * (py - u[1]) - (v[1] - u[1]) * (px - u[0]) == 0:
                    return True
        return False
    s_ok = s[1] == f["TLY"] and f["TLX"] < s[0] < f["BRX"]
    e_ok = e[1] == l["BRY"] and l["TLX"] < e[0] < l["BRX"]
    if (not s_ok and collinear(s)) or (not e_ok and collinear(e)):
        return "degenerate-position"
    return None


def c19_step(run):
    n = dict(quick=1200, thorough=20000)[run.tier]
    listed = {k["class"] for k in run.load_known()}
    for cls, k in (("inside", n), ("any", n // 6), ("interior", n // 2), ("stairs", n // 5)):
        gdir = os.path.join(run.dir, "geom_" + cls)
        rc, out = sh([os.path.join(WORK, "vh"), "geom", "-prop", cls, "-seed", str(run.seed), "-n", str(k), "-out", gdir], timeout=3000)
        if rc != 0:
            run.violation("running the router failed: " + out[-600:], {"kind": "harness", "output": out[-3000:]}, False)
            return
        cases = json.load(open(os.path.join(gdir, "corridors.json")))
        bad = _coq_shards(run, gdir, "geom_*.v", r"G =\s*(.*?)\s*:\s*list nat")
        if bad is None:
            return
        # the verified containment checker, evaluated by the kernel on the implementation's answers (not on the long
        # staircase corridors: too slow there; containment is evaluated by the Go oracle for those)
        uncert = [] if cls == "stairs" else (_coq_shards(run, gdir, "geom_*.v", r"H =\s*(.*?)\s*:\s*list nat") or [])
        run.cov.setdefault("containment_certified", {})[cls] = sum(1 for c in cases if c.get("panic") != "skipped" and c["outcome"] == 0) - len(uncert)
        bad = sorted(set(bad) | set(uncert))
        evaluated = [c for c in cases if c.get("panic") != "skipped"]
        run.cov["traces_validated_against_impl"] += len(evaluated)
        run.cov["evaluations"] += len(evaluated)
        run.cov["distinct_nontrivial"] += len({json.dumps([c["rects"], c["start"], c["end"]]) for c in evaluated if len(c["rects"]) >= 2})
        if not run.cov["samples"]:
            run.cov["samples"] = evaluated[:2]
            run.cov["rule"] = "random corridors of 1-6 stacked rectangles on an 8-grid, consecutive ones overlapping in a segment of positive length; class 'inside': start strictly inside the top edge of the first, end strictly inside the bottom edge of the last rectangle; class 'any': anywhere in the first / last rectangle, on a 4-grid; class 'interior': strictly inside the first / last rectangle off the grid (general position), or one of them on its edge; non-trivial = at least 2 rectangles"
        run.cov.setdefault("outcomes", {})[cls] = {str(o): sum(1 for c in evaluated if c["outcome"] == o) for o in (0, 1, 2)}
        known = {}
        for i, c in enumerate(cases):
            fails = c.get("checks", {}).get("C19")
            if fails or i in bad:
                sub = c19_known_subclass(c) if (cls != "stairs" and not in_router_class(c)) else None
                if sub and sub in listed:
                    known[sub] = known.get(sub, 0) + 1
                    continue
                if fails:
                    run.violation("the router's answer breaks the property: " + fails[:300], {"kind": "corridor", "property": "C19", "case": c}, True)
                else:
                    run.pending_mismatch = getattr(run, "pending_mismatch", [])
                    run.pending_mismatch.append(({"corridor": c}, ["geom:shortest"]))
        what = {"last-rect-widens-both": "geom.Shortest detours through the bottom-right corner of the last rectangle when the end point is not on its bottom edge and that rectangle extends beyond its predecessor on both sides",
                "degenerate-position": "geom.Shortest returns a wrong path or does not return when the start (unless strictly inside the top edge of the first rectangle) or the end (unless strictly inside the bottom edge of the last) is collinear with two corridor vertices"}
        for sub, kn in sorted(known.items()):
            run.known.append("property=C19 %s: %s (%d of %d corridors of class '%s' in this run)" % (sub, what[sub], kn, len(evaluated), cls))


def c20_step(run):
    n = dict(quick=400, thorough=8000)[run.tier]
    out_json = os.path.join(run.dir, "spline.json")
    rc, out = sh([os.path.join(WORK, "vh"), "spline", "-seed", str(run.seed), "-n", str(n), "-out", out_json], timeout=3000)
    if rc != 0 or not os.path.exists(out_json):
        run.violation("running the spline fitter failed: " + out[-600:], {"kind": "harness", "output": out[-3000:]}, False)
        return
    d = json.load(open(out_json))
    run.cov["evaluations"] += len(d["splines"]) + len(d["roots"])
    run.cov["distinct_nontrivial"] += sum(1 for s in d["splines"] if len(s.get("pieces") or []) >= 1)
    run.cov["samples"] = [d["splines"][0]["corridor"], d["roots"][0]]
    run.cov["rule"] = "spline fitter on random corridors of the router's class (bent paths are non-trivial); root finder on cubics/quadratics/linear polynomials built from chosen roots on a quarter grid"
    run.cov["spline_pieces_histogram"] = {str(k): sum(1 for s in d["splines"] if len(s.get("pieces") or []) == k) for k in range(0, 6)}
    shown = 0
    vtx_listed = any(k["class"] == "vertex-crossing" for k in run.load_known())
    vtx = [s for s in d["splines"] if s.get("problems") and s.get("only_containment") and s.get("through_vertices")]
    for s in d["splines"]:
        if s.get("problems") and not (vtx_listed and s.get("only_containment") and s.get("through_vertices")) and shown < 3:
            shown += 1
            run.violation("the spline fitter breaks the property: " + "; ".join(s["problems"])[:300], {"kind": "spline", "property": "C20", "case": s}, True)
    if vtx and vtx_listed:
        run.known.append("property=C20 vertex-crossing: the fitter accepts a curve that leaves the corridor and comes back THROUGH corridor vertices (%d of %d fitted paths in this run, largest excursion %.1f units)"
                         % (len(vtx), len(d["splines"]), max(s.get("max_excursion", 0) for s in vtx)))
    curves = d.get("curves") or []
    run.cov["evaluations"] += len(curves)
    run.cov["containment_test_cases"] = {"inside": sum(1 for c in curves if c["expected"] == "inside"), "outside": sum(1 for c in curves if c["expected"] == "outside"),
                                         "inside_but_rejected": sum(1 for c in curves if c.get("note"))}
    shown = 0
    for c in curves:
        if c.get("problem") and shown < 3:
            shown += 1
            run.violation("the fitter's containment test breaks the property: " + c["problem"], {"kind": "curve", "property": "C20", "case": c}, True)
    rep = 0
    shown = 0
    for r in d["roots"]:
        if r.get("problem"):
            if r["repeated"]:
                rep += 1
            elif shown < 3:
                shown += 1
                run.violation("the root finder breaks the property: " + r["problem"], {"kind": "roots", "property": "C20", "case": r}, True)
    if rep:
        run.known.append("property=C20 repeated-root: solve3 drops a repeated real root when rounding makes the discriminant slightly positive (%d of %d polynomials with a repeated root in this run)" % (rep, sum(1 for r in d["roots"] if r["repeated"])))


def spline_step(run):
    """spline routing through Layout: child processes under a wall-clock limit; the glue model (Model/Splines.v) against the
    traced cases that return; the direct oracles of C05/C06 on the returned layouts"""
    n = dict(quick=160, thorough=3000)[run.tier]
    sdir = os.path.join(run.dir, "spline")
    rc, out = sh([os.path.join(WORK, "vh"), "splinetrace", "-seed", str(run.seed), "-n", str(n), "-out", sdir], timeout=6000)
    if rc != 0 or not os.path.exists(os.path.join(sdir, "index.json")):
        run.violation("running spline routing failed: " + out[-600:], {"kind": "harness", "output": out[-3000:]}, False)
        return
    index = json.load(open(os.path.join(sdir, "index.json")))
    listed = any(k["class"] == "spline-corridor" for k in run.load_known())
    outcomes = {o: sum(1 for e in index if e["outcome"] == o) for o in ("ok", "panic", "hang")}
    run.cov.setdefault("spline_routing", {})["outcomes"] = outcomes
    run.cov["spline_routing"]["routed_edges"] = sum(e.get("routes", 0) for e in index)
    run.cov["spline_routing"]["edges_through_FitSpline"] = sum(e.get("fitted", 0) for e in index)
    run.cov["evaluations"] += len(index)
    known = 0
    for e in index:
        if e["outcome"] == "ok":
            continue
        if listed and (e.get("long_edge") or e.get("zero_width")):
            known += 1
        elif run.prop == "C01":
            run.violation("Layout with spline routing did not return: " + e.get("detail", "")[:300],
                          {"kind": "input", "property": "C01", "case": e["case"], "messages": [e.get("detail", "")]}, True)
    if known:
        run.known.append("property=C01 spline-corridor: with EdgeRoutingSplines Layout panics or does not return when an edge spans more than one band or a node has zero width (%d of %d spline cases in this run: %d panic, %d no return within 4 s)"
                         % (known, len(index), sum(1 for e in index if e["outcome"] == "panic" and (e.get("long_edge") or e.get("zero_width"))),
                            sum(1 for e in index if e["outcome"] == "hang" and (e.get("long_edge") or e.get("zero_width")))))
    if run.prop == "C01":
        for e in index:
            if e.get("error"):
                run.violation("tracing a spline case failed: " + e["error"][:300], {"kind": "input", "property": "C01", "case": e["case"], "messages": [e["error"]]}, True)
        return
    # C05 / C06: oracles and correspondence
    key = run.prop.lower()
    shown = 0
    for e in index:
        if e.get(key) and shown < 3:
            shown += 1
            run.violation("; ".join(e[key])[:300], {"kind": "input", "property": run.prop, "case": e["case"], "messages": e[key]}, True)
    from __main__ import coq_pool
    import glob as _g
    shards = sorted(_g.glob(os.path.join(sdir, "cases_*.v")))
    res = coq_pool(shards, sdir)
    relevant = run.spec.get("relevant", lambda code: True)
    traced = 0
    for sfile in shards:
        rcq, outq = res[sfile]
        m = re.search(r"M =\s*(.*?)\s*:\s*list \(nat \* list nat\)", outq, re.S)
        m2 = re.search(r"S =\s*(.*?)\s*:\s*list \(nat \* list nat\)", outq, re.S)
        if rcq != 0 or not m or not m2:
            run.violation(f"the model could not be evaluated on {os.path.basename(sfile)}: " + outq[-600:], {"kind": "correspondence", "step": "coqc", "output": outq[-3000:]}, False)
            continue
        traced += sum(1 for e in index if e.get("shard") == shards.index(sfile))
        for body, spline in ((m.group(1), False), (m2.group(1), True)):
            for cm in re.finditer(r"\((\d+)%nat,\s*\[(.*?)\]\)", body, re.S):
                idx = int(cm.group(1))
                codes = [int(x) for x in re.findall(r"(\d+)%nat", cm.group(2))]
                # 902: the inner control points of a spline are not dyadic; adding the component shift rounds
                rel_codes = codes if spline else [c for c in codes if relevant(c) and c != 902]
                if not rel_codes:
                    continue
                run.cov["correspondence_mismatches"] += 1
                run.mismatch(index[idx]["case"], rel_codes)
    run.cov["traces_validated_against_impl"] += traced
    run.cov["spline_routing"]["traced_cases"] = traced


def install_known(table):
    """known-finding classes: predicates over (message text, case) that delimit a recorded finding by input class"""
    def ns_positioner_slow(text, case):
        return bool(case) and case.get("p4") == "ns" and len(case.get("edges", [])) >= 40 and "did not return within" in text
    table["ns-positioner-slow"] = ns_positioner_slow
