"""Per-property configuration of bin/check: which steps/fields of the correspondence a property depends on,
which generator and oracle of the Go harness serve it, how many cases per tier, and custom steps."""
import json, os, re, subprocess, sys, time

STRUCT = {1, 6, 9, 10}
LAYER = {2, 11}
POS = {3, 11}
SIZE = {4}
XY = {5, 12}
ROUTE = {7}
TREE = {8}
ERR = {97, 98, 99}
ALLF = STRUCT | LAYER | POS | SIZE | XY | ROUTE
COMP = {9, 10, 20, 21, 50}


def rel(steps):
    def f(code):
        if code >= 4000:
            return False
        step, field = divmod(code, 100)
        fs = steps.get(step)
        return fs is not None and (field in fs or field in ERR)
    return f


def c03_unit(c):
    if c.get("infeasible_edge"):
        return "edge %s -> %s joins bands %d and %d afterwards: it no longer points to a lower band" % (
            c["infeasible_edge"][0], c["infeasible_edge"][1], c["after"][c["infeasible_edge"][0]], c["after"][c["infeasible_edge"][1]])
    return None


def c10_unit(c):
    if c["fn"] == "ns":
        if c.get("infeasible_edge"):
            return c03_unit(c)
        if c.get("model_certified") and c["length_after"] > c["model_optimum"]:
            return "network simplex returns total edge length %d, the certified minimum is %d" % (c["length_after"], c["model_optimum"])
        if c.get("empty_layer", -1) != -1:
            return "band %d is empty" % c["empty_layer"]
        return None
    if c.get("infeasible_edge"):
        return c03_unit(c)
    if c["length_after"] != c["length_before"]:
        return "total edge length changed from %d to %d" % (c["length_before"], c["length_after"])
    if c.get("empty_layer", -1) != -1 and c["fn"] == "vbalance":
        return "band %d is empty afterwards" % c["empty_layer"]
    return None


PROPS = {
    "C01": dict(units=["p1greedy", "p1dfs"], n_units=dict(quick=1500, thorough=20000), trace_gen="C02", oracle="C01", relevant=rel({s: set() for s in list(range(0, 9)) + [15, 16]}),
                trace_env={"VH_DEEP": "1"}, n_trace=dict(quick=96, thorough=800), n_search=dict(quick=1500, thorough=40000)),
    "C02": dict(trace_gen="C02", oracle="C02",
                relevant=rel({0: STRUCT | SIZE | {50}, 1: COMP, 2: STRUCT, 3: STRUCT, 5: STRUCT, 7: STRUCT | ROUTE, 8: STRUCT | ROUTE | SIZE, 9: {1, 2}}),
                n_trace=dict(quick=200, thorough=2000), n_search=dict(quick=3000, thorough=60000)),
    "C03": dict(trace_gen="C03", oracle="C03",
                relevant=rel({3: STRUCT, 4: LAYER, 5: LAYER | STRUCT, 6: XY, 7: ROUTE | STRUCT, 8: ROUTE | STRUCT, 9: {1, 2}}),
                n_trace=dict(quick=200, thorough=2000), n_search=dict(quick=3000, thorough=60000),
                units=["vbalance", "normalize", "ns"], n_units=dict(quick=1200, thorough=12000), unit_classify=c03_unit),
    "C04": dict(trace_gen="C04", oracle="C04", relevant=rel({5: POS, 6: XY | SIZE, 9: {1}}),
                n_trace=dict(quick=160, thorough=1500), n_search=dict(quick=3000, thorough=60000)),
    "C05": dict(trace_gen="C05", oracle="C05", relevant=rel({6: XY, 7: ROUTE | STRUCT, 8: ROUTE | STRUCT, 9: {1, 2}}),
                n_trace=dict(quick=200, thorough=2000), n_search=dict(quick=3000, thorough=60000)),
    "C06": dict(trace_gen="C06", oracle="C06", relevant=rel({5: STRUCT | LAYER | POS, 6: XY, 7: ROUTE | STRUCT, 9: {1, 2}}),
                n_trace=dict(quick=160, thorough=1500), n_search=dict(quick=3000, thorough=60000)),
    "C07": dict(trace_gen="C07", oracle="C07", relevant=rel({**{s: ALLF | COMP for s in list(range(0, 10)) + [16]}, 13: {0}, 15: ALLF | {0}}),
                trace_env={"VH_DEEP": "1"}, n_trace=dict(quick=96, thorough=800), n_search=dict(quick=1500, thorough=20000)),
    "C08": dict(trace_gen="C08", oracle="C08", relevant=rel({0: ALLF | {50}}),
                n_trace=dict(quick=200, thorough=2000), n_search=dict(quick=2500, thorough=40000)),
    "C09": dict(trace_gen="C09", oracle="C09", relevant=rel({0: STRUCT, 1: COMP, 9: {1, 2}}),
                n_trace=dict(quick=160, thorough=1500), n_search=dict(quick=2500, thorough=40000)),
    "C10": dict(trace_gen="C10", oracle="C10", relevant=rel({3: STRUCT, 4: LAYER | TREE, 14: {1, 2, 3}}), trace_env={"VH_CERT": "1"},
                units=["vbalance", "normalize", "ns"], n_units=dict(quick=1200, thorough=12000), unit_classify=c10_unit,
                n_trace=dict(quick=200, thorough=2000), n_search=dict(quick=1500, thorough=20000)),
    "C11": dict(trace_gen="C11", oracle="C11", relevant=rel({3: STRUCT, 4: LAYER}),
                n_trace=dict(quick=200, thorough=2000), n_search=dict(quick=3000, thorough=60000)),
    "C12": dict(trace_gen="C12", oracle="C12", relevant=rel({5: POS | STRUCT, 6: XY, 7: ROUTE, 9: {1, 2}, 13: {0, 1}, 15: ALLF | {0}, 16: {2, 3, 4}}),
                trace_env={"VH_DEEP": "1"}, n_trace=dict(quick=96, thorough=800), n_search=dict(quick=1500, thorough=30000)),
    "C13": dict(trace_gen="C13", oracle="C13", relevant=rel({4: LAYER, 5: POS | STRUCT, 13: {0, 1}, 15: ALLF | {0}, 16: {4}}),
                trace_env={"VH_DEEP": "1"}, n_trace=dict(quick=96, thorough=800), n_search=dict(quick=2000, thorough=40000)),
    "C14": dict(units=["p1greedy", "p1dfs"], n_units=dict(quick=1500, thorough=20000), trace_gen="C14", oracle="C14", relevant=rel({2: STRUCT, 3: STRUCT, 8: STRUCT}),
                n_trace=dict(quick=200, thorough=2000), n_search=dict(quick=3000, thorough=60000)),
    "C15": dict(level="proof", oracle="C15", n_search=dict(quick=150, thorough=3000), race=True, n_race=dict(quick=40, thorough=600)),
    "C16": dict(trace_gen="C16", oracle="C16", relevant=rel({5: POS | STRUCT, 6: XY | SIZE, 9: {1}}),
                n_trace=dict(quick=200, thorough=2000), n_search=dict(quick=3000, thorough=60000)),
    "C17": dict(trace_gen="C17", oracle="C17", relevant=rel({6: XY | SIZE, 7: ROUTE}),
                n_trace=dict(quick=160, thorough=1500), n_search=dict(quick=2500, thorough=40000)),
    "C18": dict(level="proof", oracle="C18", n_search=dict(quick=600, thorough=20000)),
    "C19": dict(level="proof"),
    "C20": dict(level="proof"),
}


def install_known(table):
    """known-finding classes: predicates over (message text, case) that delimit a recorded finding by input class"""
    def ns_positioner_slow(text, case):
        return bool(case) and case.get("p4") == "ns" and len(case.get("edges", [])) >= 40 and "did not return within" in text
    table["ns-positioner-slow"] = ns_positioner_slow
