(* C19, three rectangles — the heavy part of the development (144 generated case files, about an hour of compilation on 16 cores):
   built by /verif/bin/heavy, not by the registered checks. For every corridor of at most three rectangles in the router's class
   (start strictly inside the top edge of the first rectangle, end strictly inside the bottom edge of the last; all relative
   positions of the sides, equal edges included) the exact model of geom.Shortest returns, and EVERY SEGMENT of its answer lies
   inside the corridor. Method: symbolic evaluation of triangulation, dual graph and funnel per relative position of the two
   junctions (81 positions, 63 further sub-cases), each leaf closed by linear/non-linear rational arithmetic. *)
From Coq Require Import List QArith.
From Autog Require Import Base Geom GeomProofs GeomPaths3 GeomContainThree.
Import ListNotations.

Theorem C19_answer_inside_up_to_three_rectangles : forall rects p1 p2 path, (length rects <= 3)%nat ->
  corridor_class rects p1 p2 = true -> shortest p1 p2 rects = Ok path ->
  forall a b p, consecutive a b path -> on_segment a b p -> in_corridor rects p.
Proof. exact class_answer_inside_upto3. Qed.
Print Assumptions C19_answer_inside_up_to_three_rectangles.

Theorem C19_three_rectangles_always_answer : forall r1 r2 r3 p1 p2, corridor_class [r1; r2; r3] p1 p2 = true ->
  exists path, shortest p1 p2 [r1; r2; r3] = Ok path /\
    forall a b p, consecutive a b path -> on_segment a b p -> in_corridor [r1; r2; r3] p.
Proof. exact three_rect_inside. Qed.
Print Assumptions C19_three_rectangles_always_answer.
