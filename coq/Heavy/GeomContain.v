(* GeomContain.v — containment of the corridor router's answer (property C19), part 1: tools.
   - [seg_in], [inside_res]: "the segment is inside the corridor", "the router answered a polyline inside the corridor";
   - sufficient conditions for a segment to be inside a corridor, with the crossing tests in determinant form
     (no division): one rectangle [seg_in_rect], two stacked rectangles [seg_in_two], three [seg_in_three];
   - the symbolic-evaluation engine of GeomTwo.v, re-targeted at goals [inside_res rects (shortest p1 p2 rects)]. *)
From Coq Require Import Lqa.
From Autog Require Import Base Geom GeomProofs GeomTwo GeomTwo2.
Local Open Scope Q_scope.

Definition seg_in (rects : list rect) (a b : pt) : Prop := forall p, on_segment a b p -> in_corridor rects p.

Fixpoint segs_in (rects : list rect) (path : list pt) : Prop :=
  match path with
  | a :: ((b :: _) as t) => seg_in rects a b /\ segs_in rects t
  | _ => True
  end.

Definition path_in (rects : list rect) (path : list pt) : Prop :=
  forall a b p, consecutive a b path -> on_segment a b p -> in_corridor rects p.

Definition inside_res (rects : list rect) (r : res (list pt)) : Prop :=
  match r with Ok path => segs_in rects path | Err _ => False end.

Lemma segs_in_path_in rects path : segs_in rects path -> path_in rects path.
Proof.
  intros H a b p [l1 [l2 ->]]. revert H. induction l1 as [|x l1 IH]; intros H.
  - cbn [app segs_in] in H. destruct H as [H _]. apply H.
  - apply IH. cbn [app] in H. destruct (l1 ++ a :: b :: l2) eqn:E.
    + destruct l1; discriminate E.
    + cbn [segs_in] in H. tauto.
Qed.

Lemma inside_res_spec rects r :
  inside_res rects r -> exists path, r = Ok path /\ path_in rects path.
Proof.
  destruct r as [path|e]; cbn [inside_res]; intros H; [|contradiction].
  exists path. split; [reflexivity | exact (segs_in_path_in rects path H)].
Qed.

Lemma seg_in_sym rects a b : seg_in rects b a -> seg_in rects a b.
Proof. intros H p Hp. apply H. apply on_segment_sym. exact Hp. Qed.

Lemma seg_in_rect rects r a b : In r rects -> in_rect r a -> in_rect r b -> seg_in rects a b.
Proof. intros Hr Ha Hb p Hp. exists r. split; [exact Hr | exact (in_rect_convex r a b p Ha Hb Hp)]. Qed.

Lemma seg_in_split rects a b c : on_segment a b c -> seg_in rects a c -> seg_in rects c b -> seg_in rects a b.
Proof.
  intros Hc H1 H2 p Hp. destruct (on_segment_split a b c p Hc Hp) as [H|H]; [exact (H1 p H) | exact (H2 p H)].
Qed.

(* the point of a -> b on the level y lies in the window [lo, hi] : determinant form *)
Lemma cross_window a b y lo hi :
  py a < py b ->
  (lo - px a) * (py b - py a) <= (y - py a) * (px b - px a) ->
  (y - py a) * (px b - px a) <= (hi - px a) * (py b - py a) ->
  lo <= px (cross a b y) <= hi /\ py (cross a b y) == y.
Proof.
  intros Hab H1 H2. split; [split; [apply cross_x_ge | apply cross_x_le]; assumption|].
  unfold cross, py at 1. cbn [snd]. reflexivity.
Qed.

(* two stacked rectangles: a in the upper one, b in the lower one, the segment passes the shared level y in [lo, hi] *)
Lemma seg_in_two rects (r r' : rect) a b y lo hi :
  In r rects -> In r' rects -> in_rect r a -> in_rect r' b ->
  py a < y -> y < py b -> y == py (r_br r) -> y == py (r_tl r') ->
  px (r_tl r) <= lo -> px (r_tl r') <= lo -> hi <= px (r_br r) -> hi <= px (r_br r') ->
  (lo - px a) * (py b - py a) <= (y - py a) * (px b - px a) ->
  (y - py a) * (px b - px a) <= (hi - px a) * (py b - py a) ->
  seg_in rects a b.
Proof.
  intros Hr Hr' Ha Hb Y1 Y2 E1 E2 L1 L2 R1 R2 D1 D2.
  assert (Hab : py a < py b) by lra.
  destruct (cross_window a b y lo hi Hab D1 D2) as [[C1 C2] C3].
  pose proof (cross_on_segment a b y Y1 Y2) as Hc.
  destruct Ha as [[A1 A2] [A3 A4]]. destruct Hb as [[B1 B2] [B3 B4]].
  apply (seg_in_split rects a b (cross a b y) Hc).
  - apply (seg_in_rect rects r); [exact Hr | repeat split; assumption | repeat split; lra].
  - apply (seg_in_rect rects r'); [exact Hr' | repeat split; lra | repeat split; assumption].
Qed.

(* a point of the segment a -> b at a level between y and py b is on the sub-segment from the crossing of y *)
Lemma cross_cross a b y y' :
  py a < y -> y < y' -> y' < py b ->
  on_segment (cross a b y) b (cross a b y').
Proof.
  intros H1 H2 H3.
  assert (Hd : ~ py b - py a == 0) by lra. assert (Hd' : ~ py b - y == 0) by lra.
  exists ((y' - y) / (py b - y)). split.
  - split; [apply Qle_shift_div_l; lra | apply Qle_shift_div_r; lra].
  - unfold cross, px, py in *. cbn [fst snd] in *. split; field; repeat split; lra.
Qed.

Lemma seg_in_three rects (r r' r'' : rect) a b y lo hi y' lo' hi' :
  In r rects -> In r' rects -> In r'' rects -> in_rect r a -> in_rect r'' b ->
  py a < y -> y < y' -> y' < py b ->
  y == py (r_br r) -> y == py (r_tl r') -> y' == py (r_br r') -> y' == py (r_tl r'') ->
  px (r_tl r) <= lo -> px (r_tl r') <= lo -> hi <= px (r_br r) -> hi <= px (r_br r') ->
  px (r_tl r') <= lo' -> px (r_tl r'') <= lo' -> hi' <= px (r_br r') -> hi' <= px (r_br r'') ->
  (lo - px a) * (py b - py a) <= (y - py a) * (px b - px a) ->
  (y - py a) * (px b - px a) <= (hi - px a) * (py b - py a) ->
  (lo' - px a) * (py b - py a) <= (y' - py a) * (px b - px a) ->
  (y' - py a) * (px b - px a) <= (hi' - px a) * (py b - py a) ->
  seg_in rects a b.
Proof.
  intros Hr Hr' Hr'' Ha Hb Y1 Y2 Y3 E1 E2 E3 E4 L1 L2 R1 R2 L1' L2' R1' R2' D1 D2 D1' D2'.
  assert (Hab : py a < py b) by lra.
  destruct (cross_window a b y lo hi Hab D1 D2) as [[C1 C2] C3].
  destruct (cross_window a b y' lo' hi' Hab D1' D2') as [[C1' C2'] C3'].
  assert (Yb : y < py b) by lra.
  pose proof (cross_on_segment a b y Y1 Yb) as Hc.
  pose proof (cross_cross a b y y' Y1 Y2 Y3) as Hc'.
  destruct Ha as [[A1 A2] [A3 A4]]. destruct Hb as [[B1 B2] [B3 B4]].
  apply (seg_in_split rects a b (cross a b y) Hc).
  - apply (seg_in_rect rects r); [exact Hr | repeat split; assumption | repeat split; lra].
  - apply (seg_in_split rects _ b (cross a b y') Hc').
    + apply (seg_in_rect rects r'); [exact Hr' | repeat split; lra | repeat split; lra].
    + apply (seg_in_rect rects r''); [exact Hr'' | repeat split; lra | repeat split; assumption].
Qed.

(* ================= the engine, for goals  inside_res rects (shortest p1 p2 rects) ================= *)
Ltac enorm3 := cbv -[orientation Qeq_bool Qlt_bool Qle_bool funnel shrink_left shrink_right walk_pred inside_res].
Ltac estep3 :=
  first [ rewrite !if_same
        | qdec1
        | match goal with |- context [orientation ?a ?b ?c] => first [odec a b c | osplit a b c] end
        | rewrite funnel_cons | rewrite funnel_nil | rewrite shrink_left_S | rewrite shrink_right_S
        | rewrite walk_pred_S ];
  enorm3.

Ltac tri_eval3 :=
  unfold triangulate;
  cbn [length iota fold_left nth Nat.eqb Nat.sub r_tl r_br px py fst snd];
  unfold left2right, leftmost, rightmost_pt, add_tri; cbn [px py fst snd];
  repeat qdec1; cbn [negb app length]; reflexivity.

(* ================= closing a leaf: every segment of a closed polyline is inside a closed three-rectangle corridor ================= *)
Ltac cn := cbn [r_tl r_br px py fst snd].
Ltac in_tac := cbn [In]; tauto.
Ltac rect_tac := unfold in_rect; cn; lra.
Ltac lin_tac := cn; lra.
Ltac nl_tac := cn; nra.

Ltac seg_one R a b := solve [ apply (seg_in_rect _ R a b); [ in_tac | rect_tac | rect_tac ] ].

Ltac seg_two_with rects R R' a b lo hi :=
  solve [ apply (seg_in_two rects R R' a b (py (r_tl R')) lo hi);
          [ in_tac | in_tac | rect_tac | rect_tac | lin_tac | lin_tac | lin_tac | lin_tac
          | lin_tac | lin_tac | lin_tac | lin_tac | nl_tac | nl_tac ] ].

Ltac seg_two rects R R' a b :=
  first [ seg_two_with rects R R' a b (px (r_tl R)) (px (r_br R))
        | seg_two_with rects R R' a b (px (r_tl R)) (px (r_br R'))
        | seg_two_with rects R R' a b (px (r_tl R')) (px (r_br R))
        | seg_two_with rects R R' a b (px (r_tl R')) (px (r_br R')) ].

Ltac seg_three_with rects R R' R'' a b lo hi lo' hi' :=
  solve [ apply (seg_in_three rects R R' R'' a b (py (r_tl R')) lo hi (py (r_tl R'')) lo' hi');
          [ in_tac | in_tac | in_tac | rect_tac | rect_tac | lin_tac | lin_tac | lin_tac
          | lin_tac | lin_tac | lin_tac | lin_tac
          | lin_tac | lin_tac | lin_tac | lin_tac | lin_tac | lin_tac | lin_tac | lin_tac
          | nl_tac | nl_tac | nl_tac | nl_tac ] ].

Ltac seg_three rects R R' R'' a b :=
  first [ seg_three_with rects R R' R'' a b (px (r_tl R)) (px (r_br R)) (px (r_tl R')) (px (r_br R'))
        | seg_three_with rects R R' R'' a b (px (r_tl R)) (px (r_br R)) (px (r_tl R')) (px (r_br R''))
        | seg_three_with rects R R' R'' a b (px (r_tl R)) (px (r_br R)) (px (r_tl R'')) (px (r_br R'))
        | seg_three_with rects R R' R'' a b (px (r_tl R)) (px (r_br R)) (px (r_tl R'')) (px (r_br R''))
        | seg_three_with rects R R' R'' a b (px (r_tl R)) (px (r_br R')) (px (r_tl R')) (px (r_br R'))
        | seg_three_with rects R R' R'' a b (px (r_tl R)) (px (r_br R')) (px (r_tl R')) (px (r_br R''))
        | seg_three_with rects R R' R'' a b (px (r_tl R)) (px (r_br R')) (px (r_tl R'')) (px (r_br R'))
        | seg_three_with rects R R' R'' a b (px (r_tl R)) (px (r_br R')) (px (r_tl R'')) (px (r_br R''))
        | seg_three_with rects R R' R'' a b (px (r_tl R')) (px (r_br R)) (px (r_tl R')) (px (r_br R'))
        | seg_three_with rects R R' R'' a b (px (r_tl R')) (px (r_br R)) (px (r_tl R')) (px (r_br R''))
        | seg_three_with rects R R' R'' a b (px (r_tl R')) (px (r_br R)) (px (r_tl R'')) (px (r_br R'))
        | seg_three_with rects R R' R'' a b (px (r_tl R')) (px (r_br R)) (px (r_tl R'')) (px (r_br R''))
        | seg_three_with rects R R' R'' a b (px (r_tl R')) (px (r_br R')) (px (r_tl R')) (px (r_br R'))
        | seg_three_with rects R R' R'' a b (px (r_tl R')) (px (r_br R')) (px (r_tl R')) (px (r_br R''))
        | seg_three_with rects R R' R'' a b (px (r_tl R')) (px (r_br R')) (px (r_tl R'')) (px (r_br R'))
        | seg_three_with rects R R' R'' a b (px (r_tl R')) (px (r_br R')) (px (r_tl R'')) (px (r_br R'')) ].

(* the path runs from the end (bottom) to the start (top): turn each segment so that it starts at its upper end *)
Ltac seg_tac :=
  apply seg_in_sym;
  match goal with
  | |- seg_in ?rects ?a ?b =>
      match rects with
      | [?R1; ?R2; ?R3] =>
          first [ seg_one R1 a b | seg_one R2 a b | seg_one R3 a b
                | seg_two rects R1 R2 a b | seg_two rects R2 R3 a b
                | seg_three rects R1 R2 R3 a b ]
      end
  end.

Ltac leaf_tac := cbn [inside_res segs_in]; repeat split; seg_tac.

(* one relative position of three rectangles: triangulation, start/stop triangles, dual graph + DFS, funnel + walk, leaves *)
Ltac three_tac :=
  erewrite shortest_eval; cycle 1;
  [ tri_eval3 | pick_tri | pick_tri | reflexivity
  | cbn [t_id length]; dual_eval; vm_compute; reflexivity
  | enorm3; repeat estep3; first [ leaf_tac | exfalso; cn; nra ] ].
