(* GeomContain2.v — containment of the corridor router's answer (property C19), part 3: a search for a counterexample that
   found none, recorded as theorems.  For every instance of three finite families of corridors of the router's class the
   kernel runs the model and the VERIFIED containment checker [path_inside] on its answer ([family_ok], by vm_compute);
   [family_sound] turns that into the containment statement for every member of the family:
   - [grid3]: ALL corridors of three rectangles with left sides in {0,3,6}, right sides in {4,7,10}, heights in {1,3}
     (4096 corridors, 3200 well-formed), with 3 x 3 start/end positions (near the left corner, middle, near the right corner):
     28800 instances of the class, many with collinear corners;
   - [rand5], [rand8]: pseudo-random corridors of 5 and 8 rectangles with start/end at pseudo-random eighths.
   In all of them the router answers (no error) and the answer is inside the corridor. *)
From Coq Require Import List QArith ZArith.
From Autog Require Import Base Geom GeomProofs GeomPaths3 GeomContain.
Import ListNotations.
Local Open Scope Z_scope.

Definition instance := (list rect * pt * pt)%type.

(* the instance is in the class, the router answers and the verified checker accepts the answer *)
Definition inst_ok (i : instance) : bool :=
  let '(rects, p1, p2) := i in
  corridor_class rects p1 p2 &&
  match shortest p1 p2 rects with Ok path => path_inside rects path | Err _ => false end.

Definition family_ok (l : list instance) : bool := forallb inst_ok l.

Theorem family_sound l : family_ok l = true ->
  forall rects p1 p2, In (rects, p1, p2) l ->
    corridor_class rects p1 p2 = true /\
    exists path, shortest p1 p2 rects = Ok path /\
      forall a b p, consecutive a b path -> on_segment a b p -> in_corridor rects p.
Proof.
  unfold family_ok. rewrite forallb_forall. intros H rects p1 p2 Hin. specialize (H _ Hin). unfold inst_ok in H.
  apply andb_true_iff in H. destruct H as [Hc H]. split; [exact Hc|].
  destruct (shortest p1 p2 rects) as [path|e]; [|discriminate H].
  exists path. split; [reflexivity | exact (path_inside_sound rects path H)].
Qed.
Print Assumptions family_sound.

(* ---------- building corridors: a list of (left, right, height), stacked from y = 0 ---------- *)
Fixpoint mk_rects (y : Z) (l : list (Z * Z * Z)) : list rect :=
  match l with
  | [] => []
  | (a, b, h) :: t => mkRect (inject_Z a, inject_Z y) (inject_Z b, inject_Z (y + h)) :: mk_rects (y + h) t
  end.
Definition total_h (l : list (Z * Z * Z)) : Z := fold_left (fun s x => s + snd x) l 0.

(* ---------- the grid of three rectangles ---------- *)
Definition xs_of (a b : Z) : list Q := [ (2 * a + 1) # 2 ; (a + b) # 2 ; (2 * b - 1) # 2 ]%Q.
Definition shapes : list (Z * Z) := [(0,4);(0,7);(0,10);(3,4);(3,7);(3,10);(6,7);(6,10)].
Definition grid_rects : list (Z*Z*Z) := flat_map (fun s => [(fst s, snd s, 1); (fst s, snd s, 3)]) shapes.
Definition overlap (x y : Z*Z*Z) : bool := (Z.max (fst (fst x)) (fst (fst y)) <? Z.min (snd (fst x)) (snd (fst y))).

Definition grid3 : list instance :=
  flat_map (fun a => flat_map (fun b => flat_map (fun c =>
    if overlap a b && overlap b c then
      let l := [a; b; c] in
      flat_map (fun x1 => map (fun x2 => (mk_rects 0 l, (x1, 0%Q), (x2, inject_Z (total_h l))))
                            (xs_of (fst (fst c)) (snd (fst c)))) (xs_of (fst (fst a)) (snd (fst a)))
    else []) grid_rects) grid_rects) grid_rects.

Example grid3_size : length grid3 = 28800%nat.
Proof. vm_compute. reflexivity. Qed.

Theorem grid3_ok : family_ok grid3 = true.
Proof. vm_compute. reflexivity. Qed.

Corollary grid3_inside : forall rects p1 p2 path, In (rects, p1, p2) grid3 -> shortest p1 p2 rects = Ok path ->
  forall a b p, consecutive a b path -> on_segment a b p -> in_corridor rects p.
Proof.
  intros rects p1 p2 path Hin Hs. destruct (family_sound grid3 grid3_ok rects p1 p2 Hin) as [_ [path' [E H]]].
  rewrite E in Hs. injection Hs as <-. exact H.
Qed.
Print Assumptions grid3_inside.

(* ---------- pseudo-random corridors ---------- *)
Definition lcg (s : Z) : Z := (s * 1103515245 + 12345) mod 2147483648.
Definition rnd (s : Z) (n : Z) : Z := (s / 65536) mod n.

(* each next rectangle overlaps the previous one [pa, pb] in a segment of positive length *)
Fixpoint gen (k : nat) (s : Z) (pa pb : Z) (W : Z) (H : Z) : list (Z*Z*Z) * Z :=
  match k with
  | O => ([], s)
  | S k' =>
     let s1 := lcg s in let s2 := lcg s1 in let s3 := lcg s2 in
     let a := rnd s1 pb in
     let lo := Z.max a pa + 1 in
     let b := lo + rnd s2 (W - lo + 1) in
     let h := 1 + rnd s3 H in
     let '(rest, s') := gen k' s3 a b W H in
     ((a, b, h) :: rest, s')
  end.

Fixpoint gen_list (n k : nat) (s : Z) (W H : Z) : list instance :=
  match n with
  | O => []
  | S n' =>
     let '(c, s') := gen k s 0 W W H in
     let s1 := lcg s' in let s2 := lcg s1 in
     match c with
     | [] => []
     | (a, b, _) :: _ =>
        let '(a', b', _) := last c (a, b, 0) in
        let x1 := ((8 * a + 1 + rnd s1 (8 * (b - a) - 1)) # 8)%Q in
        let x2 := ((8 * a' + 1 + rnd s2 (8 * (b' - a') - 1)) # 8)%Q in
        (mk_rects 0 c, (x1, 0%Q), (x2, inject_Z (total_h c))) :: gen_list n' k s2 W H
     end
  end.

Definition rand5 : list instance := gen_list 1500 5 44 16 8.
Definition rand8 : list instance := gen_list 500 8 45 10 3.

Example rand_sizes : length rand5 = 1500%nat /\ length rand8 = 500%nat /\
  forallb (fun i : instance => Nat.eqb (length (fst (fst i))) 5) rand5 = true /\
  forallb (fun i : instance => Nat.eqb (length (fst (fst i))) 8) rand8 = true.
Proof. vm_compute. repeat split. Qed.

Theorem rand5_ok : family_ok rand5 = true.
Proof. vm_compute. reflexivity. Qed.
Theorem rand8_ok : family_ok rand8 = true.
Proof. vm_compute. reflexivity. Qed.

Corollary rand_inside : forall rects p1 p2 path, In (rects, p1, p2) (rand5 ++ rand8) -> shortest p1 p2 rects = Ok path ->
  forall a b p, consecutive a b path -> on_segment a b p -> in_corridor rects p.
Proof.
  intros rects p1 p2 path Hin Hs. apply in_app_or in Hin.
  assert (H : exists path', shortest p1 p2 rects = Ok path' /\
     forall a b p, consecutive a b path' -> on_segment a b p -> in_corridor rects p).
  { destruct Hin as [Hin|Hin].
    - exact (proj2 (family_sound rand5 rand5_ok rects p1 p2 Hin)).
    - exact (proj2 (family_sound rand8 rand8_ok rects p1 p2 Hin)). }
  destruct H as [path' [E H]]. rewrite E in Hs. injection Hs as <-. exact H.
Qed.
Print Assumptions rand_inside.
