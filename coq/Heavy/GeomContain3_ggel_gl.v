(* GeomContain3_ggel_gl.v — generated: three rectangles, relative position ggel, sub-position gl
   (the order of b3 and b1, a1, which the dual graph needs; see GeomContainThree.v) *)
From Coq Require Import Lqa.
From Autog Require Import Base Geom GeomProofs GeomTwo GeomTwo2 GeomContain GeomContainB GeomContainC.
Local Open Scope Q_scope.
Local Opaque Qlt_bool Qeq_bool Qle_bool orientation.

Lemma three_ggel_gl (a1 b1 a2 b2 a3 b3 y0 y1 y1' y2 y2' y3 s e t0 t3 : Q) :
  y0 < y1 -> y1 == y1' -> y1' < y2 -> y2 == y2' -> y2' < y3 ->
  a1 < b1 -> a2 < b2 -> a3 < b3 -> a1 < b2 -> a2 < b1 -> a2 < b3 -> a3 < b2 ->
  t0 == y0 -> t3 == y3 -> a1 < s < b1 -> a3 < e < b3 ->
  a2 < a1 -> b1 < b2 -> a2 == a3 -> b3 < b2 -> b3 < b1 -> a1 < b3 ->
  inside_res [mkRect (a1, y0) (b1, y1); mkRect (a2, y1') (b2, y2); mkRect (a3, y2') (b3, y3)]
    (shortest (s, t0) (e, t3) [mkRect (a1, y0) (b1, y1); mkRect (a2, y1') (b2, y2); mkRect (a3, y2') (b3, y3)]).
Proof.
  intros Hy01 Hy11 Hy12 Hy22 Hy23 Hab1 Hab2 Hab3 Hab12 Hab21 Hab23 Hab32 Ht0 Ht3 Hs He Ha Hb Ha' Hb' Hx0 Hx1.
  first [ exfalso; lra | three_tacC ].
Qed.
