(* GeomContain3_ggll.v — generated: three rectangles, relative position ggll: the sub-positions put together (see GeomContainThree.v) *)
From Coq Require Import Lqa.
From Autog Require Import Base Geom GeomProofs GeomTwo GeomTwo2 GeomContain.
From Autog Require Import GeomContain3_ggll_ll GeomContain3_ggll_le GeomContain3_ggll_lg GeomContain3_ggll_el GeomContain3_ggll_ee GeomContain3_ggll_eg GeomContain3_ggll_gl GeomContain3_ggll_ge GeomContain3_ggll_gg.
Local Open Scope Q_scope.

Lemma three_ggll (a1 b1 a2 b2 a3 b3 y0 y1 y1' y2 y2' y3 s e t0 t3 : Q) :
  y0 < y1 -> y1 == y1' -> y1' < y2 -> y2 == y2' -> y2' < y3 ->
  a1 < b1 -> a2 < b2 -> a3 < b3 -> a1 < b2 -> a2 < b1 -> a2 < b3 -> a3 < b2 ->
  t0 == y0 -> t3 == y3 -> a1 < s < b1 -> a3 < e < b3 ->
  a2 < a1 -> b1 < b2 -> a2 < a3 -> b3 < b2 ->
  inside_res [mkRect (a1, y0) (b1, y1); mkRect (a2, y1') (b2, y2); mkRect (a3, y2') (b3, y3)]
    (shortest (s, t0) (e, t3) [mkRect (a1, y0) (b1, y1); mkRect (a2, y1') (b2, y2); mkRect (a3, y2') (b3, y3)]).
Proof.
  intros Hy01 Hy11 Hy12 Hy22 Hy23 Hab1 Hab2 Hab3 Hab12 Hab21 Hab23 Hab32 Ht0 Ht3 Hs He Ha Hb Ha' Hb'.
  destruct (Q_dec b1 b3) as [[Hx0|Hx0]|Hx0]; destruct (Q_dec a1 b3) as [[Hy0|Hy0]|Hy0];
  first [ apply three_ggll_ll; assumption
        | apply three_ggll_le; assumption
        | apply three_ggll_lg; assumption
        | apply three_ggll_el; assumption
        | apply three_ggll_ee; assumption
        | apply three_ggll_eg; assumption
        | apply three_ggll_gl; assumption
        | apply three_ggll_ge; assumption
        | apply three_ggll_gg; assumption ].
Qed.
