(* GeomContain3_lelg.v — generated: three rectangles, relative position lelg (see GeomContainThree.v) *)
From Coq Require Import Lqa.
From Autog Require Import Base Geom GeomProofs GeomTwo GeomTwo2 GeomContain GeomContainB.
Local Open Scope Q_scope.
Local Opaque Qlt_bool Qeq_bool Qle_bool orientation.

Lemma three_lelg (a1 b1 a2 b2 a3 b3 y0 y1 y1' y2 y2' y3 s e t0 t3 : Q) :
  y0 < y1 -> y1 == y1' -> y1' < y2 -> y2 == y2' -> y2' < y3 ->
  a1 < b1 -> a2 < b2 -> a3 < b3 -> a1 < b2 -> a2 < b1 -> a2 < b3 -> a3 < b2 ->
  t0 == y0 -> t3 == y3 -> a1 < s < b1 -> a3 < e < b3 ->
  a1 < a2 -> b1 == b2 -> a2 < a3 -> b2 < b3 ->
  inside_res [mkRect (a1, y0) (b1, y1); mkRect (a2, y1') (b2, y2); mkRect (a3, y2') (b3, y3)]
    (shortest (s, t0) (e, t3) [mkRect (a1, y0) (b1, y1); mkRect (a2, y1') (b2, y2); mkRect (a3, y2') (b3, y3)]).
Proof.
  intros Hy01 Hy11 Hy12 Hy22 Hy23 Hab1 Hab2 Hab3 Hab12 Hab21 Hab23 Hab32 Ht0 Ht3 Hs He Ha Hb Ha' Hb'.
  erewrite shortest_eval; cycle 1;
  [ tri_eval3 | pick_tri | pick_tri | reflexivity
  | cbn [t_id length]; dual_eval; vm_compute; reflexivity
  | enorm3; repeat estep3; try (any_leaf; fail) ].
  (* DIAG *) all: (repeat match goal with H : _ |- _ => revert H end; match goal with |- ?G => idtac "LEMMA" G end).
Qed.
