(* GeomContain3_lgll.v — generated: three rectangles, relative position lgll: the sub-positions put together (see GeomContainThree.v) *)
From Coq Require Import Lqa.
From Autog Require Import Base Geom GeomProofs GeomTwo GeomTwo2 GeomContain.
From Autog Require Import GeomContain3_lgll_l GeomContain3_lgll_e GeomContain3_lgll_g.
Local Open Scope Q_scope.

Lemma three_lgll (a1 b1 a2 b2 a3 b3 y0 y1 y1' y2 y2' y3 s e t0 t3 : Q) :
  y0 < y1 -> y1 == y1' -> y1' < y2 -> y2 == y2' -> y2' < y3 ->
  a1 < b1 -> a2 < b2 -> a3 < b3 -> a1 < b2 -> a2 < b1 -> a2 < b3 -> a3 < b2 ->
  t0 == y0 -> t3 == y3 -> a1 < s < b1 -> a3 < e < b3 ->
  a1 < a2 -> b1 < b2 -> a2 < a3 -> b3 < b2 ->
  inside_res [mkRect (a1, y0) (b1, y1); mkRect (a2, y1') (b2, y2); mkRect (a3, y2') (b3, y3)]
    (shortest (s, t0) (e, t3) [mkRect (a1, y0) (b1, y1); mkRect (a2, y1') (b2, y2); mkRect (a3, y2') (b3, y3)]).
Proof.
  intros Hy01 Hy11 Hy12 Hy22 Hy23 Hab1 Hab2 Hab3 Hab12 Hab21 Hab23 Hab32 Ht0 Ht3 Hs He Ha Hb Ha' Hb'.
  destruct (Q_dec b1 b3) as [[Hx0|Hx0]|Hx0];
  first [ apply three_lgll_l; assumption
        | apply three_lgll_e; assumption
        | apply three_lgll_g; assumption ].
Qed.
