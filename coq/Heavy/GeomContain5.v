(* GeomContain5.v — containment of the corridor router's answer (property C19), part 5: corridors of one and two
   rectangles of the router's class [corridor_class], from GeomProofs.v (one rectangle) and GeomTwo*.v (two rectangles),
   in the form of the general statement [class_answer_inside]; the three-rectangle case and the statement for all corridors
   of at most three rectangles are in GeomContainThree.v. *)
From Coq Require Import Lqa.
From Autog Require Import Base Geom GeomProofs GeomTwo GeomTwo2 GeomPaths GeomPaths3 GeomContain.
Local Open Scope Q_scope.

Theorem class_answer_inside_one : forall r p1 p2 path,
  corridor_class [r] p1 p2 = true -> shortest p1 p2 [r] = Ok path ->
  forall a b p, consecutive a b path -> on_segment a b p -> in_corridor [r] p.
Proof.
  intros r p1 p2 path Hc Hs. apply corridor_class_facts in Hc. destruct Hc as [W Hh _ P1y P1x P2y P2x].
  cbn [length Nat.sub nth] in P1y, P1x, P2y, P2x.
  pose proof (Hh r (or_introl eq_refl)) as H1. cbn [corridor_wf] in W. destruct W as [[W1 W2] _].
  assert (Hr : rect_strict r) by (unfold rect_strict; split; lra).
  assert (I1 : in_rect r p1) by (unfold in_rect; repeat split; lra).
  assert (I2 : in_rect r p2) by (unfold in_rect; repeat split; lra).
  assert (N1 : ~ pt_eq p1 (r_br r)) by (intros [A B]; lra).
  assert (N2 : ~ pt_eq p2 (r_br r)) by (intros [A B]; lra).
  destruct (shortest_one_rect_inside r p1 p2 Hr I1 I2 N1 N2) as [path' [E [Hin _]]].
  rewrite E in Hs. injection Hs as <-. exact (path_inside_sound [r] path' Hin).
Qed.
Print Assumptions class_answer_inside_one.

Lemma class_two_rect r1 r2 p1 p2 : corridor_class [r1; r2] p1 p2 = true -> two_rect_class r1 r2 p1 p2 = true.
Proof.
  unfold corridor_class, two_rect_class. cbn [corridor_ok heights_pos forallb last]. generalize (stacked r1 r2). intros st H.
  repeat match goal with
  | H : _ && _ = true |- _ => apply andb_true_iff in H; destruct H
  end.
  repeat (apply andb_true_iff; split); assumption.
Qed.

Theorem class_answer_inside_two : forall r1 r2 p1 p2 path,
  corridor_class [r1; r2] p1 p2 = true -> shortest p1 p2 [r1; r2] = Ok path ->
  forall a b p, consecutive a b path -> on_segment a b p -> in_corridor [r1; r2] p.
Proof.
  intros r1 r2 p1 p2 path Hc Hs. apply class_two_rect in Hc.
  rewrite (shortest_two_rect r1 r2 p1 p2 Hc) in Hs. injection Hs as <-.
  exact (path_inside_sound _ _ (two_rect_inside r1 r2 p1 p2 Hc)).
Qed.
Print Assumptions class_answer_inside_two.
