(* GeomContainB.v — containment of the corridor router's answer (property C19): a stronger leaf closer for the relative
   positions of three rectangles on which [nra] alone does not find the products it needs.  The levels (and abscissas)
   that are == are identified first ([canon]): with one name per level the crossing conditions, and the refutation of the
   leaves whose orientation tests are contradictory, are within reach of [nra]. *)
From Coq Require Import Lqa.
From Autog Require Import Base Geom GeomProofs GeomTwo GeomTwo2 GeomContain.
Local Open Scope Q_scope.

Ltac canon :=
  repeat match goal with
  | H : ?x == ?y |- _ => is_var x; is_var y; rewrite ?H in *; clear H
  end.
Ltac nl_tacB := cn; first [ nra | canon; nra ].

Ltac seg_two_withB rects R R' a b lo hi :=
  solve [ apply (seg_in_two rects R R' a b (py (r_tl R')) lo hi);
          [ in_tac | in_tac | rect_tac | rect_tac | lin_tac | lin_tac | lin_tac | lin_tac
          | lin_tac | lin_tac | lin_tac | lin_tac | nl_tacB | nl_tacB ] ].

Ltac seg_twoB rects R R' a b :=
  first [ seg_two_withB rects R R' a b (px (r_tl R)) (px (r_br R))
        | seg_two_withB rects R R' a b (px (r_tl R)) (px (r_br R'))
        | seg_two_withB rects R R' a b (px (r_tl R')) (px (r_br R))
        | seg_two_withB rects R R' a b (px (r_tl R')) (px (r_br R')) ].

Ltac seg_three_withB rects R R' R'' a b lo hi lo' hi' :=
  solve [ apply (seg_in_three rects R R' R'' a b (py (r_tl R')) lo hi (py (r_tl R'')) lo' hi');
          [ in_tac | in_tac | in_tac | rect_tac | rect_tac | lin_tac | lin_tac | lin_tac
          | lin_tac | lin_tac | lin_tac | lin_tac
          | lin_tac | lin_tac | lin_tac | lin_tac | lin_tac | lin_tac | lin_tac | lin_tac
          | nl_tacB | nl_tacB | nl_tacB | nl_tacB ] ].

Ltac seg_threeB rects R R' R'' a b :=
  first [ seg_three_withB rects R R' R'' a b (px (r_tl R)) (px (r_br R)) (px (r_tl R')) (px (r_br R'))
        | seg_three_withB rects R R' R'' a b (px (r_tl R)) (px (r_br R)) (px (r_tl R')) (px (r_br R''))
        | seg_three_withB rects R R' R'' a b (px (r_tl R)) (px (r_br R)) (px (r_tl R'')) (px (r_br R'))
        | seg_three_withB rects R R' R'' a b (px (r_tl R)) (px (r_br R)) (px (r_tl R'')) (px (r_br R''))
        | seg_three_withB rects R R' R'' a b (px (r_tl R)) (px (r_br R')) (px (r_tl R')) (px (r_br R'))
        | seg_three_withB rects R R' R'' a b (px (r_tl R)) (px (r_br R')) (px (r_tl R')) (px (r_br R''))
        | seg_three_withB rects R R' R'' a b (px (r_tl R)) (px (r_br R')) (px (r_tl R'')) (px (r_br R'))
        | seg_three_withB rects R R' R'' a b (px (r_tl R)) (px (r_br R')) (px (r_tl R'')) (px (r_br R''))
        | seg_three_withB rects R R' R'' a b (px (r_tl R')) (px (r_br R)) (px (r_tl R')) (px (r_br R'))
        | seg_three_withB rects R R' R'' a b (px (r_tl R')) (px (r_br R)) (px (r_tl R')) (px (r_br R''))
        | seg_three_withB rects R R' R'' a b (px (r_tl R')) (px (r_br R)) (px (r_tl R'')) (px (r_br R'))
        | seg_three_withB rects R R' R'' a b (px (r_tl R')) (px (r_br R)) (px (r_tl R'')) (px (r_br R''))
        | seg_three_withB rects R R' R'' a b (px (r_tl R')) (px (r_br R')) (px (r_tl R')) (px (r_br R'))
        | seg_three_withB rects R R' R'' a b (px (r_tl R')) (px (r_br R')) (px (r_tl R')) (px (r_br R''))
        | seg_three_withB rects R R' R'' a b (px (r_tl R')) (px (r_br R')) (px (r_tl R'')) (px (r_br R'))
        | seg_three_withB rects R R' R'' a b (px (r_tl R')) (px (r_br R')) (px (r_tl R'')) (px (r_br R'')) ].

Ltac seg_tacB :=
  apply seg_in_sym;
  match goal with
  | |- seg_in ?rects ?a ?b =>
      match rects with
      | [?R1; ?R2; ?R3] =>
          first [ seg_one R1 a b | seg_one R2 a b | seg_one R3 a b
                | seg_twoB rects R1 R2 a b | seg_twoB rects R2 R3 a b
                | seg_threeB rects R1 R2 R3 a b ]
      end
  end.

Ltac leaf_tacB := cbn [inside_res segs_in]; repeat split; seg_tacB.

(* ================= stage C: linear arithmetic over explicit products =================
   Every orientation test is a determinant  (x-difference) * (level difference) - ... ; with one name per level ([canon])
   the four levels give six positive differences.  [enrich] multiplies every determinant fact by the six differences,
   [enrich2] every strict inequality between two variables by the 21 products of two differences; the goal is multiplied
   by one difference; what is left is linear over the monomials ([lra]).  [eq_step]: a vanishing determinant with a
   common factor makes two abscissas equal. *)
Lemma mp_lt0 A d : 0 < A -> 0 < d -> 0 < A * d. Proof. intros; nra. Qed.
Lemma mp_gt0 A d : A < 0 -> 0 < d -> A * d < 0. Proof. intros; nra. Qed.
Lemma mp_eq0 A d : A == 0 -> 0 < d -> A * d == 0. Proof. intros H _. rewrite H. ring. Qed.
Lemma mp_lt A B d : A < B -> 0 < d -> A * d < B * d. Proof. intros; nra. Qed.
Lemma mp_le A B d : A <= B -> 0 < d -> A * d <= B * d. Proof. intros; nra. Qed.
Lemma mp_eq A B d : A == B -> 0 < d -> A * d == B * d. Proof. intros H _. rewrite H. ring. Qed.
Lemma goal_le A B d : 0 < d -> A * d <= B * d -> A <= B. Proof. intros; nra. Qed.
Lemma goal_lt A B d : 0 < d -> A * d < B * d -> A < B. Proof. intros; nra. Qed.

Ltac pose_prod H P :=
  lazymatch type of H with
  | 0 < ?A => pose proof (mp_lt0 _ _ H P)
  | ?A < 0 => pose proof (mp_gt0 _ _ H P)
  | ?A == 0 => pose proof (mp_eq0 _ _ H P)
  | ?A < ?B => pose proof (mp_lt _ _ _ H P)
  | ?A <= ?B => pose proof (mp_le _ _ _ H P)
  | ?A == ?B => pose proof (mp_eq _ _ _ H P)
  end.

Ltac prods6 H PY1 PY2 PY3 PY4 PY5 PY6 :=
  pose_prod H PY1; pose_prod H PY2; pose_prod H PY3; pose_prod H PY4; pose_prod H PY5; pose_prod H PY6.

(* multiply every hypothesis that has a product in it by the six differences *)
Ltac enrich PY1 PY2 PY3 PY4 PY5 PY6 :=
  repeat match goal with H : context [Qmult _ _] |- _ => revert H end;
  repeat match goal with |- (?T -> _) => let H := fresh "HD" in intro H; prods6 H PY1 PY2 PY3 PY4 PY5 PY6 end.

Lemma sub_pos u v : u < v -> 0 < v - u. Proof. intros; lra. Qed.
Ltac pp2 H P Q := pose proof (mp_lt0 _ _ (mp_lt0 _ _ (sub_pos _ _ H) P) Q).
Ltac prods21 H P1 P2 P3 P4 P5 P6 :=
  pp2 H P1 P1; pp2 H P1 P2; pp2 H P1 P3; pp2 H P1 P4; pp2 H P1 P5; pp2 H P1 P6;
  pp2 H P2 P2; pp2 H P2 P3; pp2 H P2 P4; pp2 H P2 P5; pp2 H P2 P6;
  pp2 H P3 P3; pp2 H P3 P4; pp2 H P3 P5; pp2 H P3 P6;
  pp2 H P4 P4; pp2 H P4 P5; pp2 H P4 P6;
  pp2 H P5 P5; pp2 H P5 P6; pp2 H P6 P6.
(* multiply every strict inequality between two variables by the 21 products of two differences *)
Ltac enrich2 P1 P2 P3 P4 P5 P6 :=
  repeat match goal with H : ?u < ?v |- _ => is_var u; is_var v; revert H end;
  repeat match goal with |- (?u < ?v -> _) => let H := fresh "HX" in intro H; prods21 H P1 P2 P3 P4 P5 P6 end.

Ltac close_with PY1 PY2 PY3 PY4 PY5 PY6 :=
  first [ lra
        | apply (goal_le _ _ _ PY1); lra | apply (goal_le _ _ _ PY2); lra | apply (goal_le _ _ _ PY3); lra
        | apply (goal_le _ _ _ PY4); lra | apply (goal_le _ _ _ PY5); lra | apply (goal_le _ _ _ PY6); lra ].

(* a vanishing determinant with a common factor: the two abscissas are equal *)
Ltac eq_step :=
  match goal with
  | H : (?x - ?y) * _ - _ * _ == 0 |- _ =>
      is_var x; is_var y; tryif constr_eq x y then fail else (assert (x == y) by nra; canon)
  | H : _ * _ - _ * (?x - ?y) == 0 |- _ =>
      is_var x; is_var y; tryif constr_eq x y then fail else (assert (x == y) by nra; canon)
  end.

Ltac hard_nl Y0 Y1 Y2 Y3 :=
  cn; repeat match goal with H : _ /\ _ |- _ => destruct H end; canon; repeat eq_step;
  let P1 := fresh "PY" in let P2 := fresh "PY" in let P3 := fresh "PY" in
  let P4 := fresh "PY" in let P5 := fresh "PY" in let P6 := fresh "PY" in
  assert (P1 : 0 < Y1 - Y0) by lra; assert (P2 : 0 < Y2 - Y1) by lra; assert (P3 : 0 < Y3 - Y2) by lra;
  assert (P4 : 0 < Y2 - Y0) by lra; assert (P5 : 0 < Y3 - Y1) by lra; assert (P6 : 0 < Y3 - Y0) by lra;
  enrich P1 P2 P3 P4 P5 P6;
  first [ close_with P1 P2 P3 P4 P5 P6 | enrich2 P1 P2 P3 P4 P5 P6; close_with P1 P2 P3 P4 P5 P6 ].


Ltac seg_two_withC rects R R' a b lo hi Y0 Y1 Y2 Y3 :=
  solve [ apply (seg_in_two rects R R' a b (py (r_tl R')) lo hi);
          [ in_tac | in_tac | rect_tac | rect_tac | lin_tac | lin_tac | lin_tac | lin_tac
          | lin_tac | lin_tac | lin_tac | lin_tac | hard_nl Y0 Y1 Y2 Y3 | hard_nl Y0 Y1 Y2 Y3 ] ].

Ltac seg_twoC rects R R' a b Y0 Y1 Y2 Y3 :=
  first [ seg_two_withC rects R R' a b (px (r_tl R)) (px (r_br R)) Y0 Y1 Y2 Y3
        | seg_two_withC rects R R' a b (px (r_tl R)) (px (r_br R')) Y0 Y1 Y2 Y3
        | seg_two_withC rects R R' a b (px (r_tl R')) (px (r_br R)) Y0 Y1 Y2 Y3
        | seg_two_withC rects R R' a b (px (r_tl R')) (px (r_br R')) Y0 Y1 Y2 Y3 ].

Ltac seg_three_withC rects R R' R'' a b lo hi lo' hi' Y0 Y1 Y2 Y3 :=
  solve [ apply (seg_in_three rects R R' R'' a b (py (r_tl R')) lo hi (py (r_tl R'')) lo' hi');
          [ in_tac | in_tac | in_tac | rect_tac | rect_tac | lin_tac | lin_tac | lin_tac
          | lin_tac | lin_tac | lin_tac | lin_tac
          | lin_tac | lin_tac | lin_tac | lin_tac | lin_tac | lin_tac | lin_tac | lin_tac
          | hard_nl Y0 Y1 Y2 Y3 | hard_nl Y0 Y1 Y2 Y3 | hard_nl Y0 Y1 Y2 Y3 | hard_nl Y0 Y1 Y2 Y3 ] ].

Ltac seg_threeC rects R R' R'' a b Y0 Y1 Y2 Y3 :=
  first [ seg_three_withC rects R R' R'' a b (px (r_tl R)) (px (r_br R)) (px (r_tl R')) (px (r_br R')) Y0 Y1 Y2 Y3
        | seg_three_withC rects R R' R'' a b (px (r_tl R)) (px (r_br R)) (px (r_tl R')) (px (r_br R'')) Y0 Y1 Y2 Y3
        | seg_three_withC rects R R' R'' a b (px (r_tl R)) (px (r_br R)) (px (r_tl R'')) (px (r_br R')) Y0 Y1 Y2 Y3
        | seg_three_withC rects R R' R'' a b (px (r_tl R)) (px (r_br R)) (px (r_tl R'')) (px (r_br R'')) Y0 Y1 Y2 Y3
        | seg_three_withC rects R R' R'' a b (px (r_tl R)) (px (r_br R')) (px (r_tl R')) (px (r_br R')) Y0 Y1 Y2 Y3
        | seg_three_withC rects R R' R'' a b (px (r_tl R)) (px (r_br R')) (px (r_tl R')) (px (r_br R'')) Y0 Y1 Y2 Y3
        | seg_three_withC rects R R' R'' a b (px (r_tl R)) (px (r_br R')) (px (r_tl R'')) (px (r_br R')) Y0 Y1 Y2 Y3
        | seg_three_withC rects R R' R'' a b (px (r_tl R)) (px (r_br R')) (px (r_tl R'')) (px (r_br R'')) Y0 Y1 Y2 Y3
        | seg_three_withC rects R R' R'' a b (px (r_tl R')) (px (r_br R)) (px (r_tl R')) (px (r_br R')) Y0 Y1 Y2 Y3
        | seg_three_withC rects R R' R'' a b (px (r_tl R')) (px (r_br R)) (px (r_tl R')) (px (r_br R'')) Y0 Y1 Y2 Y3
        | seg_three_withC rects R R' R'' a b (px (r_tl R')) (px (r_br R)) (px (r_tl R'')) (px (r_br R')) Y0 Y1 Y2 Y3
        | seg_three_withC rects R R' R'' a b (px (r_tl R')) (px (r_br R)) (px (r_tl R'')) (px (r_br R'')) Y0 Y1 Y2 Y3
        | seg_three_withC rects R R' R'' a b (px (r_tl R')) (px (r_br R')) (px (r_tl R')) (px (r_br R')) Y0 Y1 Y2 Y3
        | seg_three_withC rects R R' R'' a b (px (r_tl R')) (px (r_br R')) (px (r_tl R')) (px (r_br R'')) Y0 Y1 Y2 Y3
        | seg_three_withC rects R R' R'' a b (px (r_tl R')) (px (r_br R')) (px (r_tl R'')) (px (r_br R')) Y0 Y1 Y2 Y3
        | seg_three_withC rects R R' R'' a b (px (r_tl R')) (px (r_br R')) (px (r_tl R'')) (px (r_br R'')) Y0 Y1 Y2 Y3 ].

Ltac levels_of rects k :=
  match rects with
  | [?R1; ?R2; ?R3] =>
      let Y0 := eval cbn [r_tl r_br px py fst snd] in (py (r_tl R1)) in
      let Y1 := eval cbn [r_tl r_br px py fst snd] in (py (r_tl R2)) in
      let Y2 := eval cbn [r_tl r_br px py fst snd] in (py (r_tl R3)) in
      let Y3 := eval cbn [r_tl r_br px py fst snd] in (py (r_br R3)) in
      k Y0 Y1 Y2 Y3
  end.

Ltac seg_tacC :=
  apply seg_in_sym;
  match goal with
  | |- seg_in ?rects ?a ?b =>
      match rects with
      | [?R1; ?R2; ?R3] =>
          levels_of rects ltac:(fun Y0 Y1 Y2 Y3 =>
          first [ seg_one R1 a b | seg_one R2 a b | seg_one R3 a b
                | seg_twoC rects R1 R2 a b Y0 Y1 Y2 Y3 | seg_twoC rects R2 R3 a b Y0 Y1 Y2 Y3
                | seg_threeC rects R1 R2 R3 a b Y0 Y1 Y2 Y3 ])
      end
  end.

Ltac leaf_tacC := cbn [inside_res segs_in]; repeat split; seg_tacC.

(* a leaf whose orientation tests are contradictory *)
Ltac absurd_leaf :=
  match goal with
  | |- inside_res ?rects _ => levels_of rects ltac:(fun Y0 Y1 Y2 Y3 => exfalso; hard_nl Y0 Y1 Y2 Y3)
  end.

Ltac any_leaf := first [ leaf_tac | leaf_tacB | leaf_tacC | exfalso; cn; nra | absurd_leaf ].

Ltac three_tacB :=
  erewrite shortest_eval; cycle 1;
  [ tri_eval3 | pick_tri | pick_tri | reflexivity
  | cbn [t_id length]; dual_eval; vm_compute; reflexivity
  | enorm3; repeat estep3; any_leaf ].
