(* GeomContainC.v — containment of the corridor router's answer (property C19): the evaluation of the triangulation through
   the structural theorem GeomPaths.triangulate_steps (one list of triples per rectangle, then the numbering), for the relative
   positions of three rectangles with many triangles, where unfolding [triangulate] itself (the accumulator appears twice in
   every [add_tri]) makes terms of exponential size before the comparisons are decided. *)
From Coq Require Import Lqa.
From Autog Require Import Base Geom GeomProofs GeomTwo GeomTwo2 GeomPaths GeomContain GeomContainB.
Local Open Scope Q_scope.

Ltac tri_eval4 :=
  rewrite triangulate_steps; unfold all_pts; cbn [length iota flat_map app];
  unfold step_pts; cbn [length nth Nat.eqb Nat.sub];
  unfold step_pts_abs, left2right, leftmost, rightmost_pt, cTR, cBL; cbn [r_tl r_br px py fst snd];
  repeat qdec1; cbn [negb orb app fst snd];
  unfold add_triples, add_tri; cbn [fold_left app length fst snd]; reflexivity.

Ltac three_tacC :=
  erewrite shortest_eval; cycle 1;
  [ tri_eval4 | pick_tri | pick_tri | reflexivity
  | cbn [t_id length]; dual_eval; vm_compute; reflexivity
  | enorm3; repeat estep3; any_leaf ].
