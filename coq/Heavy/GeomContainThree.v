(* GeomContainThree.v — containment of the corridor router's answer (property C19), part 2:
   THREE rectangles, the whole router's class.  For every corridor of three stacked rectangles in [corridor_class]
   (all 81 relative positions of the left and right sides at the two junctions: <, ==, > each) the router returns a
   polyline, and every point of every segment of it lies in the corridor.
   Method: symbolic evaluation (GeomContain.three_tac: triangulation, start/end triangles, dual graph, DFS, funnel, walk)
   of [shortest] on a generic corridor of each relative position (one generated file GeomContain3_<pos>.v per position),
   splitting on the orientation tests the funnel makes; in each of the leaves the answer is a closed polyline and each of
   its segments is shown inside by convexity of one rectangle or by the crossing conditions of [seg_in_two]/[seg_in_three],
   which follow (nra) from the orientation tests made on the way. *)
From Coq Require Import Lqa.
From Autog Require Import Base Geom GeomProofs GeomTwo GeomTwo2 GeomPaths GeomPaths3 GeomContain GeomContain5.
From Autog Require Import GeomContain3_llll GeomContain3_llle GeomContain3_lllg GeomContain3_llel GeomContain3_llee GeomContain3_lleg GeomContain3_llgl GeomContain3_llge GeomContain3_llgg GeomContain3_lell GeomContain3_lele GeomContain3_lelg GeomContain3_leel GeomContain3_leee GeomContain3_leeg GeomContain3_legl GeomContain3_lege GeomContain3_legg GeomContain3_lgll GeomContain3_lgle GeomContain3_lglg GeomContain3_lgel GeomContain3_lgee GeomContain3_lgeg GeomContain3_lggl GeomContain3_lgge GeomContain3_lggg GeomContain3_elll GeomContain3_elle GeomContain3_ellg GeomContain3_elel GeomContain3_elee GeomContain3_eleg GeomContain3_elgl GeomContain3_elge GeomContain3_elgg GeomContain3_eell GeomContain3_eele GeomContain3_eelg GeomContain3_eeel GeomContain3_eeee GeomContain3_eeeg GeomContain3_eegl GeomContain3_eege GeomContain3_eegg GeomContain3_egll GeomContain3_egle GeomContain3_eglg GeomContain3_egel GeomContain3_egee GeomContain3_egeg GeomContain3_eggl GeomContain3_egge GeomContain3_eggg GeomContain3_glll GeomContain3_glle GeomContain3_gllg GeomContain3_glel GeomContain3_glee GeomContain3_gleg GeomContain3_glgl GeomContain3_glge GeomContain3_glgg GeomContain3_gell GeomContain3_gele GeomContain3_gelg GeomContain3_geel GeomContain3_geee GeomContain3_geeg GeomContain3_gegl GeomContain3_gege GeomContain3_gegg GeomContain3_ggll GeomContain3_ggle GeomContain3_gglg GeomContain3_ggel GeomContain3_ggee GeomContain3_ggeg GeomContain3_gggl GeomContain3_ggge GeomContain3_gggg.
Local Open Scope Q_scope.

Lemma three_all (a1 b1 a2 b2 a3 b3 y0 y1 y1' y2 y2' y3 s e t0 t3 : Q) :
  y0 < y1 -> y1 == y1' -> y1' < y2 -> y2 == y2' -> y2' < y3 ->
  a1 < b1 -> a2 < b2 -> a3 < b3 -> a1 < b2 -> a2 < b1 -> a2 < b3 -> a3 < b2 ->
  t0 == y0 -> t3 == y3 -> a1 < s < b1 -> a3 < e < b3 ->
  inside_res [mkRect (a1, y0) (b1, y1); mkRect (a2, y1') (b2, y2); mkRect (a3, y2') (b3, y3)]
    (shortest (s, t0) (e, t3) [mkRect (a1, y0) (b1, y1); mkRect (a2, y1') (b2, y2); mkRect (a3, y2') (b3, y3)]).
Proof.
  intros Hy01 Hy11 Hy12 Hy22 Hy23 Hab1 Hab2 Hab3 Hab12 Hab21 Hab23 Hab32 Ht0 Ht3 Hs He.
  destruct (Q_dec a1 a2) as [[Ha|Ha]|Ha].
  { destruct (Q_dec b1 b2) as [[Hb|Hb]|Hb].
    { destruct (Q_dec a2 a3) as [[Ha'|Ha']|Ha'].
      { destruct (Q_dec b2 b3) as [[Hb'|Hb']|Hb'].
        { apply three_lglg; assumption. }
        { apply three_lgll; assumption. }
        { apply three_lgle; assumption. }
      }
      { destruct (Q_dec b2 b3) as [[Hb'|Hb']|Hb'].
        { apply three_lggg; assumption. }
        { apply three_lggl; assumption. }
        { apply three_lgge; assumption. }
      }
      { destruct (Q_dec b2 b3) as [[Hb'|Hb']|Hb'].
        { apply three_lgeg; assumption. }
        { apply three_lgel; assumption. }
        { apply three_lgee; assumption. }
      }
    }
    { destruct (Q_dec a2 a3) as [[Ha'|Ha']|Ha'].
      { destruct (Q_dec b2 b3) as [[Hb'|Hb']|Hb'].
        { apply three_lllg; assumption. }
        { apply three_llll; assumption. }
        { apply three_llle; assumption. }
      }
      { destruct (Q_dec b2 b3) as [[Hb'|Hb']|Hb'].
        { apply three_llgg; assumption. }
        { apply three_llgl; assumption. }
        { apply three_llge; assumption. }
      }
      { destruct (Q_dec b2 b3) as [[Hb'|Hb']|Hb'].
        { apply three_lleg; assumption. }
        { apply three_llel; assumption. }
        { apply three_llee; assumption. }
      }
    }
    { destruct (Q_dec a2 a3) as [[Ha'|Ha']|Ha'].
      { destruct (Q_dec b2 b3) as [[Hb'|Hb']|Hb'].
        { apply three_lelg; assumption. }
        { apply three_lell; assumption. }
        { apply three_lele; assumption. }
      }
      { destruct (Q_dec b2 b3) as [[Hb'|Hb']|Hb'].
        { apply three_legg; assumption. }
        { apply three_legl; assumption. }
        { apply three_lege; assumption. }
      }
      { destruct (Q_dec b2 b3) as [[Hb'|Hb']|Hb'].
        { apply three_leeg; assumption. }
        { apply three_leel; assumption. }
        { apply three_leee; assumption. }
      }
    }
  }
  { destruct (Q_dec b1 b2) as [[Hb|Hb]|Hb].
    { destruct (Q_dec a2 a3) as [[Ha'|Ha']|Ha'].
      { destruct (Q_dec b2 b3) as [[Hb'|Hb']|Hb'].
        { apply three_gglg; assumption. }
        { apply three_ggll; assumption. }
        { apply three_ggle; assumption. }
      }
      { destruct (Q_dec b2 b3) as [[Hb'|Hb']|Hb'].
        { apply three_gggg; assumption. }
        { apply three_gggl; assumption. }
        { apply three_ggge; assumption. }
      }
      { destruct (Q_dec b2 b3) as [[Hb'|Hb']|Hb'].
        { apply three_ggeg; assumption. }
        { apply three_ggel; assumption. }
        { apply three_ggee; assumption. }
      }
    }
    { destruct (Q_dec a2 a3) as [[Ha'|Ha']|Ha'].
      { destruct (Q_dec b2 b3) as [[Hb'|Hb']|Hb'].
        { apply three_gllg; assumption. }
        { apply three_glll; assumption. }
        { apply three_glle; assumption. }
      }
      { destruct (Q_dec b2 b3) as [[Hb'|Hb']|Hb'].
        { apply three_glgg; assumption. }
        { apply three_glgl; assumption. }
        { apply three_glge; assumption. }
      }
      { destruct (Q_dec b2 b3) as [[Hb'|Hb']|Hb'].
        { apply three_gleg; assumption. }
        { apply three_glel; assumption. }
        { apply three_glee; assumption. }
      }
    }
    { destruct (Q_dec a2 a3) as [[Ha'|Ha']|Ha'].
      { destruct (Q_dec b2 b3) as [[Hb'|Hb']|Hb'].
        { apply three_gelg; assumption. }
        { apply three_gell; assumption. }
        { apply three_gele; assumption. }
      }
      { destruct (Q_dec b2 b3) as [[Hb'|Hb']|Hb'].
        { apply three_gegg; assumption. }
        { apply three_gegl; assumption. }
        { apply three_gege; assumption. }
      }
      { destruct (Q_dec b2 b3) as [[Hb'|Hb']|Hb'].
        { apply three_geeg; assumption. }
        { apply three_geel; assumption. }
        { apply three_geee; assumption. }
      }
    }
  }
  { destruct (Q_dec b1 b2) as [[Hb|Hb]|Hb].
    { destruct (Q_dec a2 a3) as [[Ha'|Ha']|Ha'].
      { destruct (Q_dec b2 b3) as [[Hb'|Hb']|Hb'].
        { apply three_eglg; assumption. }
        { apply three_egll; assumption. }
        { apply three_egle; assumption. }
      }
      { destruct (Q_dec b2 b3) as [[Hb'|Hb']|Hb'].
        { apply three_eggg; assumption. }
        { apply three_eggl; assumption. }
        { apply three_egge; assumption. }
      }
      { destruct (Q_dec b2 b3) as [[Hb'|Hb']|Hb'].
        { apply three_egeg; assumption. }
        { apply three_egel; assumption. }
        { apply three_egee; assumption. }
      }
    }
    { destruct (Q_dec a2 a3) as [[Ha'|Ha']|Ha'].
      { destruct (Q_dec b2 b3) as [[Hb'|Hb']|Hb'].
        { apply three_ellg; assumption. }
        { apply three_elll; assumption. }
        { apply three_elle; assumption. }
      }
      { destruct (Q_dec b2 b3) as [[Hb'|Hb']|Hb'].
        { apply three_elgg; assumption. }
        { apply three_elgl; assumption. }
        { apply three_elge; assumption. }
      }
      { destruct (Q_dec b2 b3) as [[Hb'|Hb']|Hb'].
        { apply three_eleg; assumption. }
        { apply three_elel; assumption. }
        { apply three_elee; assumption. }
      }
    }
    { destruct (Q_dec a2 a3) as [[Ha'|Ha']|Ha'].
      { destruct (Q_dec b2 b3) as [[Hb'|Hb']|Hb'].
        { apply three_eelg; assumption. }
        { apply three_eell; assumption. }
        { apply three_eele; assumption. }
      }
      { destruct (Q_dec b2 b3) as [[Hb'|Hb']|Hb'].
        { apply three_eegg; assumption. }
        { apply three_eegl; assumption. }
        { apply three_eege; assumption. }
      }
      { destruct (Q_dec b2 b3) as [[Hb'|Hb']|Hb'].
        { apply three_eeeg; assumption. }
        { apply three_eeel; assumption. }
        { apply three_eeee; assumption. }
      }
    }
  }
Qed.

Lemma class3_hyps r1 r2 r3 p1 p2 : corridor_class [r1; r2; r3] p1 p2 = true ->
  (py (r_tl r1) < py (r_br r1) /\ py (r_br r1) == py (r_tl r2) /\ py (r_tl r2) < py (r_br r2) /\
   py (r_br r2) == py (r_tl r3) /\ py (r_tl r3) < py (r_br r3)) /\
  (px (r_tl r1) < px (r_br r1) /\ px (r_tl r2) < px (r_br r2) /\ px (r_tl r3) < px (r_br r3) /\
   px (r_tl r1) < px (r_br r2) /\ px (r_tl r2) < px (r_br r1) /\ px (r_tl r2) < px (r_br r3) /\ px (r_tl r3) < px (r_br r2)) /\
  (py p1 == py (r_tl r1) /\ py p2 == py (r_br r3) /\ px (r_tl r1) < px p1 < px (r_br r1) /\ px (r_tl r3) < px p2 < px (r_br r3)).
Proof.
  intros H. apply corridor_class_facts in H. destruct H as [W Hh _ P1y P1x P2y P2x].
  cbn [length Nat.sub nth] in P1y, P1x, P2y, P2x.
  cbn [corridor_wf] in W. destruct W as [W1 [[S1 [x1 [x2 [X1 [X2 [X3 [X4 X5]]]]]]] [W2 [[S2 [u1 [u2 [U1 [U2 [U3 [U4 U5]]]]]]] [W3 _]]]]].
  pose proof (Hh r1 (or_introl eq_refl)) as H1.
  pose proof (Hh r2 (or_intror (or_introl eq_refl))) as H2.
  pose proof (Hh r3 (or_intror (or_intror (or_introl eq_refl)))) as H3.
  repeat split; try assumption; try lra.
Qed.

(* the router answers, and the answer is inside *)
Theorem three_rect_inside r1 r2 r3 p1 p2 : corridor_class [r1; r2; r3] p1 p2 = true ->
  exists path, shortest p1 p2 [r1; r2; r3] = Ok path /\
    forall a b p, consecutive a b path -> on_segment a b p -> in_corridor [r1; r2; r3] p.
Proof.
  intros H. apply class3_hyps in H.
  destruct r1 as [[a1 y0] [b1 y1]], r2 as [[a2 y1'] [b2 y2]], r3 as [[a3 y2'] [b3 y3]], p1 as [s t0], p2 as [e t3].
  cbn [r_tl r_br px py fst snd] in H.
  destruct H as [[Y1 [Y2 [Y3 [Y4 Y5]]]] [[X1 [X2 [X3 [X4 [X5 [X6 X7]]]]]] [P1 [P2 [P3 P4]]]]].
  apply inside_res_spec. apply three_all; assumption.
Qed.
(* Print Assumptions: see [class_answer_inside_upto3] at the end of the file, which uses this theorem (one traversal of the 144
   generated lemmas takes two minutes) *)

(* the requested statement, for three rectangles *)
Theorem class_answer_inside_three : forall r1 r2 r3 p1 p2 path,
  corridor_class [r1; r2; r3] p1 p2 = true -> shortest p1 p2 [r1; r2; r3] = Ok path ->
  forall a b p, consecutive a b path -> on_segment a b p -> in_corridor [r1; r2; r3] p.
Proof.
  intros r1 r2 r3 p1 p2 path Hc Hs. destruct (three_rect_inside r1 r2 r3 p1 p2 Hc) as [path' [E H]].
  rewrite E in Hs. injection Hs as <-. exact H.
Qed.

(* inside the class the router never fails on three rectangles *)
Corollary three_rect_no_error r1 r2 r3 p1 p2 e :
  corridor_class [r1; r2; r3] p1 p2 = true -> shortest p1 p2 [r1; r2; r3] <> Err e.
Proof.
  intros Hc E. destruct (three_rect_inside r1 r2 r3 p1 p2 Hc) as [path [E' _]]. congruence.
Qed.

(* not vacuous: a three-rectangle corridor of the class (a Z shape), whose answer bends twice *)
Definition zig3 : list rect := [mkRect (0, 0) (10, 4); mkRect (8, 4) (20, 8); mkRect (0, 8) (12, 14)].
Example zig3_class : corridor_class zig3 (1, 0) (1, 14) = true.
Proof. vm_compute. reflexivity. Qed.
Example zig3_answer : shortest (1, 0) (1, 14) zig3 = Ok [(1, 14); (8, 8); (8, 4); (1, 0)].
Proof. vm_compute. reflexivity. Qed.
Example zig3_inside : forall a b p, consecutive a b [(1, 14); (8, 8); (8, 4); (1, 0)] -> on_segment a b p -> in_corridor zig3 p.
Proof. exact (class_answer_inside_three _ _ _ _ _ _ zig3_class zig3_answer). Qed.

(* ================= the general statement [class_answer_inside], for every corridor of at most three rectangles ================= *)
Theorem class_answer_inside_upto3 : forall rects p1 p2 path, (length rects <= 3)%nat ->
  corridor_class rects p1 p2 = true -> shortest p1 p2 rects = Ok path ->
  forall a b p, consecutive a b path -> on_segment a b p -> in_corridor rects p.
Proof.
  intros rects p1 p2 path Hl Hc Hs.
  destruct rects as [|r1 [|r2 [|r3 [|r4 rest]]]].
  - unfold corridor_class in Hc. rewrite andb_false_r in Hc. discriminate Hc.
  - exact (class_answer_inside_one r1 p1 p2 path Hc Hs).
  - exact (class_answer_inside_two r1 r2 p1 p2 path Hc Hs).
  - exact (class_answer_inside_three r1 r2 r3 p1 p2 path Hc Hs).
  - cbn [length] in Hl. lia.
Qed.
Print Assumptions class_answer_inside_upto3.
