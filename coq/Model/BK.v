(* BK.v — internal/phase4/brandes_koepf.go (execBrandesKoepf), statement by statement.

   Conventions of this model:
   - Go maps keyed by *Node become lists indexed by the arena index (length = length of the node arena).
     NodeMaps (blockroot, alignment, sinks) are initialised with the identity as in the Go initialisation
     loops over g.Nodes (every node that occurs in a layer is assumed to be in g.Nodes).
   - xcoord maps are [list (option Q)]: [None] = the key is absent (reads as 0, is skipped by Size()).
   - xshift is [list (option Q)] as well, but there [None] = outermostX(h), i.e. +Inf for h = right and -Inf
     for h = left; a finite value is [Some q]. The opposite infinity never occurs, neither does NaN.
   - directions: [vtop] = (layout.v == top), [hleft] = (layout.h == left);
     layouts 0..3 = (bottom,right) (bottom,left) (top,right) (top,left).
   - every Go index expression that can go out of range gives [Err (ErrIndex 8x)], every loop without an
     obvious bound has fuel and gives [Err (ErrFuel 8x)]. *)
From Autog Require Export Graph Phase4.
Local Open Scope Q_scope.

Definition bk_modelled : bool := true.

(* ---------- indexing with Go's panics ---------- *)
Definition node_at (code : nat) (ns : list nat) (z : Z) : res nat :=
  if (z <? 0)%Z then Err (ErrIndex code) else
  match nth_error ns (Z.to_nat z) with Some n => Ok n | None => Err (ErrIndex code) end.

(* g.Layers[z].Nodes *)
Definition layer_at (code : nat) (g : graph) (z : Z) : res (list nat) :=
  if (z <? 0)%Z then Err (ErrIndex code) else
  match nth_error (g_L g) (Z.to_nat z) with Some l => Ok (l_nodes l) | None => Err (ErrIndex code) end.

(* firstNodeInLayer / lastNodeInLayer: Head() for right, Tail() for left (and vice versa) *)
Definition first_in (code : nat) (ns : list nat) (hleft : bool) : res nat :=
  if hleft then node_at code ns (Z.of_nat (length ns) - 1)%Z else node_at code ns 0%Z.
Definition last_in (code : nat) (ns : list nat) (hleft : bool) : res nat := first_in code ns (negb hleft).

(* nextNodeInLayer / prevNodeInLayer *)
Definition next_in (code : nat) (g : graph) (n : nat) (ns : list nat) (hleft : bool) : res nat :=
  node_at code ns (n_pos (gnode g n) + (if hleft then -1 else 1))%Z.
Definition prev_in (code : nat) (g : graph) (n : nat) (ns : list nat) (hleft : bool) : res nat :=
  next_in code g n ns (negb hleft).

(* iterLayers with Layer.Index (= position in g.Layers), iterNodes *)
Definition iter_layers (g : graph) (vtop : bool) : list (nat * list nat) :=
  let ls := combine (iota 0 (length (g_L g))) (map l_nodes (g_L g)) in
  if vtop then rev ls else ls.
Definition iter_nodes (ns : list nat) (hleft : bool) : list nat := if hleft then rev ns else ns.

Definition layout_v (i : nat) : bool := Nat.leb 2 i.   (* true = top *)
Definition layout_h (i : nat) : bool := Nat.odd i.     (* true = left *)

(* ---------- initNeighbors ---------- *)
(* neighbors[n][bottom] (upper neighbours, from In) resp. neighbors[n][top] (lower neighbours, from Out):
   pairs (node, edge). The graph is not modified before the final assignment, so the map is a function. *)
Definition bk_neigh (g : graph) (vtop : bool) (n : nat) : list (nat * nat) :=
  let nd := gnode g n in
  if vtop then
    if (n_layer nd <? Z.of_nat (length (g_L g)) - 1)%Z
    then flat_map (fun e => if viable g e then [(e_to (gedge g e), e)] else []) (n_out nd) else []
  else
    if (0 <? n_layer nd)%Z
    then flat_map (fun e => if viable g e then [(e_from (gedge g e), e)] else []) (n_in nd) else [].

(* ---------- markConflicts ---------- *)
Definition incident_to_inner (g : graph) (n : nat) : Z :=
  if negb (n_virt (gnode g n)) then (-1)%Z else
  match find (fun e => let f := e_from (gedge g e) in
                       n_virt (gnode g f) && (layer_of g f =? layer_of g n - 1)%Z) (n_in (gnode g n)) with
  | Some e => n_pos (gnode g (e_from (gedge g e)))
  | None => (-1)%Z
  end.

(* the l2-loop: the in-edges of the nodes ws whose source lies outside [k0, k1] are marked *)
Definition mark_seg (g : graph) (k0 k1 : Z) (ws : list nat) (marked : list nat) : list nat :=
  fold_left (fun m w =>
     fold_left (fun m e =>
        if viable g e then
          let p := n_pos (gnode g (e_from (gedge g e))) in
          if (p <? k0)%Z || (k1 <? p)%Z then e :: m else m
        else m) (n_in (gnode g w)) m) ws marked.

(* one step of the sweep: upper = Layers[i].Nodes, lower = Layers[i+1].Nodes *)
Definition mark_layer (g : graph) (upper lower : list nat) (marked : list nat) : res (list nat) :=
  do r <- fold_left (fun (acc : res (Z * list nat)) (p : nat * nat) =>
            do a <- acc;
            let '(k0, m) := a in
            let '(l1, v) := p in
            let ksrc := incident_to_inner g v in
            if Nat.eqb (last lower 0%nat) v || (0 <=? ksrc)%Z then
              do k1 <- (if (0 <=? ksrc)%Z then
                          match bk_neigh g false v with
                          | (u, _) :: _ => Ok (n_pos (gnode g u))
                          | [] => Err (ErrIndex 81)
                          end
                        else Ok (Z.of_nat (length upper) - 1)%Z);
              Ok (k1, mark_seg g k0 k1 (firstn (S l1) lower) m)
            else Ok (k0, m))
         (combine (iota 0 (length lower)) lower) (Ok (0%Z, marked));
  Ok (snd r).

(* the set of marked edges, as a list of edge indices (possibly with repetitions) *)
Definition mark_conflicts (g : graph) : res (list nat) :=
  let nl := length (g_L g) in
  if Nat.ltb nl 4 then Ok [] else
  fold_left (fun acc i => do m <- acc; mark_layer g (l_nodes (glayer g i)) (l_nodes (glayer g (S i))) m)
            (iota 1 (nl - 2)) (Ok []).

(* ---------- verticalAlign ---------- *)
Definition median_idx (d : nat) (hleft : bool) : list nat :=
  let m1 := ((d + 1) / 2 - 1)%nat in
  let m2 := ((d + 2) / 2 - 1)%nat in
  if hleft then [m2; m1] else [m1; m2].

(* outermostPos: -1 for right, math.MaxInt ([None]) for left *)
Definition outermost_pos (hleft : bool) : option Z := if hleft then None else Some (-1)%Z.
Definition within_pos (hleft : bool) (r : option Z) (pos : Z) : bool :=
  match r with
  | None => true
  | Some r => if hleft then (pos <? r)%Z else (r <? pos)%Z
  end.

(* state: (alignment, blockroot, r) *)
Definition va_node (g : graph) (marked : list nat) (vtop hleft : bool)
           (st : list nat * list nat * option Z) (vk : nat) : list nat * list nat * option Z :=
  let nb := bk_neigh g vtop vk in
  let d := length nb in
  if Nat.eqb d 0 then st else
  fold_left (fun (st : list nat * list nat * option Z) m =>
     let '(al, rt, r) := st in
     if Nat.eqb (nget al vk) vk then
       let '(u, uv) := nth m nb (0%nat, 0%nat) in
       if negb (mem_nat uv marked) && within_pos hleft r (n_pos (gnode g u)) then
         let al := set_nth al u vk in
         let rt := set_nth rt vk (nget rt u) in
         let al := set_nth al vk (nget rt vk) in
         (al, rt, Some (n_pos (gnode g u)))
       else st
     else st) (median_idx d hleft) st.

(* returns (alignment, blockroot) *)
Definition vertical_align (g : graph) (marked : list nat) (vtop hleft : bool) : list nat * list nat :=
  let ids := iota 0 (length (g_na g)) in
  fold_left (fun (ar : list nat * list nat) (l : nat * list nat) =>
     let '(al, rt, _) := fold_left (va_node g marked vtop hleft) (iter_nodes (snd l) hleft)
                                   (fst ar, snd ar, outermost_pos hleft) in
     (al, rt)) (iter_layers g vtop) (ids, ids).

(* ---------- horizontalCompaction ---------- *)
Record bkc := mkBkc {
  bk_sinks : list nat;
  bk_xshift : list (option Q);     (* None = outermostX(h) *)
  bk_xcoord : list (option Q);     (* None = key absent *)
  bk_xcinit : list bool
}.

Definition set_sinks (c : bkc) l := mkBkc l (bk_xshift c) (bk_xcoord c) (bk_xcinit c).
Definition set_xshift (c : bkc) l := mkBkc (bk_sinks c) l (bk_xcoord c) (bk_xcinit c).
Definition set_xcoord (c : bkc) l := mkBkc (bk_sinks c) (bk_xshift c) l (bk_xcinit c).

Definition xget (xc : list (option Q)) (n : nat) : Q := match nth n xc None with Some q => q | None => 0 end.
Definition shget (xs : list (option Q)) (n : nat) : option Q := nth n xs (Some 0).

(* max (h = left, markers are -Inf) resp. min (h = right, markers are +Inf) of two extended values *)
Definition sh_comb (hleft : bool) (a s : option Q) : option Q :=
  match a, s with
  | None, _ => s
  | _, None => a
  | Some x, Some y => Some (if hleft then Qmax' x y else Qmin' x y)
  end.

Section Compaction.
  Variables (g : graph) (hleft : bool) (spacing : Q) (al rt : list nat) (F : nat).

  (* the first loop of placeBlock; rec = placeBlock with less fuel; v = block root, w = current node *)
  Fixpoint pb_loop1 (rec : nat -> bkc -> res bkc) (k : nat) (v w : nat) (c : bkc) : res bkc :=
    match k with
    | O => Err (ErrFuel 83)
    | S k =>
        do ns <- layer_at 82 g (n_layer (gnode g w));
        do lst <- last_in 83 ns hleft;
        do c <- (if Nat.eqb w lst then Ok c else
                 do u <- next_in 84 g w ns hleft;
                 let uroot := nget rt u in
                 do c <- rec uroot c;
                 let c := if Nat.eqb (nget (bk_sinks c) v) v
                          then set_sinks c (set_nth (bk_sinks c) v (nget (bk_sinks c) uroot)) else c in
                 if Nat.eqb (nget (bk_sinks c) v) (nget (bk_sinks c) uroot) then
                   let xc := bk_xcoord c in
                   let x := if hleft then Qmax' (xget xc v) (xget xc uroot + (nW g u + spacing))
                            else Qmin' (xget xc v) (xget xc uroot - (nW g v + spacing)) in
                   Ok (set_xcoord c (set_nth xc v (Some x)))
                 else Ok c);
        let w := nget al w in
        if Nat.eqb w v then Ok c else pb_loop1 rec k v w c
    end.

  (* the second loop of placeBlock: the members of the block get the coordinate and the class of the root *)
  Fixpoint pb_loop2 (k : nat) (v w : nat) (c : bkc) : res bkc :=
    match k with
    | O => Err (ErrFuel 84)
    | S k =>
        let w := nget al w in
        if Nat.eqb w v then Ok c else
        let c := set_xcoord c (set_nth (bk_xcoord c) w (Some (xget (bk_xcoord c) v))) in
        let c := set_sinks c (set_nth (bk_sinks c) w (nget (bk_sinks c) v)) in
        pb_loop2 k v w c
    end.

  Fixpoint bk_place_block (fuel : nat) (v : nat) (c : bkc) : res bkc :=
    match fuel with
    | O => Err (ErrFuel 82)
    | S f =>
        if nth v (bk_xcinit c) false then Ok c else
        let c := mkBkc (bk_sinks c) (bk_xshift c) (set_nth (bk_xcoord c) v (Some 0)) (set_nth (bk_xcinit c) v true) in
        do c <- pb_loop1 (bk_place_block f) F v v c;
        pb_loop2 F v v c
    end.

  (* the loop "for layout.alignment[v] != layout.blockroot[v]"; returns (v, j, c) *)
  Fixpoint cs_inner (k : nat) (v j : nat) (c : bkc) : res (nat * nat * bkc) :=
    match k with
    | O => Err (ErrFuel 85)
    | S k =>
        if Nat.eqb (nget al v) (nget rt v) then Ok (v, j, c) else
        let v := nget al v in
        do ns <- layer_at 85 g (n_layer (gnode g v));
        do fst_ <- first_in 86 ns hleft;
        do c <- (if Nat.eqb v fst_ then Ok c else
                 do u <- prev_in 87 g v ns hleft;
                 let sk := bk_sinks c in
                 let xs := bk_xshift c in
                 let xc := bk_xcoord c in
                 let s := if hleft
                          then option_map (fun sh => sh + xget xc v + (xget xc u + nW g u + spacing)) (shget xs (nget sk v))
                          else option_map (fun sh => sh + xget xc v - (xget xc u + spacing)) (shget xs (nget sk v)) in
                 Ok (set_xshift c (set_nth xs (nget sk u) (sh_comb hleft (shget xs (nget sk u)) s))));
        cs_inner k v (S j) c
    end.

  (* the loop "for j < len(g.Layers) && k < g.Layers[j].Len()" *)
  Fixpoint cs_outer (fuel : nat) (j : nat) (k : Z) (c : bkc) : res bkc :=
    match fuel with
    | O => Err (ErrFuel 86)
    | S fuel =>
        if negb (Nat.ltb j (length (g_L g))) then Ok c else
        let ns := l_nodes (glayer g j) in
        if negb (k <? Z.of_nat (length ns))%Z then Ok c else
        do vjk <- node_at 88 ns k;
        do r <- cs_inner F vjk j c;
        let '(v, j, c) := r in
        cs_outer fuel j (n_pos (gnode g v) + 1)%Z c
    end.

  (* class shifts for one layer (index li, nodes ns) *)
  Definition cs_layer (c : bkc) (li : nat) (ns : list nat) : res bkc :=
    do n <- first_in 89 ns hleft;
    let sn := nget (bk_sinks c) n in
    if negb (Nat.eqb sn n) then Ok c else
    let c := match shget (bk_xshift c) sn with
             | None => set_xshift c (set_nth (bk_xshift c) sn (Some 0))
             | Some _ => c
             end in
    cs_outer F li 0%Z c.
End Compaction.

Definition horizontal_compaction (g : graph) (spacing : Q) (vtop hleft : bool) (al rt : list nat)
  : res (list (option Q)) :=
  let na := length (g_na g) in
  let F := (2 * na + 4)%nat in
  let c0 := mkBkc (iota 0 na)
                  (fold_left (fun xs n => set_nth xs n None) (g_N g) (repeat (Some 0) na))
                  (repeat None na) (repeat false na) in
  do c <- fold_left (fun acc (l : nat * list nat) =>
             fold_left (fun acc n => do c <- acc;
                                     if Nat.eqb (nget rt n) n then bk_place_block g hleft spacing al rt F F n c else Ok c)
                       (iter_nodes (snd l) hleft) acc)
          (iter_layers g vtop) (Ok c0);
  do c <- fold_left (fun acc (l : nat * list nat) => do c <- acc; cs_layer g hleft spacing al rt F c (fst l) (snd l))
          (iter_layers g vtop) (Ok c);
  Ok (fold_left (fun xc n => match shget (bk_xshift c) (nget (bk_sinks c) n) with
                             | Some sh => set_nth xc n (Some (xget xc n + sh))
                             | None => xc
                             end) (g_N g) (bk_xcoord c)).

(* one of the four layouts *)
Definition bk_layout (g : graph) (marked : list nat) (spacing : Q) (i : nat) : res (list (option Q)) :=
  let '(al, rt) := vertical_align g marked (layout_v i) (layout_h i) in
  horizontal_compaction g spacing (layout_v i) (layout_h i) al rt.

(* ---------- xcoordinates.Size: (w, minx, maxx); None = the map is empty (Go: -Inf, +Inf, -Inf) ---------- *)
Definition bk_size (g : graph) (xc : list (option Q)) : option (Q * Q * Q) :=
  let r := fold_left (fun (acc : option (Q * Q)) (p : nat * option Q) =>
              match snd p with
              | None => acc
              | Some x =>
                  let r := x + nW g (fst p) in
                  match acc with
                  | None => Some (x, r)
                  | Some (mn, mx) => Some (Qmin' mn x, Qmax' mx r)
                  end
              end) (combine (iota 0 (length xc)) xc) None in
  match r with Some (mn, mx) => Some (mx - mn, mn, mx) | None => None end.

(* ---------- balanceLayouts ---------- *)
(* An empty coordinate map among the four (while g.Nodes is not empty) would make Go compute with ±Inf / NaN and
   produce non-finite coordinates: reported as ErrIndex 90 (cannot happen when some layer has a node that is its
   own block root or belongs to a block). *)
Definition balance_layouts (g : graph) (xcs : list (list (option Q))) : res (list (option Q)) :=
  let na := length (g_na g) in
  match g_N g with
  | [] => Ok (repeat None na)
  | _ =>
      do szs <- fold_right (fun xc acc => do l <- acc;
                                          match bk_size g xc with Some s => Ok (s :: l) | None => Err (ErrIndex 90) end)
                           (Ok []) xcs;
      let sz i := nth i szs (0, 0, 0) in
      let width i := fst (fst (sz i)) in
      let minx i := snd (fst (sz i)) in
      let maxx i := snd (sz i) in
      let least := fold_left (fun lw i => if Qlt_bool (width i) (width lw) then i else lw) (iota 0 4) 0%nat in
      let shift i := if Nat.odd i then minx least - minx i else maxx least - maxx i in
      Ok (fold_left (fun mx n =>
            let xs := isort Qle_bool (map (fun i => xget (nth i xcs []) n + shift i) (iota 0 4)) in
            set_nth mx n (Some ((nth 1 xs 0 + nth 2 xs 0) / 2))) (g_N g) (repeat None na))
  end.

(* ---------- verifyLayout ---------- *)
Definition verify_layer (g : graph) (spacing : Q) (xc : list (option Q)) (ns : list nat) : bool :=
  match fold_left (fun (acc : option (option Q)) n =>
           match acc with
           | None => None                                   (* already returned false *)
           | Some pos =>                                    (* pos: None = -Inf *)
               let lf := xget xc n in
               let r := xget xc n + nW g n + spacing in
               if match pos with None => true | Some p => Qlt_bool p lf && Qlt_bool p r end
               then Some (Some r) else None
           end) ns (Some None) with
  | Some _ => true
  | None => false
  end.

Definition verify_layout (g : graph) (spacing : Q) (xc : list (option Q)) : bool :=
  forallb (fun l => verify_layer g spacing xc (l_nodes l)) (g_L g).

(* widths with None = -Inf (the width of an empty map) *)
Definition wlt (a b : option Q) : bool :=
  match a, b with
  | None, Some _ => true
  | Some x, Some y => Qlt_bool x y
  | _, None => false
  end.
Definition bk_width (g : graph) (xc : list (option Q)) : option Q := option_map (fun s => fst (fst s)) (bk_size g xc).

(* ---------- execBrandesKoepf ---------- *)
(* variant: -1 = balanced (the default), 0..3 = the forced layout BrandesKoepfLayout *)
Definition exec_bk (variant : Z) (spacing : Q) (g : graph) : res graph :=
  match g_L g with
  | [] => Ok g     (* no layer: nothing is read from the layouts, nothing is assigned *)
  | _ =>
  do marked <- mark_conflicts g;
  do x0 <- bk_layout g marked spacing 0;
  do x1 <- bk_layout g marked spacing 1;
  do x2 <- bk_layout g marked spacing 2;
  do x3 <- bk_layout g marked spacing 3;
  let xcs := [x0; x1; x2; x3] in
  do final <- (if (0 <=? variant)%Z && (variant <? 4)%Z then Ok (nth (Z.to_nat variant) xcs [])
               else
                 do bal <- balance_layouts g xcs;
                 if verify_layout g spacing bal then Ok bal else
                 Ok (snd (fold_left (fun (acc : option Q * list (option Q)) xc =>
                                       if verify_layout g spacing xc then
                                         let w := bk_width g xc in
                                         if wlt w (fst acc) then (w, xc) else acc
                                       else acc) xcs (bk_width g bal, bal))));
  (* n.X = finalLayout[n], lmargin, l.H *)
  let xs := flat_map l_nodes (g_L g) in
  let g := fold_left (fun g n => upd_node g n (set_x (xget final n))) xs g in
  let lmargin := fold_left (fun m n => Qmin' m (xget final n)) xs 0 in
  let g := with_L g (map (fun l => set_layer_h (layer_height g (l_nodes l) (l_h l)) l) (g_L g)) in
  (* normalize negative xs *)
  let g := if Qlt_bool lmargin 0
           then fold_left (fun g n => upd_node g n (fun nd => set_x (n_x nd + - lmargin) nd)) (g_N g) g
           else g in
  (* final adjustment of overlaps *)
  let g := fold_left (fun g l =>
             fst (fold_left (fun (acc : graph * option nat) w =>
                    let '(g, prev) := acc in
                    match prev with
                    | None => (g, Some w)
                    | Some v =>
                        let vx := nX g v in
                        let wx := nX g w in
                        if Qlt_bool vx wx && Qlt_bool wx (vx + nW g v)
                        then (upd_node g w (set_x (wx + (vx + nW g v + spacing - wx))), Some w)
                        else (g, Some w)
                    end) (l_nodes l) (g, None))) (g_L g) g in
  Ok g
  end.

Definition phase4_bk (variant : Z) (p : p4params) (g : graph) : res graph :=
  if Nat.eqb (length (g_N g)) 1 then phase4 OtherPositioner p g else
  do g <- exec_bk variant (node_spacing p) g;
  Ok (assign_y (layer_spacing p) g).
