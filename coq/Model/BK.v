(* BK.v — internal/phase4/brandes_koepf.go (execBrandesKoepf). STUB: the functional model is being written;
   until [bk_modelled] is true the correspondence treats the x-coordinates of this positioner as an oracle
   (Contracts.v, phase4_oracle). *)
From Autog Require Export Graph Phase4.

Definition bk_modelled : bool := false.

(* variant: -1 = balanced (the default), 0..3 = the forced layout BrandesKoepfLayout *)
Definition exec_bk (variant : Z) (spacing : Q) (g : graph) : res graph := Err (ErrIndex 80).

Definition phase4_bk (variant : Z) (p : p4params) (g : graph) : res graph :=
  if Nat.eqb (length (g_N g)) 1 then phase4 OtherPositioner p g else
  do g <- exec_bk variant (node_spacing p) g;
  Ok (assign_y (layer_spacing p) g).
