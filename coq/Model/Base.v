(* Base.v — shared vocabulary of the executable model of nulab/autog.
   Nodes and edges live in arenas (lists) and are referred to by index; this is the pointer graph of the Go
   code with pointers replaced by dense indices. Coordinates are rationals (Q): they agree with float64
   exactly as long as every intermediate value is a dyadic rational that fits 53 bits. *)
From Coq Require Export List Bool Arith ZArith QArith Qminmax Lia.
Export ListNotations.
Open Scope Z_scope.

Set Implicit Arguments.

(* ---------- errors: every Go panic site and every fuel exhaustion is a distinct value ---------- *)
Inductive err :=
| ErrFuel (where_ : nat)          (* the model's explicit fuel ran out: not a behaviour of the code *)
| ErrStillCyclic                  (* phase1/alg_process.go: "graph is still cyclic" *)
| ErrNoIncidentEdge               (* phase2/network_simplex.go: "did not find adjacent non-tree edge" *)
| ErrNotTreeEdge                  (* phase2/network_simplex.go: inHeadComponent / exchange sanity panics *)
| ErrVirtualOut                   (* phase5/route_merge.go: virtual node without exactly one exit edge *)
| ErrBendNotVirtual               (* phase5/polyline.go: bend point on non-virtual node *)
| ErrIndex (where_ : nat)         (* an index out of range: Go would panic with index out of range *)
| ErrEmpty                        (* autolayout.go: node set is empty *)
| ErrArity.                       (* graph/source_edgeslice.go: edge must have one source and one target *)

Inductive res (A : Type) := Ok (a : A) | Err (e : err).
Arguments Err {A} e.

Definition bind {A B} (r : res A) (f : A -> res B) : res B :=
  match r with Ok a => f a | Err e => Err e end.
Notation "'do' x <- r ; k" := (bind r (fun x => k)) (at level 200, x name, r at level 100, k at level 200).

Definition is_ok {A} (r : res A) : bool := match r with Ok _ => true | Err _ => false end.

(* ---------- list helpers ---------- *)
Fixpoint upd {A} (l : list A) (i : nat) (f : A -> A) : list A :=
  match l, i with
  | [], _ => []
  | x :: t, O => f x :: t
  | x :: t, S j => x :: upd t j f
  end.

Definition set_nth {A} (l : list A) (i : nat) (a : A) : list A := upd l i (fun _ => a).

Fixpoint remove_nat (x : nat) (l : list nat) : list nat :=
  match l with
  | [] => []
  | y :: t => if Nat.eqb x y then remove_nat x t else y :: remove_nat x t
  end.

Definition mem_nat (x : nat) (l : list nat) : bool := existsb (Nat.eqb x) l.

Fixpoint index_of (x : nat) (l : list nat) : option nat :=
  match l with
  | [] => None
  | y :: t => if Nat.eqb x y then Some O else option_map S (index_of x t)
  end.

Fixpoint replace_first (x y : nat) (l : list nat) : list nat :=
  match l with
  | [] => []
  | z :: t => if Nat.eqb x z then y :: t else z :: replace_first x y t
  end.

Fixpoint iota (start n : nat) : list nat :=
  match n with O => [] | S k => start :: iota (S start) k end.

Definition sumZ (l : list Z) : Z := fold_left Z.add l 0.

Fixpoint last_opt {A} (l : list A) : option A :=
  match l with [] => None | [x] => Some x | _ :: t => last_opt t end.

(* insertion sort, stable; used wherever Go sorts keys that are pairwise distinct (any sort agrees) *)
Section Sort.
  Variable A : Type.
  Variable le : A -> A -> bool.
  Fixpoint insert_sorted (x : A) (l : list A) : list A :=
    match l with
    | [] => [x]
    | y :: t => if le x y then x :: l else y :: insert_sorted x t
    end.
  Definition isort (l : list A) : list A := fold_right insert_sorted [] l.
End Sort.

(* stable insertion: x goes after every element y with le y x *)
Section StableSort.
  Variable A : Type.
  Variable lt : A -> A -> bool.
  Fixpoint sinsert (x : A) (l : list A) : list A :=
    match l with
    | [] => [x]
    | y :: t => if lt x y then x :: l else y :: sinsert x t
    end.
  Definition ssort (l : list A) : list A := fold_left (fun acc x => sinsert x acc) l [].
End StableSort.

(* ---------- rationals ---------- *)
Definition Qmax' (a b : Q) : Q := if Qle_bool a b then b else a.   (* Go's max(a,b) on finite values *)
Definition Qmin' (a b : Q) : Q := if Qle_bool a b then a else b.
Definition Qhalf (a : Q) : Q := a / 2.
Definition Qlt_bool (a b : Q) : bool := negb (Qle_bool b a).
Definition inQ (z : Z) : Q := inject_Z z.

Definition pt := (Q * Q)%type.
Definition pt_eqb (a b : pt) : bool := Qeq_bool (fst a) (fst b) && Qeq_bool (snd a) (snd b).
Fixpoint pts_eqb (a b : list pt) : bool :=
  match a, b with
  | [], [] => true
  | x :: s, y :: t => pt_eqb x y && pts_eqb s t
  | _, _ => false
  end.

Fixpoint list_eqb {A} (eqb : A -> A -> bool) (a b : list A) : bool :=
  match a, b with
  | [], [] => true
  | x :: s, y :: t => eqb x y && list_eqb eqb s t
  | _, _ => false
  end.
