(* Check.v — the correspondence check: the executable model is run on the states observed in the Go
   implementation (one snapshot after every step of Layout) and compared with the next observed state. *)
From Autog Require Export Contracts CrossCount Wmedian Pipeline BK PipelineBK PipelineNoop.
From Coq Require Import NArith.
Local Open Scope Q_scope.

Definition ident := list N.
Definition ieqb : ident -> ident -> bool := list_eqb N.eqb.

Record snap := mkSnap { s_label : nat; s_comp : Z; s_g : graph }.

Record tcase := mkCase {
  c_edges : list (list ident);
  c_ids : list ident;                          (* IDs by arena index as the implementation created them *)
  c_fixed : option (Q * Q);
  c_sizes : option (list (ident * (Q * Q)));
  c_opts : options;
  c_wmedian : bool;
  c_bk : Z;                                    (* Brandes-Koepf variant: -1 balanced, 0..3 forced, -2 not used *)
  c_snaps : list snap;
  c_out_nodes : list onode;
  c_out_edges : list oedge;
  c_crossings : list Z                         (* values the monitor received under the key "crossings" *)
}.

(* ---------- field-wise comparison; a mismatch is reported as step*100 + field ---------- *)
Fixpoint forall2b {A} (f : A -> A -> bool) (a b : list A) : bool :=
  match a, b with
  | [], [] => true
  | x :: s, y :: t => f x y && forall2b f s t
  | _, _ => false
  end.

Definition fields : list (nat * (graph -> graph -> bool)) :=
  [ (1%nat, fun m o : graph => forall2b node_eqb_struct (g_na m) (g_na o));
    (2%nat, fun m o : graph => forall2b node_eqb_layer (g_na m) (g_na o));
    (3%nat, fun m o : graph => forall2b node_eqb_pos (g_na m) (g_na o));
    (4%nat, fun m o : graph => forall2b node_eqb_size (g_na m) (g_na o));
    (5%nat, fun m o : graph => forall2b node_eqb_xy (g_na m) (g_na o));
    (6%nat, fun m o : graph => forall2b edge_eqb_struct (g_ea m) (g_ea o));
    (7%nat, fun m o : graph => forall2b edge_eqb_route (g_ea m) (g_ea o));
    (8%nat, fun m o : graph => forall2b edge_eqb_tree (g_ea m) (g_ea o));
    (9%nat, fun m o : graph => nat_list_eqb (g_N m) (g_N o));
    (10%nat, fun m o : graph => nat_list_eqb (g_E m) (g_E o));
    (11%nat, fun m o : graph => forall2b layer_eqb (g_L m) (g_L o));
    (12%nat, fun m o : graph => forall2b layer_eqb_h (g_L m) (g_L o)) ].

Definition cmp_graph (step : nat) (m o : graph) : list nat :=
  flat_map (fun f : nat * (graph -> graph -> bool) => if snd f m o then [] else [(step * 100 + fst f)%nat]) fields.

Definition cmp_res (step : nat) (m : res graph) (o : graph) : list nat :=
  match m with
  | Ok g => cmp_graph step g o
  | Err (ErrFuel k) => [(step * 100 + 98)%nat; (4000 + k)%nat]
  | Err _ => [(step * 100 + 99)%nat]
  end.

Definition find_snap (c : tcase) (label : nat) (comp : Z) : option graph :=
  option_map s_g (find (fun s => Nat.eqb (s_label s) label && (s_comp s =? comp)%Z) (c_snaps c)).

Definition xs_of (g : graph) : list Q := map n_x (g_na g).
Definition pts_of (g : graph) : list (list pt) := map e_pts (g_ea g).
Definition order_of (g : graph) : list (list nat) := map l_nodes (g_L g).

(* the model's version of step k of component ci, run on the observed state before it *)
Definition model_step (c : tcase) (label : nat) (before after : graph) (del : list nat) : res graph :=
  let o := c_opts c in
  match label with
  | 2%nat => Ok (fst (ignore_self_loops before))
  | 3%nat => phase1 (o_p1 o) before
  | 4%nat => phase2 (o_p2 o) (ns_params o) before
  | 5%nat => phase3 (c_wmedian c) (order_of after) before
  | 6%nat => match o_p4 o with
             | OtherPositioner => if bk_modelled && (-2 <? c_bk c)%Z then phase4_bk (c_bk c) (p4_params o) before
                                  else phase4_oracle (p4_params o) (xs_of after) before
             | alg => phase4 alg (p4_params o) before
             end
  | 7%nat => match o_p5 o with
             | OtherRouting => phase5_oracle (pts_of after) before
             | alg => phase5 alg (o_layer_spacing o) before
             end
  | 8%nat => Ok (post_process before del)
  | _ => Err (ErrIndex 0)
  end.

Fixpoint check_steps (c : tcase) (comp : Z) (labels : list nat) (before : graph) (del : list nat) : list nat :=
  match labels with
  | [] => []
  | l :: rest =>
      match find_snap c l comp with
      | None => [(l * 100 + 97)%nat]
      | Some after =>
          cmp_res l (model_step c l before after del) after ++ check_steps c comp rest after del
      end
  end.

(* the crossing count reported through the monitor is what the model of the cross counter computes on the
   order the phase leaves behind (code 1300); for graphs without parallel edges that is the number of
   crossings of the drawing (Proofs/CrossCountProofs.v), compared separately (code 1301) *)
Definition check_crossings (c : tcase) (ncomp : nat) : list nat :=
  if negb (c_wmedian c) then [] else
  let counted := flat_map (fun i => match find_snap c 5 (Z.of_nat i), find_snap c 4 (Z.of_nat i) with
                                    | Some g, Some g2 =>
                                        if Nat.leb (length (g_N g2)) 1 || Nat.leb (length (g_L g2)) 1 then []
                                        else [reported_crossings g]
                                    | _, _ => []
                                    end) (iota 0 ncomp) in
  (if list_eqb Z.eqb counted (c_crossings c) then [] else [1300%nat])
  ++ (if forallb (fun i => match find_snap c 5 (Z.of_nat i), find_snap c 4 (Z.of_nat i) with
                           | Some g, Some g2 =>
                               Nat.leb (length (g_N g2)) 1 || Nat.leb (length (g_L g2)) 1
                               || (reported_crossings g =? drawing_crossings g)%Z
                           | _, _ => true
                           end) (iota 0 ncomp) then [] else [1301%nat]).

Definition onode_eqb (a b : onode) : bool :=
  Nat.eqb (on_id a) (on_id b) && Qeq_bool (on_x a) (on_x b) && Qeq_bool (on_y a) (on_y b)
  && Qeq_bool (on_w a) (on_w b) && Qeq_bool (on_h a) (on_h b).
Definition oedge_eqb (a b : oedge) : bool :=
  Nat.eqb (oe_from a) (oe_from b) && Nat.eqb (oe_to a) (oe_to b) && pts_eqb (oe_pts a) (oe_pts b)
  && Bool.eqb (oe_ahs a) (oe_ahs b).

(* collection of the output over the components, autolayout.go:78-126 *)
Fixpoint collect_all (o : options) (gs : list graph) (shift : Q) : list onode * list oedge :=
  match gs with
  | [] => ([], [])
  | g :: rest =>
      let '(ns, es) := collect_all o rest (shift + rightmost g + o_node_spacing o) in
      (collect_nodes (o_virtual o) shift g ++ ns, collect_edges shift g ++ es)
  end.

Definition check_case (c : tcase) : list nat :=
  match find_snap c 0 (-1) with
  | None => [97%nat]
  | Some s0 =>
      (* step 0: Populate and the size options *)
      let r0 := do p <- @populate ident ieqb (c_edges c);
                Ok (fst p, @apply_sizes ident ieqb (c_fixed c) (c_sizes c) (fst p) (snd p)) in
      let m0 := match r0 with
                | Ok (ids, g) => (if list_eqb ieqb ids (c_ids c) then [] else [50%nat]) ++ cmp_graph 0 g s0
                | Err _ => [99%nat]
                end in
      (* step 1: Components *)
      let comps := components s0 in
      let m1 := flat_map (fun p : nat * graph =>
                            match find_snap c 1 (Z.of_nat (fst p)) with
                            | Some o =>
                                (* the lists of the component, and its nodes and edges still as populated:
                                   laying out the components before it has not touched them *)
                                (if nat_list_eqb (g_N (snd p)) (g_N o) then [] else [109%nat])
                                ++ (if nat_list_eqb (g_E (snd p)) (g_E o) then [] else [110%nat])
                                ++ (if forallb (fun n => node_eqb (gnode s0 n) (gnode o n)) (g_N o) then [] else [120%nat])
                                ++ (if forallb (fun e => edge_eqb_struct (gedge s0 e) (gedge o e) && edge_eqb_route (gedge s0 e) (gedge o e)) (g_E o) then [] else [121%nat])
                            | None => [197%nat]
                            end) (combine (iota 0 (length comps)) comps)
                ++ (if Nat.eqb (length comps) (length (filter (fun s => Nat.eqb (s_label s) 1) (c_snaps c))) then [] else [150%nat]) in
      (* steps 2..8 per component *)
      let m2 := flat_map (fun i => match find_snap c 1 (Z.of_nat i) with
                                   | Some g1 => check_steps c (Z.of_nat i) [2;3;4;5;6;7;8]%nat g1 (self_loops g1)
                                   | None => []
                                   end) (iota 0 (length comps)) in
      (* output *)
      let finals := flat_map (fun i => match find_snap c 8 (Z.of_nat i) with Some g => [g] | None => [] end)
                             (iota 0 (length comps)) in
      let '(ons, oes) := collect_all (c_opts c) finals 0 in
      let m3 := (if forall2b onode_eqb ons (c_out_nodes c) then [] else [901%nat])
                ++ (if forall2b oedge_eqb oes (c_out_edges c) then [] else [902%nat]) in
      m0 ++ m1 ++ m2 ++ m3 ++ check_crossings c (length comps)
  end.

Definition check_cases (cs : list (nat * tcase)) : list (nat * list nat) :=
  flat_map (fun p => match check_case (snd p) with [] => [] | l => [(fst p, l)] end) cs.

(* deep check of the ordering phase: the functional model of the weighted-median heuristic (Model/Wmedian.v),
   run on the observed state before phase 3, must reproduce the observed state after it — the order of every
   layer, every position — and the crossing number sent to the monitor (codes 15xx, 1500 for the number) *)
Definition check_wmedian (c : tcase) : list nat :=
  if negb (c_wmedian c) then [] else      (* OrderingNoop: the ordering phase does nothing *)
  let ncomp := length (filter (fun s => Nat.eqb (s_label s) 1) (c_snaps c)) in
  let r := fold_left (fun (acc : list nat * list Z) i =>
             match find_snap c 4 (Z.of_nat i), find_snap c 5 (Z.of_nat i) with
             | Some before, Some after =>
                 match phase3_wmedian 24 before with
                 | Ok (g, ox) => (fst acc ++ cmp_graph 15 g after,
                                  snd acc ++ match ox with Some x => [x] | None => [] end)
                 | Err (ErrFuel k) => (fst acc ++ [1598%nat; (4000 + k)%nat], snd acc)
                 | Err _ => (fst acc ++ [1599%nat], snd acc)
                 end
             | _, _ => acc
             end) (iota 0 ncomp) ([], []) in
  fst r ++ (if list_eqb Z.eqb (snd r) (c_crossings c) then [] else [1500%nat]).

(* end to end: Layout as one function of the raw input (Model/Pipeline.v) reproduces the observed output, without
   looking at any intermediate state (code 1600; 1601 identifiers, 1602 nodes, 1603 edges, 1604 crossing numbers).
   Helper nodes are compared by coordinates only: their arena index depends on how components share the arena. *)
Definition onode_eqb_e2e (nreal : nat) (a b : onode) : bool :=
  (Nat.eqb (on_id a) (on_id b) || (Nat.leb nreal (on_id a) && Nat.leb nreal (on_id b)))
  && Qeq_bool (on_x a) (on_x b) && Qeq_bool (on_y a) (on_y b) && Qeq_bool (on_w a) (on_w b) && Qeq_bool (on_h a) (on_h b).

Definition check_e2e (c : tcase) : list nat :=
  let skip := match o_p4 (c_opts c), o_p5 (c_opts c) with
              | _, OtherRouting => true                                   (* splines: not modelled functionally *)
              | OtherPositioner, _ => negb (bk_modelled && (-2 <? c_bk c)%Z)
              | _, _ => false
              end in
  if skip then [] else
  (* [layout_x] is [layout] unless the positioner is Brandes-Koepf; [layout_n] is the same with OrderingNoop *)
  match (if c_wmedian c then layout_x ident ieqb (c_bk c) (c_opts c) (c_fixed c) (c_sizes c) (c_edges c)
         else layout_n ident ieqb (c_bk c) (c_opts c) (c_fixed c) (c_sizes c) (c_edges c)) with
  | Ok (ids, (ns, es, xs)) =>
      (if list_eqb ieqb ids (c_ids c) then [] else [1601%nat])
      ++ (if forall2b (onode_eqb_e2e (length ids)) ns (c_out_nodes c) then [] else [1602%nat])
      ++ (if forall2b oedge_eqb es (c_out_edges c) then [] else [1603%nat])
      ++ (if list_eqb Z.eqb xs (c_crossings c) then [] else [1604%nat])
  | Err (ErrFuel k) => [1698%nat; (4000 + k)%nat]
  | Err _ => [1699%nat]
  end.

Definition check_cases_deep (cs : list (nat * tcase)) : list (nat * list nat) :=
  flat_map (fun p => match check_case (snd p) ++ check_wmedian (snd p) ++ check_e2e (snd p) with [] => [] | l => [(fst p, l)] end) cs.

(* ---------- unit correspondence: inner functions run on synthetic states ---------- *)
(* the implementation's vbalance / normalize on an arbitrary feasible layering against the model's *)
Definition unit_check (fn : nat) (before after : graph) : bool :=
  match fn with
  | 1%nat => forall2b node_eqb_layer (g_na (vbalance before)) (g_na after)
  | 2%nat => forall2b node_eqb_layer (g_na (normalize before)) (g_na after)
  | 4%nat | 5%nat =>
      match phase1 (if Nat.eqb fn 4 then Greedy else DepthFirst) before with
      | Ok m => forall2b node_eqb_struct (g_na m) (g_na after) && forall2b edge_eqb_struct (g_ea m) (g_ea after)
      | Err _ => false
      end
  | _ => false
  end.

Definition unit_cases_failing (cs : list (nat * (nat * graph * graph))) : list nat :=
  flat_map (fun c => let '(i, (fn, b, a)) := c in if unit_check fn b a then [] else [i]) cs.

(* the crossing counter on a synthetic proper layering: the model's count must be the implementation's *)
Definition cross_failing (cs : list (nat * (graph * Z))) : list nat :=
  flat_map (fun c => let '(i, (g, k)) := c in if (reported_crossings g =? k)%Z then [] else [i]) cs.

(* a positioner (phase 4) on a synthetic proper layering: algorithm code 1 SinkColoring, 2 VAlign, 3 PackRight,
   4 NetworkSimplex, 5 Brandes-Koepf (with its layout parameter); default thoroughness 28 and weight factor 4 *)
Definition pos_model (alg : nat) (bk : Z) (p : p4params) (before : graph) : res graph :=
  match alg with
  | 1%nat => phase4 SinkColoring p before
  | 2%nat => phase4 VAlign p before
  | 3%nat => phase4 PackRight p before
  | 4%nat => phase4 NsPositioner p before
  | _ => phase4_bk bk p before
  end.

Definition pos_check (alg : nat) (bk : Z) (ns ls : Q) (before after : graph) : list nat :=
  cmp_res 6 (pos_model alg bk (mkP4 ns ls 28 4) before) after.

Definition pos_failing (cs : list (nat * (nat * Z * Q * Q * graph * graph))) : list nat :=
  flat_map (fun c => let '(i, (alg, bk, ns, ls, b, a)) := c in
                     match pos_check alg bk ns ls b a with [] => [] | _ => [i] end) cs.

(* a positioner followed by a router (route code 1 Straight, 2 Polyline, 3 Ortho) on a synthetic proper layering *)
Definition route_check (alg : nat) (bk : Z) (route : nat) (ns ls : Q) (before after : graph) : list nat :=
  cmp_res 7 (do g <- pos_model alg bk (mkP4 ns ls 28 4) before;
             phase5 (match route with 1%nat => Straight | 2%nat => Polyline | _ => Ortho end) ls g) after.

Definition route_failing (cs : list (nat * (nat * Z * nat * Q * Q * graph * graph))) : list nat :=
  flat_map (fun c => let '(i, (alg, bk, route, ns, ls, b, a)) := c in
                     match route_check alg bk route ns ls b a with [] => [] | _ => [i] end) cs.

(* the ordering phase on a synthetic layering: order of every band, every position, and the reported crossing number *)
Definition order_check (before after : graph) (reported : list Z) : list nat :=
  match phase3_wmedian 24 before with
  | Ok (g, ox) => cmp_graph 15 g after
                  ++ (if list_eqb Z.eqb (match ox with Some x => [x] | None => [] end) reported then [] else [1500%nat])
  | Err (ErrFuel k) => [1598%nat; (4000 + k)%nat]
  | Err _ => [1599%nat]
  end.

Definition order_failing (cs : list (nat * (graph * graph * list Z))) : list nat :=
  flat_map (fun c => let '(i, (b, a, r)) := c in match order_check b a r with [] => [] | _ => [i] end) cs.
