(* Contracts.v — the parts of the pipeline that are not modelled functionally enter the model as oracles:
   the weighted-median heuristic supplies the order of every layer, Brandes-Koepf supplies x-coordinates and
   spline routing supplies control points. The model checks what it relies on (the order is a permutation of
   the layer) and performs the bookkeeping around the oracle itself; the theorems quantify over all oracles. *)
From Autog Require Export Layout.
Local Open Scope Q_scope.

(* is l2 a permutation of l1 (lists without duplicates assumed): same length, mutual inclusion *)
Definition perm_of (l1 l2 : list nat) : bool :=
  Nat.eqb (length l1) (length l2) && forallb (fun x => mem_nat x l2) l1 && forallb (fun x => mem_nat x l1) l2.

(* install the order chosen by the ordering phase: Layer.Nodes and Node.LayerPos *)
Definition apply_order (order : list (list nat)) (g : graph) : option graph :=
  if Nat.eqb (length order) (length (g_L g))
     && forallb (fun p : layer * list nat => perm_of (l_nodes (fst p)) (snd p)) (combine (g_L g) order)
  then
    let g := with_L g (map (fun p : layer * list nat => mkLayer (snd p) (l_w (fst p)) (l_h (fst p))) (combine (g_L g) order)) in
    Some (fold_left (fun g ns =>
            fst (fold_left (fun (acc : graph * Z) n => (upd_node (fst acc) n (set_pos (snd acc)), (snd acc + 1)%Z)) ns (g, 0%Z)))
          order g)
  else None.

(* Process of phase 3 with the heuristic as an oracle *)
Definition phase3 (wmedian : bool) (order : list (list nat)) (g : graph) : res graph :=
  if Nat.eqb (length (g_N g)) 1 then Ok g else
  if negb wmedian then
    (* OrderingNoop: the order of the layering is kept, long edges are broken, positions numbered *)
    do g <- (if Nat.ltb 1 (length (g_L g)) then break_long_edges g else Ok g);
    Ok (fold_left (fun g l =>
          fst (fold_left (fun (acc : graph * Z) n => (upd_node (fst acc) n (set_pos (snd acc)), (snd acc + 1)%Z))
                         (l_nodes l) (g, 0%Z))) (g_L g) g)
  else
  if Nat.eqb (length (g_L g)) 1 then Ok g else
  do g <- break_long_edges g;
  match apply_order order g with
  | Some g => Ok g
  | None => Err (ErrIndex 32)
  end.

(* phase 4 with a positioner that is an oracle for x: layer heights and y are still the model's *)
Definition phase4_oracle (p : p4params) (xs : list Q) (g : graph) : res graph :=
  if Nat.eqb (length (g_N g)) 1 then phase4 OtherPositioner p g else
  let g := fold_left (fun g n => upd_node g n (set_x (nth n xs 0))) (g_N g) g in
  let g := with_L g (map (fun l => set_layer_h (layer_height g (l_nodes l) (l_h l)) l) (g_L g)) in
  Ok (assign_y (layer_spacing p) g).

(* phase 5 with a router that is an oracle for the points *)
Definition phase5_oracle (pts : list (list pt)) (g : graph) : res graph :=
  if Nat.eqb (length (g_N g)) 1 then Ok g else
  do r <- merge_long_edges g;
  let '(g, routes) := r in
  Ok (fold_left (fun g r => upd_edge g (fst r) (set_pts (nth (fst r) pts []))) routes g).
