(* CrossCount.v — internal/phase3/crossings.go: the Barth-Mutzel accumulator-tree cross counter *)
From Autog Require Export Graph Phase3.

(* inLayerEdges + orderedEdgeNodes: for every node of the larger layer ("upper"), its edges that join the two
   layers, as (position of the end in upper, position of the end in lower) *)
Definition cc_pairs (g : graph) (ui li : Z) (unodes : list nat) : list (Z * Z) :=
  flat_map (fun n =>
    flat_map (fun e =>
      let ed := gedge g e in
      let lf := layer_of g (e_from ed) in let lt := layer_of g (e_to ed) in
      if ((Z.min lf lt =? Z.min ui li) && (Z.max lf lt =? Z.max ui li))%bool then
        if lf =? ui then [(pos_of g (e_from ed), pos_of g (e_to ed))]
        else [(pos_of g (e_to ed), pos_of g (e_from ed))]
      else []) (all_edges g n)) unodes.

Definition has_pair (p : Z * Z) (l : list (Z * Z)) : bool :=
  existsb (fun q => (fst p =? fst q) && (snd p =? snd q))%bool l.

(* radixsort: the m x n matrix holds at most one entry per cell; targets are collected row by row *)
Definition radix_targets (m n : nat) (pairs : list (Z * Z)) : list Z :=
  flat_map (fun i => flat_map (fun j => if has_pair (Z.of_nat i, Z.of_nat j) pairs then [Z.of_nat j] else [])
                              (iota 0 n)) (iota 0 m).

Fixpoint pow2_ge (fuel : nat) (k q : nat) : nat :=
  match fuel with O => k | S f => if Nat.ltb k q then pow2_ge f (2 * k) q else k end.

(* the walk from a leaf to the root: add the right sibling's count when standing on a left child *)
Fixpoint walk_up (fuel : nat) (tree : list Z) (i : nat) (cross : Z) : list Z * Z :=
  match fuel with
  | O => (tree, cross)
  | S f =>
      if Nat.eqb i 0 then (tree, cross) else
      let cross := if Nat.odd i then cross + nth (S i) tree 0 else cross in
      let i' := Nat.div (i - 1) 2 in
      walk_up f (upd tree i' (fun z => z + 1)) i' cross
  end.

Definition cc_insert (k : nat) (st : list Z * Z) (t : Z) : list Z * Z :=
  let i := (Z.to_nat t + k)%nat in
  walk_up (S i) (upd (fst st) i (fun z => z + 1)) i (snd st).

(* q = size of the smaller layer; targets are positions in it *)
Definition cc_count (q : nat) (targets : list Z) : Z :=
  let k := pow2_ge q 1 q in
  snd (fold_left (cc_insert (k - 1)) targets (repeat 0 (2 * k - 1), 0)).

(* countCrossings(l1, l2) for the layers with indices i1 i2 *)
Definition count_crossings (g : graph) (i1 i2 : nat) : Z :=
  let l1 := l_nodes (glayer g i1) in let l2 := l_nodes (glayer g i2) in
  if (Nat.ltb (length l1) 2 || Nat.ltb (length l2) 2)%bool then 0 else
  let '(ui, unodes, li, lnodes) :=
    if Nat.ltb (length l2) (length l1) then (i1, l1, i2, l2) else (i2, l2, i1, l1) in
  let pairs := cc_pairs g (Z.of_nat ui) (Z.of_nat li) unodes in
  cc_count (Nat.min (length l1) (length l2)) (radix_targets (length unodes) (length lnodes) pairs).

(* crossings(layers) *)
Definition reported_crossings (g : graph) : Z :=
  fold_left (fun s i => s + count_crossings g i (S i)) (iota 0 (Nat.pred (length (g_L g)))) 0.
