(* Geom.v — internal/geom: rect.go, triangle.go, orientation.go, triangulate.go, shortest.go (the corridor
   shortest-path router) over rationals. All the router does with coordinates is copy them and compare the
   sign of 2x2 determinants, so the model is exact wherever the float64 products are (small dyadic inputs). *)
From Autog Require Export Base.
Local Open Scope Q_scope.

Record rect := mkRect { r_tl : pt; r_br : pt }.
Definition px (p : pt) : Q := fst p.
Definition py (p : pt) : Q := snd p.

Inductive orient := CCW | CLN | CW.
Definition orient_eqb (a b : orient) : bool :=
  match a, b with CCW, CCW | CLN, CLN | CW, CW => true | _, _ => false end.

(* orientation: sign of (b-a) x (c-a), SVG axes *)
Definition orientation (a b c : pt) : orient :=
  let d := (px b - px a) * (py c - py a) - (py b - py a) * (px c - px a) in
  if Qlt_bool d 0 then CCW else if Qlt_bool 0 d then CW else CLN.

Record tri := mkTri { t_id : nat; t_a : pt; t_b : pt; t_c : pt }.
Definition tri0 := mkTri 0 (0, 0) (0, 0) (0, 0).
Definition tri_pts (t : tri) : list pt := [t_a t; t_b t; t_c t].

(* Tri.Contains *)
Definition tri_contains (t : tri) (p : pt) : bool :=
  let e := tri_pts t in
  let fix go (i : nat) (s : nat) (fuel : nat) : bool :=
    match fuel with
    | O => Nat.eqb s 3 || Nat.eqb s 0
    | S f =>
        let q := nth (i mod 3) e (0, 0) in let r := nth ((i + 1) mod 3) e (0, 0) in
        match orientation q r p with
        | CLN => Qle_bool (Qmin' (px q) (px r)) (px p) && Qle_bool (px p) (Qmax' (px q) (px r))
                 && Qle_bool (Qmin' (py q) (py r)) (py p) && Qle_bool (py p) (Qmax' (py q) (py r))
        | CW => go (S i) s f
        | CCW => go (S i) (S s) f
        end
    end in
  go 0%nat 0%nat 3%nat.

(* Segment and Tri.OrderedSide *)
Definition seg := (pt * pt)%type.
Definition seg_eqb (a b : seg) : bool := pt_eqb (fst a) (fst b) && pt_eqb (snd a) (snd b).

Definition ordered_side (t : tri) (i : nat) : seg :=
  let e := tri_pts t in
  let a := nth (i mod 3) e (0, 0) in let b := nth ((i + 1) mod 3) e (0, 0) in
  if Qlt_bool (px a) (px b) then (a, b)
  else if Qlt_bool (px b) (px a) then (b, a)
  else if Qlt_bool (py a) (py b) then (a, b) else (b, a).

Definition seg_other (s : seg) (v : pt) : pt := if pt_eqb (fst s) v then snd s else fst s.

Definition leftmost (p1 p2 : pt) := if Qlt_bool (px p1) (px p2) then p1 else p2.
Definition rightmost_pt (p1 p2 : pt) := if Qlt_bool (px p1) (px p2) then p2 else p1.
Definition left2right (p1 p2 : pt) := if Qlt_bool (px p1) (px p2) then (p1, p2) else (p2, p1).

(* Triangulate: triangles are numbered from 1 in the order they are appended *)
Definition add_tri (ts : list tri) (a b c : pt) : list tri := ts ++ [mkTri (S (length ts)) a b c].

Definition triangulate (rects : list rect) : list tri :=
  match rects with
  | [r] => add_tri (add_tri [] (r_br r) (r_tl r) (px (r_br r), py (r_tl r))) (r_br r) (r_tl r) (px (r_tl r), py (r_br r))
  | _ =>
      let n := length rects in
      fold_left (fun ts i =>
        let r1 := nth i rects (mkRect (0, 0) (0, 0)) in
        let last := Nat.eqb (S i) n in
        let r2 := nth (S i) rects (mkRect (0, 0) (0, 0)) in
        let '(a, b) := if last then (r_br r1, (0, 0)) else left2right (r_br r1) (px (r_br r2), py (r_tl r2)) in
        let r0 := nth (i - 1) rects (mkRect (0, 0) (0, 0)) in
        let '(ts, merge) :=
          if Nat.eqb i 0 then (ts, false) else
          let '(ts, m1) :=
            if Qlt_bool (px (r_tl r1)) (px (r_tl r0)) then
              let s := (px (r_tl r0), py (r_tl r1)) in
              let c := leftmost (r_br r0) (px (r_br r1), py (r_tl r1)) in
              (add_tri (add_tri ts a s c) a (r_tl r1) s, true)
            else (ts, false) in
          let '(ts, m2) :=
            if Qlt_bool (px (r_br r0)) (px (r_br r1)) then
              let s := (px (r_br r0), py (r_tl r1)) in
              (add_tri (add_tri ts a s (px (r_br r1), py (r_tl r1))) a (r_tl r1) s, true)
            else (ts, m1) in
          let ts :=
            if last then
              let ts := add_tri ts (r_br r1) (r_tl r1) (px (r_tl r1), py (r_br r1)) in
              if negb m2 then add_tri ts (r_tl r1) (r_br r1) (px (r_br r1), py (r_tl r1)) else ts
            else ts in
          (ts, m2) in
        if last then ts else
        let ts := if Qlt_bool (px (r_br r2)) (px (r_br r1)) then add_tri ts a (px (r_br r1), py (r_tl r1)) b else ts in
        let ts := add_tri ts a (rightmost_pt (px (r_tl r1), py (r_br r1)) (r_tl r2)) (r_tl r1) in
        let ts := if negb merge then add_tri ts (r_tl r1) a (px (r_br r1), py (r_tl r1)) else ts in
        if Qlt_bool (px (r_tl r1)) (px (r_tl r2)) then add_tri ts (r_tl r2) (r_tl r1) (px (r_tl r1), py (r_br r1)) else ts)
      (iota 0 n) []
  end.

(* dualGraph: first owner of each ordered side, then adjacency (id, id, side), later entries overwrite *)
Fixpoint find_side (s : seg) (pm : list (seg * nat)) : option nat :=
  match pm with [] => None | (k, v) :: t => if seg_eqb s k then Some v else find_side s t end.

Definition adj_entry := (nat * nat * seg)%type.

Definition dual_graph (start : tri) (ts : list tri) : list adj_entry :=
  snd (fold_left (fun (acc : list (seg * nat) * list adj_entry) t =>
         fold_left (fun (acc : list (seg * nat) * list adj_entry) i =>
            let '(pm, adj) := acc in
            let side := ordered_side t i in
            match find_side side pm with
            | None => (pm ++ [(side, t_id t)], adj)
            | Some id => (pm, (id, t_id t, side) :: (t_id t, id, side) :: adj)
            end) [0; 1; 2]%nat acc)
       ts ([(ordered_side start 0, t_id start)], [])).

(* adj[i][j]: the latest entry wins (the list is searched from the newest) *)
Definition adj_get (adj : list adj_entry) (i j : nat) : option seg :=
  option_map (fun e : adj_entry => snd e) (find (fun e : adj_entry => Nat.eqb (fst (fst e)) i && Nat.eqb (snd (fst e)) j) adj).

(* crossedDiagonals: DFS over triangle ids in increasing order *)
Fixpoint crossed_diagonals (fuel : nat) (nt : nat) (adj : list adj_entry) (s e : nat) (visited : list nat)
  : option (list seg) * list nat :=
  match fuel with
  | O => (None, visited)
  | S f =>
      if Nat.eqb s e then (Some [], visited) else
      let visited := s :: visited in
      (fix loop (tids : list nat) (visited : list nat) : option (list seg) * list nat :=
         match tids with
         | [] => (None, visited)
         | tid :: rest =>
             match adj_get adj s tid with
             | Some dg =>
                 if mem_nat tid visited then loop rest visited else
                 match crossed_diagonals f nt adj tid e visited with
                 | (Some out, v) => (Some (dg :: out), v)
                 | (None, v) => loop rest v
                 end
             | None => loop rest visited
             end
         end) (iota 0 (S nt)) visited
  end.

Definition common_vertex (d1 d2 : seg) : pt :=
  if pt_eqb (fst d1) (fst d2) || pt_eqb (snd d1) (fst d2) then fst d2 else snd d2.

(* the deque: a window [f, b] over an array *)
Record deque := mkDq { dq_data : list pt; dq_f : Z; dq_b : Z }.
Definition dq_len (d : deque) : Z := (dq_b d - dq_f d + 1)%Z.
Definition dq_get (d : deque) (i : Z) : pt := nth (Z.to_nat i) (dq_data d) (0, 0).
Definition dq_in (d : deque) (i : Z) : bool := ((0 <=? i) && (i <? Z.of_nat (length (dq_data d))))%Z.
Definition push_front (d : deque) (x : pt) : deque :=
  mkDq (set_nth (dq_data d) (Z.to_nat (dq_f d - 1)) x) (dq_f d - 1) (dq_b d).
Definition push_back (d : deque) (x : pt) : deque :=
  mkDq (set_nth (dq_data d) (Z.to_nat (dq_b d + 1)) x) (dq_f d) (dq_b d + 1).
Definition peek_front (d : deque) (i : Z) : pt := dq_get d (dq_f d + i - 1).
Definition peek_back (d : deque) (i : Z) : pt := dq_get d (dq_b d - i + 1).

Definition outside_left (d : deque) (apex : Z) (v : pt) : bool :=
  if (dq_len d <? 2)%Z then true else
  let o := orientation (peek_front d 2) (peek_front d 1) v in
  ((dq_f d <? apex)%Z && negb (orient_eqb o CCW)) || ((apex <=? dq_f d)%Z && negb (orient_eqb o CW)).

Definition outside_right (d : deque) (apex : Z) (v : pt) : bool :=
  if (dq_len d <? 2)%Z then true else
  let o := orientation (peek_back d 2) (peek_back d 1) v in
  ((apex <? dq_b d)%Z && negb (orient_eqb o CW)) || ((dq_b d <=? apex)%Z && negb (orient_eqb o CCW)).

Fixpoint shrink_left (fuel : nat) (d : deque) (apex : Z) (v : pt) : res deque :=
  if outside_left d apex v then Ok d else
  match fuel with O => Err (ErrFuel 61) | S f => shrink_left f (mkDq (dq_data d) (dq_f d + 1) (dq_b d)) apex v end.
Fixpoint shrink_right (fuel : nat) (d : deque) (apex : Z) (v : pt) : res deque :=
  if outside_right d apex v then Ok d else
  match fuel with O => Err (ErrFuel 62) | S f => shrink_right f (mkDq (dq_data d) (dq_f d) (dq_b d - 1)) apex v end.

Definition pred_map := list (pt * pt).
Fixpoint pred_get (m : pred_map) (k : pt) : option pt :=
  match m with [] => None | (a, b) :: t => if pt_eqb a k then Some b else pred_get t k end.

(* funnel loop over consecutive diagonals *)
Fixpoint funnel (dl : list seg) (prev : seg) (d : deque) (apex : Z) (pm : pred_map) : res pred_map :=
  match dl with
  | [] => Ok pm
  | cur :: rest =>
      let c := common_vertex prev cur in
      let fuel := S (length (dq_data d)) in
      if pt_eqb (peek_back d 1) c then
        let v := seg_other cur c in
        do d <- shrink_left fuel d apex v;
        if negb (dq_in d (dq_f d - 1)) then Err (ErrIndex 63) else
        let apex := if (apex <? dq_f d)%Z then dq_f d else apex in
        funnel rest cur (push_front d v) apex ((v, peek_front d 1) :: pm)
      else if pt_eqb (peek_front d 1) c then
        let v := seg_other cur c in
        do d <- shrink_right fuel d apex v;
        if negb (dq_in d (dq_b d + 1)) then Err (ErrIndex 63) else
        let apex := if (dq_b d <? apex)%Z then dq_b d else apex in
        funnel rest cur (push_back d v) apex ((v, peek_back d 1) :: pm)
      else Err (ErrIndex 64)    (* "disconnected triangulation diagonal" *)
  end.

Fixpoint walk_pred (fuel : nat) (pm : pred_map) (u : pt) (acc : list pt) : res (list pt) :=
  match fuel with
  | O => Err (ErrFuel 65)       (* a cycle in the predecessor map: the Go loop would not end *)
  | S f =>
      match pred_get pm u with
      | Some w => walk_pred f pm w (acc ++ [u])
      | None => Ok (acc ++ [u])
      end
  end.

(* Shortest(p1, p2, rects): the path from p2 back to p1 *)
Definition shortest (p1 p2 : pt) (rects : list rect) : res (list pt) :=
  let ts := triangulate rects in
  let start := fold_left (fun s t => if tri_contains t p1 then t else s) ts tri0 in
  let stop := fold_left (fun s t => if tri_contains t p2 then t else s) ts tri0 in
  if Nat.eqb (t_id start) (t_id stop) then Ok [p2; p1] else
  let adj := dual_graph start ts in
  match fst (crossed_diagonals (S (length ts)) (length ts) adj (t_id start) (t_id stop) []) with
  | None | Some [] => Err (ErrIndex 66)     (* dlist[len-1] on an empty list *)
  | Some (d0 :: drest) =>
      let dlast := last (d0 :: drest) d0 in
      let dl := (d0 :: drest) ++ [(fst dlast, p2)] in
      let size := (2 * length rects)%nat in
      let dq := mkDq (repeat (0, 0) (2 * size)) (Z.of_nat size) (Z.of_nat size - 1) in
      let dq := push_front dq p1 in
      let apex := dq_f dq in
      let dq := match orientation p1 (fst d0) (snd d0) with
                | CCW => push_back (push_front dq (fst d0)) (snd d0)
                | _ => push_back (push_front dq (snd d0)) (fst d0)
                end in
      do pm <- funnel (tl dl) d0 dq apex [];
      do path <- walk_pred (S (S (length dl))) pm p2 [];
      Ok (if pt_eqb (last path (0, 0)) p1 then path else path ++ [p1])
  end.

(* ---------- correspondence: observed results of geom.Shortest ---------- *)
(* outcome: 0 = returned the path, 1 = panicked, 2 = did not return within the watchdog *)
Definition geom_case := (pt * pt * list rect * nat * list pt)%type.

Definition geom_check (c : geom_case) : bool :=
  let '(p1, p2, rects, outcome, path) := c in
  match shortest p1 p2 rects, outcome with
  | Ok m, 0%nat => pts_eqb m path
  | Err (ErrFuel _), 2%nat => true
  | Err (ErrIndex _), 1%nat => true
  | _, _ => false
  end.

Definition geom_failing (cs : list (nat * geom_case)) : list nat :=
  flat_map (fun c => if geom_check (snd c) then [] else [fst c]) cs.
