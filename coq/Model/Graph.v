(* Graph.v — the working state of Layout: internal/graph/{node,edge,edge_list,layer,dgraph}.go *)
From Autog Require Export Base.

Record node := mkNode {
  n_in : list nat;     (* Node.In, edge indices in Go's slice order *)
  n_out : list nat;    (* Node.Out *)
  n_layer : Z;
  n_pos : Z;           (* LayerPos *)
  n_virt : bool;
  n_x : Q; n_y : Q; n_w : Q; n_h : Q
}.

Record edge := mkEdge {
  e_from : nat; e_to : nat;
  e_delta : Z; e_weight : Z;
  e_tree : bool;       (* IsInSpanningTree *)
  e_rev : bool;        (* IsReversed *)
  e_cut : Z;
  e_pts : list pt;
  e_ahs : bool         (* ArrowHeadStart *)
}.

Record layer := mkLayer { l_nodes : list nat; l_w : Q; l_h : Q }.

(* arena of nodes and edges + the lists of the DGraph under work (one connected component) *)
Record graph := mkGraph {
  g_na : list node;     (* node arena *)
  g_ea : list edge;     (* edge arena *)
  g_N : list nat;       (* DGraph.Nodes *)
  g_E : list nat;       (* DGraph.Edges *)
  g_L : list layer      (* DGraph.Layers; index = Layer.Index *)
}.

Definition node0 := mkNode [] [] 0 0 false 0 0 0 0.
Definition edge0 := mkEdge 0 0 1 1 false false 0 [] false.
Definition layer0 := mkLayer [] 0 0.

Definition gnode (g : graph) (i : nat) : node := nth i (g_na g) node0.
Definition gedge (g : graph) (i : nat) : edge := nth i (g_ea g) edge0.
Definition glayer (g : graph) (i : nat) : layer := nth i (g_L g) layer0.

Definition with_na (g : graph) na := mkGraph na (g_ea g) (g_N g) (g_E g) (g_L g).
Definition with_ea (g : graph) ea := mkGraph (g_na g) ea (g_N g) (g_E g) (g_L g).
Definition with_N (g : graph) l := mkGraph (g_na g) (g_ea g) l (g_E g) (g_L g).
Definition with_E (g : graph) l := mkGraph (g_na g) (g_ea g) (g_N g) l (g_L g).
Definition with_L (g : graph) l := mkGraph (g_na g) (g_ea g) (g_N g) (g_E g) l.

Definition upd_node (g : graph) (i : nat) (f : node -> node) : graph := with_na g (upd (g_na g) i f).
Definition upd_edge (g : graph) (i : nat) (f : edge -> edge) : graph := with_ea g (upd (g_ea g) i f).
Definition upd_layer (g : graph) (i : nat) (f : layer -> layer) : graph := with_L g (upd (g_L g) i f).

Definition set_in (l : list nat) (n : node) :=
  mkNode l (n_out n) (n_layer n) (n_pos n) (n_virt n) (n_x n) (n_y n) (n_w n) (n_h n).
Definition set_out (l : list nat) (n : node) :=
  mkNode (n_in n) l (n_layer n) (n_pos n) (n_virt n) (n_x n) (n_y n) (n_w n) (n_h n).
Definition set_layer (z : Z) (n : node) :=
  mkNode (n_in n) (n_out n) z (n_pos n) (n_virt n) (n_x n) (n_y n) (n_w n) (n_h n).
Definition set_pos (z : Z) (n : node) :=
  mkNode (n_in n) (n_out n) (n_layer n) z (n_virt n) (n_x n) (n_y n) (n_w n) (n_h n).
Definition set_x (q : Q) (n : node) :=
  mkNode (n_in n) (n_out n) (n_layer n) (n_pos n) (n_virt n) q (n_y n) (n_w n) (n_h n).
Definition set_y (q : Q) (n : node) :=
  mkNode (n_in n) (n_out n) (n_layer n) (n_pos n) (n_virt n) (n_x n) q (n_w n) (n_h n).
Definition set_wh (w h : Q) (n : node) :=
  mkNode (n_in n) (n_out n) (n_layer n) (n_pos n) (n_virt n) (n_x n) (n_y n) w h.

Definition set_ends (a b : nat) (e : edge) :=
  mkEdge a b (e_delta e) (e_weight e) (e_tree e) (e_rev e) (e_cut e) (e_pts e) (e_ahs e).
Definition set_rev (b : bool) (e : edge) :=
  mkEdge (e_from e) (e_to e) (e_delta e) (e_weight e) (e_tree e) b (e_cut e) (e_pts e) (e_ahs e).
Definition set_tree (b : bool) (e : edge) :=
  mkEdge (e_from e) (e_to e) (e_delta e) (e_weight e) b (e_rev e) (e_cut e) (e_pts e) (e_ahs e).
Definition set_cut (z : Z) (e : edge) :=
  mkEdge (e_from e) (e_to e) (e_delta e) (e_weight e) (e_tree e) (e_rev e) z (e_pts e) (e_ahs e).
Definition set_pts (p : list pt) (e : edge) :=
  mkEdge (e_from e) (e_to e) (e_delta e) (e_weight e) (e_tree e) (e_rev e) (e_cut e) p (e_ahs e).
Definition set_ahs (b : bool) (e : edge) :=
  mkEdge (e_from e) (e_to e) (e_delta e) (e_weight e) (e_tree e) (e_rev e) (e_cut e) (e_pts e) b.

(* EdgeList.Remove / Add. An edge occurs at most once in a list (populate creates a fresh edge per input
   pair), in which case Go's remove-while-ranging loop removes exactly that occurrence. *)
Definition el_remove (e : nat) (l : list nat) : list nat := remove_nat e l.
Definition el_add (e : nat) (l : list nat) : list nat := l ++ [e].

(* Edge.Reverse, internal/graph/edge.go:44-56, statement by statement *)
Definition reverse_edge (g : graph) (e : nat) : graph :=
  let ed := gedge g e in
  let from := e_from ed in let to := e_to ed in
  let g := upd_node g from (fun n => set_out (el_remove e (n_out n)) n) in
  let g := upd_node g to (fun n => set_in (el_remove e (n_in n)) n) in
  let g := upd_node g from (fun n => set_in (el_add e (n_in n)) n) in
  let g := upd_node g to (fun n => set_out (el_add e (n_out n)) n) in
  upd_edge g e (fun ed => set_rev (negb (e_rev ed)) (set_ends to from ed)).

Definition self_loop (g : graph) (e : nat) : bool := Nat.eqb (e_from (gedge g e)) (e_to (gedge g e)).

(* Edge.ConnectedNode *)
Definition connected_node (g : graph) (e n : nat) : nat :=
  let ed := gedge g e in if Nat.eqb (e_to ed) n then e_from ed else e_to ed.

(* Node.allEdges: In then Out *)
Definition all_edges (g : graph) (n : nat) : list nat := n_in (gnode g n) ++ n_out (gnode g n).

Definition indeg g n := length (n_in (gnode g n)).
Definition outdeg g n := length (n_out (gnode g n)).

Definition layer_of g n := n_layer (gnode g n).
Definition is_flat g e := Z.eqb (layer_of g (e_from (gedge g e))) (layer_of g (e_to (gedge g e))).

(* ---------- comparison of observed states (correspondence check) ---------- *)
Definition nat_list_eqb := list_eqb Nat.eqb.

Definition node_eqb_struct (a b : node) : bool :=
  nat_list_eqb (n_in a) (n_in b) && nat_list_eqb (n_out a) (n_out b) && Bool.eqb (n_virt a) (n_virt b).
Definition node_eqb_layer (a b : node) : bool := Z.eqb (n_layer a) (n_layer b).
Definition node_eqb_pos (a b : node) : bool := Z.eqb (n_pos a) (n_pos b).
Definition node_eqb_size (a b : node) : bool := Qeq_bool (n_w a) (n_w b) && Qeq_bool (n_h a) (n_h b).
Definition node_eqb_xy (a b : node) : bool := Qeq_bool (n_x a) (n_x b) && Qeq_bool (n_y a) (n_y b).
Definition node_eqb (a b : node) : bool :=
  node_eqb_struct a b && node_eqb_layer a b && node_eqb_pos a b && node_eqb_size a b && node_eqb_xy a b.

Definition edge_eqb_struct (a b : edge) : bool :=
  Nat.eqb (e_from a) (e_from b) && Nat.eqb (e_to a) (e_to b) && Bool.eqb (e_rev a) (e_rev b)
  && Z.eqb (e_delta a) (e_delta b) && Z.eqb (e_weight a) (e_weight b).
Definition edge_eqb_route (a b : edge) : bool := pts_eqb (e_pts a) (e_pts b) && Bool.eqb (e_ahs a) (e_ahs b).
Definition edge_eqb_tree (a b : edge) : bool := Bool.eqb (e_tree a) (e_tree b) && Z.eqb (e_cut a) (e_cut b).

Definition layer_eqb (a b : layer) : bool := nat_list_eqb (l_nodes a) (l_nodes b).
Definition layer_eqb_h (a b : layer) : bool := Qeq_bool (l_h a) (l_h b).
