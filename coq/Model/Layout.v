(* Layout.v — autolayout.go: the pipeline per connected component and the collection of the output *)
From Autog Require Export Populate Phase1 Phase2 Phase3 Phase4 Phase5.
Local Open Scope Q_scope.

(* the ordering phase and the positioners that are not modelled are parameters of the pipeline: any
   function of the state may be plugged in; Contracts.v states what the theorems need from them *)
Record options := mkOptions {
  o_p1 : p1alg; o_p2 : p2alg; o_p4 : p4alg; o_p5 : p5alg;
  o_thoroughness : Z; o_factor : Z;
  o_node_spacing : Q; o_layer_spacing : Q;
  o_virtual : bool
}.

Definition ns_params (o : options) := mkNsParams (o_thoroughness o) 0 1.
Definition p4_params (o : options) := mkP4 (o_node_spacing o) (o_layer_spacing o) (o_thoroughness o) (o_factor o).

(* output records: node = (arena index, x, y, w, h); edge = (from, to, points, arrow head at start) *)
Record onode := mkONode { on_id : nat; on_x : Q; on_y : Q; on_w : Q; on_h : Q }.
Record oedge := mkOEdge { oe_from : nat; oe_to : nat; oe_pts : list pt; oe_ahs : bool }.

Definition collect_nodes (include_virtual : bool) (shift : Q) (g : graph) : list onode :=
  flat_map (fun n => let nd := gnode g n in
                     if n_virt nd && negb include_virtual then []
                     else [mkONode n (n_x nd + shift) (n_y nd) (n_w nd) (n_h nd)]) (g_N g).

Definition collect_edges (shift : Q) (g : graph) : list oedge :=
  map (fun e => let ed := gedge g e in
                mkOEdge (e_from ed) (e_to ed) (map (fun p : pt => (fst p + shift, snd p)) (e_pts ed)) (e_ahs ed)) (g_E g).

Definition rightmost (g : graph) : Q :=
  fold_left (fun m l => match last_opt (l_nodes l) with
                        | Some n => Qmax' m (nX g n + nW g n)
                        | None => m
                        end) (g_L g) 0.

Definition post_process (g : graph) (del : list nat) : graph := unreverse_edges (restore_self_loops g del).
