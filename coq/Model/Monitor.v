(* Monitor.v — internal/monitor/monitor.go as a state machine, and Layout's use of it (autolayout.go:22-23).
   The four functions are interpreted from the table of guarded actions that the translator regenerates from
   the source (Generated/Facts.v, monitor_funcs); Properties/C18.v checks that table against [expected_funcs]. *)
From Coq Require Import String List Bool Arith.
Import ListNotations.
Open Scope string_scope.
Open Scope list_scope.

Record mstate := mkM { cur : option nat;   (* m: the current monitor, by identity *)
                       ph : nat;           (* p: phase number, 0 = none *)
                       al : nat }.         (* a: algorithm name, 0 = "" *)
Definition m_init := mkM None 0 0.

(* an event delivered to a monitor: (monitor, phase, algorithm) *)
Definition event := (nat * nat * nat)%type.

Definition funcs_table := list (string * string * list string).

Definition expected_funcs : funcs_table :=
  [ ("Set", "param", ["m=param"]);
    ("PrefixFor", "m", ["p=phase"; "a=alg"]);
    ("Reset", "m", ["m=nil"; "p=0"; "a=empty"]);
    ("Log", "m", ["deliver"]) ].

(* one call of a monitor-package function: name, the monitor argument (Set), phase and algorithm (PrefixFor) *)
Record mcall := mkCall { fn : string; arg : option nat; cph : nat; cal : nat }.

Definition guard_holds (g : string) (c : mcall) (s : mstate) : bool :=
  if String.eqb g "param" then match arg c with Some _ => true | None => false end
  else if String.eqb g "m" then match cur s with Some _ => true | None => false end
  else String.eqb g "".

(* result: new state, delivered events, number of writes to the package-level variables *)
Definition do_act (c : mcall) (a : string) (r : mstate * list event * nat) : mstate * list event * nat :=
  let '(s, ev, w) := r in
  if String.eqb a "m=param" then (mkM (arg c) (ph s) (al s), ev, S w)
  else if String.eqb a "m=nil" then (mkM None (ph s) (al s), ev, S w)
  else if String.eqb a "p=phase" then (mkM (cur s) (cph c) (al s), ev, S w)
  else if String.eqb a "p=0" then (mkM (cur s) 0 (al s), ev, S w)
  else if String.eqb a "a=alg" then (mkM (cur s) (ph s) (cal c), ev, S w)
  else if String.eqb a "a=empty" then (mkM (cur s) (ph s) 0, ev, S w)
  else if String.eqb a "deliver" then
         match cur s with
         | Some m => (s, ev ++ [(m, ph s, al s)], w)
         | None => r        (* m.Log on a nil m would panic; excluded by the guard *)
         end
  else r.

Fixpoint lookup (t : funcs_table) (name : string) : option (string * list string) :=
  match t with
  | [] => None
  | (n, g, acts) :: rest => if String.eqb n name then Some (g, acts) else lookup rest name
  end.

Definition step (t : funcs_table) (c : mcall) (s : mstate) : mstate * list event * nat :=
  match lookup t (fn c) with
  | Some (g, acts) => if guard_holds g c s then fold_left (fun r a => do_act c a r) acts (s, [], 0) else (s, [], 0)
  | None => (s, [], 0)
  end.

Definition run (t : funcs_table) (cs : list mcall) (s : mstate) : mstate * list event * nat :=
  fold_left (fun r c => let '(s, ev, w) := r in
                        let '(s', ev', w') := step t c s in (s', ev ++ ev', w + w')) cs (s, [], 0).

(* what the body of a Layout call may do with the monitor package: PrefixFor and Log, in any order, any number
   of times; a panic cuts the body short at an arbitrary point, the deferred Reset still runs *)
Inductive bodyop := BPrefix (phase alg : nat) | BLog.
Definition body_call (b : bodyop) : mcall :=
  match b with BPrefix p a => mkCall "PrefixFor" None p a | BLog => mkCall "Log" None 0 0 end.

(* one Layout call: Set(monitor); defer Reset(); body *)
Definition layout_call (mon : option nat) (body : list bodyop) : list mcall :=
  mkCall "Set" mon 0 0 :: map body_call body ++ [mkCall "Reset" None 0 0].
