(* Phase1.v — internal/phase1: alg_process.go, cycle.go, dfs.go, greedy.go (deterministic pick) *)
From Autog Require Export Graph.

(* ---------- removeTwoNodeCycles ---------- *)
Definition pair_eqb (p q : nat * nat) : bool := Nat.eqb (fst p) (fst q) && Nat.eqb (snd p) (snd q).
Definition seen_pair (p : nat * nat) (l : list (nat * nat)) : bool := existsb (pair_eqb p) l.

(* returns the edges to reverse, in edge-list order *)
Fixpoint two_cycle_edges (g : graph) (es : list nat) (seen : list (nat * nat)) : list nat :=
  match es with
  | [] => []
  | e :: t =>
      let a := e_from (gedge g e) in let b := e_to (gedge g e) in
      if seen_pair (b, a) seen then e :: two_cycle_edges g t seen
      else two_cycle_edges g t ((a, b) :: seen)
  end.

Definition remove_two_node_cycles (g : graph) : graph :=
  fold_left reverse_edge (two_cycle_edges g (g_E g) []) g.

(* ---------- hasCycles (cycle.go) ---------- *)
(* st = (visited, finished); result (found, st) *)
Fixpoint hc_visit (fuel : nat) (g : graph) (n : nat) (st : list nat * list nat)
  : res (bool * (list nat * list nat)) :=
  match fuel with
  | O => Err (ErrFuel 11)
  | S f =>
      let st0 := (n :: fst st, snd st) in
      do r <- (fix loop (es : list nat) (st : list nat * list nat) : res (bool * (list nat * list nat)) :=
                 match es with
                 | [] => Ok (false, st)
                 | e :: t =>
                     if self_loop g e then loop t st else
                     let m := connected_node g e n in
                     if mem_nat m (fst st) then Ok (true, st)
                     else if negb (mem_nat m (snd st)) then
                            do r <- hc_visit f g m st;
                            if fst r then Ok r else loop t (snd r)
                          else loop t st
                 end) (n_out (gnode g n)) st0;
      if fst r then Ok r
      else Ok (false, (remove_nat n (fst (snd r)), n :: snd (snd r)))
  end.

Fixpoint hc_nodes (fuel : nat) (g : graph) (ns : list nat) (st : list nat * list nat) : res bool :=
  match ns with
  | [] => Ok false
  | n :: t =>
      if negb (mem_nat n (fst st)) && negb (mem_nat n (snd st)) then
        do r <- hc_visit fuel g n st;
        if fst r then Ok true else hc_nodes fuel g t (snd r)
      else hc_nodes fuel g t st
  end.

Definition has_cycles (g : graph) : res bool := hc_nodes (S (length (g_na g))) g (g_N g) ([], []).

(* ---------- depth-first breaker (dfs.go) ---------- *)
(* st = (visited, active, reversable) *)
Definition dfs_st := (list nat * list nat * list nat)%type.

Fixpoint dfs_visit (fuel : nat) (g : graph) (n : nat) (st : dfs_st) : res dfs_st :=
  match fuel with
  | O => Err (ErrFuel 12)
  | S f =>
      let '(vis, act, rev) := st in
      if mem_nat n vis then Ok st else
      do st <- (fix loop (es : list nat) (st : dfs_st) : res dfs_st :=
                  match es with
                  | [] => Ok st
                  | e :: t =>
                      if self_loop g e then loop t st else
                      let '(vis, act, rev) := st in
                      let to := e_to (gedge g e) in
                      if mem_nat to act then loop t (vis, act, rev ++ [e])
                      else do st' <- dfs_visit f g to st; loop t st'
                  end) (n_out (gnode g n)) (n :: vis, n :: act, rev);
      let '(vis, act, rev) := st in Ok (vis, remove_nat n act, rev)
  end.

Fixpoint dfs_nodes (fuel : nat) (g : graph) (ns : list nat) (st : dfs_st) : res dfs_st :=
  match ns with
  | [] => Ok st
  | n :: t => do st' <- dfs_visit fuel g n st; dfs_nodes fuel g t st'
  end.

Definition exec_depth_first (g : graph) : res graph :=
  let fuel := S (S (length (g_na g))) in
  let sources := filter (fun n => Nat.eqb (indeg g n) 0) (g_N g) in
  do st <- dfs_nodes fuel g sources ([], [], []);
  do st <- dfs_nodes fuel g (g_N g) st;   (* visit returns at once on visited nodes *)
  let '(_, _, rev) := st in
  Ok (fold_left reverse_edge rev g).

(* ---------- greedy breaker (greedy.go), GreedyCycleBreakerRandomNodeChoice = false ---------- *)
Record gst := mkGst {
  arc : list (option Z);     (* arcdiag, arena-indexed; None = not in the map *)
  outd : list Z; ind : list Z;
  srcs : list nat; snks : list nat;
  nextR : Z; nextL : Z; cnt : Z
}.

Definition arc_of (s : gst) (n : nat) : option Z := nth n (arc s) None.
Definition zget (l : list Z) (n : nat) : Z := nth n l 0.

Definition set_arc s n z := mkGst (set_nth (arc s) n (Some z)) (outd s) (ind s) (srcs s) (snks s) (nextR s) (nextL s) (cnt s).

Definition update_neighbors (g : graph) (s : gst) (n : nat) : gst :=
  let s := fold_left (fun s e =>
      if self_loop g e then s else
      let src := e_from (gedge g e) in
      match arc_of s src with
      | Some _ => s
      | None =>
          let od := upd (outd s) src (fun z => z - 1) in
          let sk := if (zget od src <=? 0) && (0 <? zget (ind s) src) then snks s ++ [src] else snks s in
          mkGst (arc s) od (ind s) (srcs s) sk (nextR s) (nextL s) (cnt s)
      end) (n_in (gnode g n)) s in
  fold_left (fun s e =>
      if self_loop g e then s else
      let tgt := e_to (gedge g e) in
      match arc_of s tgt with
      | Some _ => s
      | None =>
          let id := upd (ind s) tgt (fun z => z - 1) in
          let sr := if (zget id tgt <=? 0) && (0 <? zget (outd s) tgt) then srcs s ++ [tgt] else srcs s in
          mkGst (arc s) (outd s) id sr (snks s) (nextR s) (nextL s) (cnt s)
      end) (n_out (gnode g n)) s.

Fixpoint drain_sinks (fuel : nat) (g : graph) (s : gst) : res gst :=
  match snks s with
  | [] => Ok s
  | k :: rest =>
      match fuel with
      | O => Err (ErrFuel 13)
      | S f =>
          let s := mkGst (set_nth (arc s) k (Some (nextR s))) (outd s) (ind s) (srcs s) rest (nextR s - 1) (nextL s) (cnt s) in
          let s := update_neighbors g s k in
          drain_sinks f g (mkGst (arc s) (outd s) (ind s) (srcs s) (snks s) (nextR s) (nextL s) (cnt s - 1))
      end
  end.

Fixpoint drain_sources (fuel : nat) (g : graph) (s : gst) : res gst :=
  match srcs s with
  | [] => Ok s
  | k :: rest =>
      match fuel with
      | O => Err (ErrFuel 14)
      | S f =>
          let s := mkGst (set_nth (arc s) k (Some (nextL s))) (outd s) (ind s) rest (snks s) (nextR s) (nextL s + 1) (cnt s) in
          let s := update_neighbors g s k in
          drain_sources f g (mkGst (arc s) (outd s) (ind s) (srcs s) (snks s) (nextR s) (nextL s) (cnt s - 1))
      end
  end.

(* nodes of maximal outflow among the unprocessed ones, in g.Nodes order *)
Definition max_outflow_nodes (g : graph) (s : gst) : list nat :=
  let unp := filter (fun n => match arc_of s n with None => true | Some _ => false end) (g_N g) in
  match unp with
  | [] => []
  | n0 :: _ =>
      let flow n := zget (outd s) n - zget (ind s) n in
      let m := fold_left (fun m n => Z.max m (flow n)) unp (flow n0) in
      filter (fun n => flow n =? m) unp
  end.

Fixpoint drain_rest (fuel : nat) (g : graph) (s : gst) : res gst :=
  if cnt s <=? 0 then Ok s else
  match fuel with
  | O => Err (ErrFuel 15)
  | S f =>
      match max_outflow_nodes g s with
      | [] => Err (ErrIndex 15)   (* "expected maxOutflow strictly greater than MinInt" *)
      | cands =>
          let n := nth (Nat.div (length cands) 2) cands 0%nat in
          let s := mkGst (set_nth (arc s) n (Some (nextL s))) (outd s) (ind s) (srcs s) (snks s) (nextR s) (nextL s + 1) (cnt s) in
          let s := update_neighbors g s n in
          drain_rest f g (mkGst (arc s) (outd s) (ind s) (srcs s) (snks s) (nextR s) (nextL s) (cnt s - 1))
      end
  end.

Fixpoint greedy_outer (fuel : nat) (g : graph) (s : gst) : res gst :=
  if cnt s <=? 0 then Ok s else
  match fuel with
  | O => Err (ErrFuel 16)
  | S f =>
      let fl := S (length (g_na g) + length (g_ea g)) in
      do s <- drain_sinks fl g s;
      do s <- drain_sources fl g s;
      do s <- drain_rest fl g s;
      greedy_outer f g s
  end.

Definition greedy_ranks (g : graph) : res (list (option Z)) :=
  let na := length (g_na g) in
  let zeros := repeat 0 na in
  let ind0 := fold_left (fun l n => set_nth l n (Z.of_nat (indeg g n))) (g_N g) zeros in
  let outd0 := fold_left (fun l n => set_nth l n (Z.of_nat (outdeg g n))) (g_N g) zeros in
  let sources := filter (fun n => Nat.eqb (indeg g n) 0) (g_N g) in
  let sinks := filter (fun n => Nat.eqb (outdeg g n) 0) (g_N g) in
  let cntN := Z.of_nat (length (g_N g)) in
  let s0 := mkGst (repeat None na) outd0 ind0 sources sinks (-1) 1 cntN in
  do s <- greedy_outer (S (length (g_N g))) g s0;
  (* shift negative ranks to positive *)
  let shift := cntN + 1 in
  Ok (map (fun o => match o with Some z => if z <? 0 then Some (z + shift) else Some z | None => None end) (arc s)).

Definition rank_of (r : list (option Z)) (n : nat) : Z :=
  match nth n r None with Some z => z | None => 0 end.   (* Go: missing map key reads as 0 *)

Definition exec_greedy (g : graph) : res graph :=
  do r <- greedy_ranks g;
  (* for each node, over a copy of n.Out: reverse edges that point right *)
  Ok (fold_left (fun g n =>
        fold_left (fun g e => if rank_of r (e_to (gedge g e)) <? rank_of r n then reverse_edge g e else g)
                  (n_out (gnode g n)) g)
      (g_N g) g).

Inductive p1alg := Greedy | DepthFirst.

Definition phase1 (alg : p1alg) (g : graph) : res graph :=
  if Nat.eqb (length (g_N g)) 1 then Ok g else
  let g := remove_two_node_cycles g in
  do c <- has_cycles g;
  if negb c then Ok g else
  do g <- match alg with Greedy => exec_greedy g | DepthFirst => exec_depth_first g end;
  do c <- has_cycles g;
  if c then Err ErrStillCyclic else Ok g.
