(* Phase2.v — internal/phase2: alg_process.go, longest_path.go, network_simplex.go *)
From Autog Require Export Graph.

(* ---------- longest path (longest_path.go) ---------- *)
(* height: arena-indexed, -1 = not computed. Returns (height of n, heights, nlayers).
   The Go code visits the nodes in an order produced by an unstable sort; Proofs/LongestPath.v shows that
   the result does not depend on that order, so the model visits them in list order. *)
Fixpoint follow_lp (fuel : nat) (g : graph) (n : nat) (st : list Z * Z) : res (Z * (list Z * Z)) :=
  match fuel with
  | O => Err (ErrFuel 21)      (* unbounded recursion in Go: the graph has a cycle *)
  | S f =>
      let hn := nth n (fst st) (-1) in
      if 0 <=? hn then Ok (hn, st) else
      do r <- (fix loop (es : list nat) (nodeh : Z) (st : list Z * Z) : res (Z * (list Z * Z)) :=
                 match es with
                 | [] => Ok (nodeh, st)
                 | e :: t =>
                     if self_loop g e then loop t nodeh st else
                     do r <- follow_lp f g (connected_node g e n) st;
                     loop t (Z.max nodeh (fst r + e_delta (gedge g e))) (snd r)
                 end) (n_out (gnode g n)) 1 st;
      let '(nodeh, (hs, nl)) := r in
      Ok (nodeh, (set_nth hs n nodeh, Z.max nl nodeh))
  end.

Fixpoint lp_nodes (fuel : nat) (g : graph) (ns : list nat) (st : list Z * Z) : res (list Z * Z) :=
  match ns with
  | [] => Ok st
  | n :: t => do r <- follow_lp fuel g n st; lp_nodes fuel g t (snd r)
  end.

Definition exec_longest_path (g : graph) : res graph :=
  do st <- lp_nodes (S (length (g_na g))) g (g_N g) (repeat (-1) (length (g_na g)), 0);
  let '(hs, nl) := st in
  Ok (fold_left (fun g n => upd_node g n (set_layer (nl - nth n hs (-1)))) (g_N g) g).

(* ---------- network simplex (network_simplex.go) ---------- *)
Definition slack (g : graph) (e : nat) : Z :=
  let ed := gedge g e in layer_of g (e_to ed) - layer_of g (e_from ed) - e_delta ed.

(* initLayers *)
Fixpoint init_layers_loop (fuel : nat) (g : graph) (queue : list nat) (unseen : list Z) : res graph :=
  match queue with
  | [] => Ok g
  | n :: rest =>
      match fuel with
      | O => Err (ErrFuel 22)
      | S f =>
          let '(g, unseen, rest) :=
            fold_left (fun (acc : graph * list Z * list nat) e =>
                         let '(g, unseen, q) := acc in
                         let m := e_to (gedge g e) in
                         let g := upd_node g m (set_layer (Z.max (layer_of g m) (layer_of g n + e_delta (gedge g e)))) in
                         let unseen := upd unseen m (fun z => z - 1) in
                         if nth m unseen 0 =? 0 then (g, unseen, q ++ [m]) else (g, unseen, q))
                      (n_out (gnode g n)) (g, unseen, rest) in
          init_layers_loop f g rest unseen
      end
  end.

Definition init_layers (g : graph) : res graph :=
  let unseen := fold_left (fun l n => set_nth l n (Z.of_nat (indeg g n))) (g_N g) (repeat 0 (length (g_na g))) in
  let sources := filter (fun n => Nat.eqb (indeg g n) 0) (g_N g) in
  init_layers_loop (S (length (g_na g) + length (g_ea g))) g sources unseen.

(* tightTree: st = (graph with tree flags, visitedEdges, visitedNodes) *)
Definition tt_st := (graph * list nat * list nat)%type.

Fixpoint tight_tree (fuel : nat) (n : nat) (st : tt_st) : res tt_st :=
  match fuel with
  | O => Err (ErrFuel 23)
  | S f =>
      let '(g, ve, vn) := st in
      (* VisitEdges ranges over In and Out as they are at each step; the lists do not change here *)
      (fix loop (es : list nat) (st : tt_st) : res tt_st :=
         match es with
         | [] => Ok st
         | e :: t =>
             let '(g, ve, vn) := st in
             if mem_nat e ve then loop t st else
             let ve := e :: ve in
             let m := connected_node g e n in
             if e_tree (gedge g e) then do st' <- tight_tree f m (g, ve, vn); loop t st'
             else if negb (mem_nat m vn) && (slack g e =? 0) then
                    do st' <- tight_tree f m (upd_edge g e (set_tree true), ve, vn); loop t st'
                  else loop t (g, ve, vn)
         end) (all_edges g n) (g, ve, n :: vn)
  end.

(* incidentNonTreeEdge: first edge of minimum slack over tree nodes in node-list order *)
Definition incident_non_tree_edge (g : graph) (tree : list nat) : option nat :=
  let '(_, cand) :=
    fold_left (fun (acc : option Z * option nat) n =>
                 if negb (mem_nat n tree) then acc else
                 fold_left (fun (acc : option Z * option nat) e =>
                              if self_loop g e then acc else
                              if e_tree (gedge g e) || mem_nat (connected_node g e n) tree then acc else
                              let s := slack g e in
                              match fst acc with
                              | Some ms => if s <? ms then (Some s, Some e) else acc
                              | None => (Some s, Some e)
                              end)
                           (all_edges g n) acc)
              (g_N g) (None, None) in
  cand.

(* walkStreeDfs: st = (lim, low, visited edges); returns next number *)
Definition ws_st := (list Z * list Z * list nat)%type.

Fixpoint walk_stree (fuel : nat) (g : graph) (n : nat) (low : Z) (st : ws_st) : res (Z * ws_st) :=
  match fuel with
  | O => Err (ErrFuel 24)
  | S f =>
      let '(lims, lows, vis) := st in
      let st := (lims, set_nth lows n low, vis) in
      do r <- (fix loop (es : list nat) (lim : Z) (st : ws_st) : res (Z * ws_st) :=
                 match es with
                 | [] => Ok (lim, st)
                 | e :: t =>
                     let '(lims, lows, vis) := st in
                     if e_tree (gedge g e) && negb (mem_nat e vis) then
                       do r <- walk_stree f g (connected_node g e n) lim (lims, lows, e :: vis);
                       loop t (fst r) (snd r)
                     else loop t lim st
                 end) (all_edges g n) low st;
      let '(lim, (lims, lows, vis)) := r in
      Ok (lim + 1, (set_nth lims n lim, lows, vis))
  end.

Record limlow := mkLL { lims : list Z; lows : list Z }.
Definition lim_of ll n := nth n (lims ll) 0.
Definition low_of ll n := nth n (lows ll) 0.

Definition set_stree_values (g : graph) : res limlow :=
  match g_N g with
  | [] => Err (ErrIndex 24)
  | root :: _ =>
      let z := repeat 0 (length (g_na g)) in
      do r <- walk_stree (S (length (g_na g))) g root 1 (z, z, []);
      let '(_, (lims, lows, _)) := r in Ok (mkLL lims lows)
  end.

Definition in_head_component (g : graph) (ll : limlow) (n e : nat) : bool :=
  let u := e_from (gedge g e) in let v := e_to (gedge g e) in
  if lim_of ll u <? lim_of ll v then
    negb ((low_of ll u <=? lim_of ll n) && (lim_of ll n <=? lim_of ll u))
  else (low_of ll v <=? lim_of ll n) && (lim_of ll n <=? lim_of ll v).

Definition set_cut_values (g : graph) (ll : limlow) : graph :=
  fold_left (fun g e =>
     if negb (e_tree (gedge g e)) then g else
     let cv := fold_left (fun cv f =>
                   if e_tree (gedge g f) then cv else
                   let hf := in_head_component g ll (e_from (gedge g f)) e in
                   let ht := in_head_component g ll (e_to (gedge g f)) e in
                   if negb hf && ht then cv + e_weight (gedge g f)
                   else if hf && negb ht then cv - e_weight (gedge g f) else cv)
                 (g_E g) (e_weight (gedge g e)) in
     upd_edge g e (set_cut cv)) (g_E g) g.

Fixpoint feasible_loop (fuel : nat) (g : graph) : res graph :=
  match fuel with
  | O => Err (ErrFuel 25)
  | S f =>
      match g_N g with
      | [] => Err (ErrIndex 25)
      | root :: _ =>
          let g := fold_left (fun g e => upd_edge g e (set_tree false)) (g_E g) g in
          do st <- tight_tree (S (length (g_na g))) root (g, [], []);
          let '(g, _, tree) := st in
          if Nat.eqb (length tree) (length (g_N g)) then Ok g else
          match incident_non_tree_edge g tree with
          | None => Err ErrNoIncidentEdge
          | Some e =>
              let d := slack g e in
              let d := if mem_nat (e_to (gedge g e)) tree then - d else d in
              feasible_loop f (fold_left (fun g n => upd_node g n (fun nd => set_layer (n_layer nd + d) nd)) tree g)
          end
      end
  end.

Definition feasible_tree (g : graph) : res (graph * limlow) :=
  do g <- init_layers g;
  do g <- feasible_loop (S (length (g_N g))) g;
  do ll <- set_stree_values g;
  Ok (set_cut_values g ll, ll).

Definition neg_cut_tree_edge (g : graph) : option nat :=
  find (fun e => e_tree (gedge g e) && (e_cut (gedge g e) <? 0)) (g_E g).

Definition min_slack_non_tree_edge (g : graph) (ll : limlow) (e : nat) : option nat :=
  snd (fold_left (fun (acc : option Z * option nat) f =>
                    if Nat.eqb f e || e_tree (gedge g f) then acc else
                    if in_head_component g ll (e_from (gedge g f)) e && negb (in_head_component g ll (e_to (gedge g f)) e) then
                      let s := slack g f in
                      match fst acc with
                      | Some ms => if s <? ms then (Some s, Some f) else acc
                      | None => (Some s, Some f)
                      end
                    else acc) (g_E g) (None, None)).

Definition exchange (g : graph) (ll : limlow) (e f : nat) : res (graph * limlow) :=
  let d := slack g f in
  let g := if 0 <? d then
             fold_left (fun g' n => if negb (in_head_component g ll n e)
                                    then upd_node g' n (fun nd => set_layer (n_layer nd - d) nd) else g')
                       (g_N g) g
           else g in
  let g := upd_edge (upd_edge g e (set_tree false)) f (set_tree true) in
  do ll <- set_stree_values g;
  Ok (set_cut_values g ll, ll).

(* pivot loop; returns the state and whether it stopped on the budget (or the unexplained nil candidate) *)
Fixpoint pivot_loop (fuel : nat) (i maxitr : Z) (g : graph) (ll : limlow) : res (graph * limlow * bool) :=
  match neg_cut_tree_edge g with
  | None => Ok (g, ll, false)
  | Some e =>
      if maxitr <=? i then Ok (g, ll, true) else
      match min_slack_non_tree_edge g ll e with
      | None => Ok (g, ll, false)   (* "todo: figure out why this could be nil": stops without being optimal *)
      | Some f =>
          match fuel with
          | O => Err (ErrFuel 26)
          | S fu => do r <- exchange g ll e f; pivot_loop fu (i + 1) maxitr (fst r) (snd r)
          end
      end
  end.

Definition normalize (g : graph) : graph :=
  match g_N g with
  | [] => g
  | n0 :: _ =>
      let lowest := fold_left (fun m n => Z.min m (layer_of g n)) (g_N g) (layer_of g n0) in
      if lowest =? 0 then g else
      fold_left (fun g n => upd_node g n (fun nd => set_layer (n_layer nd - lowest) nd)) (g_N g) g
  end.

(* vbalance; lsize as a function table over layer index (association list, missing = 0) *)
Fixpoint lget (l : list (Z * Z)) (k : Z) : Z :=
  match l with [] => 0 | (a, b) :: t => if a =? k then b else lget t k end.
Definition ladd (l : list (Z * Z)) (k d : Z) : list (Z * Z) := (k, lget l k + d) :: l.

Definition vbalance (g : graph) : graph :=
  let lsize := fold_left (fun l n => ladd l (layer_of g n) 1) (g_N g) [] in
  let lmax := fold_left (fun m n => Z.max m (layer_of g n)) (g_N g) 0 in
  fst (fold_left (fun (acc : graph * list (Z * Z)) n =>
      let '(g, lsize) := acc in
      if Nat.eqb (indeg g n) (outdeg g n) then
        let low := fold_left (fun lo e => Z.max lo (layer_of g (e_from (gedge g e)) + e_delta (gedge g e))) (n_in (gnode g n)) 0 in
        let high := fold_left (fun hi e => Z.min hi (layer_of g (e_to (gedge g e)) - e_delta (gedge g e))) (n_out (gnode g n)) lmax in
        let newl := fold_left (fun nl i => if lget lsize i <? lget lsize nl then i else nl)
                              (map (fun k => low + 1 + Z.of_nat k) (iota 0 (Z.to_nat (high - low)))) low in
        if lget lsize newl <? lget lsize (layer_of g n) then
          (upd_node g n (set_layer newl), ladd (ladd lsize (layer_of g n) (-1)) newl 1)
        else acc
      else acc) (g_N g) (g, lsize)).

(* hbalance / adjustLayers *)
Fixpoint adjust_layers (fuel : nat) (ll : limlow) (n : nat) (delta : Z) (g : graph) : res graph :=
  match fuel with
  | O => Err (ErrFuel 27)
  | S f =>
      let g := upd_node g n (fun nd => set_layer (n_layer nd - delta) nd) in
      do g <- (fix loop (es : list nat) (g : graph) : res graph :=
                 match es with
                 | [] => Ok g
                 | e :: t =>
                     if negb (e_tree (gedge g e)) then loop t g else
                     if negb (lim_of ll n <? lim_of ll (connected_node g e n))
                     then do g' <- adjust_layers f ll (e_to (gedge g e)) delta g; loop t g'
                     else loop t g
                 end) (n_out (gnode g n)) g;
      (fix loop (es : list nat) (g : graph) : res graph :=
         match es with
         | [] => Ok g
         | e :: t =>
             if negb (e_tree (gedge g e)) then loop t g else
             if negb (lim_of ll n <? lim_of ll (connected_node g e n))
             then do g' <- adjust_layers f ll (e_from (gedge g e)) delta g; loop t g'
             else loop t g
         end) (n_in (gnode g n)) g
  end.

Definition hbalance (g : graph) (ll : limlow) : res graph :=
  fold_left (fun (rg : res graph) e =>
      do g <- rg;
      if negb (e_tree (gedge g e)) then Ok g else
      if e_cut (gedge g e) =? 0 then
        match min_slack_non_tree_edge g ll e with
        | None => Ok g
        | Some f =>
            let d := slack g f in
            if d <? 1 then Ok g else
            if lim_of ll (e_from (gedge g e)) <? lim_of ll (e_to (gedge g e))
            then adjust_layers (S (length (g_na g))) ll (e_from (gedge g e)) d g
            else adjust_layers (S (length (g_na g))) ll (e_to (gedge g e)) (- d) g
        end
      else Ok g) (g_E g) (Ok g).

Record nsparams := mkNsParams { ns_thoroughness : Z; ns_maxiter_factor : Z; ns_balance : Z }.

(* execNetworkSimplex; the boolean tells whether the pivot loop stopped on its budget *)
Definition exec_network_simplex_capped (p : nsparams) (g : graph) : res (graph * bool) :=
  do r <- feasible_tree g;
  let '(g, ll) := r in
  let k1 := if 0 <? ns_maxiter_factor p then ns_maxiter_factor p else Z.sqrt (Z.of_nat (length (g_N g))) in
  let maxitr := ns_thoroughness p * k1 in
  do r <- pivot_loop (S (Z.to_nat (Z.min maxitr 100000))) 0 maxitr g ll;
  let '(g, ll, capped) := r in
  let g := normalize g in
  do g <- (if ns_balance p =? 1 then Ok (vbalance g)
           else if ns_balance p =? 2 then do g <- hbalance g ll; Ok (normalize g)
           else Ok g);
  Ok (g, capped).

Definition exec_network_simplex (p : nsparams) (g : graph) : res graph :=
  do r <- exec_network_simplex_capped p g; Ok (fst r).

(* ---------- Process: layer slices (alg_process.go) ---------- *)
Definition init_layer_slices (g : graph) : res graph :=
  let size := fold_left (fun m n => Z.max m (layer_of g n)) (g_N g) 0 + 1 in
  if existsb (fun n => layer_of g n <? 0) (g_N g) then Err (ErrIndex 28) else
  let ls := repeat layer0 (Z.to_nat size) in
  Ok (with_L g (fold_left (fun ls n => upd ls (Z.to_nat (layer_of g n))
                                        (fun l => mkLayer (l_nodes l ++ [n]) (l_w l) (l_h l))) (g_N g) ls)).

Inductive p2alg := LongestPath | NetworkSimplex.

(* AssignLayers: runs the layering algorithm only (sets Node.Layer); a single node is left alone *)
Definition assign_layers (alg : p2alg) (p : nsparams) (g : graph) : res graph :=
  if Nat.eqb (length (g_N g)) 1 then Ok g else
  match alg with
  | LongestPath => exec_longest_path g
  | NetworkSimplex => exec_network_simplex p g
  end.

(* Process = AssignLayers followed by building the layer slices *)
Definition phase2 (alg : p2alg) (p : nsparams) (g : graph) : res graph :=
  do g <- assign_layers alg p g;
  init_layer_slices g.

Lemma phase2_unfold : forall alg p g,
  phase2 alg p g =
  (do g <- (if Nat.eqb (length (g_N g)) 1 then Ok g else
            match alg with
            | LongestPath => exec_longest_path g
            | NetworkSimplex => exec_network_simplex p g
            end);
   init_layer_slices g).
Proof. reflexivity. Qed.
