(* Phase3.v — internal/phase3: break_edges.go, crossings.go. The weighted-median heuristic itself
   (wmedian.go) chooses a permutation of every layer; it is specified by its contract (Order.v). *)
From Autog Require Export Graph.

(* ---------- breakLongEdges ---------- *)
(* breakEdge: returns the new graph; the new node / edge get the next arena indices *)
Definition break_edge (g : graph) (e : nat) : graph :=
  let ed := gedge g e in
  let from := e_from ed in let to := e_to ed in
  let v := length (g_na g) in
  let f := length (g_ea g) in
  let lv := layer_of g from + 1 in
  let vnode := mkNode [e] [f] lv 0 true 0 0 0 0 in
  let g := with_na g (g_na g ++ [vnode]) in
  let g := with_ea g (g_ea g ++ [mkEdge v to 1 1 false (e_rev ed) 0 [] false]) in
  let g := upd_edge g e (fun ed => set_ends (e_from ed) v ed) in
  let g := upd_node g to (fun n => set_in (replace_first e f (n_in n)) n) in
  let g := with_E g (g_E g ++ [f]) in
  let g := with_N g (g_N g ++ [v]) in
  upd_layer g (Z.to_nat lv) (fun l => mkLayer (l_nodes l ++ [v]) (l_w l) (l_h l)).

(* the loop runs over an edge list that grows while it runs: index i, explicit fuel *)
Fixpoint break_long_loop (fuel : nat) (i : nat) (g : graph) : res graph :=
  match fuel with
  | O => Err (ErrFuel 31)
  | S fu =>
      match nth_error (g_E g) i with
      | None => Ok g
      | Some e =>
          let ed := gedge g e in
          let lf := layer_of g (e_from ed) in let lt := layer_of g (e_to ed) in
          if 1 <? lt - lf then break_long_loop fu (S i) (break_edge g e)
          else if 1 <? lf - lt then
                 (* long edge pointing upward: reverse, break, reverse both parts *)
                 let g := reverse_edge g e in
                 let f := length (g_ea g) in
                 let g := break_edge g e in
                 let g := reverse_edge g e in
                 let g := reverse_edge g f in
                 break_long_loop fu (S i) g
               else break_long_loop fu (S i) g
      end
  end.

Definition total_span (g : graph) : Z :=
  fold_left (fun s e => s + Z.abs (layer_of g (e_to (gedge g e)) - layer_of g (e_from (gedge g e)))) (g_E g) 0.

Definition break_long_edges (g : graph) : res graph :=
  break_long_loop (S (length (g_E g) + Z.to_nat (total_span g))) 0 g.

(* ---------- crossing counting ---------- *)
Definition pos_of g n := n_pos (gnode g n).

(* edges between two adjacent layers as pairs (position in layer a, position in layer b) *)
Definition bilayer_pairs (g : graph) (la lb : Z) : list (Z * Z) :=
  flat_map (fun e =>
      let ed := gedge g e in
      let u := e_from ed in let v := e_to ed in
      if (layer_of g u =? la) && (layer_of g v =? lb) then [(pos_of g u, pos_of g v)]
      else if (layer_of g u =? lb) && (layer_of g v =? la) then [(pos_of g v, pos_of g u)]
      else []) (g_E g).

(* the specification: number of pairs of edges whose end points are ordered oppositely in the two layers *)
Definition crosses_pair (p q : Z * Z) : bool :=
  ((fst p <? fst q) && (snd q <? snd p)) || ((fst q <? fst p) && (snd p <? snd q)).

Fixpoint naive_crossings (l : list (Z * Z)) : Z :=
  match l with
  | [] => 0
  | p :: t => Z.of_nat (length (filter (crosses_pair p) t)) + naive_crossings t
  end.

Definition drawing_crossings (g : graph) : Z :=
  fold_left (fun s i => s + naive_crossings (bilayer_pairs g (Z.of_nat i) (Z.of_nat i + 1)))
            (iota 0 (Nat.pred (length (g_L g)))) 0.
