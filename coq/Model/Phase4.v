(* Phase4.v — internal/phase4: alg_process.go, vertical_align.go, pack_right.go, sink_coloring.go,
   network_simplex.go. Brandes-Koepf is not modelled (see Contracts.v). *)
From Autog Require Export Graph Phase2.
From Coq Require Import Qround.
Local Open Scope Q_scope.

Definition nW g n := n_w (gnode g n).
Definition nH g n := n_h (gnode g n).
Definition nX g n := n_x (gnode g n).
Definition nY g n := n_y (gnode g n).

Definition set_layer_wh (w h : Q) (l : layer) := mkLayer (l_nodes l) w h.
Definition set_layer_h (h : Q) (l : layer) := mkLayer (l_nodes l) (l_w l) h.

(* ---------- assignYCoords ---------- *)
Definition assign_y (spacing : Q) (g : graph) : graph :=
  fst (fold_left (fun (acc : graph * Q) l =>
                    let '(g, y) := acc in
                    (fold_left (fun g n => upd_node g n (set_y y)) (l_nodes l) g, y + l_h l + spacing))
                 (g_L g) (g, 0)).
(* note: the layer heights are read from the layer list as it is when assignYCoords starts *)

(* ---------- VAlign ---------- *)
(* width of a layer: node widths plus spacing between consecutive nodes, accumulated lbound to right *)
Fixpoint layer_width (g : graph) (spacing : Q) (ns : list nat) (acc : Q) : Q :=
  match ns with
  | [] => acc
  | [n] => acc + nW g n
  | n :: t => layer_width g spacing t (acc + nW g n + spacing)
  end.

Definition layer_height (g : graph) (ns : list nat) (h0 : Q) : Q :=
  fold_left (fun h n => Qmax' h (nH g n)) ns h0.

Fixpoint place_from (g : graph) (spacing : Q) (ns : list nat) (pos : Q) : graph :=
  match ns with
  | [] => g
  | n :: t => place_from (upd_node g n (set_x pos)) spacing t (pos + nW g n + spacing)
  end.

Definition exec_valign (spacing : Q) (g : graph) : graph :=
  let ls := map (fun l => set_layer_wh (layer_width g spacing (l_nodes l) 0) (layer_height g (l_nodes l) 0) l) (g_L g) in
  let maxW := fold_left (fun m l => Qmax' m (l_w l)) ls 0 in
  let g := with_L g ls in
  fold_left (fun g l => place_from g spacing (l_nodes l) ((maxW - l_w l) / 2)) ls g.

(* ---------- PackRight ---------- *)
Fixpoint pack_back (g : graph) (spacing : Q) (rev_ns : list nat) (x : Q) : graph * Q :=
  match rev_ns with
  | [] => (g, x)
  | n :: t => let x' := x - (nW g n + spacing) in pack_back (upd_node g n (set_x x')) spacing t x'
  end.

Definition exec_pack_right (spacing : Q) (g : graph) : graph :=
  let '(g, lbound) := fold_left (fun (acc : graph * Q) l =>
                                 let '(g, lb) := acc in
                                 let '(g, x) := pack_back g spacing (rev (l_nodes l)) 0 in
                                 (g, Qmin' lb x)) (g_L g) (g, 0) in
  let g := fold_left (fun g l => fold_left (fun g n => upd_node g n (fun nd => set_x (n_x nd - lbound) nd)) (l_nodes l) g) (g_L g) g in
  with_L g (map (fun l => set_layer_h (layer_height g (l_nodes l) (l_h l)) l) (g_L g)).

(* ---------- SinkColoring ---------- *)
Definition qget (l : list Q) (n : nat) : Q := nth n l 0.
Definition nget (l : list nat) (n : nat) : nat := nth n l 0%nat.

Definition sc_crosses (g : graph) (e f : nat) : bool :=
  let ee := gedge g e in let fe := gedge g f in
  if negb ((layer_of g (e_from ee) =? layer_of g (e_from fe)) && (layer_of g (e_to ee) =? layer_of g (e_to fe))) then false else
  let et := n_pos (gnode g (e_from ee)) in let eb := n_pos (gnode g (e_to ee)) in
  let ft := n_pos (gnode g (e_from fe)) in let fb := n_pos (gnode g (e_to fe)) in
  ((et <? ft) && (fb <? eb)) || ((ft <? et) && (eb <? fb)).

Record scst := mkSc { colors : list nat; roots : list nat; prio : list (Z * list nat) }.

Fixpoint prio_get (l : list (Z * list nat)) (k : Z) : list nat :=
  match l with [] => [] | (a, b) :: t => if a =? k then b else prio_get t k end.

(* candidate edge: the last in-edge whose other end is virtual, else scan In for the first viable edge *)
Definition viable (g : graph) (e : nat) : bool := negb (self_loop g e) && negb (is_flat g e).

Fixpoint first_viable (g : graph) (es : list nat) : option nat :=
  match es with [] => None | e :: t => if viable g e then Some e else first_viable g t end.

Definition candidate_edge (g : graph) (n : nat) : option nat :=
  let ins := n_in (gnode g n) in
  let virt := fold_left (fun c f => if n_virt (gnode g (connected_node g f n)) then Some f else c) ins None in
  match virt with
  | Some e => if viable g e then Some e else first_viable g ins
  | None => first_viable g ins
  end.

Fixpoint set_color (fuel : nat) (g : graph) (n : nat) (s : scst) : res (nat * Q * scst) :=
  match fuel with
  | O => Err (ErrFuel 41)
  | S f =>
      if negb (Nat.eqb (nget (colors s) n) n) || Nat.eqb (length (n_in (gnode g n))) 0 then Ok (n, nW g n, s) else
      match candidate_edge g n with
      | None => Ok (n, nW g n, s)
      | Some e =>
          let m := connected_node g e n in
          if negb (Nat.eqb (nget (colors s) m) m) then Ok (n, nW g n, s) else
          let ln := layer_of g n in
          if existsb (sc_crosses g e) (prio_get (prio s) ln) then Ok (n, nW g n, s) else
          let s := mkSc (colors s) (roots s) ((ln, prio_get (prio s) ln ++ [e]) :: prio s) in
          do r <- set_color f g m s;
          let '(root, rootw, s) := r in
          Ok (root, Qmax' (nW g n) rootw, mkSc (set_nth (colors s) m n) (set_nth (roots s) n root) (prio s))
      end
  end.

Definition bw_of (bw : list Q) (rt : list nat) (n : nat) : Q := qget bw (nget rt n).

(* one sweep of placeBlock's k-loop; st = (xcoord, blockmax, shifted) *)
Definition pb_fix (bw : list Q) (rt : list nat) (spacing : Q) (a b : nat) (st : list Q * list Q * bool) :=
  let '(xc, bm, sh) := st in
  let lim := qget xc a + bw_of bw rt a + spacing in
  if Qlt_bool (qget xc b) lim then
    let xc := set_nth xc b lim in
    (xc, upd bm (nget rt b) (fun m => Qmax' m lim), true)
  else st.

Definition pb_sweep (g : graph) (bw : list Q) (rt : list nat) (spacing : Q) (lmax : nat) (st : list Q * list Q * bool) :=
  fold_left (fun st k =>
     fold_left (fun st l =>
        let ns := l_nodes l in
        let len := length ns in
        if Nat.leb len k then st
        else if Nat.eqb k (len - 1) && Nat.ltb 0 k then pb_fix bw rt spacing (nth (k - 1) ns 0%nat) (nth k ns 0%nat) st
        else if Nat.ltb k (len - 1) then pb_fix bw rt spacing (nth k ns 0%nat) (nth (S k) ns 0%nat) st
        else st) (g_L g) st) (iota 0 lmax) st.

Fixpoint place_block (fuel : nat) (g : graph) (bw : list Q) (rt : list nat) (spacing : Q) (lmax : nat)
         (xc bm : list Q) : res (list Q) :=
  match fuel with
  | O => Err (ErrFuel 42)
  | S f =>
      let xc := fold_left (fun xc n => let x := qget bm (nget rt n) in
                                       set_nth xc n (Qmax' x (x + (bw_of bw rt n - nW g n) / 2))) (g_N g) xc in
      let '(xc, bm, sh) := pb_sweep g bw rt spacing lmax (xc, bm, false) in
      if sh then place_block f g bw rt spacing lmax xc bm else Ok xc
  end.

Definition exec_sink_coloring (spacing : Q) (g : graph) : res graph :=
  let na := length (g_na g) in
  let ids := iota 0 na in
  let zerosQ := repeat (0 : Q) na in
  (* paint, bottom layer first *)
  do r <- fold_left (fun (acc : res (scst * list Q)) n =>
                       do a <- acc;
                       let '(s, bw) := a in
                       do r <- set_color (S na) g n s;
                       let '(_, w, s) := r in
                       Ok (s, upd bw (nget (roots s) n) (fun b => Qmax' b w)))
                    (flat_map l_nodes (rev (g_L g))) (Ok (mkSc ids ids [], zerosQ));
  let '(s, bw) := r in
  let rt := roots s in
  (* pack lbound *)
  let xc := fold_left (fun xc l =>
                fst (fold_left (fun (acc : list Q * Q) n => let '(xc, x) := acc in
                                  (set_nth xc n x, x + bw_of bw rt n + spacing)) (l_nodes l) (xc, 0)))
              (g_L g) zerosQ in
  (* blockmax: a max over all nodes, the iteration order of the Go map range is irrelevant *)
  let bm := fold_left (fun bm n => upd bm (nget rt n) (fun m => Qmax' m (qget xc n))) (flat_map l_nodes (g_L g)) zerosQ in
  let lmax := fold_left (fun m l => Nat.max m (length (l_nodes l))) (g_L g) 0%nat in
  do xc <- place_block (S (length (g_N g) * length (g_N g)) + 8) g bw rt spacing lmax xc bm;
  let g := fold_left (fun g l => fold_left (fun g n => upd_node g n (set_x (qget xc n))) (l_nodes l) g) (g_L g) g in
  Ok (with_L g (map (fun l => set_layer_h (layer_height g (l_nodes l) (l_h l)) l) (g_L g))).

(* ---------- NetworkSimplex positioner ---------- *)
Definition omega (g : graph) (e : nat) : Z :=
  let a := n_virt (gnode g (e_from (gedge g e))) in let b := n_virt (gnode g (e_to (gedge g e))) in
  (if negb a && negb b then 1 else if Bool.eqb a b then 8 else 2)%Z.

(* auxiliary graph: node i of the component's node list becomes aux node i; one extra node per edge *)
Definition aux_graph (factor : Z) (spacing : Q) (g : graph) : graph :=
  let k := length (g_N g) in
  let idx n := match index_of n (g_N g) with Some i => i | None => 0%nat end in
  let base := mkGraph (map (fun n => set_wh (nW g n) (nH g n) node0) (g_N g)) [] (iota 0 k) [] [] in
  let a := fold_left (fun a e =>
      if self_loop g e || is_flat g e then a else
      let ne := length (g_na a) in
      let w := (e_weight (gedge g e) * omega g e * factor)%Z in
      let u := idx (e_from (gedge g e)) in let v := idx (e_to (gedge g e)) in
      let eu := length (g_ea a) in let ev := S eu in
      let a := with_N (with_na a (g_na a ++ [set_out [eu; ev] node0])) (g_N a ++ [ne]) in
      let a := with_E (with_ea a (g_ea a ++ [mkEdge ne u 0 w false false 0 [] false; mkEdge ne v 0 w false false 0 [] false]))
                      (g_E a ++ [eu; ev]) in
      let a := upd_node a u (fun n => set_in (n_in n ++ [eu]) n) in
      upd_node a v (fun n => set_in (n_in n ++ [ev]) n)) (g_E g) base in
  fold_left (fun a l =>
      fst (fold_left (fun (acc : graph * option nat) n =>
             let '(a, prev) := acc in
             match prev with
             | None => (a, Some n)
             | Some p =>
                 let v := idx p in let w := idx n in
                 let f := length (g_ea a) in
                 let d := Qceiling (nW g p / 2 + nW g n / 2 + spacing) in
                 let a := with_E (with_ea a (g_ea a ++ [mkEdge v w d 0 false false 0 [] false])) (g_E a ++ [f]) in
                 let a := upd_node a v (fun nd => set_out (n_out nd ++ [f]) nd) in
                 (upd_node a w (fun nd => set_in (n_in nd ++ [f]) nd), Some n)
             end) (l_nodes l) (a, None))) (g_L g) a.

Definition exec_ns_positioner (thoroughness factor : Z) (spacing : Q) (g : graph) : res graph :=
  let a := aux_graph factor spacing g in
  do a <- assign_layers NetworkSimplex (mkNsParams thoroughness (Z.of_nat (length (g_N g))) 2) a;
  let idx n := match index_of n (g_N g) with Some i => i | None => 0%nat end in
  let g := with_L g (map (fun l => set_layer_h (layer_height g (l_nodes l) (l_h l)) l) (g_L g)) in
  let xs := flat_map l_nodes (g_L g) in
  let g := fold_left (fun g n => upd_node g n (set_x (inQ (layer_of a (idx n)) - nW g n / 2))) xs g in
  match xs with
  | [] => Ok g
  | n0 :: _ =>
      let lbound := fold_left (fun m n => Qmin' m (nX g n)) xs (nX g n0) in
      Ok (fold_left (fun g n => upd_node g n (fun nd => set_x (n_x nd - lbound) nd)) (g_N g) g)
  end.

Inductive p4alg := VAlign | PackRight | SinkColoring | NsPositioner | OtherPositioner.

Record p4params := mkP4 { node_spacing : Q; layer_spacing : Q; p4_thoroughness : Z; p4_factor : Z }.

(* Process; for OtherPositioner (Brandes-Koepf) the x-coordinates come from outside *)
Definition phase4 (alg : p4alg) (p : p4params) (g : graph) : res graph :=
  if Nat.eqb (length (g_N g)) 1 then
    match g_N g with
    | n :: _ => Ok (upd_layer g 0 (set_layer_wh (nW g n) (nH g n)))
    | [] => Ok g
    end
  else
    do g <- match alg with
            | VAlign => Ok (exec_valign (node_spacing p) g)
            | PackRight => Ok (exec_pack_right (node_spacing p) g)
            | SinkColoring => exec_sink_coloring (node_spacing p) g
            | NsPositioner => exec_ns_positioner (p4_thoroughness p) (p4_factor p) (node_spacing p) g
            | OtherPositioner => Ok g
            end;
    Ok (assign_y (layer_spacing p) g).
