(* Phase5.v — internal/phase5: alg_process.go, route_merge.go, straight.go, polyline.go, ortho.go, flat.go.
   Spline routing is not modelled numerically (see Contracts.v). *)
From Autog Require Export Graph Phase4.
Local Open Scope Q_scope.

Inductive etype := Concrete | Hybrid | Virtual.
Definition edge_type (g : graph) (e : nat) : etype :=
  let a := n_virt (gnode g (e_from (gedge g e))) in let b := n_virt (gnode g (e_to (gedge g e))) in
  if negb a && negb b then Concrete else if Bool.eqb a b then Virtual else Hybrid.

(* orderedNodes *)
Definition ordered_nodes (g : graph) (e : nat) : nat * nat :=
  let u := e_from (gedge g e) in let v := e_to (gedge g e) in
  if (layer_of g u <? layer_of g v)%Z then (u, v)
  else if (layer_of g v <? layer_of g u)%Z then (v, u)
  else if (n_pos (gnode g u) <? n_pos (gnode g v))%Z then (u, v) else (v, u).

(* DGraph.Edges while mergeLongEdges ranges over it: the range loop reads the backing array of the slice as
   it was when the loop started (fixed length), while Remove shifts the live prefix left. arr is that array. *)
Definition arr_remove (arr : list nat) (len : nat) (f : nat) : list nat * nat :=
  let live := firstn len arr in
  if mem_nat f live then
    (remove_nat f live ++ skipn (len - 1) arr, (len - 1)%nat)
  else (arr, len).

Record mst := mkMst { m_g : graph; m_arr : list nat; m_len : nat }.

(* reduceForward *)
Fixpoint reduce_forward (fuel : nat) (s : mst) (e : nat) (ns : list nat) : res (mst * list nat) :=
  match fuel with
  | O => Err (ErrFuel 51)
  | S fu =>
      let g := m_g s in
      let to := e_to (gedge g e) in
      if n_virt (gnode g to) then
        match n_out (gnode g to) with
        | [f] =>
            let v := e_to (gedge g f) in
            let g := upd_node g v (fun n => set_in (el_add e (el_remove f (n_in n))) n) in
            let g := upd_edge g e (fun ed => set_ends (e_from ed) v ed) in
            let '(arr, len) := arr_remove (m_arr s) (m_len s) f in
            let g := with_E g (firstn len arr) in
            reduce_forward fu (mkMst g arr len) e (ns ++ [to])
        | _ => Err ErrVirtualOut
        end
      else
        let ns := ns ++ [to] in
        let '(u, v) := ordered_nodes g e in
        let g := upd_edge g e (fun ed => set_ahs (e_rev ed) ed) in
        let ns := match ns, last_opt ns with
                  | n0 :: _, Some nl => if Nat.eqb n0 v && Nat.eqb nl u then rev ns else ns
                  | _, _ => ns
                  end in
        Ok (mkMst g (m_arr s) (m_len s), ns)
  end.

(* mergeLongEdges: index i runs over the fixed-length array *)
Fixpoint merge_loop (fuel : nat) (i : nat) (s : mst) (routes : list (nat * list nat)) : res (mst * list (nat * list nat)) :=
  match fuel with
  | O => Ok (s, routes)
  | S fu =>
      match nth_error (m_arr s) i with
      | None => Ok (s, routes)
      | Some e =>
          let g := m_g s in
          match edge_type g e with
          | Concrete =>
              let '(u, v) := ordered_nodes g e in
              let g := upd_edge g e (fun ed => set_ahs (e_rev ed) ed) in
              merge_loop fu (S i) (mkMst g (m_arr s) (m_len s)) (routes ++ [(e, [u; v])])
          | Hybrid =>
              if n_virt (gnode g (e_from (gedge g e))) then merge_loop fu (S i) s routes
              else do r <- reduce_forward (S (length (g_na g))) s e [e_from (gedge g e)];
                   merge_loop fu (S i) (fst r) (routes ++ [(e, snd r)])
          | Virtual => merge_loop fu (S i) s routes
          end
      end
  end.

Definition merge_long_edges (g : graph) : res (graph * list (nat * list nat)) :=
  do r <- merge_loop (length (g_E g)) 0 (mkMst g (g_E g) (length (g_E g))) [];
  Ok (m_g (fst r), snd r).

(* ---------- route points ---------- *)
Definition start_point (g : graph) (n : nat) : pt := (nX g n + nW g n / 2, nY g n + nH g n).
Definition end_point (g : graph) (n : nat) : pt := (nX g n + nW g n / 2, nY g n).
Definition straight (g : graph) (a b : nat) : list pt := [start_point g a; end_point g b].
Definition flat_straight (g : graph) (a b : nat) : list pt :=
  [(nX g a + nW g a, nY g a + nH g a / 2); (nX g b, nY g b + nH g b / 2)].

Definition first_last (ns : list nat) : nat * nat :=
  (hd 0%nat ns, match last_opt ns with Some x => x | None => 0%nat end).

Definition flat_non_consecutive (g : graph) (e : nat) (layerH : Q) : list pt :=
  let f := e_from (gedge g e) in let t := e_to (gedge g e) in
  let dist := Z.abs (n_pos (gnode g f) - n_pos (gnode g t)) in
  let sx := nX g f + nW g f in let sy := nY g f + nH g f / 2 in
  let ex := nX g t in let ey := nY g t + nH g t / 2 in
  let top := Qmin' (sy - layerH / 2) (ey - layerH / 2) - (10 + inQ dist * 5) in
  [(sx, sy); (sx + 20, sy); (sx + 20, top); (ex - 20, top); (ex - 20, ey); (ex, ey)].

Definition flat_polyline (g : graph) (e : nat) (ns : list nat) (layerH : Q) : list pt :=
  let f := e_from (gedge g e) in let t := e_to (gedge g e) in
  if (1 <? Z.abs (n_pos (gnode g f) - n_pos (gnode g t)))%Z then flat_non_consecutive g e layerH
  else let '(a, b) := first_last ns in flat_straight g a b.

Definition route_straight (g : graph) (e : nat) (ns : list nat) : list pt :=
  let '(a, b) := first_last ns in
  if is_flat g e then flat_straight g a b else straight g a b.

Definition layer_h_of (g : graph) (n : nat) : Q := l_h (glayer g (Z.to_nat (layer_of g n))).

Definition inner (ns : list nat) : list nat := removelast (tl ns).

Definition route_polyline (g : graph) (e : nat) (ns : list nat) : res (list pt) :=
  let '(a, b) := first_last ns in
  if is_flat g e then Ok (flat_polyline g e ns (layer_h_of g (e_from (gedge g e)))) else
  if Nat.eqb (length ns) 2 then Ok (straight g a b) else
  if forallb (fun n => n_virt (gnode g n)) (inner ns) then
    Ok (e_pts (gedge g e) ++ [start_point g a]
        ++ map (fun n => (nX g n + nW g n / 2, nY g n + layer_h_of g n / 2)) (inner ns)
        ++ [end_point g b])
  else Err ErrBendNotVirtual.

Fixpoint ortho_legs (g : graph) (half : Q) (ns : list nat) : list pt :=
  match ns with
  | a :: ((b :: _) as t) =>
      let sp := start_point g a in
      let ep := end_point g b in
      [sp; (fst sp, nY g a + layer_h_of g a + half); (fst ep, snd ep - half); ep] ++ ortho_legs g half t
  | _ => []
  end.

Definition route_ortho (g : graph) (layer_spacing : Q) (e : nat) (ns : list nat) : list pt :=
  let '(a, b) := first_last ns in
  let f := e_from (gedge g e) in let t := e_to (gedge g e) in
  if is_flat g e then flat_polyline g e ns (layer_h_of g f) else
  if Qeq_bool (nX g f + nW g f / 2) (nX g t + nW g t / 2) then straight g a b
  else e_pts (gedge g e) ++ ortho_legs g (layer_spacing / 2) ns.

Inductive p5alg := NoRouting | Straight | Polyline | Ortho | OtherRouting.

Definition phase5 (alg : p5alg) (layer_spacing : Q) (g : graph) : res graph :=
  if Nat.eqb (length (g_N g)) 1 then Ok g else
  do r <- merge_long_edges g;
  let '(g, routes) := r in
  match alg with
  | NoRouting | OtherRouting => Ok g
  | Straight => Ok (fold_left (fun g r => upd_edge g (fst r) (set_pts (route_straight g (fst r) (snd r)))) routes g)
  | Polyline => fold_left (fun (rg : res graph) r =>
                             do g <- rg; do p <- route_polyline g (fst r) (snd r);
                             Ok (upd_edge g (fst r) (set_pts p))) routes (Ok g)
  | Ortho => Ok (fold_left (fun g r => upd_edge g (fst r) (set_pts (route_ortho g layer_spacing (fst r) (snd r)))) routes g)
  end.
