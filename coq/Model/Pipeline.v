(* Pipeline.v — autolayout.go, Layout as one function of its arguments: Populate, size options, Components,
   and per component IgnoreSelfLoops, the five phases, restoring self-loops, UnreverseEdges, collection with the
   running shift. Each component is processed on its own copy of the populated arena (components are disjoint,
   so in the Go code their nodes never meet either); helper nodes of different components may therefore get the
   same arena index here — in the Go code they get the same NAMES ("V1", ...). *)
From Autog Require Export Layout Wmedian.
Local Open Scope Q_scope.

Definition wmedian_max_iter : nat := 24.

(* one component; also returns the crossing number the ordering phase reports, if it ran *)
Definition layout_component (o : options) (g : graph) : res (graph * option Z) :=
  let '(g, del) := ignore_self_loops g in
  do g <- phase1 (o_p1 o) g;
  do g <- phase2 (o_p2 o) (ns_params o) g;
  do r <- phase3_wmedian wmedian_max_iter g;
  let '(g, x) := r in
  do g <- phase4 (o_p4 o) (p4_params o) g;
  do g <- phase5 (o_p5 o) (o_layer_spacing o) g;
  Ok (post_process g del, x).

Fixpoint layout_components (o : options) (cs : list graph) (shift : Q)
  : res (list onode * list oedge * list Z) :=
  match cs with
  | [] => Ok ([], [], [])
  | c :: rest =>
      do r <- layout_component o c;
      let '(g, x) := r in
      do r' <- layout_components o rest (shift + rightmost g + o_node_spacing o);
      let '(ns, es, xs) := r' in
      Ok (collect_nodes (o_virtual o) shift g ++ ns, collect_edges shift g ++ es,
          match x with Some v => v :: xs | None => xs end)
  end.

Section Layout.
  Variable ident : Type.
  Variable ieqb : ident -> ident -> bool.

  (* Layout: identifiers of the nodes by arena index, output nodes, output edges, reported crossing numbers *)
  Definition layout (o : options) (fixed : option (Q * Q)) (sizes : option (list (ident * (Q * Q))))
             (es : list (list ident)) : res (list ident * (list onode * list oedge * list Z)) :=
    do p <- populate ident ieqb es;
    let '(ids, g) := p in
    match ids with
    | [] => Err ErrEmpty
    | _ =>
        let g := apply_sizes ident ieqb fixed sizes ids g in
        do r <- layout_components o (components g) 0;
        Ok (ids, r)
    end.
End Layout.
