(* PipelineBK.v — Layout as one function of its arguments INCLUDING the Brandes-Koepf positioner
   (autog.PositioningBrandesKoepf with autog.WithBrandesKoepfLayout(bk)): the same composition as Model/Pipeline.v,
   with phase 4 dispatched to the functional model of execBrandesKoepf (Model/BK.v) when the positioner is
   [OtherPositioner]. [bk] is graph.Params.BrandesKoepfLayout: 0..3 forces one of the four layouts, anything else
   (the default is -1) takes the balanced one. For every other positioner [layout_x] IS [layout]
   (Proofs: layout_x_eq). *)
From Autog Require Export Pipeline BK.
Local Open Scope Q_scope.

Definition phase4x (bk : Z) (alg : p4alg) (p : p4params) (g : graph) : res graph :=
  match alg with
  | OtherPositioner => phase4_bk bk p g
  | _ => phase4 alg p g
  end.

Definition layout_component_x (bk : Z) (o : options) (g : graph) : res (graph * option Z) :=
  let '(g, del) := ignore_self_loops g in
  do g <- phase1 (o_p1 o) g;
  do g <- phase2 (o_p2 o) (ns_params o) g;
  do r <- phase3_wmedian wmedian_max_iter g;
  let '(g, x) := r in
  do g <- phase4x bk (o_p4 o) (p4_params o) g;
  do g <- phase5 (o_p5 o) (o_layer_spacing o) g;
  Ok (post_process g del, x).

Fixpoint layout_components_x (bk : Z) (o : options) (cs : list graph) (shift : Q)
  : res (list onode * list oedge * list Z) :=
  match cs with
  | [] => Ok ([], [], [])
  | c :: rest =>
      do r <- layout_component_x bk o c;
      let '(g, x) := r in
      do r' <- layout_components_x bk o rest (shift + rightmost g + o_node_spacing o);
      let '(ns, es, xs) := r' in
      Ok (collect_nodes (o_virtual o) shift g ++ ns, collect_edges shift g ++ es,
          match x with Some v => v :: xs | None => xs end)
  end.

Section LayoutX.
  Variable ident : Type.
  Variable ieqb : ident -> ident -> bool.

  Definition layout_x (bk : Z) (o : options) (fixed : option (Q * Q)) (sizes : option (list (ident * (Q * Q))))
             (es : list (list ident)) : res (list ident * (list onode * list oedge * list Z)) :=
    do p <- populate ident ieqb es;
    let '(ids, g) := p in
    match ids with
    | [] => Err ErrEmpty
    | _ =>
        let g := apply_sizes ident ieqb fixed sizes ids g in
        do r <- layout_components_x bk o (components g) 0;
        Ok (ids, r)
    end.
End LayoutX.
