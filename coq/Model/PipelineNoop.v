(* PipelineNoop.v — Layout as one function of its arguments with the OTHER ordering option, autog.OrderingNoop
   (internal/phase3/alg_process.go, case NoOrdering, as repaired by fix cd663ec): phase 3 keeps the order in which the
   layering listed the nodes of every band, still breaks long edges and numbers the positions; it reports no
   crossing number. Everything else is the composition of Model/PipelineBK.v ([phase4x]: every positioner). *)
From Autog Require Export PipelineBK.
Local Open Scope Q_scope.

(* n.LayerPos = index in its band, band by band *)
Definition number_positions (g : graph) : graph :=
  fold_left (fun g l =>
    fst (fold_left (fun (acc : graph * Z) n => (upd_node (fst acc) n (set_pos (snd acc)), (snd acc + 1)%Z))
                   (l_nodes l) (g, 0%Z))) (g_L g) g.

Definition phase3_noop (g : graph) : res (graph * option Z) :=
  if Nat.eqb (length (g_N g)) 1 then Ok (g, None) else
  do g <- (if Nat.ltb 1 (length (g_L g)) then break_long_edges g else Ok g);
  Ok (number_positions g, None).

Definition layout_component_n (bk : Z) (o : options) (g : graph) : res (graph * option Z) :=
  let '(g, del) := ignore_self_loops g in
  do g <- phase1 (o_p1 o) g;
  do g <- phase2 (o_p2 o) (ns_params o) g;
  do r <- phase3_noop g;
  let '(g, x) := r in
  do g <- phase4x bk (o_p4 o) (p4_params o) g;
  do g <- phase5 (o_p5 o) (o_layer_spacing o) g;
  Ok (post_process g del, x).

Fixpoint layout_components_n (bk : Z) (o : options) (cs : list graph) (shift : Q)
  : res (list onode * list oedge * list Z) :=
  match cs with
  | [] => Ok ([], [], [])
  | c :: rest =>
      do r <- layout_component_n bk o c;
      let '(g, x) := r in
      do r' <- layout_components_n bk o rest (shift + rightmost g + o_node_spacing o);
      let '(ns, es, xs) := r' in
      Ok (collect_nodes (o_virtual o) shift g ++ ns, collect_edges shift g ++ es,
          match x with Some v => v :: xs | None => xs end)
  end.

Section LayoutN.
  Variable ident : Type.
  Variable ieqb : ident -> ident -> bool.

  Definition layout_n (bk : Z) (o : options) (fixed : option (Q * Q)) (sizes : option (list (ident * (Q * Q))))
             (es : list (list ident)) : res (list ident * (list onode * list oedge * list Z)) :=
    do p <- populate ident ieqb es;
    let '(ids, g) := p in
    match ids with
    | [] => Err ErrEmpty
    | _ =>
        let g := apply_sizes ident ieqb fixed sizes ids g in
        do r <- layout_components_n bk o (components g) 0;
        Ok (ids, r)
    end.
End LayoutN.
