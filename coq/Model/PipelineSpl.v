(* PipelineSpl.v — Layout as one function of its arguments INCLUDING spline routing (autog.EdgeRoutingSplines): the
   composition of Model/PipelineBK.v with phase 5 dispatched to Model/Splines.v when the router is [OtherRouting].
   The three numeric routines spline routing calls — geom.Shortest, geom.FitSpline, the inner control points of
   geom.MakeSpline — are Section variables: arbitrary functions. Theorems about this pipeline state what they
   assume of them (the contracts are the subject of C19 and C20). For every other router [layout_sx] IS [layout_x]. *)
From Autog Require Export PipelineBK Splines.
Local Open Scope Q_scope.

Section PipelineSplines.
  Variable shortest : pt -> pt -> list rect -> list pt.
  Variable fit : list pt -> list rect -> res (list (piece pt)).
  Variable mk_inner : pt -> pt -> pt * pt.

  Definition phase5x (alg : p5alg) (layer_spacing : Q) (g : graph) : res graph :=
    match alg with
    | OtherRouting => phase5_splines shortest fit mk_inner g
    | _ => phase5 alg layer_spacing g
    end.

  Definition layout_component_sx (bk : Z) (o : options) (g : graph) : res (graph * option Z) :=
    let '(g, del) := ignore_self_loops g in
    do g <- phase1 (o_p1 o) g;
    do g <- phase2 (o_p2 o) (ns_params o) g;
    do r <- phase3_wmedian wmedian_max_iter g;
    let '(g, x) := r in
    do g <- phase4x bk (o_p4 o) (p4_params o) g;
    do g <- phase5x (o_p5 o) (o_layer_spacing o) g;
    Ok (post_process g del, x).

  Fixpoint layout_components_sx (bk : Z) (o : options) (cs : list graph) (shift : Q)
    : res (list onode * list oedge * list Z) :=
    match cs with
    | [] => Ok ([], [], [])
    | c :: rest =>
        do r <- layout_component_sx bk o c;
        let '(g, x) := r in
        do r' <- layout_components_sx bk o rest (shift + rightmost g + o_node_spacing o);
        let '(ns, es, xs) := r' in
        Ok (collect_nodes (o_virtual o) shift g ++ ns, collect_edges shift g ++ es,
            match x with Some v => v :: xs | None => xs end)
    end.

  Section LayoutSX.
    Variable ident : Type.
    Variable ieqb : ident -> ident -> bool.

    Definition layout_sx (bk : Z) (o : options) (fixed : option (Q * Q)) (sizes : option (list (ident * (Q * Q))))
               (es : list (list ident)) : res (list ident * (list onode * list oedge * list Z)) :=
      do p <- populate ident ieqb es;
      let '(ids, g) := p in
      match ids with
      | [] => Err ErrEmpty
      | _ =>
          let g := apply_sizes ident ieqb fixed sizes ids g in
          do r <- layout_components_sx bk o (components g) 0;
          Ok (ids, r)
      end.
  End LayoutSX.
End PipelineSplines.
