(* Populate.v — graph/source_edgeslice.go (Populate), the size options of autolayout.go:41-50,
   internal/graph/connected/connected.go (Components) and preprocessor/ignore_self_loops.go.
   Identifiers are an arbitrary type with a boolean equality: nothing but equality is ever used. *)
From Autog Require Export Graph.

Section Populate.
  Variable ident : Type.
  Variable ieqb : ident -> ident -> bool.

  Fixpoint find_id (x : ident) (ids : list ident) : option nat :=
    match ids with
    | [] => None
    | y :: t => if ieqb x y then Some O else option_map S (find_id x t)
    end.

  (* state: ids of the nodes created so far (index = arena index), the graph *)
  Definition intern (x : ident) (st : list ident * graph) : nat * (list ident * graph) :=
    let '(ids, g) := st in
    match find_id x ids with
    | Some i => (i, st)
    | None =>
        let i := length ids in
        (i, (ids ++ [x], with_N (with_na g (g_na g ++ [node0])) (g_N g ++ [i])))
    end.

  Definition populate_edge (st : list ident * graph) (s t : ident) : list ident * graph :=
    let '(si, st) := intern s st in
    let '(ti, st) := intern t st in
    let '(ids, g) := st in
    let e := length (g_ea g) in
    let g := with_E (with_ea g (g_ea g ++ [mkEdge si ti 1 1 false false 0 [] false])) (g_E g ++ [e]) in
    (* targetNode.In = append(...); sourceNode.Out = append(...) *)
    let g := upd_node g ti (fun n => set_in (n_in n ++ [e]) n) in
    let g := upd_node g si (fun n => set_out (n_out n ++ [e]) n) in
    (ids, g).

  Fixpoint populate_from (st : list ident * graph) (es : list (list ident)) : res (list ident * graph) :=
    match es with
    | [] => Ok st
    | [s; t] :: rest => populate_from (populate_edge st s t) rest
    | _ :: _ => Err ErrArity
    end.

  Definition empty_graph := mkGraph [] [] [] [] [].

  Definition populate (es : list (list ident)) : res (list ident * graph) :=
    populate_from ([], empty_graph) es.

  (* WithNodeFixedSize then WithNodeSize, autolayout.go:41-50 *)
  Fixpoint lookup_size (x : ident) (m : list (ident * (Q * Q))) : option (Q * Q) :=
    match m with
    | [] => None
    | (y, s) :: t => if ieqb x y then Some s else lookup_size x t
    end.

  Definition apply_sizes (fixed : option (Q * Q)) (sizes : option (list (ident * (Q * Q))))
             (ids : list ident) (g : graph) : graph :=
    let na := g_na g in
    let na := match fixed with
              | Some (w, h) => map (set_wh w h) na
              | None => na
              end in
    let na := match sizes with
              | Some m => map (fun p : ident * node =>
                                 match lookup_size (fst p) m with
                                 | Some (w, h) => set_wh w h (snd p)
                                 | None => snd p
                                 end) (combine ids na)
              | None => na
              end in
    with_na g na.
End Populate.

(* ---------- connected components ---------- *)

(* nodes adjacent to n through any edge, self-loops included (harmless) *)
Definition neighbours (g : graph) (n : nat) : list nat :=
  map (fun e => connected_node g e n) (all_edges g n).

Definition add_new (l acc : list nat) : list nat :=
  fold_left (fun acc x => if mem_nat x acc then acc else acc ++ [x]) l acc.

(* one round: add the neighbours of everything reached so far *)
Definition reach_step (g : graph) (acc : list nat) : list nat :=
  fold_left (fun acc n => add_new (neighbours g n) acc) acc acc.

Fixpoint reach_iter (fuel : nat) (g : graph) (acc : list nat) : list nat :=
  match fuel with
  | O => acc
  | S f => let acc' := reach_step g acc in
           if Nat.eqb (length acc') (length acc) then acc else reach_iter f g acc'
  end.

(* the set of nodes walkDfs marks when started at n *)
Definition reach (g : graph) (n : nat) : list nat := reach_iter (length (g_na g)) g [n].

(* subgraph: nodes and edges of g, in g's order, restricted to the visited sets. walkDfs visits every edge of
   every visited node, so the visited edges are those with an endpoint (hence both) in the node set. *)
Definition subgraph (g : graph) (ns : list nat) : graph :=
  with_E (with_N g (filter (fun n => mem_nat n ns) (g_N g)))
         (filter (fun e => mem_nat (e_from (gedge g e)) ns) (g_E g)).

Fixpoint components_from (fuel : nat) (g : graph) (todo : list nat) (visited : list nat) : list graph :=
  match todo with
  | [] => []
  | n :: t =>
      if mem_nat n visited then components_from fuel g t visited
      else let ns := reach g n in
           subgraph g ns :: components_from fuel g t (ns ++ visited)
  end.

(* Components: the component of Nodes[0] first, then one per unvisited node in list order.
   When everything is reached from Nodes[0] the Go code returns g itself; subgraph g (all) is that graph. *)
Definition components (g : graph) : list graph := components_from 0 g (g_N g) [].

(* ---------- self loops ---------- *)
Definition self_loops (g : graph) : list nat := filter (self_loop g) (g_E g).

Definition remove_self_loop (g : graph) (e : nat) : graph :=
  let ed := gedge g e in
  let g := upd_node g (e_from ed) (fun n => set_out (el_remove e (n_out n)) n) in
  let g := upd_node g (e_to ed) (fun n => set_in (el_remove e (n_in n)) n) in
  with_E g (el_remove e (g_E g)).

Definition ignore_self_loops (g : graph) : graph * list nat :=
  let del := self_loops g in (fold_left remove_self_loop del g, del).

Definition restore_self_loop (g : graph) (e : nat) : graph :=
  let ed := gedge g e in
  let g := upd_node g (e_from ed) (fun n => set_out (el_add e (n_out n)) n) in
  let g := upd_node g (e_to ed) (fun n => set_in (el_add e (n_in n)) n) in
  with_E g (el_add e (g_E g)).

Definition restore_self_loops (g : graph) (del : list nat) : graph := fold_left restore_self_loop del g.

(* postprocessor.UnreverseEdges *)
Definition unreverse_edges (g : graph) : graph :=
  fold_left (fun g e => if e_rev (gedge g e) then reverse_edge g e else g) (g_E g) g.
