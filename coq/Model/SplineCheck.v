(* SplineCheck.v — correspondence of the spline-routing glue (Model/Splines.v against internal/phase5/splines.go).
   For every connected component of a traced case routed with splines, and every routable edge in the order the
   model's own mergeLongEdges produces them, the harness supplies what the implementation did: the corridor
   rectangles, the start and end point (taken from the monitor events of the real Layout call), the shortest
   path and the fitted pieces (geom.Shortest / geom.FitSpline called through the hooks on exactly those
   rectangles). The model re-computes the corridor from the observed state after phase 4, and the control points
   from the observed path and pieces, and compares with the points of the observed state after phase 5.
   Codes: 780 number of routes, 781 rectangles, 782/784 model error, 783 control points, 785 start/end point. *)
From Coq Require Import Qabs.
From Autog Require Export Check Splines.
Local Open Scope Q_scope.

Record sobs := mkSobs {
  so_rects : list rect; so_start : pt; so_end : pt; so_path : list pt; so_pieces : list (piece pt) }.

Definition q_close (a b : Q) : bool :=
  Qle_bool (Qabs (a - b)) ((1 # 1000000000) * (1 + Qabs a)).
Definition pt_close (a b : pt) : bool := q_close (fst a) (fst b) && q_close (snd a) (snd b).
Definition rect_close (a b : rect) : bool := pt_close (r_tl a) (r_tl b) && pt_close (r_br a) (r_br b).

Definition check_spline_comp (g4 g5 : graph) (obs : list sobs) : list nat :=
  if Nat.eqb (length (g_N g4)) 1 then (if Nat.eqb (length obs) 0 then [] else [780%nat]) else
  match merge_long_edges g4 with
  | Err _ => [799%nat]
  | Ok (gm, routes) =>
      if negb (Nat.eqb (length routes) (length obs)) then [780%nat] else
      flat_map (fun p : (nat * list nat) * sobs =>
        let '((e, ns), o) := p in
        let pts := e_pts (gedge g5 e) in
        (match build_rects gm ns with
         | Ok rs => if forall2b rect_close rs (so_rects o) then [] else [781%nat]
         | Err _ => [782%nat]
         end)
        ++ (if pt_eqb (start_point gm (e_from (gedge gm e))) (so_start o)
               && pt_eqb (end_point gm (e_to (gedge gm e))) (so_end o) then [] else [785%nat])
        ++ (match spline_route (fun _ _ _ => so_path o) (fun _ _ => Ok (so_pieces o))
                               (fun _ _ => (nth 1 pts (0, 0), nth 2 pts (0, 0))) gm e ns with
            | Ok m => if pts_eqb m pts then [] else [783%nat]
            | Err _ => [784%nat]
            end)) (combine routes obs)
  end.

(* per case: the observations of all routed edges, component after component (the monitor of the real call
   delivers them in that order); the model knows how many belong to each component *)
Definition n_routes (g4 : graph) : nat :=
  if Nat.eqb (length (g_N g4)) 1 then 0%nat else
  match merge_long_edges g4 with Ok (_, routes) => length routes | Err _ => 0%nat end.

Fixpoint check_spline_comps (c : tcase) (k ci : nat) (obs : list sobs) : list nat :=
  match k with
  | O => match obs with [] => [] | _ => [780%nat] end
  | S k' =>
      match find_snap c 6 (Z.of_nat ci), find_snap c 7 (Z.of_nat ci) with
      | Some g4, Some g5 =>
          let n := n_routes g4 in
          check_spline_comp g4 g5 (firstn n obs) ++ check_spline_comps c k' (S ci) (skipn n obs)
      | _, _ => [798%nat]
      end
  end.

Definition check_spline_case (c : tcase) (obs : list sobs) : list nat :=
  check_spline_comps c (length (filter (fun s => Nat.eqb (s_label s) 1) (c_snaps c))) 0 obs.

Definition spline_failing (cs : list (nat * tcase)) (os : list (nat * list sobs)) : list (nat * list nat) :=
  flat_map (fun p : (nat * tcase) * (nat * list sobs) =>
    match check_spline_case (snd (fst p)) (snd (snd p)) with [] => [] | l => [(fst (fst p), l)] end) (combine cs os).
