(* SplineStruct.v — the recursive STRUCTURE of internal/geom/spline.go: FitSpline, independent of floating point.

   FitSpline(path, tanv1, tanv2, barriers):
     numeric set-up (chord-length parametrisation, Schneider's alphas)      ~> oracle [ctrl0]
     bz := ctrlp{p0: path[0], p1: v1, p2: v2, p3: path[len(path)-1]}
     bz, ok := tryfit(bz, path, barriers)                                   ~> oracle [tryfit]
     if ok { return []ctrlp{bz} }
     k := bz.adjust(1).maxerr(path, t)                                      ~> oracle [maxerr]
     tanw := norm(norm(path[k]-path[k-1]) + norm(path[k+1]-path[k]))        ~> oracle [tangent]
     return append(FitSpline(path[:k+1], tanv1, tanw, barriers), FitSpline(path[k:], tanw, tanv2, barriers)...)

   Everything numeric is a Section variable (an arbitrary function): the barriers, the parametrisation and the
   intermediate control points are hidden inside the oracles, which receive the whole path and both tangents.
   What is modelled exactly is the control flow, the slicing of the path and the order of the output pieces.

   Error sites (number 71):
     - [path = []]: path[0] panics                                          -> Err (ErrIndex 71)
     - k = 0 (Go: maxi = -1 when the maxerr loop never assigns, or 0) : path[k-1] panics, and
       k+1 >= len(path) : path[k+1] panics                                  -> Err (ErrIndex 71)
       (a one-point path whose tryfit fails always ends here, because no k is in range)
     - the model's fuel ran out (not a behaviour of the code)               -> Err (ErrFuel 71) *)
From Autog Require Export Base.
Local Open Scope nat_scope.

Section Spline.
  Variable P : Type.

  (* ctrlp: the four control points of one cubic Bezier piece *)
  Record piece := mkPiece { p0 : P; p1 : P; p2 : P; p3 : P }.

  (* the numeric oracles *)
  Variable tryfit : piece -> list P -> P -> P -> option piece.  (* initial piece, path, tangents -> fitted piece *)
  Variable maxerr : list P -> P -> P -> nat.                    (* index of the path point farthest from the curve *)
  Variable tangent : list P -> nat -> P.                        (* averaged direction of the path at index k *)
  Variable ctrl0 : list P -> P -> P -> P * P.                   (* initial inner control points (v1, v2) *)

  Fixpoint fit_spline (fuel : nat) (path : list P) (t1 t2 : P) : res (list piece) :=
    match path with
    | [] => Err (ErrIndex 71)
    | a :: _ =>
        match fuel with
        | O => Err (ErrFuel 71)
        | S f =>
            let v := ctrl0 path t1 t2 in
            let bz := mkPiece a (fst v) (snd v) (last path a) in
            match tryfit bz path t1 t2 with
            | Some bz' => Ok [bz']
            | None =>
                let k := maxerr path t1 t2 in
                if (k <? 1) || (length path <=? k + 1) then Err (ErrIndex 71) else
                let tw := tangent path k in
                do upper <- fit_spline f (firstn (k + 1) path) t1 tw;
                do lower <- fit_spline f (skipn k path) tw t2;
                Ok (upper ++ lower)
            end
        end
    end.

  (* the flattened control-point list the caller draws: 4 points per piece *)
  Definition piece_pts (b : piece) : list P := [p0 b; p1 b; p2 b; p3 b].
  Definition ctrl_points (ps : list piece) : list P := flat_map piece_pts ps.
End Spline.

Arguments mkPiece {P} _ _ _ _.
Arguments fit_spline {P} _ _ _ _ _ _ _ _.
Arguments p0 {P} _.
Arguments p1 {P} _.
Arguments p2 {P} _.
Arguments p3 {P} _.
Arguments piece_pts {P} _.
Arguments ctrl_points {P} _.
