(* Splines.v — internal/phase5/splines.go (execSplines, buildRects, rectBetweenLayers, rectVirtualNode,
   rectBetweenNodes), statement by statement, over rationals.

   What is modelled exactly: the construction of the corridor (all rectangle arithmetic), the start and end
   points, the case split on the length of the shortest path, and the assembly of the control points from the
   fitted pieces (pieces in reverse order, each piece reversed).
   What enters as an oracle (Section variables, arbitrary functions): [shortest] = geom.Shortest (the corridor
   router, C19), [fit] = geom.FitSpline on the merged corridor (C20; its recursive structure is Model/SplineStruct.v)
   and [mk_inner] = the two inner control points of geom.MakeSpline (rotations by pi/10: irrational).
   d/3 in rectBetweenNodes is not a dyadic rational: the model divides exactly; the correspondence compares
   rectangles up to a relative tolerance for that reason.

   Error sites (number 9x): g.Layers[n.Layer] out of range, Head()/Tail() of an empty layer, vl.Nodes[p+-1] out of
   range -> Err (ErrIndex 9x). *)
From Autog Require Export Geom Phase5 SplineStruct.
Local Open Scope Q_scope.

Definition layer_nodes_at (code : nat) (g : graph) (z : Z) : res (list nat) :=
  if (z <? 0)%Z then Err (ErrIndex code) else
  match nth_error (g_L g) (Z.to_nat z) with Some l => Ok (l_nodes l) | None => Err (ErrIndex code) end.

Definition head_of (code : nat) (ns : list nat) : res nat :=
  match ns with n :: _ => Ok n | [] => Err (ErrIndex code) end.
Definition tail_of (code : nat) (ns : list nat) : res nat :=
  match last_opt ns with Some n => Ok n | None => Err (ErrIndex code) end.

(* rectBetweenLayers(l1, l2); note t1 is l2.Tail() in the Go code as well *)
Definition rect_between_layers (g : graph) (l1 l2 : list nat) : res rect :=
  do h1 <- head_of 91 l1; do h2 <- head_of 91 l2;
  do t1 <- tail_of 91 l2; do t2 <- tail_of 91 l2;
  Ok (mkRect (Qmin' (nX g h1) (nX g h2), nY g h1 + nH g h1)
             (Qmax' (nX g t1 + nW g t1) (nX g t2 + nW g t2), nY g t2)).

(* rectBetweenNodes(n1, n2) *)
Definition rect_between_nodes (g : graph) (n1 n2 : nat) : rect :=
  let d := nX g n2 - (nX g n1 + nW g n1) in
  mkRect (nX g n1 + nW g n1 + d / 3, nY g n1) (nX g n2 - d / 3, nY g n2 + nH g n2).

Definition node_at_pos (code : nat) (ns : list nat) (z : Z) : res nat :=
  if (z <? 0)%Z then Err (ErrIndex code) else
  match nth_error ns (Z.to_nat z) with Some n => Ok n | None => Err (ErrIndex code) end.

(* rectVirtualNode(vn, vl) *)
Definition rect_virtual_node (g : graph) (vn : nat) (vl : list nat) : res rect :=
  let p := n_pos (gnode g vn) in
  if (p =? 0)%Z then
    do n <- node_at_pos 92 vl (p + 1)%Z;
    Ok (mkRect (nX g vn - 10, nY g n) (nX g n, nY g n + nH g n))
  else if (p =? Z.of_nat (length vl) - 1)%Z then
    do n <- node_at_pos 92 vl (p - 1)%Z;
    Ok (mkRect (nX g n + nW g n, nY g n) (nX g vn + 10, nY g n + nH g n))
  else
    do n1 <- node_at_pos 92 vl (p - 1)%Z;
    do n2 <- node_at_pos 92 vl (p + 1)%Z;
    Ok (rect_between_nodes g n1 n2).

(* buildRects(g, route) *)
Fixpoint build_rects (g : graph) (ns : list nat) : res (list rect) :=
  match ns with
  | top :: ((btm :: _) as rest) =>
      do here <-
        (let tv := n_virt (gnode g top) in let bv := n_virt (gnode g btm) in
         if negb tv && negb bv then
           Ok [mkRect (Qmin' (nX g top) (nX g btm), nY g top + nH g top)
                      (Qmax' (nX g top + nW g top) (nX g btm + nW g btm), nY g btm)]
         else if bv then
           do tl <- layer_nodes_at 90 g (n_layer (gnode g top));
           do bl <- layer_nodes_at 90 g (n_layer (gnode g btm));
           do r1 <- rect_between_layers g tl bl;
           do r2 <- rect_virtual_node g btm bl;
           Ok [r1; r2]
         else
           do tl <- layer_nodes_at 90 g (n_layer (gnode g top));
           do bl <- layer_nodes_at 90 g (n_layer (gnode g btm));
           do r1 <- rect_between_layers g tl bl;
           Ok [r1]);
      do more <- build_rects g rest;
      Ok (here ++ more)
  | _ => Ok []
  end.

Section SplineRouting.
  Variable shortest : pt -> pt -> list rect -> list pt.
  Variable fit : list pt -> list rect -> res (list (piece pt)).
  Variable mk_inner : pt -> pt -> pt * pt.

  (* MakeSpline(a, b).Float64Slice() *)
  Definition make_spline (a b : pt) : list pt :=
    if Qeq_bool (fst a) (fst b) then [a; a; b; b]
    else [a; fst (mk_inner a b); snd (mk_inner a b); b].

  (* for _, c := range slices.Backward(ctrls) { append(s[3], s[2], s[1], s[0]) } *)
  Definition assemble (ctrls : list (piece pt)) : list pt :=
    flat_map (fun c => [p3 c; p2 c; p1 c; p0 c]) (rev ctrls).

  (* the body of the loop of execSplines for one routable edge *)
  Definition spline_route (g : graph) (e : nat) (ns : list nat) : res (list pt) :=
    do rects <- build_rects g ns;
    let start := start_point g (e_from (gedge g e)) in
    let endp := end_point g (e_to (gedge g e)) in
    let path := shortest start endp rects in
    if Nat.eqb (length path) 2 then Ok (make_spline start endp)
    else do ctrls <- fit path rects; Ok (assemble ctrls).

  Definition exec_splines (g : graph) (routes : list (nat * list nat)) : res graph :=
    fold_left (fun (rg : res graph) r =>
                 do g <- rg; do p <- spline_route g (fst r) (snd r);
                 Ok (upd_edge g (fst r) (set_pts p))) routes (Ok g).

  (* Process of phase 5 with alg = Splines *)
  Definition phase5_splines (g : graph) : res graph :=
    if Nat.eqb (length (g_N g)) 1 then Ok g else
    do r <- merge_long_edges g;
    let '(g, routes) := r in
    exec_splines g routes.
End SplineRouting.
