(* Wmedian.v — internal/phase3/wmedian.go, the weighted-median ordering heuristic, for properly layered graphs
   without flat edges (then initFixedPositions yields empty maps and every fixed-position test is false; the
   model returns an error if it meets a flat edge). Medians are rationals: in the Go code every median is a
   correctly rounded quotient of two small exact integers, so comparing the float64 values is comparing the
   rationals. *)
From Autog Require Export Graph Phase3 CrossCount.
From Coq Require Import Qround.

(* sort a layer's node list by the current positions (pairwise distinct: any sort gives this result) *)
Definition sort_by_pos (g : graph) (ns : list nat) : list nat :=
  isort (fun a b => pos_of g a <=? pos_of g b) ns.

Definition sort_layers (g : graph) : graph :=
  with_L g (map (fun l => mkLayer (sort_by_pos g (l_nodes l)) (l_w l) (l_h l)) (g_L g)).

(* ---------- initPositions ---------- *)
(* st = (graph with positions, visited, indices: next free position per layer) *)
Definition ip_st := (graph * list nat * list (Z * Z))%type.

Fixpoint idx_get (l : list (Z * Z)) (k : Z) : Z :=
  match l with [] => 0 | (a, b) :: t => if a =? k then b else idx_get t k end.

Fixpoint init_pos (top : bool) (fuel : nat) (n : nat) (st : ip_st) : res ip_st :=
  match fuel with
  | O => Err (ErrFuel 33)
  | S f =>
      let '(g, vis, idx) := st in
      if mem_nat n vis then Ok st else
      let ln := layer_of g n in
      let g := upd_node g n (set_pos (idx_get idx ln)) in
      let st := (g, n :: vis, (ln, idx_get idx ln + 1) :: idx) in
      (fix loop (es : list nat) (st : ip_st) : res ip_st :=
         match es with
         | [] => Ok st
         | e :: t =>
             let '(g, _, _) := st in
             let m := if top then e_to (gedge g e) else e_from (gedge g e) in
             do st' <- init_pos top f m st; loop t st'
         end) (if top then n_out (gnode g n) else n_in (gnode g n)) st
  end.

Definition init_positions (top : bool) (g : graph) : res graph :=
  let first := if top then l_nodes (glayer g 0) else l_nodes (glayer g (length (g_L g) - 1)) in
  let fuel := S (length (g_na g)) in
  do st <- fold_left (fun (r : res ip_st) n => do st <- r; init_pos top fuel n st) (first ++ g_N g) (Ok (g, [], []));
  let '(g, _, _) := st in Ok g.

(* ---------- medians ---------- *)
Definition adj_positions (g : graph) (n : nat) (edges : list nat) (adj : Z) : list Z :=
  isort Z.leb (flat_map (fun e => if self_loop g e then [] else
                                  let m := connected_node g e n in
                                  if layer_of g m =? adj then [pos_of g m] else []) edges).

Definition median_of (ps : list Z) : Q :=
  let len := length ps in
  let mid := Nat.div len 2 in
  let at_ i := inject_Z (nth i ps 0) in
  if Nat.eqb len 0 then (-1)%Q
  else if Nat.odd len then at_ mid
  else if Nat.eqb len 2 then ((at_ 0%nat + at_ 1%nat) / 2)%Q
  else let left := (at_ (mid - 1)%nat - at_ 0%nat)%Q in
       let right := (at_ (len - 1)%nat - at_ mid)%Q in
       if Qeq_bool left right then ((at_ (mid - 1)%nat + at_ mid) / 2)%Q
       else ((at_ (mid - 1)%nat * right + at_ mid * left) / (left + right))%Q.

(* ---------- sortLayer ---------- *)
Definition med (ms : list Q) (n : nat) : Q := nth n ms 0%Q.
Definition is_unset (q : Q) : bool := Qeq_bool q (-1).

(* swap the positions of two nodes (wmedianProcessor.swap) *)
Definition swap_pos (g : graph) (v w : nat) : graph :=
  let pv := pos_of g v in let pw := pos_of g w in
  upd_node (upd_node g v (set_pos pw)) w (set_pos pv).

Definition swap_list (l : list nat) (i j : nat) : list nat :=
  let a := nth i l 0%nat in let b := nth j l 0%nat in set_nth (set_nth l i b) j a.

(* first index >= i below ep whose median is set *)
Fixpoint skip_unset (fuel : nat) (ms : list Q) (nodes : list nat) (i ep : nat) : nat :=
  match fuel with
  | O => i
  | S f => if Nat.ltb i ep && is_unset (med ms (nth i nodes 0%nat)) then skip_unset f ms nodes (S i) ep else i
  end.

(* one pass of the inner `for lp < ep` loop; st = (graph, nodes) *)
Fixpoint sl_pass (fuel : nat) (flip : bool) (ms : list Q) (ep lp : nat) (st : graph * list nat) : graph * list nat :=
  match fuel with
  | O => st
  | S f =>
      let '(g, nodes) := st in
      if negb (Nat.ltb lp ep) then st else
      let lp := skip_unset (length nodes) ms nodes lp ep in
      if negb (Nat.ltb lp ep) then st else
      let rp := skip_unset (length nodes) ms nodes (S lp) ep in
      if negb (Nat.ltb rp ep) then st else
      let a := nth lp nodes 0%nat in let b := nth rp nodes 0%nat in
      let ml := med ms a in let mr := med ms b in
      let st := if Qlt_bool mr ml || (Qeq_bool ml mr && flip)
                then (swap_pos g a b, swap_list nodes lp rp) else st in
      sl_pass f flip ms ep rp st
  end.

Fixpoint sl_iters (iters : nat) (flip : bool) (ms : list Q) (ep : nat) (st : graph * list nat) : graph * list nat :=
  match iters with
  | O => st
  | S k =>
      let st := sl_pass (S (length (snd st))) flip ms ep 0 st in
      sl_iters k flip ms (if flip then ep else Nat.pred ep) st
  end.

Definition sort_layer (flip : bool) (ms : list Q) (g : graph) (r : nat) : graph :=
  let nodes := l_nodes (glayer g r) in
  let '(g, nodes) := sl_iters (length nodes) flip ms (length nodes) (g, nodes) in
  upd_layer g r (fun l => mkLayer nodes (l_w l) (l_h l)).

(* wmedianTopBottom / wmedianBottomTop: the medians table persists over the sweep *)
Definition sweep_layer (down : bool) (flip : bool) (acc : graph * list Q) (r : nat) : graph * list Q :=
  let '(g, ms) := acc in
  let adj := if down then Z.of_nat r - 1 else Z.of_nat r + 1 in
  let ms := fold_left (fun ms v =>
                         set_nth ms v (median_of (adj_positions g v (if down then n_in (gnode g v) else n_out (gnode g v)) adj)))
                      (l_nodes (glayer g r)) ms in
  (sort_layer flip ms g r, ms).

Definition wmedian_sweep (down : bool) (flip : bool) (g : graph) : graph :=
  let nl := length (g_L g) in
  let rs := if down then iota 1 (nl - 1) else rev (iota 0 nl) in
  fst (fold_left (sweep_layer down flip) rs (g, repeat 0%Q (length (g_na g)))).

(* ---------- transpose ---------- *)
Definition crossings_around (g : graph) (l : nat) : Z :=
  let nl := length (g_L g) in
  if Nat.eqb l 0 then count_crossings g l (S l)
  else if Nat.eqb l (nl - 1) then count_crossings g (l - 1) l
  else count_crossings g (l - 1) l + count_crossings g l (S l).

Definition transpose_layer (acc : graph * bool) (l : nat) : graph * bool :=
  fold_left (fun (acc : graph * bool) i =>
     let '(g, improved) := acc in
     let nodes := l_nodes (glayer g l) in
     let v := nth i nodes 0%nat in let w := nth (S i) nodes 0%nat in
     let cur := crossings_around g l in
     let g' := swap_pos g v w in
     if crossings_around g' l <? cur
     then (upd_layer g' l (fun ly => mkLayer (swap_list (l_nodes ly) i (S i)) (l_w ly) (l_h ly)), true)
     else acc)
   (iota 0 (length (l_nodes (glayer (fst acc) l)) - 2)) acc.

Fixpoint transpose (fuel : nat) (g : graph) : res graph :=
  match fuel with
  | O => Err (ErrFuel 34)
  | S f =>
      let '(g, improved) := fold_left transpose_layer (iota 0 (length (g_L g))) (g, false) in
      if improved then transpose f g else Ok g
  end.

(* ---------- wmedianRun ---------- *)
Definition positions (g : graph) : list Z := map n_pos (g_na g).

Fixpoint wm_iter (k : nat) (i : nat) (flip : bool) (g : graph) (bestx : Z) (bestp : list Z) : res (graph * Z * list Z) :=
  match k with
  | O => Ok (g, bestx, bestp)
  | S k' =>
      let down := Nat.even i in
      let g := wmedian_sweep down flip g in
      let flip := if down then flip else negb flip in
      do g <- transpose (S (Z.to_nat (reported_crossings g))) g;
      let x := reported_crossings g in
      let '(bestx, bestp) := if x <? bestx then (x, positions g) else (bestx, bestp) in
      if bestx =? 0 then Ok (g, bestx, bestp) else wm_iter k' (S i) flip g bestx bestp
  end.

Definition wmedian_run (maxiter : nat) (top : bool) (g : graph) : res (graph * Z * list Z) :=
  do g <- init_positions top g;
  let g := sort_layers g in
  let bestx := reported_crossings g in
  let bestp := positions g in
  if bestx =? 0 then Ok (g, bestx, bestp) else wm_iter maxiter 0 false g bestx bestp.

(* execWeightedMedian after breakLongEdges; returns the graph and the crossing number it reports *)
Definition exec_wmedian (maxiter : nat) (g : graph) : res (graph * Z) :=
  if existsb (is_flat g) (g_E g) then Err (ErrIndex 35) else
  do r1 <- wmedian_run maxiter true g;
  let '(g, xt, pt) := r1 in
  do r2 <- wmedian_run maxiter false g;
  let '(g, xb, pb) := r2 in
  let '(bestx, bestp) := if xt <? xb then (xt, pt) else (xb, pb) in
  let g := fold_left (fun g n => upd_node g n (set_pos (nth n bestp 0))) (g_N g) g in
  Ok (sort_layers g, bestx).

Definition phase3_wmedian (maxiter : nat) (g : graph) : res (graph * option Z) :=
  if Nat.eqb (length (g_N g)) 1 then Ok (g, None) else
  if Nat.eqb (length (g_L g)) 1 then Ok (g, None) else
  do g <- break_long_edges g;
  do r <- exec_wmedian maxiter g;
  Ok (fst r, Some (snd r)).
