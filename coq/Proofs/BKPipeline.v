(* BKPipeline.v — the pipeline WITH the Brandes-Koepf positioner (Model/PipelineBK.v), part 1: the backbone.

   S1  [layout_x_eq]: for every positioner but [OtherPositioner], [layout_component_x] / [layout_components_x] /
       [layout_x] ARE [layout_component] / [layout_components] / [layout];
   S2  [bk_pos_frame]: the frame of Brandes-Koepf (BKProofs.exec_bk_frame) in the form [E2EBridge.pos_frame] used by the
       backbone; [phase4_bk_facts] = the statement of [E2EBridge.phase4_facts] for [phase4_bk] (no hypothesis on the
       variant); [phase4x_facts], [phase4x_chain]: the same for [phase4x bk alg], ALL FIVE positioners;
   S3  [stage45_ok_x], [backbone_x], [pipeline_backbone_x]: [E2EBackbone.stage45_ok] / [backbone] /
       [pipeline_backbone] for [layout_component_x], all five positioners (in particular [o_p4 o = OtherPositioner]).
       The record [E2EBackbone.backbone] mentions [phase4]; [backbone_x bk] is the same record with [phase4x bk].

   The end-to-end theorems derived from [backbone_x] are in BKPipeline2.v. *)
From Autog Require Import Base Graph Populate Phase1 Phase2 Phase3 Phase4 Phase5 Layout Wmedian Pipeline BK PipelineBK.
From Autog.Proofs Require Import ListLemmas Consistent SelfLoopProofs.
From Autog.Proofs Require CBBase CBGreedy CBGreedyRanks CBDepthFirst CBHasCycles CycleBreaking LongestPath
                          OptNormalize OptVbalance OptPipeline.
From Autog.Proofs Require Import Positioners Routes BreakMerge SinkColoringProofs E2EBridge E2EBackbone.
From Autog.Proofs Require BKProofs.
From Autog.Proofs Require Import NSPositioner WholeBridge.
From Coq Require Import Permutation Lia Lqa.
Local Open Scope nat_scope.

(* ====================================================================================================== *)
(** * 1. [layout_x] is [layout] unless the positioner is Brandes-Koepf                                     *)
(* ====================================================================================================== *)

Lemma phase4x_eq : forall bk alg p g, alg <> OtherPositioner -> phase4x bk alg p g = phase4 alg p g.
Proof. intros bk alg p g H. destruct alg; try reflexivity. congruence. Qed.

Lemma phase4x_other : forall bk p g, phase4x bk OtherPositioner p g = phase4_bk bk p g.
Proof. reflexivity. Qed.

Theorem layout_component_x_eq : forall bk o g,
  o_p4 o <> OtherPositioner -> layout_component_x bk o g = layout_component o g.
Proof.
  intros bk o g H. unfold layout_component_x, layout_component.
  destruct (ignore_self_loops g) as [g0 del].
  destruct (phase1 (o_p1 o) g0) as [g1|e]; cbn [bind]; [|reflexivity].
  destruct (phase2 (o_p2 o) (Layout.ns_params o) g1) as [g2|e]; cbn [bind]; [|reflexivity].
  destruct (phase3_wmedian wmedian_max_iter g2) as [[g3 x]|e]; cbn [bind]; [|reflexivity].
  rewrite (phase4x_eq bk (o_p4 o) (p4_params o) g3 H). reflexivity.
Qed.

Theorem layout_components_x_eq : forall bk o cs shift,
  o_p4 o <> OtherPositioner -> layout_components_x bk o cs shift = layout_components o cs shift.
Proof.
  intros bk o cs; induction cs as [|c rest IH]; intros shift H; [reflexivity|].
  cbn [layout_components_x layout_components]. rewrite (layout_component_x_eq bk o c H).
  destruct (layout_component o c) as [[g x]|e]; cbn [bind]; [|reflexivity].
  rewrite (IH _ H). reflexivity.
Qed.

Theorem layout_x_eq : forall (A : Type) (eqA : A -> A -> bool) bk o fixed sizes es,
  o_p4 o <> OtherPositioner -> layout_x A eqA bk o fixed sizes es = layout A eqA o fixed sizes es.
Proof.
  intros A eqA bk o fixed sizes es H. unfold layout_x, layout.
  destruct (populate A eqA es) as [[ids g]|e]; cbn [bind]; [|reflexivity].
  destruct ids as [|i t]; [reflexivity|].
  rewrite (layout_components_x_eq bk o _ _ H). reflexivity.
Qed.
Print Assumptions layout_x_eq.

(* ====================================================================================================== *)
(** * 2. Phase 4 with Brandes-Koepf: the frame facts of the backbone                                       *)
(* ====================================================================================================== *)

(* the frame of Brandes-Koepf in the form the backbone uses for the other positioners *)
Lemma bk_pos_frame : forall variant s g g1, exec_bk variant s g = Ok g1 -> pos_frame g g1.
Proof.
  intros variant s g g1 H. pose proof (BKProofs.exec_bk_frame variant s g g1 H) as HF.
  constructor.
  - intros n. apply (BKProofs.bkf_gnode g g1 HF n).
  - apply (BKProofs.bkf_layer_nodes g g1 HF).
  - apply (BKProofs.bkf_len_na g g1 HF).
  - apply (BKProofs.bf_N _ _ HF).
  - apply (BKProofs.bf_E _ _ HF).
  - apply (BKProofs.bf_ea _ _ HF).
  - intros k n Hn. destruct (BKProofs.bkf_glayer_fields g g1 HF k) as (_ & _ & Hh).
    unfold glayer in Hh. rewrite Hh. apply BKProofs.layer_height_ge_node. exact Hn.
  - intros k H0. destruct (BKProofs.bkf_glayer_fields g g1 HF k) as (_ & _ & Hh).
    unfold glayer in Hh. rewrite Hh. eapply Qle_trans; [exact H0|apply BKProofs.layer_height_ge_init].
Qed.

(* [phase4_bk] is [assign_y] after [exec_bk] *)
Lemma phase4_bk_is_assign_y : forall variant p g g4,
  Nat.eqb (length (g_N g)) 1 = false -> phase4_bk variant p g = Ok g4 ->
  exists g1, g4 = assign_y (layer_spacing p) g1 /\ exec_bk variant (node_spacing p) g = Ok g1.
Proof.
  intros variant p g g4 N1 P4. unfold phase4_bk in P4. rewrite N1 in P4.
  destruct (exec_bk variant (node_spacing p) g) as [g1|e] eqn:E; cbn [bind] in P4; [|discriminate].
  injection P4 as <-. exists g1. split; reflexivity.
Qed.

(* [E2EBridge.phase4_facts] for the Brandes-Koepf positioner, any variant *)
Theorem phase4_bk_facts : forall variant p g g4,
  Nat.eqb (length (g_N g)) 1 = false -> phase4_bk variant p g = Ok g4 ->
  layers_wf g -> (forall k, (0 <= l_h (glayer g k))%Q) ->
  g_ea g4 = g_ea g /\ g_N g4 = g_N g /\ g_E g4 = g_E g /\ length (g_na g4) = length (g_na g) /\
  (forall n, set_x 0 (set_y 0 (gnode g4 n)) = set_x 0 (set_y 0 (gnode g n))) /\
  (forall k, l_nodes (glayer g4 k) = l_nodes (glayer g k)) /\
  length (g_L g4) = length (g_L g) /\
  layers_wf g4 /\
  (forall k n, In n (l_nodes (glayer g4 k)) ->
     nY g4 n = ysum (layer_spacing p) (g_L g4) k /\ (nH g4 n <= l_h (glayer g4 k))%Q) /\
  (forall k, (0 <= l_h (glayer g4 k))%Q).
Proof.
  intros variant p g g4 N1 P4 WF H0.
  destruct (phase4_bk_is_assign_y variant p g g4 N1 P4) as (g1 & -> & Hg1).
  assert (PF : pos_frame g g1) by (eapply bk_pos_frame; exact Hg1).
  destruct PF as [F1 F2 F3 F4 F5 F6 F7 F8].
  destruct (assign_y_frame (layer_spacing p) g1) as (_ & Y2 & Y3 & Y4 & Y5 & Y6 & Y7 & Y8 & Y9).
  assert (WF1 : layers_wf g1) by (eapply layers_wf_transfer; eassumption).
  assert (LN : forall k, l_nodes (glayer g1 k) = l_nodes (glayer g k)).
  { intros k. unfold glayer. rewrite <- !nth_map_l_nodes, F2. reflexivity. }
  split; [congruence|]. split; [congruence|]. split; [congruence|]. split; [congruence|].
  split; [|split; [|split; [|split; [|split]]]].
  - intros n. pose proof (Y4 n) as E1. pose proof (F1 n) as E2.
    destruct (gnode (assign_y (layer_spacing p) g1) n), (gnode g1 n), (gnode g n).
    unfold set_x, set_y in *. cbn in *. inversion E1. inversion E2. subst. reflexivity.
  - intros k. unfold glayer at 1. rewrite Y5. apply LN.
  - rewrite Y5. rewrite <- (map_length l_nodes (g_L g1)), F2. apply map_length.
  - unfold layers_wf. rewrite Y5, Y6. exact WF1.
  - intros k n Hn. unfold glayer in *. rewrite Y5 in *. split.
    + apply assign_y_layer_eq; assumption.
    + rewrite Y3. replace (nH g1 n) with (nH g n).
      * apply F7. rewrite LN in Hn. exact Hn.
      * unfold nH. pose proof (F1 n) as E. destruct (gnode g1 n), (gnode g n). unfold set_x in E. cbn in *.
        inversion E. reflexivity.
  - intros k. unfold glayer. rewrite Y5. apply F8, H0.
Qed.
Print Assumptions phase4_bk_facts.

(* the positioners of [phase4x]: all five *)
Lemma p4alg_cases : forall alg, modelled_p4' alg \/ alg = OtherPositioner.
Proof. intros []; unfold modelled_p4', modelled_p4; auto 6. Qed.

(* ... hence for [phase4x bk alg], whatever the positioner *)
Theorem phase4x_facts : forall bk alg p g g4,
  Nat.eqb (length (g_N g)) 1 = false -> phase4x bk alg p g = Ok g4 ->
  layers_wf g -> (forall k, (0 <= l_h (glayer g k))%Q) ->
  g_ea g4 = g_ea g /\ g_N g4 = g_N g /\ g_E g4 = g_E g /\ length (g_na g4) = length (g_na g) /\
  (forall n, set_x 0 (set_y 0 (gnode g4 n)) = set_x 0 (set_y 0 (gnode g n))) /\
  (forall k, l_nodes (glayer g4 k) = l_nodes (glayer g k)) /\
  length (g_L g4) = length (g_L g) /\
  layers_wf g4 /\
  (forall k n, In n (l_nodes (glayer g4 k)) ->
     nY g4 n = ysum (layer_spacing p) (g_L g4) k /\ (nH g4 n <= l_h (glayer g4 k))%Q) /\
  (forall k, (0 <= l_h (glayer g4 k))%Q).
Proof.
  intros bk alg p g g4 N1 P4 WF H0. destruct (p4alg_cases alg) as [M| ->].
  - rewrite phase4x_eq in P4.
    + apply (phase4_facts' alg p g g4 M N1 P4 WF H0).
    + intros ->. destruct M as [[E|[E|E]]|E]; discriminate.
  - apply (phase4_bk_facts bk p g g4 N1 P4 WF H0).
Qed.

(* [Routes.phase4_chain] for [phase4x] *)
Theorem phase4x_chain : forall bk alg p g g' ns,
  Nat.eqb (length (g_N g)) 1 = false ->
  phase4x bk alg p g = Ok g' ->
  layers_wf g' -> (forall n, In n ns -> placed g' n) -> chain_layers g' ns ->
  chain_y_eq g' (layer_spacing p) ns.
Proof.
  intros bk alg p g g' ns H1 H Hwf Hpl Hch.
  assert (E : exists g1, g' = assign_y (layer_spacing p) g1).
  { destruct alg; cbn [phase4x] in H;
      try (destruct (phase4_is_assign_y _ p g g' H1 H) as (g1 & E & _); exists g1; exact E).
    destruct (phase4_bk_is_assign_y bk p g g' H1 H) as (g1 & E & _). exists g1. exact E. }
  destruct E as (g1 & ->).
  apply assign_y_chain.
  - apply (assign_y_layers_wf_inv _ _ Hwf).
  - intros n Hn. apply (assign_y_placed (layer_spacing p) g1 n), Hpl, Hn.
  - apply (assign_y_chain_layers (layer_spacing p) g1 ns), Hch.
Qed.

(* ====================================================================================================== *)
(** * 3. The backbone of [layout_component_x]                                                              *)
(* ====================================================================================================== *)

(* [E2EBackbone.stage45_ok]: the proof is the original with [phase4x_facts] / [phase4x_chain] *)
Theorem stage45_ok_x : forall bk sp alg4 p alg5 g1 g2 g3 k g3' g4 g5,
  stage23 g1 g2 g3 k -> break_long_edges g2 = Ok g3 -> order_contract g3 g3' ->
  layer_spacing p = sp -> phase4x bk alg4 p g3' = Ok g4 ->
  modelled_p5 alg5 -> phase5 alg5 sp g4 = Ok g5 ->
  exists gm routes, merge_long_edges g4 = Ok (gm, routes) /\ stage45 sp alg5 g2 g3 g3' g4 gm routes g5.
Proof.
  intros bk sp alg4 p alg5 g1 g2 g3 k g3' g4 g5 S BR OC SP P4 A5 P5.
  destruct S as [PP PRE LOK WF2 PL2 INL2 ENDS TWO L1 S1 S2 S3 S4 S5 S6 S7 S8 WF3 PL3 SL SLH SUB SINL].
  destruct (order_contract_facts g3 g3' OC) as (T1 & OWF & OPL & OIN & OINL & OLH).
  pose proof OC as [O1 O2 O3 O4 O5 O6 O7 O8].
  assert (N3' : Nat.eqb (length (g_N g3')) 1 = false).
  { apply Nat.eqb_neq. rewrite O2, S2, app_length. lia. }
  assert (LH3' : forall kk, (0 <= l_h (glayer g3' kk))%Q).
  { intros kk. rewrite OLH, SLH. destruct (p2_wh _ _ PP kk) as [_ ->]. apply Qle_refl. }
  destruct (phase4x_facts bk alg4 p g3' g4 N3' P4 (OWF WF3) LH3') as (F1 & F2 & F3 & F4 & F5 & F6 & F7 & F8 & F9 & F10).
  subst sp.
  assert (T2 : same_topology g3' g4).
  { split; [exact F1|]. split; [exact F3|]. split; [exact F4|]. intros n.
    destruct (set_xy_fields _ _ (F5 n)) as (-> & -> & -> & _ & -> & _). repeat split; reflexivity. }
  pose proof (same_topology_trans _ _ _ T1 T2) as T.
  destruct (break_phase4_merge_roundtrip g2 g3 g4 PRE BR T)
    as (gm & routes & M & A1 & A2 & A3 & A4' & A5' & A6 & A7 & A8 & A9).
  exists gm, routes. split; [exact M|].
  assert (LY4 : forall n, layer_of g4 n = layer_of g3 n) by (intros n; apply (same_topology_layer _ _ _ T)).
  assert (LYm : forall n, layer_of gm n = layer_of g4 n).
  { intros n. pose proof (A7 n) as Sb. apply same_but_in_fields in Sb. unfold layer_of. apply Sb. }
  assert (PL4 : forall n, In n (g_N g4) -> placed g4 n).
  { intros n Hn. rewrite F2, O2 in Hn. apply (placed_transfer g3' g4).
    - intros m. apply (same_topology_layer _ _ _ T2).
    - intros kk. apply (F6 kk).
    - apply OPL, PL3, Hn. }
  assert (Geo : forall n, nX gm n = nX g4 n /\ nY gm n = nY g4 n /\ nW gm n = nW g4 n /\ nH gm n = nH g4 n).
  { intros n. unfold nX, nY, nW, nH. apply same_but_in_geom, A7. }
  assert (FST : forall r, In r routes -> In (fst r) (g_E g2)).
  { intros r Hr. rewrite <- A8. apply in_map, Hr. }
  assert (ND : NoDup (map fst routes)) by (rewrite A8; apply (bp_nodup PRE)).
  assert (LT : forall r, In r routes -> fst r < length (g_ea gm)).
  { intros r Hr. apply in_range_of_ends. rewrite (A5' _ (FST r Hr)). cbn [set_ahs e_from e_to].
    destruct (bp_edges PRE _ (FST r Hr)) as (_ & _ & _ & SPN). unfold span in SPN. intros Heq. rewrite Heq in SPN. lia. }
  assert (N4 : Nat.eqb (length (g_N g4)) 1 = false) by (rewrite F2; exact N3').
  destruct (phase5_facts alg5 (layer_spacing p) g4 g5 gm routes A5 N4 P5 M ND LT) as (B1 & B2 & B3 & B4 & B5 & B6 & B7).
  constructor; try assumption.
  - intros n. pose proof (F5 n) as E1. pose proof (O5 n) as E2.
    destruct (gnode g4 n), (gnode g3' n), (gnode g3 n). unfold set_x, set_y, set_pos in *. cbn in *.
    inversion E1. inversion E2. subst. reflexivity.
  - congruence.
  - congruence.
  - congruence.
  - congruence.
  - congruence.
  - intros kk n. rewrite F6. apply OINL.
  - rewrite Forall_forall in A9. apply Forall_forall. intros r Hr. split; [apply A9, Hr|].
    destruct (A9 r Hr) as (vs & Ens & _ & Hvs & CL).
    assert (CL4 : chain_layers g4 (snd r)).
    { apply (chain_layers_transfer gm); [intros m; symmetry; apply LYm|exact CL]. }
    assert (IN4 : forall n, In n (snd r) -> In n (g_N g4)).
    { intros n Hn. rewrite F2, O2, S2. destruct (bp_edges PRE _ (FST r Hr)) as (_ & Ra & Rb & _).
      destruct (ENDS _ (FST r Hr)) as [Ea Eb].
      rewrite Ens in Hn. apply in_or_app. destruct Hn as [<-|Hn]; [left; exact Ea|].
      apply in_app_or in Hn. destruct Hn as [Hn|[<-|[]]]; [|left; exact Eb].
      right. apply BreakMerge.in_iota. destruct (Hvs n Hn) as [Rg _]. rewrite A4', F4, O4, S4 in Rg. exact Rg. }
    assert (Y4 : chain_y_eq g4 (layer_spacing p) (snd r)).
    { eapply phase4x_chain; [exact N3'|exact P4|exact F8| |exact CL4]. intros n Hn. apply PL4, IN4, Hn. }
    eapply chain_y_eq_ext; [|exact Y4].
    intros n _. destruct (Geo n) as (_ & -> & _). split; [reflexivity|].
    unfold layer_h_of, glayer. rewrite A3, LYm. reflexivity.
  - intros x Hx. apply B6. rewrite A8. exact Hx.
Qed.
Print Assumptions stage45_ok_x.

(* [E2EBackbone.backbone] with [phase4x bk] as phase 4 *)
Record backbone_x (bk : Z) (o : options) (g g' : graph) (x : option Z) (g0 : graph) (del : list nat) (g1 g2 g3 : graph)
       (k : nat) (g3' : graph) (cx : Z) (g4 gm : graph) (routes : list (nat * list nat)) (g5 : graph) : Prop := {
  xb_e0 : ignore_self_loops g = (g0, del);
  xb_e1 : phase1 (o_p1 o) g0 = Ok g1;
  xb_e2 : phase2 (o_p2 o) (Layout.ns_params o) g1 = Ok g2;
  xb_e3 : break_long_edges g2 = Ok g3;
  xb_e3' : exec_wmedian wmedian_max_iter g3 = Ok (g3', cx);
  xb_x : x = Some cx;
  xb_e4 : phase4x bk (o_p4 o) (p4_params o) g3' = Ok g4;
  xb_em : merge_long_edges g4 = Ok (gm, routes);
  xb_e5 : phase5 (o_p5 o) (o_layer_spacing o) g4 = Ok g5;
  xb_e6 : g' = post_process g5 del;
  xb_s01 : stage01 g g0 del g1;
  xb_s23 : stage23 g1 g2 g3 k;
  xb_s45 : stage45 (o_layer_spacing o) (o_p5 o) g2 g3 g3' g4 gm routes g5 }.

(* a backbone of [layout_component] is a backbone of [layout_component_x] *)
Lemma backbone_backbone_x : forall bk o g g' x g0 del g1 g2 g3 k g3' cx g4 gm routes g5,
  o_p4 o <> OtherPositioner ->
  backbone o g g' x g0 del g1 g2 g3 k g3' cx g4 gm routes g5 ->
  backbone_x bk o g g' x g0 del g1 g2 g3 k g3' cx g4 gm routes g5.
Proof.
  intros bk o g g' x g0 del g1 g2 g3 k g3' cx g4 gm routes g5 H [].
  constructor; try assumption. rewrite phase4x_eq; assumption.
Qed.

(* [E2EBackbone.pipeline_backbone] for [layout_component_x]: any positioner, any Brandes-Koepf variant *)
Theorem pipeline_backbone_x : forall bk o g g' x,
  component_input g -> modelled_p5 (o_p5 o) -> wm_premise o g -> ns_premise o g ->
  layout_component_x bk o g = Ok (g', x) ->
  exists g0 del g1 g2 g3 k g3' cx g4 gm routes g5, backbone_x bk o g g' x g0 del g1 g2 g3 k g3' cx g4 gm routes g5.
Proof.
  intros bk o g g' x CI O5 WM NS H. unfold layout_component_x in H.
  destruct (ignore_self_loops g) as [g0 del] eqn:E0.
  assert (Eg0 : g0 = fst (ignore_self_loops g)) by (rewrite E0; reflexivity).
  destruct (phase1 (o_p1 o) g0) as [g1|] eqn:P1; cbn [bind] in H; [|discriminate].
  destruct (phase2 (o_p2 o) (Layout.ns_params o) g1) as [g2|] eqn:P2; cbn [bind] in H; [|discriminate].
  pose proof (stage01_ok o g g0 del g1 CI E0 P1) as S01.
  assert (TWO1 : 2 <= length (g_N g1)).
  { destruct (rev_star_frame _ _ (s1_rs _ _ _ _ S01)) as (-> & _). rewrite (s0_N _ _ _ _ S01). apply (ci_two _ CI). }
  assert (LO : forall g2a, match o_p2 o with
                           | LongestPath => exec_longest_path g1
                           | NetworkSimplex => exec_network_simplex (Layout.ns_params o) g1
                           end = Ok g2a -> layering_ok g1 g2a).
  { intros g2a Hg. destruct (o_p2 o) eqn:EA.
    - apply lp_layering_ok; [apply (s1_c _ _ _ _ S01)|apply (s1_ranked _ _ _ _ S01)| |exact Hg].
      intros e He. apply (s1_edge _ _ _ _ S01 e He).
    - apply (NS EA g1); [rewrite <- Eg0; exact P1|exact Hg]. }
  destruct (stage23_ok (o_p2 o) (Layout.ns_params o) g1 g2 (s1_c _ _ _ _ S01) (s1_nonvirt _ _ _ _ S01) TWO1
              (s1_some_edge _ _ _ _ S01) LO P2) as (g3 & k & BR & S23).
  unfold phase3_wmedian in H.
  assert (N2 : Nat.eqb (length (g_N g2)) 1 = false).
  { apply Nat.eqb_neq. pose proof (s2_two _ _ _ _ S23). lia. }
  rewrite N2, (s2_L1 _ _ _ _ S23), BR in H. cbn [bind] in H.
  destruct (exec_wmedian wmedian_max_iter g3) as [[g3' cx]|] eqn:WE; cbn [bind fst snd] in H; [|discriminate].
  destruct (phase4x bk (o_p4 o) (p4_params o) g3') as [g4|] eqn:P4; cbn [bind] in H; [|discriminate].
  destruct (phase5 (o_p5 o) (o_layer_spacing o) g4) as [g5|] eqn:P5; cbn [bind] in H; [|discriminate].
  injection H as Hg' Hx.
  assert (OC : order_contract g3 g3').
  { apply (WM g1 g2 g3) with (x := cx); [rewrite <- Eg0; exact P1|exact P2|exact BR|exact WE]. }
  destruct (stage45_ok_x bk (o_layer_spacing o) (o_p4 o) (p4_params o) (o_p5 o) g1 g2 g3 k g3' g4 g5 S23 BR OC eq_refl P4 O5 P5)
    as (gm & routes & M & S45).
  exists g0, del, g1, g2, g3, k, g3', cx, g4, gm, routes, g5.
  constructor; try assumption; symmetry; assumption.
Qed.
Print Assumptions pipeline_backbone_x.

(* with the ordering premise discharged (WholeBridge.wm_premise_holds) *)
Theorem pipeline_backbone_Fx : forall bk o g g' x,
  component_input g -> modelled_p5 (o_p5 o) -> ns_premise o g -> layout_component_x bk o g = Ok (g', x) ->
  exists g0 del g1 g2 g3 k g3' cx g4 gm routes g5, backbone_x bk o g g' x g0 del g1 g2 g3 k g3' cx g4 gm routes g5.
Proof. intros bk o g g' x CI O5 NS H. apply pipeline_backbone_x; try assumption. apply wm_premise_holds; assumption. Qed.

(* the requested form: the Brandes-Koepf positioner *)
Corollary pipeline_backbone_bk : forall bk o g g' x,
  component_input g -> o_p4 o = OtherPositioner -> modelled_p5 (o_p5 o) -> wm_premise o g -> ns_premise o g ->
  layout_component_x bk o g = Ok (g', x) ->
  exists g0 del g1 g2 g3 k g3' cx g4 gm routes g5,
    backbone_x bk o g g' x g0 del g1 g2 g3 k g3' cx g4 gm routes g5 /\
    phase4_bk bk (p4_params o) g3' = Ok g4.
Proof.
  intros bk o g g' x CI O4 O5 WM NS H.
  destruct (pipeline_backbone_x bk o g g' x CI O5 WM NS H) as (g0 & del & g1 & g2 & g3 & k & g3' & cx & g4 & gm & routes & g5 & BB).
  exists g0, del, g1, g2, g3, k, g3', cx, g4, gm, routes, g5. split; [exact BB|].
  pose proof (xb_e4 _ _ _ _ _ _ _ _ _ _ _ _ _ _ _ _ _ BB) as P4. rewrite O4 in P4. exact P4.
Qed.
