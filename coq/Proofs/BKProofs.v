(* BKProofs.v — properties of the Brandes-Koepf positioner model (Model/BK.v).

   B1  SCALE EQUIVARIANCE: multiplying all node sizes and the spacing by the same positive rational c
       multiplies every resulting x by c and changes nothing else
       ([exec_bk_rel], [exec_bk_scale], [phase4_bk_rel], [phase4_bk_scale]).
   B2  FRAME: [exec_bk] only writes [n_x] of nodes and [l_h] of layers ([exec_bk_frame] and corollaries).

   Method for B1, as in Scale.v: the relation [graph_rel c g g'] ("g' is g scaled by c up to Qeq") is threaded
   through every step of the model. The discrete steps (markConflicts, verticalAlign) read no rational at all and are
   therefore *equal* on g and g'; the rational steps (horizontalCompaction, Size, balanceLayouts, verifyLayout, the
   final assignment) compute related values, and every comparison between rationals has the same outcome because
   both sides scale by c > 0. *)
From Autog Require Import Base Graph Phase4 BK Scale.
From Coq Require Import Lqa.
Local Open Scope Q_scope.

(* ================================================================================================ *)
(** * Generic helpers *)

Lemma bind_rel {A A' B B'} (R : A -> A' -> Prop) (S : B -> B' -> Prop) r r' f f' :
  res_rel R r r' -> (forall a a', R a a' -> res_rel S (f a) (f' a')) -> res_rel S (bind r f) (bind r' f').
Proof.
  intros Hr Hf. destruct r as [a|e], r' as [a'|e']; cbn in Hr |- *; try contradiction; auto.
Qed.

Lemma bind_rel_eq {A B B'} (S : B -> B' -> Prop) (r r' : res A) f f' :
  r' = r -> (forall a, res_rel S (f a) (f' a)) -> res_rel S (bind r f) (bind r' f').
Proof. intros -> Hf. destruct r as [a|e]; cbn; auto. Qed.

Lemma find_ext' {A} (f f' : A -> bool) l : (forall x, f x = f' x) -> find f l = find f' l.
Proof. intros Hf. induction l as [|x l IH]; cbn; auto. rewrite Hf, IH. reflexivity. Qed.

Lemma Forall2_combine_iota {A B} (R : A -> B -> Prop) l l' :
  Forall2 R l l' ->
  forall s, Forall2 (fun p p' => fst p' = fst p /\ R (snd p) (snd p')) (combine (iota s (length l)) l) (combine (iota s (length l')) l').
Proof. intros H. induction H; intros s; cbn; constructor; auto. Qed.

(* ================================================================================================ *)
(** * The discrete part of the model reads no rational: it is equal on related graphs *)

Section Discrete.
  Variables (c : Q) (g g' : graph).
  Hypothesis H : graph_rel c g g'.

  Lemma len_na_rel : length (g_na g') = length (g_na g).
  Proof. apply (Forall2_len _ _ _ (gr_na H)). Qed.

  Lemma len_L_rel : length (g_L g') = length (g_L g).
  Proof. apply (Forall2_len _ _ _ (gr_L H)). Qed.

  Lemma glayer_nodes_rel i : l_nodes (glayer g' i) = l_nodes (glayer g i).
  Proof. apply (lr_nodes (glayer_rel i H)). Qed.

  Lemma n_layer_rel n : n_layer (gnode g' n) = n_layer (gnode g n).
  Proof. apply (nr_layer (gnode_rel n H)). Qed.

  Lemma n_virt_rel n : n_virt (gnode g' n) = n_virt (gnode g n).
  Proof. apply (nr_virt (gnode_rel n H)). Qed.

  Lemma layer_at_map code (ls : list layer) z :
    (if (z <? 0)%Z then Err (ErrIndex code) else
     match nth_error ls (Z.to_nat z) with Some l => Ok (l_nodes l) | None => Err (ErrIndex code) end) =
    (if (z <? 0)%Z then Err (ErrIndex code) else
     match nth_error (map l_nodes ls) (Z.to_nat z) with Some l => Ok l | None => Err (ErrIndex code) end).
  Proof. rewrite nth_error_map. destruct (nth_error ls (Z.to_nat z)); reflexivity. Qed.

  Lemma layer_at_rel code z : layer_at code g' z = layer_at code g z.
  Proof. unfold layer_at. rewrite !layer_at_map, (map_l_nodes_rel (gr_L H)). reflexivity. Qed.

  Lemma iter_layers_rel vtop : iter_layers g' vtop = iter_layers g vtop.
  Proof. unfold iter_layers. rewrite len_L_rel, (map_l_nodes_rel (gr_L H)). reflexivity. Qed.

  Lemma next_in_rel code n ns hleft : next_in code g' n ns hleft = next_in code g n ns hleft.
  Proof. unfold next_in. rewrite (n_pos_rel n H). reflexivity. Qed.

  Lemma prev_in_rel code n ns hleft : prev_in code g' n ns hleft = prev_in code g n ns hleft.
  Proof. apply next_in_rel. Qed.

  Lemma bk_neigh_rel vtop n : bk_neigh g' vtop n = bk_neigh g vtop n.
  Proof.
    unfold bk_neigh. rewrite n_layer_rel, len_L_rel, (nr_out (gnode_rel n H)), (nr_in (gnode_rel n H)).
    destruct vtop.
    - destruct (_ <? _)%Z; auto. apply flat_map_ext. intros e.
      rewrite (viable_rel e H), (er_to (gedge_rel e H)). reflexivity.
    - destruct (_ <? _)%Z; auto. apply flat_map_ext. intros e.
      rewrite (viable_rel e H), (er_from (gedge_rel e H)). reflexivity.
  Qed.

  Lemma incident_to_inner_rel n : incident_to_inner g' n = incident_to_inner g n.
  Proof.
    unfold incident_to_inner. rewrite n_virt_rel, (nr_in (gnode_rel n H)).
    destruct (negb _); auto.
    rewrite (find_ext' (fun e => let f := e_from (gedge g' e) in
                                 n_virt (gnode g' f) && (layer_of g' f =? layer_of g' n - 1)%Z)
                       (fun e => let f := e_from (gedge g e) in
                                 n_virt (gnode g f) && (layer_of g f =? layer_of g n - 1)%Z)).
    - destruct (find _ _) as [e|]; auto.
      rewrite (er_from (gedge_rel e H)), (n_pos_rel _ H). reflexivity.
    - intros e. cbv zeta. rewrite (er_from (gedge_rel e H)), n_virt_rel, !(layer_of_rel _ H). reflexivity.
  Qed.

  Lemma mark_seg_rel k0 k1 ws marked : mark_seg g' k0 k1 ws marked = mark_seg g k0 k1 ws marked.
  Proof.
    unfold mark_seg. apply fold_left_ext. intros m w.
    rewrite (nr_in (gnode_rel w H)). apply fold_left_ext. intros m1 e.
    rewrite (viable_rel e H), (er_from (gedge_rel e H)), (n_pos_rel _ H). reflexivity.
  Qed.

  Lemma mark_layer_rel upper lower marked : mark_layer g' upper lower marked = mark_layer g upper lower marked.
  Proof.
    unfold mark_layer. f_equal. apply fold_left_ext. intros acc [l1 v].
    destruct acc as [[k0 m]|e]; cbn [bind]; auto.
    rewrite incident_to_inner_rel, bk_neigh_rel.
    destruct (_ || _); auto.
    destruct (0 <=? _)%Z.
    - destruct (bk_neigh g false v) as [|[u ?] ?]; cbn [bind]; auto.
      rewrite (n_pos_rel u H), mark_seg_rel. reflexivity.
    - cbn [bind]. rewrite mark_seg_rel. reflexivity.
  Qed.

  Lemma mark_conflicts_rel : mark_conflicts g' = mark_conflicts g.
  Proof.
    unfold mark_conflicts. rewrite len_L_rel. destruct (Nat.ltb _ 4); auto.
    apply fold_left_ext. intros acc i. destruct acc as [m|e]; cbn [bind]; auto.
    rewrite !glayer_nodes_rel. apply mark_layer_rel.
  Qed.

  Lemma va_node_rel marked vtop hleft st vk : va_node g' marked vtop hleft st vk = va_node g marked vtop hleft st vk.
  Proof.
    unfold va_node. rewrite bk_neigh_rel. destruct (Nat.eqb _ 0); auto.
    apply fold_left_ext. intros [[al rt] r] m.
    destruct (Nat.eqb _ vk); auto.
    destruct (nth m (bk_neigh g vtop vk) (0%nat, 0%nat)) as [u uv].
    rewrite (n_pos_rel u H). reflexivity.
  Qed.

  Lemma vertical_align_rel marked vtop hleft : vertical_align g' marked vtop hleft = vertical_align g marked vtop hleft.
  Proof.
    unfold vertical_align. rewrite len_na_rel, iter_layers_rel.
    apply fold_left_ext. intros ar l.
    rewrite (fold_left_ext (va_node g' marked vtop hleft) (va_node g marked vtop hleft)); auto.
    intros; apply va_node_rel.
  Qed.
End Discrete.
Arguments len_na_rel {c g g'} H.
Arguments len_L_rel {c g g'} H.
Arguments glayer_nodes_rel {c g g'} H i.
Arguments n_layer_rel {c g g'} H n.
Arguments n_virt_rel {c g g'} H n.
Arguments layer_at_rel {c g g'} H code z.
Arguments iter_layers_rel {c g g'} H vtop.
Arguments next_in_rel {c g g'} H code n ns hleft.
Arguments prev_in_rel {c g g'} H code n ns hleft.
Arguments bk_neigh_rel {c g g'} H vtop n.
Arguments mark_conflicts_rel {c g g'} H.
Arguments vertical_align_rel {c g g'} H marked vtop hleft.

(* ================================================================================================ *)
(** * Extended rationals ([option Q]) and the compaction state under scaling *)

Definition oq_rel (c : Q) (a a' : option Q) : Prop :=
  match a, a' with
  | None, None => True
  | Some x, Some x' => x' == c * x
  | _, _ => False
  end.
Definition oql_rel (c : Q) (l l' : list (option Q)) : Prop := Forall2 (oq_rel c) l l'.

Lemma xget_rel c l l' n : oql_rel c l l' -> xget l' n == c * xget l n.
Proof.
  intros Hl. unfold xget.
  assert (Hn : oq_rel c (nth n l None) (nth n l' None)) by (apply Forall2_nth_rel; cbn; auto).
  destruct (nth n l None), (nth n l' None); cbn in Hn; try contradiction; auto. ring.
Qed.

Lemma shget_rel c l l' n : oql_rel c l l' -> oq_rel c (shget l n) (shget l' n).
Proof. intros Hl. unfold shget. apply Forall2_nth_rel; cbn; auto. ring. Qed.

Lemma oset_nth_rel c l l' n a a' : oql_rel c l l' -> oq_rel c a a' -> oql_rel c (set_nth l n a) (set_nth l' n a').
Proof. intros Hl Ha. unfold set_nth. apply Forall2_upd; auto. Qed.

Lemma oql_repeat c a a' n : oq_rel c a a' -> oql_rel c (repeat a n) (repeat a' n).
Proof. intros Ha. induction n; cbn; constructor; auto. Qed.

Lemma sh_comb_rel c hleft a a' s s' :
  0 <= c -> oq_rel c a a' -> oq_rel c s s' -> oq_rel c (sh_comb hleft a s) (sh_comb hleft a' s').
Proof.
  intros Hc Ha Hs. destruct a, a', s, s'; cbn in Ha, Hs |- *; try contradiction; auto.
  destruct hleft; [apply Qmax'_rel|apply Qmin'_rel]; auto.
Qed.

Record bkc_rel (c : Q) (k k' : bkc) : Prop := mkBkcRel {
  br_sinks : bk_sinks k' = bk_sinks k;
  br_xshift : oql_rel c (bk_xshift k) (bk_xshift k');
  br_xcoord : oql_rel c (bk_xcoord k) (bk_xcoord k');
  br_xcinit : bk_xcinit k' = bk_xcinit k }.

Arguments br_sinks {c k k'} _.
Arguments br_xshift {c k k'} _.
Arguments br_xcoord {c k k'} _.
Arguments br_xcinit {c k k'} _.

Lemma set_sinks_rel c k k' l : bkc_rel c k k' -> bkc_rel c (set_sinks k l) (set_sinks k' l).
Proof. intros []. constructor; cbn; auto. Qed.
Lemma set_xshift_rel c k k' l l' : bkc_rel c k k' -> oql_rel c l l' -> bkc_rel c (set_xshift k l) (set_xshift k' l').
Proof. intros [] Hl. constructor; cbn; auto. Qed.
Lemma set_xcoord_rel c k k' l l' : bkc_rel c k k' -> oql_rel c l l' -> bkc_rel c (set_xcoord k l) (set_xcoord k' l').
Proof. intros [] Hl. constructor; cbn; auto. Qed.

(* ================================================================================================ *)
(** * horizontalCompaction *)

Section Compaction.
  Variables (c : Q) (g g' : graph) (s s' : Q) (hleft : bool) (al rt : list nat).
  Hypothesis Hc : 0 < c.
  Hypothesis H : graph_rel c g g'.
  Hypothesis Hs : s' == c * s.

  Let Hc0 : 0 <= c.
  Proof. lra. Qed.

  Lemma pb_loop1_rel rec rec' :
    (forall v k k', bkc_rel c k k' -> res_rel (bkc_rel c) (rec v k) (rec' v k')) ->
    forall fuel v w k k', bkc_rel c k k' ->
      res_rel (bkc_rel c) (pb_loop1 g hleft s al rt rec fuel v w k) (pb_loop1 g' hleft s' al rt rec' fuel v w k').
  Proof.
    intros Hrec. induction fuel as [|fu IH]; intros v w k k' Hk; cbn [pb_loop1].
    - cbn. reflexivity.
    - rewrite (n_layer_rel H).
      apply bind_rel_eq; [apply (layer_at_rel H)|]. intros ns.
      apply bind_rel_eq; [reflexivity|]. intros lst.
      apply bind_rel with (R := bkc_rel c).
      + destruct (Nat.eqb w lst); [exact Hk|].
        apply bind_rel_eq; [apply (next_in_rel H)|]. intros u.
        apply bind_rel with (R := bkc_rel c); [apply Hrec; auto|].
        intros k1 k1' Hk1.
        rewrite (br_sinks Hk1).
        set (k2 := if Nat.eqb (nget (bk_sinks k1) v) v then _ else k1).
        set (k2' := if Nat.eqb (nget (bk_sinks k1) v) v then _ else k1').
        assert (Hk2 : bkc_rel c k2 k2').
        { subst k2 k2'. destruct (Nat.eqb (nget (bk_sinks k1) v) v); auto. apply set_sinks_rel; auto. }
        clearbody k2 k2'. rewrite (br_sinks Hk2).
        destruct (Nat.eqb _ _); [|exact Hk2].
        cbn [res_rel]. apply set_xcoord_rel; auto. apply oset_nth_rel; [apply Hk2|].
        pose proof (xget_rel c _ _ v (br_xcoord Hk2)). pose proof (xget_rel c _ _ (nget rt u) (br_xcoord Hk2)).
        pose proof (nW_rel u H). pose proof (nW_rel v H).
        cbn [oq_rel]. destruct hleft; [apply Qmax'_rel|apply Qmin'_rel]; auto; lra.
      + intros k1 k1' Hk1. destruct (Nat.eqb (nget al w) v); [exact Hk1|]. apply IH; auto.
  Qed.

  Lemma pb_loop2_rel : forall fuel v w k k', bkc_rel c k k' ->
    res_rel (bkc_rel c) (pb_loop2 al fuel v w k) (pb_loop2 al fuel v w k').
  Proof.
    induction fuel as [|fu IH]; intros v w k k' Hk; cbn [pb_loop2].
    - cbn. reflexivity.
    - destruct (Nat.eqb (nget al w) v); [exact Hk|]. apply IH.
      assert (Hk1 : bkc_rel c (set_xcoord k (set_nth (bk_xcoord k) (nget al w) (Some (xget (bk_xcoord k) v))))
                              (set_xcoord k' (set_nth (bk_xcoord k') (nget al w) (Some (xget (bk_xcoord k') v))))).
      { apply set_xcoord_rel; auto. apply oset_nth_rel; [apply Hk|]. cbn. apply xget_rel. apply Hk. }
      rewrite (br_sinks Hk1). apply set_sinks_rel; auto.
  Qed.

  Lemma bk_place_block_rel F : forall fuel v k k', bkc_rel c k k' ->
    res_rel (bkc_rel c) (bk_place_block g hleft s al rt F fuel v k) (bk_place_block g' hleft s' al rt F fuel v k').
  Proof.
    induction fuel as [|fu IH]; intros v k k' Hk; cbn [bk_place_block].
    - cbn. reflexivity.
    - rewrite (br_xcinit Hk). destruct (nth v (bk_xcinit k) false); [exact Hk|].
      rewrite (br_sinks Hk).
      apply bind_rel with (R := bkc_rel c).
      + apply pb_loop1_rel; [intros; apply IH; auto|].
        constructor; cbn; auto; try apply Hk. apply oset_nth_rel; [apply Hk|]. cbn. ring.
      + intros k1 k1' Hk1. apply pb_loop2_rel; auto.
  Qed.

  Definition csres_rel (r r' : nat * nat * bkc) : Prop := fst r' = fst r /\ bkc_rel c (snd r) (snd r').

  Lemma cs_inner_rel : forall fuel v j k k', bkc_rel c k k' ->
    res_rel csres_rel (cs_inner g hleft s al rt fuel v j k) (cs_inner g' hleft s' al rt fuel v j k').
  Proof.
    induction fuel as [|fu IH]; intros v j k k' Hk; cbn [cs_inner].
    - cbn. reflexivity.
    - destruct (Nat.eqb (nget al v) (nget rt v)); [split; cbn; auto|].
      rewrite (n_layer_rel H).
      apply bind_rel_eq; [apply (layer_at_rel H)|]. intros ns.
      apply bind_rel_eq; [reflexivity|]. intros fst_.
      apply bind_rel with (R := bkc_rel c); [|intros; apply IH; auto].
      destruct (Nat.eqb (nget al v) fst_); [exact Hk|].
      apply bind_rel_eq; [apply (prev_in_rel H)|]. intros u.
      cbn [res_rel]. rewrite (br_sinks Hk).
      apply set_xshift_rel; auto. apply oset_nth_rel; [apply Hk|].
      apply sh_comb_rel; auto; [apply shget_rel; apply Hk|].
      pose proof (shget_rel c _ _ (nget (bk_sinks k) (nget al v)) (br_xshift Hk)) as Hsh.
      pose proof (xget_rel c _ _ (nget al v) (br_xcoord Hk)). pose proof (xget_rel c _ _ u (br_xcoord Hk)).
      pose proof (nW_rel u H).
      destruct (shget (bk_xshift k) _), (shget (bk_xshift k') _); cbn in Hsh; try contradiction;
        destruct hleft; cbn; auto; lra.
  Qed.

  Lemma cs_outer_rel F : forall fuel j z k k', bkc_rel c k k' ->
    res_rel (bkc_rel c) (cs_outer g hleft s al rt F fuel j z k) (cs_outer g' hleft s' al rt F fuel j z k').
  Proof.
    induction fuel as [|fu IH]; intros j z k k' Hk; cbn [cs_outer].
    - cbn. reflexivity.
    - rewrite (len_L_rel H). destruct (negb (Nat.ltb j _)); [exact Hk|].
      rewrite (glayer_nodes_rel H). destruct (negb (z <? _)%Z); [exact Hk|].
      apply bind_rel_eq; [reflexivity|]. intros vjk.
      apply bind_rel with (R := csres_rel); [apply cs_inner_rel; auto|].
      intros [[v1 j1] k1] [[v1' j1'] k1'] [Hvj Hk1]. cbn in Hvj, Hk1. injection Hvj as -> ->.
      rewrite (n_pos_rel v1 H). apply IH; auto.
  Qed.

  Lemma cs_layer_rel F k k' li ns : bkc_rel c k k' ->
    res_rel (bkc_rel c) (cs_layer g hleft s al rt F k li ns) (cs_layer g' hleft s' al rt F k' li ns).
  Proof.
    intros Hk. unfold cs_layer.
    apply bind_rel_eq; [reflexivity|]. intros n.
    rewrite (br_sinks Hk). destruct (negb _); [exact Hk|].
    apply cs_outer_rel.
    pose proof (shget_rel c _ _ (nget (bk_sinks k) n) (br_xshift Hk)) as Hsh.
    destruct (shget (bk_xshift k) _), (shget (bk_xshift k') _); cbn in Hsh; try contradiction; auto.
    apply set_xshift_rel; auto. apply oset_nth_rel; [apply Hk|]. cbn. ring.
  Qed.

  Theorem horizontal_compaction_rel vtop :
    res_rel (oql_rel c) (horizontal_compaction g s vtop hleft al rt) (horizontal_compaction g' s' vtop hleft al rt).
  Proof.
    unfold horizontal_compaction. rewrite (len_na_rel H), (gr_N H), (iter_layers_rel H).
    set (na := length (g_na g)). set (F := (2 * na + 4)%nat).
    apply bind_rel with (R := bkc_rel c).
    - apply fold_left_rel.
      + intros acc acc' l Hacc. apply fold_left_rel; auto.
        intros a a' n Ha. apply bind_rel with (R := bkc_rel c); auto.
        intros k k' Hk. destruct (Nat.eqb (nget rt n) n); [|exact Hk]. apply bk_place_block_rel; auto.
      + cbn [res_rel]. constructor; cbn; auto.
        * apply fold_left_rel; [|apply oql_repeat; cbn; ring].
          intros a a' n Ha. apply oset_nth_rel; cbn; auto.
        * apply oql_repeat. cbn. auto.
    - intros k k' Hk.
      apply bind_rel with (R := bkc_rel c).
      + apply fold_left_rel; [|exact Hk].
        intros acc acc' l Hacc. apply bind_rel with (R := bkc_rel c); auto.
        intros k1 k1' Hk1. apply cs_layer_rel; auto.
      + intros k1 k1' Hk1. cbn [res_rel]. rewrite (br_sinks Hk1).
        apply fold_left_rel; [|apply Hk1].
        intros xc xc' n Hxc.
        pose proof (shget_rel c _ _ (nget (bk_sinks k1) n) (br_xshift Hk1)) as Hsh.
        destruct (shget (bk_xshift k1) _), (shget (bk_xshift k1') _); cbn in Hsh; try contradiction; auto.
        apply oset_nth_rel; auto. cbn. pose proof (xget_rel c _ _ n Hxc). lra.
  Qed.
End Compaction.

(* ================================================================================================ *)
(** * One layout, Size, balanceLayouts, verifyLayout *)

Lemma bk_layout_rel c g g' s s' marked i :
  0 < c -> graph_rel c g g' -> s' == c * s ->
  res_rel (oql_rel c) (bk_layout g marked s i) (bk_layout g' marked s' i).
Proof.
  intros Hc H Hs. unfold bk_layout. rewrite (vertical_align_rel H).
  destruct (vertical_align g marked (layout_v i) (layout_h i)) as [al rt].
  apply horizontal_compaction_rel; auto.
Qed.

Definition q3_rel (c : Q) (t t' : Q * Q * Q) : Prop :=
  fst (fst t') == c * fst (fst t) /\ snd (fst t') == c * snd (fst t) /\ snd t' == c * snd t.

Definition oq3_rel (c : Q) (a a' : option (Q * Q * Q)) : Prop :=
  match a, a' with
  | None, None => True
  | Some t, Some t' => q3_rel c t t'
  | _, _ => False
  end.

Lemma bk_size_rel c g g' xc xc' :
  0 <= c -> graph_rel c g g' -> oql_rel c xc xc' -> oq3_rel c (bk_size g xc) (bk_size g' xc').
Proof.
  intros Hc H Hxc. unfold bk_size.
  set (P := fun (a a' : option (Q * Q)) =>
              match a, a' with
              | None, None => True
              | Some (mn, mx), Some (mn', mx') => mn' == c * mn /\ mx' == c * mx
              | _, _ => False
              end).
  pose (F := fun g (acc : option (Q * Q)) (p : nat * option Q) =>
              match snd p with
              | None => acc
              | Some x =>
                  let r := x + nW g (fst p) in
                  match acc with
                  | None => Some (x, r)
                  | Some (mn, mx) => Some (Qmin' mn x, Qmax' mx r)
                  end
              end).
  change (fold_left _ (combine (iota 0 (length xc)) xc) None) with (fold_left (F g) (combine (iota 0 (length xc)) xc) None).
  change (fold_left _ (combine (iota 0 (length xc')) xc') None) with (fold_left (F g') (combine (iota 0 (length xc')) xc') None).
  assert (HP : P (fold_left (F g) (combine (iota 0 (length xc)) xc) None)
                 (fold_left (F g') (combine (iota 0 (length xc')) xc') None)).
  { apply fold_left_rel2 with (R := fun (p p' : nat * option Q) => fst p' = fst p /\ oq_rel c (snd p) (snd p')).
    - apply Forall2_combine_iota. exact Hxc.
    - intros a a' [n x] [n' x'] Ha [Hn Hx]. cbn in Hn, Hx. subst n'. unfold F. cbn [fst snd].
      destruct x as [x|], x' as [x'|]; cbn in Hx; try contradiction; auto.
      pose proof (nW_rel n H).
      destruct a as [[mn mx]|], a' as [[mn' mx']|]; cbn in Ha |- *; try contradiction.
      + destruct Ha. split; [apply Qmin'_rel|apply Qmax'_rel]; auto. lra.
      + split; auto. lra.
    - cbn. auto. }
  destruct (fold_left (F g) _ None) as [[mn mx]|], (fold_left (F g') _ None) as [[mn' mx']|];
    cbn in HP |- *; try contradiction; auto.
  destruct HP. unfold q3_rel; cbn. repeat split; auto. lra.
Qed.

Lemma bk_width_rel c g g' xc xc' :
  0 <= c -> graph_rel c g g' -> oql_rel c xc xc' -> oq_rel c (bk_width g xc) (bk_width g' xc').
Proof.
  intros Hc H Hxc. unfold bk_width. pose proof (bk_size_rel c g g' xc xc' Hc H Hxc) as Hsz.
  destruct (bk_size g xc), (bk_size g' xc'); cbn in Hsz |- *; try contradiction; auto. apply Hsz.
Qed.

Lemma wlt_rel c a a' b b' : 0 < c -> oq_rel c a a' -> oq_rel c b b' -> wlt a' b' = wlt a b.
Proof.
  intros Hc Ha Hb. destruct a, a', b, b'; cbn in Ha, Hb |- *; try contradiction; auto.
  apply Qlt_bool_rel with (c := c); auto.
Qed.

(** insertion sort on [Qle_bool] commutes with scaling by c > 0 *)
Lemma insert_sorted_rel c x x' l l' :
  0 < c -> x' == c * x -> qlist_rel c l l' ->
  qlist_rel c (insert_sorted Qle_bool x l) (insert_sorted Qle_bool x' l').
Proof.
  intros Hc Hx Hl. induction Hl as [|y y' l l' Hy Hl IH]; cbn.
  - constructor; [exact Hx|constructor].
  - rewrite (Qle_bool_rel c x x' y y'); auto.
    destruct (Qle_bool x y); [constructor; [exact Hx|constructor; auto]|constructor; auto].
Qed.

Lemma isort_rel c l l' : 0 < c -> qlist_rel c l l' -> qlist_rel c (isort Qle_bool l) (isort Qle_bool l').
Proof.
  intros Hc Hl. induction Hl as [|y y' l l' Hy Hl IH]; cbn.
  - constructor.
  - apply insert_sorted_rel; auto.
Qed.

Lemma balance_layouts_rel c g g' xcs xcs' :
  0 < c -> graph_rel c g g' -> Forall2 (oql_rel c) xcs xcs' ->
  res_rel (oql_rel c) (balance_layouts g xcs) (balance_layouts g' xcs').
Proof.
  intros Hc H Hxcs. assert (Hc0 : 0 <= c) by lra.
  unfold balance_layouts. rewrite (len_na_rel H), (gr_N H).
  destruct (g_N g) as [|n0 N0] eqn:EN.
  - cbn. apply oql_repeat. cbn. auto.
  - rewrite <- EN. clear EN n0 N0.
    apply bind_rel with (R := Forall2 (q3_rel c)).
    + induction Hxcs as [|xc xc' xcs xcs' Hxc Hxcs IH]; cbn [fold_right]; [constructor|].
      apply bind_rel with (R := Forall2 (q3_rel c)); auto.
      intros l l' Hl. pose proof (bk_size_rel c g g' xc xc' Hc0 H Hxc) as Hsz.
      destruct (bk_size g xc), (bk_size g' xc'); cbn in Hsz |- *; try contradiction; auto.
    + intros szs szs' Hszs. cbn [res_rel].
      assert (Hsz : forall i, q3_rel c (nth i szs (0, 0, 0)) (nth i szs' (0, 0, 0))).
      { intros i. apply Forall2_nth_rel; auto. unfold q3_rel; cbn. repeat split; ring. }
      set (least := fold_left _ (iota 0 4) 0%nat).
      set (least' := fold_left _ (iota 0 4) 0%nat).
      assert (Hleast : least' = least).
      { subst least least'. apply (fold_left_rel (fun a a' : nat => a' = a)); auto. intros lw lw' i Hlw. subst lw'.
        rewrite (Qlt_bool_rel c (fst (fst (nth i szs (0, 0, 0)))) (fst (fst (nth i szs' (0, 0, 0))))
                              (fst (fst (nth lw szs (0, 0, 0)))) (fst (fst (nth lw szs' (0, 0, 0))))); auto;
          apply Hsz. }
      rewrite Hleast. clearbody least. clear least' Hleast.
      apply fold_left_rel; [|apply oql_repeat; cbn; auto].
      intros mx mx' n Hmx. apply oset_nth_rel; auto. cbn [oq_rel].
      set (xs' := isort Qle_bool _). set (xs := isort Qle_bool _).
      assert (Hxs : qlist_rel c xs xs').
      { subst xs xs'. apply isort_rel; auto.
        apply Forall2_map2 with (R := eq); [apply Forall2_refl_In; auto|].
        intros i ? <-.
        assert (Hx : xget (nth i xcs' []) n == c * xget (nth i xcs []) n).
        { apply xget_rel. apply Forall2_nth_rel; auto. constructor. }
        destruct (Hsz i) as (_ & Hmn & Hmxx). destruct (Hsz least) as (_ & Hlmn & Hlmx).
        destruct (Nat.odd i); lra. }
      pose proof (qget_rel 1 Hxs) as H1. pose proof (qget_rel 2 Hxs) as H2. unfold qget in H1, H2.
      unfold Qdiv. rewrite H1, H2. ring.
Qed.

Lemma verify_layer_rel c g g' s s' xc xc' ns :
  0 < c -> graph_rel c g g' -> s' == c * s -> oql_rel c xc xc' ->
  verify_layer g' s' xc' ns = verify_layer g s xc ns.
Proof.
  intros Hc H Hs Hxc. unfold verify_layer.
  set (P := fun (a a' : option (option Q)) =>
              match a, a' with
              | None, None => True
              | Some p, Some p' => oq_rel c p p'
              | _, _ => False
              end).
  pose (F := fun g s xc (acc : option (option Q)) (n : nat) =>
           match acc with
           | None => None
           | Some pos =>
               let lf := xget xc n in
               let r := xget xc n + nW g n + s in
               if match pos with None => true | Some p => Qlt_bool p lf && Qlt_bool p r end
               then Some (Some r) else None
           end).
  change (fold_left _ ns (Some None)) with (fold_left (F g' s' xc') ns (Some None)) at 1.
  change (fold_left _ ns (Some None)) with (fold_left (F g s xc) ns (Some None)) at 2.
  assert (HP : P (fold_left (F g s xc) ns (Some None)) (fold_left (F g' s' xc') ns (Some None))).
  { apply fold_left_rel; [|cbn; auto].
    intros a a' n Ha. unfold F.
    destruct a as [pos|], a' as [pos'|]; cbn in Ha |- *; try contradiction; auto.
    pose proof (xget_rel c _ _ n Hxc). pose proof (nW_rel n H).
    assert (Hr : xget xc' n + nW g' n + s' == c * (xget xc n + nW g n + s)) by lra.
    destruct pos as [p|], pos' as [p'|]; cbn in Ha; try contradiction; cbn; auto.
    rewrite (Qlt_bool_rel c p p' (xget xc n) (xget xc' n)); auto.
    rewrite (Qlt_bool_rel c p p' (xget xc n + nW g n + s) (xget xc' n + nW g' n + s')); auto.
    destruct (_ && _); cbn; auto. }
  destruct (fold_left (F g s xc) ns (Some None)), (fold_left (F g' s' xc') ns (Some None)); cbn in HP; try contradiction; auto.
Qed.

Lemma verify_layout_rel c g g' s s' xc xc' :
  0 < c -> graph_rel c g g' -> s' == c * s -> oql_rel c xc xc' ->
  verify_layout g' s' xc' = verify_layout g s xc.
Proof.
  intros Hc H Hs Hxc. unfold verify_layout.
  pose proof (gr_L H) as HL. induction HL as [|l l' L L' Hl HL IH]; cbn; auto.
  rewrite IH, (lr_nodes Hl). f_equal. apply verify_layer_rel with (c := c); auto.
Qed.

(* ================================================================================================ *)
(** * exec_bk, decomposed into named stages *)

Definition bk_pick (g : graph) (spacing : Q) (bal : list (option Q)) (xcs : list (list (option Q))) : list (option Q) :=
  snd (fold_left (fun (acc : option Q * list (option Q)) xc =>
                    if verify_layout g spacing xc then
                      let w := bk_width g xc in
                      if wlt w (fst acc) then (w, xc) else acc
                    else acc) xcs (bk_width g bal, bal)).

Definition bk_final (variant : Z) (spacing : Q) (g : graph) (xcs : list (list (option Q))) : res (list (option Q)) :=
  if (0 <=? variant)%Z && (variant <? 4)%Z then Ok (nth (Z.to_nat variant) xcs [])
  else
    do bal <- balance_layouts g xcs;
    if verify_layout g spacing bal then Ok bal else Ok (bk_pick g spacing bal xcs).

(* n.X = finalLayout[n] *)
Definition bk_setx (g : graph) (final : list (option Q)) : graph :=
  fold_left (fun g n => upd_node g n (set_x (xget final n))) (flat_map l_nodes (g_L g)) g.

Definition bk_lmargin (g : graph) (final : list (option Q)) : Q :=
  fold_left (fun m n => Qmin' m (xget final n)) (flat_map l_nodes (g_L g)) 0.

(* l.H *)
Definition bk_seth (g : graph) : graph :=
  with_L g (map (fun l => set_layer_h (layer_height g (l_nodes l) (l_h l)) l) (g_L g)).

(* normalize negative xs *)
Definition bk_norm (lmargin : Q) (g : graph) : graph :=
  if Qlt_bool lmargin 0
  then fold_left (fun g n => upd_node g n (fun nd => set_x (n_x nd + - lmargin) nd)) (g_N g) g
  else g.

(* final adjustment of overlaps *)
Definition bk_adjust_step (spacing : Q) (acc : graph * option nat) (w : nat) : graph * option nat :=
  let '(g, prev) := acc in
  match prev with
  | None => (g, Some w)
  | Some v =>
      let vx := nX g v in
      let wx := nX g w in
      if Qlt_bool vx wx && Qlt_bool wx (vx + nW g v)
      then (upd_node g w (set_x (wx + (vx + nW g v + spacing - wx))), Some w)
      else (g, Some w)
  end.

Definition bk_adjust (spacing : Q) (g : graph) : graph :=
  fold_left (fun g l => fst (fold_left (bk_adjust_step spacing) (l_nodes l) (g, None))) (g_L g) g.

Definition bk_assign (spacing : Q) (g : graph) (final : list (option Q)) : graph :=
  bk_adjust spacing (bk_norm (bk_lmargin g final) (bk_seth (bk_setx g final))).

Lemma exec_bk_eq variant spacing g :
  exec_bk variant spacing g =
  match g_L g with
  | [] => Ok g
  | _ =>
    do marked <- mark_conflicts g;
    do x0 <- bk_layout g marked spacing 0;
    do x1 <- bk_layout g marked spacing 1;
    do x2 <- bk_layout g marked spacing 2;
    do x3 <- bk_layout g marked spacing 3;
    do final <- bk_final variant spacing g [x0; x1; x2; x3];
    Ok (bk_assign spacing g final)
  end.
Proof. reflexivity. Qed.

Section Assign.
  Variables (c : Q) (g g' : graph) (s s' : Q).
  Hypothesis Hc : 0 < c.
  Hypothesis H : graph_rel c g g'.
  Hypothesis Hs : s' == c * s.

  Let Hc0 : 0 <= c.
  Proof. lra. Qed.

  Lemma bk_pick_rel bal bal' xcs xcs' :
    oql_rel c bal bal' -> Forall2 (oql_rel c) xcs xcs' ->
    oql_rel c (bk_pick g s bal xcs) (bk_pick g' s' bal' xcs').
  Proof.
    intros Hbal Hxcs. unfold bk_pick.
    set (P := fun (a a' : option Q * list (option Q)) => oq_rel c (fst a) (fst a') /\ oql_rel c (snd a) (snd a')).
    apply (fold_left_rel2 P (oql_rel c)); auto.
    - intros [w xc] [w' xc'] x x' [Hw Hxc] Hx. cbn [fst snd] in *.
      rewrite (verify_layout_rel c g g' s s' x x'); auto.
      destruct (verify_layout g s x); [|split; auto].
      pose proof (bk_width_rel c g g' x x' Hc0 H Hx) as Hbw.
      rewrite (wlt_rel c (bk_width g x) (bk_width g' x') w w'); auto.
      destruct (wlt _ _); split; auto.
    - split; cbn [fst snd]; auto. apply bk_width_rel; auto.
  Qed.

  Lemma bk_final_rel variant xcs xcs' :
    Forall2 (oql_rel c) xcs xcs' ->
    res_rel (oql_rel c) (bk_final variant s g xcs) (bk_final variant s' g' xcs').
  Proof.
    intros Hxcs. unfold bk_final. destruct (_ && _).
    - cbn. apply Forall2_nth_rel; auto. constructor.
    - apply bind_rel with (R := oql_rel c); [apply balance_layouts_rel; auto|].
      intros bal bal' Hbal. rewrite (verify_layout_rel c g g' s s' bal bal'); auto.
      destruct (verify_layout g s bal); cbn; auto. apply bk_pick_rel; auto.
  Qed.

  Lemma bk_setx_rel final final' : oql_rel c final final' -> graph_rel c (bk_setx g final) (bk_setx g' final').
  Proof.
    intros Hf. unfold bk_setx. rewrite (flat_nodes_rel (gr_L H)).
    apply fold_left_rel; auto. intros a a' n Ha. apply upd_node_rel; auto.
    intros nd nd' Hnd. apply set_x_rel; auto. apply xget_rel; auto.
  Qed.

  Lemma bk_lmargin_rel final final' : oql_rel c final final' -> bk_lmargin g' final' == c * bk_lmargin g final.
  Proof.
    intros Hf. unfold bk_lmargin. rewrite (flat_nodes_rel (gr_L H)).
    apply (fold_left_rel (fun a a' : Q => a' == c * a)); [|ring].
    intros a a' n Ha. apply Qmin'_rel; auto. apply xget_rel; auto.
  Qed.
End Assign.

Lemma bk_seth_rel c g g' : 0 <= c -> graph_rel c g g' -> graph_rel c (bk_seth g) (bk_seth g').
Proof.
  intros Hc H. unfold bk_seth. apply with_L_rel; auto.
  apply Forall2_map2 with (R := layer_rel c); [apply H|].
  intros l l' [Hn Hw Hh]. constructor; cbn [set_layer_h l_nodes l_w l_h]; auto.
  rewrite Hn. apply layer_height_rel; auto.
Qed.

Lemma bk_norm_rel c g g' m m' : 0 < c -> graph_rel c g g' -> m' == c * m -> graph_rel c (bk_norm m g) (bk_norm m' g').
Proof.
  intros Hc H Hm. unfold bk_norm.
  rewrite (Qlt_bool_rel c m m' 0 0); auto; [|ring].
  destruct (Qlt_bool m 0); auto. rewrite (gr_N H).
  apply fold_left_rel; auto. intros a a' n Ha. apply upd_node_rel; auto.
  intros nd nd' Hnd. apply set_x_rel; auto. destruct Hnd. lra.
Qed.

Lemma bk_adjust_rel c g g' s s' : 0 < c -> graph_rel c g g' -> s' == c * s -> graph_rel c (bk_adjust s g) (bk_adjust s' g').
Proof.
  intros Hc H Hs. unfold bk_adjust.
  apply (fold_left_rel2 (graph_rel c) (layer_rel c)); auto; [apply H|].
  intros a a' l l' Ha Hl. rewrite (lr_nodes Hl).
  set (P := fun (x x' : graph * option nat) => graph_rel c (fst x) (fst x') /\ snd x' = snd x).
  enough (HP : P (fold_left (bk_adjust_step s) (l_nodes l) (a, None)) (fold_left (bk_adjust_step s') (l_nodes l) (a', None)))
    by apply HP.
  apply fold_left_rel; [|split; auto].
  intros [b prev] [b' prev'] w [Hb Hp]. cbn [fst snd] in Hb, Hp. subst prev'. unfold bk_adjust_step.
  destruct prev as [v|]; [|split; auto].
  pose proof (nX_rel v Hb). pose proof (nX_rel w Hb). pose proof (nW_rel v Hb).
  rewrite (Qlt_bool_rel c (nX b v) (nX b' v) (nX b w) (nX b' w)); auto.
  rewrite (Qlt_bool_rel c (nX b w) (nX b' w) (nX b v + nW b v) (nX b' v + nW b' v)); auto; [|lra].
  destruct (_ && _); split; cbn [fst snd]; auto.
  apply upd_node_rel; auto. intros nd nd' Hnd. apply set_x_rel; auto. lra.
Qed.

Lemma bk_assign_rel c g g' s s' final final' :
  0 < c -> graph_rel c g g' -> s' == c * s -> oql_rel c final final' ->
  graph_rel c (bk_assign s g final) (bk_assign s' g' final').
Proof.
  intros Hc H Hs Hf. assert (Hc0 : 0 <= c) by lra. unfold bk_assign.
  apply bk_adjust_rel; auto. apply bk_norm_rel; auto.
  - apply bk_seth_rel; auto. apply bk_setx_rel; auto.
  - apply bk_lmargin_rel; auto.
Qed.

(* ================================================================================================ *)
(** * B1: scale equivariance of Brandes-Koepf *)

Theorem exec_bk_rel c variant s s' g g' :
  0 < c -> graph_rel c g g' -> s' == c * s ->
  res_rel (graph_rel c) (exec_bk variant s g) (exec_bk variant s' g').
Proof.
  intros Hc H Hs. rewrite !exec_bk_eq.
  pose proof (gr_L H) as HL.
  destruct HL as [|l l' L L' Hl HL]; [exact H|].
  apply bind_rel_eq; [apply (mark_conflicts_rel H)|]. intros marked.
  apply bind_rel with (R := oql_rel c); [apply bk_layout_rel; auto|]. intros x0 x0' Hx0.
  apply bind_rel with (R := oql_rel c); [apply bk_layout_rel; auto|]. intros x1 x1' Hx1.
  apply bind_rel with (R := oql_rel c); [apply bk_layout_rel; auto|]. intros x2 x2' Hx2.
  apply bind_rel with (R := oql_rel c); [apply bk_layout_rel; auto|]. intros x3 x3' Hx3.
  apply bind_rel with (R := oql_rel c).
  - apply bk_final_rel; auto; repeat constructor; auto.
  - intros final final' Hf. cbn [res_rel]. apply bk_assign_rel; auto.
Qed.
Print Assumptions exec_bk_rel.

Theorem exec_bk_scale c variant s g :
  0 < c -> res_equiv (exec_bk variant (c * s) (scale_graph c g)) (map_res (scale_graph c) (exec_bk variant s g)).
Proof. intros Hc. apply res_rel_iff, exec_bk_rel; auto using graph_rel_scale. reflexivity. Qed.
Print Assumptions exec_bk_scale.

Theorem exec_bk_scale_ok c variant s g g1 :
  0 < c -> exec_bk variant s g = Ok g1 ->
  exists g2, exec_bk variant (c * s) (scale_graph c g) = Ok g2 /\ graph_equiv g2 (scale_graph c g1).
Proof.
  intros Hc Hok. pose proof (exec_bk_scale c variant s g Hc) as H. rewrite Hok in H.
  destruct (exec_bk variant (c * s) (scale_graph c g)) as [g2|]; cbn in H; [|contradiction].
  exists g2; auto.
Qed.

(** reading of [exec_bk_scale_ok]: every x is multiplied by c, the discrete node data and the layer node lists are unchanged *)
Theorem exec_bk_scale_x c variant s g g1 :
  0 < c -> exec_bk variant s g = Ok g1 ->
  exists g2, exec_bk variant (c * s) (scale_graph c g) = Ok g2 /\
    (forall n, nX g2 n == c * nX g1 n) /\
    (forall n, nY g2 n == c * nY g1 n /\ nW g2 n == c * nW g1 n /\ nH g2 n == c * nH g1 n /\
               n_layer (gnode g2 n) = n_layer (gnode g1 n) /\ n_pos (gnode g2 n) = n_pos (gnode g1 n)) /\
    map l_nodes (g_L g2) = map l_nodes (g_L g1) /\
    (forall k, l_h (glayer g2 k) == c * l_h (glayer g1 k)).
Proof.
  intros Hc Hok. destruct (exec_bk_scale_ok c variant s g g1 Hc Hok) as (g2 & E2 & Heq).
  exists g2. split; auto. apply graph_rel_iff in Heq.
  split; [intros n; apply (nX_rel n Heq)|].
  split; [intros n; repeat split; [apply (nY_rel n Heq)|apply (nW_rel n Heq)|apply (nH_rel n Heq)|
                                   apply (nr_layer (gnode_rel n Heq))|apply (nr_pos (gnode_rel n Heq))]|].
  split; [apply (map_l_nodes_rel (gr_L Heq))|].
  intros k. apply (lr_h (glayer_rel k Heq)).
Qed.
Print Assumptions exec_bk_scale_x.

Theorem phase4_bk_rel c variant p p' g g' :
  0 < c -> graph_rel c g g' ->
  node_spacing p' == c * node_spacing p -> layer_spacing p' == c * layer_spacing p ->
  res_rel (graph_rel c) (phase4_bk variant p g) (phase4_bk variant p' g').
Proof.
  intros Hc H Hns Hls. unfold phase4_bk. rewrite (gr_N H).
  destruct (Nat.eqb (length (g_N g)) 1).
  - apply phase4_rel; auto. discriminate.
  - apply bind_rel with (R := graph_rel c); [apply exec_bk_rel; auto|].
    intros g1 g1' Hg1. cbn [res_rel]. apply assign_y_rel; auto.
Qed.
Print Assumptions phase4_bk_rel.

Theorem phase4_bk_scale c variant p g :
  0 < c ->
  res_equiv (phase4_bk variant (scale_p4 c p) (scale_graph c g)) (map_res (scale_graph c) (phase4_bk variant p g)).
Proof.
  intros Hc. apply res_rel_iff, phase4_bk_rel; auto using graph_rel_scale; cbn; reflexivity.
Qed.
Print Assumptions phase4_bk_scale.

(* ================================================================================================ *)
(** * B2: frame — [exec_bk] only writes [n_x] of nodes and [l_h] of layers *)

(** [b] is [a] up to [n_x] *)
Definition node_frame (a b : node) : Prop := set_x 0 b = set_x 0 a.

Record bk_frame (g g' : graph) : Prop := mkBkFrame {
  bf_ea : g_ea g' = g_ea g;
  bf_N : g_N g' = g_N g;
  bf_E : g_E g' = g_E g;
  bf_na : Forall2 node_frame (g_na g) (g_na g');
  (* exactly what the model does: H of every layer is raised to the tallest node of the layer *)
  bf_L : g_L g' = map (fun l => set_layer_h (layer_height g (l_nodes l) (l_h l)) l) (g_L g) }.

(** intermediate invariant: only x has been written so far *)
Record xframe (g a : graph) : Prop := mkXFrame {
  xf_ea : g_ea a = g_ea g;
  xf_N : g_N a = g_N g;
  xf_E : g_E a = g_E g;
  xf_L : g_L a = g_L g;
  xf_na : Forall2 node_frame (g_na g) (g_na a) }.

Lemma node_frame_refl a : node_frame a a.
Proof. reflexivity. Qed.

Lemma node_frame_set_x a b q : node_frame a b -> node_frame a (set_x q b).
Proof. unfold node_frame. intros <-. reflexivity. Qed.

Lemma node_frame_trans a b d : node_frame a b -> node_frame b d -> node_frame a d.
Proof. unfold node_frame. congruence. Qed.

Lemma Forall2_upd_r {A B} (R : A -> B -> Prop) l l' i f :
  Forall2 R l l' -> (forall a b, R a b -> R a (f b)) -> Forall2 R l (upd l' i f).
Proof. intros H Hf; revert i; induction H; intros [|i]; cbn; constructor; auto. Qed.

Lemma Forall2_trans' {A} (R : A -> A -> Prop) l1 l2 l3 :
  (forall a b d, R a b -> R b d -> R a d) -> Forall2 R l1 l2 -> Forall2 R l2 l3 -> Forall2 R l1 l3.
Proof.
  intros HR H12; revert l3; induction H12; intros l3 H23; inversion H23; subst; constructor; eauto.
Qed.

Lemma xframe_refl g : xframe g g.
Proof. constructor; auto. apply Forall2_refl_In. apply node_frame_refl. Qed.

Lemma xframe_upd g a n f :
  xframe g a -> (forall nd, node_frame nd (f nd)) -> xframe g (upd_node a n f).
Proof.
  intros [] Hf. constructor; cbn; auto.
  apply Forall2_upd_r; auto. intros x y Hxy. eapply node_frame_trans; eauto.
Qed.

Lemma xframe_trans g a b : xframe g a -> xframe a b -> xframe g b.
Proof.
  intros [] []. constructor; try congruence.
  eapply Forall2_trans'; eauto using node_frame_trans.
Qed.

Lemma fold_left_inv {A X} (P : A -> Prop) (f : A -> X -> A) l :
  (forall a x, P a -> P (f a x)) -> forall a, P a -> P (fold_left f l a).
Proof. intros Hf. induction l as [|x l IH]; cbn; auto. Qed.

Lemma bk_setx_frame g final : xframe g (bk_setx g final).
Proof.
  unfold bk_setx. apply fold_left_inv; [|apply xframe_refl].
  intros a n Ha. apply xframe_upd; auto. intros nd. apply node_frame_set_x, node_frame_refl.
Qed.

Lemma bk_norm_frame m g : xframe g (bk_norm m g).
Proof.
  unfold bk_norm. destruct (Qlt_bool m 0); [|apply xframe_refl].
  apply fold_left_inv; [|apply xframe_refl].
  intros a n Ha. apply xframe_upd; auto. intros nd. apply node_frame_set_x, node_frame_refl.
Qed.

Lemma bk_adjust_frame s g : xframe g (bk_adjust s g).
Proof.
  unfold bk_adjust. apply fold_left_inv; [|apply xframe_refl].
  intros a l Ha.
  apply (fold_left_inv (fun acc : graph * option nat => xframe g (fst acc))); [|exact Ha].
  intros [b prev] w Hb. cbn [fst] in Hb. unfold bk_adjust_step.
  destruct prev as [v|]; [|exact Hb].
  destruct (_ && _); [|exact Hb]. cbn [fst].
  apply xframe_upd; auto. intros nd. apply node_frame_set_x, node_frame_refl.
Qed.

Lemma nth_node_frame l l' i : Forall2 node_frame l l' -> node_frame (nth i l node0) (nth i l' node0).
Proof. intros Hl. apply Forall2_nth_rel; auto. apply node_frame_refl. Qed.

Lemma node_frame_h a b : node_frame a b -> n_h b = n_h a.
Proof. unfold node_frame. intros Hab. apply (f_equal n_h) in Hab. exact Hab. Qed.

Lemma xframe_nH g a n : xframe g a -> nH a n = nH g n.
Proof. intros Ha. unfold nH, gnode. apply node_frame_h, nth_node_frame, Ha. Qed.

Lemma layer_height_ext g a ns h : (forall n, nH a n = nH g n) -> layer_height a ns h = layer_height g ns h.
Proof. intros Hn. unfold layer_height. apply fold_left_ext. intros x n. rewrite Hn. reflexivity. Qed.

Lemma bk_assign_frame s g final : bk_frame g (bk_assign s g final).
Proof.
  unfold bk_assign.
  pose proof (bk_setx_frame g final) as H1. set (g1 := bk_setx g final) in *.
  pose proof (xframe_trans _ _ _ (bk_norm_frame (bk_lmargin g final) (bk_seth g1))
                (bk_adjust_frame s (bk_norm (bk_lmargin g final) (bk_seth g1)))) as H2.
  set (g4 := bk_adjust s _) in *.
  destruct H1 as [E1 N1 EE1 L1 NA1], H2 as [E2 N2 EE2 L2 NA2]. unfold bk_seth in *. cbn in *.
  constructor; try congruence.
  - eapply Forall2_trans'; eauto using node_frame_trans.
  - rewrite L2, L1. apply map_ext. intros l. f_equal. apply layer_height_ext.
    intros n. apply xframe_nH. constructor; auto.
Qed.

Lemma bind_ok {A B} (r : res A) (f : A -> res B) b : bind r f = Ok b -> exists a, r = Ok a /\ f a = Ok b.
Proof. destruct r as [a|e]; cbn; [eauto|discriminate]. Qed.

Theorem exec_bk_frame variant s g g' : exec_bk variant s g = Ok g' -> bk_frame g g'.
Proof.
  rewrite exec_bk_eq. destruct (g_L g) as [|l L] eqn:EL.
  - intros Hg. injection Hg as <-. constructor; auto.
    + apply Forall2_refl_In. apply node_frame_refl.
    + rewrite EL. reflexivity.
  - intros Hg.
    apply bind_ok in Hg. destruct Hg as (marked & _ & Hg).
    apply bind_ok in Hg. destruct Hg as (x0 & _ & Hg).
    apply bind_ok in Hg. destruct Hg as (x1 & _ & Hg).
    apply bind_ok in Hg. destruct Hg as (x2 & _ & Hg).
    apply bind_ok in Hg. destruct Hg as (x3 & _ & Hg).
    apply bind_ok in Hg. destruct Hg as (final & _ & Hg).
    injection Hg as <-. apply bk_assign_frame.
Qed.
Print Assumptions exec_bk_frame.

(** ** consequences of the frame, field by field *)
Section FrameCorollaries.
  Variables (g g' : graph).
  Hypothesis HF : bk_frame g g'.

  Lemma bkf_len_na : length (g_na g') = length (g_na g).
  Proof. apply (Forall2_len _ _ _ (bf_na _ _ HF)). Qed.

  Lemma bkf_gnode n : set_x 0 (gnode g' n) = set_x 0 (gnode g n).
  Proof. apply (nth_node_frame _ _ n (bf_na _ _ HF)). Qed.

  Lemma bkf_node_fields n :
    n_in (gnode g' n) = n_in (gnode g n) /\ n_out (gnode g' n) = n_out (gnode g n) /\
    n_layer (gnode g' n) = n_layer (gnode g n) /\ n_pos (gnode g' n) = n_pos (gnode g n) /\
    n_virt (gnode g' n) = n_virt (gnode g n) /\ n_y (gnode g' n) = n_y (gnode g n) /\
    n_w (gnode g' n) = n_w (gnode g n) /\ n_h (gnode g' n) = n_h (gnode g n).
  Proof.
    pose proof (bkf_gnode n) as E.
    repeat split;
      [apply (f_equal n_in) in E|apply (f_equal n_out) in E|apply (f_equal n_layer) in E|apply (f_equal n_pos) in E|
       apply (f_equal n_virt) in E|apply (f_equal n_y) in E|apply (f_equal n_w) in E|apply (f_equal n_h) in E]; exact E.
  Qed.

  Lemma bkf_len_L : length (g_L g') = length (g_L g).
  Proof. rewrite (bf_L _ _ HF), map_length. reflexivity. Qed.

  Lemma bkf_layer_nodes : map l_nodes (g_L g') = map l_nodes (g_L g).
  Proof. rewrite (bf_L _ _ HF), map_map. reflexivity. Qed.

  Lemma bkf_layer_w : map l_w (g_L g') = map l_w (g_L g).
  Proof. rewrite (bf_L _ _ HF), map_map. reflexivity. Qed.

  Lemma bkf_glayer k :
    glayer g' k = set_layer_h (layer_height g (l_nodes (glayer g k)) (l_h (glayer g k))) (glayer g k).
  Proof.
    unfold glayer. rewrite (bf_L _ _ HF).
    change layer0 with ((fun l => set_layer_h (layer_height g (l_nodes l) (l_h l)) l) layer0) at 1.
    rewrite map_nth. reflexivity.
  Qed.

  Lemma bkf_glayer_fields k :
    l_nodes (glayer g' k) = l_nodes (glayer g k) /\ l_w (glayer g' k) = l_w (glayer g k) /\
    l_h (glayer g' k) = layer_height g (l_nodes (glayer g k)) (l_h (glayer g k)).
  Proof. rewrite bkf_glayer. cbn. auto. Qed.
End FrameCorollaries.

Lemma Qmax'_ge_l a b : a <= Qmax' a b.
Proof. unfold Qmax'. destruct (Qle_bool a b) eqn:E; [apply Qle_bool_iff in E; auto|lra]. Qed.
Lemma Qmax'_ge_r a b : b <= Qmax' a b.
Proof. unfold Qmax'. destruct (Qle_bool a b) eqn:E; [lra|apply Qle_bool_false in E; lra]. Qed.

Lemma layer_height_ge_init g ns : forall h, h <= layer_height g ns h.
Proof.
  unfold layer_height. induction ns as [|n ns IH]; cbn; intros h; [lra|].
  eapply Qle_trans; [apply (Qmax'_ge_l h (nH g n))|apply IH].
Qed.

Lemma layer_height_ge_node g ns : forall h n, In n ns -> nH g n <= layer_height g ns h.
Proof.
  induction ns as [|m ns IH]; intros h n Hin; [destruct Hin|].
  destruct Hin as [->|Hin].
  - change (layer_height g (n :: ns) h) with (layer_height g ns (Qmax' h (nH g n))).
    eapply Qle_trans; [apply (Qmax'_ge_r h (nH g n))|apply layer_height_ge_init].
  - change (layer_height g (m :: ns) h) with (layer_height g ns (Qmax' h (nH g m))). apply IH; auto.
Qed.

(** after Brandes-Koepf every layer is at least as high as each of its nodes (and never shrinks) *)
Theorem exec_bk_layer_h variant s g g' k :
  exec_bk variant s g = Ok g' ->
  l_h (glayer g k) <= l_h (glayer g' k) /\
  forall n, In n (l_nodes (glayer g' k)) -> nH g' n <= l_h (glayer g' k).
Proof.
  intros Hg. apply exec_bk_frame in Hg.
  destruct (bkf_glayer_fields g g' Hg k) as (Hn & _ & Hh). rewrite Hh, Hn. split.
  - apply layer_height_ge_init.
  - intros n Hin. unfold nH at 1. destruct (bkf_node_fields g g' Hg n) as (_ & _ & _ & _ & _ & _ & _ & ->).
    apply layer_height_ge_node; auto.
Qed.
Print Assumptions exec_bk_layer_h.

(* ================================================================================================ *)
(** * Examples *)

(** Six nodes in three layers: the long edge 0 -> (2, virtual) -> 4, and the short edges 0->3, 1->3, 3->5, 3->4. *)
Definition gB : graph :=
  mkGraph
    [ mkNode [] [0%nat; 2%nat] 0 0 false 0 0 30 20;
      mkNode [] [3%nat] 0 1 false 0 0 (45#2) 12;
      mkNode [0%nat] [1%nat] 1 0 true 0 0 0 0;
      mkNode [2%nat; 3%nat] [4%nat; 5%nat] 1 1 false 0 0 50 10;
      mkNode [1%nat; 5%nat] [] 2 0 false 0 0 (7#2) 15;
      mkNode [4%nat] [] 2 1 false 0 0 40 25 ]
    [ mkEdge 0 2 1 1 false false 0 [] false;
      mkEdge 2 4 1 1 false false 0 [] false;
      mkEdge 0 3 1 1 false false 0 [] false;
      mkEdge 1 3 1 1 false false 0 [] false;
      mkEdge 3 5 1 1 false false 0 [] false;
      mkEdge 3 4 1 1 false false 0 [] false ]
    [0%nat; 1%nat; 2%nat; 3%nat; 4%nat; 5%nat] [0%nat; 1%nat; 2%nat; 3%nat; 4%nat; 5%nat]
    [ mkLayer [0%nat; 1%nat] 0 0; mkLayer [2%nat; 3%nat] 0 0; mkLayer [4%nat; 5%nat] 0 0 ].
Definition pB : p4params := mkP4 10 (25#2) 1 1.

Definition bk_variants : list Z := [-1; 0; 1; 2; 3]%Z.

(** the x coordinates and layer heights computed by the five variants *)
Definition xs_hs (r : res graph) : res (list Q * list Q) :=
  map_res (fun g => (map (fun n => Qred (n_x n)) (g_na g), map (fun l => Qred (l_h l)) (g_L g))) r.

Example ex_bk_values :
  map (fun v => xs_hs (exec_bk v 10 gB)) bk_variants =
  [ Ok ([0; 40; 0; 107 # 4; 0; 107 # 4], [20; 10; 25]);
    Ok ([0; 40; 0; 40; 0; 40], [20; 10; 25]);
    Ok ([0; 40; 0; 40; 0; 40], [20; 10; 25]);
    Ok ([0; 40; 0; 27 # 2; 0; 27 # 2], [20; 10; 25]);
    Ok ([0; 40; 0; 40; 40; 107 # 2], [20; 10; 25]) ].
Proof. vm_compute. reflexivity. Qed.

(** scaling by 2 and by 2/3, all five variants, by computation *)
Example ex_bk_scale_2 :
  Forall (fun v => res_equiv (exec_bk v (2 * 10) (scale_graph 2 gB)) (map_res (scale_graph 2) (exec_bk v 10 gB))) bk_variants.
Proof. repeat (constructor; [check_equiv|]). constructor. Qed.

Example ex_bk_scale_23 :
  Forall (fun v => res_equiv (exec_bk v ((2#3) * 10) (scale_graph (2#3) gB)) (map_res (scale_graph (2#3)) (exec_bk v 10 gB)))
         bk_variants.
Proof. repeat (constructor; [check_equiv|]). constructor. Qed.

(** the same, and for every positive c, as instances of the theorem *)
Example ex_bk_scale_thm c v : 0 < c ->
  res_equiv (exec_bk v (c * 10) (scale_graph c gB)) (map_res (scale_graph c) (exec_bk v 10 gB)).
Proof. apply exec_bk_scale. Qed.

Example ex_bk_scale_thm_ok c : 0 < c ->
  exists g2, exec_bk (-1) (c * 10) (scale_graph c gB) = Ok g2 /\ nX g2 1 == c * 40 /\ nX g2 3 == c * (107 # 4).
Proof.
  intros Hc.
  destruct (exec_bk (-1) 10 gB) as [g1|] eqn:E1; [|vm_compute in E1; discriminate].
  destruct (exec_bk_scale_x c (-1) 10 gB g1 Hc E1) as (g2 & E2 & Hx & _).
  exists g2. split; [exact E2|]. rewrite !Hx.
  vm_compute in E1. injection E1 as <-.
  split; (apply Qmult_comp; [reflexivity|vm_compute; reflexivity]).
Qed.

Example ex_phase4_bk :
  Forall (fun v => res_equiv (phase4_bk v (scale_p4 (2#3) pB) (scale_graph (2#3) gB))
                             (map_res (scale_graph (2#3)) (phase4_bk v pB gB))) bk_variants.
Proof. repeat (constructor; [check_equiv|]). constructor. Qed.

Example ex_phase4_bk_thm c v : 0 < c ->
  res_equiv (phase4_bk v (scale_p4 c pB) (scale_graph c gB)) (map_res (scale_graph c) (phase4_bk v pB gB)).
Proof. apply phase4_bk_scale. Qed.

(** the frame theorem on the example *)
Example ex_bk_frame v g' : exec_bk v 10 gB = Ok g' ->
  bk_frame gB g' /\ map l_nodes (g_L g') = [[0; 1]; [2; 3]; [4; 5]]%nat /\ nH gB 5 <= l_h (glayer g' 2).
Proof.
  intros Hg. pose proof (exec_bk_frame _ _ _ _ Hg) as HF. split; [exact HF|]. split.
  - rewrite (bkf_layer_nodes _ _ HF). reflexivity.
  - destruct (exec_bk_layer_h _ _ _ _ 2 Hg) as [_ Hh].
    destruct (bkf_glayer_fields _ _ HF 2) as (Hn & _).
    destruct (bkf_node_fields _ _ HF 5) as (_ & _ & _ & _ & _ & _ & _ & Hh5).
    unfold nH in *. rewrite <- Hh5. apply Hh. rewrite Hn. cbn. auto.
Qed.
