(* BKTotal.v — B3: totality of the Brandes-Koepf positioner model on well-formed layered graphs. *)
From Autog Require Import Base Graph Phase4 BK ListLemmas.
Local Open Scope nat_scope.

(* ================================================================================================ *)
(** * Well-formedness *)

Section WF.
  Variable g : graph.

  (** node [v] sits in layer [k] at position [p] *)
  Definition at_pos (v k p : nat) : Prop :=
    k < length (g_L g) /\ nth_error (l_nodes (glayer g k)) p = Some v.
  Definition lnode (v : nat) : Prop := exists k p, at_pos v k p.

  Record bk_wf : Prop := mkBkWf {
    (* every layer is non-empty *)
    wf_nonempty : forall k, k < length (g_L g) -> l_nodes (glayer g k) <> [];
    (* layers hold in-range nodes whose Layer / LayerPos fields say where they are (hence they are pairwise distinct) *)
    wf_node : forall v k p, at_pos v k p ->
        v < length (g_na g) /\ n_layer (gnode g v) = Z.of_nat k /\ n_pos (gnode g v) = Z.of_nat p;
    (* the edges that are neither self-loops nor flat connect adjacent layers *)
    wf_in : forall v e, lnode v -> In e (n_in (gnode g v)) -> viable g e = true ->
        lnode (e_from (gedge g e)) /\ n_layer (gnode g (e_from (gedge g e))) = (n_layer (gnode g v) - 1)%Z;
    wf_out : forall v e, lnode v -> In e (n_out (gnode g v)) -> viable g e = true ->
        lnode (e_to (gedge g e)) /\ n_layer (gnode g (e_to (gedge g e))) = (n_layer (gnode g v) + 1)%Z;
    (* In-edges end at their node *)
    wf_in_to : forall v e, lnode v -> In e (n_in (gnode g v)) -> e_to (gedge g e) = v }.

  Hypothesis WF : bk_wf.

  Lemma lnode_lt v : lnode v -> v < length (g_na g).
  Proof. intros (k & p & Hv). apply (wf_node WF _ _ _ Hv). Qed.

  Lemma at_pos_layer v k p : at_pos v k p -> n_layer (gnode g v) = Z.of_nat k.
  Proof. intros Hv. apply (wf_node WF _ _ _ Hv). Qed.

  Lemma at_pos_pos v k p : at_pos v k p -> n_pos (gnode g v) = Z.of_nat p.
  Proof. intros Hv. apply (wf_node WF _ _ _ Hv). Qed.

  Lemma at_pos_inj v k p k' p' : at_pos v k p -> at_pos v k' p' -> k = k' /\ p = p'.
  Proof.
    intros H1 H2. pose proof (at_pos_layer _ _ _ H1). pose proof (at_pos_layer _ _ _ H2).
    pose proof (at_pos_pos _ _ _ H1). pose proof (at_pos_pos _ _ _ H2). lia.
  Qed.

  Lemma layer_at_ok code v k p : at_pos v k p -> layer_at code g (n_layer (gnode g v)) = Ok (l_nodes (glayer g k)).
  Proof.
    intros Hv. rewrite (at_pos_layer _ _ _ Hv). destruct Hv as [Hk _]. unfold layer_at.
    destruct (Z.ltb_spec (Z.of_nat k) 0); [lia|]. rewrite Nat2Z.id.
    unfold glayer. rewrite (nth_error_nth' _ layer0 Hk). reflexivity.
  Qed.

  Lemma node_at_ok code ns p v : nth_error ns p = Some v -> node_at code ns (Z.of_nat p) = Ok v.
  Proof.
    intros Hp. unfold node_at. destruct (Z.ltb_spec (Z.of_nat p) 0); [lia|]. rewrite Nat2Z.id, Hp. reflexivity.
  Qed.

  Lemma node_at_inv code ns z v : node_at code ns z = Ok v -> (0 <= z)%Z /\ nth_error ns (Z.to_nat z) = Some v.
  Proof.
    unfold node_at. destruct (Z.ltb_spec z 0); [discriminate|].
    destruct (nth_error ns (Z.to_nat z)) eqn:E; [|discriminate]. intros Hv. injection Hv as <-. auto.
  Qed.

  Lemma first_in_ok code ns hleft : ns <> [] ->
    exists f, first_in code ns hleft = Ok f /\
              nth_error ns (if hleft then length ns - 1 else 0) = Some f.
  Proof.
    intros Hns. unfold first_in. destruct hleft.
    - destruct (nth_error ns (length ns - 1)) as [f|] eqn:E.
      + exists f. split; auto. replace (Z.of_nat (length ns) - 1)%Z with (Z.of_nat (length ns - 1)).
        * apply node_at_ok; auto.
        * destruct ns; [congruence|cbn [length]; lia].
      + apply nth_error_None in E. destruct ns; [congruence|cbn [length] in E; lia].
    - destruct ns as [|f t]; [congruence|]. exists f. split; auto.
  Qed.

  Lemma first_in_inv code ns hleft f : first_in code ns hleft = Ok f ->
    nth_error ns (if hleft then length ns - 1 else 0) = Some f.
  Proof.
    unfold first_in. destruct hleft; intros Hf; apply node_at_inv in Hf; destruct Hf as [Hz Hf].
    - replace (length ns - 1) with (Z.to_nat (Z.of_nat (length ns) - 1)) by lia. exact Hf.
    - exact Hf.
  Qed.

  (** the neighbour in direction [hleft] of a node that is not the last one in that direction *)
  Lemma next_in_ok code code' ns p w hleft lst :
    nth_error ns p = Some w -> n_pos (gnode g w) = Z.of_nat p ->
    last_in code' ns hleft = Ok lst -> w <> lst ->
    exists u p', next_in code g w ns hleft = Ok u /\ nth_error ns p' = Some u.
  Proof.
    intros Hp Hpos Hl Hne. unfold last_in in Hl. apply first_in_inv in Hl. unfold next_in. rewrite Hpos.
    assert (Hlt : p < length ns) by (apply nth_error_Some; congruence).
    destruct hleft; cbn [negb] in Hl.
    - (* left: position p - 1, last is position 0 *)
      assert (p <> 0) by (intros ->; congruence).
      destruct (nth_error ns (p - 1)) as [u|] eqn:E.
      + exists u, (p - 1). split; auto. replace (Z.of_nat p + -1)%Z with (Z.of_nat (p - 1)) by lia.
        apply node_at_ok; auto.
      + apply nth_error_None in E. lia.
    - assert (p <> length ns - 1) by (intros ->; congruence).
      destruct (nth_error ns (p + 1)) as [u|] eqn:E.
      + exists u, (p + 1). split; auto. replace (Z.of_nat p + 1)%Z with (Z.of_nat (p + 1)) by lia.
        apply node_at_ok; auto.
      + apply nth_error_None in E. lia.
  Qed.

  Lemma first_as_last code ns hleft : first_in code ns hleft = last_in code ns (negb hleft).
  Proof. unfold last_in. rewrite negb_involutive. reflexivity. Qed.
End WF.

Arguments wf_nonempty {g} _ k _.
Arguments wf_node {g} _ v k p _.
Arguments wf_in {g} _ v e _ _ _.
Arguments wf_out {g} _ v e _ _ _.
Arguments wf_in_to {g} _ v e _ _.

(* ================================================================================================ *)
(** * List helpers *)

Lemma nget_set_nth l i a x : i < length l -> nget (set_nth l i a) x = if Nat.eqb x i then a else nget l x.
Proof.
  intros Hi. unfold nget, set_nth. destruct (Nat.eqb_spec x i) as [->|Hne].
  - apply nth_upd_same; auto.
  - apply nth_upd_other; auto.
Qed.

Lemma set_nth_len {A} (l : list A) i a : length (set_nth l i a) = length l.
Proof. apply upd_length. Qed.

Lemma nget_iota n x : x < n -> nget (iota 0 n) x = x.
Proof. intros Hx. unfold nget. rewrite iota_seq, seq_nth; auto. Qed.

Definition cnt_false (l : list bool) : nat := length (filter negb l).

Lemma cnt_false_le l : cnt_false l <= length l.
Proof. unfold cnt_false. induction l as [|b l IH]; cbn; auto. destruct b; cbn; lia. Qed.

Lemma cnt_false_set l : forall i, i < length l -> nth i l false = false ->
  S (cnt_false (set_nth l i true)) = cnt_false l.
Proof.
  unfold cnt_false, set_nth. induction l as [|b l IH]; intros [|i] Hi Hn; cbn in *; try lia.
  - subst b. cbn. reflexivity.
  - destruct b; cbn; rewrite <- (IH i) by (auto; lia); reflexivity.
Qed.

Lemma nth_set_nth_true l i j : nth j l false = true -> nth j (set_nth l i true) false = true.
Proof.
  unfold set_nth. revert i j. induction l as [|b l IH]; intros [|i] [|j] Hn; cbn in *; auto.
Qed.

Lemma nth_set_nth_same_true l i : i < length l -> nth i (set_nth l i true) false = true.
Proof. intros Hi. unfold set_nth. rewrite nth_upd_same; auto. Qed.

Lemma nth_set_nth_Some {A} (l : list (option A)) i j a :
  nth j l None <> None -> nth j (set_nth l i (Some a)) None <> None.
Proof.
  unfold set_nth. revert i j. induction l as [|b l IH]; intros [|i] [|j] Hn; cbn in *; auto. discriminate.
Qed.

Lemma nth_set_nth_same_Some {A} (l : list (option A)) i a : i < length l -> nth i (set_nth l i (Some a)) None <> None.
Proof. intros Hi. unfold set_nth. rewrite nth_upd_same; auto. discriminate. Qed.

Lemma NoDup_app' {A} (l1 l2 : list A) :
  NoDup l1 -> NoDup l2 -> (forall x, In x l1 -> ~ In x l2) -> NoDup (l1 ++ l2).
Proof.
  intros H1 H2 Hd. induction H1 as [|x l1 Hx H1 IH]; cbn; auto.
  constructor.
  - rewrite in_app_iff. intros [Hin|Hin]; [auto|]. apply (Hd x); cbn; auto.
  - apply IH. intros y Hy. apply Hd. cbn; auto.
Qed.

(** fold_left with an invariant indexed by the number of processed elements *)
Lemma fold_left_nth_ind {A X} (d : X) (f : A -> X -> A) l :
  forall (I : nat -> A -> Prop) a,
  I 0 a -> (forall k a, k < length l -> I k a -> I (S k) (f a (nth k l d))) -> I (length l) (fold_left f l a).
Proof.
  induction l as [|x t IH]; intros I a H0 Hs; cbn; auto.
  apply (IH (fun k => I (S k))).
  - apply (Hs 0); cbn; auto; lia.
  - intros k b Hk Hb. apply (Hs (S k)); cbn; auto; lia.
Qed.

(** folds in the [res] monad that never fail; [E] is a monotone event that the element [x0] triggers *)
Lemma fold_res_ok {A X} (P E : A -> Prop) (Q : X -> Prop) (x0 : X) (F : res A -> X -> res A) l :
  (forall x, In x l -> Q x) ->
  (forall a x, Q x -> P a -> exists a', F (Ok a) x = Ok a' /\ P a' /\ (E a -> E a') /\ (x = x0 -> E a')) ->
  forall a, P a -> exists a', fold_left F l (Ok a) = Ok a' /\ P a' /\ (E a \/ In x0 l -> E a').
Proof.
  intros HQ HF. induction l as [|x l IH]; intros a Ha; cbn.
  - exists a. repeat split; auto. intros [|[]]; auto.
  - destruct (HF a x) as (a1 & E1 & P1 & Em & Ex); auto; [apply HQ; cbn; auto|].
    rewrite E1. destruct (IH (fun y Hy => HQ y (or_intror Hy)) a1 P1) as (a2 & E2 & P2 & Ev).
    exists a2. repeat split; auto. intros [He|[Hx|Hin]]; auto.
Qed.

Lemma bind_total {A B} (r : res A) (f : A -> res B) (P : A -> Prop) (Q : B -> Prop) :
  (exists a, r = Ok a /\ P a) -> (forall a, P a -> exists b, f a = Ok b /\ Q b) -> exists b, bind r f = Ok b /\ Q b.
Proof. intros (a & -> & Ha) Hf. cbn. auto. Qed.

(* ================================================================================================ *)
(** * What horizontalCompaction needs from the alignment: blocks are cyclic lists closed in the layers *)

Fixpoint iter_al (al : list nat) (n x : nat) : nat :=
  match n with O => x | S n => iter_al al n (nget al x) end.

Record align_ok (g : graph) (al rt : list nat) : Prop := mkAlignOk {
  ao_al_N : forall x, lnode g x -> lnode g (nget al x);
  ao_rt_N : forall x, lnode g x -> lnode g (nget rt x);
  ao_rt_al : forall x, lnode g x -> nget rt (nget al x) = nget rt x;
  ao_rt_rt : forall x, lnode g x -> nget rt (nget rt x) = nget rt x;
  (* following [al] from x leads to the root of x in at most |arena| + 1 steps *)
  ao_orbit : forall x, lnode g x -> exists j, j <= length (g_na g) /\ iter_al al (S j) x = nget rt x }.

Arguments ao_al_N {g al rt} _ x _.
Arguments ao_rt_N {g al rt} _ x _.
Arguments ao_rt_al {g al rt} _ x _.
Arguments ao_rt_rt {g al rt} _ x _.
Arguments ao_orbit {g al rt} _ x _.

Section CompactionTotal.
  Variables (g : graph) (hleft : bool) (s : Q) (al rt : list nat).
  Hypothesis WF : bk_wf g.
  Hypothesis AO : align_ok g al rt.
  Let na := length (g_na g).

  (** the part of the state that matters: initialised roots have a coordinate *)
  Definition phi (c : bkc) : Prop :=
    length (bk_xcinit c) = na /\ length (bk_xcoord c) = na /\
    forall i, nth i (bk_xcinit c) false = true -> nth i (bk_xcoord c) None <> None.

  (** [c'] is reached from [c] by placing blocks *)
  Definition ext (c c' : bkc) : Prop :=
    phi c' /\ cnt_false (bk_xcinit c') <= cnt_false (bk_xcinit c) /\
    forall i, nth i (bk_xcinit c) false = true -> nth i (bk_xcinit c') false = true.

  (** [c'] is reached from [c] by writing sinks, shifts and finite coordinates *)
  Definition upd_ok (c c' : bkc) : Prop :=
    bk_xcinit c' = bk_xcinit c /\ length (bk_xcoord c') = length (bk_xcoord c) /\
    forall i, nth i (bk_xcoord c) None <> None -> nth i (bk_xcoord c') None <> None.

  Lemma ext_refl c : phi c -> ext c c.
  Proof. intros Hc. repeat split; auto; apply Hc. Qed.

  Lemma ext_trans c1 c2 c3 : ext c1 c2 -> ext c2 c3 -> ext c1 c3.
  Proof. intros (P2 & L2 & M2) (P3 & L3 & M3). repeat split; auto; try apply P3. lia. Qed.

  Lemma upd_ok_refl c : upd_ok c c.
  Proof. repeat split; auto. Qed.

  Lemma upd_ok_trans c1 c2 c3 : upd_ok c1 c2 -> upd_ok c2 c3 -> upd_ok c1 c3.
  Proof. intros (I2 & L2 & M2) (I3 & L3 & M3). repeat split; auto; congruence. Qed.

  Lemma upd_ok_sinks c l : upd_ok c (set_sinks c l).
  Proof. repeat split; auto. Qed.

  Lemma upd_ok_xshift c l : upd_ok c (set_xshift c l).
  Proof. repeat split; auto. Qed.

  Lemma upd_ok_xcoord c v x : upd_ok c (set_xcoord c (set_nth (bk_xcoord c) v (Some x))).
  Proof.
    repeat split; cbn; auto.
    - apply set_nth_len.
    - intros i. apply nth_set_nth_Some.
  Qed.

  Lemma phi_upd c c' : phi c -> upd_ok c c' -> phi c'.
  Proof.
    intros (L1 & L2 & M) (I & L & N). repeat split; try congruence.
    intros i Hi. apply N, M. congruence.
  Qed.

  Lemma ext_upd c c1 c2 : ext c c1 -> upd_ok c1 c2 -> ext c c2.
  Proof.
    intros (P1 & L1 & M1) Hu. pose proof (phi_upd _ _ P1 Hu) as P2. destruct Hu as (I & _ & _).
    repeat split; try apply P2; rewrite I; auto.
  Qed.

  Lemma pb_loop1_total rec f v :
    (forall r c, lnode g r -> nget rt r = r -> phi c -> cnt_false (bk_xcinit c) < f ->
                 exists c', rec r c = Ok c' /\ ext c c') ->
    forall k w c j, lnode g w -> j < k -> iter_al al (S j) w = v -> phi c -> cnt_false (bk_xcinit c) < f ->
    exists c', pb_loop1 g hleft s al rt rec k v w c = Ok c' /\ ext c c'.
  Proof.
    intros Hrec. induction k as [|k IH]; intros w c j Hw Hj Hit Hphi Hcnt; [lia|].
    cbn [pb_loop1]. pose proof Hw as (kk & p & Hwp).
    rewrite (layer_at_ok g WF 82 w kk p Hwp). cbn [bind].
    set (ns := l_nodes (glayer g kk)).
    destruct (first_in_ok 83 ns (negb hleft)) as (lst & Hlst & _); [apply (wf_nonempty WF); apply Hwp|].
    assert (Hlast : last_in 83 ns hleft = Ok lst) by exact Hlst.
    rewrite Hlast. cbn [bind].
    apply bind_total with (P := fun c1 => ext c c1).
    - destruct (Nat.eqb_spec w lst) as [Heq|Hne].
      + exists c. split; auto. apply ext_refl; auto.
      + destruct (next_in_ok g 84 83 ns p w hleft lst) as (u & p' & Hu & Hp'); auto.
        { apply Hwp. } { apply (at_pos_pos g WF _ _ _ Hwp). }
        rewrite Hu. cbn [bind].
        assert (Hul : lnode g u) by (exists kk, p'; split; [apply Hwp|exact Hp']).
        destruct (Hrec (nget rt u) c) as (c1 & Hc1 & Hext); auto.
        { apply (ao_rt_N AO); auto. } { apply (ao_rt_rt AO); auto. }
        rewrite Hc1. cbn [bind].
        match goal with |- context [if Nat.eqb (nget (bk_sinks c1) v) v then ?a else ?b] =>
          set (c2 := if Nat.eqb (nget (bk_sinks c1) v) v then a else b) end.
        assert (Hc2 : upd_ok c1 c2).
        { subst c2. destruct (Nat.eqb _ v); [apply upd_ok_sinks|apply upd_ok_refl]. }
        clearbody c2.
        destruct (Nat.eqb _ _); eexists; (split; [reflexivity|]).
        * eapply ext_upd; [exact Hext|]. eapply upd_ok_trans; [exact Hc2|apply upd_ok_xcoord].
        * eapply ext_upd; eauto.
    - intros c1 Hext. cbv zeta.
      destruct (Nat.eqb_spec (nget al w) v) as [Heq|Hne].
      + exists c1. auto.
      + destruct j as [|j]; [cbn in Hit; congruence|].
        destruct (IH (nget al w) c1 j) as (c2 & Hc2 & Hext2); auto.
        * apply (ao_al_N AO); auto.
        * lia.
        * apply Hext.
        * destruct Hext as (_ & Hle & _). lia.
        * exists c2. split; auto. eapply ext_trans; eauto.
  Qed.

  Lemma pb_loop2_total v : forall k w c j, j < k -> iter_al al (S j) w = v ->
    exists c', pb_loop2 al k v w c = Ok c' /\ upd_ok c c'.
  Proof.
    induction k as [|k IH]; intros w c j Hj Hit; [lia|].
    cbn [pb_loop2]. destruct (Nat.eqb_spec (nget al w) v) as [Heq|Hne].
    - exists c. split; auto. apply upd_ok_refl.
    - destruct j as [|j]; [cbn in Hit; congruence|].
      match goal with |- exists c', pb_loop2 al k v _ ?c0 = _ /\ _ =>
        destruct (IH (nget al w) c0 j) as (c2 & Hc2 & Hu); auto; [lia|] end.
      exists c2. split; auto.
      eapply upd_ok_trans; [|exact Hu].
      eapply upd_ok_trans; [apply upd_ok_xcoord|apply upd_ok_sinks].
  Qed.

  Variable F : nat.
  Hypothesis HF : na < F.

  Lemma root_orbit v : lnode g v -> nget rt v = v -> exists j, j < F /\ iter_al al (S j) v = v.
  Proof.
    intros Hv Hr. destruct (ao_orbit AO v Hv) as (j & Hj & Hit). exists j. split; [unfold na in HF; lia|congruence].
  Qed.

  Lemma bk_place_block_total : forall fuel v c,
    lnode g v -> nget rt v = v -> phi c -> cnt_false (bk_xcinit c) < fuel ->
    exists c', bk_place_block g hleft s al rt F fuel v c = Ok c' /\ ext c c' /\ nth v (bk_xcinit c') false = true.
  Proof.
    induction fuel as [|f IH]; intros v c Hv Hr Hphi Hcnt; [lia|].
    cbn [bk_place_block]. destruct (nth v (bk_xcinit c) false) eqn:Einit.
    - exists c. repeat split; auto; apply Hphi.
    - set (c0 := mkBkc _ _ _ _).
      pose proof (lnode_lt g WF v Hv) as Hlt. fold na in Hlt.
      destruct Hphi as (L1 & L2 & M).
      assert (Hcnt0 : S (cnt_false (bk_xcinit c0)) = cnt_false (bk_xcinit c)).
      { subst c0. cbn. apply cnt_false_set; auto. lia. }
      assert (Hphi0 : phi c0).
      { subst c0. repeat split; cbn; try (rewrite set_nth_len; auto).
        intros i Hi. destruct (Nat.eq_dec i v) as [->|Hne].
        - apply nth_set_nth_same_Some. lia.
        - apply nth_set_nth_Some. apply M. unfold set_nth in Hi. rewrite nth_upd_other in Hi; auto. }
      assert (Hext0 : ext c c0).
      { repeat split; try apply Hphi0; [lia|]. intros i Hi. subst c0. cbn. apply nth_set_nth_true; auto. }
      assert (Hv0 : nth v (bk_xcinit c0) false = true).
      { subst c0. cbn. apply nth_set_nth_same_true. lia. }
      clearbody c0.
      destruct (root_orbit v Hv Hr) as (j & Hj & Hit).
      apply bind_total with (P := fun c1 => ext c0 c1).
      + apply (pb_loop1_total (bk_place_block g hleft s al rt F f) f v) with (j := j); auto; [|lia].
        intros r c1 Hrl Hrr Hp1 Hc1. destruct (IH r c1 Hrl Hrr Hp1 Hc1) as (c' & E & Hx & _). eauto.
      + intros c1 Hext1.
        destruct (pb_loop2_total v F v c1 j Hj Hit) as (c2 & Hc2 & Hu).
        exists c2. split; auto. split.
        * eapply ext_trans; [exact Hext0|]. eapply ext_upd; eauto.
        * destruct Hu as (-> & _). apply Hext1. exact Hv0.
  Qed.
End CompactionTotal.

(* ================================================================================================ *)
(** * Counting the nodes of the layers *)

Definition sum_from (lens : list nat) (j : nat) : nat := list_sum (skipn j lens).

Lemma sum_from_step lens : forall j, sum_from lens j = nth j lens 0 + sum_from lens (S j).
Proof.
  unfold sum_from. induction lens as [|x t IH]; intros [|j]; cbn; auto.
  rewrite IH. destruct t; reflexivity.
Qed.

Lemma sum_from_mono lens j j' : j <= j' -> sum_from lens j' <= sum_from lens j.
Proof. induction 1; auto. rewrite (sum_from_step lens m) in *. lia. Qed.

Lemma length_concat {A} (l : list (list A)) : length (concat l) = list_sum (map (@length A) l).
Proof. induction l as [|x l IH]; cbn; auto. rewrite app_length, IH. reflexivity. Qed.

Section LayerCount.
  Variable g : graph.
  Hypothesis WF : bk_wf g.

  Definition layer_lens : list nat := map (fun l => length (l_nodes l)) (g_L g).

  Lemma layer_lens_nth j : nth j layer_lens 0 = length (l_nodes (glayer g j)).
  Proof.
    unfold layer_lens, glayer. change 0 with ((fun l => length (l_nodes l)) layer0) at 1. apply map_nth.
  Qed.

  Lemma layers_NoDup_aux : forall (L : list layer) (off : nat),
    (forall k p v, nth_error (l_nodes (nth k L layer0)) p = Some v -> k < length L ->
                   n_layer (gnode g v) = Z.of_nat (off + k) /\ n_pos (gnode g v) = Z.of_nat p) ->
    NoDup (concat (map l_nodes L)).
  Proof.
    induction L as [|l L IH]; intros off HL; cbn; [constructor|].
    apply NoDup_app'.
    - apply NoDup_nth_error. intros i j Hi Hij.
      destruct (nth_error (l_nodes l) i) as [v|] eqn:Ei; [|apply nth_error_None in Ei; lia].
      symmetry in Hij.
      destruct (HL 0 i v) as [_ H1]; cbn; auto; [lia|].
      destruct (HL 0 j v) as [_ H2]; cbn; auto; [lia|]. lia.
    - apply (IH (S off)). intros k p v Hv Hk. replace (S off + k) with (off + S k) by lia.
      apply (HL (S k)); cbn; auto. lia.
    - intros x Hx1 Hx2.
      apply In_nth_error in Hx1. destruct Hx1 as (p & Hp).
      apply in_concat in Hx2. destruct Hx2 as (ns & Hns & Hx2).
      apply in_map_iff in Hns. destruct Hns as (l' & <- & Hl').
      apply (In_nth _ _ layer0) in Hl'. destruct Hl' as (k & Hk & <-).
      apply In_nth_error in Hx2. destruct Hx2 as (p' & Hp').
      destruct (HL 0 p x) as [H1 _]; cbn; auto; [lia|].
      destruct (HL (S k) p' x) as [H2 _]; cbn; auto; [lia|]. lia.
  Qed.

  Lemma layers_NoDup : NoDup (concat (map l_nodes (g_L g))).
  Proof.
    apply (layers_NoDup_aux (g_L g) 0). intros k p v Hv Hk.
    destruct (wf_node WF v k p) as (_ & H1 & H2); auto. split; auto.
  Qed.

  Lemma layers_total : sum_from layer_lens 0 <= length (g_na g).
  Proof.
    unfold sum_from, layer_lens. cbn [skipn].
    rewrite <- (map_map l_nodes (@length nat)), <- length_concat.
    rewrite <- (seq_length (length (g_na g)) 0).
    apply NoDup_incl_length; [apply layers_NoDup|].
    intros x Hx. apply in_seq. split; [lia|]. cbn.
    apply in_concat in Hx. destruct Hx as (ns & Hns & Hx).
    apply in_map_iff in Hns. destruct Hns as (l' & <- & Hl').
    apply (In_nth _ _ layer0) in Hl'. destruct Hl' as (k & Hk & <-).
    apply In_nth_error in Hx. destruct Hx as (p & Hp).
    apply (lnode_lt g WF). exists k, p. split; auto.
  Qed.

  Lemma layer_NoDup k : NoDup (l_nodes (glayer g k)).
  Proof.
    destruct (Nat.lt_ge_cases k (length (g_L g))) as [Hk|Hk].
    - apply NoDup_nth_error. intros i j Hi Hij.
      destruct (nth_error (l_nodes (glayer g k)) i) as [v|] eqn:Ei; [|apply nth_error_None in Ei; lia].
      symmetry in Hij.
      pose proof (at_pos_pos g WF v k i (conj Hk Ei)). pose proof (at_pos_pos g WF v k j (conj Hk Hij)). lia.
    - unfold glayer. rewrite nth_overflow by auto. constructor.
  Qed.
End LayerCount.
