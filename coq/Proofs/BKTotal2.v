(* BKTotal2.v — B3 continued: mark_conflicts is total; vertical_align produces an alignment whose blocks are
   chains through consecutive layers that are closed by a link back to the root (align_ok). *)
From Autog Require Import Base Graph Phase4 BK ListLemmas BKProofs BKTotal.
Local Open Scope nat_scope.

(* ================================================================================================ *)
(** * Generic helpers *)

Lemma fold_res_total {A X} (P : A -> Prop) (Q : X -> Prop) (F : res A -> X -> res A) l :
  (forall x, In x l -> Q x) ->
  (forall a x, Q x -> P a -> exists a', F (Ok a) x = Ok a' /\ P a') ->
  forall a, P a -> exists a', fold_left F l (Ok a) = Ok a' /\ P a'.
Proof.
  intros HQ HF. induction l as [|x l IH]; intros a Ha; cbn.
  - exists a. auto.
  - destruct (HF a x) as (a1 & E1 & P1); auto; [apply HQ; cbn; auto|].
    rewrite E1. apply IH; auto. intros y Hy. apply HQ. cbn; auto.
Qed.

Lemma fold_inv {A X} (P : A -> Prop) (Q : X -> Prop) (f : A -> X -> A) l :
  (forall x, In x l -> Q x) -> (forall a x, Q x -> P a -> P (f a x)) -> forall a, P a -> P (fold_left f l a).
Proof.
  intros HQ Hf. induction l as [|x l IH]; intros a Ha; cbn; auto.
  apply IH; [intros y Hy; apply HQ; cbn; auto|]. apply Hf; auto. apply HQ. cbn; auto.
Qed.

Lemma flat_map_nonempty {A B} (f : A -> list B) l x : In x l -> f x <> [] -> flat_map f l <> [].
Proof.
  intros Hx Hf E. destruct (f x) as [|y t] eqn:Efx; [congruence|].
  assert (Hy : In y (flat_map f l)) by (apply in_flat_map; exists x; rewrite Efx; cbn; auto).
  rewrite E in Hy. exact Hy.
Qed.

Lemma in_combine_iota {A} (l : list A) : forall s i x, In (i, x) (combine (iota s (length l)) l) -> In x l.
Proof. intros s i x H. eapply in_combine_r; eauto. Qed.

(* ================================================================================================ *)
(** * Layers and positions *)

Section Layers.
  Variable g : graph.
  Hypothesis WF : bk_wf g.

  Lemma in_layer_at_pos k v : k < length (g_L g) -> In v (l_nodes (glayer g k)) -> exists p, at_pos g v k p.
  Proof. intros Hk Hv. apply In_nth_error in Hv. destruct Hv as (p & Hp). exists p. split; auto. Qed.

  Lemma in_layer_lnode k v : k < length (g_L g) -> In v (l_nodes (glayer g k)) -> lnode g v.
  Proof. intros Hk Hv. destruct (in_layer_at_pos k v Hk Hv) as (p & Hp). exists k, p. exact Hp. Qed.

  Lemma lnode_layer_range v : lnode g v -> (0 <= n_layer (gnode g v) < Z.of_nat (length (g_L g)))%Z.
  Proof. intros (k & p & Hv). rewrite (at_pos_layer g WF _ _ _ Hv). destruct Hv. lia. Qed.

  Lemma lnode_pos_nonneg v : lnode g v -> (0 <= n_pos (gnode g v))%Z.
  Proof. intros (k & p & Hv). rewrite (at_pos_pos g WF _ _ _ Hv). lia. Qed.

  Lemma in_iter_layers vtop l : In l (iter_layers g vtop) -> fst l < length (g_L g) /\ snd l = l_nodes (glayer g (fst l)).
  Proof.
    unfold iter_layers. intros Hl.
    assert (Hc : In l (combine (iota 0 (length (g_L g))) (map l_nodes (g_L g)))).
    { destruct vtop; auto. apply in_rev; auto. }
    clear Hl. destruct l as [i ns]. cbn [fst snd].
    apply In_nth_error in Hc. destruct Hc as (n & Hn).
    assert (Hlen : n < length (g_L g)).
    { assert (n < length (combine (iota 0 (length (g_L g))) (map l_nodes (g_L g)))) by (apply nth_error_Some; congruence).
      rewrite combine_length, iota_length, map_length in H. lia. }
    apply nth_error_nth with (d := (0, @nil nat)) in Hn. rewrite combine_nth in Hn by (rewrite iota_length, map_length; auto).
    injection Hn as Hi Hns. rewrite iota_seq, seq_nth in Hi by auto. cbn in Hi. subst i.
    split; auto. rewrite <- Hns. unfold glayer. change (@nil nat) with (l_nodes layer0). apply map_nth.
  Qed.

  Lemma in_iter_nodes ns hleft v : In v (iter_nodes ns hleft) <-> In v ns.
  Proof. unfold iter_nodes. destruct hleft; [symmetry; apply in_rev|reflexivity]. Qed.
End Layers.

(* ================================================================================================ *)
(** * markConflicts *)

Section Mark.
  Variable g : graph.
  Hypothesis WF : bk_wf g.

  Lemma inner_neigh v : lnode g v -> (0 < n_layer (gnode g v))%Z -> (0 <= incident_to_inner g v)%Z ->
    bk_neigh g false v <> [].
  Proof.
    intros Hv Hl. unfold incident_to_inner. destruct (n_virt (gnode g v)); cbn [negb]; [|lia].
    destruct (find _ _) as [e|] eqn:Ef; [|lia]. intros _.
    apply find_some in Ef. destruct Ef as [Hin Hc]. apply andb_prop in Hc. destruct Hc as [_ Hlay].
    apply Z.eqb_eq in Hlay. unfold layer_of in Hlay.
    unfold bk_neigh. destruct (Z.ltb_spec 0 (n_layer (gnode g v))); [|lia].
    apply flat_map_nonempty with (x := e); auto.
    assert (Hvi : viable g e = true).
    { unfold viable, self_loop, is_flat, layer_of. rewrite (wf_in_to WF v e Hv Hin).
      apply andb_true_intro. split; apply negb_true_iff.
      - apply Nat.eqb_neq. intros Heq. rewrite Heq in Hlay. lia.
      - apply Z.eqb_neq. lia. }
    rewrite Hvi. discriminate.
  Qed.

  Lemma mark_layer_total upper k marked : k < length (g_L g) -> 0 < k ->
    exists m, mark_layer g upper (l_nodes (glayer g k)) marked = Ok m.
  Proof.
    intros Hk Hk0. unfold mark_layer. set (lower := l_nodes (glayer g k)).
    match goal with |- context [fold_left ?F ?l (Ok ?a0)] =>
      destruct (fold_res_total (fun _ => True) (fun p : nat * nat => In (snd p) lower) F l) with (a := a0)
        as (r & Hr & _); auto end.
    - intros [i v] Hin. cbn [snd]. eapply in_combine_iota; eauto.
    - intros [k0 m] [l1 v] Hv _. cbn [snd] in Hv. cbn [bind].
      destruct (_ || _); [|eauto].
      destruct (Z.leb_spec 0 (incident_to_inner g v)) as [Hge|Hlt]; cbn [bind]; [|eauto].
      destruct (in_layer_at_pos g k v Hk Hv) as (p & Hp).
      assert (Hne : bk_neigh g false v <> []).
      { apply inner_neigh; auto; [exists k, p; auto|]. rewrite (at_pos_layer g WF _ _ _ Hp). lia. }
      destruct (bk_neigh g false v) as [|[u e] t]; [congruence|]. cbn [bind]. eauto.
    - rewrite Hr. cbn [bind]. eauto.
  Qed.

  Lemma mark_conflicts_total : exists m, mark_conflicts g = Ok m.
  Proof.
    unfold mark_conflicts. destruct (Nat.ltb_spec (length (g_L g)) 4) as [Hlt|Hge]; [eauto|].
    match goal with |- context [fold_left ?F ?l (Ok ?a0)] =>
      destruct (fold_res_total (fun _ => True) (fun i => 1 <= i /\ S i < length (g_L g)) F l) with (a := a0)
        as (r & Hr & _); auto end.
    - intros i Hi. apply in_iota in Hi. lia.
    - intros m i [Hi1 Hi2] _. cbn [bind].
      destruct (mark_layer_total (l_nodes (glayer g i)) (S i) m) as (m' & Hm); auto; try lia. eauto.
    - eauto.
  Qed.
End Mark.

(* ================================================================================================ *)
(** * verticalAlign *)

Lemma median_idx_lt d hleft m : d <> 0 -> In m (median_idx d hleft) -> m < d.
Proof.
  intros Hd Hm.
  assert (H1 : (d + 1) / 2 <= d) by (apply Nat.div_le_upper_bound; lia).
  assert (H2 : (d + 2) / 2 < d + 1) by (apply Nat.div_lt_upper_bound; lia).
  unfold median_idx in Hm. destruct hleft; cbn [In] in Hm; destruct Hm as [<-|[<-|[]]]; lia.
Qed.

Lemma length_le_list_sum l : (forall x, In x l -> 1 <= x) -> length l <= list_sum l.
Proof.
  induction l as [|x l IH]; intros H; [cbn; auto|]. cbn [length]. change (list_sum (x :: l)) with (x + list_sum l).
  assert (1 <= x) by (apply H; cbn; auto). assert (length l <= list_sum l) by (apply IH; intros y Hy; apply H; cbn; auto). lia.
Qed.

Lemma layers_le_arena g : bk_wf g -> length (g_L g) <= length (g_na g).
Proof.
  intros WF. pose proof (layers_total g WF) as Ht. unfold sum_from in Ht. cbn [skipn] in Ht.
  assert (Hl : length (layer_lens g) <= list_sum (layer_lens g)).
  { apply length_le_list_sum. intros x Hx. apply (In_nth _ _ 0) in Hx. destruct Hx as (k & Hk & <-).
    rewrite layer_lens_nth. unfold layer_lens in Hk. rewrite map_length in Hk.
    pose proof (wf_nonempty WF k Hk). destruct (l_nodes (glayer g k)); [congruence|cbn; lia]. }
  unfold layer_lens in Hl at 1. rewrite map_length in Hl. lia.
Qed.

Section Align.
  Variables (g : graph) (marked : list nat) (vtop hleft : bool).
  Hypothesis WF : bk_wf g.
  Let na := length (g_na g).

  (** the processing order of the layer of a node *)
  Definition lev (x : nat) : Z := if vtop then (- n_layer (gnode g x))%Z else n_layer (gnode g x).

  Record va_inv (al rt : list nat) : Prop := mkVaInv {
    vi_len_al : length al = na;
    vi_len_rt : length rt = na;
    vi_al_N : forall x, lnode g x -> lnode g (nget al x);
    vi_rt_N : forall x, lnode g x -> lnode g (nget rt x);
    vi_rt_al : forall x, lnode g x -> nget rt (nget al x) = nget rt x;
    vi_rt_rt : forall x, lnode g x -> nget rt (nget rt x) = nget rt x;
    (* [al] leads to the next layer in processing order, or back to the root *)
    vi_lev : forall x, lnode g x -> nget al x = nget rt x \/ (lev x < lev (nget al x))%Z;
    (* a root that is aligned with itself is alone in its block *)
    vi_single : forall x, lnode g x -> nget al (nget rt x) = nget rt x -> x = nget rt x }.
  Arguments vi_len_al {al rt} _.
  Arguments vi_len_rt {al rt} _.
  Arguments vi_al_N {al rt} _ x _.
  Arguments vi_rt_N {al rt} _ x _.
  Arguments vi_rt_al {al rt} _ x _.
  Arguments vi_rt_rt {al rt} _ x _.
  Arguments vi_lev {al rt} _ x _.
  Arguments vi_single {al rt} _ x _ _.

  Lemma va_inv_init : va_inv (iota 0 na) (iota 0 na).
  Proof.
    assert (Hid : forall x, lnode g x -> nget (iota 0 na) x = x).
    { intros x Hx. apply nget_iota. apply (lnode_lt g WF); auto. }
    constructor; try apply iota_length; intros x Hx; rewrite ?(Hid x Hx); rewrite ?(Hid x Hx); auto.
  Qed.

  Lemma va_step al rt u vk : va_inv al rt -> lnode g vk -> lnode g u -> (lev u < lev vk)%Z -> nget al vk = vk ->
    va_inv (set_nth (set_nth al u vk) vk (nget (set_nth rt vk (nget rt u)) vk)) (set_nth rt vk (nget rt u)).
  Proof.
    intros I Hvk Hu Hlev Hself.
    pose proof (lnode_lt g WF _ Hvk) as Hvk_lt. pose proof (lnode_lt g WF _ Hu) as Hu_lt. fold na in Hvk_lt, Hu_lt.
    pose proof (vi_len_al I) as La. pose proof (vi_len_rt I) as Lr.
    assert (Huv : u <> vk) by (intros ->; lia).
    assert (Hrvk : nget rt vk = vk).
    { destruct (vi_lev I vk Hvk) as [H|H]; [congruence|]. rewrite Hself in H. lia. }
    (* nobody else has vk as root or as successor *)
    assert (Hroot : forall x, lnode g x -> nget rt x = vk -> x = vk).
    { intros x Hx Hr. rewrite (vi_single I x Hx); [auto|]. rewrite Hr. exact Hself. }
    assert (Hsucc : forall x, lnode g x -> nget al x = vk -> x = vk).
    { intros x Hx Ha. apply Hroot; auto. rewrite <- (vi_rt_al I x Hx), Ha. exact Hrvk. }
    assert (Hru : nget rt u <> vk) by (intros H; apply Huv, Hroot; auto).
    (* the new maps *)
    assert (Ert : forall x, nget (set_nth rt vk (nget rt u)) x = if Nat.eqb x vk then nget rt u else nget rt x).
    { intros x. apply nget_set_nth. lia. }
    rewrite (Ert vk), Nat.eqb_refl.
    assert (Eal : forall x, nget (set_nth (set_nth al u vk) vk (nget rt u)) x =
                            if Nat.eqb x vk then nget rt u else if Nat.eqb x u then vk else nget al x).
    { intros x. rewrite nget_set_nth by (rewrite set_nth_len; lia).
      destruct (Nat.eqb x vk); auto. apply nget_set_nth. lia. }
    constructor.
    - rewrite !set_nth_len. auto.
    - rewrite set_nth_len. auto.
    - intros x Hx. rewrite Eal. destruct (Nat.eqb x vk); [apply (vi_rt_N I); auto|].
      destruct (Nat.eqb x u); auto. apply (vi_al_N I); auto.
    - intros x Hx. rewrite Ert. destruct (Nat.eqb x vk); apply (vi_rt_N I); auto.
    - intros x Hx. rewrite Eal, !Ert.
      destruct (Nat.eqb_spec x vk) as [->|Hne].
      + destruct (Nat.eqb_spec (nget rt u) vk); [congruence|]. apply (vi_rt_rt I); auto.
      + destruct (Nat.eqb_spec x u) as [->|Hne'].
        * rewrite Nat.eqb_refl. reflexivity.
        * destruct (Nat.eqb_spec (nget al x) vk) as [E|E]; [elim Hne; apply Hsucc; auto|]. apply (vi_rt_al I); auto.
    - intros x Hx. rewrite !Ert.
      destruct (Nat.eqb_spec x vk) as [->|Hne].
      + destruct (Nat.eqb_spec (nget rt u) vk); [congruence|]. apply (vi_rt_rt I); auto.
      + destruct (Nat.eqb_spec (nget rt x) vk) as [E|E]; [elim Hne; apply Hroot; auto|]. apply (vi_rt_rt I); auto.
    - intros x Hx. rewrite !Eal, Ert.
      destruct (Nat.eqb_spec x vk) as [->|Hne]; auto.
      destruct (Nat.eqb_spec x u) as [->|Hne']; auto.
      apply (vi_lev I); auto.
    - intros x Hx. rewrite Ert, Eal.
      destruct (Nat.eqb_spec x vk) as [->|Hne].
      + destruct (Nat.eqb_spec (nget rt u) vk); [congruence|].
        destruct (Nat.eqb_spec (nget rt u) u) as [E|E]; [congruence|].
        intros Ha. elim E. symmetry. apply (vi_single I); auto.
      + destruct (Nat.eqb_spec (nget rt x) vk) as [E|E]; [congruence|].
        destruct (Nat.eqb_spec (nget rt x) u) as [E'|E']; [congruence|].
        apply (vi_single I); auto.
  Qed.

  Lemma bk_neigh_spec vk u e : lnode g vk -> In (u, e) (bk_neigh g vtop vk) -> lnode g u /\ (lev u < lev vk)%Z.
  Proof.
    intros Hvk Hin. unfold bk_neigh, lev in *. destruct vtop.
    - destruct (_ <? _)%Z; [|destruct Hin].
      apply in_flat_map in Hin. destruct Hin as (e' & He' & Hin).
      destruct (viable g e') eqn:Hv; [|destruct Hin]. destruct Hin as [Hin|[]]. injection Hin as <- <-.
      destruct (wf_out WF vk e' Hvk He' Hv) as [H1 H2]. split; auto. lia.
    - destruct (_ <? _)%Z; [|destruct Hin].
      apply in_flat_map in Hin. destruct Hin as (e' & He' & Hin).
      destruct (viable g e') eqn:Hv; [|destruct Hin]. destruct Hin as [Hin|[]]. injection Hin as <- <-.
      destruct (wf_in WF vk e' Hvk He' Hv) as [H1 H2]. split; auto. lia.
  Qed.

  Definition va_inv3 (st : list nat * list nat * option Z) : Prop := va_inv (fst (fst st)) (snd (fst st)).

  Lemma va_node_inv st vk : lnode g vk -> va_inv3 st -> va_inv3 (va_node g marked vtop hleft st vk).
  Proof.
    intros Hvk I. unfold va_node. set (nb := bk_neigh g vtop vk).
    destruct (Nat.eqb_spec (length nb) 0) as [Hd|Hd]; auto.
    apply fold_inv with (Q := fun m => m < length nb); auto.
    - intros m Hm. eapply median_idx_lt; eauto.
    - clear st I. intros [[al rt] r] m Hm I. unfold va_inv3 in I. cbn [fst snd] in I.
      destruct (Nat.eqb_spec (nget al vk) vk) as [Hself|]; auto.
      destruct (nth m nb (0, 0)) as [u uv] eqn:Enb.
      destruct (_ && _); auto.
      assert (Hin : In (u, uv) nb) by (rewrite <- Enb; apply nth_In; auto).
      destruct (bk_neigh_spec vk u uv Hvk Hin) as [Hu Hlev].
      unfold va_inv3. cbn [fst snd]. apply va_step; auto.
  Qed.

  Lemma vertical_align_inv : va_inv (fst (vertical_align g marked vtop hleft)) (snd (vertical_align g marked vtop hleft)).
  Proof.
    unfold vertical_align.
    apply fold_inv with (P := fun ar : list nat * list nat => va_inv (fst ar) (snd ar))
                        (Q := fun l : nat * list nat => fst l < length (g_L g) /\ snd l = l_nodes (glayer g (fst l))).
    - intros l Hl. eapply in_iter_layers; eauto.
    - intros [al rt] [i ns] [Hi Hns] I. cbn [fst snd] in *.
      match goal with |- context [fold_left ?F ?l ?a] =>
        assert (H3 : va_inv3 (fold_left F l a)) end.
      { apply fold_inv with (Q := fun v => lnode g v); auto.
        - intros v Hv. apply in_iter_nodes in Hv. subst ns. eapply in_layer_lnode; eauto.
        - intros st v Hv Hst. apply va_node_inv; auto. }
      destruct (fold_left _ _ _) as [[al' rt'] r']. exact H3.
    - cbn [fst snd]. apply va_inv_init.
  Qed.

  (** the orbit bound from the levels *)
  Lemma va_orbit al rt : va_inv al rt -> forall n x, lnode g x ->
    ((if vtop then 1 else Z.of_nat (length (g_L g))) - lev x <= Z.of_nat n)%Z ->
    exists j, j < n /\ iter_al al (S j) x = nget rt x.
  Proof.
    intros I. induction n as [|n IH]; intros x Hx Hb.
    - pose proof (lnode_layer_range g WF x Hx). unfold lev in Hb. destruct vtop; lia.
    - destruct (vi_lev I x Hx) as [H|H].
      + exists 0. split; [lia|]. exact H.
      + destruct (IH (nget al x)) as (j & Hj & Hit); [apply (vi_al_N I); auto|lia|].
        exists (S j). split; [lia|]. cbn [iter_al] in *. rewrite Hit. apply (vi_rt_al I); auto.
  Qed.

  Lemma va_inv_align_ok al rt : va_inv al rt -> align_ok g al rt.
  Proof.
    intros I. constructor; try apply I.
    intros x Hx. destruct (va_orbit al rt I (length (g_L g)) x Hx) as (j & Hj & Hit).
    - pose proof (lnode_layer_range g WF x Hx). unfold lev. destruct vtop; lia.
    - exists j. split; auto. pose proof (layers_le_arena g WF). lia.
  Qed.

  Theorem vertical_align_ok : align_ok g (fst (vertical_align g marked vtop hleft)) (snd (vertical_align g marked vtop hleft)).
  Proof. apply va_inv_align_ok, vertical_align_inv. Qed.
End Align.

(* ================================================================================================ *)
(** * horizontalCompaction *)

Lemma in_iter_layers_intro g vtop k : k < length (g_L g) -> In (k, l_nodes (glayer g k)) (iter_layers g vtop).
Proof.
  intros Hk. unfold iter_layers.
  assert (Hc : In (k, l_nodes (glayer g k)) (combine (iota 0 (length (g_L g))) (map l_nodes (g_L g)))).
  { replace (k, l_nodes (glayer g k)) with (nth k (combine (iota 0 (length (g_L g))) (map l_nodes (g_L g))) (0, @nil nat)).
    - apply nth_In. rewrite combine_length, iota_length, map_length. lia.
    - rewrite combine_nth by (rewrite iota_length, map_length; auto).
      rewrite iota_seq, seq_nth by auto. cbn [plus]. f_equal.
      unfold glayer. change (@nil nat) with (l_nodes layer0). apply map_nth. }
  destruct vtop; auto. apply in_rev. rewrite rev_involutive. exact Hc.
Qed.

Section Compaction2.
  Variables (g : graph) (vtop hleft : bool) (s : Q) (al rt : list nat).
  Hypothesis WF : bk_wf g.
  Hypothesis AO : align_ok g al rt.
  Let na := length (g_na g).
  Let F := 2 * na + 4.

  (** the loop "for alignment[v] != blockroot[v]" of the class shifts *)
  Lemma cs_inner_total : forall k v j c i, lnode g v -> i < k -> iter_al al (S i) v = nget rt v ->
    exists v' j' c', cs_inner g hleft s al rt k v j c = Ok (v', j', c') /\ lnode g v' /\
                     bk_xcoord c' = bk_xcoord c /\ ((j' = j /\ v' = v) \/ j < j').
  Proof.
    induction k as [|k IH]; intros v j c i Hv Hi Hit; [lia|].
    cbn [cs_inner]. destruct (Nat.eqb_spec (nget al v) (nget rt v)) as [Heq|Hne].
    - exists v, j, c. repeat split; auto.
    - destruct i as [|i]; [cbn in Hit; congruence|].
      assert (Hv1 : lnode g (nget al v)) by (apply (ao_al_N AO); auto).
      pose proof Hv1 as (kk & p & Hp).
      rewrite (layer_at_ok g WF 85 _ kk p Hp). cbn [bind].
      set (ns := l_nodes (glayer g kk)).
      destruct (first_in_ok 86 ns hleft) as (f & Hf & _); [apply (wf_nonempty WF); apply Hp|].
      rewrite Hf. cbn [bind].
      match goal with |- context [bind ?r _] => assert (Hc1 : exists c1, r = Ok c1 /\ bk_xcoord c1 = bk_xcoord c) end.
      { destruct (Nat.eqb_spec (nget al v) f) as [|Hnf]; [eauto|].
        destruct (next_in_ok g 87 86 ns p (nget al v) (negb hleft) f) as (u & p' & Hu & _); auto.
        - apply Hp.
        - apply (at_pos_pos g WF _ _ _ Hp).
        - unfold last_in. rewrite negb_involutive. exact Hf.
        - unfold prev_in. rewrite Hu. cbn [bind]. eexists. split; [reflexivity|]. reflexivity. }
      destruct Hc1 as (c1 & -> & Hx1). cbn [bind].
      destruct (IH (nget al v) (S j) c1 i) as (v' & j' & c' & E & Hv' & Hx & Hj); auto; [lia| |].
      + cbn [iter_al] in *. rewrite Hit. symmetry. apply (ao_rt_al AO); auto.
      + exists v', j', c'. repeat split; auto; [congruence|]. right. destruct Hj as [[-> _]|]; lia.
  Qed.

  Lemma cs_outer_total : forall fuel j k c, (0 <= k)%Z -> 1 <= fuel ->
    (Z.of_nat (sum_from (layer_lens g) j) + 1 <= Z.of_nat fuel + k)%Z ->
    exists c', cs_outer g hleft s al rt F fuel j k c = Ok c' /\ bk_xcoord c' = bk_xcoord c.
  Proof.
    induction fuel as [|fuel IH]; intros j k c Hk Hf Hm; [lia|].
    cbn [cs_outer]. destruct (Nat.ltb_spec j (length (g_L g))) as [Hj|Hj]; cbn [negb]; [|eauto].
    set (ns := l_nodes (glayer g j)).
    destruct (Z.ltb_spec k (Z.of_nat (length ns))) as [Hlt|Hge]; cbn [negb]; [|eauto].
    destruct (nth_error ns (Z.to_nat k)) as [vjk|] eqn:Evjk; [|apply nth_error_None in Evjk; lia].
    assert (Hnode : node_at 88 ns k = Ok vjk).
    { rewrite <- (Z2Nat.id k) by lia. apply node_at_ok. exact Evjk. }
    rewrite Hnode. cbn [bind].
    assert (Hat : at_pos g vjk j (Z.to_nat k)) by (split; auto).
    assert (Hvl : lnode g vjk) by (exists j, (Z.to_nat k); auto).
    destruct (ao_orbit AO vjk Hvl) as (i & Hi & Hit).
    destruct (cs_inner_total F vjk j c i) as (v' & j' & c' & E & Hv' & Hx & Hjj); auto; [unfold F, na; lia|].
    rewrite E. cbn [bind].
    pose proof (lnode_pos_nonneg g WF v' Hv') as Hpos.
    pose proof (sum_from_step (layer_lens g) j) as Hstep. rewrite layer_lens_nth in Hstep. fold ns in Hstep.
    destruct (IH j' (n_pos (gnode g v') + 1)%Z c') as (c2 & E2 & Hx2).
    - lia.
    - destruct Hjj as [[-> ->]|Hjj].
      + lia.
      + pose proof (sum_from_mono (layer_lens g) (S j) j' Hjj). lia.
    - destruct Hjj as [[-> ->]|Hjj].
      + rewrite (at_pos_pos g WF _ _ _ Hat). lia.
      + pose proof (sum_from_mono (layer_lens g) (S j) j' Hjj). lia.
    - exists c2. split; auto. congruence.
  Qed.

  Lemma cs_layer_total c li : li < length (g_L g) ->
    exists c', cs_layer g hleft s al rt F c li (l_nodes (glayer g li)) = Ok c' /\ bk_xcoord c' = bk_xcoord c.
  Proof.
    intros Hli. unfold cs_layer.
    destruct (first_in_ok 89 (l_nodes (glayer g li)) hleft) as (n & Hn & _); [apply (wf_nonempty WF); auto|].
    rewrite Hn. cbn [bind]. destruct (negb _); [eauto|].
    match goal with |- context [cs_outer _ _ _ _ _ _ _ _ _ ?c0] =>
      destruct (cs_outer_total F li 0%Z c0) as (c' & E & Hx) end.
    - lia.
    - unfold F. lia.
    - pose proof (sum_from_mono (layer_lens g) 0 li). pose proof (layers_total g WF). unfold F, na. lia.
    - exists c'. split; auto. rewrite Hx. destruct (shget _ _); reflexivity.
  Qed.

  Definition has_coord (xc : list (option Q)) : Prop := exists i, nth i xc None <> None.

  Theorem horizontal_compaction_total r0 : lnode g r0 -> nget rt r0 = r0 ->
    exists xc, horizontal_compaction g s vtop hleft al rt = Ok xc /\ has_coord xc.
  Proof.
    intros Hr0 Hrr. unfold horizontal_compaction. fold na. fold F.
    destruct Hr0 as (k0 & p0 & Hat0).
    set (c0 := mkBkc _ _ _ _).
    assert (Hphi0 : phi g c0).
    { subst c0. repeat split; cbn; try apply repeat_length.
      intros i Hi. exfalso. revert Hi. rewrite nth_repeat. discriminate. }
    set (E := fun c : bkc => exists i, nth i (bk_xcinit c) false = true).
    (* placement of the blocks *)
    match goal with |- context [bind (fold_left ?Fo ?lo (Ok c0))] =>
      destruct (fold_res_ok (phi g) E
                  (fun l : nat * list nat => fst l < length (g_L g) /\ snd l = l_nodes (glayer g (fst l)))
                  (k0, l_nodes (glayer g k0)) Fo lo) with (a := c0) as (c1 & E1 & Hphi1 & HE1); auto end.
    { intros l Hl. eapply in_iter_layers; eauto. }
    { intros c [li ns] [Hli Hns] Hphi. cbn [fst snd] in *.
      match goal with |- context [fold_left ?Fi ?l (Ok c)] =>
        destruct (fold_res_ok (phi g) E (lnode g) r0 Fi l) with (a := c) as (c' & E' & Hphi' & HE'); auto end.
      - intros v Hv. apply in_iter_nodes in Hv. subst ns. eapply in_layer_lnode; eauto.
      - clear c Hphi. intros c v Hv Hphi. cbn [bind].
        destruct (Nat.eqb_spec (nget rt v) v) as [Hroot|Hnr].
        + destruct (bk_place_block_total g hleft s al rt WF AO F) with (fuel := F) (v := v) (c := c)
            as (c' & Ec' & Hext & Hinit); auto.
          * unfold F, na. lia.
          * destruct Hphi as (L1 & _). pose proof (cnt_false_le (bk_xcinit c)). unfold F, na in *. lia.
          * exists c'. split; auto. split; [apply Hext|]. split.
            -- intros (i & Hi). exists i. apply Hext; auto.
            -- intros _. exists v; auto.
        + exists c. split; [reflexivity|]. split; [exact Hphi|]. split; [auto|]. intros ->. congruence.
      - exists c'. split; [exact E'|]. split; [exact Hphi'|]. split; [auto|].
        intros Heq. apply HE'. right. injection Heq as -> ->. apply in_iter_nodes. eapply nth_error_In. apply Hat0. }
    rewrite E1. cbn [bind].
    assert (Hc1 : has_coord (bk_xcoord c1)).
    { destruct HE1 as (i & Hi).
      - right. apply in_iter_layers_intro. apply Hat0.
      - exists i. apply Hphi1; auto. }
    (* class shifts *)
    match goal with |- context [bind (fold_left ?Fo ?lo (Ok c1))] =>
      destruct (fold_res_total (fun c => bk_xcoord c = bk_xcoord c1)
                  (fun l : nat * list nat => fst l < length (g_L g) /\ snd l = l_nodes (glayer g (fst l)))
                  Fo lo) with (a := c1) as (c2 & E2 & Hx2); auto end.
    { intros l Hl. eapply in_iter_layers; eauto. }
    { intros c [li ns] [Hli Hns] Hx. cbn [fst snd bind] in *. subst ns.
      destruct (cs_layer_total c li Hli) as (c' & Ec' & Hx'). exists c'. split; auto. congruence. }
    rewrite E2. cbn [bind]. eexists. split; [reflexivity|].
    rewrite Hx2. destruct Hc1 as (i & Hi). exists i.
    apply fold_inv with (Q := fun _ : nat => True); auto.
    intros xc n _ Hxc. destruct (shget _ _); auto. apply nth_set_nth_Some; auto.
  Qed.
End Compaction2.

(* ================================================================================================ *)
(** * The four layouts, balancing *)

Lemma bk_size_some g xc : has_coord xc -> exists sz, bk_size g xc = Some sz.
Proof.
  intros (i & Hi). unfold bk_size.
  match goal with |- context [fold_left ?f ?l0 None] =>
    assert (Hsome : forall l p, exists q, fold_left f l (Some p) = Some q);
    [|assert (Hex : forall l acc, (exists x, In x l /\ snd x <> None) -> exists q, fold_left f l acc = Some q)] end.
  - induction l as [|[j [x|]] l IH]; intros [mn mx]; cbn; eauto.
  - induction l as [|[j [x|]] l IH]; intros acc (y & Hy & Hs); cbn in *.
    + destruct Hy.
    + destruct acc as [[mn mx]|]; apply Hsome.
    + apply IH. destruct Hy as [<-|Hy]; [cbn in Hs; congruence|eauto].
  - destruct (Hex (combine (iota 0 (length xc)) xc) None) as ([mn mx] & ->); eauto.
    assert (Hlt : i < length xc).
    { destruct (Nat.lt_ge_cases i (length xc)); auto. rewrite nth_overflow in Hi; auto. congruence. }
    exists (nth i (combine (iota 0 (length xc)) xc) (0, None)). split.
    + apply nth_In. rewrite combine_length, iota_length. lia.
    + rewrite combine_nth by apply iota_length. exact Hi.
Qed.

Lemma balance_layouts_total g x0 x1 x2 x3 : has_coord x0 -> has_coord x1 -> has_coord x2 -> has_coord x3 ->
  exists xc, balance_layouts g [x0; x1; x2; x3] = Ok xc.
Proof.
  intros H0 H1 H2 H3. unfold balance_layouts. destruct (g_N g); [eauto|].
  destruct (bk_size_some g x0 H0) as (s0 & E0). destruct (bk_size_some g x1 H1) as (s1 & E1).
  destruct (bk_size_some g x2 H2) as (s2 & E2). destruct (bk_size_some g x3 H3) as (s3 & E3).
  cbn [fold_right bind]. rewrite E3. cbn [bind]. rewrite E2. cbn [bind]. rewrite E1. cbn [bind]. rewrite E0. cbn [bind].
  eauto.
Qed.

Lemma bk_layout_total g marked s i : bk_wf g -> g_L g <> [] ->
  exists xc, bk_layout g marked s i = Ok xc /\ has_coord xc.
Proof.
  intros WF HL. unfold bk_layout.
  pose proof (vertical_align_ok g marked (layout_v i) (layout_h i) WF) as AO.
  destruct (vertical_align g marked (layout_v i) (layout_h i)) as [al rt]. cbn [fst snd] in AO.
  (* some node of layer 0, and its root *)
  assert (H0 : 0 < length (g_L g)) by (destruct (g_L g); [congruence|cbn; lia]).
  pose proof (wf_nonempty WF 0 H0) as Hne.
  destruct (l_nodes (glayer g 0)) as [|x t] eqn:El; [congruence|].
  assert (Hx : lnode g x) by (exists 0, 0; split; auto; rewrite El; reflexivity).
  apply (horizontal_compaction_total g (layout_v i) (layout_h i) s al rt WF AO (nget rt x)).
  - apply (ao_rt_N AO); auto.
  - apply (ao_rt_rt AO); auto.
Qed.

(* ================================================================================================ *)
(** * execBrandesKoepf always returns *)

Theorem exec_bk_total : forall variant spacing g, bk_wf g -> exists g', exec_bk variant spacing g = Ok g'.
Proof.
  intros variant spacing g WF. rewrite exec_bk_eq.
  destruct (g_L g) as [|l0 L] eqn:EL; [eauto|].
  assert (HL : g_L g <> []) by (rewrite EL; discriminate).
  destruct (mark_conflicts_total g WF) as (marked & ->). cbn [bind].
  destruct (bk_layout_total g marked spacing 0 WF HL) as (x0 & -> & H0). cbn [bind].
  destruct (bk_layout_total g marked spacing 1 WF HL) as (x1 & -> & H1). cbn [bind].
  destruct (bk_layout_total g marked spacing 2 WF HL) as (x2 & -> & H2). cbn [bind].
  destruct (bk_layout_total g marked spacing 3 WF HL) as (x3 & -> & H3). cbn [bind].
  assert (Hfin : exists final, bk_final variant spacing g [x0; x1; x2; x3] = Ok final).
  { unfold bk_final. destruct (_ && _); [eauto|].
    destruct (balance_layouts_total g x0 x1 x2 x3 H0 H1 H2 H3) as (bal & ->). cbn [bind].
    destruct (verify_layout g spacing bal); eauto. }
  destruct Hfin as (final & ->). cbn [bind]. eauto.
Qed.
Print Assumptions exec_bk_total.

Theorem phase4_bk_total : forall variant p g, bk_wf g -> exists g', phase4_bk variant p g = Ok g'.
Proof.
  intros variant p g WF. unfold phase4_bk. destruct (Nat.eqb (length (g_N g)) 1) eqn:E1.
  - unfold phase4. rewrite E1. destruct (g_N g); eauto.
  - destruct (exec_bk_total variant (node_spacing p) g WF) as (g' & ->). cbn [bind]. eauto.
Qed.
Print Assumptions phase4_bk_total.

(* ================================================================================================ *)
(** * A decision procedure for [bk_wf], and examples *)

Definition lnode_b (g : graph) (v : nat) : bool := existsb (fun l => mem_nat v (l_nodes l)) (g_L g).

Definition bk_wf_node_b (g : graph) (k p v : nat) : bool :=
  Nat.ltb v (length (g_na g)) && Z.eqb (n_layer (gnode g v)) (Z.of_nat k) && Z.eqb (n_pos (gnode g v)) (Z.of_nat p) &&
  forallb (fun e => Nat.eqb (e_to (gedge g e)) v &&
                    (negb (viable g e) ||
                     (lnode_b g (e_from (gedge g e)) &&
                      Z.eqb (n_layer (gnode g (e_from (gedge g e)))) (n_layer (gnode g v) - 1)))) (n_in (gnode g v)) &&
  forallb (fun e => negb (viable g e) ||
                    (lnode_b g (e_to (gedge g e)) &&
                     Z.eqb (n_layer (gnode g (e_to (gedge g e)))) (n_layer (gnode g v) + 1))) (n_out (gnode g v)).

Definition bk_wf_b (g : graph) : bool :=
  forallb (fun kl : nat * layer =>
     negb (Nat.eqb (length (l_nodes (snd kl))) 0) &&
     forallb (fun pv : nat * nat => bk_wf_node_b g (fst kl) (fst pv) (snd pv))
             (combine (iota 0 (length (l_nodes (snd kl)))) (l_nodes (snd kl))))
    (combine (iota 0 (length (g_L g))) (g_L g)).

Lemma in_combine_iota_nth {A} (l : list A) i x : nth_error l i = Some x -> In (i, x) (combine (iota 0 (length l)) l).
Proof.
  intros Hi. assert (Hlt : i < length l) by (apply nth_error_Some; congruence).
  replace (i, x) with (nth i (combine (iota 0 (length l)) l) (0, x)).
  - apply nth_In. rewrite combine_length, iota_length. lia.
  - rewrite combine_nth by apply iota_length. rewrite iota_seq, seq_nth by auto. cbn [plus]. f_equal.
    apply nth_error_nth; auto.
Qed.

Lemma lnode_b_sound g v : lnode_b g v = true -> lnode g v.
Proof.
  unfold lnode_b. intros H. apply existsb_exists in H. destruct H as (l & Hl & Hv).
  apply mem_nat_In in Hv. apply (In_nth _ _ layer0) in Hl. destruct Hl as (k & Hk & <-).
  apply In_nth_error in Hv. destruct Hv as (p & Hp). exists k, p. split; auto.
Qed.

Theorem bk_wf_b_sound g : bk_wf_b g = true -> bk_wf g.
Proof.
  unfold bk_wf_b. intros H. rewrite forallb_forall in H.
  assert (Hlay : forall k, k < length (g_L g) ->
            l_nodes (glayer g k) <> [] /\
            forall p v, nth_error (l_nodes (glayer g k)) p = Some v -> bk_wf_node_b g k p v = true).
  { intros k Hk. specialize (H (k, glayer g k)). cbn [fst snd] in H.
    assert (Hin : In (k, glayer g k) (combine (iota 0 (length (g_L g))) (g_L g))).
    { apply in_combine_iota_nth. unfold glayer. apply nth_error_nth'. exact Hk. }
    apply H in Hin. apply andb_prop in Hin. destruct Hin as [Hne Hall]. split.
    - intros E. rewrite E in Hne. discriminate.
    - intros p v Hp. rewrite forallb_forall in Hall. apply (Hall (p, v)). apply in_combine_iota_nth. exact Hp. }
  assert (Hnode : forall v k p, at_pos g v k p -> bk_wf_node_b g k p v = true).
  { intros v k p [Hk Hp]. apply (Hlay k Hk). exact Hp. }
  constructor.
  - intros k Hk. apply (Hlay k Hk).
  - intros v k p Hat. apply Hnode in Hat. unfold bk_wf_node_b in Hat.
    repeat (apply andb_prop in Hat; destruct Hat as [Hat ?]).
    apply Nat.ltb_lt in Hat. repeat split; auto; apply Z.eqb_eq; auto.
  - intros v e (k & p & Hat) He Hv. pose proof (Hnode _ _ _ Hat) as Hb. unfold bk_wf_node_b in Hb.
    repeat (apply andb_prop in Hb; destruct Hb as [Hb ?]).
    match goal with Hf : forallb _ (n_in _) = true |- _ => rewrite forallb_forall in Hf; specialize (Hf e He);
      apply andb_prop in Hf; destruct Hf as [_ Hf] end.
    rewrite Hv in *. cbn [negb orb] in *.
    match goal with Hf : _ && _ = true |- _ => apply andb_prop in Hf; destruct Hf as [Hf1 Hf2] end.
    split; [apply lnode_b_sound; auto|apply Z.eqb_eq; auto].
  - intros v e (k & p & Hat) He Hv. pose proof (Hnode _ _ _ Hat) as Hb. unfold bk_wf_node_b in Hb.
    repeat (apply andb_prop in Hb; destruct Hb as [Hb ?]).
    match goal with Hf : forallb _ (n_out _) = true |- _ => rewrite forallb_forall in Hf; specialize (Hf e He) end.
    rewrite Hv in *. cbn [negb orb] in *.
    match goal with Hf : _ && _ = true |- _ => apply andb_prop in Hf; destruct Hf as [Hf1 Hf2] end.
    split; [apply lnode_b_sound; auto|apply Z.eqb_eq; auto].
  - intros v e (k & p & Hat) He. pose proof (Hnode _ _ _ Hat) as Hb. unfold bk_wf_node_b in Hb.
    repeat (apply andb_prop in Hb; destruct Hb as [Hb ?]).
    match goal with Hf : forallb _ (n_in _) = true |- _ => rewrite forallb_forall in Hf; specialize (Hf e He);
      apply andb_prop in Hf; destruct Hf as [Hf _] end.
    apply Nat.eqb_eq; auto.
Qed.

(** [gB] of BKProofs.v: three layers, the long edge 0 -> (2, virtual) -> 4 and four short edges *)
Example ex_gB_wf : bk_wf gB.
Proof. apply bk_wf_b_sound. vm_compute. reflexivity. Qed.

Example ex_gB_total v : exists g', exec_bk v 10 gB = Ok g'.
Proof. apply exec_bk_total, ex_gB_wf. Qed.

(** Four layers (markConflicts is a no-op below four): the long edge 0 -> (2) -> (5) -> 7 with the inner segment
    2 -> 5 from position 0 to position 1, crossed by the short edge 3 -> 4 from position 1 to position 0:
    a type 1 conflict, edge 3 is marked. Further edges 1 -> 3, 4 -> 6. *)
Definition gT : graph :=
  mkGraph
    [ mkNode [] [0] 0 0 false 0 0 30 20;
      mkNode [] [4] 0 1 false 0 0 20 12;
      mkNode [0] [1] 1 0 true 0 0 0 0;
      mkNode [4] [3] 1 1 false 0 0 50 10;
      mkNode [3] [5] 2 0 false 0 0 10 15;
      mkNode [1] [2] 2 1 true 0 0 0 0;
      mkNode [5] [] 3 0 false 0 0 40 25;
      mkNode [2] [] 3 1 false 0 0 16 8 ]
    [ mkEdge 0 2 1 1 false false 0 [] false;
      mkEdge 2 5 1 1 false false 0 [] false;
      mkEdge 5 7 1 1 false false 0 [] false;
      mkEdge 3 4 1 1 false false 0 [] false;
      mkEdge 1 3 1 1 false false 0 [] false;
      mkEdge 4 6 1 1 false false 0 [] false ]
    [0; 1; 2; 3; 4; 5; 6; 7] [0; 1; 2; 3; 4; 5]
    [ mkLayer [0; 1] 0 0; mkLayer [2; 3] 0 0; mkLayer [4; 5] 0 0; mkLayer [6; 7] 0 0 ].

Example ex_gT_wf : bk_wf gT.
Proof. apply bk_wf_b_sound. vm_compute. reflexivity. Qed.

Example ex_gT_conflict : mark_conflicts gT = Ok [3].
Proof. vm_compute. reflexivity. Qed.

Example ex_gT_total v : exists g', exec_bk v 10 gT = Ok g'.
Proof. apply exec_bk_total, ex_gT_wf. Qed.

Example ex_gT_runs : map (fun v => is_ok (exec_bk v 10 gT)) [-1; 0; 1; 2; 3]%Z = [true; true; true; true; true].
Proof. vm_compute. reflexivity. Qed.

(** the clauses of [bk_wf] are needed: an empty layer makes the model (and the Go code) fail *)
Definition gT_empty_layer : graph := with_L gT (g_L gT ++ [mkLayer [] 0 0]).
Example ex_empty_layer_fails : exec_bk (-1) 10 gT_empty_layer = Err (ErrIndex 89) /\ bk_wf_b gT_empty_layer = false.
Proof. split; vm_compute; reflexivity. Qed.
