(* BKTotal3.v — "Layout always returns" with the Brandes-Koepf positioner: [layout_component_x] and [layout_x]
   (Model/PipelineBK.v) return Ok. Mirrors TotalPipeline.v; the new ingredients are
   - no band of the layering is empty (longest path: the heights 1..max all occur; network simplex:
     NSOptFinal.phase2_ns_no_empty_band), and this survives the breaking of long edges and the ordering;
   - hence the state handed to phase 4 satisfies [bk_wf] and BKTotal2.phase4_bk_total applies;
   - Brandes-Koepf only writes x (and assign_y only y), so phase 5 is total on its output. *)
From Autog Require Import Base Graph Populate Phase1 Phase2 Phase3 Phase4 Phase5 Layout Wmedian Pipeline BK PipelineBK.
From Autog.Proofs Require Import ListLemmas Consistent SelfLoopProofs ComponentsProofs.
From Autog.Proofs Require CBBase CBGreedy CBGreedyRanks CBDepthFirst CBHasCycles CycleBreaking LongestPath
                          OptNormalize OptVbalance OptPipeline WmedianProofs Optimality NSOptFinal.
From Autog.Proofs Require Import Positioners Routes BreakMerge SinkColoringProofs E2EBridge E2EBackbone E2EOutput
                                 E2EFrontend NSBridge WholeBridge.
From Autog.Proofs Require NSDefs OptInit TotalNS TotalWmedian TotalSink PopulateProofs SizesProofs Summary.
From Autog.Proofs Require Import TotalPipeline.
Import TotalNS.
From Autog.Proofs Require BKProofs BKTotal BKTotal2.
From Coq Require Import Permutation Lia Lqa.
Local Open Scope nat_scope.

(* ====================================================================================================== *)
(** * 1. No band of the layering is empty                                                                  *)
(* ====================================================================================================== *)

(** longest path, unit minimum lengths: below every node there are nodes of all smaller heights *)
Lemma lp_heights_full : forall g h,
  LongestPath.consistent g -> LongestPath.is_height g h -> LongestPath.unit_delta g ->
  forall k n v, In n (g_N g) -> (1 <= v <= h n)%Z -> (h n - v <= Z.of_nat k)%Z ->
  exists m, In m (g_N g) /\ h m = v.
Proof.
  intros g h C Hh Hd. induction k as [|k IH]; intros n v Hn Hv Hk.
  - exists n. split; [exact Hn|lia].
  - destruct (Z.eq_dec (h n) v) as [E|NE]; [exists n; auto|].
    pose proof (Hh n Hn) as Hstep. unfold LongestPath.hstep in Hstep.
    destruct (LongestPath.hfold_attained g h (n_out (gnode g n)) 1%Z) as [E1|(e & He & Hsl & E1)].
    + rewrite E1 in Hstep. lia.
    + rewrite E1 in Hstep. rewrite (Hd n e Hn He) in Hstep.
      destruct (LongestPath.c_out C n Hn e He) as [_ Hto].
      apply (IH (e_to (gedge g e)) v Hto); lia.
Qed.

Lemma lp_no_empty_band : forall g g2a g2,
  LongestPath.consistent g -> LongestPath.ranked g -> LongestPath.unit_delta g -> g_N g <> [] ->
  exec_longest_path g = Ok g2a -> init_layer_slices g2a = Ok g2 ->
  forall i, i < length (g_L g2) -> l_nodes (glayer g2 i) <> [].
Proof.
  intros g g2a g2 C R Hd Hne E2a Esl.
  pose proof (LongestPath.height_is_height g C R) as Hh.
  pose proof (LongestPath.exec_longest_path_post g g2a _ C R Hh E2a) as Hp.
  set (h := LongestPath.height g) in *.
  apply (OptPipeline.slices_no_empty_band g2a g2 Esl).
  intros k Hk.
  assert (HN : g_N g2a = g_N g) by apply (LongestPath.lp_N _ _ _ Hp).
  assert (Hlay : forall n, In n (g_N g) -> layer_of g2a n = (LongestPath.nlayers g h - h n)%Z).
  { intros n Hn. apply (LongestPath.lp_layer _ _ _ Hp n Hn). }
  (* the maximum height is attained *)
  destruct (LongestPath.maxl_spec h (g_N g)) as (_ & Hub & Hatt).
  fold (LongestPath.nlayers g h) in Hub, Hatt.
  assert (Htop : exists n0, In n0 (g_N g) /\ h n0 = LongestPath.nlayers g h).
  { destruct Hatt as [Hz|Hatt]; [|exact Hatt].
    destruct (g_N g) as [|n0 t] eqn:EN; [congruence|].
    assert (Hn0 : In n0 (g_N g)) by (rewrite EN; left; reflexivity).
    pose proof (LongestPath.height_ge1 g h n0 Hh Hn0). rewrite <- EN in Hub. specialize (Hub n0 Hn0). lia. }
  destruct Htop as (n0 & Hn0 & Htop).
  pose proof (LongestPath.height_ge1 g h n0 Hh Hn0) as Hge1.
  (* the highest layer index is at most nlayers - 1 *)
  assert (Hmax : (OptVbalance.vb_lmax g2a <= LongestPath.nlayers g h - 1)%Z).
  { unfold OptVbalance.vb_lmax.
    destruct (OptNormalize.fold_max_spec (layer_of g2a) (g_N g2a) 0%Z) as (_ & _ & [E|(m & Hm & E)]); cbv zeta in *.
    - rewrite E. lia.
    - rewrite E. rewrite HN in Hm. rewrite (Hlay m Hm). pose proof (LongestPath.height_ge1 g h m Hh Hm). lia. }
  destruct (lp_heights_full g h C Hh Hd (Z.to_nat (LongestPath.nlayers g h)) n0 (LongestPath.nlayers g h - k)%Z Hn0)
    as (m & Hm & Em); [lia|lia|].
  exists m. split; [rewrite HN; exact Hm|]. rewrite (Hlay m Hm). lia.
Qed.

(** the layering phase of the pipeline leaves no band empty *)
Lemma phase2_no_empty_band : forall o g g0 del g1 g2,
  stage01 g g0 del g1 -> 2 <= length (g_N g1) ->
  phase2 (o_p2 o) (Layout.ns_params o) g1 = Ok g2 ->
  forall i, i < length (g_L g2) -> l_nodes (glayer g2 i) <> [].
Proof.
  intros o g g0 del g1 g2 S TWO P2.
  pose proof (s1_c _ _ _ _ S) as C1. pose proof (s1_ranked _ _ _ _ S) as R1.
  assert (UD : forall e, In e (g_E g1) -> e_delta (gedge g1 e) = 1%Z).
  { intros e He. apply (s1_edge _ _ _ _ S e He). }
  assert (N1 : Nat.eqb (length (g_N g1)) 1 = false) by (apply Nat.eqb_neq; lia).
  destruct (o_p2 o) eqn:EA.
  - unfold phase2, assign_layers in P2. rewrite N1 in P2.
    destruct (exec_longest_path g1) as [g2a|] eqn:E2a; cbn [bind] in P2; [|discriminate].
    apply (lp_no_empty_band g1 g2a g2 (cb_lp_consistent g1 C1) (cb_lp_ranked g1 C1 R1)); auto.
    + intros n e Hn He. apply UD. destruct C1 as [_ _ HO _]. destruct (HO n Hn) as [_ Hiff]. apply Hiff in He. apply He.
    + destruct (g_N g1); [cbn in TWO; lia|discriminate].
  - destruct (ns_wf_of_consistent g1 C1 R1) as [W Hac].
    apply (NSOptFinal.phase2_ns_no_empty_band (Layout.ns_params o) g1 g2 W Hac); auto.
    + cbn. discriminate.
    + lia.
Qed.

(* ====================================================================================================== *)
(** * 2. The input of phase 4 satisfies [bk_wf]                                                            *)
(* ====================================================================================================== *)
Import BKTotal.

Lemma lnode_in_layers : forall g v, lnode g v <-> in_layers g v.
Proof.
  intros g v. split.
  - intros (k & p & Hk & Hp). eapply in_layers_intro; [unfold glayer; apply nth_In, Hk|]. eapply nth_error_In, Hp.
  - intros H. destruct (TotalSink.in_layers_idx g v H) as (i & k & Hi & Hk & ->).
    exists i, k. split; [exact Hi|]. apply nth_error_nth'. exact Hk.
Qed.

Lemma sc_proper_bk_wf : forall g,
  TotalSink.sc_proper g -> WmedianProofs.layered g ->
  (forall e, In e (g_E g) -> span g e = 1%Z) ->
  (forall i, i < length (g_L g) -> l_nodes (glayer g i) <> []) ->
  bk_wf g.
Proof.
  intros g P Ly SP NE.
  assert (HN : forall v, lnode g v <-> In v (g_N g)).
  { intros v. rewrite lnode_in_layers. symmetry. apply (TotalSink.sp_N g P). }
  constructor.
  - exact NE.
  - intros v k p [Hk Hp].
    assert (Hlt : p < length (l_nodes (glayer g k))) by (apply nth_error_Some; congruence).
    assert (Ev : nth p (l_nodes (glayer g k)) 0 = v) by (apply nth_error_nth; exact Hp).
    destruct (TotalSink.sp_idx g P k p Hk Hlt) as [A B]. rewrite Ev in A, B.
    split; [|split; [exact A|exact B]].
    apply (TotalSink.sp_range g P). apply HN. exists k, p. split; assumption.
  - intros v e Hv He _. apply HN in Hv. destruct (TotalSink.sp_in g P v e Hv He) as (_ & Hf & Hl).
    split; [apply HN; exact Hf|]. unfold layer_of in Hl. lia.
  - intros v e Hv He _. apply HN in Hv.
    apply (WmedianProofs.ly_out g Ly v Hv) in He. destruct He as [He Hf].
    destruct (WmedianProofs.ly_ends g Ly e He) as [_ Hto].
    split; [apply HN; exact Hto|]. pose proof (SP e He) as Hs. unfold span, layer_of in Hs. rewrite Hf in Hs. lia.
  - intros v e Hv He. apply HN in Hv. apply (TotalSink.sp_in g P v e Hv He).
Qed.

(* the ordered state: bands stay non-empty under the breaking of long edges and the permutation of the layers *)
Lemma ordered_bk_wf : forall g1 g2 g3 k g3',
  stage23 g1 g2 g3 k -> WmedianProofs.layered g3 -> WmedianProofs.order_contract g3 g3' ->
  (forall i, i < length (g_L g2) -> l_nodes (glayer g2 i) <> []) ->
  bk_wf g3'.
Proof.
  intros g1 g2 g3 k g3' S23 LY3 OCw NE2.
  pose proof (ordered_sc_proper g3 g3' LY3 (s3_span _ _ _ _ S23) OCw) as P.
  pose proof OCw as OCw'. apply WmedianProofs.order_contract_iff in OCw'. destruct OCw' as [FR PI].
  apply sc_proper_bk_wf; [exact P|apply (WmedianProofs.layered_frame g3 g3' LY3 FR)| |].
  - intros e He. rewrite (WmedianProofs.of_E _ _ FR) in He. unfold span.
    rewrite (WmedianProofs.of_gedge g3 g3' e FR), !(WmedianProofs.of_layer_of g3 g3' _ FR).
    apply (s3_span _ _ _ _ S23 e He).
  - intros i Hi. rewrite (WmedianProofs.of_L _ _ FR), (s3_L _ _ _ _ S23) in Hi.
    pose proof (NE2 i Hi) as Hne.
    destruct (l_nodes (glayer g2 i)) as [|x t] eqn:E2; [congruence|].
    assert (H3 : In x (l_nodes (glayer g3 i))) by (apply (s3_layer_sub _ _ _ _ S23); rewrite E2; left; reflexivity).
    destruct (WmedianProofs.of_layer _ _ FR i) as (_ & _ & Perm). unfold CrossCountProofs.lnodes in Perm.
    apply (Permutation_in _ (Permutation_sym Perm)) in H3. intros E. rewrite E in H3. destruct H3.
Qed.

(* ====================================================================================================== *)
(** * 3. Brandes-Koepf keeps the topology                                                                  *)
(* ====================================================================================================== *)
Lemma phase4_bk_same_topology : forall bk p g g4,
  Nat.eqb (length (g_N g)) 1 = false -> phase4_bk bk p g = Ok g4 -> same_topology g g4.
Proof.
  intros bk p g g4 N1 H. unfold phase4_bk in H. rewrite N1 in H.
  destruct (exec_bk bk (node_spacing p) g) as [gx|] eqn:Ex; cbn [bind] in H; [|discriminate].
  injection H as <-.
  pose proof (BKProofs.exec_bk_frame bk (node_spacing p) g gx Ex) as Fr.
  eapply same_topology_trans; [|apply assign_y_same_topology].
  apply same_topology_of_setx.
  - apply (BKProofs.bf_ea _ _ Fr).
  - apply (BKProofs.bf_E _ _ Fr).
  - apply (BKProofs.bkf_len_na _ _ Fr).
  - intros n. apply (BKProofs.bkf_gnode _ _ Fr n).
Qed.

(* ====================================================================================================== *)
(** * 4. One component                                                                                     *)
(* ====================================================================================================== *)
Theorem layout_component_x_total : forall bk o g,
  component_input g -> modelled_p5 (o_p5 o) -> o_p4 o = OtherPositioner -> p2_ready o g ->
  exists g' x, layout_component_x bk o g = Ok (g', x).
Proof.
  intros bk o g CI O5 O4 RD. unfold layout_component_x.
  destruct (ignore_self_loops g) as [g0 del] eqn:E0.
  assert (Eg0 : g0 = fst (ignore_self_loops g)) by (rewrite E0; reflexivity).
  destruct (phase1_returns o g CI) as [g1 P1]. rewrite <- Eg0 in P1. rewrite P1. cbn [bind].
  pose proof (stage01_ok o g g0 del g1 CI E0 P1) as S01.
  destruct (phase2_returns o g g0 del g1 CI S01 RD) as [g2 P2]. rewrite P2. cbn [bind].
  assert (TWO1 : 2 <= length (g_N g1)).
  { destruct (rev_star_frame _ _ (s1_rs _ _ _ _ S01)) as (-> & _). rewrite (s0_N _ _ _ _ S01). apply (ci_two _ CI). }
  pose proof (ns_premise_holds o g CI) as NS.
  assert (LO : forall g2a, match o_p2 o with
                           | LongestPath => exec_longest_path g1
                           | NetworkSimplex => exec_network_simplex (Layout.ns_params o) g1
                           end = Ok g2a -> layering_ok g1 g2a).
  { intros g2a Hg. destruct (o_p2 o) eqn:EA.
    - apply lp_layering_ok; [apply (s1_c _ _ _ _ S01)|apply (s1_ranked _ _ _ _ S01)| |exact Hg].
      intros e He. apply (s1_edge _ _ _ _ S01 e He).
    - apply (NS EA g1); [rewrite <- Eg0; exact P1|exact Hg]. }
  pose proof (phase2_no_empty_band o g g0 del g1 g2 S01 TWO1 P2) as NE2.
  destruct (stage23_ok (o_p2 o) (Layout.ns_params o) g1 g2 (s1_c _ _ _ _ S01) (s1_nonvirt _ _ _ _ S01) TWO1
              (s1_some_edge _ _ _ _ S01) LO P2) as (g3 & k & BR & S23).
  unfold phase3_wmedian.
  assert (N2 : Nat.eqb (length (g_N g2)) 1 = false).
  { apply Nat.eqb_neq. pose proof (s2_two _ _ _ _ S23). lia. }
  rewrite N2, (s2_L1 _ _ _ _ S23), BR. cbn [bind].
  pose proof (stage23_layered g1 g2 g3 k (s1_c _ _ _ _ S01) S23 BR) as LY3.
  destruct (TotalWmedian.exec_wmedian_total_contract wmedian_max_iter g3 LY3) as (g3' & cx & WE & OCw & _).
  { intros e He. apply span1_not_flat. apply (s3_span _ _ _ _ S23 e He). }
  rewrite WE. cbn [bind fst snd].
  pose proof (oc_of_wm g3 g3' OCw) as OC.
  (* phase 4 *)
  pose proof S23 as [PP PRE LOK WF2 PL2 INL2 ENDS TWO L1 S1 S2 S3 S4 S5 S6 S7 S8 WF3 PL3 SL SLH SUB SINL].
  destruct (order_contract_facts g3 g3' OC) as (T1 & OWF & OPL & OIN & OINL & OLH).
  pose proof OC as [Q1 Q2 Q3 Q4 Q5 Q6 Q7 Q8].
  assert (N3' : Nat.eqb (length (g_N g3')) 1 = false).
  { apply Nat.eqb_neq. rewrite Q2, S2, app_length. lia. }
  pose proof (ordered_bk_wf g1 g2 g3 k g3' S23 LY3 OCw NE2) as BW.
  unfold phase4x. rewrite O4.
  destruct (BKTotal2.phase4_bk_total bk (p4_params o) g3' BW) as [g4 P4]. rewrite P4. cbn [bind].
  (* phase 5 *)
  pose proof (phase4_bk_same_topology bk (p4_params o) g3' g4 N3' P4) as T2.
  pose proof (same_topology_trans _ _ _ T1 T2) as T.
  destruct (break_phase4_merge_roundtrip g2 g3 g4 PRE BR T)
    as (gm & routes & M & A1 & A2 & A3 & A4' & A5' & A6 & A7 & A8 & A9).
  assert (ND : NoDup (map fst routes)) by (rewrite A8; apply (bp_nodup PRE)).
  destruct (phase5_returns (o_p5 o) (o_layer_spacing o) g2 g4 gm routes O5 M ND A9) as [g5 P5].
  rewrite P5. cbn [bind]. eexists. eexists. reflexivity.
Qed.
Print Assumptions layout_component_x_total.

(* for every positioner but Brandes-Koepf, [layout_component_x] is [layout_component] *)
Lemma layout_component_x_eq : forall bk o g,
  o_p4 o <> OtherPositioner -> layout_component_x bk o g = layout_component o g.
Proof.
  intros bk o g H. unfold layout_component_x, layout_component, phase4x.
  destruct (o_p4 o); try reflexivity. congruence.
Qed.

(* hence totality for all the modelled positioners and Brandes-Koepf together *)
Corollary layout_component_x_total_all : forall bk o g,
  component_input g -> modelled_p5 (o_p5 o) -> o_p4 o = OtherPositioner \/ modelled_p4 (o_p4 o) -> p2_ready o g ->
  exists g' x, layout_component_x bk o g = Ok (g', x).
Proof.
  intros bk o g CI O5 [O4|O4] RD.
  - apply layout_component_x_total; assumption.
  - rewrite layout_component_x_eq.
    + apply layout_component_total; [assumption|split; assumption|assumption].
    + destruct O4 as [E|[E|E]]; rewrite E; discriminate.
Qed.

(* ====================================================================================================== *)
(** * 5. The whole Layout                                                                                  *)
(* ====================================================================================================== *)
Lemma phase4x_single : forall bk alg p g,
  Nat.eqb (length (g_N g)) 1 = true -> phase4x bk alg p g = phase4 alg p g.
Proof. intros bk alg p g H. destruct alg; try reflexivity. unfold phase4x, phase4_bk. rewrite H. reflexivity. Qed.

Lemma single_node_component_x_total : forall bk o c,
  length (g_N c) = 1 -> (forall n, In n (g_N c) -> (0 <= layer_of c n)%Z) ->
  exists g' x, layout_component_x bk o c = Ok (g', x).
Proof.
  intros bk o c ONE NN. unfold layout_component_x.
  destruct (ignore_self_loops c) as [g0 del] eqn:E0.
  assert (Eg0 : g0 = fst (ignore_self_loops c)) by (rewrite E0; reflexivity).
  assert (N0 : g_N g0 = g_N c) by (rewrite Eg0; apply ignore_self_loops_N).
  assert (ONE0 : Nat.eqb (length (g_N g0)) 1 = true) by (rewrite N0, ONE; reflexivity).
  unfold phase1. rewrite ONE0. cbn [bind].
  unfold phase2, assign_layers. rewrite ONE0. cbn [bind].
  assert (NN0 : OptVbalance.layers_nonneg g0).
  { intros n Hn. rewrite N0 in Hn. unfold layer_of. rewrite Eg0.
    destruct (node_attrs_fields _ _ (ignore_self_loops_attrs c n)) as (-> & _). apply (NN n Hn). }
  destruct (init_layer_slices_total g0 NN0) as [g2 E2]. rewrite E2. cbn [bind].
  destruct (slices_facts g0 g2 E2) as (_ & _ & N2 & _).
  assert (ONE2 : Nat.eqb (length (g_N g2)) 1 = true) by (rewrite N2; exact ONE0).
  unfold phase3_wmedian. rewrite ONE2. cbn [bind].
  rewrite (phase4x_single bk (o_p4 o) (p4_params o) g2 ONE2).
  unfold phase4. rewrite ONE2.
  destruct (g_N g2) as [|n t] eqn:EN; [cbn in ONE2; discriminate|]. cbn [bind].
  unfold phase5. cbn [upd_layer with_L g_N]. rewrite EN. cbn [length] in *. rewrite ONE2.
  cbn [bind]. eexists. eexists. reflexivity.
Qed.

Lemma layout_components_x_total : forall bk o cs shift,
  (forall c, In c cs -> exists g' x, layout_component_x bk o c = Ok (g', x)) ->
  exists r, layout_components_x bk o cs shift = Ok r.
Proof.
  intros bk o cs; induction cs as [|c rest IH]; intros shift H; cbn [layout_components_x].
  - eexists. reflexivity.
  - destruct (H c (or_introl eq_refl)) as (g' & x & E). rewrite E. cbn [bind].
    destruct (IH (shift + rightmost g' + o_node_spacing o)%Q (fun c' Hc' => H c' (or_intror Hc'))) as [[[ns es] xs] E'].
    rewrite E'. cbn [bind]. eexists. reflexivity.
Qed.

Section LayoutXTotal.
  Variable A : Type.
  Variable eqA : A -> A -> bool.
  Hypothesis eqA_ok : forall x y, eqA x y = true <-> x = y.

  (* the options: Brandes-Koepf (or one of the positioners of [modelled_p4]) and a modelled router; for network
     simplex the pivot budget thoroughness * sqrt(number of nodes) must stay below the fuel cap of the model *)
  Definition layout_x_options_ok (o : options) (es : list (list A)) : Prop :=
    (o_p4 o = OtherPositioner \/ modelled_p4 (o_p4 o)) /\ modelled_p5 (o_p5 o) /\
    (o_p2 o = NetworkSimplex -> (o_thoroughness o * Z.sqrt (Z.of_nat (2 * length es)) <= 100000)%Z).

  Theorem layout_x_total : forall bk o fixed sizes es,
    es <> [] -> Forall (fun p => length p = 2) es -> layout_x_options_ok o es ->
    exists ids r, layout_x A eqA bk o fixed sizes es = Ok (ids, r).
  Proof.
    intros bk o fixed sizes es NE ARITY (O4 & O5 & BUD). unfold layout_x.
    destruct (proj2 (@PopulateProofs.populate_ok_iff A eqA es) ARITY) as (ids & g & POP).
    rewrite POP. cbn [bind].
    pose proof (PopulateProofs.populate_wf eqA eqA_ok es POP) as P.
    (* ids is not empty *)
    assert (Hids : exists i0 ids', ids = i0 :: ids').
    { destruct ids as [|i0 ids']; [|eauto]. exfalso. destruct es as [|p es']; [congruence|].
      destruct (PopulateProofs.p_arity P p (or_introl eq_refl)) as (s & t & ->).
      apply (PopulateProofs.p_ids_complete P [s; t] s (or_introl eq_refl) (or_introl eq_refl)). }
    destruct Hids as (i0 & ids' & EI).
    assert (Hmatch : forall (X : Type) (a b : X), match ids with [] => a | _ :: _ => b end = b) by (intros; rewrite EI; reflexivity).
    rewrite Hmatch.
    destruct (Summary.frontend_consistent A eqA eqA_ok es ids g fixed sizes POP) as [C1 CC]. cbv zeta in *.
    set (g1 := apply_sizes A eqA fixed sizes ids g) in *.
    destruct (SizesProofs.apply_sizes_spec A eqA fixed sizes ids g (PopulateProofs.p_na_len P)) as (S1 & S2 & S3 & S4 & S5 & S6).
    cbv zeta in *. fold g1 in S1, S2, S3, S4, S5, S6.
    destruct (components_partition g1 C1) as (P1 & P2 & _ & _ & _ & _ & _ & _ & _ & _ & P11 & _). cbv zeta in *.
    (* the number of nodes *)
    assert (LenIds : length ids <= 2 * length es).
    { rewrite <- (length_concat_pairs A es ARITY). apply (NoDup_incl_length (PopulateProofs.p_nodup P)).
      intros x Hx. destruct (PopulateProofs.p_ids_sound P x Hx) as (p & Hp & Hxp). apply in_concat. eauto. }
    destruct (layout_components_x_total bk o (components g1) 0%Q) as [r E]; [|rewrite E; cbn [bind]; eauto].
    intros c Hc.
    assert (LenC : length (g_N c) <= length ids).
    { rewrite (P2 c Hc). eapply Nat.le_trans; [apply filter_length_le'|].
      rewrite S2, (PopulateProofs.p_N P), SinkColoringProofs.length_iota. lia. }
    destruct (Nat.le_gt_cases 2 (length (g_N c))) as [TWO|SMALL].
    - apply layout_component_x_total_all.
      + apply (frontend_component_input A eqA eqA_ok es ids g fixed sizes POP c Hc TWO).
      + exact O5.
      + exact O4.
      + intros ENS. split; [apply (component_connected g1 c C1 Hc)|].
        apply (sqrt_budget_mono _ (length (g_N c)) (2 * length es)); [lia|apply BUD, ENS].
    - assert (ONE : length (g_N c) = 1).
      { pose proof (P11 c Hc) as NEc. destruct (g_N c); [congruence|cbn [length] in *; lia]. }
      apply single_node_component_x_total; [exact ONE|].
      intros n Hn. destruct (P1 c Hc) as (NA & _ & _). unfold layer_of, gnode. rewrite NA. fold (gnode g1 n).
      assert (Hlt : n < length ids).
      { rewrite (P2 c Hc) in Hn. apply filter_In in Hn. destruct Hn as [Hn _].
        rewrite S2, (PopulateProofs.p_N P) in Hn. apply ListLemmas.in_iota in Hn. lia. }
      destruct (nth_error ids n) as [x|] eqn:En; [|apply nth_error_None in En; lia].
      destruct (S6 n x En) as (_ & _ & _ & -> & _).
      destruct (PopulateProofs.p_node_rest P Hlt) as (-> & _). lia.
  Qed.
End LayoutXTotal.
Print Assumptions layout_x_total.

(* ====================================================================================================== *)
(** * 6. Examples: the hypotheses are satisfiable                                                          *)
(* ====================================================================================================== *)
(* the input of TotalPipeline.v: a cycle, a long edge 1->4 over 2->5->4, a self-loop-only node, a second component *)
Example ex_layout_x_total_ns : forall bk,
  exists ids r, layout_x nat Nat.eqb bk (ex_opts Greedy NetworkSimplex OtherPositioner Polyline) None None ex_input = Ok (ids, r).
Proof.
  intros bk. apply (layout_x_total nat Nat.eqb nat_eqb_ok).
  - discriminate.
  - repeat constructor.
  - split; [left; reflexivity|]. split; [right; left; reflexivity|]. intros _. vm_compute. discriminate.
Qed.

Example ex_layout_x_total_lp : forall bk,
  exists ids r, layout_x nat Nat.eqb bk (ex_opts DepthFirst LongestPath OtherPositioner Ortho) None None ex_input = Ok (ids, r).
Proof.
  intros bk. apply (layout_x_total nat Nat.eqb nat_eqb_ok).
  - discriminate.
  - repeat constructor.
  - split; [left; reflexivity|]. split; [right; right; reflexivity|]. intros E. discriminate E.
Qed.

Example ex_layout_x_runs :
  map (fun bk => is_ok (layout_x nat Nat.eqb bk (ex_opts Greedy NetworkSimplex OtherPositioner Polyline) None None ex_input))
      [-1; 0; 1; 2; 3]%Z = [true; true; true; true; true].
Proof. vm_compute. reflexivity. Qed.
