(* BreakMerge.v — bookkeeping identities of the executable model:
     B1  reverse_edge / unreverse_edges       reverse_edge_twice_edge, reverse_edge_twice_nodes, unreverse_edges_spec
     B2  break_edge                           break_edge_spec, break_edge_layers
     B3  break_long_edges                     break_long_edges_inv (loop invariant [binv]), break_long_edges_spec,
                                              break_long_edges_layers, break_long_edges_layers_wf, break_long_edges_inlists
     B4  merge_long_edges                     merge_long_edges_broken (on any graph of the shape [broken]),
                                              break_merge_roundtrip, break_phase4_merge_roundtrip,
                                              phase4_same_topology, break_position_merge
     bridge to Routes.v                       pipeline_route_geometry
   Examples: bm_* (4 layers, two long edges with interleaved chains). *)
From Autog Require Import Base Graph Populate Phase3 Phase4 Phase5 Positioners Routes.
From Coq Require Import Lia Permutation.
Local Open Scope nat_scope.

(* ====================================================================================== *)
(** * 0. Basic library: gedge / upd_edge, projections through the graph updates             *)
(* ====================================================================================== *)

Lemma gedge_upd_edge : forall g e f x,
  gedge (upd_edge g e f) x =
  if (Nat.eqb x e && Nat.ltb e (length (g_ea g)))%bool then f (gedge g x) else gedge g x.
Proof. intros g e f x. unfold gedge, upd_edge, with_ea. cbn [g_ea]. apply nth_upd. Qed.

Lemma gedge_upd_edge_same : forall g e f,
  e < length (g_ea g) -> gedge (upd_edge g e f) e = f (gedge g e).
Proof. intros g e f H. unfold gedge, upd_edge, with_ea. cbn [g_ea]. apply nth_upd_same, H. Qed.

Lemma gedge_upd_edge_other : forall g e f x,
  x <> e -> gedge (upd_edge g e f) x = gedge g x.
Proof. intros g e f x H. unfold gedge, upd_edge, with_ea. cbn [g_ea]. apply nth_upd_other, H. Qed.

Lemma gedge_upd_node : forall g n f x, gedge (upd_node g n f) x = gedge g x.
Proof. reflexivity. Qed.
Lemma gnode_upd_edge : forall g e f n, gnode (upd_edge g e f) n = gnode g n.
Proof. reflexivity. Qed.
Lemma gedge_with_E : forall g l x, gedge (with_E g l) x = gedge g x.
Proof. reflexivity. Qed.
Lemma gnode_with_E : forall g l n, gnode (with_E g l) n = gnode g n.
Proof. reflexivity. Qed.

Lemma length_ea_upd_edge : forall g e f, length (g_ea (upd_edge g e f)) = length (g_ea g).
Proof. intros. unfold upd_edge, with_ea. cbn [g_ea]. apply length_upd. Qed.

Lemma gedge_out_of_range : forall g e, length (g_ea g) <= e -> gedge g e = edge0.
Proof. intros g e H. unfold gedge. apply nth_overflow, H. Qed.

Lemma gnode_out_of_range : forall g n, length (g_na g) <= n -> gnode g n = node0.
Proof. intros g n H. unfold gnode. apply nth_overflow, H. Qed.

Lemma upd_out_of_range : forall A (l : list A) i f, length l <= i -> upd l i f = l.
Proof.
  intros A l; induction l as [|x t IH]; intros i f H; destruct i; cbn [upd length] in *; try reflexivity.
  - lia.
  - rewrite IH by lia. reflexivity.
Qed.

(* remove_nat / membership *)
Lemma in_remove_nat : forall x y l, In y (remove_nat x l) <-> In y l /\ y <> x.
Proof.
  intros x y l; induction l as [|z t IH]; cbn [remove_nat In].
  - tauto.
  - destruct (Nat.eqb_spec x z) as [E|E]; cbn [In]; rewrite IH; subst; intuition congruence.
Qed.

Lemma remove_nat_notin : forall x l, ~ In x l -> remove_nat x l = l.
Proof.
  intros x l; induction l as [|z t IH]; intros H; cbn [remove_nat]; [reflexivity|].
  destruct (Nat.eqb_spec x z) as [E|E].
  - exfalso. apply H. left. congruence.
  - rewrite IH; [reflexivity|]. intro; apply H; right; assumption.
Qed.

Lemma remove_nat_app : forall x l1 l2, remove_nat x (l1 ++ l2) = remove_nat x l1 ++ remove_nat x l2.
Proof.
  intros x l1 l2; induction l1 as [|z t IH]; cbn [remove_nat app]; [reflexivity|].
  destruct (Nat.eqb x z); cbn [app]; rewrite IH; reflexivity.
Qed.

Lemma remove_nat_length_nodup : forall x l, NoDup l -> In x l -> S (length (remove_nat x l)) = length l.
Proof.
  intros x l; induction l as [|z t IH]; intros Hnd Hin; [destruct Hin|].
  inversion Hnd as [|? ? Hz Hnd']; subst. cbn [remove_nat length].
  destruct (Nat.eqb_spec x z) as [E|E].
  - subst. rewrite remove_nat_notin by assumption. reflexivity.
  - cbn [length]. f_equal. apply IH; [assumption|]. destruct Hin; [congruence|assumption].
Qed.

Lemma remove_nat_nodup : forall x l, NoDup l -> NoDup (remove_nat x l).
Proof.
  intros x l; induction l as [|z t IH]; intros Hnd; cbn [remove_nat]; [constructor|].
  inversion Hnd as [|? ? Hz Hnd']; subst.
  destruct (Nat.eqb x z); [apply IH, Hnd'|].
  constructor; [|apply IH, Hnd']. rewrite in_remove_nat. tauto.
Qed.

Lemma mem_nat_iff : forall x l, mem_nat x l = true <-> In x l.
Proof.
  intros x l. unfold mem_nat. rewrite existsb_exists. split.
  - intros (y & Hy & E). apply Nat.eqb_eq in E. subst. assumption.
  - intros H. exists x. split; [assumption|apply Nat.eqb_refl].
Qed.

(* ====================================================================================== *)
(** * B1. reverse_edge and unreverse_edges                                                  *)
(* ====================================================================================== *)

Definition flip_edge (ed : edge) : edge := set_rev (negb (e_rev ed)) (set_ends (e_to ed) (e_from ed) ed).

Lemma flip_flip : forall ed, flip_edge (flip_edge ed) = ed.
Proof. intros [f t d w tr r c p a]. unfold flip_edge. cbn. rewrite Bool.negb_involutive. reflexivity. Qed.

(* the arenas' sizes and the lists N, E, L are untouched *)
Lemma reverse_edge_frame : forall g e,
  g_N (reverse_edge g e) = g_N g /\ g_E (reverse_edge g e) = g_E g /\ g_L (reverse_edge g e) = g_L g /\
  length (g_na (reverse_edge g e)) = length (g_na g) /\ length (g_ea (reverse_edge g e)) = length (g_ea g).
Proof.
  intros g e. unfold reverse_edge. cbn [g_N g_E g_L upd_edge upd_node with_ea with_na g_na g_ea].
  repeat split; try reflexivity.
  - rewrite !length_upd. reflexivity.
  - rewrite length_upd. reflexivity.
Qed.

(* the edge arena: only e changes, to its flip *)
Lemma reverse_edge_gedge : forall g e x,
  gedge (reverse_edge g e) x =
  if (Nat.eqb x e && Nat.ltb e (length (g_ea g)))%bool then flip_edge (gedge g x) else gedge g x.
Proof.
  intros g e x. unfold reverse_edge.
  rewrite gedge_upd_edge. rewrite !gedge_upd_node.
  change (length (g_ea (upd_node _ _ _))) with (length (g_ea g)).
  destruct (Nat.eqb_spec x e) as [E|E]; cbn [andb]; [|reflexivity].
  subst x. destruct (Nat.ltb e (length (g_ea g))); reflexivity.
Qed.

Lemma reverse_edge_gedge_same : forall g e,
  e < length (g_ea g) -> gedge (reverse_edge g e) e = flip_edge (gedge g e).
Proof.
  intros g e H. rewrite reverse_edge_gedge, Nat.eqb_refl.
  destruct (Nat.ltb_spec e (length (g_ea g))); [reflexivity|lia].
Qed.

Lemma reverse_edge_gedge_other : forall g e x, x <> e -> gedge (reverse_edge g e) x = gedge g x.
Proof.
  intros g e x H. rewrite reverse_edge_gedge. destruct (Nat.eqb_spec x e); [contradiction|reflexivity].
Qed.

Lemma e_rev_in_range : forall g e, e_rev (gedge g e) = true -> e < length (g_ea g).
Proof.
  intros g e H. destruct (Nat.ltb_spec e (length (g_ea g))) as [L|L]; [exact L|].
  rewrite gedge_out_of_range in H by assumption. discriminate.
Qed.

(* the node arena, for an edge with two distinct end points *)
Lemma reverse_edge_gnode : forall g e n,
  let a := e_from (gedge g e) in let b := e_to (gedge g e) in
  a <> b -> a < length (g_na g) -> b < length (g_na g) ->
  gnode (reverse_edge g e) n =
    if Nat.eqb n a then set_in (el_add e (n_in (gnode g a))) (set_out (el_remove e (n_out (gnode g a))) (gnode g a))
    else if Nat.eqb n b then set_out (el_add e (n_out (gnode g b))) (set_in (el_remove e (n_in (gnode g b))) (gnode g b))
    else gnode g n.
Proof.
  intros g e n a b Hab Ha Hb. unfold reverse_edge. fold a b. rewrite gnode_upd_edge.
  rewrite !gnode_upd_node. rewrite !length_na_upd_node.
  destruct (Nat.ltb_spec a (length (g_na g))) as [_|]; [|lia].
  destruct (Nat.ltb_spec b (length (g_na g))) as [_|]; [|lia].
  rewrite !Bool.andb_true_r.
  destruct (Nat.eqb_spec n a) as [E1|E1]; destruct (Nat.eqb_spec n b) as [E2|E2]; subst; try congruence; reflexivity.
Qed.

(** reversing twice: identity on the edge record, on every node field except the order of the
    adjacency lists, whose membership is restored *)
Definition same_but_adj (a b : node) : Prop := set_in [] (set_out [] a) = set_in [] (set_out [] b).

Theorem reverse_edge_twice_edge : forall g e x,
  gedge (reverse_edge (reverse_edge g e) e) x = gedge g x.
Proof.
  intros g e x. rewrite !reverse_edge_gedge.
  destruct (reverse_edge_frame g e) as (_ & _ & _ & _ & ->).
  destruct (Nat.eqb x e && Nat.ltb e (length (g_ea g)))%bool; [apply flip_flip|reflexivity].
Qed.
Print Assumptions reverse_edge_twice_edge.

Theorem reverse_edge_twice_nodes : forall g e,
  let a := e_from (gedge g e) in let b := e_to (gedge g e) in
  a <> b -> a < length (g_na g) -> b < length (g_na g) -> e < length (g_ea g) ->
  In e (n_out (gnode g a)) -> In e (n_in (gnode g b)) ->
  ~ In e (n_in (gnode g a)) -> ~ In e (n_out (gnode g b)) ->
  let g' := reverse_edge (reverse_edge g e) e in
  forall n, same_but_adj (gnode g' n) (gnode g n) /\
            (forall x, In x (n_in (gnode g' n)) <-> In x (n_in (gnode g n))) /\
            (forall x, In x (n_out (gnode g' n)) <-> In x (n_out (gnode g n))) /\
            (n <> a -> n <> b -> gnode g' n = gnode g n).
Proof.
  intros g e a b Hab Ha Hb He Hoa Hib Hia Hob g' n.
  assert (Ea : e_from (gedge (reverse_edge g e) e) = b).
  { rewrite reverse_edge_gedge_same by assumption. reflexivity. }
  assert (Eb : e_to (gedge (reverse_edge g e) e) = a).
  { rewrite reverse_edge_gedge_same by assumption. reflexivity. }
  destruct (reverse_edge_frame g e) as (_ & _ & _ & Ln & _).
  assert (G1 := fun m => reverse_edge_gnode g e m Hab Ha Hb). fold a b in G1.
  assert (G2 : forall m, gnode g' m = _) by
    (intro m; apply (reverse_edge_gnode (reverse_edge g e) e m);
     rewrite ?Ea, ?Eb, ?Ln; auto).
  rewrite Ea, Eb in G2. unfold g'. rewrite G2.
  rewrite !G1, !Nat.eqb_refl.
  destruct (Nat.eqb_spec b a) as [E|_]; [congruence|].
  clear G1 G2 Ea Eb Ln.
  destruct (Nat.eqb_spec n b) as [E1|E1]; [|destruct (Nat.eqb_spec n a) as [E2|E2]].
  - subst n. revert Hib Hob. destruct (gnode g b) as [i o l p v x y w h].
    unfold same_but_adj, set_in, set_out, el_add, el_remove.
    cbn [n_in n_out n_layer n_pos n_virt n_x n_y n_w n_h]. intros Hib Hob.
    split; [reflexivity|]. split; [|split; [|congruence]]; intro z.
    + rewrite in_app_iff, in_remove_nat. cbn [In].
      destruct (Nat.eq_dec z e); subst; intuition congruence.
    + rewrite in_remove_nat, in_app_iff. cbn [In].
      destruct (Nat.eq_dec z e); subst; intuition congruence.
  - subst n. revert Hoa Hia. destruct (gnode g a) as [i o l p v x y w h].
    unfold same_but_adj, set_in, set_out, el_add, el_remove.
    cbn [n_in n_out n_layer n_pos n_virt n_x n_y n_w n_h]. intros Hoa Hia.
    split; [reflexivity|]. split; [|split; [|congruence]]; intro z.
    + rewrite in_remove_nat, in_app_iff. cbn [In].
      destruct (Nat.eq_dec z e); subst; intuition congruence.
    + rewrite in_app_iff, in_remove_nat. cbn [In].
      destruct (Nat.eq_dec z e); subst; intuition congruence.
  - split; [reflexivity|]. split; [tauto|]. split; [tauto|]. reflexivity.
Qed.
Print Assumptions reverse_edge_twice_nodes.

(** unreverse_edges *)
Definition ur_step (g : graph) (e : nat) : graph := if e_rev (gedge g e) then reverse_edge g e else g.

Lemma unreverse_edges_eq : forall g, unreverse_edges g = fold_left ur_step (g_E g) g.
Proof. reflexivity. Qed.

Lemma ur_step_frame : forall g e,
  g_N (ur_step g e) = g_N g /\ g_E (ur_step g e) = g_E g /\ g_L (ur_step g e) = g_L g /\
  length (g_na (ur_step g e)) = length (g_na g) /\ length (g_ea (ur_step g e)) = length (g_ea g).
Proof.
  intros g e. unfold ur_step. destruct (e_rev (gedge g e)); [apply reverse_edge_frame|].
  repeat split; reflexivity.
Qed.

Lemma ur_fold_frame : forall l g,
  let g' := fold_left ur_step l g in
  g_N g' = g_N g /\ g_E g' = g_E g /\ g_L g' = g_L g /\
  length (g_na g') = length (g_na g) /\ length (g_ea g') = length (g_ea g).
Proof.
  induction l as [|e t IH]; intros g; cbn [fold_left].
  - repeat split; reflexivity.
  - destruct (IH (ur_step g e)) as (A1 & A2 & A3 & A4 & A5).
    destruct (ur_step_frame g e) as (B1 & B2 & B3 & B4 & B5).
    cbv zeta. repeat split; congruence.
Qed.

Lemma ur_fold_gedge : forall l g x,
  gedge (fold_left ur_step l g) x =
  if (mem_nat x l && e_rev (gedge g x))%bool then flip_edge (gedge g x) else gedge g x.
Proof.
  induction l as [|e t IH]; intros g x; cbn [fold_left].
  - reflexivity.
  - rewrite IH. unfold mem_nat. cbn [existsb]. fold (mem_nat x t).
    unfold ur_step. destruct (e_rev (gedge g e)) eqn:R.
    + rewrite reverse_edge_gedge.
      destruct (Nat.ltb_spec e (length (g_ea g))) as [_|L]; [|apply e_rev_in_range in R; lia].
      rewrite Bool.andb_true_r.
      destruct (Nat.eqb_spec x e) as [E|E].
      * subst x. cbn [orb andb]. rewrite R.
        replace (e_rev (flip_edge (gedge g e))) with false
          by (unfold flip_edge; cbn; rewrite R; reflexivity).
        rewrite Bool.andb_false_r. reflexivity.
      * reflexivity.
    + destruct (Nat.eqb_spec x e) as [E|E]; [|reflexivity].
      subst x. rewrite R, !Bool.andb_false_r. reflexivity.
Qed.

(* node fields other than the adjacency lists are never touched by reverse_edge *)
Lemma upd_node_same_but_adj : forall g n f m,
  (forall nd, same_but_adj (f nd) nd) -> same_but_adj (gnode (upd_node g n f) m) (gnode g m).
Proof.
  intros g n f m Hf. rewrite gnode_upd_node.
  destruct (Nat.eqb m n && Nat.ltb n (length (g_na g)))%bool; [apply Hf|reflexivity].
Qed.

Lemma reverse_edge_same_but_adj : forall g e n, same_but_adj (gnode (reverse_edge g e) n) (gnode g n).
Proof.
  intros g e n. unfold reverse_edge. rewrite gnode_upd_edge.
  unfold same_but_adj.
  repeat (etransitivity; [apply upd_node_same_but_adj; intros []; reflexivity|]).
  reflexivity.
Qed.

Lemma ur_fold_same_but_adj : forall l g n, same_but_adj (gnode (fold_left ur_step l g) n) (gnode g n).
Proof.
  induction l as [|e t IH]; intros g n; cbn [fold_left]; [reflexivity|].
  unfold same_but_adj in *. rewrite IH. unfold ur_step.
  destruct (e_rev (gedge g e)); [apply reverse_edge_same_but_adj|reflexivity].
Qed.

Theorem unreverse_edges_spec : forall g,
  let g' := unreverse_edges g in
  g_N g' = g_N g /\ g_E g' = g_E g /\ g_L g' = g_L g /\
  length (g_na g') = length (g_na g) /\ length (g_ea g') = length (g_ea g) /\
  (* afterwards no edge of the edge list is reversed *)
  (forall e, In e (g_E g) -> e_rev (gedge g' e) = false) /\
  (* a reversed edge of the list is flipped back ... *)
  (forall e, In e (g_E g) -> e_rev (gedge g e) = true ->
     gedge g' e = flip_edge (gedge g e) /\
     e_from (gedge g' e) = e_to (gedge g e) /\ e_to (gedge g' e) = e_from (gedge g e)) /\
  (* ... every other edge record is untouched *)
  (forall e, ~ In e (g_E g) \/ e_rev (gedge g e) = false -> gedge g' e = gedge g e) /\
  (* points, arrow flag and the other attributes of every edge are untouched *)
  (forall e, e_pts (gedge g' e) = e_pts (gedge g e) /\ e_ahs (gedge g' e) = e_ahs (gedge g e) /\
             e_delta (gedge g' e) = e_delta (gedge g e) /\ e_weight (gedge g' e) = e_weight (gedge g e) /\
             e_tree (gedge g' e) = e_tree (gedge g e) /\ e_cut (gedge g' e) = e_cut (gedge g e)) /\
  (* nodes: everything but the adjacency lists is untouched *)
  (forall n, same_but_adj (gnode g' n) (gnode g n)).
Proof.
  intros g g'. unfold g'. rewrite unreverse_edges_eq.
  destruct (ur_fold_frame (g_E g) g) as (A1 & A2 & A3 & A4 & A5).
  split; [exact A1|]. split; [exact A2|]. split; [exact A3|]. split; [exact A4|]. split; [exact A5|].
  split; [|split; [|split; [|split]]].
  - intros e He. rewrite ur_fold_gedge.
    apply mem_nat_iff in He. rewrite He. cbn [andb].
    destruct (e_rev (gedge g e)) eqn:R; [|exact R].
    unfold flip_edge; cbn. rewrite R. reflexivity.
  - intros e He R. rewrite ur_fold_gedge. apply mem_nat_iff in He. rewrite He, R. cbn [andb].
    split; [reflexivity|]. split; reflexivity.
  - intros e H. rewrite ur_fold_gedge. destruct H as [H|H].
    + destruct (mem_nat e (g_E g)) eqn:M; [|reflexivity].
      apply mem_nat_iff in M. contradiction.
    + rewrite H, Bool.andb_false_r. reflexivity.
  - intros e. rewrite ur_fold_gedge.
    destruct (mem_nat e (g_E g) && e_rev (gedge g e))%bool; repeat split; reflexivity.
  - intros n. apply ur_fold_same_but_adj.
Qed.
Print Assumptions unreverse_edges_spec.


(* ====================================================================================== *)
(** * B2. break_edge                                                                        *)
(* ====================================================================================== *)

Definition be_vnode (g : graph) (e : nat) : node :=
  mkNode [e] [length (g_ea g)] (layer_of g (e_from (gedge g e)) + 1)%Z 0%Z true 0 0 0 0.
Definition be_edge (g : graph) (e : nat) : edge :=
  mkEdge (length (g_na g)) (e_to (gedge g e)) 1 1 false (e_rev (gedge g e)) 0 [] false.

Lemma break_edge_unfold : forall g e,
  break_edge g e =
  mkGraph (upd (g_na g ++ [be_vnode g e]) (e_to (gedge g e))
               (fun n => set_in (replace_first e (length (g_ea g)) (n_in n)) n))
          (upd (g_ea g ++ [be_edge g e]) e (fun ed => set_ends (e_from ed) (length (g_na g)) ed))
          (g_N g ++ [length (g_na g)]) (g_E g ++ [length (g_ea g)])
          (upd (g_L g) (Z.to_nat (layer_of g (e_from (gedge g e)) + 1))
               (fun l => mkLayer (l_nodes l ++ [length (g_na g)]) (l_w l) (l_h l))).
Proof. reflexivity. Qed.

Lemma nth_app_snoc : forall A (l : list A) a d n,
  nth n (l ++ [a]) d = if Nat.eqb n (length l) then a else nth n l d.
Proof.
  intros A l a d n. destruct (Nat.eqb_spec n (length l)) as [E|E].
  - subst. rewrite app_nth2 by lia. rewrite Nat.sub_diag. reflexivity.
  - destruct (Nat.lt_ge_cases n (length l)) as [L|L].
    + apply app_nth1, L.
    + rewrite !nth_overflow; [reflexivity|lia|rewrite app_length; cbn; lia].
Qed.

Lemma break_edge_lengths : forall g e,
  length (g_na (break_edge g e)) = S (length (g_na g)) /\
  length (g_ea (break_edge g e)) = S (length (g_ea g)).
Proof.
  intros g e. rewrite break_edge_unfold. cbn [g_na g_ea].
  rewrite !length_upd, !app_length. cbn [length]. lia.
Qed.

Lemma break_edge_gnode : forall g e n,
  e_to (gedge g e) < length (g_na g) ->
  gnode (break_edge g e) n =
    if Nat.eqb n (length (g_na g)) then be_vnode g e
    else if Nat.eqb n (e_to (gedge g e))
         then set_in (replace_first e (length (g_ea g)) (n_in (gnode g n))) (gnode g n)
         else gnode g n.
Proof.
  intros g e n Ht. rewrite break_edge_unfold. unfold gnode at 1. cbn [g_na].
  rewrite nth_upd, nth_app_snoc, app_length. cbn [length].
  destruct (Nat.ltb_spec (e_to (gedge g e)) (length (g_na g) + 1)) as [_|]; [|lia].
  rewrite Bool.andb_true_r.
  destruct (Nat.eqb_spec n (length (g_na g))) as [E|E].
  - destruct (Nat.eqb_spec n (e_to (gedge g e))); [lia|reflexivity].
  - destruct (Nat.eqb_spec n (e_to (gedge g e))); reflexivity.
Qed.

Lemma break_edge_gedge : forall g e x,
  e < length (g_ea g) ->
  gedge (break_edge g e) x =
    if Nat.eqb x (length (g_ea g)) then be_edge g e
    else if Nat.eqb x e then set_ends (e_from (gedge g e)) (length (g_na g)) (gedge g e)
         else gedge g x.
Proof.
  intros g e x He. rewrite break_edge_unfold. unfold gedge at 1. cbn [g_ea].
  rewrite nth_upd, nth_app_snoc, app_length. cbn [length].
  destruct (Nat.ltb_spec e (length (g_ea g) + 1)) as [_|]; [|lia].
  rewrite Bool.andb_true_r.
  destruct (Nat.eqb_spec x (length (g_ea g))) as [E|E].
  - destruct (Nat.eqb_spec x e); [lia|reflexivity].
  - destruct (Nat.eqb_spec x e) as [E'|E']; [subst x|]; reflexivity.
Qed.

(** B2, packaged *)
Theorem break_edge_spec : forall g e,
  e < length (g_ea g) -> e_to (gedge g e) < length (g_na g) ->
  let g' := break_edge g e in
  let v := length (g_na g) in let f := length (g_ea g) in
  let a := e_from (gedge g e) in let b := e_to (gedge g e) in
  length (g_na g') = S v /\ length (g_ea g') = S f /\
  (* the new virtual node *)
  gnode g' v = mkNode [e] [f] (layer_of g a + 1)%Z 0%Z true 0 0 0 0 /\
  (* the new edge: from the virtual node to the old target, same reversal flag *)
  gedge g' f = mkEdge v b 1 1 false (e_rev (gedge g e)) 0 [] false /\
  (* e keeps its source (and everything else) and now ends at the virtual node *)
  gedge g' e = set_ends a v (gedge g e) /\
  (* every other edge / node is untouched, except that b's in-list has f in place of e *)
  (forall x, x <> e -> x <> f -> gedge g' x = gedge g x) /\
  gnode g' b = set_in (replace_first e f (n_in (gnode g b))) (gnode g b) /\
  (forall n, n <> b -> n <> v -> gnode g' n = gnode g n) /\
  g_E g' = g_E g ++ [f] /\ g_N g' = g_N g ++ [v] /\
  g_L g' = upd (g_L g) (Z.to_nat (layer_of g a + 1))
               (fun l => mkLayer (l_nodes l ++ [v]) (l_w l) (l_h l)).
Proof.
  intros g e He Hb g' v f a b.
  destruct (break_edge_lengths g e) as [L1 L2].
  split; [exact L1|]. split; [exact L2|].
  split. { unfold g'. rewrite break_edge_gnode by assumption. fold v. rewrite Nat.eqb_refl. reflexivity. }
  split. { unfold g'. rewrite break_edge_gedge by assumption. fold f. rewrite Nat.eqb_refl. reflexivity. }
  split. { unfold g'. rewrite break_edge_gedge by assumption. fold f.
           destruct (Nat.eqb_spec e f); [lia|]. rewrite Nat.eqb_refl. reflexivity. }
  split. { intros x H1 H2. unfold g'. rewrite break_edge_gedge by assumption. fold f.
           destruct (Nat.eqb_spec x f); [contradiction|]. destruct (Nat.eqb_spec x e); [contradiction|reflexivity]. }
  split. { unfold g'. rewrite break_edge_gnode by assumption. fold v b.
           destruct (Nat.eqb_spec b v); [lia|]. rewrite Nat.eqb_refl. reflexivity. }
  split. { intros n H1 H2. unfold g'. rewrite break_edge_gnode by assumption. fold v b.
           destruct (Nat.eqb_spec n v); [contradiction|]. destruct (Nat.eqb_spec n b); [contradiction|reflexivity]. }
  repeat split; reflexivity.
Qed.
Print Assumptions break_edge_spec.

(* the layer list of the virtual node's layer gets v appended; the other layers are untouched *)
Lemma break_edge_layers : forall g e k,
  let lv := Z.to_nat (layer_of g (e_from (gedge g e)) + 1) in
  lv < length (g_L g) ->
  l_nodes (glayer (break_edge g e) k) =
    if Nat.eqb k lv then l_nodes (glayer g k) ++ [length (g_na g)] else l_nodes (glayer g k).
Proof.
  intros g e k lv Hlv. rewrite break_edge_unfold. unfold glayer at 1. cbn [g_L]. fold lv.
  rewrite nth_upd. destruct (Nat.ltb_spec lv (length (g_L g))) as [_|]; [|lia].
  rewrite Bool.andb_true_r. destruct (Nat.eqb k lv); reflexivity.
Qed.


(* ====================================================================================== *)
(** * B3. break_long_edges                                                                  *)
(* ====================================================================================== *)

Definition span (g : graph) (x : nat) : Z :=
  (layer_of g (e_to (gedge g x)) - layer_of g (e_from (gedge g x)))%Z.

(** [chain g e vs fs t]: starting with edge [e], following [e_to] through the virtual nodes [vs]
    (each with exactly one in-edge and one out-edge, the out-edges being [fs]) one reaches the
    non-virtual node [t]; every virtual node lies one layer below the source of its in-edge. *)
Fixpoint chain (g : graph) (e : nat) (vs fs : list nat) (t : nat) : Prop :=
  match vs, fs with
  | [], [] => e_to (gedge g e) = t /\ t < length (g_na g) /\ n_virt (gnode g t) = false
  | v :: vs', f :: fs' =>
      e_to (gedge g e) = v /\ v < length (g_na g) /\ f < length (g_ea g) /\
      n_virt (gnode g v) = true /\ n_in (gnode g v) = [e] /\ n_out (gnode g v) = [f] /\
      e_from (gedge g f) = v /\ layer_of g v = (layer_of g (e_from (gedge g e)) + 1)%Z /\
      chain g f vs' fs' t
  | _, _ => False
  end.

Lemma chain_length : forall g vs fs e t, chain g e vs fs t -> length vs = length fs.
Proof.
  intros g vs; induction vs as [|v vs IH]; intros [|f fs] e t H; cbn [chain] in H; try tauto.
  cbn [length]. f_equal. eapply IH. apply H.
Qed.

Lemma last_cons_default : forall A (l : list A) a d, last (a :: l) d = last l a.
Proof.
  intros A l; induction l as [|b l IH]; intros a d; [reflexivity|].
  change (last (a :: b :: l) d) with (last (b :: l) d). rewrite !IH. reflexivity.
Qed.

Lemma last_in_cons : forall A (l : list A) e, In (last l e) (e :: l).
Proof.
  intros A l; induction l as [|a l IH]; intros e; [left; reflexivity|].
  right. rewrite last_cons_default. apply IH.
Qed.

(* an edge of the chain that does not span exactly one layer is its last edge *)
Lemma chain_span_last : forall g vs fs e t x,
  chain g e vs fs t -> In x (e :: fs) -> span g x <> 1%Z -> last fs e = x.
Proof.
  intros g vs; induction vs as [|v vs IH]; intros [|f fs] e t x H Hx Hs; cbn [chain] in H; try tauto.
  - destruct Hx as [<-|[]]. reflexivity.
  - destruct H as (E1 & _ & _ & _ & _ & _ & E2 & E3 & H).
    rewrite last_cons_default. destruct Hx as [<-|Hx].
    + exfalso. apply Hs. unfold span. rewrite E1, E3. lia.
    + eapply IH; eassumption.
Qed.

Lemma chain_last_layer : forall g vs fs e t,
  chain g e vs fs t ->
  layer_of g (e_from (gedge g (last fs e))) = (layer_of g (e_from (gedge g e)) + Z.of_nat (length vs))%Z /\
  e_to (gedge g (last fs e)) = t.
Proof.
  intros g vs; induction vs as [|v vs IH]; intros [|f fs] e t H; cbn [chain] in H; try tauto.
  - cbn [last length]. split; [lia|tauto].
  - destruct H as (E1 & _ & _ & _ & _ & _ & E2 & E3 & H).
    rewrite last_cons_default. destruct (IH _ _ _ H) as [A B]. split; [|exact B].
    rewrite A, E2, E3. cbn [length]. lia.
Qed.

(* frame lemma: the chain only reads the records of its edges and the virt / in / out / layer
   fields of nodes in range *)
Lemma chain_frame : forall g g' vs fs e t,
  length (g_na g) <= length (g_na g') -> length (g_ea g) <= length (g_ea g') ->
  (forall x, In x (e :: fs) -> gedge g' x = gedge g x) ->
  (forall n, n < length (g_na g) ->
     n_virt (gnode g' n) = n_virt (gnode g n) /\ n_layer (gnode g' n) = n_layer (gnode g n) /\
     n_out (gnode g' n) = n_out (gnode g n) /\
     (n_virt (gnode g n) = true -> n_in (gnode g' n) = n_in (gnode g n))) ->
  e_from (gedge g e) < length (g_na g) ->
  chain g e vs fs t -> chain g' e vs fs t.
Proof.
  intros g g' vs; induction vs as [|v vs IH]; intros [|f fs] e t Ln Le He Hn Hf H; cbn [chain] in *; try tauto.
  - destruct H as (E1 & E2 & E3). rewrite He by (left; reflexivity).
    split; [exact E1|]. split; [lia|]. destruct (Hn t E2) as (-> & _). exact E3.
  - destruct H as (E1 & Lv & Lf & Vv & Iv & Ov & E2 & E3 & H).
    destruct (Hn v Lv) as (N1 & N2 & N3 & N4).
    rewrite !He by (cbn; auto).
    split; [exact E1|]. split; [lia|]. split; [lia|]. split; [congruence|].
    split; [rewrite N4; assumption|]. split; [congruence|]. split; [exact E2|].
    split.
    + unfold layer_of in *. rewrite N2. destruct (Hn _ Hf) as (_ & -> & _). exact E3.
    + apply IH; try assumption.
      * intros x Hx. apply He. right. exact Hx.
      * rewrite E2. exact Lv.
Qed.

Definition same_but_in (a b : node) : Prop := set_in [] a = set_in [] b.

Lemma same_but_in_fields : forall a b, same_but_in a b ->
  n_virt a = n_virt b /\ n_layer a = n_layer b /\ n_out a = n_out b /\ n_pos a = n_pos b.
Proof.
  intros [i o l p v x y w h] [i' o' l' p' v' x' y' w' h'] H. unfold same_but_in, set_in in H. cbn in H.
  inversion H; subst. cbn. repeat split; reflexivity.
Qed.

Lemma break_edge_old_node : forall g e n,
  e < length (g_ea g) -> e_to (gedge g e) < length (g_na g) -> n < length (g_na g) ->
  same_but_in (gnode (break_edge g e) n) (gnode g n) /\
  (n <> e_to (gedge g e) -> gnode (break_edge g e) n = gnode g n).
Proof.
  intros g e n He Ht Hn. rewrite break_edge_gnode by assumption.
  destruct (Nat.eqb_spec n (length (g_na g))); [lia|].
  destruct (Nat.eqb_spec n (e_to (gedge g e))); split; try reflexivity; try tauto.
Qed.

Lemma break_edge_layer_of : forall g e n,
  e < length (g_ea g) -> e_to (gedge g e) < length (g_na g) -> n < length (g_na g) ->
  layer_of (break_edge g e) n = layer_of g n.
Proof.
  intros g e n He Ht Hn. destruct (break_edge_old_node g e n He Ht Hn) as [H _].
  apply same_but_in_fields in H. unfold layer_of. tauto.
Qed.

Lemma chain_last_range : forall g vs fs e t,
  chain g e vs fs t -> e < length (g_ea g) -> last fs e < length (g_ea g).
Proof.
  intros g vs; induction vs as [|v vs IH]; intros [|f fs] e t H He; cbn [chain] in H; try tauto.
  rewrite last_cons_default. apply (IH fs f t); tauto.
Qed.

Lemma chain_target : forall g vs fs e t,
  chain g e vs fs t -> t < length (g_na g) /\ n_virt (gnode g t) = false.
Proof.
  intros g vs; induction vs as [|v vs IH]; intros [|f fs] e t H; cbn [chain] in H; try tauto.
  apply (IH fs f t); tauto.
Qed.

(* extending a chain at its last edge by break_edge *)
Lemma chain_snoc_break : forall g vs fs e t,
  let x := last fs e in
  chain g e vs fs t -> e < length (g_ea g) -> e_from (gedge g e) < length (g_na g) ->
  chain (break_edge g x) e (vs ++ [length (g_na g)]) (fs ++ [length (g_ea g)]) t.
Proof.
  intros g vs; induction vs as [|v vs IH]; intros [|f fs] e t x H He Hf; cbn [chain] in H; try tauto.
  - destruct H as (E1 & E2 & E3). subst x. cbn [last app chain].
    assert (Ht : e_to (gedge g e) < length (g_na g)) by (rewrite E1; exact E2).
    destruct (break_edge_spec g e He Ht) as (L1 & L2 & G1 & G2 & G3 & G4 & G5 & G6 & _).
    rewrite G1, G2, G3. cbn [e_to e_from set_ends n_virt n_in n_out].
    split; [reflexivity|]. split; [lia|]. split; [lia|]. split; [reflexivity|].
    split; [reflexivity|]. split; [reflexivity|]. split; [reflexivity|].
    split.
    { unfold layer_of at 1. rewrite G1. cbn [n_layer].
      rewrite break_edge_layer_of by assumption. reflexivity. }
    split; [exact E1|]. split; [lia|].
    destruct (break_edge_old_node g e t He Ht E2) as [S _]. apply same_but_in_fields in S.
    destruct S as (-> & _). exact E3.
  - destruct H as (E1 & Lv & Lf & Vv & Iv & Ov & E2 & E3 & H).
    subst x. rewrite last_cons_default.
    assert (H' := H). apply IH in H'; [|exact Lf|rewrite E2; exact Lv].
    set (x := last fs f) in *.
    destruct (chain_last_layer _ _ _ _ _ H) as [_ Hx]. fold x in Hx.
    assert (Hxr : x < length (g_ea g)) by (apply (chain_last_range _ _ _ _ _ H), Lf).
    destruct (chain_target _ _ _ _ _ H) as [Tr Tnv].
    assert (Htx : e_to (gedge g x) < length (g_na g)) by (rewrite Hx; exact Tr).
    destruct (break_edge_spec g x Hxr Htx) as (L1 & L2 & G1 & G2 & G3 & G4 & G5 & G6 & _).
    assert (Exe : x <> e).
    { intro E. rewrite E, E1 in Hx. rewrite Hx in Vv. congruence. }
    assert (Ge : gedge (break_edge g x) e = gedge g e) by (apply G4; [congruence|lia]).
    assert (Gv : gnode (break_edge g x) v = gnode g v).
    { apply G6; [|lia]. rewrite Hx. intro E. rewrite E in Vv. congruence. }
    assert (Gf : e_from (gedge (break_edge g x) f) = v).
    { destruct (Nat.eq_dec f x) as [E|E].
      - rewrite E, G3. cbn [set_ends e_from]. rewrite <- E. exact E2.
      - rewrite G4; [exact E2|exact E|lia]. }
    cbn [app chain]. rewrite Ge, Gf. unfold layer_of at 1 2. rewrite Gv.
    split; [exact E1|]. split; [lia|]. split; [lia|]. split; [exact Vv|]. split; [exact Iv|].
    split; [exact Ov|]. split; [reflexivity|].
    split.
    { fold (layer_of g v). fold (layer_of (break_edge g x) (e_from (gedge g e))).
      rewrite break_edge_layer_of by assumption. exact E3. }
    exact H'.
Qed.

(** ** list helpers *)
Lemma in_iota : forall k s x, In x (iota s k) <-> s <= x < s + k.
Proof.
  induction k as [|k IH]; intros s x; cbn [iota In]; [lia|]. rewrite IH. lia.
Qed.

Lemma iota_snoc : forall k s, iota s (S k) = iota s k ++ [s + k].
Proof.
  induction k as [|k IH]; intros s.
  - cbn. rewrite Nat.add_0_r. reflexivity.
  - change (iota s (S (S k))) with (s :: iota (S s) (S k)). rewrite IH. cbn [iota app].
    replace (S s + k) with (s + S k) by lia. reflexivity.
Qed.

Lemma NoDup_iota : forall k s, NoDup (iota s k).
Proof.
  induction k as [|k IH]; intros s; cbn [iota]; constructor; [|apply IH].
  rewrite in_iota. lia.
Qed.

Lemma length_iota : forall k s, length (iota s k) = k.
Proof. induction k as [|k IH]; intros s; cbn [iota length]; [reflexivity|rewrite IH; reflexivity]. Qed.

Lemma nth_error_upd : forall A (l : list A) j f i,
  nth_error (upd l j f) i = if Nat.eqb i j then option_map f (nth_error l i) else nth_error l i.
Proof.
  intros A l; induction l as [|a l IH]; intros j f i.
  - cbn [upd]. destruct i; cbn [nth_error option_map]; match goal with |- context [Nat.eqb ?a ?b] => destruct (Nat.eqb a b) end; reflexivity.
  - destruct j as [|j], i as [|i]; cbn [upd nth_error Nat.eqb option_map]; try reflexivity.
    apply IH.
Qed.

Lemma flat_map_upd_perm : forall A B (F : A -> list B) (u : A -> A) y l j,
  j < length l -> (forall p, F (u p) = F p ++ [y]) ->
  Permutation (flat_map F (upd l j u)) (flat_map F l ++ [y]).
Proof.
  intros A B F u y l; induction l as [|a l IH]; intros j Hj Hu; cbn [length] in Hj; [lia|].
  destruct j as [|j]; cbn [upd flat_map].
  - rewrite Hu, <- !app_assoc. apply Permutation_app_head, Permutation_app_comm.
  - rewrite <- app_assoc. apply Permutation_app_head, IH; [lia|exact Hu].
Qed.

Lemma flat_map_disjoint : forall A B (F : A -> list B) l j j' p p' x,
  NoDup (flat_map F l) -> nth_error l j = Some p -> nth_error l j' = Some p' -> j <> j' ->
  In x (F p) -> In x (F p') -> False.
Proof.
  intros A B F l; induction l as [|a l IH]; intros j j' p p' x Hnd Hj Hj' Hne Hx Hx'.
  - destruct j; discriminate.
  - cbn [flat_map] in Hnd. destruct j as [|j], j' as [|j']; cbn [nth_error] in *.
    + congruence.
    + inversion Hj; subst a. eapply NoDup_app_disj; [exact Hnd|exact Hx|].
      apply in_flat_map. exists p'. split; [eapply nth_error_In; eassumption|exact Hx'].
    + inversion Hj'; subst a. eapply NoDup_app_disj; [exact Hnd|exact Hx'|].
      apply in_flat_map. exists p. split; [eapply nth_error_In; eassumption|exact Hx].
    + eapply (IH j j'); try eassumption; [eapply NoDup_app_r; eassumption|congruence].
Qed.

(** ** spans after break_edge *)
Lemma span_break_self : forall g x,
  x < length (g_ea g) -> e_from (gedge g x) < length (g_na g) -> e_to (gedge g x) < length (g_na g) ->
  span (break_edge g x) x = 1%Z.
Proof.
  intros g x Hx Hf Ht. destruct (break_edge_spec g x Hx Ht) as (_ & _ & G1 & _ & G3 & _).
  unfold span. rewrite G3. cbn [set_ends e_to e_from]. unfold layer_of at 1. rewrite G1. cbn [n_layer].
  rewrite break_edge_layer_of by assumption. lia.
Qed.

Lemma span_break_new : forall g x,
  x < length (g_ea g) -> e_from (gedge g x) < length (g_na g) -> e_to (gedge g x) < length (g_na g) ->
  span (break_edge g x) (length (g_ea g)) = (span g x - 1)%Z.
Proof.
  intros g x Hx Hf Ht. destruct (break_edge_spec g x Hx Ht) as (_ & _ & G1 & G2 & _).
  unfold span. rewrite G2. cbn [e_to e_from]. unfold layer_of at 2. rewrite G1. cbn [n_layer].
  rewrite break_edge_layer_of by assumption. lia.
Qed.

Lemma span_break_other : forall g x y,
  x < length (g_ea g) -> e_to (gedge g x) < length (g_na g) ->
  y <> x -> y < length (g_ea g) ->
  e_from (gedge g y) < length (g_na g) -> e_to (gedge g y) < length (g_na g) ->
  gedge (break_edge g x) y = gedge g y /\ span (break_edge g x) y = span g y.
Proof.
  intros g x y Hx Ht Hne Hy Hfy Hty. destruct (break_edge_spec g x Hx Ht) as (_ & _ & _ & _ & _ & G4 & _).
  assert (E : gedge (break_edge g x) y = gedge g y) by (apply G4; [exact Hne|lia]).
  split; [exact E|]. unfold span. rewrite E, !break_edge_layer_of by assumption. reflexivity.
Qed.

(* in-lists: entry by entry either kept or replaced by a new edge *)
Definition in_rel (ea0 : nat) (x y : nat) : Prop := y = x \/ ea0 <= y.

Lemma Forall2_in_rel_refl : forall ea0 l, Forall2 (in_rel ea0) l l.
Proof. intros ea0 l; induction l; constructor; [left; reflexivity|assumption]. Qed.

Lemma Forall2_in_rel_replace : forall ea0 x f l l',
  ea0 <= f -> Forall2 (in_rel ea0) l l' -> Forall2 (in_rel ea0) l (replace_first x f l').
Proof.
  intros ea0 x f l l' Hf H; induction H as [|a b l l' Hab H IH]; cbn [replace_first]; [constructor|].
  destruct (Nat.eqb x b); constructor; try assumption. right; exact Hf.
Qed.

(* replace_first on duplicate-free lists *)
Lemma Forall2_impl_in : forall A B (R R' : A -> B -> Prop) l l',
  Forall2 R l l' -> (forall x y, In x l -> In y l' -> R x y -> R' x y) -> Forall2 R' l l'.
Proof.
  intros A B R R' l l' H; induction H as [|a b l l' Hab H IH]; intros Himp; constructor.
  - apply Himp; [left; reflexivity|left; reflexivity|exact Hab].
  - apply IH. intros x y Hx Hy. apply Himp; right; assumption.
Qed.

Lemma Forall2_replace_first_gen : forall (R R' : nat -> nat -> Prop) x' f l l',
  Forall2 R l l' -> NoDup l' ->
  (forall x y, In x l -> In y l' -> y <> x' -> R x y -> R' x y) ->
  (forall x, In x l -> R x x' -> R' x f) ->
  Forall2 R' l (replace_first x' f l').
Proof.
  intros R R' x' f l l' H; induction H as [|a b l l' Hab H IH]; intros Hnd C1 C2; cbn [replace_first]; [constructor|].
  inversion Hnd as [|? ? Hb Hnd']; subst.
  destruct (Nat.eqb_spec x' b) as [E|E].
  - subst b. constructor; [apply C2; [left; reflexivity|exact Hab]|].
    eapply Forall2_impl_in; [exact H|]. intros x y Hx Hy Rxy.
    apply C1; [right; exact Hx|right; exact Hy| |exact Rxy]. intro; subst y; contradiction.
  - constructor; [apply C1; [left; reflexivity|left; reflexivity|congruence|exact Hab]|].
    apply IH; [exact Hnd'| |].
    + intros x y Hx Hy. apply C1; right; assumption.
    + intros x Hx. apply C2. right; exact Hx.
Qed.

Lemma in_replace_first : forall x f l y, NoDup l -> In y (replace_first x f l) -> y = f \/ (In y l /\ y <> x).
Proof.
  intros x f l; induction l as [|a l IH]; intros y Hnd H; cbn [replace_first] in H; [destruct H|].
  inversion Hnd as [|? ? Ha Hnd']; subst.
  destruct (Nat.eqb_spec x a) as [E|E].
  - subst a. destruct H as [<-|H]; [left; reflexivity|]. right. split; [right; exact H|]. intro; subst; contradiction.
  - destruct H as [<-|H]; [right; split; [left; reflexivity|congruence]|].
    destruct (IH y Hnd' H) as [->|[A B]]; [left; reflexivity|right; split; [right; exact A|exact B]].
Qed.

Lemma NoDup_replace_first : forall x f l, NoDup l -> ~ In f l -> NoDup (replace_first x f l).
Proof.
  intros x f l; induction l as [|a l IH]; intros Hnd Hf; cbn [replace_first]; [constructor|].
  inversion Hnd as [|? ? Ha Hnd']; subst.
  destruct (Nat.eqb_spec x a) as [E|E].
  - constructor; [|exact Hnd']. intro; apply Hf; right; assumption.
  - constructor; [|apply IH; [exact Hnd'|intro; apply Hf; right; assumption]].
    intro H. destruct (in_replace_first x f l a Hnd' H) as [->|[A _]]; [apply Hf; left; reflexivity|contradiction].
Qed.

Lemma last_snoc : forall A (l : list A) a d, last (l ++ [a]) d = a.
Proof. intros A l a d. apply last_last. Qed.

(** ** preconditions and the loop invariant *)
Set Implicit Arguments.
Record break_pre (g0 : graph) : Prop := {
  bp_nodup : NoDup (g_E g0);
  bp_edges : forall e, In e (g_E g0) ->
     e < length (g_ea g0) /\ e_from (gedge g0 e) < length (g_na g0) /\
     e_to (gedge g0 e) < length (g_na g0) /\ (1 <= span g0 e)%Z;
  bp_nonvirt : forall n, n_virt (gnode g0 n) = false
}.

Definition ctbl := list (list nat * list nat).

(* optional extra precondition for the statements about the layer lists: the layers of all edge
   ends exist *)
Definition layers_ok (g0 : graph) : Prop :=
  forall e, In e (g_E g0) ->
    (0 <= layer_of g0 (e_from (gedge g0 e)))%Z /\
    Z.to_nat (layer_of g0 (e_to (gedge g0 e))) < length (g_L g0).

Definition new_in_layer (g : graph) (kk : nat) (v : nat) : bool := (layer_of g v =? Z.of_nat kk)%Z.

(* optional extra precondition for the exact statement about the in-lists: they are duplicate free,
   in range, and an edge of the edge list only occurs in the in-list of its target *)
Definition inlists_ok (g0 : graph) : Prop :=
  forall n, n < length (g_na g0) ->
    NoDup (n_in (gnode g0 n)) /\
    forall y, In y (n_in (gnode g0 n)) ->
      y < length (g_ea g0) /\ (In y (g_E g0) -> e_to (gedge g0 y) = n).

(* y is the last edge of the chain of x (x itself when x is not an edge of the list) *)
Definition last_rel (orig : list nat) (tbl : list (list nat * list nat)) (x y : nat) : Prop :=
  (exists j p, nth_error orig j = Some x /\ nth_error tbl j = Some p /\ y = last (snd p) x) \/
  (~ In x orig /\ y = x).

Record binv (g0 g : graph) (tbl : ctbl) (k : nat) : Prop := {
  bi_na : length (g_na g) = length (g_na g0) + k;
  bi_ea : length (g_ea g) = length (g_ea g0) + k;
  bi_N : g_N g = g_N g0 ++ iota (length (g_na g0)) k;
  bi_E : g_E g = g_E g0 ++ iota (length (g_ea g0)) k;
  bi_tbl : length tbl = length (g_E g0);
  bi_pv : Permutation (flat_map fst tbl) (iota (length (g_na g0)) k);
  bi_pf : Permutation (flat_map snd tbl) (iota (length (g_ea g0)) k);
  bi_old : forall n, n < length (g_na g0) ->
     same_but_in (gnode g n) (gnode g0 n) /\
     Forall2 (in_rel (length (g_ea g0))) (n_in (gnode g0 n)) (n_in (gnode g n));
  bi_new : forall n, length (g_na g0) <= n < length (g_na g) -> n_virt (gnode g n) = true;
  bi_ch : forall j e p, nth_error (g_E g0) j = Some e -> nth_error tbl j = Some p ->
     chain g e (fst p) (snd p) (e_to (gedge g0 e)) /\
     set_ends 0 0 (gedge g e) = set_ends 0 0 (gedge g0 e) /\
     e_from (gedge g e) = e_from (gedge g0 e);
  bi_other : forall x, x < length (g_ea g0) -> ~ In x (g_E g0) -> gedge g x = gedge g0 x;
  bi_wf : forall x, In x (g_E g) ->
     e_from (gedge g x) < length (g_na g) /\ e_to (gedge g x) < length (g_na g) /\ (1 <= span g x)%Z;
  bi_Lwf : layers_ok g0 -> forall x, In x (g_E g) ->
     (0 <= layer_of g (e_from (gedge g x)))%Z /\ Z.to_nat (layer_of g (e_to (gedge g x))) < length (g_L g0);
  bi_L : layers_ok g0 ->
     length (g_L g) = length (g_L g0) /\
     forall kk, l_nodes (glayer g kk) =
                  l_nodes (glayer g0 kk) ++ filter (new_in_layer g kk) (iota (length (g_na g0)) k) /\
                l_w (glayer g kk) = l_w (glayer g0 kk) /\ l_h (glayer g kk) = l_h (glayer g0 kk);
  bi_Lp : layers_ok g0 ->
     Permutation (flat_map l_nodes (g_L g)) (flat_map l_nodes (g_L g0) ++ iota (length (g_na g0)) k);
  bi_in : inlists_ok g0 -> forall n, n < length (g_na g0) ->
     NoDup (n_in (gnode g n)) /\
     Forall2 (last_rel (g_E g0) tbl) (n_in (gnode g0 n)) (n_in (gnode g n)) /\
     (forall y, In y (n_in (gnode g n)) -> y < length (g_ea g) /\ (In y (g_E g) -> e_to (gedge g y) = n))
}.

Unset Implicit Arguments.

Section BreakLoop.
Variable g0 : graph.
Hypothesis pre : break_pre g0.
Let na0 := length (g_na g0).
Let ea0 := length (g_ea g0).

Lemma binv_init : binv g0 g0 (map (fun _ => ([], [])) (g_E g0)) 0.
Proof.
  constructor; cbn [iota]; rewrite ?app_nil_r, ?Nat.add_0_r; try reflexivity.
  - apply map_length.
  - induction (g_E g0); cbn; [constructor|assumption].
  - induction (g_E g0); cbn; [constructor|assumption].
  - intros n Hn. split; [reflexivity|apply Forall2_in_rel_refl].
  - intros n Hn. lia.
  - intros j e p Hj Hp. rewrite nth_error_map, Hj in Hp. cbn in Hp. inversion Hp; subst p. cbn [fst snd chain].
    destruct (bp_edges pre e (nth_error_In _ _ Hj)) as (A & B & C & D).
    repeat split; try reflexivity; [exact C|apply (bp_nonvirt pre)].
  - intros x Hx. destruct (bp_edges pre x Hx) as (A & B & C & D). tauto.
  - intros LO x Hx. apply LO, Hx.
  - intros LO. split; [reflexivity|]. intros kk. cbn [filter]. rewrite app_nil_r. repeat split; reflexivity.
  - intros IO n Hn. destruct (IO n Hn) as [Nd En]. split; [exact Nd|]. split; [|exact En].
    assert (H : forall l, Forall2 (last_rel (g_E g0) (map (fun _ => ([], [])) (g_E g0))) l l).
    { induction l as [|x l IH]; constructor; [|exact IH].
      destruct (in_dec Nat.eq_dec x (g_E g0)) as [Hi|Hi]; [left|right; split; [exact Hi|reflexivity]].
      destruct (In_nth_error _ _ Hi) as [j Hj]. exists j, ([], []). split; [exact Hj|].
      split; [rewrite nth_error_map, Hj; reflexivity|reflexivity]. }
    apply H.
Qed.

Lemma binv_in_E_range : forall g tbl k x, binv g0 g tbl k -> In x (g_E g) -> x < length (g_ea g).
Proof.
  intros g tbl k x I Hx. rewrite (bi_E I) in Hx. rewrite (bi_ea I).
  apply in_app_or in Hx. destruct Hx as [Hx|Hx].
  - destruct (bp_edges pre x Hx). lia.
  - apply in_iota in Hx. lia.
Qed.

Lemma binv_nodup_E : forall g tbl k, binv g0 g tbl k -> NoDup (g_E g).
Proof.
  intros g tbl k I. rewrite (bi_E I).
  assert (H : forall l1 l2 : list nat, NoDup l1 -> NoDup l2 -> (forall x, In x l1 -> ~ In x l2) -> NoDup (l1 ++ l2)).
  { induction l1 as [|a l1 IH]; intros l2 H1 H2 H; cbn [app]; [exact H2|].
    inversion H1; subst. constructor.
    - rewrite in_app_iff. intros [?|?]; [contradiction|]. eapply H; [left; reflexivity|eassumption].
    - apply IH; try assumption. intros x Hx. apply H. right; exact Hx. }
  apply H; [apply (bp_nodup pre)|apply NoDup_iota|].
  intros x Hx Hx'. apply in_iota in Hx'. destruct (bp_edges pre x Hx). lia.
Qed.

(* the entry of the chain table an edge of the edge list belongs to, if it spans more than a layer *)
Lemma binv_find : forall g tbl k x, binv g0 g tbl k -> In x (g_E g) -> span g x <> 1%Z ->
  exists j e p, nth_error (g_E g0) j = Some e /\ nth_error tbl j = Some p /\ last (snd p) e = x.
Proof.
  intros g tbl k x I Hx Hs. rewrite (bi_E I) in Hx. apply in_app_or in Hx. destruct Hx as [Hx|Hx].
  - destruct (In_nth_error _ _ Hx) as [j Hj].
    assert (Hjl : j < length tbl) by (rewrite (bi_tbl I); apply nth_error_Some; congruence).
    destruct (nth_error tbl j) as [p|] eqn:Hp; [|apply nth_error_None in Hp; lia].
    exists j, x, p. split; [exact Hj|]. split; [exact Hp|].
    destruct (bi_ch I j Hj Hp) as (C & _). eapply chain_span_last; [exact C|left; reflexivity|exact Hs].
  - assert (Hx' : In x (flat_map snd tbl)) by (eapply Permutation_in; [apply Permutation_sym, (bi_pf I)|exact Hx]).
    apply in_flat_map in Hx'. destruct Hx' as (p & Hp & Hxp).
    destruct (In_nth_error _ _ Hp) as [j Hj].
    assert (Hjl : j < length (g_E g0)) by (rewrite <- (bi_tbl I); apply nth_error_Some; congruence).
    destruct (nth_error (g_E g0) j) as [e|] eqn:He; [|apply nth_error_None in He; lia].
    exists j, e, p. split; [exact He|]. split; [exact Hj|].
    destruct (bi_ch I j He Hj) as (C & _). eapply chain_span_last; [exact C|right; exact Hxp|exact Hs].
Qed.

Lemma binv_fs_new : forall g tbl k j p f, binv g0 g tbl k -> nth_error tbl j = Some p -> In f (snd p) ->
  ea0 <= f < length (g_ea g).
Proof.
  intros g tbl k j p f I Hp Hf. rewrite (bi_ea I). fold ea0.
  assert (H : In f (iota ea0 k)).
  { eapply Permutation_in; [apply (bi_pf I)|]. apply in_flat_map. exists p.
    split; [eapply nth_error_In; eassumption|exact Hf]. }
  apply in_iota in H. exact H.
Qed.

Lemma binv_uniq : forall g tbl k j e p j' e' p',
  binv g0 g tbl k ->
  nth_error (g_E g0) j = Some e -> nth_error tbl j = Some p ->
  nth_error (g_E g0) j' = Some e' -> nth_error tbl j' = Some p' -> j' <> j ->
  ~ In (last (snd p) e) (e' :: snd p').
Proof.
  intros g tbl k j e p j' e' p' I Hj Hp Hj' Hp' Hne.
  assert (He' : e' < ea0) by (apply (bp_edges pre e'); eapply nth_error_In; eassumption).
  assert (He : e < ea0) by (apply (bp_edges pre e); eapply nth_error_In; eassumption).
  destruct (last_in_cons _ (snd p) e) as [El|Hin]; intros [Hc|Hc].
  - apply Hne. eapply (proj1 (NoDup_nth_error (g_E g0)) (bp_nodup pre)); [|congruence].
    apply nth_error_Some. congruence.
  - rewrite <- El in Hc. destruct (binv_fs_new _ _ _ _ _ _ I Hp' Hc). lia.
  - destruct (binv_fs_new _ _ _ _ _ _ I Hp Hin). lia.
  - eapply (flat_map_disjoint _ _ (@snd (list nat) (list nat)) tbl); [|exact Hp|exact Hp'| |exact Hin|exact Hc].
    + eapply Permutation_NoDup; [apply Permutation_sym, (bi_pf I)|apply NoDup_iota].
    + congruence.
Qed.

Lemma binv_break : forall g tbl k x,
  binv g0 g tbl k -> In x (g_E g) -> (1 < span g x)%Z ->
  exists tbl', binv g0 (break_edge g x) tbl' (S k).
Proof.
  intros g tbl k x I Hx Hs.
  assert (Hxr := binv_in_E_range _ _ _ _ I Hx).
  destruct (bi_wf I x Hx) as (Hxf & Hxt & _).
  destruct (binv_find _ _ _ _ I Hx) as (j & e & p & Hj & Hp & Hlast); [lia|].
  set (v := length (g_na g)). set (f := length (g_ea g)).
  destruct (break_edge_spec g x Hxr Hxt) as (L1 & L2 & G1 & G2 & G3 & G4 & G5 & G6 & GE & GN & _).
  fold v f in L1, L2, G1, G2, G3, G4, G5, G6, GE, GN.
  assert (Hein : In e (g_E g0)) by (eapply nth_error_In; eassumption).
  destruct (bp_edges pre e Hein) as (Her & _).
  destruct (bi_ch I j Hj Hp) as (Ce & Se & Fe).
  assert (Hjl : j < length tbl) by (apply nth_error_Some; congruence).
  exists (upd tbl j (fun q => (fst q ++ [v], snd q ++ [f]))).
  constructor.
  - rewrite L1. unfold v. rewrite (bi_na I). lia.
  - rewrite L2. unfold f. rewrite (bi_ea I). lia.
  - rewrite GN, (bi_N I), iota_snoc, <- app_assoc. unfold v. rewrite (bi_na I). reflexivity.
  - rewrite GE, (bi_E I), iota_snoc, <- app_assoc. unfold f. rewrite (bi_ea I). reflexivity.
  - rewrite length_upd. apply (bi_tbl I).
  - rewrite iota_snoc. eapply perm_trans; [apply flat_map_upd_perm; [exact Hjl|reflexivity]|].
    replace (length (g_na g0) + k) with v by (unfold v; rewrite (bi_na I); reflexivity).
    apply Permutation_app_tail, (bi_pv I).
  - rewrite iota_snoc. eapply perm_trans; [apply flat_map_upd_perm; [exact Hjl|reflexivity]|].
    replace (length (g_ea g0) + k) with f by (unfold f; rewrite (bi_ea I); reflexivity).
    apply Permutation_app_tail, (bi_pf I).
  - intros n Hn. destruct (bi_old I Hn) as [S F2].
    assert (Hn' : n < length (g_na g)) by (rewrite (bi_na I); lia).
    destruct (break_edge_old_node g x n Hxr Hxt Hn') as [S' E'].
    split; [unfold same_but_in in *; congruence|].
    destruct (Nat.eq_dec n (e_to (gedge g x))) as [E|E].
    + subst n. rewrite G5. cbn [set_in n_in].
      apply Forall2_in_rel_replace; [unfold f; rewrite (bi_ea I); lia|exact F2].
    + rewrite E' by exact E. exact F2.
  - intros n Hn. rewrite L1 in Hn. destruct (Nat.eq_dec n v) as [E|E].
    + subst n. rewrite G1. reflexivity.
    + assert (Hn' : n < length (g_na g)) by (fold v; lia).
      destruct (break_edge_old_node g x n Hxr Hxt Hn') as [S' _].
      apply same_but_in_fields in S'. destruct S' as (-> & _). apply (bi_new I). lia.
  - intros j' e' p' Hj' Hp'. rewrite nth_error_upd in Hp'.
    destruct (Nat.eqb_spec j' j) as [E|E].
    + subst j'. rewrite Hp in Hp'. cbn [option_map] in Hp'. inversion Hp'; subst p'. cbn [fst snd].
      assert (e' = e) by congruence. subst e'.
      split.
      { unfold v, f. rewrite <- Hlast. apply chain_snoc_break; [exact Ce|rewrite (bi_ea I); lia|].
        destruct (Nat.eq_dec (last (snd p) e) e) as [El|El].
        - rewrite El in Hlast. subst x. exact Hxf.
        - (* the chain is not empty: the source of e is the source in g0 *)
          rewrite Fe. destruct (bp_edges pre e Hein) as (_ & B & _). rewrite (bi_na I). lia. }
      destruct (Nat.eq_dec e x) as [Eex|Eex].
      * rewrite Eex at 1 3. rewrite G3. rewrite <- Eex. rewrite <- Se, <- Fe. split; reflexivity.
      * rewrite G4; [split; assumption|exact Eex|unfold f; rewrite (bi_ea I); lia].
    + destruct (bi_ch I j' Hj' Hp') as (Ce' & Se' & Fe').
      assert (Hein' : In e' (g_E g0)) by (eapply nth_error_In; eassumption).
      destruct (bp_edges pre e' Hein') as (Her' & Bf' & _).
      assert (Hnotin : ~ In x (e' :: snd p')).
      { intros [Hc|Hc].
        - (* x = e' *)
          subst e'. destruct (Nat.eq_dec (last (snd p) e) e) as [El|El].
          + rewrite El in Hlast. subst x.
            apply E. eapply (proj1 (NoDup_nth_error (g_E g0)) (bp_nodup pre)); [|congruence].
            apply nth_error_Some. congruence.
          + assert (Hin : In x (snd p)).
            { rewrite <- Hlast. clear - El. revert El. generalize (snd p) as l.
              intros l; revert e; induction l as [|a l IH]; intros e El; cbn [last] in *; [congruence|].
              destruct l as [|b l]; [left; reflexivity|]. right. apply (IH e). exact El. }
            destruct (binv_fs_new _ _ _ _ _ _ I Hp Hin). unfold ea0 in *. lia.
        - destruct (Nat.eq_dec (last (snd p) e) e) as [El|El].
          + rewrite El in Hlast. subst x. destruct (binv_fs_new _ _ _ _ _ _ I Hp' Hc). unfold ea0 in *. lia.
          + assert (Hin : In x (snd p)).
            { rewrite <- Hlast. clear - El. revert El. generalize (snd p) as l.
              intros l; revert e; induction l as [|a l IH]; intros e El; cbn [last] in *; [congruence|].
              destruct l as [|b l]; [left; reflexivity|]. right. apply (IH e). exact El. }
            eapply (flat_map_disjoint _ _ (@snd (list nat) (list nat)) tbl); [|exact Hp|exact Hp'| |exact Hin|exact Hc].
            * eapply Permutation_NoDup; [apply Permutation_sym, (bi_pf I)|apply NoDup_iota].
            * congruence. }
      assert (Ge' : forall y, In y (e' :: snd p') -> gedge (break_edge g x) y = gedge g y).
      { intros y Hy. apply G4; [intro; subst y; contradiction|].
        destruct Hy as [<-|Hy]; [unfold f; rewrite (bi_ea I); lia|]. destruct (binv_fs_new _ _ _ _ _ _ I Hp' Hy). unfold f. lia. }
      split.
      { eapply chain_frame; [| |exact Ge'| | |exact Ce'].
        - rewrite L1. lia.
        - rewrite L2. lia.
        - intros n Hn. destruct (break_edge_old_node g x n Hxr Hxt Hn) as [S' E'].
          apply same_but_in_fields in S'. destruct S' as (S1 & S2 & S3 & _).
          split; [exact S1|]. split; [exact S2|]. split; [exact S3|].
          intros Vn. rewrite E'; [reflexivity|].
          intro En. subst n.
          (* the target of x is the non-virtual original target *)
          destruct (chain_last_layer _ _ _ _ _ Ce) as [_ Tx]. rewrite Hlast in Tx.
          destruct (chain_target _ _ _ _ _ Ce) as [_ Tv]. rewrite Tx in Vn. congruence.
        - rewrite Fe'. rewrite (bi_na I). lia. }
      rewrite Ge' by (left; reflexivity). split; assumption.
  - intros y Hy Hny. rewrite <- (bi_other I Hy Hny). apply G4; [|unfold f; rewrite (bi_ea I); lia].
    intro; subst y. rewrite (bi_E I) in Hx. apply in_app_or in Hx. destruct Hx as [Hx|Hx]; [contradiction|].
    apply in_iota in Hx. lia.
  - intros y Hy. rewrite GE in Hy. rewrite L1. apply in_app_or in Hy. destruct Hy as [Hy|[<-|[]]].
    + destruct (Nat.eq_dec y x) as [E|E].
      * subst y. rewrite span_break_self by assumption. rewrite G3. cbn [set_ends e_from e_to]. fold v. lia.
      * destruct (bi_wf I y Hy) as (A & B & C).
        destruct (span_break_other g x y Hxr Hxt E (binv_in_E_range _ _ _ _ I Hy) A B) as [E1 E2].
        rewrite E1, E2. fold v. lia.
    + rewrite G2. cbn [e_from e_to]. unfold f. rewrite span_break_new by assumption. fold v. lia.
  - intros LO y Hy. rewrite GE in Hy.
    destruct (bi_Lwf I LO x Hx) as [Lx1 Lx2].
    assert (Lv : layer_of (break_edge g x) v = (layer_of g (e_from (gedge g x)) + 1)%Z).
    { unfold layer_of at 1. rewrite G1. reflexivity. }
    apply in_app_or in Hy. destruct Hy as [Hy|[<-|[]]].
    + destruct (Nat.eq_dec y x) as [E|E].
      * subst y. rewrite G3. cbn [set_ends e_from e_to]. rewrite Lv.
        rewrite break_edge_layer_of by assumption. unfold span in Hs. split; [exact Lx1|lia].
      * destruct (bi_wf I y Hy) as (A & B & C).
        destruct (span_break_other g x y Hxr Hxt E (binv_in_E_range _ _ _ _ I Hy) A B) as [E1 _].
        rewrite E1, !break_edge_layer_of by assumption. apply (bi_Lwf I LO y Hy).
    + rewrite G2. cbn [e_from e_to]. rewrite Lv. rewrite break_edge_layer_of by assumption. split; [lia|exact Lx2].
  - intros LO. destruct (bi_L I LO) as [LL LK].
    destruct (bi_Lwf I LO x Hx) as [Lx1 Lx2].
    set (lv := Z.to_nat (layer_of g (e_from (gedge g x)) + 1)).
    assert (Hlv : lv < length (g_L g)). { rewrite LL. unfold lv. unfold span in Hs. lia. }
    assert (GL : forall kk, glayer (break_edge g x) kk =
              if Nat.eqb kk lv then mkLayer (l_nodes (glayer g kk) ++ [v]) (l_w (glayer g kk)) (l_h (glayer g kk))
              else glayer g kk).
    { intros kk. rewrite break_edge_unfold. unfold glayer at 1. cbn [g_L]. fold lv.
      rewrite nth_upd. destruct (Nat.ltb_spec lv (length (g_L g))) as [_|]; [|lia].
      rewrite Bool.andb_true_r. fold (glayer g kk). destruct (Nat.eqb kk lv); reflexivity. }
    split. { rewrite break_edge_unfold. cbn [g_L]. rewrite length_upd. exact LL. }
    intros kk. destruct (LK kk) as (K1 & K2 & K3). rewrite GL.
    rewrite iota_snoc, filter_app.
    replace (length (g_na g0) + k) with v by (unfold v; rewrite (bi_na I); reflexivity).
    assert (Fo : filter (new_in_layer (break_edge g x) kk) (iota (length (g_na g0)) k) =
                 filter (new_in_layer g kk) (iota (length (g_na g0)) k)).
    { apply filter_ext_in. intros n Hn. apply in_iota in Hn. unfold new_in_layer.
      rewrite break_edge_layer_of; [reflexivity|exact Hxr|exact Hxt|rewrite (bi_na I); lia]. }
    rewrite Fo. cbn [filter]. unfold new_in_layer at 2. unfold layer_of at 1. rewrite G1. cbn [n_layer].
    destruct (Nat.eqb_spec kk lv) as [E|E]; cbn [l_nodes l_w l_h].
    + destruct (Z.eqb_spec (layer_of g (e_from (gedge g x)) + 1) (Z.of_nat kk)) as [_|Hne]; [|unfold lv in E; lia].
      rewrite K1, app_assoc. repeat split; assumption.
    + destruct (Z.eqb_spec (layer_of g (e_from (gedge g x)) + 1) (Z.of_nat kk)) as [He'|_]; [unfold lv in E; lia|].
      rewrite app_nil_r. repeat split; assumption.
  - intros LO. destruct (bi_L I LO) as [LL _].
    destruct (bi_Lwf I LO x Hx) as [Lx1 Lx2].
    set (lv := Z.to_nat (layer_of g (e_from (gedge g x)) + 1)).
    assert (Hlv : lv < length (g_L g)). { rewrite LL. unfold lv. unfold span in Hs. lia. }
    rewrite break_edge_unfold. cbn [g_L]. fold lv.
    eapply perm_trans; [apply (flat_map_upd_perm _ _ l_nodes _ (length (g_na g))); [exact Hlv|reflexivity]|].
    rewrite iota_snoc, app_assoc. rewrite <- (bi_na I). apply Permutation_app_tail, (bi_Lp I LO).
  - intros IO n Hn. destruct (bi_in I IO Hn) as (Nd & F2 & En).
    assert (Hn' : n < length (g_na g)) by (rewrite (bi_na I); lia).
    assert (Hxnew : forall y, In y (n_in (gnode g n)) -> y = x -> n = e_to (gedge g x)).
    { intros y Hy ->. symmetry. apply (En x Hy), Hx. }
    (* pairs whose second component is not x stay related *)
    assert (C1 : forall a y, y <> x -> last_rel (g_E g0) tbl a y ->
                 last_rel (g_E g0) (upd tbl j (fun q => (fst q ++ [v], snd q ++ [f]))) a y).
    { intros a y Hyx [(j' & p' & Hj' & Hp' & Ey)|R]; [left|right; exact R].
      exists j', p'. split; [exact Hj'|]. split; [|exact Ey].
      rewrite nth_error_upd. destruct (Nat.eqb_spec j' j) as [E|E]; [|exact Hp'].
      exfalso. subst j'. apply Hyx. rewrite Ey. congruence. }
    destruct (Nat.eq_dec n (e_to (gedge g x))) as [E|E].
    + subst n. rewrite G5. cbn [set_in n_in].
      split; [apply NoDup_replace_first; [exact Nd|]; intro Hc; apply En in Hc; unfold f in Hc; lia|].
      split.
      * eapply Forall2_replace_first_gen; [exact F2|exact Nd| |].
        { intros a y _ _ Hyx. apply C1, Hyx. }
        { intros a Ha [(j' & p' & Hj' & Hp' & Ey)|[Hna Ey]].
          - left. destruct (Nat.eq_dec j' j) as [Ej|Ej].
            + subst j'. assert (a = e) by congruence. subst a. exists j, (fst p ++ [v], snd p ++ [f]).
              split; [exact Hj|]. split; [rewrite nth_error_upd, Nat.eqb_refl, Hp; reflexivity|].
              cbn [snd]. rewrite last_snoc. reflexivity.
            + exfalso. apply (binv_uniq _ _ _ j e p j' a p' I Hj Hp Hj' Hp' Ej).
              rewrite Hlast, Ey. apply last_in_cons.
          - exfalso. subst a. destruct (IO _ Hn) as [_ En0]. destruct (En0 x Ha) as [Rx _].
            destruct (last_in_cons _ (snd p) e) as [El|Hin].
            + apply Hna. rewrite <- Hlast, <- El. exact Hein.
            + rewrite Hlast in Hin. destruct (binv_fs_new _ _ _ _ _ _ I Hp Hin). unfold ea0 in *. lia. }
      * intros y Hy. destruct (in_replace_first _ _ _ _ Nd Hy) as [->|[Hy1 Hy2]].
        { split; [rewrite L2; lia|]. intros _. rewrite G2. reflexivity. }
        { destruct (En y Hy1) as [Ry Ty]. split; [rewrite L2; lia|]. intros Hin. rewrite GE in Hin.
          apply in_app_or in Hin. destruct Hin as [Hin|[Ef|[]]]; [|unfold f in Ef; lia].
          rewrite G4; [apply Ty, Hin|exact Hy2|unfold f; lia]. }
    + rewrite G6; [|exact E|unfold v; lia].
      split; [exact Nd|]. split.
      * eapply Forall2_impl_in; [exact F2|]. intros a y _ Hy. apply C1.
        intro Eyx. apply E. apply (Hxnew y Hy Eyx).
      * intros y Hy. destruct (En y Hy) as [Ry Ty]. split; [rewrite L2; lia|]. intros Hin. rewrite GE in Hin.
        apply in_app_or in Hin. destruct Hin as [Hin|[Ef|[]]]; [|unfold f in Ef; lia].
        rewrite G4; [apply Ty, Hin| |unfold f; lia].
        intro Eyx. apply E. apply (Hxnew y Hy Eyx).
Qed.
End BreakLoop.

(** ** the loop *)
Fixpoint zsum (l : list Z) : Z := match l with [] => 0%Z | a :: t => (a + zsum t)%Z end.
Definition rem_span (g : graph) (i : nat) : Z := zsum (map (span g) (skipn i (g_E g))).

Lemma zsum_app : forall l1 l2, zsum (l1 ++ l2) = (zsum l1 + zsum l2)%Z.
Proof. induction l1 as [|a l1 IH]; intros l2; cbn [app zsum]; [lia|]. rewrite IH. lia. Qed.

Lemma skipn_nth_error : forall A (l : list A) i x, nth_error l i = Some x -> skipn i l = x :: skipn (S i) l.
Proof.
  intros A l; induction l as [|a l IH]; intros i x H; destruct i; cbn [nth_error] in H; try discriminate.
  - inversion H. reflexivity.
  - cbn [skipn]. rewrite (IH i x H). reflexivity.
Qed.

Lemma in_skipn : forall A (l : list A) i y, In y (skipn i l) -> In y l.
Proof.
  intros A l; induction l as [|a l IH]; intros i y H; destruct i; cbn [skipn] in H; try assumption.
  right. eapply IH; eassumption.
Qed.

Lemma nodup_skipn_notin : forall (l : list nat) i x, NoDup l -> nth_error l i = Some x -> ~ In x (skipn (S i) l).
Proof.
  intros l; induction l as [|a l IH]; intros i x Hnd H; destruct i; cbn [nth_error] in H; try discriminate.
  - inversion H; subst. inversion Hnd; subst. cbn [skipn]. assumption.
  - inversion Hnd; subst. cbn [skipn]. apply IH; assumption.
Qed.

Lemma skipn_app_le : forall A (l1 l2 : list A) i, i <= length l1 -> skipn i (l1 ++ l2) = skipn i l1 ++ l2.
Proof.
  intros A l1; induction l1 as [|a l1 IH]; intros l2 i H; destruct i; cbn [length] in H; cbn [skipn app]; try reflexivity; try lia.
  apply IH. lia.
Qed.

Lemma map_ext_in' : forall A B (f g : A -> B) l, (forall x, In x l -> f x = g x) -> map f l = map g l.
Proof. intros A B f g l H. apply map_ext_in, H. Qed.

Section BreakLoop2.
Variable g0 : graph.
Hypothesis pre : break_pre g0.

Lemma rem_span_nonneg : forall g tbl k i, binv g0 g tbl k -> (0 <= rem_span g i)%Z.
Proof.
  intros g tbl k i I. unfold rem_span.
  assert (H : forall l, (forall x, In x l -> In x (g_E g)) -> (0 <= zsum (map (span g) l))%Z).
  { induction l as [|a l IH]; intros Hl; cbn [map zsum]; [lia|].
    destruct (bi_wf I a (Hl a (or_introl eq_refl))) as (_ & _ & S).
    assert (0 <= zsum (map (span g) l))%Z by (apply IH; intros x Hx; apply Hl; right; exact Hx). lia. }
  apply H. intros x Hx. eapply in_skipn; eassumption.
Qed.

Lemma break_loop_ok : forall fuel i g tbl k,
  binv g0 g tbl k ->
  (forall p x, p < i -> nth_error (g_E g) p = Some x -> span g x = 1%Z) ->
  (rem_span g i < Z.of_nat fuel)%Z ->
  exists g' tbl' k', break_long_loop fuel i g = Ok g' /\ binv g0 g' tbl' k' /\
                     (forall x, In x (g_E g') -> span g' x = 1%Z).
Proof.
  induction fuel as [|fu IH]; intros i g tbl k I Hpre Hfuel.
  - pose proof (rem_span_nonneg g tbl k i I). lia.
  - cbn [break_long_loop]. destruct (nth_error (g_E g) i) as [x|] eqn:Hx.
    + assert (Hin : In x (g_E g)) by (eapply nth_error_In; eassumption).
      destruct (bi_wf I x Hin) as (Hxf & Hxt & Hs1).
      assert (Hxr := binv_in_E_range g0 pre g tbl k x I Hin).
      fold (span g x).
      assert (Hnd := binv_nodup_E g0 pre g tbl k I).
      assert (Hrem : rem_span g i = (span g x + zsum (map (span g) (skipn (S i) (g_E g))))%Z).
      { unfold rem_span. rewrite (skipn_nth_error _ _ _ _ Hx). reflexivity. }
      destruct (Z.ltb_spec 1 (span g x)) as [Hs|Hs].
      * destruct (binv_break g0 pre g tbl k x I Hin Hs) as [tbl' I'].
        destruct (break_edge_spec g x Hxr Hxt) as (_ & _ & _ & _ & _ & _ & _ & _ & GE & _).
        apply (IH (S i) _ tbl' (S k) I').
        { intros p y Hp Hy. rewrite GE in Hy.
          assert (Hil : i < length (g_E g)) by (apply nth_error_Some; congruence).
          rewrite nth_error_app1 in Hy by lia.
          destruct (Nat.eq_dec p i) as [E|E].
          - subst p. assert (y = x) by congruence. subst y. apply span_break_self; assumption.
          - assert (Hyin : In y (g_E g)) by (eapply nth_error_In; eassumption).
            destruct (bi_wf I y Hyin) as (A & B & _).
            assert (Hne : y <> x).
            { intro; subst y. apply E. eapply (proj1 (NoDup_nth_error (g_E g)) Hnd); [|congruence].
              apply nth_error_Some. congruence. }
            destruct (span_break_other g x y Hxr Hxt Hne (binv_in_E_range g0 pre g tbl k y I Hyin) A B) as [_ ->].
            apply (Hpre p y); [lia|exact Hy]. }
        { unfold rem_span. rewrite GE.
          assert (Hil : i < length (g_E g)) by (apply nth_error_Some; congruence).
          rewrite skipn_app_le by lia. rewrite map_app, zsum_app. cbn [map zsum].
          rewrite span_break_new by assumption.
          rewrite (map_ext_in' _ _ (span (break_edge g x)) (span g)).
          - lia.
          - intros y Hy. assert (Hyin : In y (g_E g)) by (eapply in_skipn; eassumption).
            destruct (bi_wf I y Hyin) as (A & B & _).
            assert (Hne : y <> x).
            { intro; subst y. eapply nodup_skipn_notin; eassumption. }
            apply (span_break_other g x y Hxr Hxt Hne (binv_in_E_range g0 pre g tbl k y I Hyin) A B). }
      * destruct (Z.ltb_spec 1 (layer_of g (e_from (gedge g x)) - layer_of g (e_to (gedge g x)))) as [Hs'|Hs'].
        { unfold span in Hs1. lia. }
        apply (IH (S i) g tbl k I).
        { intros p y Hp Hy. destruct (Nat.eq_dec p i) as [E|E].
          - subst p. assert (y = x) by congruence. subst y. lia.
          - apply (Hpre p y); [lia|exact Hy]. }
        { unfold rem_span at 1. lia. }
    + exists g, tbl, k. split; [reflexivity|]. split; [exact I|].
      intros x Hin. destruct (In_nth_error _ _ Hin) as [p Hp].
      apply (Hpre p x); [|exact Hp].
      apply nth_error_None in Hx. assert (p < length (g_E g)) by (apply nth_error_Some; congruence). lia.
Qed.

Lemma fold_left_add_zsum : forall A (F : A -> Z) l a,
  fold_left (fun s e => (s + F e)%Z) l a = (a + zsum (map F l))%Z.
Proof.
  intros A F l; induction l as [|x l IH]; intros a; cbn [fold_left map zsum]; [lia|].
  rewrite IH. lia.
Qed.

Lemma total_span_rem : total_span g0 = rem_span g0 0.
Proof.
  unfold total_span, rem_span. cbn [skipn].
  rewrite (fold_left_add_zsum _ (fun e => Z.abs (layer_of g0 (e_to (gedge g0 e)) - layer_of g0 (e_from (gedge g0 e))))).
  rewrite Z.add_0_l. f_equal. apply map_ext_in. intros e He.
  destruct (bp_edges pre e He) as (_ & _ & _ & S). unfold span in *. lia.
Qed.

Theorem break_long_edges_inv :
  exists g' tbl k, break_long_edges g0 = Ok g' /\ binv g0 g' tbl k /\
                   (forall x, In x (g_E g') -> span g' x = 1%Z).
Proof.
  unfold break_long_edges. eapply break_loop_ok.
  - apply binv_init, pre.
  - intros p x Hp. lia.
  - rewrite <- total_span_rem.
    assert (0 <= total_span g0)%Z.
    { rewrite total_span_rem. apply (rem_span_nonneg g0 _ 0 0 (binv_init g0 pre)). }
    lia.
Qed.
End BreakLoop2.
Print Assumptions break_long_edges_inv.

(* the length of a chain all of whose edges span one layer *)
Lemma chain_total_span : forall g vs fs e t,
  chain g e vs fs t -> span g (last fs e) = 1%Z ->
  layer_of g t = (layer_of g (e_from (gedge g e)) + Z.of_nat (length vs) + 1)%Z.
Proof.
  intros g vs fs e t C S. destruct (chain_last_layer _ _ _ _ _ C) as [A B].
  unfold span in S. rewrite B, A in S. lia.
Qed.


(** B3, user-facing statement *)
Theorem break_long_edges_spec : forall g0, break_pre g0 ->
  exists g' k,
    break_long_edges g0 = Ok g' /\
    (* the lists and arenas grow by k fresh edges / virtual nodes *)
    g_E g' = g_E g0 ++ iota (length (g_ea g0)) k /\
    g_N g' = g_N g0 ++ iota (length (g_na g0)) k /\
    length (g_ea g') = length (g_ea g0) + k /\ length (g_na g') = length (g_na g0) + k /\
    (* afterwards every edge of the edge list spans exactly one layer *)
    (forall x, In x (g_E g') -> span g' x = 1%Z) /\
    (* new nodes are virtual, old ones keep every field but the in-list, whose entries are either
       kept or replaced by a new edge *)
    (forall n, length (g_na g0) <= n < length (g_na g0) + k -> n_virt (gnode g' n) = true) /\
    (forall n, n < length (g_na g0) ->
       same_but_in (gnode g' n) (gnode g0 n) /\
       Forall2 (in_rel (length (g_ea g0))) (n_in (gnode g0 n)) (n_in (gnode g' n))) /\
    (* arena edges outside the edge list are untouched *)
    (forall x, x < length (g_ea g0) -> ~ In x (g_E g0) -> gedge g' x = gedge g0 x) /\
    (* every original edge keeps its index, its source and all attributes but [e_to]; following it
       through (span - 1) new virtual nodes leads to its original target *)
    (forall e, In e (g_E g0) ->
       set_ends 0 0 (gedge g' e) = set_ends 0 0 (gedge g0 e) /\
       e_from (gedge g' e) = e_from (gedge g0 e) /\
       exists vs fs, chain g' e vs fs (e_to (gedge g0 e)) /\
                     Z.of_nat (length vs) = (span g0 e - 1)%Z /\
                     Forall (fun v => length (g_na g0) <= v < length (g_na g0) + k) vs /\
                     Forall (fun f => length (g_ea g0) <= f < length (g_ea g0) + k) fs).
Proof.
  intros g0 pre. destruct (break_long_edges_inv g0 pre) as (g' & tbl & k & R & I & S).
  exists g', k. split; [exact R|]. split; [apply (bi_E I)|]. split; [apply (bi_N I)|].
  split; [apply (bi_ea I)|]. split; [apply (bi_na I)|]. split; [exact S|].
  split. { intros n Hn. apply (bi_new I). rewrite (bi_na I). exact Hn. }
  split. { intros n Hn. apply (bi_old I Hn). }
  split. { intros x Hx Hn. apply (bi_other I Hx Hn). }
  intros e He. destruct (In_nth_error _ _ He) as [j Hj].
  assert (Hjl : j < length tbl) by (rewrite (bi_tbl I); apply nth_error_Some; congruence).
  destruct (nth_error tbl j) as [p|] eqn:Hp; [|apply nth_error_None in Hp; lia].
  destruct (bi_ch I j Hj Hp) as (C & A & B).
  split; [exact A|]. split; [exact B|]. exists (fst p), (snd p). split; [exact C|].
  assert (Hfs : forall f, In f (snd p) -> length (g_ea g0) <= f < length (g_ea g0) + k).
  { intros f Hf. apply in_iota. eapply Permutation_in; [apply (bi_pf I)|].
    apply in_flat_map. exists p. split; [eapply nth_error_In; eassumption|exact Hf]. }
  assert (Hvs : forall v, In v (fst p) -> length (g_na g0) <= v < length (g_na g0) + k).
  { intros v Hv. apply in_iota. eapply Permutation_in; [apply (bi_pv I)|].
    apply in_flat_map. exists p. split; [eapply nth_error_In; eassumption|exact Hv]. }
  split; [|split; apply Forall_forall; assumption].
  destruct (bp_edges pre e He) as (E1 & E2 & E3 & E4).
  assert (Hl : In (last (snd p) e) (g_E g')).
  { rewrite (bi_E I). apply in_or_app. destruct (last_in_cons _ (snd p) e) as [<-|Hl]; [left; exact He|].
    right. apply in_iota. apply Hfs, Hl. }
  pose proof (chain_total_span _ _ _ _ _ C (S _ Hl)) as T.
  rewrite B in T.
  assert (Lo : forall n, n < length (g_na g0) -> layer_of g' n = layer_of g0 n).
  { intros n Hn. destruct (bi_old I Hn) as [Sb _]. apply same_but_in_fields in Sb. unfold layer_of. tauto. }
  rewrite !Lo in T by assumption. unfold span. lia.
Qed.
Print Assumptions break_long_edges_spec.

(** B3, the layer lists (needs the layers of the edge ends to exist): the layer list of layer kk gets
    the new virtual nodes of that layer appended, in order of creation; sizes untouched *)
Theorem break_long_edges_layers : forall g0, break_pre g0 -> layers_ok g0 ->
  exists g' k,
    break_long_edges g0 = Ok g' /\ length (g_na g') = length (g_na g0) + k /\
    length (g_L g') = length (g_L g0) /\
    forall kk, l_nodes (glayer g' kk) =
                 l_nodes (glayer g0 kk) ++ filter (new_in_layer g' kk) (iota (length (g_na g0)) k) /\
               l_w (glayer g' kk) = l_w (glayer g0 kk) /\ l_h (glayer g' kk) = l_h (glayer g0 kk).
Proof.
  intros g0 pre LO. destruct (break_long_edges_inv g0 pre) as (g' & tbl & k & R & I & S).
  exists g', k. split; [exact R|]. split; [apply (bi_na I)|]. apply (bi_L I LO).
Qed.
Print Assumptions break_long_edges_layers.

Lemma chain_vs_layer : forall g vs fs e t v,
  chain g e vs fs t -> In v vs -> (layer_of g (e_from (gedge g e)) < layer_of g v)%Z.
Proof.
  intros g vs; induction vs as [|v' vs IH]; intros [|f fs] e t v H Hv; cbn [chain] in H; try tauto.
  - destruct Hv.
  - destruct H as (_ & _ & _ & _ & _ & _ & E2 & E3 & H). destruct Hv as [<-|Hv]; [lia|].
    specialize (IH fs f t v H Hv). rewrite E2 in IH. lia.
Qed.

(** B3, well-formedness of the layer lists is preserved, and every new virtual node is listed in
    the layer given by its layer field *)
Theorem break_long_edges_layers_wf : forall g0, break_pre g0 -> layers_ok g0 -> layers_wf g0 ->
  exists g' k,
    break_long_edges g0 = Ok g' /\ length (g_na g') = length (g_na g0) + k /\
    layers_wf g' /\
    (forall v, length (g_na g0) <= v < length (g_na g0) + k ->
       (0 < layer_of g' v)%Z /\ In v (l_nodes (glayer g' (Z.to_nat (layer_of g' v))))) /\
    (forall n kk, In n (l_nodes (glayer g0 kk)) -> In n (l_nodes (glayer g' kk))).
Proof.
  intros g0 pre LO [W1 W2]. destruct (break_long_edges_inv g0 pre) as (g' & tbl & k & R & I & S).
  exists g', k. split; [exact R|]. split; [apply (bi_na I)|].
  destruct (bi_L I LO) as [LL LK]. pose proof (bi_Lp I LO) as P.
  split; [split|split].
  - eapply Permutation_NoDup; [apply Permutation_sym, P|].
    assert (H : forall l1 l2 : list nat, NoDup l1 -> NoDup l2 -> (forall x, In x l1 -> ~ In x l2) -> NoDup (l1 ++ l2)).
    { induction l1 as [|a l1 IH]; intros l2 H1 H2 H; cbn [app]; [exact H2|].
      inversion H1; subst. constructor.
      - rewrite in_app_iff. intros [?|?]; [contradiction|]. eapply H; [left; reflexivity|eassumption].
      - apply IH; try assumption. intros x Hx. apply H. right; exact Hx. }
    apply H; [exact W1|apply NoDup_iota|]. intros x Hx Hx'. apply in_iota in Hx'. specialize (W2 x Hx). lia.
  - intros n Hn. apply (Permutation_in _ P) in Hn. apply in_app_or in Hn. rewrite (bi_na I).
    destruct Hn as [Hn|Hn]; [specialize (W2 n Hn); lia|apply in_iota in Hn; lia].
  - intros v Hv.
    assert (Hv' : In v (flat_map fst tbl)).
    { eapply Permutation_in; [apply Permutation_sym, (bi_pv I)|]. apply in_iota. exact Hv. }
    apply in_flat_map in Hv'. destruct Hv' as (p & Hp & Hvp).
    destruct (In_nth_error _ _ Hp) as [j Hj].
    assert (Hjl : j < length (g_E g0)) by (rewrite <- (bi_tbl I); apply nth_error_Some; congruence).
    destruct (nth_error (g_E g0) j) as [e|] eqn:He; [|apply nth_error_None in He; lia].
    destruct (bi_ch I j He Hj) as (C & _ & F).
    assert (Hein : In e (g_E g0)) by (eapply nth_error_In; eassumption).
    pose proof (chain_vs_layer _ _ _ _ _ _ C Hvp) as Lv. rewrite F in Lv.
    destruct (bp_edges pre e Hein) as (_ & E2 & _). destruct (LO e Hein) as [L0 _].
    assert (Lo : layer_of g' (e_from (gedge g0 e)) = layer_of g0 (e_from (gedge g0 e))).
    { destruct (bi_old I E2) as [Sb _]. apply same_but_in_fields in Sb. unfold layer_of. tauto. }
    rewrite Lo in Lv. split; [lia|].
    destruct (LK (Z.to_nat (layer_of g' v))) as (K1 & _). rewrite K1. apply in_or_app. right.
    apply filter_In. split; [apply in_iota; exact Hv|]. unfold new_in_layer. apply Z.eqb_eq. lia.
  - intros n kk Hn. destruct (LK kk) as (K1 & _). rewrite K1. apply in_or_app. left; exact Hn.
Qed.
Print Assumptions break_long_edges_layers_wf.


(* ====================================================================================== *)
(** * B4. merge_long_edges                                                                  *)
(* ====================================================================================== *)

(** the part of [chain] that reduceForward reads *)
Fixpoint wchain (g : graph) (e : nat) (vs fs : list nat) (t : nat) : Prop :=
  match vs, fs with
  | [], [] => e_to (gedge g e) = t /\ n_virt (gnode g t) = false
  | v :: vs', f :: fs' =>
      e_to (gedge g e) = v /\ n_virt (gnode g v) = true /\ n_out (gnode g v) = [f] /\ wchain g f vs' fs' t
  | _, _ => False
  end.

Lemma chain_wchain : forall g vs fs e t, chain g e vs fs t -> wchain g e vs fs t.
Proof.
  intros g vs; induction vs as [|v vs IH]; intros [|f fs] e t H; cbn [chain wchain] in *; try tauto.
  destruct H as (A & _ & _ & B & _ & C & _ & _ & D). auto.
Qed.

Lemma wchain_rehead : forall g g' vs fs e e' t,
  e_to (gedge g' e') = e_to (gedge g e) ->
  (forall x, In x fs -> gedge g' x = gedge g x) ->
  (forall n, n_virt (gnode g' n) = n_virt (gnode g n) /\ n_out (gnode g' n) = n_out (gnode g n)) ->
  wchain g e vs fs t -> wchain g' e' vs fs t.
Proof.
  intros g g' vs; induction vs as [|v vs IH]; intros [|f fs] e e' t He Hx Hn H; cbn [wchain] in *; try tauto.
  - destruct H as [A B]. rewrite He. split; [exact A|]. destruct (Hn t) as [-> _]. exact B.
  - destruct H as (A & B & C & D). rewrite He. destruct (Hn v) as [-> ->].
    split; [exact A|]. split; [exact B|]. split; [exact C|].
    eapply IH; [| | |exact D].
    + rewrite Hx by (left; reflexivity). reflexivity.
    + intros x Hin. apply Hx. right; exact Hin.
    + exact Hn.
Qed.

Lemma chain_fs_vsrc : forall g vs fs e t f,
  chain g e vs fs t -> In f fs -> n_virt (gnode g (e_from (gedge g f))) = true.
Proof.
  intros g vs; induction vs as [|v vs IH]; intros [|f' fs] e t f H Hf; cbn [chain] in H; try tauto.
  - destruct Hf.
  - destruct H as (_ & _ & _ & B & _ & _ & C & _ & D). destruct Hf as [<-|Hf].
    + rewrite C. exact B.
    + eapply IH; eassumption.
Qed.

Lemma chain_vs_virt : forall g vs fs e t v,
  chain g e vs fs t -> In v vs -> n_virt (gnode g v) = true.
Proof.
  intros g vs; induction vs as [|v' vs IH]; intros [|f' fs] e t v H Hv; cbn [chain] in H; try tauto.
  - destruct Hv.
  - destruct H as (_ & _ & _ & B & _ & _ & _ & _ & D). destruct Hv as [<-|Hv]; [exact B|].
    eapply IH; eassumption.
Qed.

(* layers increase by one along the route of a chain all of whose edges span one layer *)
Lemma chain_route_layers : forall g vs fs e t,
  chain g e vs fs t -> span g (last fs e) = 1%Z ->
  chain_layers g (e_from (gedge g e) :: vs ++ [t]).
Proof.
  intros g vs; induction vs as [|v vs IH]; intros [|f fs] e t H S; cbn [chain] in H; try tauto.
  - cbn [last] in S. destruct H as (A & _). cbn [app chain_layers]. unfold span in S. rewrite A in S.
    split; [lia|exact I].
  - destruct H as (A & _ & _ & _ & _ & _ & C & L & D).
    rewrite last_cons_default in S. specialize (IH fs f t D S). rewrite C in IH.
    cbn [app]. cbn [app] in IH. split; [exact L|exact IH].
Qed.

(** ** the backing array of the edge slice *)
Definition arr_rm (st : list nat * nat) (f : nat) : list nat * nat := arr_remove (fst st) (snd st) f.

Definition remove_all (fs l : list nat) : list nat := fold_left (fun l f => remove_nat f l) fs l.

Lemma in_remove_all : forall fs l x, In x (remove_all fs l) <-> In x l /\ ~ In x fs.
Proof.
  induction fs as [|f fs IH]; intros l x; cbn [remove_all fold_left In].
  - tauto.
  - fold (remove_all fs (remove_nat f l)). rewrite IH, in_remove_nat. intuition congruence.
Qed.

Lemma remove_all_nodup : forall fs l, NoDup l -> NoDup (remove_all fs l).
Proof.
  induction fs as [|f fs IH]; intros l H; cbn [remove_all fold_left]; [exact H|].
  apply IH, remove_nat_nodup, H.
Qed.

Section Arr.
Variable orig : list nat.
Variable P : nat -> Prop.

(* arr = orig ++ atl (all of atl satisfying P); the live prefix is orig ++ ltl *)
Definition arr_inv (arr : list nat) (len : nat) (ltl : list nat) : Prop :=
  exists atl, arr = orig ++ atl /\ Forall P atl /\ firstn len arr = orig ++ ltl /\
              len = length orig + length ltl /\ NoDup ltl /\ (forall x, In x ltl -> ~ In x orig) /\
              incl ltl atl.

Lemma arr_remove_step : forall arr len ltl f,
  arr_inv arr len ltl -> In f ltl ->
  arr_inv (fst (arr_remove arr len f)) (snd (arr_remove arr len f)) (remove_nat f ltl).
Proof.
  intros arr len ltl f (atl & Ea & Fa & El & Ln & Nd & Dj & Inc) Hf.
  unfold arr_remove. rewrite El.
  assert (M : mem_nat f (orig ++ ltl) = true) by (apply mem_nat_iff, in_or_app; right; exact Hf).
  rewrite M. cbn [fst snd].
  rewrite remove_nat_app, (remove_nat_notin f orig) by (apply Dj, Hf).
  assert (Lr : S (length (remove_nat f ltl)) = length ltl) by (apply remove_nat_length_nodup; assumption).
  assert (Sk : skipn (len - 1) arr = skipn (len - 1 - length orig) atl).
  { rewrite Ea, skipn_app, skipn_all2 by lia. reflexivity. }
  exists (remove_nat f ltl ++ skipn (len - 1) arr).
  split; [rewrite <- app_assoc; reflexivity|].
  split.
  { apply Forall_forall. intros x Hx. apply in_app_or in Hx. rewrite Forall_forall in Fa.
    destruct Hx as [Hx|Hx].
    - apply Fa, Inc. apply in_remove_nat in Hx. tauto.
    - rewrite Sk in Hx. apply Fa. eapply in_skipn; eassumption. }
  split.
  { replace (len - 1) with (length (orig ++ remove_nat f ltl) + 0) at 1 by (rewrite app_length; lia).
    rewrite firstn_app_2. cbn [firstn]. rewrite app_nil_r. reflexivity. }
  split; [lia|]. split; [apply remove_nat_nodup, Nd|].
  split.
  { intros x Hx. apply in_remove_nat in Hx. apply Dj. tauto. }
  intros x Hx. apply in_or_app. left; exact Hx.
Qed.

Lemma arr_remove_fold : forall fs arr len ltl,
  arr_inv arr len ltl -> NoDup fs -> incl fs ltl ->
  let st := fold_left arr_rm fs (arr, len) in
  arr_inv (fst st) (snd st) (remove_all fs ltl).
Proof.
  induction fs as [|f fs IH]; intros arr len ltl A Nd Inc; cbn [fold_left remove_all].
  - exact A.
  - inversion Nd as [|? ? Hnf Nd']; subst.
    fold (remove_all fs (remove_nat f ltl)).
    assert (A' := arr_remove_step arr len ltl f A (Inc f (or_introl eq_refl))).
    change (arr_rm (arr, len) f) with (arr_remove arr len f).
    destruct (arr_remove arr len f) as [arr' len'] eqn:E. cbn [fst snd] in A'.
    apply IH; [exact A'|exact Nd'|].
    intros x Hx. apply in_remove_nat. split; [apply Inc; right; exact Hx|]. intro; subst; contradiction.
Qed.
End Arr.

(** ** reduceForward *)
Definition merged_edge (ed : edge) (t : nat) : edge := set_ahs (e_rev ed) (set_ends (e_from ed) t ed).

Definition rf_graph (g : graph) (e f : nat) (live : list nat) : graph :=
  let v := e_to (gedge g f) in
  with_E (upd_edge (upd_node g v (fun n => set_in (el_add e (el_remove f (n_in n))) n)) e
                   (fun ed => set_ends (e_from ed) v ed)) live.

Lemma reduce_forward_virtual : forall fu s e ns f,
  n_virt (gnode (m_g s) (e_to (gedge (m_g s) e))) = true ->
  n_out (gnode (m_g s) (e_to (gedge (m_g s) e))) = [f] ->
  reduce_forward (S fu) s e ns =
    let st := arr_rm (m_arr s, m_len s) f in
    reduce_forward fu (mkMst (rf_graph (m_g s) e f (firstn (snd st) (fst st))) (fst st) (snd st)) e
                   (ns ++ [e_to (gedge (m_g s) e)]).
Proof.
  intros fu s e ns f Hv Ho. cbn [reduce_forward]. rewrite Hv, Ho.
  unfold arr_rm. cbn [fst snd]. destruct (arr_remove (m_arr s) (m_len s) f) as [arr len]. reflexivity.
Qed.

Lemma reduce_forward_final : forall fu s e a ns0,
  let g := m_g s in
  n_virt (gnode g (e_to (gedge g e))) = false ->
  e_from (gedge g e) = a ->
  (layer_of g a < layer_of g (e_to (gedge g e)))%Z ->
  reduce_forward (S fu) s e (a :: ns0) =
    Ok (mkMst (upd_edge g e (fun ed => set_ahs (e_rev ed) ed)) (m_arr s) (m_len s),
        a :: ns0 ++ [e_to (gedge g e)]).
Proof.
  intros fu s e a ns0 g Hv Ha Hl. cbn [reduce_forward]. fold g. rewrite Hv.
  unfold ordered_nodes. rewrite Ha.
  destruct (Z.ltb_spec (layer_of g a) (layer_of g (e_to (gedge g e)))) as [_|]; [|lia].
  assert (Hne : Nat.eqb a (e_to (gedge g e)) = false).
  { apply Nat.eqb_neq. intro E. rewrite <- E in Hl. lia. }
  cbn [app]. rewrite Hne. cbn [andb].
  destruct (last_opt (a :: ns0 ++ [e_to (gedge g e)])); reflexivity.
Qed.

Lemma set_ends_self : forall ed, set_ends (e_from ed) (e_to ed) ed = ed.
Proof. intros []; reflexivity. Qed.

Lemma rf_graph_facts : forall g e f live,
  e < length (g_ea g) ->
  let g' := rf_graph g e f live in
  gedge g' e = set_ends (e_from (gedge g e)) (e_to (gedge g f)) (gedge g e) /\
  (forall x, x <> e -> gedge g' x = gedge g x) /\
  (forall n, same_but_in (gnode g' n) (gnode g n)) /\
  length (g_na g') = length (g_na g) /\ length (g_ea g') = length (g_ea g) /\
  g_N g' = g_N g /\ g_L g' = g_L g /\ g_E g' = live.
Proof.
  intros g e f live He g'. unfold g', rf_graph.
  split. { rewrite gedge_with_E, gedge_upd_edge_same by exact He. reflexivity. }
  split. { intros x Hx. rewrite gedge_with_E, gedge_upd_edge_other by exact Hx. reflexivity. }
  split. { intros n. rewrite gnode_with_E, gnode_upd_edge, gnode_upd_node.
           destruct (Nat.eqb n (e_to (gedge g f)) && Nat.ltb (e_to (gedge g f)) (length (g_na g)))%bool;
             [destruct (gnode g n)|]; reflexivity. }
  cbn [with_E upd_edge upd_node with_ea with_na g_na g_ea g_N g_L g_E].
  rewrite !length_upd. repeat split; reflexivity.
Qed.

Lemma reduce_forward_ok : forall vs fs fuel s e ns0 t,
  let g := m_g s in let a := e_from (gedge g e) in
  wchain g e vs fs t -> length vs < fuel ->
  e < length (g_ea g) -> ~ In e fs ->
  (layer_of g a < layer_of g t)%Z ->
  g_E g = firstn (m_len s) (m_arr s) ->
  let st := fold_left arr_rm fs (m_arr s, m_len s) in
  exists g',
    reduce_forward fuel s e (a :: ns0) = Ok (mkMst g' (fst st) (snd st), a :: ns0 ++ vs ++ [t]) /\
    gedge g' e = merged_edge (gedge g e) t /\
    (forall x, x <> e -> gedge g' x = gedge g x) /\
    (forall n, same_but_in (gnode g' n) (gnode g n)) /\
    length (g_na g') = length (g_na g) /\ length (g_ea g') = length (g_ea g) /\
    g_N g' = g_N g /\ g_L g' = g_L g /\
    g_E g' = firstn (snd st) (fst st).
Proof.
  induction vs as [|v vs IH]; intros [|f fs] fuel s e ns0 t g a W Hfu He Hnin Hl HE st;
    cbn [wchain] in W; try tauto.
  - destruct W as [Wt Wv]. destruct fuel as [|fu]; [cbn in Hfu; lia|].
    exists (upd_edge g e (fun ed => set_ahs (e_rev ed) ed)).
    split.
    { rewrite (reduce_forward_final fu s e a ns0); fold g; rewrite ?Wt; auto. }
    split. { rewrite gedge_upd_edge_same by exact He. unfold merged_edge. rewrite <- Wt, set_ends_self. reflexivity. }
    split. { intros x Hx. apply gedge_upd_edge_other, Hx. }
    split. { intros n. reflexivity. }
    split; [reflexivity|]. split; [apply length_ea_upd_edge|].
    split; [reflexivity|]. split; [reflexivity|]. exact HE.
  - destruct W as (Wt & Wv & Wo & W). destruct fuel as [|fu]; [cbn in Hfu; lia|].
    assert (R := reduce_forward_virtual fu s e (a :: ns0) f). fold g in R. rewrite Wt in R.
    specialize (R Wv Wo). cbv zeta in R.
    set (st1 := arr_rm (m_arr s, m_len s) f) in *.
    set (g1 := rf_graph g e f (firstn (snd st1) (fst st1))) in *.
    destruct (rf_graph_facts g e f (firstn (snd st1) (fst st1)) He) as (F1 & F2 & F3 & F4 & F5 & F6 & F7 & F8).
    fold g1 in F1, F2, F3, F4, F5, F6, F7, F8.
    set (s1 := mkMst g1 (fst st1) (snd st1)) in *.
    assert (Lay : forall n, layer_of g1 n = layer_of g n).
    { intros n. specialize (F3 n). apply same_but_in_fields in F3. unfold layer_of. tauto. }
    assert (Fa : e_from (gedge g1 e) = a) by (rewrite F1; reflexivity).
    assert (W1 : wchain g1 e vs fs t).
    { eapply wchain_rehead; [| | |exact W].
      - rewrite F1. reflexivity.
      - intros x Hx. apply F2. intro; subst x. apply Hnin. right; exact Hx.
      - intros n. specialize (F3 n). apply same_but_in_fields in F3. tauto. }
    destruct (IH fs fu s1 e (ns0 ++ [v]) t) as (g' & R' & G1 & G2 & G3 & G4 & G5 & G6 & G7 & G8).
    + exact W1.
    + cbn [length] in Hfu. lia.
    + cbn [s1 m_g]. rewrite F5. exact He.
    + intro Hc. apply Hnin. right; exact Hc.
    + cbn [s1 m_g]. rewrite Fa, !Lay. exact Hl.
    + cbn [s1 m_g m_len m_arr]. exact F8.
    + cbn [s1 m_g m_arr m_len] in *. rewrite Fa in R'.
      exists g'. split.
      { rewrite R. change (a :: ns0 ++ [v]) with (a :: (ns0 ++ [v])) in *.
        cbn [app]. rewrite R'. unfold st. cbn [fold_left]. fold st1.
        replace (fst st1, snd st1) with st1 by (destruct st1; reflexivity).
        rewrite <- !app_assoc. reflexivity. }
      unfold st. cbn [fold_left]. fold st1.
      replace (fst st1, snd st1) with st1 in * by (destruct st1; reflexivity).
      split. { rewrite G1, F1. unfold merged_edge. destruct (gedge g e); reflexivity. }
      split. { intros x Hx. rewrite G2, F2 by exact Hx. reflexivity. }
      split. { intros n. unfold same_but_in in *. rewrite G3. apply F3. }
      repeat split; congruence.
Qed.

(** ** one iteration of mergeLongEdges on an original edge *)
Lemma ordered_nodes_down : forall g e,
  (layer_of g (e_from (gedge g e)) < layer_of g (e_to (gedge g e)))%Z ->
  ordered_nodes g e = (e_from (gedge g e), e_to (gedge g e)).
Proof.
  intros g e H. unfold ordered_nodes.
  destruct (Z.ltb_spec (layer_of g (e_from (gedge g e))) (layer_of g (e_to (gedge g e)))); [reflexivity|lia].
Qed.

Lemma merge_step : forall fu i s routes e vs fs t,
  let g := m_g s in let a := e_from (gedge g e) in
  nth_error (m_arr s) i = Some e ->
  wchain g e vs fs t -> length vs <= length (g_na g) ->
  e < length (g_ea g) -> ~ In e fs -> n_virt (gnode g a) = false ->
  (layer_of g a < layer_of g t)%Z ->
  g_E g = firstn (m_len s) (m_arr s) ->
  let st := fold_left arr_rm fs (m_arr s, m_len s) in
  exists g',
    merge_loop (S fu) i s routes =
      merge_loop fu (S i) (mkMst g' (fst st) (snd st)) (routes ++ [(e, a :: vs ++ [t])]) /\
    gedge g' e = merged_edge (gedge g e) t /\
    (forall x, x <> e -> gedge g' x = gedge g x) /\
    (forall n, same_but_in (gnode g' n) (gnode g n)) /\
    length (g_na g') = length (g_na g) /\ length (g_ea g') = length (g_ea g) /\
    g_N g' = g_N g /\ g_L g' = g_L g /\
    g_E g' = firstn (snd st) (fst st).
Proof.
  intros fu i s routes e vs fs t g a Hi W Hlen He Hnin Hva Hl HE st.
  destruct vs as [|v vs]; destruct fs as [|f fs]; cbn [wchain] in W; try tauto.
  - destruct W as [Wt Wv].
    exists (upd_edge g e (fun ed => set_ahs (e_rev ed) ed)).
    split.
    { cbn [merge_loop]. rewrite Hi. fold g. unfold edge_type. fold a. rewrite Hva, Wt, Wv. cbn [negb andb].
      rewrite ordered_nodes_down by (fold a; rewrite Wt; exact Hl). fold a. rewrite Wt.
      unfold st. cbn [fold_left fst snd app]. reflexivity. }
    split. { rewrite gedge_upd_edge_same by exact He. unfold merged_edge. rewrite <- Wt, set_ends_self. reflexivity. }
    split. { intros x Hx. apply gedge_upd_edge_other, Hx. }
    split. { intros n. reflexivity. }
    split; [reflexivity|]. split; [apply length_ea_upd_edge|].
    split; [reflexivity|]. split; [reflexivity|]. exact HE.
  - assert (W' : wchain g e (v :: vs) (f :: fs) t) by exact W.
    destruct W as (Wt & Wv & Wo & W).
    destruct (reduce_forward_ok (v :: vs) (f :: fs) (S (length (g_na g))) s e [] t W')
      as (g' & R & G); try assumption.
    { cbn [length] in *. lia. }
    exists g'. split; [|exact G].
    unfold a, g in *. cbn [merge_loop]. rewrite Hi. unfold edge_type. rewrite Hva, Wt, Wv. cbn [negb andb Bool.eqb].
    rewrite R. cbn [bind fst snd app]. reflexivity.
Qed.

(* entries of the array whose source is virtual are skipped *)
Lemma merge_loop_skip : forall fuel i s routes,
  (forall j x, i <= j -> nth_error (m_arr s) j = Some x ->
     n_virt (gnode (m_g s) (e_from (gedge (m_g s) x))) = true) ->
  merge_loop fuel i s routes = Ok (s, routes).
Proof.
  induction fuel as [|fu IH]; intros i s routes H; cbn [merge_loop]; [reflexivity|].
  destruct (nth_error (m_arr s) i) as [x|] eqn:Hx; [|reflexivity].
  assert (Hv := H i x (le_n i) Hx).
  assert (Hrec : merge_loop fu (S i) s routes = Ok (s, routes)).
  { apply IH. intros j y Hj. apply H. lia. }
  unfold edge_type. rewrite Hv. cbn [negb andb].
  destruct (Bool.eqb true (n_virt (gnode (m_g s) (e_to (gedge (m_g s) x))))); exact Hrec.
Qed.

(** ** the precondition of the merge: the shape produced by break_long_edges *)
Set Implicit Arguments.
Record broken (g : graph) (orig : list nat) (tbl : ctbl) (tg : nat -> nat) : Prop := {
  br_nodup : NoDup (g_E g);
  br_E : exists news, g_E g = orig ++ news /\ (forall f, In f news <-> In f (flat_map snd tbl));
  br_tbl : length tbl = length orig;
  br_fs_nodup : NoDup (flat_map snd tbl);
  br_ch : forall j e p, nth_error orig j = Some e -> nth_error tbl j = Some p ->
     chain g e (fst p) (snd p) (tg e) /\ e < length (g_ea g) /\
     n_virt (gnode g (e_from (gedge g e))) = false /\ length (fst p) <= length (g_na g);
  br_span : forall x, In x (g_E g) -> span g x = 1%Z
}.
Unset Implicit Arguments.

Lemma in_firstn : forall A (l : list A) i y, In y (firstn i l) -> In y l.
Proof.
  intros A l; induction l as [|a l IH]; intros i y H; destruct i; cbn [firstn] in H; try (destruct H; fail).
  destruct H as [<-|H]; [left; reflexivity|right; eapply IH; eassumption].
Qed.

Lemma nodup_firstn_notin : forall (l : list nat) i x, NoDup l -> nth_error l i = Some x -> ~ In x (firstn i l).
Proof.
  intros l; induction l as [|a l IH]; intros i x Hnd H; destruct i; cbn [nth_error] in H; try discriminate.
  - cbn. tauto.
  - inversion Hnd; subst. cbn [firstn]. intros [E|Hin].
    + subst a. apply nth_error_In in H. contradiction.
    + eapply IH; eassumption.
Qed.

Lemma firstn_S_nth_error : forall A (l : list A) i x, nth_error l i = Some x -> firstn (S i) l = firstn i l ++ [x].
Proof.
  intros A l; induction l as [|a l IH]; intros i x H; destruct i; cbn [nth_error] in H; try discriminate.
  - inversion H. reflexivity.
  - cbn [firstn app]. cbn [firstn] in IH. rewrite (IH i x H). reflexivity.
Qed.

Lemma nth_error_combine : forall A B (l1 : list A) (l2 : list B) i a b,
  nth_error l1 i = Some a -> nth_error l2 i = Some b -> nth_error (combine l1 l2) i = Some (a, b).
Proof.
  intros A B l1; induction l1 as [|x l1 IH]; intros [|y l2] i a b H1 H2; destruct i; cbn [nth_error combine] in *;
    try discriminate.
  - congruence.
  - apply IH; assumption.
Qed.

Lemma NoDup_flat_map_part : forall A B (F : A -> list B) l p, NoDup (flat_map F l) -> In p l -> NoDup (F p).
Proof.
  intros A B F l; induction l as [|a l IH]; intros p Hnd Hp; [destruct Hp|].
  cbn [flat_map] in Hnd. destruct Hp as [<-|Hp].
  - eapply NoDup_app_l; eassumption.
  - apply IH; [eapply NoDup_app_r; eassumption|exact Hp].
Qed.

Section Merge.
Variables (g1 : graph) (orig : list nat) (tbl : ctbl) (tg : nat -> nat).
Hypothesis B : broken g1 orig tbl tg.

Definition isnew (x : nat) : Prop := In x (flat_map snd tbl).

Definition route_of (ep : nat * (list nat * list nat)) : nat * list nat :=
  (fst ep, e_from (gedge g1 (fst ep)) :: fst (snd ep) ++ [tg (fst ep)]).

Lemma br_orig_nodup : NoDup orig.
Proof. destruct (br_E B) as (news & E & _). pose proof (br_nodup B) as H. rewrite E in H. eapply NoDup_app_l; eassumption. Qed.

Lemma isnew_facts : forall x, isnew x ->
  ~ In x orig /\ In x (g_E g1) /\ n_virt (gnode g1 (e_from (gedge g1 x))) = true.
Proof.
  intros x Hx. destruct (br_E B) as (news & E & M). pose proof (br_nodup B) as Hnd. rewrite E in Hnd.
  assert (Hn : In x news) by (apply M, Hx).
  split. { intro Ho. eapply NoDup_app_disj; eassumption. }
  split. { rewrite E. apply in_or_app. right; exact Hn. }
  unfold isnew in Hx. apply in_flat_map in Hx. destruct Hx as (p & Hp & Hxp).
  destruct (In_nth_error _ _ Hp) as [j Hj].
  assert (Hjl : j < length orig) by (rewrite <- (br_tbl B); apply nth_error_Some; congruence).
  destruct (nth_error orig j) as [e|] eqn:He; [|apply nth_error_None in He; lia].
  destruct (br_ch B j He Hj) as (C & _). eapply chain_fs_vsrc; eassumption.
Qed.

Set Implicit Arguments.
Record minv (s : mst) (i : nat) (routes : list (nat * list nat)) : Prop := {
  mi_na : length (g_na (m_g s)) = length (g_na g1);
  mi_ea : length (g_ea (m_g s)) = length (g_ea g1);
  mi_N : g_N (m_g s) = g_N g1;
  mi_L : g_L (m_g s) = g_L g1;
  mi_nodes : forall n, same_but_in (gnode (m_g s) n) (gnode g1 n);
  mi_rest : forall x, ~ In x (firstn i orig) -> gedge (m_g s) x = gedge g1 x;
  mi_done : forall x, In x (firstn i orig) -> gedge (m_g s) x = merged_edge (gedge g1 x) (tg x);
  mi_E : g_E (m_g s) = firstn (m_len s) (m_arr s);
  mi_arr : exists ltl, arr_inv orig isnew (m_arr s) (m_len s) ltl /\
           forall f, In f ltl <-> exists j p, i <= j /\ nth_error tbl j = Some p /\ In f (snd p);
  mi_routes : routes = map route_of (firstn i (combine orig tbl))
}.
Unset Implicit Arguments.

Lemma minv_init : minv (mkMst g1 (g_E g1) (length (g_E g1))) 0 [].
Proof.
  destruct (br_E B) as (news & E & M). pose proof (br_nodup B) as Hnd. rewrite E in Hnd.
  constructor; cbn [m_g m_arr m_len firstn]; try reflexivity.
  - intros x [].
  - rewrite firstn_all. reflexivity.
  - exists news. split.
    + exists news. split; [exact E|]. split; [apply Forall_forall; intros x Hx; apply M, Hx|].
      split; [rewrite firstn_all; exact E|]. split; [rewrite E, app_length; reflexivity|].
      split; [eapply NoDup_app_r; eassumption|]. split.
      * intros x Hx Ho. eapply NoDup_app_disj; eassumption.
      * intros x Hx; exact Hx.
    + intros f. rewrite M. split.
      * intros Hf. apply in_flat_map in Hf. destruct Hf as (p & Hp & Hfp).
        destruct (In_nth_error _ _ Hp) as [j Hj]. exists j, p. split; [lia|]. split; assumption.
      * intros (j & p & _ & Hj & Hfp). apply in_flat_map. exists p. split; [eapply nth_error_In; eassumption|exact Hfp].
Qed.

Lemma minv_step : forall fu s i routes e p,
  minv s i routes -> nth_error orig i = Some e -> nth_error tbl i = Some p ->
  exists s', merge_loop (S fu) i s routes = merge_loop fu (S i) s' (routes ++ [route_of (e, p)]) /\
             minv s' (S i) (routes ++ [route_of (e, p)]).
Proof.
  intros fu s i routes e p I He Hp.
  destruct (br_ch B i He Hp) as (C & Her & Hva & Hlen).
  destruct (mi_arr I) as (ltl & AI & ML).
  assert (Hnf : ~ In e (firstn i orig)) by (apply nodup_firstn_notin; [apply br_orig_nodup|exact He]).
  assert (Ge : gedge (m_g s) e = gedge g1 e) by (apply (mi_rest I), Hnf).
  assert (Hein : In e orig) by (eapply nth_error_In; eassumption).
  assert (Hfsnew : forall f, In f (snd p) -> isnew f).
  { intros f Hf. apply in_flat_map. exists p. split; [eapply nth_error_In; eassumption|exact Hf]. }
  assert (Gfs : forall x, In x (snd p) -> gedge (m_g s) x = gedge g1 x).
  { intros x Hx. apply (mi_rest I). intro Hc. apply in_firstn in Hc.
    destruct (isnew_facts x (Hfsnew x Hx)) as (Hno & _). contradiction. }
  assert (Nf : forall n, n_virt (gnode (m_g s) n) = n_virt (gnode g1 n) /\ n_out (gnode (m_g s) n) = n_out (gnode g1 n) /\
                         layer_of (m_g s) n = layer_of g1 n).
  { intros n. pose proof (mi_nodes I n) as S. apply same_but_in_fields in S. unfold layer_of. tauto. }
  assert (W : wchain (m_g s) e (fst p) (snd p) (tg e)).
  { eapply wchain_rehead; [| | |apply chain_wchain, C].
    - rewrite Ge. reflexivity.
    - exact Gfs.
    - intros n. destruct (Nf n) as (A1 & A2 & _). split; assumption. }
  assert (Hlast : In (last (snd p) e) (g_E g1)).
  { destruct (last_in_cons _ (snd p) e) as [<-|Hl].
    - destruct (br_E B) as (news & E & _). rewrite E. apply in_or_app. left; exact Hein.
    - apply (isnew_facts _ (Hfsnew _ Hl)). }
  pose proof (chain_total_span _ _ _ _ _ C (br_span B _ Hlast)) as T.
  destruct (merge_step fu i s routes e (fst p) (snd p) (tg e)) as (g' & R & G1 & G2 & G3 & G4 & G5 & G6 & G7 & G8).
  { destruct AI as (atl & Ea & _). rewrite Ea. rewrite nth_error_app1; [exact He|]. apply nth_error_Some. congruence. }
  { exact W. }
  { rewrite (mi_na I). exact Hlen. }
  { rewrite (mi_ea I). exact Her. }
  { intro Hc. destruct (isnew_facts e (Hfsnew e Hc)) as (Hno & _). contradiction. }
  { rewrite Ge. destruct (Nf (e_from (gedge g1 e))) as (-> & _). exact Hva. }
  { rewrite Ge. destruct (Nf (e_from (gedge g1 e))) as (_ & _ & ->). destruct (Nf (tg e)) as (_ & _ & ->). lia. }
  { apply (mi_E I). }
  rewrite Ge in R, G1.
  set (st := fold_left arr_rm (snd p) (m_arr s, m_len s)) in *.
  exists (mkMst g' (fst st) (snd st)). split; [exact R|].
  assert (HS : firstn (S i) orig = firstn i orig ++ [e]) by (apply firstn_S_nth_error, He).
  constructor; cbn [m_g m_arr m_len].
  - rewrite G4. apply (mi_na I).
  - rewrite G5. apply (mi_ea I).
  - rewrite G6. apply (mi_N I).
  - rewrite G7. apply (mi_L I).
  - intros n. unfold same_but_in in *. rewrite G3. apply (mi_nodes I).
  - intros x Hx. rewrite HS in Hx. rewrite G2 by (intro; subst x; apply Hx, in_or_app; right; left; reflexivity).
    apply (mi_rest I). intro Hc. apply Hx, in_or_app. left; exact Hc.
  - intros x Hx. rewrite HS in Hx. apply in_app_or in Hx. destruct Hx as [Hx|[<-|[]]].
    + rewrite G2 by (intro; subst x; contradiction). apply (mi_done I), Hx.
    + exact G1.
  - exact G8.
  - exists (remove_all (snd p) ltl). split.
    + apply arr_remove_fold; [exact AI| |].
      * eapply (NoDup_flat_map_part _ _ (@snd (list nat) (list nat))); [apply (br_fs_nodup B)|eapply nth_error_In; eassumption].
      * intros f Hf. apply ML. exists i, p. split; [lia|]. split; assumption.
    + intros f. rewrite in_remove_all, ML. split.
      * intros ((j & q & Hj & Hq & Hfq) & Hnf'). exists j, q. split; [|split; assumption].
        destruct (Nat.eq_dec j i) as [E|E]; [|lia]. subst j. assert (q = p) by congruence. subst q. contradiction.
      * intros (j & q & Hj & Hq & Hfq). split; [exists j, q; split; [lia|split; assumption]|].
        intro Hc. eapply (flat_map_disjoint _ _ (@snd (list nat) (list nat)) tbl i j p q f);
          [apply (br_fs_nodup B)|exact Hp|exact Hq|lia|exact Hc|exact Hfq].
  - rewrite (firstn_S_nth_error _ _ _ _ (nth_error_combine _ _ _ _ _ _ _ He Hp)), map_app.
    rewrite <- (mi_routes I). reflexivity.
Qed.

Lemma minv_tail_skip : forall fuel s routes,
  minv s (length orig) routes -> merge_loop fuel (length orig) s routes = Ok (s, routes).
Proof.
  intros fuel s routes I. apply merge_loop_skip. intros j x Hj Hx.
  destruct (mi_arr I) as (ltl & (atl & Ea & Fa & _) & _).
  rewrite Ea in Hx. rewrite nth_error_app2 in Hx by exact Hj.
  apply nth_error_In in Hx. rewrite Forall_forall in Fa. apply Fa in Hx.
  destruct (isnew_facts x Hx) as (Hno & _ & Hv).
  rewrite (mi_rest I) by (intro Hc; apply in_firstn in Hc; contradiction).
  pose proof (mi_nodes I (e_from (gedge g1 x))) as S. apply same_but_in_fields in S.
  destruct S as (-> & _). exact Hv.
Qed.

Lemma merge_loop_main : forall d i fuel s routes,
  i + d = length orig -> d <= fuel -> minv s i routes ->
  exists s', merge_loop fuel i s routes = Ok (s', map route_of (combine orig tbl)) /\
             minv s' (length orig) (map route_of (combine orig tbl)).
Proof.
  induction d as [|d IH]; intros i fuel s routes Hd Hf I.
  - assert (i = length orig) by lia. subst i.
    assert (Er : routes = map route_of (combine orig tbl)).
    { rewrite (mi_routes I). rewrite firstn_all2; [reflexivity|].
      rewrite combine_length, (br_tbl B). lia. }
    rewrite <- Er. exists s. split; [apply minv_tail_skip, I|exact I].
  - destruct fuel as [|fu]; [lia|].
    assert (Hi : i < length orig) by lia.
    destruct (nth_error orig i) as [e|] eqn:He; [|apply nth_error_None in He; lia].
    destruct (nth_error tbl i) as [p|] eqn:Hp; [|apply nth_error_None in Hp; rewrite (br_tbl B) in Hp; lia].
    destruct (minv_step fu s i routes e p I He Hp) as (s' & R & I').
    rewrite R. apply IH; [lia|lia|exact I'].
Qed.

Theorem merge_long_edges_broken :
  exists g2,
    merge_long_edges g1 = Ok (g2, map route_of (combine orig tbl)) /\
    g_E g2 = orig /\
    (forall e, In e orig -> gedge g2 e = merged_edge (gedge g1 e) (tg e)) /\
    (forall x, ~ In x orig -> gedge g2 x = gedge g1 x) /\
    (forall n, same_but_in (gnode g2 n) (gnode g1 n)) /\
    g_N g2 = g_N g1 /\ g_L g2 = g_L g1 /\
    length (g_na g2) = length (g_na g1) /\ length (g_ea g2) = length (g_ea g1).
Proof.
  destruct (merge_loop_main (length orig) 0 (length (g_E g1)) (mkMst g1 (g_E g1) (length (g_E g1))) [])
    as (s' & R & I).
  - reflexivity.
  - destruct (br_E B) as (news & E & _). rewrite E, app_length. lia.
  - apply minv_init.
  - exists (m_g s'). unfold merge_long_edges. rewrite R. cbn [bind fst snd].
    split; [reflexivity|].
    split.
    { destruct (mi_arr I) as (ltl & (atl & Ea & Fa & El & _) & ML).
      rewrite (mi_E I), El.
      assert (ltl = []).
      { destruct ltl as [|f l]; [reflexivity|]. exfalso.
        destruct (proj1 (ML f) (or_introl eq_refl)) as (j & p & Hj & Hp & _).
        assert (j < length tbl) by (apply nth_error_Some; congruence). rewrite (br_tbl B) in *. lia. }
      subst ltl. apply app_nil_r. }
    split; [intros e He; apply (mi_done I); rewrite firstn_all; exact He|].
    split; [intros x Hx; apply (mi_rest I); rewrite firstn_all; exact Hx|]. split; [apply (mi_nodes I)|].
    split; [apply (mi_N I)|]. split; [apply (mi_L I)|]. split; [apply (mi_na I)|apply (mi_ea I)].
Qed.
End Merge.
Print Assumptions merge_long_edges_broken.


(* ====================================================================================== *)
(** * B3 + B4: break, then merge                                                            *)
(* ====================================================================================== *)

Lemma length_flat_map_part : forall A B (F : A -> list B) l p, In p l -> length (F p) <= length (flat_map F l).
Proof.
  intros A B F l; induction l as [|a l IH]; intros p Hp; [destruct Hp|].
  cbn [flat_map]. rewrite app_length. destruct Hp as [<-|Hp]; [lia|]. specialize (IH p Hp). lia.
Qed.

Lemma binv_broken : forall g0 g tbl k,
  break_pre g0 -> binv g0 g tbl k -> (forall x, In x (g_E g) -> span g x = 1%Z) ->
  broken g (g_E g0) tbl (fun e => e_to (gedge g0 e)).
Proof.
  intros g0 g tbl k pre I S. constructor.
  - eapply binv_nodup_E; eassumption.
  - exists (iota (length (g_ea g0)) k). split; [apply (bi_E I)|].
    intros f. split; intro H.
    + eapply Permutation_in; [apply Permutation_sym, (bi_pf I)|exact H].
    + eapply Permutation_in; [apply (bi_pf I)|exact H].
  - apply (bi_tbl I).
  - eapply Permutation_NoDup; [apply Permutation_sym, (bi_pf I)|apply NoDup_iota].
  - intros j e p Hj Hp. destruct (bi_ch I j Hj Hp) as (C & A & F).
    assert (He : In e (g_E g0)) by (eapply nth_error_In; eassumption).
    destruct (bp_edges pre e He) as (E1 & E2 & _).
    split; [exact C|]. split; [rewrite (bi_ea I); lia|]. split.
    + rewrite F. destruct (bi_old I E2) as [Sb _]. apply same_but_in_fields in Sb.
      destruct Sb as (-> & _). apply (bp_nonvirt pre).
    + rewrite (bi_na I).
      pose proof (length_flat_map_part _ _ (@fst (list nat) (list nat)) tbl p (nth_error_In _ _ Hp)) as L.
      rewrite (Permutation_length (bi_pv I)), length_iota in L. lia.
  - exact S.
Qed.

Lemma merged_edge_restore : forall ed1 ed0,
  set_ends 0 0 ed1 = set_ends 0 0 ed0 -> e_from ed1 = e_from ed0 ->
  merged_edge ed1 (e_to ed0) = set_ahs (e_rev ed0) ed0.
Proof.
  intros [f1 t1 d1 w1 tr1 r1 c1 p1 a1] [f0 t0 d0 w0 tr0 r0 c0 p0 a0] H F.
  unfold set_ends in H. cbn in H, F. inversion H; subst. reflexivity.
Qed.

(** the statement about one route *)
Definition route_ok (g0 g2 : graph) (r : nat * list nat) : Prop :=
  let e := fst r in
  exists vs, snd r = e_from (gedge g0 e) :: vs ++ [e_to (gedge g0 e)] /\
             Z.of_nat (length (snd r)) = (span g0 e + 1)%Z /\
             (forall v, In v vs -> length (g_na g0) <= v < length (g_na g2) /\ n_virt (gnode g2 v) = true) /\
             chain_layers g2 (snd r).

(** graphs with the same edges, adjacency, virtual flags and layers (what phase 4 preserves: it
    only assigns positions, coordinates and layer sizes) *)
Definition same_topology (g g' : graph) : Prop :=
  g_ea g' = g_ea g /\ g_E g' = g_E g /\ length (g_na g') = length (g_na g) /\
  forall n, n_in (gnode g' n) = n_in (gnode g n) /\ n_out (gnode g' n) = n_out (gnode g n) /\
            n_virt (gnode g' n) = n_virt (gnode g n) /\ n_layer (gnode g' n) = n_layer (gnode g n).

Lemma same_topology_refl : forall g, same_topology g g.
Proof. intros g. repeat split; reflexivity. Qed.

Lemma same_topology_gedge : forall g g' x, same_topology g g' -> gedge g' x = gedge g x.
Proof. intros g g' x (H & _). unfold gedge. rewrite H. reflexivity. Qed.

Lemma same_topology_layer : forall g g' n, same_topology g g' -> layer_of g' n = layer_of g n.
Proof. intros g g' n (_ & _ & _ & H). unfold layer_of. apply (H n). Qed.

Lemma chain_same_topology : forall g g' vs fs e t,
  same_topology g g' -> chain g e vs fs t -> chain g' e vs fs t.
Proof.
  intros g g' vs; induction vs as [|v vs IH]; intros [|f fs] e t T H; cbn [chain] in *; try tauto.
  - destruct T as (Ea & _ & Ln & Hn). destruct H as (A & B & C).
    unfold gedge. rewrite Ea. fold (gedge g e). rewrite Ln. destruct (Hn t) as (_ & _ & -> & _). tauto.
  - assert (T' := T). destruct T as (Ea & _ & Ln & Hn).
    destruct H as (E1 & Lv & Lf & Vv & Iv & Ov & E2 & E3 & H).
    rewrite !(same_topology_gedge g g' _ T'), !(same_topology_layer g g' _ T'), Ln, Ea.
    destruct (Hn v) as (-> & -> & -> & _).
    repeat (split; [assumption|]). apply IH; assumption.
Qed.

Lemma broken_same_topology : forall g g' orig tbl tg,
  same_topology g g' -> broken g orig tbl tg -> broken g' orig tbl tg.
Proof.
  intros g g' orig tbl tg T B. assert (T' := T). destruct T as (Ea & EE & Ln & Hn). constructor.
  - rewrite EE. apply (br_nodup B).
  - rewrite EE. apply (br_E B).
  - apply (br_tbl B).
  - apply (br_fs_nodup B).
  - intros j e p Hj Hp. destruct (br_ch B j Hj Hp) as (C & A1 & A2 & A3).
    split; [eapply chain_same_topology; eassumption|]. rewrite Ea, Ln, (same_topology_gedge g g' _ T').
    destruct (Hn (e_from (gedge g e))) as (_ & _ & -> & _). tauto.
  - intros x Hx. rewrite EE in Hx. unfold span. rewrite !(same_topology_gedge g g' _ T'), !(same_topology_layer g g' _ T').
    apply (br_span B x Hx).
Qed.

Lemma roundtrip_core : forall g0 g1 g1' tbl k,
  break_pre g0 -> binv g0 g1 tbl k -> (forall x, In x (g_E g1) -> span g1 x = 1%Z) ->
  same_topology g1 g1' ->
  exists g2 routes,
    merge_long_edges g1' = Ok (g2, routes) /\
    g_E g2 = g_E g0 /\ g_N g2 = g_N g1' /\ g_L g2 = g_L g1' /\ length (g_na g2) = length (g_na g1') /\
    (forall e, In e (g_E g0) -> gedge g2 e = set_ahs (e_rev (gedge g0 e)) (gedge g0 e)) /\
    (forall x, x < length (g_ea g0) -> ~ In x (g_E g0) -> gedge g2 x = gedge g0 x) /\
    (forall n, same_but_in (gnode g2 n) (gnode g1' n)) /\
    map fst routes = g_E g0 /\ Forall (route_ok g0 g2) routes.
Proof.
  intros g0 g1 g1' tbl k pre I S T.
  pose proof (broken_same_topology _ _ _ _ _ T (binv_broken g0 g1 tbl k pre I S)) as B.
  destruct (merge_long_edges_broken g1' (g_E g0) tbl _ B) as (g2 & M & ME & M1 & M2 & M3 & M4 & M5 & M6 & M7).
  exists g2, (map (route_of g1' (fun e => e_to (gedge g0 e))) (combine (g_E g0) tbl)).
  split; [exact M|]. split; [exact ME|]. split; [exact M4|]. split; [exact M5|]. split; [exact M6|].
  assert (Hch : forall e, In e (g_E g0) -> exists j p, nth_error (g_E g0) j = Some e /\ nth_error tbl j = Some p).
  { intros e He. destruct (In_nth_error _ _ He) as [j Hj]. exists j.
    assert (Hjl : j < length tbl) by (rewrite (bi_tbl I); apply nth_error_Some; congruence).
    destruct (nth_error tbl j) as [p|] eqn:Hp; [|apply nth_error_None in Hp; lia]. exists p. split; [exact Hj|reflexivity]. }
  split.
  { intros e He. rewrite (M1 e He), (same_topology_gedge _ _ _ T). destruct (Hch e He) as (j & p & Hj & Hp).
    destruct (bi_ch I j Hj Hp) as (_ & A & F). apply merged_edge_restore; assumption. }
  split.
  { intros x Hx Hn. rewrite (M2 x Hn), (same_topology_gedge _ _ _ T). apply (bi_other I Hx Hn). }
  split; [exact M3|].
  split.
  { rewrite map_map. cbn [route_of fst].
    assert (H : forall (l1 : list nat) (l2 : ctbl), length l2 = length l1 -> map (fun x => fst x) (combine l1 l2) = l1).
    { induction l1 as [|a l1 IH]; intros [|b l2] Hl; cbn [combine map length] in *; try reflexivity; try lia.
      cbn [fst]. f_equal. apply IH. lia. }
    apply H, (bi_tbl I). }
  apply Forall_forall. intros r Hr. apply in_map_iff in Hr. destruct Hr as ([e p] & <- & Hin).
  destruct (In_nth_error _ _ Hin) as [j Hj].
  assert (Hje : nth_error (g_E g0) j = Some e /\ nth_error tbl j = Some p).
  { clear - Hj. revert j Hj. generalize (g_E g0) as l1. revert tbl.
    intros l2 l1; revert l2; induction l1 as [|a l1 IH]; intros [|b l2] j Hj; destruct j; cbn [combine nth_error] in *;
      try discriminate.
    - inversion Hj; subst. split; reflexivity.
    - apply IH, Hj. }
  destruct Hje as [Hje Hjp].
  assert (He : In e (g_E g0)) by (eapply nth_error_In; eassumption).
  destruct (bi_ch I j Hje Hjp) as (C & A & F).
  destruct (bp_edges pre e He) as (E1 & E2 & E3 & E4).
  unfold route_ok, route_of. cbn [fst snd]. exists (fst p). rewrite (same_topology_gedge _ _ _ T), F.
  split; [reflexivity|].
  assert (Hl : In (last (snd p) e) (g_E g1)).
  { rewrite (bi_E I). apply in_or_app. destruct (last_in_cons _ (snd p) e) as [<-|Hl]; [left; exact He|].
    right. eapply Permutation_in; [apply (bi_pf I)|]. apply in_flat_map. exists p.
    split; [eapply nth_error_In; eassumption|exact Hl]. }
  pose proof (chain_total_span _ _ _ _ _ C (S _ Hl)) as TS. rewrite F in TS.
  assert (Lo : forall n, n < length (g_na g0) -> layer_of g1 n = layer_of g0 n).
  { intros n Hn. destruct (bi_old I Hn) as [Sb _]. apply same_but_in_fields in Sb. unfold layer_of. tauto. }
  rewrite !Lo in TS by assumption.
  split. { cbn [length]. rewrite app_length. cbn [length]. unfold span. lia. }
  split.
  { intros v Hv. split.
    - assert (Hv' : In v (iota (length (g_na g0)) k)).
      { eapply Permutation_in; [apply (bi_pv I)|]. apply in_flat_map. exists p.
        split; [eapply nth_error_In; eassumption|exact Hv]. }
      apply in_iota in Hv'. rewrite M6, (proj1 (proj2 (proj2 T))), (bi_na I). lia.
    - pose proof (M3 v) as Sb. apply same_but_in_fields in Sb. destruct Sb as (-> & _).
      destruct T as (_ & _ & _ & Hn). destruct (Hn v) as (_ & _ & -> & _).
      eapply chain_vs_virt; eassumption. }
  apply (chain_layers_transfer g1).
  { intros n. pose proof (M3 n) as Sb. apply same_but_in_fields in Sb. unfold layer_of at 1.
    destruct Sb as (_ & -> & _). apply (same_topology_layer _ _ _ T). }
  rewrite <- F. apply (chain_route_layers _ _ _ _ _ C (S _ Hl)).
Qed.

(** B3 + B4: breaking the long edges and merging them again restores the edge list and the edges,
    and yields one route per edge through the virtual nodes *)
Theorem break_merge_roundtrip : forall g0, break_pre g0 ->
  exists g1 g2 routes,
    break_long_edges g0 = Ok g1 /\ merge_long_edges g1 = Ok (g2, routes) /\
    (* the edge list is the original one, in order; node list = original + virtual nodes *)
    g_E g2 = g_E g0 /\ g_N g2 = g_N g1 /\ length (g_na g2) = length (g_na g1) /\
    (* every original edge has its original ends (and attributes) again, arrow flag = reversal flag *)
    (forall e, In e (g_E g0) -> gedge g2 e = set_ahs (e_rev (gedge g0 e)) (gedge g0 e)) /\
    (* arena edges outside the edge list are untouched *)
    (forall x, x < length (g_ea g0) -> ~ In x (g_E g0) -> gedge g2 x = gedge g0 x) /\
    (* original nodes: only the in-list may differ *)
    (forall n, n < length (g_na g0) -> same_but_in (gnode g2 n) (gnode g0 n)) /\
    (* exactly one route per original edge, in order *)
    map fst routes = g_E g0 /\ Forall (route_ok g0 g2) routes.
Proof.
  intros g0 pre. destruct (break_long_edges_inv g0 pre) as (g1 & tbl & k & R & I & S).
  destruct (roundtrip_core g0 g1 g1 tbl k pre I S (same_topology_refl g1))
    as (g2 & routes & M & A1 & A2 & A3 & A4 & A5 & A6 & A7 & A8 & A9).
  exists g1, g2, routes. repeat (split; [assumption|]).
  split; [|split; assumption].
  intros n Hn. destruct (bi_old I Hn) as [Sb _]. unfold same_but_in in *. rewrite A7. exact Sb.
Qed.
Print Assumptions break_merge_roundtrip.

(** the same with an arbitrary phase 4 in between (anything that keeps edges, adjacency, virtual
    flags and layers) *)
Theorem break_phase4_merge_roundtrip : forall g0 g1 g1', break_pre g0 ->
  break_long_edges g0 = Ok g1 -> same_topology g1 g1' ->
  exists g2 routes,
    merge_long_edges g1' = Ok (g2, routes) /\
    g_E g2 = g_E g0 /\ g_N g2 = g_N g1' /\ g_L g2 = g_L g1' /\ length (g_na g2) = length (g_na g1') /\
    (forall e, In e (g_E g0) -> gedge g2 e = set_ahs (e_rev (gedge g0 e)) (gedge g0 e)) /\
    (forall x, x < length (g_ea g0) -> ~ In x (g_E g0) -> gedge g2 x = gedge g0 x) /\
    (forall n, same_but_in (gnode g2 n) (gnode g1' n)) /\
    map fst routes = g_E g0 /\ Forall (route_ok g0 g2) routes.
Proof.
  intros g0 g1 g1' pre R T. destruct (break_long_edges_inv g0 pre) as (g1x & tbl & k & R' & I & S).
  assert (g1x = g1) by congruence. subst g1x.
  apply (roundtrip_core g0 g1 g1' tbl k pre I S T).
Qed.
Print Assumptions break_phase4_merge_roundtrip.


(** ** phase 4 (VAlign / PackRight followed by assign_y) keeps the topology *)
Lemma same_topology_trans : forall g1 g2 g3, same_topology g1 g2 -> same_topology g2 g3 -> same_topology g1 g3.
Proof.
  intros g1 g2 g3 (A1 & A2 & A3 & A4) (B1 & B2 & B3 & B4).
  split; [congruence|]. split; [congruence|]. split; [congruence|].
  intros n. destruct (A4 n) as (a1 & a2 & a3 & a4). destruct (B4 n) as (b1 & b2 & b3 & b4).
  repeat split; congruence.
Qed.

Lemma same_topology_of_setx : forall g g',
  g_ea g' = g_ea g -> g_E g' = g_E g -> length (g_na g') = length (g_na g) ->
  (forall n, set_x 0 (gnode g' n) = set_x 0 (gnode g n)) -> same_topology g g'.
Proof.
  intros g g' A B C D. split; [exact A|]. split; [exact B|]. split; [exact C|].
  intros n. specialize (D n). destruct (gnode g' n), (gnode g n). unfold set_x in D. cbn in D.
  inversion D; subst. cbn. repeat split; reflexivity.
Qed.

Lemma same_topology_of_sety : forall g g',
  g_ea g' = g_ea g -> g_E g' = g_E g -> length (g_na g') = length (g_na g) ->
  (forall n, set_y 0 (gnode g' n) = set_y 0 (gnode g n)) -> same_topology g g'.
Proof.
  intros g g' A B C D. split; [exact A|]. split; [exact B|]. split; [exact C|].
  intros n. specialize (D n). destruct (gnode g' n), (gnode g n). unfold set_y in D. cbn in D.
  inversion D; subst. cbn. repeat split; reflexivity.
Qed.

Lemma assign_y_same_topology : forall sp g, same_topology g (assign_y sp g).
Proof.
  intros sp g. destruct (assign_y_frame sp g) as (_ & _ & _ & F & _ & Ln & _ & EE & Ea).
  apply same_topology_of_sety; assumption.
Qed.

Theorem phase4_same_topology : forall alg p g g',
  alg = VAlign \/ alg = PackRight -> phase4 alg p g = Ok g' -> same_topology g g'.
Proof.
  intros alg p g g' Halg H. unfold phase4 in H.
  destruct (Nat.eqb (length (g_N g)) 1).
  - destruct (g_N g); inversion H; subst; repeat split; reflexivity.
  - destruct Halg; subst alg; cbn [bind] in H; inversion H; subst.
    + eapply same_topology_trans; [|apply assign_y_same_topology].
      destruct (valign_frame (node_spacing p) g) as (_ & _ & _ & F & _ & _ & Ln & _ & EE & Ea).
      apply same_topology_of_setx; assumption.
    + eapply same_topology_trans; [|apply assign_y_same_topology].
      destruct (packright_frame (node_spacing p) g) as (_ & _ & _ & F & _ & _ & Ln & _ & EE & Ea).
      apply same_topology_of_setx; assumption.
Qed.
Print Assumptions phase4_same_topology.

(** break, position (VAlign or PackRight), merge *)
Corollary break_position_merge : forall alg p g0 g1 g1',
  break_pre g0 -> alg = VAlign \/ alg = PackRight ->
  break_long_edges g0 = Ok g1 -> phase4 alg p g1 = Ok g1' ->
  exists g2 routes,
    merge_long_edges g1' = Ok (g2, routes) /\
    g_E g2 = g_E g0 /\
    (forall e, In e (g_E g0) -> gedge g2 e = set_ahs (e_rev (gedge g0 e)) (gedge g0 e)) /\
    (forall n, same_but_in (gnode g2 n) (gnode g1' n)) /\
    map fst routes = g_E g0 /\ Forall (route_ok g0 g2) routes.
Proof.
  intros alg p g0 g1 g1' pre Halg R P.
  destruct (break_phase4_merge_roundtrip g0 g1 g1' pre R (phase4_same_topology alg p g1 g1' Halg P))
    as (g2 & routes & M & A1 & _ & _ & _ & A5 & _ & A7 & A8 & A9).
  exists g2, routes. repeat (split; [assumption|]). assumption.
Qed.
Print Assumptions break_position_merge.

(* ====================================================================================== *)
(** * Examples                                                                              *)
(* ====================================================================================== *)

(* 4 layers, one node per layer; edges 0: 0->3 (span 3), 1: 0->2 (span 2), 2: 0->1, 3: 1->2, 4: 2->3 *)
Definition bm_node (i o : list nat) (l : Z) : node := mkNode i o l 0 false 0 0 10 10.
Definition bm_edge (a b : nat) : edge := mkEdge a b 1 1 false false 0 [] false.
Definition bm_g0 : graph :=
  mkGraph [bm_node [] [0; 1; 2] 0; bm_node [2] [3] 1; bm_node [1; 3] [4] 2; bm_node [0; 4] [] 3]
          [bm_edge 0 3; bm_edge 0 2; bm_edge 0 1; bm_edge 1 2; bm_edge 2 3]
          [0; 1; 2; 3] [0; 1; 2; 3; 4]
          [mkLayer [0] 0 0; mkLayer [1] 0 0; mkLayer [2] 0 0; mkLayer [3] 0 0].

Example bm_pre : break_pre bm_g0.
Proof.
  constructor.
  - repeat constructor; cbn; intuition discriminate.
  - intros e He. cbn in He.
    repeat (destruct He as [<-|He]; [vm_compute; repeat split; (lia || discriminate)|]). destruct He.
  - intros n. do 4 (destruct n as [|n]; [reflexivity|]). destruct n; reflexivity.
Qed.

Definition bm_g1 : graph := match break_long_edges bm_g0 with Ok g => g | Err _ => bm_g0 end.

(* the chains are interleaved in the edge list: edge 0 -> 5 -> 7, edge 1 -> 6 *)
Example bm_break_E : break_long_edges bm_g0 = Ok bm_g1 /\
  g_E bm_g1 = [0; 1; 2; 3; 4; 5; 6; 7] /\ g_N bm_g1 = [0; 1; 2; 3; 4; 5; 6] /\
  map (fun e => (e_from (gedge bm_g1 e), e_to (gedge bm_g1 e))) (g_E bm_g1) =
    [(0, 4); (0, 5); (0, 1); (1, 2); (2, 3); (4, 6); (5, 2); (6, 3)] /\
  map (fun n => (n_virt (gnode bm_g1 n), n_layer (gnode bm_g1 n), n_in (gnode bm_g1 n), n_out (gnode bm_g1 n)))
      [4; 5; 6] = [(true, 1%Z, [0], [5]); (true, 1%Z, [1], [6]); (true, 2%Z, [5], [7])] /\
  map l_nodes (g_L bm_g1) = [[0]; [1; 4; 5]; [2; 6]; [3]] /\
  n_in (gnode bm_g1 3) = [7; 4] /\ n_in (gnode bm_g1 2) = [6; 3].
Proof. vm_compute. repeat split; reflexivity. Qed.

Example bm_chain0 : chain bm_g1 0 [4; 6] [5; 7] 3.
Proof. vm_compute. repeat split; (lia || reflexivity). Qed.

Example bm_merge :
  exists g2, merge_long_edges bm_g1 =
               Ok (g2, [(0, [0; 4; 6; 3]); (1, [0; 5; 2]); (2, [0; 1]); (3, [1; 2]); (4, [2; 3])]) /\
             g_E g2 = [0; 1; 2; 3; 4] /\
             map (fun e => (e_from (gedge g2 e), e_to (gedge g2 e))) (g_E g2) = [(0, 3); (0, 2); (0, 1); (1, 2); (2, 3)].
Proof. eexists. vm_compute. repeat split; reflexivity. Qed.

(* the general theorem instantiated *)
Example bm_roundtrip :
  exists g1 g2 routes,
    break_long_edges bm_g0 = Ok g1 /\ merge_long_edges g1 = Ok (g2, routes) /\ g_E g2 = g_E bm_g0 /\
    map fst routes = g_E bm_g0.
Proof.
  destruct (break_merge_roundtrip bm_g0 bm_pre) as (g1 & g2 & routes & A & B & C & _ & _ & _ & _ & _ & D & _).
  exists g1, g2, routes. repeat split; assumption.
Qed.

(* with a reversed edge: unreverse_edges flips it back *)
Definition bm_rev : graph := reverse_edge bm_g0 3.
Example bm_unreverse :
  e_rev (gedge bm_rev 3) = true /\ (e_from (gedge bm_rev 3), e_to (gedge bm_rev 3)) = (2, 1) /\
  let g := unreverse_edges bm_rev in
  (e_from (gedge g 3), e_to (gedge g 3), e_rev (gedge g 3)) = (1, 2, false) /\
  n_in (gnode g 2) = [1; 3] /\ n_out (gnode g 1) = [3].
Proof. vm_compute. repeat split; reflexivity. Qed.

Example bm_layers_ok : layers_ok bm_g0.
Proof.
  intros e He. cbn in He.
  repeat (destruct He as [<-|He]; [vm_compute; split; [discriminate|lia]|]). destruct He.
Qed.

Example bm_layers_wf : layers_wf bm_g0.
Proof. apply layers_wfb_iff. vm_compute. reflexivity. Qed.

Example bm_layers_after :
  exists g' k, break_long_edges bm_g0 = Ok g' /\ length (g_na g') = length (g_na bm_g0) + k /\ layers_wf g'.
Proof.
  destruct (break_long_edges_layers_wf bm_g0 bm_pre bm_layers_ok bm_layers_wf) as (g' & k & A & B & C & _).
  exists g', k. auto.
Qed.

(* reversing edge 3 (1 -> 2) twice: the hypotheses of reverse_edge_twice_nodes hold *)
Example bm_reverse_twice : forall n,
  (forall x, In x (n_in (gnode (reverse_edge (reverse_edge bm_g0 3) 3) n)) <-> In x (n_in (gnode bm_g0 n))) /\
  (forall x, In x (n_out (gnode (reverse_edge (reverse_edge bm_g0 3) 3) n)) <-> In x (n_out (gnode bm_g0 n))).
Proof.
  intros n.
  assert (H := reverse_edge_twice_nodes bm_g0 3). cbv zeta in H.
  destruct (H ltac:(vm_compute; discriminate) ltac:(vm_compute; lia) ltac:(vm_compute; lia) ltac:(vm_compute; lia)
              ltac:(vm_compute; auto) ltac:(vm_compute; auto) ltac:(vm_compute; intuition discriminate)
              ltac:(vm_compute; intuition discriminate) n) as (_ & A & B & _).
  split; assumption.
Qed.

(* the whole chain: break, VAlign + assign_y, merge, polyline routing *)
Definition bm_p4 : p4params := mkP4 5 7 1 1.
Definition bm_g1' : graph := match phase4 VAlign bm_p4 bm_g1 with Ok g => g | Err _ => bm_g1 end.

Example bm_phase4 : phase4 VAlign bm_p4 bm_g1 = Ok bm_g1'.
Proof. vm_compute. reflexivity. Qed.

Example bm_same_topology : same_topology bm_g1 bm_g1'.
Proof. apply (phase4_same_topology VAlign bm_p4); [left; reflexivity|exact bm_phase4]. Qed.

Example bm_pipeline :
  exists g2 routes, merge_long_edges bm_g1' = Ok (g2, routes) /\ g_E g2 = g_E bm_g0 /\
                    Forall (route_ok bm_g0 g2) routes.
Proof.
  destruct (break_position_merge VAlign bm_p4 bm_g0 bm_g1 bm_g1' bm_pre (or_introl eq_refl)
              (proj1 bm_break_E) bm_phase4) as (g2 & routes & A & B & _ & _ & _ & C).
  exists g2, routes. auto.
Qed.

Example bm_phase5_polyline :
  match phase5 Polyline 7 bm_g1' with
  | Ok g3 => map (fun e => length (e_pts (gedge g3 e))) (g_E g3) = [4; 3; 2; 2; 2] /\
             map (fun p => (Qred (fst p), Qred (snd p))) (e_pts (gedge g3 0)) =
               [(10, 10); (15, 22); (35 # 2, 39); (10, 51)]%Q
  | Err _ => False
  end.
Proof. vm_compute. split; reflexivity. Qed.


(* ====================================================================================== *)
(** * Bridge to Routes.v: the routes of the pipeline satisfy the vertical geometry          *)
(* ====================================================================================== *)

Lemma same_but_in_geom : forall a b, same_but_in a b ->
  n_x a = n_x b /\ n_y a = n_y b /\ n_w a = n_w b /\ n_h a = n_h b.
Proof.
  intros [i o l p v x y w h] [i' o' l' p' v' x' y' w' h'] H. unfold same_but_in, set_in in H. cbn in H.
  inversion H; subst. cbn. repeat split; reflexivity.
Qed.

Theorem pipeline_route_geometry : forall alg p g0 g1 g1',
  break_pre g0 -> layers_ok g0 -> layers_wf g0 ->
  (forall e, In e (g_E g0) -> placed g0 (e_from (gedge g0 e)) /\ placed g0 (e_to (gedge g0 e))) ->
  alg = VAlign \/ alg = PackRight ->
  break_long_edges g0 = Ok g1 -> Nat.eqb (length (g_N g1)) 1 = false -> phase4 alg p g1 = Ok g1' ->
  exists g2 routes,
    merge_long_edges g1' = Ok (g2, routes) /\ g_E g2 = g_E g0 /\ map fst routes = g_E g0 /\
    (forall n, nX g2 n = nX g1' n /\ nY g2 n = nY g1' n /\ nW g2 n = nW g1' n /\ nH g2 n = nH g1' n) /\
    g_L g2 = g_L g1' /\
    Forall (fun r => route_ok g0 g2 r /\ chain_y_eq g2 (layer_spacing p) (snd r)) routes.
Proof.
  intros alg p g0 g1 g1' pre LO WF PL Halg R N1 P4.
  pose proof (phase4_same_topology alg p g1 g1' Halg P4) as T.
  destruct (break_phase4_merge_roundtrip g0 g1 g1' pre R T)
    as (g2 & routes & M & A1 & A2 & A3 & A4 & A5 & A6 & A7 & A8 & A9).
  destruct (break_long_edges_layers_wf g0 pre LO WF) as (g1x & k & R' & Lk & WF1 & PV & PO).
  assert (g1x = g1) by congruence. subst g1x.
  exists g2, routes. split; [exact M|]. split; [exact A1|]. split; [exact A8|].
  assert (Geo : forall n, nX g2 n = nX g1' n /\ nY g2 n = nY g1' n /\ nW g2 n = nW g1' n /\ nH g2 n = nH g1' n).
  { intros n. unfold nX, nY, nW, nH. apply same_but_in_geom, A7. }
  split; [exact Geo|]. split; [exact A3|].
  assert (Lay2 : forall n, layer_of g2 n = layer_of g1 n).
  { intros n. pose proof (A7 n) as Sb. apply same_but_in_fields in Sb. unfold layer_of at 1.
    destruct Sb as (_ & -> & _). apply (same_topology_layer _ _ _ T). }
  assert (Lay0 : forall n, n < length (g_na g0) -> layer_of g1 n = layer_of g0 n).
  { intros n Hn. destruct (break_long_edges_spec g0 pre) as (g1x & k' & R'' & _ & _ & _ & _ & _ & _ & Old & _).
    assert (g1x = g1) by congruence. subst g1x. destruct (Old n Hn) as [Sb _].
    apply same_but_in_fields in Sb. unfold layer_of. tauto. }
  assert (Len2 : length (g_na g2) = length (g_na g0) + k).
  { rewrite A4, (proj1 (proj2 (proj2 T))). exact Lk. }
  rewrite Forall_forall in A9. apply Forall_forall. intros r Hr. split; [apply A9, Hr|].
  destruct (A9 r Hr) as (vs & Ens & _ & Hvs & CL).
  assert (He : In (fst r) (g_E g0)) by (rewrite <- A8; apply in_map, Hr).
  destruct (PL _ He) as [Pa Pb]. destruct (bp_edges pre _ He) as (_ & Ra & Rb & _).
  assert (Pold : forall n, n < length (g_na g0) -> placed g0 n -> placed g1 n).
  { intros n Hn [Q1 Q2]. unfold placed. rewrite (Lay0 n Hn). split; [exact Q1|apply PO, Q2]. }
  assert (Pl1 : forall n, In n (snd r) -> placed g1 n).
  { intros n Hn. rewrite Ens in Hn. destruct Hn as [<-|Hn]; [apply Pold; assumption|].
    apply in_app_or in Hn. destruct Hn as [Hn|[<-|[]]]; [|apply Pold; assumption].
    destruct (Hvs n Hn) as [Rg _]. rewrite Len2 in Rg. destruct (PV n Rg) as [Q1 Q2].
    split; [lia|exact Q2]. }
  assert (CL1 : chain_layers g1 (snd r)).
  { apply (chain_layers_transfer g2); [intros m; symmetry; apply Lay2|exact CL]. }
  assert (Y1 : chain_y_eq g1' (layer_spacing p) (snd r)).
  { destruct Halg; subst alg.
    - eapply phase4_valign_chain; eassumption.
    - eapply phase4_packright_chain; eassumption. }
  eapply chain_y_eq_ext; [|exact Y1].
  intros n _. destruct (Geo n) as (_ & -> & _). split; [reflexivity|].
  unfold layer_h_of, glayer. rewrite A3.
  replace (layer_of g2 n) with (layer_of g1' n); [reflexivity|].
  rewrite Lay2. apply (same_topology_layer _ _ _ T).
Qed.
Print Assumptions pipeline_route_geometry.

Example bm_placed : forall e, In e (g_E bm_g0) ->
  placed bm_g0 (e_from (gedge bm_g0 e)) /\ placed bm_g0 (e_to (gedge bm_g0 e)).
Proof.
  intros e He. cbn in He.
  repeat (destruct He as [<-|He]; [vm_compute; intuition discriminate|]). destruct He.
Qed.

Example bm_pipeline_geometry :
  exists g2 routes, merge_long_edges bm_g1' = Ok (g2, routes) /\
    Forall (fun r => route_ok bm_g0 g2 r /\ chain_y_eq g2 7 (snd r)) routes.
Proof.
  destruct (pipeline_route_geometry VAlign bm_p4 bm_g0 bm_g1 bm_g1' bm_pre bm_layers_ok bm_layers_wf bm_placed
              (or_introl eq_refl) (proj1 bm_break_E) eq_refl bm_phase4) as (g2 & routes & A & _ & _ & _ & _ & B).
  exists g2, routes. split; assumption.
Qed.

(** B3, the exact statement about the in-lists (needs duplicate-free, consistent in-lists): entry by
    entry, an original edge of the list is replaced by the last edge of its chain, everything else
    is kept *)
Theorem break_long_edges_inlists : forall g0, break_pre g0 -> inlists_ok g0 ->
  exists g', break_long_edges g0 = Ok g' /\
    forall n, n < length (g_na g0) ->
      NoDup (n_in (gnode g' n)) /\
      Forall2 (fun x y =>
                 (In x (g_E g0) /\ exists vs fs, chain g' x vs fs (e_to (gedge g0 x)) /\ y = last fs x) \/
                 (~ In x (g_E g0) /\ y = x))
              (n_in (gnode g0 n)) (n_in (gnode g' n)).
Proof.
  intros g0 pre IO. destruct (break_long_edges_inv g0 pre) as (g' & tbl & k & R & I & S).
  exists g'. split; [exact R|]. intros n Hn. destruct (bi_in I IO Hn) as (Nd & F2 & _).
  split; [exact Nd|]. eapply Forall2_impl_in; [exact F2|].
  intros x y _ _ [(j & p & Hj & Hp & Ey)|H]; [left|right; exact H].
  split; [eapply nth_error_In; eassumption|]. exists (fst p), (snd p).
  split; [apply (bi_ch I j Hj Hp)|exact Ey].
Qed.
Print Assumptions break_long_edges_inlists.

Example bm_inlists_ok : inlists_ok bm_g0.
Proof.
  intros n Hn. cbn in Hn.
  do 4 (destruct n as [|n]; [split; [repeat constructor; cbn; intuition discriminate|];
                             intros y Hy; cbn in Hy;
                             repeat (destruct Hy as [<-|Hy]; [split; [cbn; lia|intros _; reflexivity]|]); destruct Hy|]).
  lia.
Qed.
