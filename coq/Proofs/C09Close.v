(* C09Close.v — C09 closed: "each connected component receives exactly the layout it would receive as the sole
   input, translated horizontally", WITHOUT the hypothesis that the sole run succeeds.
   RenumberFinal.component_layout_is_sole_layout_translated needs Layout to succeed on the component's edges
   alone; TotalPipeline.layout_total says Layout succeeds on every non-empty list of pairs under
   layout_options_ok. Here the two are combined: the component's edge list
     es1 = map (fun i => nth i es []) (g_E c)
   is non-empty, made of pairs, and not longer than es (so that the network-simplex budget of es covers it). *)
From Autog Require Import Base Graph Populate Phase1 Phase2 Phase4 Phase5 Layout Pipeline Check.
From Autog.Proofs Require Import ListLemmas Consistent PopulateProofs SizesProofs ComponentsProofs
                                 RenumberBase RenumberCollect RenumberCheck RenumberPipeline
                                 RenumberComponent Shift RenumberFinal RenumberExample.
From Autog.Proofs Require TotalPipeline.
From Coq Require Import Lia.
Local Open Scope nat_scope.

(* ---------- small list facts ---------- *)
Lemma filter_length_le_c : forall (X : Type) (p : X -> bool) l, length (filter p l) <= length l.
Proof. intros X p l; induction l as [|a l IH]; cbn [filter length]; [lia|]. destruct (p a); cbn [length]; lia. Qed.

Section Close.
  Variable A : Type.
  Variable eqA : A -> A -> bool.
  Hypothesis eqA_ok : forall x y, eqA x y = true <-> x = y.

  (* populate of the empty input yields no identifier *)
  Lemma populate_nil_ids : forall ids g, populate A eqA [] = Ok (ids, g) -> ids = [].
  Proof.
    intros ids g H. pose proof (populate_wf eqA eqA_ok [] H) as P.
    destruct ids as [|x t]; [reflexivity|exfalso].
    destruct (p_ids_sound P x (or_introl eq_refl)) as (p & Hp & _). destruct Hp.
  Qed.

  (* the three facts about the edge list of a component *)
  Lemma component_edges_input : forall o fixed sizes es ids g0 c,
    TotalPipeline.layout_options_ok A o es ->
    populate A eqA es = Ok (ids, g0) ->
    In c (components (apply_sizes A eqA fixed sizes ids g0)) ->
    let es1 := map (fun i => nth i es []) (g_E c) in
    es1 <> [] /\ Forall (fun p => length p = 2) es1 /\ TotalPipeline.layout_options_ok A o es1.
  Proof.
    intros o fixed sizes es ids g0 c (O4 & O5 & BUD) P Hc es1.
    destruct (@component_iso_sole A eqA eqA_ok fixed sizes es ids g0 c P Hc)
      as [ids1 [g10 [c1 [P1 [Hne _]]]]].
    fold es1 in P1.
    split; [|split].
    - intros E. rewrite E in P1. apply Hne. apply (populate_nil_ids ids1 g10 P1).
    - apply (proj1 (@populate_ok_iff A eqA es1)). exists ids1, g10. exact P1.
    - split; [exact O4|]. split; [exact O5|]. intros ENS.
      apply (TotalPipeline.sqrt_budget_mono _ (2 * length es1) (2 * length es)); [|apply BUD, ENS].
      pose proof (populate_wf eqA eqA_ok es P) as W.
      set (g := apply_sizes A eqA fixed sizes ids g0) in *.
      assert (Cg : consistent g) by apply (sized_consistent eqA fixed sizes W).
      destruct (components_partition g Cg) as (_ & _ & SE & _). cbv zeta in SE.
      assert (GE : g_E g = iota 0 (length es)) by (unfold g; rewrite sized_E; apply (p_E W)).
      assert (LE : length (g_E c) <= length es).
      { rewrite (SE c Hc), GE. eapply Nat.le_trans; [apply filter_length_le_c|]. rewrite iota_length. lia. }
      unfold es1. rewrite map_length. lia.
  Qed.

  Theorem component_layout_is_sole_layout_translated_total :
    forall o fixed sizes es ids g0 ns eo xs k c,
    Forall (fun p => length p = 2%nat) es -> TotalPipeline.layout_options_ok A o es ->
    populate A eqA es = Ok (ids, g0) ->
    layout A eqA o fixed sizes es = Ok (ids, (ns, eo, xs)) ->
    nth_error (components (apply_sizes A eqA fixed sizes ids g0)) k = Some c ->
    exists ids1 ns1 eo1 xs1,
      layout A eqA o fixed sizes (map (fun i => nth i es []) (g_E c)) = Ok (ids1, (ns1, eo1, xs1)) /\
      exists gs sigma, inj sigma /\ collect_all o gs 0 = (ns, eo) /\
        Forall2 (fun c g => exists x, layout_component o c = Ok (g, x))
                (components (apply_sizes A eqA fixed sizes ids g0)) gs /\
        Forall2 (onode_shifted sigma (shift_at o gs 0 k)) ns1 (comp_nodes o gs 0 k) /\
        Forall2 (oedge_shifted sigma (shift_at o gs 0 k)) eo1 (comp_edges o gs 0 k) /\
        (exists x, layout_component o c = Ok (nth k gs graph0, x) /\
                   xs1 = match x with Some v => [v] | None => [] end).
  Proof.
    intros o fixed sizes es ids g0 ns eo xs k c ARITY OK P L Hk.
    assert (Hc : In c (components (apply_sizes A eqA fixed sizes ids g0))) by (eapply nth_error_In; eauto).
    destruct (component_edges_input o fixed sizes es ids g0 c OK P Hc) as (NE1 & AR1 & OK1).
    destruct (TotalPipeline.layout_total A eqA eqA_ok o fixed sizes _ NE1 AR1 OK1) as (ids1 & [[ns1 eo1] xs1] & L1).
    exists ids1, ns1, eo1, xs1. split; [exact L1|].
    exact (component_layout_is_sole_layout_translated A eqA eqA_ok o fixed sizes es ids g0 ns eo xs k c P L Hk
             ids1 ns1 eo1 xs1 L1).
  Qed.
End Close.

Print Assumptions component_layout_is_sole_layout_translated_total.

(* ---------- the hypotheses are satisfiable: the 2-component instance of RenumberExample.v ---------- *)
(* rx_union_edges = [[1;2];[3;4];[2;6];[4;5];[4;4];[3;5];[6;1];[5;3];[5;7];[7;8];[3;8];[8;4]]: components {1,2,6} and
   {3,4,5,7,8}, interleaved in the arenas; rx_o = DepthFirst / NetworkSimplex / SinkColoring / Polyline;
   rx_comp is the second component (k = 1). *)
Example rx_options_ok : TotalPipeline.layout_options_ok nat rx_o rx_union_edges.
Proof.
  split; [right; right; reflexivity|]. split; [right; left; reflexivity|]. intros _. vm_compute. discriminate.
Qed.

Example rx_total_hyps :
  Forall (fun p => length p = 2) rx_union_edges /\
  TotalPipeline.layout_options_ok nat rx_o rx_union_edges /\
  exists ids g0 out,
    populate nat Nat.eqb rx_union_edges = Ok (ids, g0) /\
    layout nat Nat.eqb rx_o rx_fixed None rx_union_edges = Ok (ids, out) /\
    nth_error (components (apply_sizes nat Nat.eqb rx_fixed None ids g0)) 1 = Some rx_comp.
Proof.
  split; [repeat constructor|]. split; [exact rx_options_ok|].
  vm_compute. do 3 eexists. repeat split; reflexivity.
Qed.

(* the theorem instantiated: no hypothesis about the sole run is left *)
Example rx_total_by_theorem : forall ids g0 ns eo xs,
  populate nat Nat.eqb rx_union_edges = Ok (ids, g0) ->
  layout nat Nat.eqb rx_o rx_fixed None rx_union_edges = Ok (ids, (ns, eo, xs)) ->
  exists ids1 ns1 eo1 xs1,
    layout nat Nat.eqb rx_o rx_fixed None rx_sole_edges = Ok (ids1, (ns1, eo1, xs1)) /\
    exists gs sigma, inj sigma /\ collect_all rx_o gs 0 = (ns, eo) /\
      Forall2 (onode_shifted sigma (shift_at rx_o gs 0 1)) ns1 (comp_nodes rx_o gs 0 1) /\
      Forall2 (oedge_shifted sigma (shift_at rx_o gs 0 1)) eo1 (comp_edges rx_o gs 0 1).
Proof.
  intros ids g0 ns eo xs P L.
  assert (Hk : nth_error (components (apply_sizes nat Nat.eqb rx_fixed None ids g0)) 1 = Some rx_comp).
  { vm_compute in P. injection P as <- <-. vm_compute. reflexivity. }
  assert (E : map (fun i => nth i rx_union_edges []) (g_E rx_comp) = rx_sole_edges) by (vm_compute; reflexivity).
  assert (AR : Forall (fun p => length p = 2) rx_union_edges) by (repeat constructor).
  destruct (component_layout_is_sole_layout_translated_total nat Nat.eqb nat_eqb_ok' rx_o rx_fixed None
              rx_union_edges ids g0 ns eo xs 1 rx_comp AR rx_options_ok P L Hk)
    as (ids1 & ns1 & eo1 & xs1 & L1 & gs & sigma & I & C & _ & N & Ed & _).
  rewrite E in L1.
  exists ids1, ns1, eo1, xs1. split; [exact L1|]. exists gs, sigma. auto.
Qed.
