(* C16Noop.v — property C16 for the OUTPUT of the pipeline with the other ordering option, OrderingNoop
   (Model/PipelineNoop.v: [layout_component_n bk o g], phase 3 = break the long edges and number the positions in the
   order the layering listed the nodes).  Same statements as Proofs/C16Whole.v:
     [number_positions_contract]   the ordering phase of this pipeline satisfies [E2EBridge.order_contract]
     [C16n_component]              [C16_contract o g'] and [C16_leftmost g'] for [layout_component_n bk o g = Ok (g', x)]
     [C16n_layout_output]          the whole [layout_n] of a connected input with o_virtual = true.
   The end-to-end lemmas of E2EOutput.v / WholeCrossings.v / WholeOverlap.v are stated for the record
   [E2EBackbone.backbone], which mentions [exec_wmedian]; the few that are needed here are re-derived in Section
   [NoopStages] from the three stage records (stage01, stage23, stage45), which do not mention the ordering phase. *)
From Autog Require Import Base Graph Populate Phase1 Phase2 Phase3 Phase4 Phase5 Layout Wmedian Pipeline BK PipelineBK PipelineNoop.
From Autog.Proofs Require Import ListLemmas Consistent PopulateProofs SizesProofs ComponentsProofs SelfLoopProofs.
From Autog.Proofs Require CollectProofs.
From Autog.Proofs Require Import Positioners Routes BreakMerge SinkColoringProofs Shift E2EBridge E2EBackbone E2EOutput E2EFrontend.
From Autog.Proofs Require Import WholeBridge WholeCrossings WholeOverlap WholeLayout NSBridge.
From Autog.Proofs Require BKTotal3 BKPipeline.
From Autog.Proofs Require Import C16Whole.
From Coq Require Import Permutation Lia Lqa.
Local Open Scope nat_scope.

(* ====================================================================================================== *)
(** * 1. [number_positions] satisfies the contract of the ordering phase                                   *)
(* ====================================================================================================== *)

(* [g'] differs from [g] only in the [n_pos] fields of the node arena *)
Definition posonly (g g' : graph) : Prop :=
  g_ea g' = g_ea g /\ g_N g' = g_N g /\ g_E g' = g_E g /\ g_L g' = g_L g /\ length (g_na g') = length (g_na g) /\
  forall n, set_pos 0 (gnode g' n) = set_pos 0 (gnode g n).

Lemma posonly_refl : forall g, posonly g g.
Proof. intros g. repeat split; reflexivity. Qed.

Lemma posonly_trans : forall g1 g2 g3, posonly g1 g2 -> posonly g2 g3 -> posonly g1 g3.
Proof.
  intros g1 g2 g3 (A1 & A2 & A3 & A4 & A5 & A6) (B1 & B2 & B3 & B4 & B5 & B6).
  split; [congruence|]. split; [congruence|]. split; [congruence|]. split; [congruence|]. split; [congruence|].
  intros n. rewrite B6. apply A6.
Qed.

Lemma posonly_upd : forall g n z, posonly g (upd_node g n (set_pos z)).
Proof.
  intros g n z. repeat split; try reflexivity.
  - apply length_na_upd_node.
  - intros m. rewrite gnode_upd_node. destruct (Nat.eqb m n && Nat.ltb n (length (g_na g)))%bool; [|reflexivity].
    destruct (gnode g m); reflexivity.
Qed.

Definition np_step (acc : graph * Z) (n : nat) : graph * Z :=
  (upd_node (fst acc) n (set_pos (snd acc)), (snd acc + 1)%Z).
Definition np_inner (ns : list nat) (acc : graph * Z) : graph * Z := fold_left np_step ns acc.

Lemma number_positions_eq : forall g,
  number_positions g = fold_left (fun g l => fst (np_inner (l_nodes l) (g, 0%Z))) (g_L g) g.
Proof. reflexivity. Qed.

Lemma np_inner_spec : forall ns g z,
  posonly g (fst (np_inner ns (g, z))) /\
  (forall m, ~ In m ns -> gnode (fst (np_inner ns (g, z))) m = gnode g m) /\
  (NoDup ns -> (forall n, In n ns -> n < length (g_na g)) ->
   forall j, j < length ns -> n_pos (gnode (fst (np_inner ns (g, z))) (nth j ns 0)) = (z + Z.of_nat j)%Z).
Proof.
  induction ns as [|a t IH]; intros g z.
  - cbn. split; [apply posonly_refl|]. split; [reflexivity|]. intros _ _ j Hj. lia.
  - unfold np_inner. cbn [fold_left]. unfold np_step at 2. cbn [fst snd]. fold (np_inner t (upd_node g a (set_pos z), (z + 1)%Z)).
    destruct (IH (upd_node g a (set_pos z)) (z + 1)%Z) as (P & O & N).
    split; [eapply posonly_trans; [apply posonly_upd|exact P]|]. split.
    + intros m Hm. rewrite O by (intros H; apply Hm; right; exact H).
      apply gnode_upd_node_other. intros E. apply Hm. left. symmetry. exact E.
    + intros ND RG j Hj. inversion ND as [|? ? Ha NDt]; subst.
      destruct j as [|j].
      * cbn [nth]. rewrite O by exact Ha. rewrite gnode_upd_node_same by (apply RG; left; reflexivity).
        cbn [set_pos n_pos]. lia.
      * cbn [nth]. rewrite N; [lia|exact NDt| |cbn [length] in Hj; lia].
        intros n Hn. rewrite length_na_upd_node. apply RG. right. exact Hn.
Qed.

Lemma np_outer_spec : forall ls g,
  let r := fold_left (fun g l => fst (np_inner (l_nodes l) (g, 0%Z))) ls g in
  posonly g r /\
  (forall m, ~ In m (flat_map l_nodes ls) -> gnode r m = gnode g m) /\
  (NoDup (flat_map l_nodes ls) -> (forall n, In n (flat_map l_nodes ls) -> n < length (g_na g)) ->
   forall l j, In l ls -> j < length (l_nodes l) -> n_pos (gnode r (nth j (l_nodes l) 0)) = Z.of_nat j).
Proof.
  induction ls as [|l0 t IH]; intros g; cbv zeta.
  - cbn. split; [apply posonly_refl|]. split; [reflexivity|]. intros _ _ l j [].
  - cbn [fold_left flat_map]. set (g1 := fst (np_inner (l_nodes l0) (g, 0%Z))).
    destruct (np_inner_spec (l_nodes l0) g 0%Z) as (P0 & O0 & N0). fold g1 in P0, O0, N0.
    destruct (IH g1) as (P & O & N). cbv zeta in P, O, N.
    split; [eapply posonly_trans; eassumption|]. split.
    + intros m Hm. rewrite O by (intros H; apply Hm, in_or_app; right; exact H).
      apply O0. intros H. apply Hm, in_or_app. left. exact H.
    + intros ND RG l j Hl Hj.
      assert (LEN : length (g_na g1) = length (g_na g)) by apply P0.
      destruct Hl as [<-|Hl].
      * assert (Hin : In (nth j (l_nodes l0) 0) (l_nodes l0)) by (apply nth_In, Hj).
        rewrite O by (apply (NoDup_app_disj _ _ _ _ ND), Hin).
        rewrite N0; [lia|apply (NoDup_app_l _ _ _ ND)| |exact Hj].
        intros n Hn. apply RG, in_or_app. left. exact Hn.
      * apply N; [apply (NoDup_app_r _ _ _ ND)| |exact Hl|exact Hj].
        intros n Hn. rewrite LEN. apply RG, in_or_app. right. exact Hn.
Qed.

Theorem number_positions_contract : forall g, layers_wf g -> order_contract g (number_positions g).
Proof.
  intros g [ND RG]. rewrite number_positions_eq.
  destruct (np_outer_spec (g_L g) g) as ((A1 & A2 & A3 & A4 & A5 & A6) & _ & N). cbv zeta in *.
  set (g' := fold_left (fun g l => fst (np_inner (l_nodes l) (g, 0%Z))) (g_L g) g) in *.
  assert (GL : forall kk, glayer g' kk = glayer g kk) by (intros kk; unfold glayer; rewrite A4; reflexivity).
  constructor; try assumption.
  - rewrite A4. reflexivity.
  - intros kk. rewrite GL. split; [reflexivity|]. split; [reflexivity|apply Permutation_refl].
  - intros kk j Hj. rewrite GL in *. unfold pos_of.
    destruct (Nat.lt_ge_cases kk (length (g_L g))) as [L|L].
    + apply (N ND RG (glayer g kk) j); [apply nth_In, L|exact Hj].
    + unfold glayer in Hj. rewrite nth_overflow in Hj by exact L. cbn in Hj. lia.
Qed.
Print Assumptions number_positions_contract.

(* ====================================================================================================== *)
(** * 2. C16 from the facts that relate the final state to the ordered state (whatever the ordering phase) *)
(* ====================================================================================================== *)

Lemma nonempty_has : forall (X : Type) (l : list X), l <> [] -> exists x, In x l.
Proof. intros X [|x t] H; [congruence|]. exists x. left. reflexivity. Qed.

Record c16_facts (o : options) (g g' g3' : graph) : Prop := {
  cf_wf3' : layers_wf g3';
  cf_map : map l_nodes (g_L g') = map l_nodes (g_L g3');
  cf_w : forall n, nW g' n = nW g3' n;
  cf_valign : o_p4 o = VAlign -> forall n, nX g' n = nX (exec_valign (o_node_spacing o) g3') n;
  cf_packright : o_p4 o = PackRight -> forall n, nX g' n = nX (exec_pack_right (o_node_spacing o) g3') n;
  cf_no_empty : g_L g' <> [] /\ (forall l, In l (g_L g') -> l_nodes l <> []);
  cf_sizes : widths_nonneg g -> forall n, in_layers g3' n -> (0 <= nW g3' n)%Q;
  cf_partition : layers_wf g' /\ NoDup (g_N g') /\ (forall n, In n (g_N g') <-> in_layers g' n) }.

Section OfFacts.
  Variables (o : options) (g g' g3' : graph).
  Hypothesis AL : aligned_p4 o.
  Hypothesis F : c16_facts o g g' g3'.
  Let s := o_node_spacing o.
  Local Open Scope Q_scope.

  Let WF3 := cf_wf3' _ _ _ _ F.
  Let MAP := cf_map _ _ _ _ F.
  Let W := cf_w _ _ _ _ F.

  Lemma of_layer : forall l, In l (g_L g') -> exists l3, In l3 (g_L g3') /\ l_nodes l3 = l_nodes l.
  Proof. intros l Hl. apply (in_map_l_nodes _ _ l MAP Hl). Qed.

  Lemma of_in_layers : forall n, in_layers g' n <-> in_layers g3' n.
  Proof. intros n. apply in_layers_transfer, MAP. Qed.

  Lemma of_spacing : forall l i a b, In l (g_L g') ->
    nth_error (l_nodes l) i = Some a -> nth_error (l_nodes l) (S i) = Some b -> nX g' b == nX g' a + nW g' a + s.
  Proof.
    intros l i a b Hl Ha Hb. destruct (of_layer l Hl) as (l3 & Hl3 & E3). rewrite <- E3 in Ha, Hb.
    rewrite (W a). destruct AL as [E|E].
    - rewrite !(cf_valign _ _ _ _ F E). apply (valign_consecutive s g3' l3 i a b WF3 Hl3 Ha Hb).
    - rewrite !(cf_packright _ _ _ _ F E). apply (packright_consecutive s g3' l3 i a b WF3 Hl3 Ha Hb).
  Qed.

  Lemma of_extent : forall l a rest b, In l (g_L g') -> l_nodes l = a :: rest -> last_opt (l_nodes l) = Some b ->
    nX g' b + nW g' b - nX g' a == band_extent g' s (l_nodes l).
  Proof.
    intros l a rest b Hl En Hb. unfold band_extent. rewrite En in *.
    apply (extent_of_consecutive g' s (nX g') rest a b); [|exact Hb].
    intros i u v Hu Hv. rewrite <- En in Hu, Hv. apply (of_spacing l i u v Hl Hu Hv).
  Qed.

  Lemma of_valign_mid : o_p4 o = VAlign -> forall l a rest, In l (g_L g') -> l_nodes l = a :: rest ->
    nX g' a + band_extent g' s (l_nodes l) / 2 == valign_M s g' / 2.
  Proof.
    intros E l a rest Hl En. destruct (of_layer l Hl) as (l3 & Hl3 & E3).
    assert (En3 : l_nodes l3 = a :: rest) by (rewrite E3; exact En).
    pose proof (valign_centered s g3' l3 a rest WF3 Hl3 En3) as C.
    assert (NE : l_nodes l3 <> []) by (rewrite En3; discriminate).
    pose proof (layer_width_sum g3' s (l_nodes l3) NE) as LW.
    rewrite (cf_valign _ _ _ _ F E a), (valign_M_ext s g3' g' MAP W). unfold band_extent.
    rewrite (sumW_ext g3' g' (l_nodes l) W), <- E3. rewrite <- LW. exact C.
  Qed.

  Lemma of_packright_right : o_p4 o = PackRight -> forall l b, In l (g_L g') -> last_opt (l_nodes l) = Some b ->
    nX g' b + nW g' b == 0 - pr_lb s g3' - s.
  Proof.
    intros E l b Hl Hb. destruct (of_layer l Hl) as (l3 & Hl3 & E3). rewrite <- E3 in Hb.
    pose proof (packright_right_end s g3' l3 b WF3 Hl3 Hb) as R.
    rewrite (cf_packright _ _ _ _ F E b), (W b). unfold s in *. lra.
  Qed.

  Lemma of_leftmost : widths_nonneg g -> 0 <= s -> C16_leftmost g'.
  Proof.
    intros SZ SP.
    assert (GW : geom_ok_weak s g3').
    { split; [split; [exact SP|apply (cf_sizes _ _ _ _ F SZ)]|].
      destruct (cf_no_empty _ _ _ _ F) as [NE ALL]. destruct (nonempty_has _ _ NE) as [l Hl].
      destruct (of_layer l Hl) as (l3 & Hl3 & E3). exists l3. split; [exact Hl3|]. rewrite E3. apply ALL, Hl. }
    unfold C16_leftmost. destruct AL as [E|E].
    - destruct (valign_leftmost_zero_gen s g3' WF3 GW) as [A (n & Hn & Z)]. split.
      + intros m Hm. rewrite (cf_valign _ _ _ _ F E m). apply A, of_in_layers, Hm.
      + exists n. split; [apply of_in_layers, Hn|]. rewrite (cf_valign _ _ _ _ F E n). exact Z.
    - destruct (packright_leftmost_zero_gen s g3' WF3 GW) as [A (n & Hn & Z)]. split.
      + intros m Hm. rewrite (cf_packright _ _ _ _ F E m). apply A, of_in_layers, Hm.
      + exists n. split; [apply of_in_layers, Hn|]. rewrite (cf_packright _ _ _ _ F E n). exact Z.
  Qed.

  Theorem c16_of_facts : C16_contract o g' /\ (widths_nonneg g -> 0 <= o_node_spacing o -> C16_leftmost g').
  Proof.
    split; [|exact of_leftmost]. unfold C16_contract. cbv zeta. fold s.
    split; [exact (cf_partition _ _ _ _ F)|]. split; [exact (cf_no_empty _ _ _ _ F)|].
    split; [exact of_spacing|]. split; [exact of_extent|]. split; intros E.
    - exists (valign_M s g'). exact (of_valign_mid E).
    - exists (0 - pr_lb s g3' - s). exact (of_packright_right E).
  Qed.
End OfFacts.

(* ====================================================================================================== *)
(** * 3. The facts, from the three stage records (no mention of the ordering heuristic)                    *)
(* ====================================================================================================== *)

Section NoopStages.
  Variables (o : options) (g g' g0 : graph) (del : list nat) (g1 g2 g3 : graph) (k : nat)
            (g3' g4 gm : graph) (routes : list (nat * list nat)) (g5 : graph).
  Hypothesis CI : component_input g.
  Hypothesis S01 : stage01 g g0 del g1.
  Hypothesis S23 : stage23 g1 g2 g3 k.
  Hypothesis S45 : stage45 (o_layer_spacing o) (o_p5 o) g2 g3 g3' g4 gm routes g5.
  Hypothesis P2 : phase2 (o_p2 o) (Layout.ns_params o) g1 = Ok g2.
  Hypothesis BR : break_long_edges g2 = Ok g3.
  Hypothesis M4 : modelled_p4 (o_p4 o).
  Hypothesis P4 : phase4 (o_p4 o) (p4_params o) g3' = Ok g4.
  Hypothesis E6 : g' = post_process g5 del.

  Let PP := s2_post _ _ _ _ S23.
  Let s := o_node_spacing o.

  (* E2EOutput.sum_lengths *)
  Lemma ns_lengths :
    length (g_na g2) = length (g_na g) /\ length (g_ea g2) = length (g_ea g) /\
    length (g_na g5) = length (g_na g) + k /\
    g_E g2 = filter (fun e => negb (self_loop g e)) (g_E g) /\ g_N g2 = g_N g /\
    g_E g5 = g_E g2 /\ g_N g5 = g_N g ++ iota (length (g_na g)) k /\ g_L g5 = g_L g4.
  Proof.
    destruct (rev_star_frame _ _ (s1_rs _ _ _ _ S01)) as (F1 & F2 & _ & F4 & F5 & _).
    assert (NA2 : length (g_na g2) = length (g_na g)).
    { rewrite (p2_na _ _ PP), F4. apply (s0_na _ _ _ _ S01). }
    split; [exact NA2|]. split.
    { rewrite (p2_ea _ _ PP), F5, (s0_ea _ _ _ _ S01). reflexivity. }
    split.
    { rewrite (s5_na _ _ _ _ _ _ _ _ _ S45), (sm_na _ _ _ _ _ _ _ _ _ S45), (s4_na _ _ _ _ _ _ _ _ _ S45),
        (s3_na _ _ _ _ S23), NA2. reflexivity. }
    split.
    { rewrite (p2_E _ _ PP), F2. apply (s0_E _ _ _ _ S01). }
    assert (N2 : g_N g2 = g_N g).
    { rewrite (p2_N _ _ PP), F1. apply (s0_N _ _ _ _ S01). }
    split; [exact N2|]. split.
    { rewrite (s5_E _ _ _ _ _ _ _ _ _ S45). apply (sm_E _ _ _ _ _ _ _ _ _ S45). }
    split.
    { rewrite (s5_N _ _ _ _ _ _ _ _ _ S45), (sm_N _ _ _ _ _ _ _ _ _ S45), (s4_N _ _ _ _ _ _ _ _ _ S45),
        (s3_N _ _ _ _ S23), N2, NA2. reflexivity. }
    rewrite (s5_L _ _ _ _ _ _ _ _ _ S45). apply (sm_L _ _ _ _ _ _ _ _ _ S45).
  Qed.

  (* E2EOutput.sum_loop5 / sum_post_range: the self loops come back with their ends in range *)
  Lemma ns_post_range : forall e, In e del ->
    e_from (gedge g5 e) < length (g_na g5) /\ e_to (gedge g5 e) < length (g_na g5).
  Proof.
    intros e He. rewrite (s0_del _ _ _ _ S01) in He. apply filter_In in He. destruct He as [HeE Hs].
    destruct ns_lengths as (_ & EA & NA5 & E2 & _).
    assert (N2 : ~ In e (g_E g2)).
    { intros H. rewrite E2 in H. apply filter_In in H. destruct H as [_ H]. rewrite Hs in H. discriminate. }
    assert (TC : edge_eq_tc (gedge g5 e) (gedge g e)).
    { rewrite (s5_other _ _ _ _ _ _ _ _ _ S45 e N2).
      rewrite (sm_other _ _ _ _ _ _ _ _ _ S45 e); [|rewrite EA; apply (c_E_lt _ (ci_cons _ CI) e HeE)|exact N2].
      rewrite <- (s1_other _ _ _ _ S01 e); [apply (p2_edge _ _ PP e)|]. rewrite <- (p2_E _ _ PP). exact N2. }
    destruct (edge_eq_tc_fields _ _ TC) as (-> & -> & _). rewrite NA5.
    pose proof (ci_cons _ CI) as C.
    pose proof (c_N_lt _ C _ (c_from _ C e HeE)). pose proof (c_N_lt _ C _ (c_to _ C e HeE)). lia.
  Qed.

  (* E2EOutput.sum_node4 *)
  Lemma ns_node4 : forall n,
    n_layer (gnode g' n) = n_layer (gnode g4 n) /\ n_virt (gnode g' n) = n_virt (gnode g4 n) /\
    n_x (gnode g' n) = n_x (gnode g4 n) /\ n_y (gnode g' n) = n_y (gnode g4 n) /\
    n_w (gnode g' n) = n_w (gnode g4 n) /\ n_h (gnode g' n) = n_h (gnode g4 n).
  Proof.
    intros n. rewrite E6.
    destruct (post_process_facts g5 del ns_post_range) as (_ & _ & _ & _ & _ & _ & _ & _ & PN). cbv zeta in PN.
    destruct (PN n) as (-> & _ & -> & -> & -> & -> & ->).
    rewrite (gnode_same_na _ _ n (s5_na _ _ _ _ _ _ _ _ _ S45)).
    pose proof (sm_node _ _ _ _ _ _ _ _ _ S45 n) as Sb.
    destruct (same_but_in_fields _ _ Sb) as (-> & -> & _). destruct (same_but_in_geom _ _ Sb) as (-> & -> & -> & ->).
    repeat split; reflexivity.
  Qed.

  (* E2EOutput.sum_node_old *)
  Lemma ns_node_old : forall n, n < length (g_na g) -> n_w (gnode g3 n) = n_w (gnode g n).
  Proof.
    intros n Hn. destruct ns_lengths as (NA2 & _). rewrite <- NA2 in Hn.
    pose proof (s3_old _ _ _ _ S23 n Hn) as Sb.
    destruct (same_but_in_geom _ _ Sb) as (_ & _ & -> & _).
    rewrite (p2_node _ _ PP n). cbn [set_layer n_w].
    destruct (rev_star_frame _ _ (s1_rs _ _ _ _ S01)) as (_ & _ & _ & _ & _ & F6 & _).
    destruct (same_but_adj_fields _ _ (F6 n)) as (_ & _ & _ & _ & _ & -> & _).
    destruct (node_attrs_fields _ _ (s0_attrs _ _ _ _ S01 n)) as (_ & _ & _ & _ & _ & -> & _). reflexivity.
  Qed.

  (* E2EOutput.out_frame *)
  Lemma ns_out_frame : g_L g' = g_L g4 /\ g_N g' = g_N g4 /\ length (g_na g') = length (g_na g4).
  Proof.
    pose proof ns_lengths as (NA2 & EA2 & NA5 & E2 & N2 & E5 & N5 & L5).
    destruct (post_process_facts g5 del ns_post_range) as (Q1 & Q2 & Q3 & Q4 & _).
    cbv zeta in *. rewrite <- E6 in *.
    split; [congruence|]. split.
    { rewrite Q1, (s5_N _ _ _ _ _ _ _ _ _ S45). apply (sm_N _ _ _ _ _ _ _ _ _ S45). }
    rewrite Q4, (s5_na _ _ _ _ _ _ _ _ _ S45). apply (sm_na _ _ _ _ _ _ _ _ _ S45).
  Qed.

  (* WholeCrossings.bbx_N3', bbx_wf3', bbx_lh3', bbx_phase4 *)
  Lemma ns_N3' : Nat.eqb (length (g_N g3')) 1 = false.
  Proof.
    apply Nat.eqb_neq. rewrite (E2EBridge.oc_N _ _ (s4_oc _ _ _ _ _ _ _ _ _ S45)), (s3_N _ _ _ _ S23), app_length.
    pose proof (s2_two _ _ _ _ S23). lia.
  Qed.

  Lemma ns_wf3' : layers_wf g3'.
  Proof.
    destruct (order_contract_facts g3 g3' (s4_oc _ _ _ _ _ _ _ _ _ S45)) as (_ & OWF & _). apply OWF, (s3_wf _ _ _ _ S23).
  Qed.

  Lemma ns_phase4 :
    (forall n, set_x 0 (set_y 0 (gnode g4 n)) = set_x 0 (set_y 0 (gnode g3' n))) /\
    (forall kk, l_nodes (glayer g4 kk) = l_nodes (glayer g3' kk)) /\
    length (g_L g4) = length (g_L g3').
  Proof.
    assert (LH : forall kk, (0 <= l_h (glayer g3' kk))%Q).
    { intros kk. destruct (order_contract_facts g3 g3' (s4_oc _ _ _ _ _ _ _ _ _ S45)) as (_ & _ & _ & _ & _ & OLH).
      rewrite OLH, (s3_lh _ _ _ _ S23). destruct (p2_wh _ _ PP kk) as [_ ->]. apply Qle_refl. }
    destruct (phase4_facts (o_p4 o) (p4_params o) g3' g4 M4 ns_N3' P4 ns_wf3' LH) as (_ & _ & _ & _ & F5 & F6 & F7 & _).
    split; [exact F5|]. split; [exact F6|exact F7].
  Qed.

  Lemma ns_x : forall n, nX g' n = nX g4 n.
  Proof. intros n. unfold nX. apply (ns_node4 n). Qed.

  Lemma ns_w : forall n, nW g' n = nW g3' n.
  Proof.
    intros n. unfold nW. destruct (ns_node4 n) as (_ & _ & _ & _ & -> & _).
    destruct ns_phase4 as (F5 & _). destruct (set_xy_fields _ _ (F5 n)) as (_ & _ & _ & _ & _ & -> & _). reflexivity.
  Qed.

  Lemma ns_map : map l_nodes (g_L g') = map l_nodes (g_L g3').
  Proof.
    destruct ns_phase4 as (_ & F6 & F7). destruct ns_out_frame as (-> & _).
    apply map_l_nodes_of_nth; [exact F7|]. intros kk. apply (F6 kk).
  Qed.

  Lemma ns_no_empty : g_L g' <> [] /\ (forall l, In l (g_L g') -> l_nodes l <> []).
  Proof.
    assert (TWO1 : 2 <= length (g_N g1)).
    { destruct (rev_star_frame _ _ (s1_rs _ _ _ _ S01)) as (-> & _). rewrite (s0_N _ _ _ _ S01). apply (ci_two _ CI). }
    pose proof (BKTotal3.phase2_no_empty_band o g g0 del g1 g2 S01 TWO1 P2) as NE2.
    destruct ns_out_frame as (OL & _).
    assert (LEN : length (g_L g') = length (g_L g2)).
    { rewrite OL, (s4_L _ _ _ _ _ _ _ _ _ S45). apply (s3_L _ _ _ _ S23). }
    split.
    - intros E. rewrite E in LEN. cbn [length] in LEN.
      pose proof (s2_two _ _ _ _ S23) as T2. destruct (g_N g2) as [|n t] eqn:EN; [cbn in T2; lia|].
      destruct (p2_layer_rng _ _ PP n) as [_ R]; [rewrite EN; left; reflexivity|]. lia.
    - intros l Hl. destruct (In_nth _ _ layer0 Hl) as (kk & Hkk & El). rewrite LEN in Hkk.
      pose proof (NE2 kk Hkk) as NE. destruct (l_nodes (glayer g2 kk)) as [|n t] eqn:E2; [congruence|].
      assert (H3 : In n (l_nodes (glayer g3 kk))).
      { apply (s3_layer_sub _ _ _ _ S23). rewrite E2. left. reflexivity. }
      apply (s4_inl _ _ _ _ _ _ _ _ _ S45) in H3. unfold glayer in H3 at 1. rewrite <- OL, El in H3.
      intros E. rewrite E in H3. destruct H3.
  Qed.

  Lemma ns_sizes : widths_nonneg g -> forall n, in_layers g3' n -> (0 <= nW g3' n)%Q.
  Proof.
    intros SZ n Hn. pose proof (s4_oc _ _ _ _ _ _ _ _ _ S45) as OC.
    destruct (order_contract_facts g3 g3' OC) as (_ & _ & _ & OIN & _).
    apply OIN in Hn. unfold in_layers in Hn. apply in_flat_map in Hn. destruct Hn as (l & Hl & Hn).
    destruct (In_nth _ _ layer0 Hl) as (j & Hj & <-).
    pose proof (s3_inl _ _ _ _ S23 j n Hn) as HnN.
    unfold nW. destruct (E2EBridge.set_pos_fields _ _ (E2EBridge.oc_nodes _ _ OC n)) as (_ & _ & _ & _ & _ & _ & -> & _).
    pose proof (stage23_adjinv g1 g2 g3 k (s1_c _ _ _ _ S01) S23 BR) as I.
    destruct ns_lengths as (NA2 & _ & _ & _ & N2 & _).
    pose proof (ai_N _ _ _ I n HnN) as Hlt.
    rewrite (s3_N _ _ _ _ S23) in HnN. apply in_app_or in HnN. destruct HnN as [H|H].
    - rewrite N2 in H. pose proof (c_N_lt _ (ci_cons _ CI) n H) as L. rewrite (ns_node_old n L). apply SZ, H.
    - apply BreakMerge.in_iota in H. destruct (ai_newN _ _ _ I n (proj1 H) Hlt) as [-> _]. apply Qle_refl.
  Qed.

  Lemma ns_partition : layers_wf g' /\ NoDup (g_N g') /\ (forall n, In n (g_N g') <-> in_layers g' n).
  Proof.
    destruct ns_out_frame as (OL & ON & ONA).
    assert (GL : forall j, glayer g' j = glayer g4 j) by (intros j; unfold glayer; rewrite OL; reflexivity).
    assert (WF' : layers_wf g').
    { unfold layers_wf. rewrite OL, ONA. apply (s4_wf _ _ _ _ _ _ _ _ _ S45). }
    destruct ns_lengths as (_ & _ & _ & _ & _ & _ & N5 & _).
    assert (EN : g_N g' = g_N g ++ iota (length (g_na g)) k).
    { rewrite ON, <- (sm_N _ _ _ _ _ _ _ _ _ S45), <- (s5_N _ _ _ _ _ _ _ _ _ S45). exact N5. }
    split; [exact WF'|]. split.
    - rewrite EN. apply NoDup_app_intro; [apply (c_nodupN _ (ci_cons _ CI))|apply BreakMerge.NoDup_iota|].
      intros n Hn Hi. apply BreakMerge.in_iota in Hi. pose proof (c_N_lt _ (ci_cons _ CI) n Hn). lia.
    - intros n. split.
      + intros Hn. rewrite ON in Hn. destruct (s4_placed _ _ _ _ _ _ _ _ _ S45 n Hn) as [_ P1].
        set (kk := Z.to_nat (layer_of g4 n)) in *. rewrite <- GL in P1.
        apply (in_layers_intro g' (glayer g' kk) n); [|exact P1].
        destruct (Nat.lt_ge_cases kk (length (g_L g'))) as [L|L]; [apply nth_In, L|].
        unfold glayer in P1. rewrite nth_overflow in P1; [destruct P1|exact L].
      + intros Hn. unfold in_layers in Hn. apply in_flat_map in Hn. destruct Hn as (l & Hl & Hn).
        destruct (In_nth _ _ layer0 Hl) as (j & Hj & <-). fold (glayer g' j) in Hn.
        rewrite ON, (s4_N _ _ _ _ _ _ _ _ _ S45). apply (s3_inl _ _ _ _ S23 j).
        apply (s4_inl _ _ _ _ _ _ _ _ _ S45). rewrite <- GL. exact Hn.
  Qed.

  Theorem noop_facts : c16_facts o g g' g3'.
  Proof.
    constructor.
    - exact ns_wf3'.
    - exact ns_map.
    - exact ns_w.
    - intros E n. rewrite ns_x. pose proof P4 as P. rewrite E in P.
      rewrite phase4_valign in P by exact ns_N3'. injection P as E4. rewrite <- E4, assign_y_nX. reflexivity.
    - intros E n. rewrite ns_x. pose proof P4 as P. rewrite E in P.
      rewrite phase4_packright in P by exact ns_N3'. injection P as E4. rewrite <- E4, assign_y_nX. reflexivity.
    - exact ns_no_empty.
    - exact ns_sizes.
    - exact ns_partition.
  Qed.
End NoopStages.

(* ====================================================================================================== *)
(** * 4. One component through [layout_component_n]                                                        *)
(* ====================================================================================================== *)

Local Open Scope Q_scope.

Theorem C16n_component : forall bk o g g' x,
  component_input g -> aligned_p4 o -> modelled_p5 (o_p5 o) -> layout_component_n bk o g = Ok (g', x) ->
  x = None /\ C16_contract o g' /\ (widths_nonneg g -> 0 <= o_node_spacing o -> C16_leftmost g').
Proof.
  intros bk o g g' x CI AL O5 H. unfold layout_component_n in H.
  assert (M4 : modelled_p4 (o_p4 o)) by (apply (aligned_options_ok o AL O5)).
  destruct (ignore_self_loops g) as [g0 del] eqn:E0.
  assert (Eg0 : g0 = fst (ignore_self_loops g)) by (rewrite E0; reflexivity).
  destruct (phase1 (o_p1 o) g0) as [g1|] eqn:P1; cbn [bind] in H; [|discriminate].
  destruct (phase2 (o_p2 o) (Layout.ns_params o) g1) as [g2|] eqn:P2; cbn [bind] in H; [|discriminate].
  pose proof (stage01_ok o g g0 del g1 CI E0 P1) as S01.
  assert (TWO1 : (2 <= length (g_N g1))%nat).
  { destruct (rev_star_frame _ _ (s1_rs _ _ _ _ S01)) as (-> & _). rewrite (s0_N _ _ _ _ S01). apply (ci_two _ CI). }
  pose proof (ns_premise_holds o g CI) as NS.
  assert (LO : forall g2a, match o_p2 o with
                           | LongestPath => exec_longest_path g1
                           | NetworkSimplex => exec_network_simplex (Layout.ns_params o) g1
                           end = Ok g2a -> layering_ok g1 g2a).
  { intros g2a Hg. destruct (o_p2 o) eqn:EA.
    - apply lp_layering_ok; [apply (s1_c _ _ _ _ S01)|apply (s1_ranked _ _ _ _ S01)| |exact Hg].
      intros e He. apply (s1_edge _ _ _ _ S01 e He).
    - apply (NS EA g1); [rewrite <- Eg0; exact P1|exact Hg]. }
  destruct (stage23_ok (o_p2 o) (Layout.ns_params o) g1 g2 (s1_c _ _ _ _ S01) (s1_nonvirt _ _ _ _ S01) TWO1
              (s1_some_edge _ _ _ _ S01) LO P2) as (g3 & k & BR & S23).
  unfold phase3_noop in H.
  assert (N2 : Nat.eqb (length (g_N g2)) 1 = false).
  { apply Nat.eqb_neq. pose proof (s2_two _ _ _ _ S23). lia. }
  assert (L2 : Nat.ltb 1 (length (g_L g2)) = true).
  { apply Nat.ltb_lt. pose proof (s2_L1 _ _ _ _ S23) as L1. apply Nat.eqb_neq in L1.
    pose proof (s2_two _ _ _ _ S23) as T2. destruct (g_N g2) as [|n t] eqn:EN; [cbn in T2; lia|].
    destruct (p2_layer_rng _ _ (s2_post _ _ _ _ S23) n) as [_ R]; [rewrite EN; left; reflexivity|]. lia. }
  rewrite N2, L2, BR in H. cbn [bind] in H.
  rewrite BKPipeline.phase4x_eq in H by (destruct AL as [E|E]; rewrite E; discriminate).
  destruct (phase4 (o_p4 o) (p4_params o) (number_positions g3)) as [g4|] eqn:P4; cbn [bind] in H; [|discriminate].
  destruct (phase5 (o_p5 o) (o_layer_spacing o) g4) as [g5|] eqn:P5; cbn [bind] in H; [|discriminate].
  injection H as Hg' Hx.
  pose proof (number_positions_contract g3 (s3_wf _ _ _ _ S23)) as OC.
  destruct (stage45_ok (o_layer_spacing o) (o_p4 o) (p4_params o) (o_p5 o) g1 g2 g3 k _ g4 g5 S23 BR OC M4 eq_refl P4 O5 P5)
    as (gm & routes & M & S45).
  split; [symmetry; exact Hx|].
  apply (c16_of_facts o g g' (number_positions g3) AL).
  apply (noop_facts o g g' g0 del g1 g2 g3 k _ g4 gm routes g5 CI S01 S23 S45 P2 BR M4 P4 (eq_sym Hg')).
Qed.
Print Assumptions C16n_component.

(* the named parts, as in C16Whole.v *)
Corollary C16n_exact_spacing : forall bk o g g' x,
  component_input g -> aligned_p4 o -> modelled_p5 (o_p5 o) -> layout_component_n bk o g = Ok (g', x) ->
  forall l i a b, In l (g_L g') ->
    nth_error (l_nodes l) i = Some a -> nth_error (l_nodes l) (S i) = Some b ->
    nX g' b == nX g' a + nW g' a + o_node_spacing o.
Proof. intros bk o g g' x CI AL O5 H. apply (C16n_component bk o g g' x CI AL O5 H). Qed.

Corollary C16n_extent : forall bk o g g' x,
  component_input g -> aligned_p4 o -> modelled_p5 (o_p5 o) -> layout_component_n bk o g = Ok (g', x) ->
  forall l a rest b, In l (g_L g') -> l_nodes l = a :: rest -> last_opt (l_nodes l) = Some b ->
    nX g' b + nW g' b - nX g' a ==
    sumW g' (l_nodes l) + (inject_Z (Z.of_nat (length (l_nodes l))) - 1) * o_node_spacing o.
Proof. intros bk o g g' x CI AL O5 H. apply (C16n_component bk o g g' x CI AL O5 H). Qed.

Corollary C16n_valign_midpoints_coincide : forall bk o g g' x,
  component_input g -> o_p4 o = VAlign -> modelled_p5 (o_p5 o) -> layout_component_n bk o g = Ok (g', x) ->
  exists M, forall l a rest, In l (g_L g') -> l_nodes l = a :: rest ->
    nX g' a + (sumW g' (l_nodes l) + (inject_Z (Z.of_nat (length (l_nodes l))) - 1) * o_node_spacing o) / 2 == M / 2.
Proof.
  intros bk o g g' x CI E O5 H.
  destruct (C16n_component bk o g g' x CI (or_introl E) O5 H) as (_ & (_ & _ & _ & _ & VA & _) & _). exact (VA E).
Qed.

Corollary C16n_packright_right_ends_coincide : forall bk o g g' x,
  component_input g -> o_p4 o = PackRight -> modelled_p5 (o_p5 o) -> layout_component_n bk o g = Ok (g', x) ->
  exists R, forall l b, In l (g_L g') -> last_opt (l_nodes l) = Some b -> nX g' b + nW g' b == R.
Proof.
  intros bk o g g' x CI E O5 H.
  destruct (C16n_component bk o g g' x CI (or_intror E) O5 H) as (_ & (_ & _ & _ & _ & _ & PR) & _). exact (PR E).
Qed.

Corollary C16n_leftmost_at_zero : forall bk o g g' x,
  component_input g -> aligned_p4 o -> modelled_p5 (o_p5 o) -> widths_nonneg g -> 0 <= o_node_spacing o ->
  layout_component_n bk o g = Ok (g', x) ->
  (forall n, in_layers g' n -> 0 <= nX g' n) /\ (exists n, in_layers g' n /\ nX g' n == 0).
Proof. intros bk o g g' x CI AL O5 SZ SP H. apply (C16n_component bk o g g' x CI AL O5 H); assumption. Qed.

(* ====================================================================================================== *)
(** * 5. The whole [layout_n] of a connected input, helper nodes made visible                              *)
(* ====================================================================================================== *)

Theorem C16n_layout_output : forall (A : Type) (eqA : A -> A -> bool), (forall x y, eqA x y = true <-> x = y) ->
  forall bk o fixed sizes es ids ns oes xs,
    aligned_p4 o -> modelled_p5 (o_p5 o) -> o_virtual o = true ->
    layout_n A eqA bk o fixed sizes es = Ok (ids, (ns, oes, xs)) ->
    forall g c, populate A eqA es = Ok (ids, g) ->
      components (apply_sizes A eqA fixed sizes ids g) = [c] -> (2 <= length (g_N c))%nat ->
      exists g',
        layout_component_n bk o c = Ok (g', None) /\ ns = map (out_node g') (g_N g') /\
        C16_contract o g' /\ C16_output o g' ns /\
        (0 <= o_node_spacing o -> widths_cfg_nonneg A eqA fixed sizes ids -> C16_leftmost g' /\ C16_output_leftmost ns).
Proof.
  intros A eqA OKA bk o fixed sizes es ids ns oes xs AL O5 OV LAY g c POP CS TWO.
  unfold layout_n in LAY. rewrite POP in LAY. cbn [bind] in LAY.
  destruct ids as [|i0 t0]; [discriminate|]. rewrite CS in LAY. cbn [layout_components_n] in LAY.
  destruct (layout_component_n bk o c) as [[g' x]|] eqn:H; cbn [bind] in LAY; [|discriminate].
  injection LAY as E1 _ _.
  assert (Hc : In c (components (apply_sizes A eqA fixed sizes (i0 :: t0) g))) by (rewrite CS; left; reflexivity).
  pose proof (frontend_component_input A eqA OKA es (i0 :: t0) g fixed sizes POP c Hc TWO) as CI.
  destruct (C16n_component bk o c g' x CI AL O5 H) as (-> & CT & LM).
  assert (ENS : ns = map (out_node g') (g_N g')).
  { rewrite <- E1, app_nil_r, OV, CollectProofs.collect_nodes_map_filter.
    rewrite filter_true by (intros n _; apply orb_true_r). reflexivity. }
  exists g'. split; [reflexivity|]. split; [exact ENS|]. split; [exact CT|].
  split; [exact (C16_output_of_contract o g' ns ENS CT)|].
  intros SP SZ.
  assert (L : C16_leftmost g').
  { apply LM; [|exact SP].
    destruct (front_components A eqA OKA es (i0 :: t0) g fixed sizes POP c Hc) as (_ & NA & _).
    destruct (front_g1 A eqA OKA es (i0 :: t0) g fixed sizes POP) as (C1 & _ & N1 & _ & _ & _ & SZ1).
    intros n Hn. destruct (components_partition _ C1) as (_ & P2 & _). cbv zeta in P2.
    rewrite (P2 c Hc) in Hn. apply filter_In in Hn. destruct Hn as [Hn _]. rewrite N1 in Hn.
    apply ListLemmas.in_iota in Hn.
    destruct (nth_error (i0 :: t0) n) as [y|] eqn:Ey; [|apply nth_error_None in Ey; lia].
    pose proof (SZ1 n y Ey) as E. unfold gnode. rewrite NA. fold (gnode (apply_sizes A eqA fixed sizes (i0 :: t0) g) n).
    pose proof (SZ y (nth_error_In _ _ Ey)) as W. rewrite <- E in W. exact W. }
  split; [exact L|]. exact (C16_output_leftmost_of o g' ns ENS CT L).
Qed.
Print Assumptions C16n_layout_output.

(* ====================================================================================================== *)
(** * 6. Example: the instance of C16Whole.v laid out with OrderingNoop                                    *)
(* ====================================================================================================== *)

Local Close Scope Q_scope.

Definition ce_resNV := Eval vm_compute in
  match layout_n nat Nat.eqb (-1) ce_oV ce_fixed ce_sizes ce_edges with Ok (_, r) => r | Err _ => ([], [], []) end.
Definition ce_resNP := Eval vm_compute in
  match layout_n nat Nat.eqb (-1) ce_oP ce_fixed ce_sizes ce_edges with Ok (_, r) => r | Err _ => ([], [], []) end.

Example ce_layoutNV : layout_n nat Nat.eqb (-1) ce_oV ce_fixed ce_sizes ce_edges =
                      Ok (ce_ids, (fst (fst ce_resNV), snd (fst ce_resNV), snd ce_resNV)).
Proof. vm_compute. reflexivity. Qed.
Example ce_layoutNP : layout_n nat Nat.eqb (-1) ce_oP ce_fixed ce_sizes ce_edges =
                      Ok (ce_ids, (fst (fst ce_resNP), snd (fst ce_resNP), snd ce_resNP)).
Proof. vm_compute. reflexivity. Qed.

Example ce_C16n_valign : exists g',
  layout_component_n (-1) ce_oV ce_c = Ok (g', None) /\ C16_contract ce_oV g' /\ C16_output ce_oV g' (fst (fst ce_resNV)) /\
  C16_leftmost g' /\ C16_output_leftmost (fst (fst ce_resNV)).
Proof.
  destruct (C16n_layout_output nat Nat.eqb Nat.eqb_eq (-1) ce_oV ce_fixed ce_sizes ce_edges ce_ids _ _ _
              (or_introl eq_refl) (or_intror (or_introl eq_refl)) eq_refl ce_layoutNV ce_pg ce_c ce_populate ce_connected ce_two)
    as (g' & H & _ & CT & CO & LM).
  exists g'. split; [exact H|]. split; [exact CT|]. split; [exact CO|].
  apply LM; [vm_compute; discriminate|exact ce_widths].
Qed.

Example ce_C16n_packright : exists g',
  layout_component_n (-1) ce_oP ce_c = Ok (g', None) /\ C16_contract ce_oP g' /\ C16_output ce_oP g' (fst (fst ce_resNP)) /\
  C16_leftmost g' /\ C16_output_leftmost (fst (fst ce_resNP)).
Proof.
  destruct (C16n_layout_output nat Nat.eqb Nat.eqb_eq (-1) ce_oP ce_fixed ce_sizes ce_edges ce_ids _ _ _
              (or_intror eq_refl) (or_intror (or_intror eq_refl)) eq_refl ce_layoutNP ce_pg ce_c ce_populate ce_connected ce_two)
    as (g' & H & _ & CT & CO & LM).
  exists g'. split; [exact H|]. split; [exact CT|]. split; [exact CO|].
  apply LM; [vm_compute; discriminate|exact ce_widths].
Qed.
Print Assumptions ce_C16n_valign.
Print Assumptions ce_C16n_packright.

(* what the model computes with OrderingNoop / VAlign: ids, x, w of the output nodes *)
Example ce_evalNV :
  map on_id (fst (fst ce_resNV)) = [0; 1; 2; 3; 4; 5; 6; 7; 8; 9] /\
  map (fun a => (Qred (on_x a), Qred (on_w a))) (fst (fst ce_resNV)) =
    [(9, 10); (0, 8); (13, 10); (7, 14); (23 # 2, 0); (10, 3); (9, 10); (28, 0); (33 # 2, 0); (18, 0)]%Q /\
  map (fun a => (Qred (on_x a), Qred (on_w a))) (fst (fst ce_resNP)) =
    [(18, 10); (0, 8); (13, 10); (14, 14); (23, 0); (20, 3); (18, 10); (28, 0); (28, 0); (28, 0)]%Q.
Proof. vm_compute. repeat split; reflexivity. Qed.
