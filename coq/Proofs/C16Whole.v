(* C16Whole.v — property C16 (VAlign / PackRight: exact spacing, band extent, common midpoints / right ends, leftmost
   node at x = 0) for the OUTPUT of the whole pipeline.

   [layout_component o g = Ok (g', x)] for [component_input g], [o_p4 o = VAlign] or [PackRight], a modelled router:
   the final state [g'] (after phase 5 and the post-processing) STILL contains the helper nodes of the long edges,
   both in its node list [g_N g'] and in its layer lists [g_L g'] ([merge_long_edges] re-creates the long edges and
   records their routes; it does not touch g_N / g_L: [E2EBackbone.sm_N], [sm_L]), with the x and the width phase 4
   gave them.  So all statements are about [g'] itself:
     (a) C16w_exact_spacing            consecutive members of a band are exactly NodeSpacing apart
     (b) C16w_extent                   extent of a band = sum of its widths + (len - 1) * NodeSpacing
         C16w_no_empty_band            there is a band, and no band is empty
     (c) C16w_valign_midpoints_coincide / C16w_packright_right_ends_coincide
     (d) C16w_leftmost_at_zero         every x >= 0, some node at x == 0
         C16w_layers_partition         the bands list every node of the node list, exactly once
     (e) C16w_layout                   the whole [layout] of a connected input with o_virtual = true: the output
                                       node list is (n, nX g' n + 0, nY g' n, nW g' n, nH g' n) for n in g_N g'
     and the same with totality ([C16w_component_total]) and for OrderingNoop ([C16n_*]). *)
From Autog Require Import Base Graph Populate Phase1 Phase2 Phase3 Phase4 Phase5 Layout Wmedian Pipeline.
From Autog.Proofs Require Import ListLemmas Consistent PopulateProofs SizesProofs ComponentsProofs SelfLoopProofs.
From Autog.Proofs Require CollectProofs.
From Autog.Proofs Require Import Positioners Routes BreakMerge SinkColoringProofs Shift E2EBridge E2EBackbone E2EOutput E2EFrontend.
From Autog.Proofs Require Import WholeBridge WholeCrossings WholeOverlap WholeLayout NSBridge.
From Autog.Proofs Require BKTotal3 TotalPipeline.
From Coq Require Import Permutation Lia Lqa.
Local Open Scope nat_scope.

(* ====================================================================================================== *)
(** * 0. Small list / arithmetic lemmas                                                                    *)
(* ====================================================================================================== *)

Lemma map_l_nodes_of_nth : forall (L L' : list layer),
  length L = length L' -> (forall k, l_nodes (nth k L layer0) = l_nodes (nth k L' layer0)) ->
  map l_nodes L = map l_nodes L'.
Proof.
  intros L L' HL HN. apply (nth_ext _ _ (l_nodes layer0) (l_nodes layer0)).
  - rewrite !map_length. exact HL.
  - intros n _. rewrite !map_nth. apply HN.
Qed.

Lemma in_map_l_nodes : forall (L L' : list layer) l,
  map l_nodes L = map l_nodes L' -> In l L -> exists l', In l' L' /\ l_nodes l' = l_nodes l.
Proof.
  intros L L' l HM Hl. apply (in_map l_nodes) in Hl. rewrite HM in Hl. apply in_map_iff in Hl.
  destruct Hl as (l' & E & Hl'). exists l'. split; assumption.
Qed.

Lemma sumW_ext : forall g g' ns, (forall n, nW g' n = nW g n) -> sumW g' ns = sumW g ns.
Proof. intros g g' ns H. induction ns as [|n t IH]; cbn [sumW]; [reflexivity|]. rewrite H, IH. reflexivity. Qed.

Lemma fold_left_ext_fn : forall (X Y : Type) (f f' : X -> Y -> X) l a,
  (forall a y, f a y = f' a y) -> fold_left f l a = fold_left f' l a.
Proof. intros X Y f f' l. induction l as [|y t IH]; intros a H; cbn [fold_left]; [reflexivity|]. rewrite H. apply IH, H. Qed.

(* valign_M only reads the node lists of the layers and the widths *)
Lemma valign_M_ext : forall s g g',
  map l_nodes (g_L g') = map l_nodes (g_L g) -> (forall n, nW g' n = nW g n) -> valign_M s g' = valign_M s g.
Proof.
  intros s g g' HM HW. unfold valign_M.
  rewrite <- (fold_left_map Q layer (list nat) (fun m ns => Qmax' m (layer_width g' s ns 0)) l_nodes (g_L g') 0%Q).
  rewrite <- (fold_left_map Q layer (list nat) (fun m ns => Qmax' m (layer_width g s ns 0)) l_nodes (g_L g) 0%Q).
  rewrite HM. apply fold_left_ext_fn. intros a ns. rewrite (layer_width_ext g g' s ns 0%Q HW). reflexivity.
Qed.

Lemma NoDup_app_intro : forall (X : Type) (l1 l2 : list X),
  NoDup l1 -> NoDup l2 -> (forall x, In x l1 -> ~ In x l2) -> NoDup (l1 ++ l2).
Proof.
  intros X l1 l2 H1 H2 HD. induction H1 as [|a t Ha H1 IH]; cbn [app]; [exact H2|].
  constructor.
  - intros Hin. apply in_app_or in Hin. destruct Hin as [Hin|Hin]; [exact (Ha Hin)|].
    apply (HD a); [left; reflexivity|exact Hin].
  - apply IH. intros y Hy. apply HD. right. exact Hy.
Qed.

(* exact spacing between consecutive members gives the extent of the band *)
Lemma extent_of_consecutive : forall g s (X : nat -> Q) rest a b,
  (forall i u v, nth_error (a :: rest) i = Some u -> nth_error (a :: rest) (S i) = Some v ->
                 (X v == X u + nW g u + s)%Q) ->
  last_opt (a :: rest) = Some b ->
  (X b + nW g b - X a == sumW g (a :: rest) + (inject_Z (Z.of_nat (length (a :: rest))) - 1) * s)%Q.
Proof.
  intros g s X rest. induction rest as [|c rest IH]; intros a b H Hb.
  - cbn in Hb. injection Hb as <-. cbn [sumW length]. change (inject_Z (Z.of_nat 1)) with 1%Q. ring.
  - assert (Hb' : last_opt (c :: rest) = Some b) by exact Hb.
    assert (H' : forall i u v, nth_error (c :: rest) i = Some u -> nth_error (c :: rest) (S i) = Some v ->
                               (X v == X u + nW g u + s)%Q).
    { intros i u v Hu Hv. apply (H (S i) u v); assumption. }
    pose proof (IH c b H' Hb') as E.
    pose proof (H 0%nat a c eq_refl eq_refl) as E0.
    change (length (a :: c :: rest)) with (S (length (c :: rest))).
    rewrite Nat2Z.inj_succ. unfold Z.succ. rewrite inject_Z_plus. change (inject_Z 1) with 1%Q.
    cbn [sumW] in *. set (N := inject_Z (Z.of_nat (length (c :: rest)))) in *.
    lra.
Qed.

(* ====================================================================================================== *)
(** * 1. The contract, as a predicate on the final state                                                   *)
(* ====================================================================================================== *)

Definition aligned_p4 (o : options) : Prop := o_p4 o = VAlign \/ o_p4 o = PackRight.

(* widths of the nodes of the input component *)
Definition widths_nonneg (g : graph) : Prop := forall n, In n (g_N g) -> (0 <= n_w (gnode g n))%Q.

Lemma sizes_widths_nonneg : forall g, sizes_nonneg g -> widths_nonneg g.
Proof. intros g H n Hn. apply (H n Hn). Qed.

(* sum of the node widths plus NodeSpacing between consecutive nodes *)
Definition band_extent (g' : graph) (s : Q) (ns : list nat) : Q :=
  (sumW g' ns + (inject_Z (Z.of_nat (length ns)) - 1) * s)%Q.

(* ====================================================================================================== *)
(** * 2. Through the backbone                                                                              *)
(* ====================================================================================================== *)

Section C16Backbone.
  Variables (o : options) (g g' : graph) (x : option Z) (g0 : graph) (del : list nat) (g1 g2 g3 : graph) (k : nat)
            (g3' : graph) (cx : Z) (g4 gm : graph) (routes : list (nat * list nat)) (g5 : graph).
  Hypothesis CI : component_input g.
  Hypothesis OK : options_ok o.
  Hypothesis BB : backbone o g g' x g0 del g1 g2 g3 k g3' cx g4 gm routes g5.

  Let S01 := bb_s01 _ _ _ _ _ _ _ _ _ _ _ _ _ _ _ _ BB.
  Let S23 := bb_s23 _ _ _ _ _ _ _ _ _ _ _ _ _ _ _ _ BB.
  Let S45 := bb_s45 _ _ _ _ _ _ _ _ _ _ _ _ _ _ _ _ BB.
  Let s := o_node_spacing o.

  (* x and width in the final state: x is the one phase 4 assigned, the width is the one phase 4 read *)
  Lemma cw_x : forall n, nX g' n = nX g4 n.
  Proof. intros n. apply (ov_geom_out _ _ _ _ _ _ _ _ _ _ _ _ _ _ _ _ CI BB n). Qed.

  Lemma cw_w : forall n, nW g' n = nW g3' n.
  Proof.
    intros n. destruct (ov_geom_out _ _ _ _ _ _ _ _ _ _ _ _ _ _ _ _ CI BB n) as (_ & _ & -> & _).
    apply (ov_w4 _ _ _ _ _ _ _ _ _ _ _ _ _ _ _ _ OK BB n).
  Qed.

  (* the node lists of the bands are those the ordering phase produced *)
  Lemma cw_map : map l_nodes (g_L g') = map l_nodes (g_L g3').
  Proof.
    destruct (bbx_phase4 _ _ _ _ _ _ _ _ _ _ _ _ _ _ _ _ BB OK) as (_ & _ & _ & _ & _ & F6 & F7).
    rewrite (bbx_out_L _ _ _ _ _ _ _ _ _ _ _ _ _ _ _ _ CI BB).
    apply map_l_nodes_of_nth; [exact F7|]. intros kk. apply (F6 kk).
  Qed.

  Lemma cw_layer : forall l, In l (g_L g') -> exists l3, In l3 (g_L g3') /\ l_nodes l3 = l_nodes l.
  Proof. intros l Hl. apply (in_map_l_nodes _ _ l cw_map Hl). Qed.

  Lemma cw_in_layers : forall n, in_layers g' n <-> in_layers g3' n.
  Proof. intros n. apply in_layers_transfer, cw_map. Qed.

  Lemma cw_wf3' : layers_wf g3'.
  Proof. apply (bbx_wf3' _ _ _ _ _ _ _ _ _ _ _ _ _ _ _ _ BB). Qed.

  (* what phase 4 computed *)
  Lemma cw_valign : o_p4 o = VAlign -> forall n, nX g' n = nX (exec_valign s g3') n.
  Proof.
    intros E n. rewrite cw_x.
    pose proof (bb_e4 _ _ _ _ _ _ _ _ _ _ _ _ _ _ _ _ BB) as P4. rewrite E in P4.
    rewrite phase4_valign in P4 by (apply (bbx_N3' _ _ _ _ _ _ _ _ _ _ _ _ _ _ _ _ BB)).
    injection P4 as E4. rewrite <- E4, assign_y_nX. reflexivity.
  Qed.

  Lemma cw_packright : o_p4 o = PackRight -> forall n, nX g' n = nX (exec_pack_right s g3') n.
  Proof.
    intros E n. rewrite cw_x.
    pose proof (bb_e4 _ _ _ _ _ _ _ _ _ _ _ _ _ _ _ _ BB) as P4. rewrite E in P4.
    rewrite phase4_packright in P4 by (apply (bbx_N3' _ _ _ _ _ _ _ _ _ _ _ _ _ _ _ _ BB)).
    injection P4 as E4. rewrite <- E4, assign_y_nX. reflexivity.
  Qed.

  (** (a) exact spacing *)
  Lemma cw_exact_spacing : aligned_p4 o -> forall l i a b, In l (g_L g') ->
    nth_error (l_nodes l) i = Some a -> nth_error (l_nodes l) (S i) = Some b ->
    (nX g' b == nX g' a + nW g' a + s)%Q.
  Proof.
    intros AL l i a b Hl Ha Hb. destruct (cw_layer l Hl) as (l3 & Hl3 & E3). rewrite <- E3 in Ha, Hb.
    rewrite (cw_w a). destruct AL as [E|E].
    - rewrite !(cw_valign E). apply (valign_consecutive s g3' l3 i a b cw_wf3' Hl3 Ha Hb).
    - rewrite !(cw_packright E). apply (packright_consecutive s g3' l3 i a b cw_wf3' Hl3 Ha Hb).
  Qed.

  (** (b) extent of a band *)
  Lemma cw_extent : aligned_p4 o -> forall l a rest b, In l (g_L g') ->
    l_nodes l = a :: rest -> last_opt (l_nodes l) = Some b ->
    (nX g' b + nW g' b - nX g' a == band_extent g' s (l_nodes l))%Q.
  Proof.
    intros AL l a rest b Hl En Hb. unfold band_extent. rewrite En in *.
    apply (extent_of_consecutive g' s (nX g') rest a b); [|exact Hb].
    intros i u v Hu Hv. rewrite <- En in Hu, Hv. apply (cw_exact_spacing AL l i u v Hl Hu Hv).
  Qed.

  (** there is a band and no band is empty *)
  Lemma cw_no_empty : g_L g' <> [] /\ (forall l, In l (g_L g') -> l_nodes l <> []).
  Proof.
    assert (TWO1 : 2 <= length (g_N g1)).
    { destruct (rev_star_frame _ _ (s1_rs _ _ _ _ S01)) as (-> & _). rewrite (s0_N _ _ _ _ S01). apply (ci_two _ CI). }
    pose proof (BKTotal3.phase2_no_empty_band o g g0 del g1 g2 S01 TWO1 (bb_e2 _ _ _ _ _ _ _ _ _ _ _ _ _ _ _ _ BB)) as NE2.
    pose proof (bbx_out_L _ _ _ _ _ _ _ _ _ _ _ _ _ _ _ _ CI BB) as OL.
    assert (LEN : length (g_L g') = length (g_L g2)).
    { rewrite OL, (s4_L _ _ _ _ _ _ _ _ _ S45). apply (s3_L _ _ _ _ S23). }
    split.
    - intros E. rewrite E in LEN. cbn [length] in LEN.
      pose proof (s2_two _ _ _ _ S23) as T2. destruct (g_N g2) as [|n t] eqn:EN; [cbn in T2; lia|].
      destruct (p2_layer_rng _ _ (s2_post _ _ _ _ S23) n) as [_ R]; [rewrite EN; left; reflexivity|]. lia.
    - intros l Hl. destruct (In_nth _ _ layer0 Hl) as (kk & Hkk & El). rewrite LEN in Hkk.
      pose proof (NE2 kk Hkk) as NE. destruct (l_nodes (glayer g2 kk)) as [|n t] eqn:E2; [congruence|].
      assert (H3 : In n (l_nodes (glayer g3 kk))).
      { apply (s3_layer_sub _ _ _ _ S23). rewrite E2. left. reflexivity. }
      apply (s4_inl _ _ _ _ _ _ _ _ _ S45) in H3. unfold glayer in H3 at 1. rewrite <- OL, El in H3.
      intros E. rewrite E in H3. destruct H3.
  Qed.

  (** (c) VAlign: the midpoints of all bands are at M / 2, M the widest band of the final state *)
  Lemma cw_valign_mid : o_p4 o = VAlign -> forall l a rest, In l (g_L g') -> l_nodes l = a :: rest ->
    (nX g' a + band_extent g' s (l_nodes l) / 2 == valign_M s g' / 2)%Q.
  Proof.
    intros E l a rest Hl En. destruct (cw_layer l Hl) as (l3 & Hl3 & E3).
    assert (En3 : l_nodes l3 = a :: rest) by (rewrite E3; exact En).
    pose proof (valign_centered s g3' l3 a rest cw_wf3' Hl3 En3) as C.
    assert (NE : l_nodes l3 <> []) by (rewrite En3; discriminate).
    pose proof (layer_width_sum g3' s (l_nodes l3) NE) as LW.
    rewrite (cw_valign E a), (valign_M_ext s g3' g' cw_map cw_w). unfold band_extent.
    rewrite (sumW_ext g3' g' (l_nodes l) cw_w), <- E3. rewrite <- LW. exact C.
  Qed.

  (** (c') PackRight: the right ends of all bands coincide *)
  Lemma cw_packright_right : o_p4 o = PackRight -> forall l b, In l (g_L g') -> last_opt (l_nodes l) = Some b ->
    (nX g' b + nW g' b == 0 - pr_lb s g3' - s)%Q.
  Proof.
    intros E l b Hl Hb. destruct (cw_layer l Hl) as (l3 & Hl3 & E3). rewrite <- E3 in Hb.
    pose proof (packright_right_end s g3' l3 b cw_wf3' Hl3 Hb) as R.
    rewrite (cw_packright E b), (cw_w b). lra.
  Qed.

  (** (d) the leftmost node is at x = 0 *)
  Lemma cw_w3 : widths_nonneg g -> forall n, In n (g_N g3) -> (0 <= n_w (gnode g3 n))%Q.
  Proof.
    intros SZ n Hn. pose proof (bbx_adjinv _ _ _ _ _ _ _ _ _ _ _ _ _ _ _ _ BB) as I.
    destruct (sum_lengths _ _ _ _ _ _ _ _ _ _ _ _ _ _ _ _ BB) as (NA2 & _ & _ & _ & N2 & _).
    pose proof (ai_N _ _ _ I n Hn) as Hlt.
    rewrite (s3_N _ _ _ _ S23) in Hn. apply in_app_or in Hn. destruct Hn as [Hn|Hn].
    - rewrite N2 in Hn. pose proof (c_N_lt _ (ci_cons _ CI) n Hn) as L.
      destruct (sum_node_old _ _ _ _ _ _ _ _ _ _ _ _ _ _ _ _ CI BB n L) as (_ & _ & -> & _). apply SZ, Hn.
    - apply BreakMerge.in_iota in Hn. destruct (ai_newN _ _ _ I n (proj1 Hn) Hlt) as [-> _]. apply Qle_refl.
  Qed.

  Lemma cw_sizes_ok : widths_nonneg g -> (0 <= s)%Q -> sizes_ok s g3'.
  Proof.
    intros SZ SP. split; [exact SP|]. intros n Hn. pose proof (s4_oc _ _ _ _ _ _ _ _ _ S45) as OC.
    destruct (order_contract_facts g3 g3' OC) as (_ & _ & _ & OIN & _).
    apply OIN in Hn. unfold in_layers in Hn. apply in_flat_map in Hn. destruct Hn as (l & Hl & Hn).
    destruct (In_nth _ _ layer0 Hl) as (j & Hj & <-).
    pose proof (s3_inl _ _ _ _ S23 j n Hn) as HnN.
    unfold nW. destruct (E2EBridge.set_pos_fields _ _ (E2EBridge.oc_nodes _ _ OC n)) as (_ & _ & _ & _ & _ & _ & -> & _).
    apply (cw_w3 SZ), HnN.
  Qed.

  Lemma cw_geom_ok_weak : widths_nonneg g -> (0 <= s)%Q -> geom_ok_weak s g3'.
  Proof.
    intros SZ SP. split; [apply (cw_sizes_ok SZ SP)|].
    destruct cw_no_empty as [NE ALL]. destruct (g_L g') as [|l t] eqn:EL; [congruence|].
    assert (Hl : In l (g_L g')) by (rewrite EL; left; reflexivity).
    destruct (cw_layer l Hl) as (l3 & Hl3 & E3). exists l3. split; [exact Hl3|]. rewrite E3. apply ALL.
    rewrite <- EL. exact Hl.
  Qed.

  Lemma cw_leftmost : aligned_p4 o -> widths_nonneg g -> (0 <= s)%Q ->
    (forall n, in_layers g' n -> (0 <= nX g' n)%Q) /\ (exists n, in_layers g' n /\ (nX g' n == 0)%Q).
  Proof.
    intros AL SZ SP. pose proof (cw_geom_ok_weak SZ SP) as GW. destruct AL as [E|E].
    - destruct (valign_leftmost_zero_gen s g3' cw_wf3' GW) as [A (n & Hn & Z)]. split.
      + intros m Hm. rewrite (cw_valign E m). apply A, cw_in_layers, Hm.
      + exists n. split; [apply cw_in_layers, Hn|]. rewrite (cw_valign E n). exact Z.
    - destruct (packright_leftmost_zero_gen s g3' cw_wf3' GW) as [A (n & Hn & Z)]. split.
      + intros m Hm. rewrite (cw_packright E m). apply A, cw_in_layers, Hm.
      + exists n. split; [apply cw_in_layers, Hn|]. rewrite (cw_packright E n). exact Z.
  Qed.

  (** the bands list the nodes of the node list (helper nodes included), each exactly once *)
  Lemma cw_partition :
    layers_wf g' /\ g_N g' = g_N g ++ iota (length (g_na g)) k /\ NoDup (g_N g') /\
    (forall n, In n (g_N g') <-> in_layers g' n).
  Proof.
    destruct (E2_of_backbone _ _ _ _ _ _ _ _ _ _ _ _ _ _ _ _ CI BB) as (WF' & PL' & BD & _).
    destruct (out_frame _ _ _ _ _ _ _ _ _ _ _ _ _ _ _ _ CI BB) as (_ & ON & _).
    destruct (sum_lengths _ _ _ _ _ _ _ _ _ _ _ _ _ _ _ _ BB) as (_ & _ & _ & _ & _ & _ & N5 & _).
    assert (EN : g_N g' = g_N g ++ iota (length (g_na g)) k).
    { rewrite ON, <- (sm_N _ _ _ _ _ _ _ _ _ S45), <- (s5_N _ _ _ _ _ _ _ _ _ S45). exact N5. }
    split; [exact WF'|]. split; [exact EN|]. split.
    - rewrite EN. apply NoDup_app_intro; [apply (c_nodupN _ (ci_cons _ CI))|apply BreakMerge.NoDup_iota|].
      intros n Hn Hi. apply BreakMerge.in_iota in Hi. pose proof (c_N_lt _ (ci_cons _ CI) n Hn). lia.
    - intros n. split.
      + intros Hn. destruct (PL' n Hn) as [_ P1]. set (kk := Z.to_nat (n_layer (gnode g' n))) in *.
        apply (in_layers_intro g' (glayer g' kk) n); [|exact P1].
        destruct (Nat.lt_ge_cases kk (length (g_L g'))) as [L|L]; [apply nth_In, L|].
        unfold glayer in P1. rewrite nth_overflow in P1; [destruct P1|exact L].
      + intros Hn. unfold in_layers in Hn. apply in_flat_map in Hn. destruct Hn as (l & Hl & Hn).
        destruct (In_nth _ _ layer0 Hl) as (kk & Hkk & <-). apply (BD kk n Hn).
  Qed.
End C16Backbone.

(* ====================================================================================================== *)
(** * 3. One component through [layout_component]                                                          *)
(* ====================================================================================================== *)

Lemma aligned_options_ok : forall o, aligned_p4 o -> modelled_p5 (o_p5 o) -> options_ok o.
Proof. intros o AL O5. split; [|exact O5]. unfold modelled_p4. destruct AL as [E|E]; rewrite E; auto. Qed.

Lemma c16_backbone : forall o g g' x,
  component_input g -> aligned_p4 o -> modelled_p5 (o_p5 o) -> layout_component o g = Ok (g', x) ->
  exists g0 del g1 g2 g3 k g3' cx g4 gm routes g5, backbone o g g' x g0 del g1 g2 g3 k g3' cx g4 gm routes g5.
Proof.
  intros o g g' x CI AL O5 H.
  apply (pipeline_backbone_F o g g' x CI (aligned_options_ok o AL O5) (ns_premise_holds o g CI) H).
Qed.

Local Open Scope Q_scope.

(** (a) consecutive members of a band of the output are exactly NodeSpacing apart *)
Theorem C16w_exact_spacing : forall o g g' x,
  component_input g -> aligned_p4 o -> modelled_p5 (o_p5 o) -> layout_component o g = Ok (g', x) ->
  forall l i a b, In l (g_L g') ->
    nth_error (l_nodes l) i = Some a -> nth_error (l_nodes l) (S i) = Some b ->
    nX g' b == nX g' a + nW g' a + o_node_spacing o.
Proof.
  intros o g g' x CI AL O5 H.
  destruct (c16_backbone o g g' x CI AL O5 H) as (g0 & del & g1 & g2 & g3 & k & g3' & cx & g4 & gm & routes & g5 & BB).
  exact (cw_exact_spacing _ _ _ _ _ _ _ _ _ _ _ _ _ _ _ _ CI (aligned_options_ok o AL O5) BB AL).
Qed.
Print Assumptions C16w_exact_spacing.

(** (b) right edge of the last node - left edge of the first = sum of the widths + (len - 1) * NodeSpacing *)
Theorem C16w_extent : forall o g g' x,
  component_input g -> aligned_p4 o -> modelled_p5 (o_p5 o) -> layout_component o g = Ok (g', x) ->
  forall l a rest b, In l (g_L g') -> l_nodes l = a :: rest -> last_opt (l_nodes l) = Some b ->
    nX g' b + nW g' b - nX g' a ==
    sumW g' (l_nodes l) + (inject_Z (Z.of_nat (length (l_nodes l))) - 1) * o_node_spacing o.
Proof.
  intros o g g' x CI AL O5 H.
  destruct (c16_backbone o g g' x CI AL O5 H) as (g0 & del & g1 & g2 & g3 & k & g3' & cx & g4 & gm & routes & g5 & BB).
  exact (cw_extent _ _ _ _ _ _ _ _ _ _ _ _ _ _ _ _ CI (aligned_options_ok o AL O5) BB AL).
Qed.
Print Assumptions C16w_extent.

(** the output has at least one band and no band is empty (so (b), (c) speak about every band) *)
Theorem C16w_no_empty_band : forall o g g' x,
  component_input g -> aligned_p4 o -> modelled_p5 (o_p5 o) -> layout_component o g = Ok (g', x) ->
  g_L g' <> [] /\ (forall l, In l (g_L g') -> l_nodes l <> []).
Proof.
  intros o g g' x CI AL O5 H.
  destruct (c16_backbone o g g' x CI AL O5 H) as (g0 & del & g1 & g2 & g3 & k & g3' & cx & g4 & gm & routes & g5 & BB).
  exact (cw_no_empty _ _ _ _ _ _ _ _ _ _ _ _ _ _ _ _ CI BB).
Qed.
Print Assumptions C16w_no_empty_band.

(** (c) VAlign: the horizontal midpoints of all bands coincide, at M / 2 where M = [valign_M s g'] is the
    extent of the widest band of the output *)
Theorem C16w_valign_midpoints : forall o g g' x,
  component_input g -> o_p4 o = VAlign -> modelled_p5 (o_p5 o) -> layout_component o g = Ok (g', x) ->
  forall l a rest, In l (g_L g') -> l_nodes l = a :: rest ->
    nX g' a + (sumW g' (l_nodes l) + (inject_Z (Z.of_nat (length (l_nodes l))) - 1) * o_node_spacing o) / 2 ==
    valign_M (o_node_spacing o) g' / 2.
Proof.
  intros o g g' x CI E O5 H. assert (AL : aligned_p4 o) by (left; exact E).
  destruct (c16_backbone o g g' x CI AL O5 H) as (g0 & del & g1 & g2 & g3 & k & g3' & cx & g4 & gm & routes & g5 & BB).
  exact (cw_valign_mid _ _ _ _ _ _ _ _ _ _ _ _ _ _ _ _ CI (aligned_options_ok o AL O5) BB E).
Qed.
Print Assumptions C16w_valign_midpoints.

Theorem C16w_valign_midpoints_coincide : forall o g g' x,
  component_input g -> o_p4 o = VAlign -> modelled_p5 (o_p5 o) -> layout_component o g = Ok (g', x) ->
  exists M, forall l a rest, In l (g_L g') -> l_nodes l = a :: rest ->
    nX g' a + (sumW g' (l_nodes l) + (inject_Z (Z.of_nat (length (l_nodes l))) - 1) * o_node_spacing o) / 2 == M / 2.
Proof.
  intros o g g' x CI E O5 H. exists (valign_M (o_node_spacing o) g').
  exact (C16w_valign_midpoints o g g' x CI E O5 H).
Qed.
Print Assumptions C16w_valign_midpoints_coincide.

(** (c') PackRight: the right ends of all bands coincide (the phase-level theorem has R + NodeSpacing) *)
Theorem C16w_packright_right_ends_coincide : forall o g g' x,
  component_input g -> o_p4 o = PackRight -> modelled_p5 (o_p5 o) -> layout_component o g = Ok (g', x) ->
  exists R, forall l b, In l (g_L g') -> last_opt (l_nodes l) = Some b -> nX g' b + nW g' b == R.
Proof.
  intros o g g' x CI E O5 H. assert (AL : aligned_p4 o) by (right; exact E).
  destruct (c16_backbone o g g' x CI AL O5 H) as (g0 & del & g1 & g2 & g3 & k & g3' & cx & g4 & gm & routes & g5 & BB).
  exists (0 - pr_lb (o_node_spacing o) g3' - o_node_spacing o).
  exact (cw_packright_right _ _ _ _ _ _ _ _ _ _ _ _ _ _ _ _ CI (aligned_options_ok o AL O5) BB E).
Qed.
Print Assumptions C16w_packright_right_ends_coincide.

(** (d) every node of the bands has x >= 0 and some node sits at x == 0 *)
Theorem C16w_leftmost_at_zero : forall o g g' x,
  component_input g -> aligned_p4 o -> modelled_p5 (o_p5 o) -> widths_nonneg g -> 0 <= o_node_spacing o ->
  layout_component o g = Ok (g', x) ->
  (forall n, in_layers g' n -> 0 <= nX g' n) /\ (exists n, in_layers g' n /\ nX g' n == 0).
Proof.
  intros o g g' x CI AL O5 SZ SP H.
  destruct (c16_backbone o g g' x CI AL O5 H) as (g0 & del & g1 & g2 & g3 & k & g3' & cx & g4 & gm & routes & g5 & BB).
  exact (cw_leftmost _ _ _ _ _ _ _ _ _ _ _ _ _ _ _ _ CI (aligned_options_ok o AL O5) BB AL SZ SP).
Qed.
Print Assumptions C16w_leftmost_at_zero.

(** what the final state contains: the node list is the input node list followed by the [k] helper nodes of the long
    edges; the bands list exactly the nodes of the node list (helper nodes included), each once *)
Theorem C16w_layers_partition : forall o g g' x,
  component_input g -> aligned_p4 o -> modelled_p5 (o_p5 o) -> layout_component o g = Ok (g', x) ->
  layers_wf g' /\ (exists k, g_N g' = g_N g ++ iota (length (g_na g)) k)%nat /\ NoDup (g_N g') /\
  (forall n, In n (g_N g') <-> in_layers g' n).
Proof.
  intros o g g' x CI AL O5 H.
  destruct (c16_backbone o g g' x CI AL O5 H) as (g0 & del & g1 & g2 & g3 & k & g3' & cx & g4 & gm & routes & g5 & BB).
  destruct (cw_partition _ _ _ _ _ _ _ _ _ _ _ _ _ _ _ _ CI BB) as (A & B & C & D).
  split; [exact A|]. split; [exists k; exact B|]. split; assumption.
Qed.
Print Assumptions C16w_layers_partition.

(* ====================================================================================================== *)
(** * 4. The contract in one predicate; with totality                                                      *)
(* ====================================================================================================== *)

(* everything C16 says that needs no sign hypothesis, about the final state [g'] of one component *)
Definition C16_contract (o : options) (g' : graph) : Prop :=
  let s := o_node_spacing o in
  (* the bands list exactly the nodes of the node list (helper nodes included), each once; no band is empty *)
  (layers_wf g' /\ NoDup (g_N g') /\ (forall n, In n (g_N g') <-> in_layers g' n)) /\
  (g_L g' <> [] /\ (forall l, In l (g_L g') -> l_nodes l <> [])) /\
  (* exact spacing *)
  (forall l i a b, In l (g_L g') -> nth_error (l_nodes l) i = Some a -> nth_error (l_nodes l) (S i) = Some b ->
     nX g' b == nX g' a + nW g' a + s) /\
  (* extent *)
  (forall l a rest b, In l (g_L g') -> l_nodes l = a :: rest -> last_opt (l_nodes l) = Some b ->
     nX g' b + nW g' b - nX g' a == band_extent g' s (l_nodes l)) /\
  (* VAlign: common midpoint / PackRight: common right end *)
  (o_p4 o = VAlign -> exists M, forall l a rest, In l (g_L g') -> l_nodes l = a :: rest ->
     nX g' a + band_extent g' s (l_nodes l) / 2 == M / 2) /\
  (o_p4 o = PackRight -> exists R, forall l b, In l (g_L g') -> last_opt (l_nodes l) = Some b ->
     nX g' b + nW g' b == R).

(* ... and the part that needs NodeSpacing >= 0 and widths >= 0 *)
Definition C16_leftmost (g' : graph) : Prop :=
  (forall n, in_layers g' n -> 0 <= nX g' n) /\ (exists n, in_layers g' n /\ nX g' n == 0).

Theorem C16w_component : forall o g g' x,
  component_input g -> aligned_p4 o -> modelled_p5 (o_p5 o) -> layout_component o g = Ok (g', x) ->
  C16_contract o g' /\ (widths_nonneg g -> 0 <= o_node_spacing o -> C16_leftmost g').
Proof.
  intros o g g' x CI AL O5 H. split.
  - destruct (C16w_layers_partition o g g' x CI AL O5 H) as (A & _ & C & D).
    split; [split; [exact A|split; [exact C|exact D]]|].
    split; [exact (C16w_no_empty_band o g g' x CI AL O5 H)|].
    split; [exact (C16w_exact_spacing o g g' x CI AL O5 H)|].
    split; [exact (C16w_extent o g g' x CI AL O5 H)|].
    split; intros E.
    + exact (C16w_valign_midpoints_coincide o g g' x CI E O5 H).
    + exact (C16w_packright_right_ends_coincide o g g' x CI E O5 H).
  - intros SZ SP. exact (C16w_leftmost_at_zero o g g' x CI AL O5 SZ SP H).
Qed.
Print Assumptions C16w_component.

(* with totality: for a component accepted by the layering phase ([TotalPipeline.p2_ready]: nothing for LongestPath;
   connected and within the pivot budget for NetworkSimplex) the pipeline returns, and its result satisfies C16 *)
Theorem C16w_component_total : forall o g,
  component_input g -> aligned_p4 o -> modelled_p5 (o_p5 o) -> TotalPipeline.p2_ready o g ->
  exists g' x, layout_component o g = Ok (g', x) /\
    C16_contract o g' /\ (widths_nonneg g -> 0 <= o_node_spacing o -> C16_leftmost g').
Proof.
  intros o g CI AL O5 RD.
  destruct (TotalPipeline.layout_component_total o g CI (aligned_options_ok o AL O5) RD) as (g' & x & H).
  exists g', x. split; [exact H|]. exact (C16w_component o g g' x CI AL O5 H).
Qed.
Print Assumptions C16w_component_total.

(* ====================================================================================================== *)
(** * 5. The whole [layout] of a connected input, helper nodes made visible                                *)
(* ====================================================================================================== *)

Section C16Layout.
  Variable A : Type.
  Variable eqA : A -> A -> bool.
  Hypothesis OKA : forall x y, eqA x y = true <-> x = y.

  (* the configured widths are not negative *)
  Definition widths_cfg_nonneg (fixed : option (Q * Q)) (sizes : option (list (A * (Q * Q)))) (ids : list A) : Prop :=
    forall x, In x ids -> 0 <= fst (size_of A eqA fixed sizes x (0, 0)).

  Lemma sizes_cfg_widths : forall fixed sizes ids,
    sizes_cfg_nonneg A eqA fixed sizes ids -> widths_cfg_nonneg fixed sizes ids.
  Proof. intros fixed sizes ids H x Hx. apply (H x Hx). Qed.

  (* the output record of node n of the final state g' (component shift 0) *)
  Definition out_node (g' : graph) (n : nat) : onode := mkONode n (nX g' n + 0) (nY g' n) (nW g' n) (nH g' n).

  Theorem C16w_layout : forall o fixed sizes es ids ns oes xs,
    aligned_p4 o -> modelled_p5 (o_p5 o) -> o_virtual o = true ->
    layout A eqA o fixed sizes es = Ok (ids, (ns, oes, xs)) ->
    forall g c, populate A eqA es = Ok (ids, g) ->
      components (apply_sizes A eqA fixed sizes ids g) = [c] -> (2 <= length (g_N c))%nat ->
      exists g' x,
        layout_component o c = Ok (g', x) /\
        ns = map (out_node g') (g_N g') /\
        C16_contract o g' /\
        (0 <= o_node_spacing o -> widths_cfg_nonneg fixed sizes ids -> C16_leftmost g').
  Proof.
    intros o fixed sizes es ids ns oes xs AL O5 OV LAY g c POP CS TWO.
    destruct (layout_inv A eqA o fixed sizes es ids ns oes xs LAY) as (g_ & POP_ & _ & LC).
    assert (g_ = g) by congruence. subst g_. rewrite CS in LC. cbn [layout_components] in LC.
    destruct (layout_component o c) as [[g' x]|] eqn:H; cbn [bind] in LC; [|discriminate].
    injection LC as E1 _ _. exists g', x. split; [reflexivity|].
    assert (Hc : In c (components (apply_sizes A eqA fixed sizes ids g))) by (rewrite CS; left; reflexivity).
    pose proof (frontend_component_input A eqA OKA es ids g fixed sizes POP c Hc TWO) as CI.
    destruct (C16w_component o c g' x CI AL O5 H) as [CT LM].
    split; [|split; [exact CT|]].
    - rewrite <- E1, app_nil_r, OV, CollectProofs.collect_nodes_map_filter.
      rewrite filter_true by (intros n _; apply orb_true_r). reflexivity.
    - intros SP SZ. apply LM; [|exact SP].
      destruct (front_components A eqA OKA es ids g fixed sizes POP c Hc) as (_ & NA & _).
      destruct (front_g1 A eqA OKA es ids g fixed sizes POP) as (C1 & _ & N1 & _ & _ & _ & SZ1).
      intros n Hn. destruct (components_partition _ C1) as (_ & P2 & _). cbv zeta in P2.
      rewrite (P2 c Hc) in Hn. apply filter_In in Hn. destruct Hn as [Hn _]. rewrite N1 in Hn.
      apply ListLemmas.in_iota in Hn.
      destruct (nth_error ids n) as [y|] eqn:Ey; [|apply nth_error_None in Ey; lia].
      pose proof (SZ1 n y Ey) as E. unfold gnode. rewrite NA. fold (gnode (apply_sizes A eqA fixed sizes ids g) n).
      pose proof (SZ y (nth_error_In _ _ Ey)) as W. rewrite <- E in W. exact W.
  Qed.
End C16Layout.
Print Assumptions C16w_layout.

(** the same, read on the output records themselves *)
Definition C16_output (o : options) (g' : graph) (ns : list onode) : Prop :=
  let s := o_node_spacing o in
  (* one record per node of the final state (helper nodes included), carrying its x, y, w, h *)
  map on_id ns = g_N g' /\
  (forall a, In a ns -> on_x a == nX g' (on_id a) /\ on_y a = nY g' (on_id a) /\
                        on_w a = nW g' (on_id a) /\ on_h a = nH g' (on_id a)) /\
  (* consecutive members of a band *)
  (forall l i a b, In l (g_L g') -> In a ns -> In b ns ->
     nth_error (l_nodes l) i = Some (on_id a) -> nth_error (l_nodes l) (S i) = Some (on_id b) ->
     on_x b == on_x a + on_w a + s) /\
  (* VAlign: (left edge of the first + right edge of the last) / 2 is the same for all bands *)
  (o_p4 o = VAlign -> exists M, forall l a b rest, In l (g_L g') -> In a ns -> In b ns ->
     l_nodes l = on_id a :: rest -> last_opt (l_nodes l) = Some (on_id b) ->
     (on_x a + (on_x b + on_w b)) / 2 == M / 2) /\
  (* PackRight: the right edge of the last is the same for all bands *)
  (o_p4 o = PackRight -> exists R, forall l b, In l (g_L g') -> In b ns ->
     last_opt (l_nodes l) = Some (on_id b) -> on_x b + on_w b == R).

Definition C16_output_leftmost (ns : list onode) : Prop :=
  (forall a, In a ns -> 0 <= on_x a) /\ (exists a, In a ns /\ on_x a == 0).

Lemma in_out_nodes : forall g' a, In a (map (out_node g') (g_N g')) ->
  In (on_id a) (g_N g') /\ a = out_node g' (on_id a).
Proof.
  intros g' a Ha. apply in_map_iff in Ha. destruct Ha as (n & <- & Hn). cbn [out_node on_id]. split; [exact Hn|reflexivity].
Qed.

Theorem C16_output_of_contract : forall o g' ns,
  ns = map (out_node g') (g_N g') -> C16_contract o g' -> C16_output o g' ns.
Proof.
  intros o g' ns -> (_ & _ & SPC & EXT & VA & PR). cbv zeta in *.
  assert (X : forall a, In a (map (out_node g') (g_N g')) ->
            on_x a == nX g' (on_id a) /\ on_y a = nY g' (on_id a) /\ on_w a = nW g' (on_id a) /\ on_h a = nH g' (on_id a)).
  { intros a Ha. apply in_map_iff in Ha. destruct Ha as (n & <- & _). cbn [out_node on_id on_x on_y on_w on_h].
    split; [ring|]. repeat split; reflexivity. }
  split; [rewrite map_map; cbn [out_node on_id]; apply map_id|]. split; [exact X|]. split; [|split].
  - intros l i a b Hl Ha Hb Na Nb. destruct (X a Ha) as (-> & _ & -> & _). destruct (X b Hb) as (-> & _).
    apply (SPC l i _ _ Hl Na Nb).
  - intros E. destruct (VA E) as [M HM]. exists M. intros l a b rest Hl Ha Hb En Hlast.
    destruct (X a Ha) as (-> & _). destruct (X b Hb) as (-> & _ & -> & _).
    pose proof (HM l _ rest Hl En) as C. pose proof (EXT l _ rest _ Hl En Hlast) as D. rewrite <- C, <- D. field.
  - intros E. destruct (PR E) as [R HR]. exists R. intros l b Hl Hb Hlast.
    destruct (X b Hb) as (-> & _ & -> & _). apply (HR l _ Hl Hlast).
Qed.

Theorem C16_output_leftmost_of : forall o g' ns,
  ns = map (out_node g') (g_N g') -> C16_contract o g' -> C16_leftmost g' -> C16_output_leftmost ns.
Proof.
  intros o g' ns -> ((_ & _ & IFF) & _) [NN (n & Hn & Z)]. split.
  - intros a Ha. destruct (in_out_nodes g' a Ha) as [Hi E]. rewrite E. cbn [out_node on_x].
    pose proof (NN _ (proj1 (IFF _) Hi)). lra.
  - exists (out_node g' n). split; [apply in_map, IFF, Hn|]. cbn [out_node on_x]. lra.
Qed.

(* (e) in one statement: the output node list of a connected input laid out with VAlign / PackRight *)
Theorem C16w_layout_output : forall (A : Type) (eqA : A -> A -> bool), (forall x y, eqA x y = true <-> x = y) ->
  forall o fixed sizes es ids ns oes xs,
    aligned_p4 o -> modelled_p5 (o_p5 o) -> o_virtual o = true ->
    layout A eqA o fixed sizes es = Ok (ids, (ns, oes, xs)) ->
    forall g c, populate A eqA es = Ok (ids, g) ->
      components (apply_sizes A eqA fixed sizes ids g) = [c] -> (2 <= length (g_N c))%nat ->
      exists g' x,
        layout_component o c = Ok (g', x) /\ C16_contract o g' /\ C16_output o g' ns /\
        (0 <= o_node_spacing o -> widths_cfg_nonneg A eqA fixed sizes ids -> C16_leftmost g' /\ C16_output_leftmost ns).
Proof.
  intros A eqA OKA o fixed sizes es ids ns oes xs AL O5 OV LAY g c POP CS TWO.
  destruct (C16w_layout A eqA OKA o fixed sizes es ids ns oes xs AL O5 OV LAY g c POP CS TWO) as (g' & x & H & E & CT & LM).
  exists g', x. split; [exact H|]. split; [exact CT|]. split; [exact (C16_output_of_contract o g' ns E CT)|].
  intros SP SZ. pose proof (LM SP SZ) as L. split; [exact L|]. exact (C16_output_leftmost_of o g' ns E CT L).
Qed.
Print Assumptions C16w_layout_output.

(* ====================================================================================================== *)
(** * 6. Examples (non-vacuity): a connected input with a long edge, a self loop and heterogeneous widths  *)
(* ====================================================================================================== *)

(* a diamond 10 -> {20, 30} -> 40 with the long edge 10 -> 40 (one helper node), the tail 40 -> 50 -> 60 -> 70 next to the
   long edge 40 -> 70 (two helper nodes) and a self loop on 40; widths 10 (default), 8, 14, 3, 0 *)
Local Close Scope Q_scope.

Definition ce_edges : list (list nat) :=
  [[10;20];[10;30];[20;40];[30;40];[10;40];[40;40];[40;50];[50;60];[60;70];[40;70]].
Definition ce_fixed : option (Q * Q) := Some (10, 6)%Q.
Definition ce_sizes : option (list (nat * (Q * Q))) := Some [(20, (8, 4)%Q); (40, (14, 5)%Q); (60, (3, 3)%Q); (50, (0, 2)%Q)].
Definition ce_ids : list nat := [10; 20; 30; 40; 50; 60; 70].

(* NodeSpacing 5, LayerSpacing 7, helper nodes visible *)
Definition ce_oV : options := mkOptions Greedy LongestPath VAlign Polyline 1 0 5 7 true.
Definition ce_oP : options := mkOptions DepthFirst NetworkSimplex PackRight Ortho 1 0 5 7 true.

Definition ce_pg : graph := Eval vm_compute in
  match populate nat Nat.eqb ce_edges with Ok (_, g) => g | Err _ => empty_graph end.
Definition ce_c : graph := Eval vm_compute in
  hd empty_graph (components (apply_sizes nat Nat.eqb ce_fixed ce_sizes ce_ids ce_pg)).

Example ce_populate : populate nat Nat.eqb ce_edges = Ok (ce_ids, ce_pg).
Proof. vm_compute. reflexivity. Qed.
Example ce_connected : components (apply_sizes nat Nat.eqb ce_fixed ce_sizes ce_ids ce_pg) = [ce_c].
Proof. vm_compute. reflexivity. Qed.
Example ce_two : (2 <= length (g_N ce_c))%nat.
Proof. vm_compute. lia. Qed.

Definition ce_resV := Eval vm_compute in
  match layout nat Nat.eqb ce_oV ce_fixed ce_sizes ce_edges with Ok (_, r) => r | Err _ => ([], [], []) end.
Definition ce_resP := Eval vm_compute in
  match layout nat Nat.eqb ce_oP ce_fixed ce_sizes ce_edges with Ok (_, r) => r | Err _ => ([], [], []) end.

Example ce_layoutV : layout nat Nat.eqb ce_oV ce_fixed ce_sizes ce_edges =
                     Ok (ce_ids, (fst (fst ce_resV), snd (fst ce_resV), snd ce_resV)).
Proof. vm_compute. reflexivity. Qed.
Example ce_layoutP : layout nat Nat.eqb ce_oP ce_fixed ce_sizes ce_edges =
                     Ok (ce_ids, (fst (fst ce_resP), snd (fst ce_resP), snd ce_resP)).
Proof. vm_compute. reflexivity. Qed.

Example ce_widths : widths_cfg_nonneg nat Nat.eqb ce_fixed ce_sizes ce_ids.
Proof.
  apply sizes_cfg_widths, sizes_cfg_nonneg_intro.
  - intros w h E. injection E as <- <-. split; discriminate.
  - intros m y w h E H. injection E as <-.
    repeat (destruct H as [H|H]; [injection H as _ <- <-; split; discriminate|]). destruct H.
Qed.

(* the theorem applies: VAlign *)
Example ce_C16_valign : exists g' x,
  layout_component ce_oV ce_c = Ok (g', x) /\ C16_contract ce_oV g' /\ C16_output ce_oV g' (fst (fst ce_resV)) /\
  C16_leftmost g' /\ C16_output_leftmost (fst (fst ce_resV)).
Proof.
  destruct (C16w_layout_output nat Nat.eqb Nat.eqb_eq ce_oV ce_fixed ce_sizes ce_edges ce_ids _ _ _
              (or_introl eq_refl) (or_intror (or_introl eq_refl)) eq_refl ce_layoutV ce_pg ce_c ce_populate ce_connected ce_two)
    as (g' & x & H & CT & CO & LM).
  exists g', x. split; [exact H|]. split; [exact CT|]. split; [exact CO|].
  apply LM; [vm_compute; discriminate|exact ce_widths].
Qed.

(* ... and PackRight (with DepthFirst / NetworkSimplex / Ortho) *)
Example ce_C16_packright : exists g' x,
  layout_component ce_oP ce_c = Ok (g', x) /\ C16_contract ce_oP g' /\ C16_output ce_oP g' (fst (fst ce_resP)) /\
  C16_leftmost g' /\ C16_output_leftmost (fst (fst ce_resP)).
Proof.
  destruct (C16w_layout_output nat Nat.eqb Nat.eqb_eq ce_oP ce_fixed ce_sizes ce_edges ce_ids _ _ _
              (or_intror eq_refl) (or_intror (or_intror eq_refl)) eq_refl ce_layoutP ce_pg ce_c ce_populate ce_connected ce_two)
    as (g' & x & H & CT & CO & LM).
  exists g', x. split; [exact H|]. split; [exact CT|]. split; [exact CO|].
  apply LM; [vm_compute; discriminate|exact ce_widths].
Qed.
Print Assumptions ce_C16_valign.
Print Assumptions ce_C16_packright.

(* what the model computes: the final states, their bands (helper nodes 7, 8, 9 included) and (id, x, w) of the output *)
Definition ce_outV : graph := Eval vm_compute in
  match layout_component ce_oV ce_c with Ok (g, _) => g | Err _ => empty_graph end.
Definition ce_outP : graph := Eval vm_compute in
  match layout_component ce_oP ce_c with Ok (g, _) => g | Err _ => empty_graph end.

Example ce_evalV :
  g_N ce_outV = [0; 1; 2; 3; 4; 5; 6; 7; 8; 9] /\
  map l_nodes (g_L ce_outV) = [[0]; [1; 2; 7]; [3]; [4; 8]; [5; 9]; [6]] /\
  map on_id (fst (fst ce_resV)) = [0; 1; 2; 3; 4; 5; 6; 7; 8; 9] /\
  map (fun a => (Qred (on_x a), Qred (on_w a))) (fst (fst ce_resV)) =
    [(9, 10); (0, 8); (13, 10); (7, 14); (23 # 2, 0); (10, 3); (9, 10); (28, 0); (33 # 2, 0); (18, 0)]%Q /\
  Qred (valign_M 5 ce_outV) = 28%Q.
Proof. vm_compute. repeat split; reflexivity. Qed.

Example ce_evalP :
  g_N ce_outP = [0; 1; 2; 3; 4; 5; 6; 7; 8; 9] /\
  map l_nodes (g_L ce_outP) = [[0]; [1; 2; 7]; [3]; [4; 8]; [5; 9]; [6]] /\
  map on_id (fst (fst ce_resP)) = [0; 1; 2; 3; 4; 5; 6; 7; 8; 9] /\
  map (fun a => (Qred (on_x a), Qred (on_w a))) (fst (fst ce_resP)) =
    [(18, 10); (0, 8); (13, 10); (14, 14); (23, 0); (20, 3); (18, 10); (28, 0); (28, 0); (28, 0)]%Q.
Proof. vm_compute. repeat split; reflexivity. Qed.

(* the component-level hypotheses on the same instance *)
Example ce_component_input : component_input ce_c.
Proof.
  apply (frontend_component_input nat Nat.eqb Nat.eqb_eq ce_edges ce_ids ce_pg ce_fixed ce_sizes ce_populate ce_c);
    [rewrite ce_connected; left; reflexivity|exact ce_two].
Qed.

Example ce_widths_nonneg : widths_nonneg ce_c.
Proof. intros n H. vm_compute in H. list_cases H; vm_compute; discriminate. Qed.

Example ce_component_total : exists g' x, layout_component ce_oP ce_c = Ok (g', x) /\ C16_contract ce_oP g' /\ C16_leftmost g'.
Proof.
  exists ce_outP, (Some 0%Z). split; [vm_compute; reflexivity|].
  destruct (C16w_component ce_oP ce_c ce_outP (Some 0%Z) ce_component_input (or_intror eq_refl) (or_intror (or_intror eq_refl)))
    as [CT LM]; [vm_compute; reflexivity|].
  split; [exact CT|]. apply LM; [exact ce_widths_nonneg|vm_compute; discriminate].
Qed.
