(* CBBase.v — consistency predicate, list/arena lemmas, and T1 (reverse_edge preserves consistency). *)
From Autog Require Import Base Graph Populate Phase1.
From Coq Require Import Lia List Arith ZArith.
Import ListNotations.

Local Open Scope nat_scope.

(* ---------- list helpers ---------- *)
Lemma upd_length : forall A (l : list A) i f, length (upd l i f) = length l.
Proof. induction l as [|x t IH]; intros [|i] f; simpl; auto. Qed.

Lemma nth_upd_eq : forall A (l : list A) i f d, i < length l -> nth i (upd l i f) d = f (nth i l d).
Proof.
  induction l as [|x t IH]; intros [|i] f d H; simpl in *; try lia; auto.
  apply IH; lia.
Qed.

Lemma nth_upd_neq : forall A (l : list A) i j f d, i <> j -> nth j (upd l i f) d = nth j l d.
Proof.
  induction l as [|x t IH]; intros [|i] [|j] f d H; simpl in *; try congruence; auto.
Qed.

Lemma mem_nat_true : forall x l, mem_nat x l = true <-> In x l.
Proof.
  intros x l. unfold mem_nat. rewrite existsb_exists. split.
  - intros [y [Hy He]]. apply Nat.eqb_eq in He. subst. auto.
  - intros H. exists x. split; auto. apply Nat.eqb_refl.
Qed.

Lemma mem_nat_false : forall x l, mem_nat x l = false <-> ~ In x l.
Proof.
  intros x l. rewrite <- mem_nat_true. destruct (mem_nat x l); split; congruence.
Qed.

Lemma In_remove_nat : forall x y l, In y (remove_nat x l) <-> In y l /\ y <> x.
Proof.
  induction l as [|z t IH]; simpl.
  - tauto.
  - destruct (Nat.eqb x z) eqn:E.
    + apply Nat.eqb_eq in E. subst. rewrite IH. intuition congruence.
    + apply Nat.eqb_neq in E. simpl. rewrite IH. intuition congruence.
Qed.

Lemma NoDup_remove_nat : forall x l, NoDup l -> NoDup (remove_nat x l).
Proof.
  induction l as [|z t IH]; simpl; intros H.
  - constructor.
  - inversion H; subst. destruct (Nat.eqb x z); auto.
    constructor; auto. rewrite In_remove_nat. tauto.
Qed.

Lemma remove_nat_notin : forall x l, ~ In x l -> remove_nat x l = l.
Proof.
  induction l as [|z t IH]; simpl; intros H; auto.
  destruct (Nat.eqb x z) eqn:E.
  - apply Nat.eqb_eq in E. subst. tauto.
  - f_equal. apply IH. tauto.
Qed.

Lemma remove_nat_head : forall x l, ~ In x l -> remove_nat x (x :: l) = l.
Proof. intros. simpl. rewrite Nat.eqb_refl. apply remove_nat_notin; auto. Qed.

Lemma NoDup_app_single : forall (l : list nat) x, NoDup l -> ~ In x l -> NoDup (l ++ [x]).
Proof.
  induction l as [|z t IH]; simpl; intros x H Hn.
  - constructor; [simpl; tauto | constructor].
  - inversion H; subst. constructor.
    + rewrite in_app_iff. simpl. intuition.
    + apply IH; auto.
Qed.

Lemma NoDup_bounded_length : forall (l : list nat) n, NoDup l -> (forall x, In x l -> x < n) -> length l <= n.
Proof.
  intros l n Hnd Hb.
  rewrite <- (seq_length n 0).
  apply NoDup_incl_length; auto.
  intros x Hx. apply in_seq. specialize (Hb x Hx). lia.
Qed.

(* ---------- arena access ---------- *)
Lemma gnode_upd_node_eq : forall g i f, i < length (g_na g) -> gnode (upd_node g i f) i = f (gnode g i).
Proof. intros. unfold gnode, upd_node, with_na. simpl. apply nth_upd_eq; auto. Qed.

Lemma gnode_upd_node_neq : forall g i j f, i <> j -> gnode (upd_node g i f) j = gnode g j.
Proof. intros. unfold gnode, upd_node, with_na. simpl. apply nth_upd_neq; auto. Qed.

Lemma gedge_upd_edge_eq : forall g i f, i < length (g_ea g) -> gedge (upd_edge g i f) i = f (gedge g i).
Proof. intros. unfold gedge, upd_edge, with_ea. simpl. apply nth_upd_eq; auto. Qed.

Lemma gedge_upd_edge_neq : forall g i j f, i <> j -> gedge (upd_edge g i f) j = gedge g j.
Proof. intros. unfold gedge, upd_edge, with_ea. simpl. apply nth_upd_neq; auto. Qed.

(* ---------- the predicates ---------- *)
Record consistent (g : graph) : Prop := {
  c_nodes : NoDup (g_N g) /\ (forall n, In n (g_N g) -> n < length (g_na g));
  c_edges : NoDup (g_E g) /\
            (forall e, In e (g_E g) ->
               e < length (g_ea g) /\ In (e_from (gedge g e)) (g_N g) /\ In (e_to (gedge g e)) (g_N g));
  c_out : forall n, In n (g_N g) ->
            NoDup (n_out (gnode g n)) /\
            (forall e, In e (n_out (gnode g n)) <-> In e (g_E g) /\ e_from (gedge g e) = n);
  c_in : forall n, In n (g_N g) ->
            NoDup (n_in (gnode g n)) /\
            (forall e, In e (n_in (gnode g n)) <-> In e (g_E g) /\ e_to (gedge g e) = n)
}.

Definition no_self_loops (g : graph) : Prop := forall e, In e (g_E g) -> self_loop g e = false.

(* has a topological ranking = is acyclic *)
Definition ranked (g : graph) : Prop :=
  exists rk : nat -> Z, forall e, In e (g_E g) -> (rk (e_from (gedge g e)) < rk (e_to (gedge g e)))%Z.

Lemma self_loop_false : forall g e, self_loop g e = false <-> e_from (gedge g e) <> e_to (gedge g e).
Proof. intros. unfold self_loop. apply Nat.eqb_neq. Qed.

Lemma ranked_no_self_loops : forall g, ranked g -> no_self_loops g.
Proof.
  intros g [rk H] e He. apply self_loop_false. intros Heq. specialize (H e He). rewrite Heq in H. lia.
Qed.

(* ---------- reverse_edge, field by field ---------- *)
Section ReverseEdge.
  Variable g : graph.
  Variable e : nat.
  Let from := e_from (gedge g e).
  Let to := e_to (gedge g e).

  Lemma reverse_edge_N : g_N (reverse_edge g e) = g_N g.
  Proof. reflexivity. Qed.
  Lemma reverse_edge_E : g_E (reverse_edge g e) = g_E g.
  Proof. reflexivity. Qed.
  Lemma reverse_edge_L : g_L (reverse_edge g e) = g_L g.
  Proof. reflexivity. Qed.
  Lemma reverse_edge_na_length : length (g_na (reverse_edge g e)) = length (g_na g).
  Proof. unfold reverse_edge, upd_edge, upd_node, with_ea, with_na. simpl. rewrite !upd_length. reflexivity. Qed.
  Lemma reverse_edge_ea_length : length (g_ea (reverse_edge g e)) = length (g_ea g).
  Proof. unfold reverse_edge, upd_edge, upd_node, with_ea, with_na. simpl. rewrite !upd_length. reflexivity. Qed.

  Lemma reverse_edge_gedge_other : forall e', e' <> e -> gedge (reverse_edge g e) e' = gedge g e'.
  Proof.
    intros e' H. unfold reverse_edge. rewrite gedge_upd_edge_neq by congruence. reflexivity.
  Qed.

  Lemma reverse_edge_gedge_same : e < length (g_ea g) ->
    gedge (reverse_edge g e) e = set_rev (negb (e_rev (gedge g e))) (set_ends to from (gedge g e)).
  Proof.
    intros H. unfold reverse_edge. rewrite gedge_upd_edge_eq; [reflexivity|exact H].
  Qed.

  Lemma reverse_edge_from : e < length (g_ea g) -> e_from (gedge (reverse_edge g e) e) = to.
  Proof. intros H. rewrite reverse_edge_gedge_same by exact H. reflexivity. Qed.
  Lemma reverse_edge_to : e < length (g_ea g) -> e_to (gedge (reverse_edge g e) e) = from.
  Proof. intros H. rewrite reverse_edge_gedge_same by exact H. reflexivity. Qed.
  Lemma reverse_edge_rev : e < length (g_ea g) -> e_rev (gedge (reverse_edge g e) e) = negb (e_rev (gedge g e)).
  Proof. intros H. rewrite reverse_edge_gedge_same by exact H. reflexivity. Qed.

  Hypothesis Hne : from <> to.
  Hypothesis Hf : from < length (g_na g).
  Hypothesis Ht : to < length (g_na g).

  Lemma reverse_edge_gnode_other : forall n, n <> from -> n <> to -> gnode (reverse_edge g e) n = gnode g n.
  Proof.
    intros n H1 H2. unfold reverse_edge. fold from. fold to.
    change (gnode (upd_edge ?g0 e ?f) n) with (gnode g0 n).
    rewrite !gnode_upd_node_neq by congruence. reflexivity.
  Qed.

  Lemma reverse_edge_gnode_from :
    gnode (reverse_edge g e) from =
    set_in (el_add e (n_in (gnode g from))) (set_out (el_remove e (n_out (gnode g from))) (gnode g from)).
  Proof.
    unfold reverse_edge. fold from. fold to.
    change (gnode (upd_edge ?g0 e ?f) from) with (gnode g0 from).
    rewrite gnode_upd_node_neq by congruence.
    rewrite gnode_upd_node_eq.
    2:{ unfold upd_node, with_na. simpl. rewrite !upd_length. exact Hf. }
    rewrite gnode_upd_node_neq by congruence.
    rewrite gnode_upd_node_eq by exact Hf.
    reflexivity.
  Qed.

  Lemma reverse_edge_gnode_to :
    gnode (reverse_edge g e) to =
    set_out (el_add e (n_out (gnode g to))) (set_in (el_remove e (n_in (gnode g to))) (gnode g to)).
  Proof.
    unfold reverse_edge. fold from. fold to.
    change (gnode (upd_edge ?g0 e ?f) to) with (gnode g0 to).
    rewrite gnode_upd_node_eq.
    2:{ unfold upd_node, with_na. simpl. rewrite !upd_length. exact Ht. }
    rewrite gnode_upd_node_neq by congruence.
    rewrite gnode_upd_node_eq.
    2:{ unfold upd_node, with_na. simpl. rewrite !upd_length. exact Ht. }
    rewrite gnode_upd_node_neq by congruence.
    reflexivity.
  Qed.
End ReverseEdge.

(* T1 *)
Theorem reverse_edge_consistent : forall g e,
  consistent g -> In e (g_E g) -> self_loop g e = false ->
  consistent (reverse_edge g e)
  /\ g_N (reverse_edge g e) = g_N g
  /\ g_E (reverse_edge g e) = g_E g
  /\ (forall e', e' <> e -> gedge (reverse_edge g e) e' = gedge g e')
  /\ e_from (gedge (reverse_edge g e) e) = e_to (gedge g e)
  /\ e_to (gedge (reverse_edge g e) e) = e_from (gedge g e)
  /\ e_rev (gedge (reverse_edge g e) e) = negb (e_rev (gedge g e)).
Proof.
  intros g e C He Hsl.
  destruct C as [[CN1 CN2] [CE1 CE2] CO CI].
  destruct (CE2 e He) as [Hlt [Hfrom Hto]].
  apply self_loop_false in Hsl.
  pose proof (CN2 _ Hfrom) as Hf. pose proof (CN2 _ Hto) as Ht.
  assert (Hfr : e_from (gedge (reverse_edge g e) e) = e_to (gedge g e)) by (apply reverse_edge_from; auto).
  assert (Hte : e_to (gedge (reverse_edge g e) e) = e_from (gedge g e)) by (apply reverse_edge_to; auto).
  assert (Hoth : forall e', e' <> e -> gedge (reverse_edge g e) e' = gedge g e')
    by (apply reverse_edge_gedge_other).
  split; [|repeat split; auto using reverse_edge_rev].
  pose proof (reverse_edge_gnode_from g e Hsl Hf) as Gf.
  pose proof (reverse_edge_gnode_to g e Hsl Ht) as Gt.
  pose proof (reverse_edge_gnode_other g e) as Go.
  set (from := e_from (gedge g e)) in *. set (to := e_to (gedge g e)) in *.
  destruct (CO from Hfrom) as [COf1 COf2]. destruct (CI from Hfrom) as [CIf1 CIf2].
  destruct (CO to Hto) as [COt1 COt2]. destruct (CI to Hto) as [CIt1 CIt2].
  constructor.
  - rewrite reverse_edge_N, reverse_edge_na_length. auto.
  - rewrite reverse_edge_E, reverse_edge_N, reverse_edge_ea_length. split; auto.
    intros e' He'. destruct (Nat.eq_dec e' e) as [->|Hn].
    + rewrite Hfr, Hte. auto.
    + rewrite Hoth by auto. auto.
  - rewrite reverse_edge_N, reverse_edge_E. intros n Hn.
    destruct (Nat.eq_dec n from) as [->|Hnf]; [|destruct (Nat.eq_dec n to) as [->|Hnt]].
    + rewrite Gf. simpl.
      split. { apply NoDup_remove_nat; auto. }
      intros e'. unfold el_remove. rewrite In_remove_nat, COf2.
      destruct (Nat.eq_dec e' e) as [->|Hn'].
      * rewrite Hfr. intuition congruence.
      * rewrite Hoth by auto. tauto.
    + rewrite Gt. simpl.
      split.
      { apply NoDup_app_single; auto. rewrite COt2. fold from. intros [_ H]. congruence. }
      intros e'. unfold el_add. rewrite in_app_iff, COt2. simpl.
      destruct (Nat.eq_dec e' e) as [->|Hn'].
      * rewrite Hfr. tauto.
      * rewrite Hoth by auto. intuition congruence.
    + rewrite Go by auto.
      destruct (CO n Hn) as [C1 C2]. split; auto.
      intros e'. rewrite C2.
      destruct (Nat.eq_dec e' e) as [->|Hn'].
      * rewrite Hfr. fold from. intuition congruence.
      * rewrite Hoth by auto. tauto.
  - rewrite reverse_edge_N, reverse_edge_E. intros n Hn.
    destruct (Nat.eq_dec n from) as [->|Hnf]; [|destruct (Nat.eq_dec n to) as [->|Hnt]].
    + rewrite Gf. simpl.
      split.
      { apply NoDup_app_single; auto. rewrite CIf2. fold to. intros [_ H]. congruence. }
      intros e'. unfold el_add. rewrite in_app_iff, CIf2. simpl.
      destruct (Nat.eq_dec e' e) as [->|Hn'].
      * rewrite Hte. tauto.
      * rewrite Hoth by auto. intuition congruence.
    + rewrite Gt. simpl.
      split. { apply NoDup_remove_nat; auto. }
      intros e'. unfold el_remove. rewrite In_remove_nat, CIt2.
      destruct (Nat.eq_dec e' e) as [->|Hn'].
      * rewrite Hte. intuition congruence.
      * rewrite Hoth by auto. tauto.
    + rewrite Go by auto.
      destruct (CI n Hn) as [C1 C2]. split; auto.
      intros e'. rewrite C2.
      destruct (Nat.eq_dec e' e) as [->|Hn'].
      * rewrite Hte. fold to. intuition congruence.
      * rewrite Hoth by auto. tauto.
Qed.

(* ---------- reversing a duplicate-free list of edges ---------- *)
Lemma reverse_edge_no_self_loops : forall g e,
  consistent g -> no_self_loops g -> In e (g_E g) -> no_self_loops (reverse_edge g e).
Proof.
  intros g e C N He e' He'.
  destruct (reverse_edge_consistent g e C He (N e He)) as [_ [_ [HE [Ho [Hf [Ht _]]]]]].
  rewrite HE in He'. apply self_loop_false.
  destruct (Nat.eq_dec e' e) as [->|Hn].
  - rewrite Hf, Ht. pose proof (N e He) as H. apply self_loop_false in H. congruence.
  - rewrite Ho by exact Hn. apply self_loop_false. apply N. exact He'.
Qed.

Lemma fold_reverse_edges : forall rv g,
  consistent g -> no_self_loops g -> NoDup rv -> incl rv (g_E g) ->
  let g' := fold_left reverse_edge rv g in
  consistent g' /\ no_self_loops g' /\ g_N g' = g_N g /\ g_E g' = g_E g /\
  (forall e, ~ In e rv -> gedge g' e = gedge g e) /\
  (forall e, In e rv ->
     e_from (gedge g' e) = e_to (gedge g e) /\ e_to (gedge g' e) = e_from (gedge g e) /\
     e_rev (gedge g' e) = negb (e_rev (gedge g e))).
Proof.
  induction rv as [|e t IH]; intros g C N Hnd Hsub; simpl.
  - split; [exact C|]. split; [exact N|]. do 3 (split; [reflexivity|]). intros e [].
  - inversion Hnd as [|? ? Hnt Hndt]; subst.
    assert (He : In e (g_E g)) by (apply Hsub; left; reflexivity).
    destruct (reverse_edge_consistent g e C He (N e He)) as [C1 [HN [HE [Ho [Hf [Ht Hr]]]]]].
    pose proof (reverse_edge_no_self_loops g e C N He) as N1.
    destruct (IH (reverse_edge g e) C1 N1 Hndt) as [A1 [A2 [A3 [A4 [A5 A6]]]]].
    { rewrite HE. intros x Hx. apply Hsub. right. exact Hx. }
    split; [exact A1|]. split; [exact A2|].
    split; [congruence|]. split; [congruence|]. split.
    + intros e' He'. rewrite A5 by tauto. apply Ho. intros ->. apply He'. left. reflexivity.
    + intros e' [<-|He'].
      * rewrite A5 by exact Hnt. auto.
      * assert (e' <> e) by (intros ->; tauto).
        destruct (A6 e' He') as [B1 [B2 B3]]. rewrite B1, B2, B3, Ho by assumption. auto.
Qed.

Lemma NoDup_app_inv : forall (a b : list nat),
  NoDup (a ++ b) -> NoDup a /\ NoDup b /\ (forall x, In x a -> ~ In x b).
Proof.
  induction a as [|h a IH]; simpl; intros b H.
  - split; [constructor|]. split; auto.
  - inversion H as [|? ? Hn Hnd]; subst. destruct (IH b Hnd) as [A1 [A2 A3]].
    split; [|split; auto].
    + constructor; auto. intros Hin. apply Hn. apply in_or_app. auto.
    + intros x [<-|Hx]; auto. intros Hb. apply Hn. apply in_or_app. auto.
Qed.

Lemma NoDup_insert : forall (a b : list nat) n, NoDup (a ++ b) -> ~ In n (a ++ b) -> NoDup (a ++ n :: b).
Proof.
  intros a b n H1 H2. apply (NoDup_Add (Add_app n a b)). split; assumption.
Qed.
