(* CBDepthFirst.v — T6: the depth-first breaker produces an acyclic graph. *)
From Autog Require Import Base Graph Populate Phase1.
From Autog.Proofs Require Import CBBase CBExamples CBHasCycles.
From Coq Require Import Lia List Arith ZArith Bool.
Import ListNotations.
Local Open Scope nat_scope.

(* ---------- the inner loop of dfs_visit as a standalone definition ---------- *)
Definition dfs_loop (f : nat) (g : graph) :=
  fix loop (es : list nat) (st : dfs_st) : res dfs_st :=
    match es with
    | [] => Ok st
    | e :: t =>
        if self_loop g e then loop t st else
        let '(vis, act, rev) := st in
        let to := e_to (gedge g e) in
        if mem_nat to act then loop t (vis, act, rev ++ [e])
        else do st' <- dfs_visit f g to st; loop t st'
    end.

Lemma dfs_visit_S : forall f g n vis act rv,
  dfs_visit (S f) g n (vis, act, rv) =
  if mem_nat n vis then Ok (vis, act, rv) else
  do st <- dfs_loop f g (n_out (gnode g n)) (n :: vis, n :: act, rv);
  let '(vis, act, rev) := st in Ok (vis, remove_nat n act, rev).
Proof. reflexivity. Qed.

Lemma dfs_loop_nil : forall f g st, dfs_loop f g [] st = Ok st.
Proof. reflexivity. Qed.

Lemma dfs_loop_cons : forall f g e t vis act rv,
  dfs_loop f g (e :: t) (vis, act, rv) =
  if self_loop g e then dfs_loop f g t (vis, act, rv) else
  if mem_nat (e_to (gedge g e)) act then dfs_loop f g t (vis, act, rv ++ [e])
  else do st' <- dfs_visit f g (e_to (gedge g e)) (vis, act, rv); dfs_loop f g t st'.
Proof. reflexivity. Qed.

Lemma dfs_nodes_cons : forall F g n t st,
  dfs_nodes F g (n :: t) st = do st' <- dfs_visit F g n st; dfs_nodes F g t st'.
Proof. reflexivity. Qed.

(* ---------- more about [after] ---------- *)
Lemma after_app_r : forall a b x y, after b x y -> after (a ++ b) x y.
Proof. induction a; simpl; intros; auto. apply after_later. auto. Qed.

Lemma after_app_lr : forall a b x y, In x a -> In y b -> after (a ++ b) x y.
Proof.
  induction a as [|h a IH]; simpl; intros b x y Hx Hy.
  - contradiction.
  - destruct (Nat.eq_dec h x) as [->|Hn].
    + apply after_here. apply in_or_app. right. exact Hy.
    + apply after_later. apply IH; auto. destruct Hx; congruence.
Qed.

(* the eventual finishing order (latest first) of everything seen so far:
   active nodes finish bottom-of-stack last, so they come first, bottom to top; then the finished ones *)
Definition ord (act fin : list nat) : list nat := List.rev act ++ fin.

Lemma ord_push : forall n act fin, ord (n :: act) fin = List.rev act ++ n :: fin.
Proof. intros. unfold ord. simpl. rewrite <- app_assoc. reflexivity. Qed.
Lemma ord_pop : forall n act fin, ord act (n :: fin) = List.rev act ++ n :: fin.
Proof. reflexivity. Qed.


Section DepthFirst.
  Variable g : graph.
  Hypothesis C : consistent g.
  Hypothesis NSL : no_self_loops g.

  Record Inv (vis act rv fin : list nat) : Prop := {
    i_nd : NoDup (ord act fin);
    i_vis : forall x, In x vis <-> In x act \/ In x fin;
    i_fin : forall u, In u fin -> forall e, In e (g_E g) -> e_from (gedge g e) = u -> ~ In e rv ->
                      after (ord act fin) u (e_to (gedge g e));
    i_rev : forall e, In e rv -> In e (g_E g) /\ after (ord act fin) (e_to (gedge g e)) (e_from (gedge g e));
    i_rnd : NoDup rv;
    i_rvis : forall e, In e rv -> In (e_from (gedge g e)) vis
  }.
  Arguments i_vis {vis act rv fin} _ _.
  Arguments i_rvis {vis act rv fin} _ _ _.

  Definition visit_spec (f : nat) : Prop :=
    forall n vis act rv fin vis' act' rv',
    dfs_visit f g n (vis, act, rv) = Ok (vis', act', rv') ->
    Inv vis act rv fin -> In n (g_N g) ->
    exists fin', Inv vis' act' rv' fin' /\ act' = act /\ In n vis' /\ incl vis vis' /\ incl fin fin' /\
                 incl rv rv' /\ (forall e, In e rv' -> In e rv \/ ~ In (e_from (gedge g e)) vis).

  (* the inner loop, given the specification of the recursive calls *)
  Lemma dfs_loop_inv : forall f, visit_spec f -> forall n act,
    forall es vis0 rv0 fin0 vis1 act1 rv1,
                dfs_loop f g es (vis0, n :: act, rv0) = Ok (vis1, act1, rv1) ->
                Inv vis0 (n :: act) rv0 fin0 ->
                (forall e, In e es -> In e (g_E g) /\ e_from (gedge g e) = n) ->
                NoDup es ->
                (forall e, In e rv0 -> e_from (gedge g e) = n -> ~ In e es) ->
                In n vis0 ->
                exists fin1, Inv vis1 act1 rv1 fin1 /\ act1 = n :: act /\ incl vis0 vis1 /\ incl fin0 fin1 /\
                  incl rv0 rv1 /\
                  (forall e, In e rv1 -> In e rv0 \/ ~ In (e_from (gedge g e)) vis0 \/ In e es) /\
                  (forall e, In e es -> In e rv1 \/ In (e_to (gedge g e)) fin1).
  Proof.
    intros f IHf n act. pose proof C as [[CN1 CN2] [CE1 CE2] CO CI].
    induction es as [|e t IHes]; intros vis0 rv0 fin0 vis1 act1 rv1 Hl HI0 Hes Hnd Hfr Hnv.
        - rewrite dfs_loop_nil in Hl. inversion Hl; subst.
          exists fin0. split; [exact HI0|]. repeat split; auto using incl_refl. intros e [].
        - rewrite dfs_loop_cons in Hl.
          assert (Ht : forall e, In e t -> In e (g_E g) /\ e_from (gedge g e) = n).
          { intros e' He'. apply Hes. right. exact He'. }
          destruct (Hes e (or_introl eq_refl)) as [HeE Hefrom].
          apply NoDup_cons_iff in Hnd. destruct Hnd as [Hnt Hndt].
          rewrite (NSL e HeE) in Hl.
          pose proof (NSL e HeE) as Hsl. apply self_loop_false in Hsl.
          destruct (CE2 e HeE) as [_ [_ HtoN]].
          destruct (mem_nat (e_to (gedge g e)) (n :: act)) eqn:Hma.
          + (* back edge: reversed *)
            apply mem_nat_true in Hma.
            assert (Hne : ~ In e rv0). { intros H. apply (Hfr e H Hefrom). left. reflexivity. }
            assert (HI1 : Inv vis0 (n :: act) (rv0 ++ [e]) fin0).
            { destruct HI0 as [I1 I2 I3 I4 I5 I6]. constructor; auto.
              - intros u Hu e' He' Hf' Hn'. apply I3; auto. intros H. apply Hn'. apply in_or_app. auto.
              - intros e' He'. apply in_app_or in He'. destruct He' as [He'|[<-|[]]]; auto.
                split; auto. rewrite ord_push. rewrite Hefrom.
                apply after_app_lr; [|left; reflexivity].
                apply -> in_rev. destruct Hma as [H|H]; [congruence|exact H].
              - apply NoDup_app_single; auto.
              - intros e' He'. apply in_app_or in He'. destruct He' as [He'|[<-|[]]]; auto.
                rewrite Hefrom. exact Hnv. }
            destruct (IHes _ _ _ _ _ _ Hl HI1 Ht Hndt) as [fin1 [J1 [J2 [J3 [J4 [J5 [J6 J7]]]]]]]; auto.
            { intros e' He' Hf'. apply in_app_or in He'. destruct He' as [He'|[<-|[]]]; auto.
              intros H. apply (Hfr e' He' Hf'). right. exact H. }
            exists fin1. split; [exact J1|]. repeat split; auto.
            * intros x Hx. apply J5. apply in_or_app. auto.
            * intros e' He'. destruct (J6 e' He') as [H|[H|H]]; auto.
              -- apply in_app_or in H. destruct H as [H|[<-|[]]]; auto. right. right. left. reflexivity.
              -- right. right. right. exact H.
            * intros e' [<-|He']; auto. left. apply J5. apply in_or_app. right. left. reflexivity.
          + (* recursive call *)
            apply mem_nat_false in Hma.
            destruct (dfs_visit f g (e_to (gedge g e)) (vis0, n :: act, rv0)) as [[[v2 a2] r2]|err] eqn:Hv;
              cbn [bind] in Hl; [|discriminate].
            destruct (IHf _ _ _ _ _ _ _ _ Hv HI0 HtoN) as [fin2 [K1 [K2 [K3 [K4 [K5 [K6 K7]]]]]]].
            subst a2.
            destruct (IHes _ _ _ _ _ _ Hl K1 Ht Hndt) as [fin1 [J1 [J2 [J3 [J4 [J5 [J6 J7]]]]]]]; auto.
            { intros e' He' Hf'. destruct (K7 e' He') as [H|H].
              - intros H'. apply (Hfr e' H Hf'). right. exact H'.
              - rewrite Hf' in H. tauto. }
            exists fin1. split; [exact J1|]. repeat split; auto.
            * intros x Hx. auto.
            * intros x Hx. auto.
            * intros x Hx. auto.
            * intros e' He'. destruct (J6 e' He') as [H|[H|H]].
              -- destruct (K7 e' H); auto.
              -- right. left. intros H'. apply H. apply K4. exact H'.
              -- right. right. right. exact H.
            * intros e' [<-|He']; auto. right. apply J4.
              destruct (proj1 (i_vis K1 _) K3) as [H|H]; [tauto|exact H].
  Qed.

  Lemma dfs_visit_inv : forall f n vis act rv fin vis' act' rv',
    dfs_visit f g n (vis, act, rv) = Ok (vis', act', rv') ->
    Inv vis act rv fin -> In n (g_N g) ->
    exists fin', Inv vis' act' rv' fin' /\ act' = act /\ In n vis' /\ incl vis vis' /\ incl fin fin' /\
                 incl rv rv' /\ (forall e, In e rv' -> In e rv \/ ~ In (e_from (gedge g e)) vis).
  Proof.
    pose proof C as [[CN1 CN2] [CE1 CE2] CO CI].
    induction f as [|f IHf]; intros n vis act rv fin vis' act' rv' Hrun HI Hn.
    - simpl in Hrun. discriminate.
    - rewrite dfs_visit_S in Hrun.
      destruct (mem_nat n vis) eqn:Hm.
      { apply mem_nat_true in Hm. inversion Hrun; subst.
        exists fin. split; [exact HI|]. repeat split; auto using incl_refl. }
      apply mem_nat_false in Hm.
      pose proof (dfs_loop_inv f IHf n act) as Hloop.
      destruct (dfs_loop f g (n_out (gnode g n)) (n :: vis, n :: act, rv)) as [[[v1 a1] r1]|err] eqn:Hl;
        cbn [bind] in Hrun; [|discriminate].
      inversion Hrun; subst vis' act' rv'. clear Hrun.
      assert (Hnact : ~ In n act). { intros H. apply Hm. apply (i_vis HI). auto. }
      assert (Hnfin : ~ In n fin). { intros H. apply Hm. apply (i_vis HI). auto. }
      assert (HI0 : Inv (n :: vis) (n :: act) rv fin).
      { destruct HI as [I1 I2 I3 I4 I5 I6]. constructor; auto.
        - rewrite ord_push. apply NoDup_insert; auto.
          intros H. apply in_app_or in H. destruct H as [H|H]; auto. apply in_rev in H. auto.
        - intros x. simpl. rewrite I2. tauto.
        - intros u Hu e He Hf Hne. rewrite ord_push. apply after_insert. apply I3; auto.
        - intros e He. destruct (I4 e He). split; auto. rewrite ord_push. apply after_insert. auto.
        - intros e He. right. auto. }
      destruct (Hloop _ _ _ _ _ _ _ Hl HI0) as [fin1 [J1 [J2 [J3 [J4 [J5 [J6 J7]]]]]]].
      { intros e He. apply (proj2 (CO n Hn)). exact He. }
      { apply (proj1 (CO n Hn)). }
      { intros e He Hf. exfalso. apply Hm. rewrite <- Hf. apply (i_rvis HI). exact He. }
      { left. reflexivity. }
      subst a1. rewrite remove_nat_head by exact Hnact.
      exists (n :: fin1).
      split; [|repeat split; auto].
      + destruct J1 as [I1 I2 I3 I4 I5 I6]. rewrite ord_push in *.
        constructor; rewrite ?ord_pop; [exact I1| | |exact I4|exact I5|exact I6].
        * intros x. rewrite I2. simpl. tauto.
        * intros u [<-|Hu] e He Hf Hne.
          -- apply after_app_r. apply after_here.
             destruct (J7 e) as [H|H]; [|tauto|exact H].
             apply (proj2 (CO _ Hn)). auto.
          -- apply I3; auto.
      + apply J3. left. reflexivity.
      + intros x Hx. apply J3. right. exact Hx.
      + intros x Hx. right. apply J4. exact Hx.
      + intros e He. destruct (J6 e He) as [H|[H|H]]; auto.
        * right. intros H'. apply H. right. exact H'.
        * right. apply (proj2 (CO _ Hn)) in H. destruct H as [_ H]. rewrite H. exact Hm.
  Qed.

  Lemma dfs_nodes_inv : forall F ns vis act rv fin vis' act' rv',
    dfs_nodes F g ns (vis, act, rv) = Ok (vis', act', rv') ->
    Inv vis act rv fin -> incl ns (g_N g) ->
    exists fin', Inv vis' act' rv' fin' /\ act' = act /\ incl ns vis' /\ incl vis vis'.
  Proof.
    induction ns as [|n t IH]; intros vis act rv fin vis' act' rv' Hrun HI Hsub.
    - simpl in Hrun. inversion Hrun; subst. exists fin. split; [exact HI|]. repeat split; auto using incl_refl. intros x [].
    - rewrite dfs_nodes_cons in Hrun.
      destruct (dfs_visit F g n (vis, act, rv)) as [[[v2 a2] r2]|err] eqn:Hv; cbn [bind] in Hrun; [|discriminate].
      destruct (dfs_visit_inv _ _ _ _ _ _ _ _ _ Hv HI) as [fin2 [K1 [K2 [K3 [K4 _]]]]].
      { apply Hsub. left. reflexivity. }
      subst a2.
      destruct (IH _ _ _ _ _ _ _ Hrun K1) as [fin' [J1 [J2 [J3 J4]]]].
      { intros x Hx. apply Hsub. right. exact Hx. }
      exists fin'. split; [exact J1|]. repeat split; auto.
      + intros x [<-|Hx]; auto.
      + intros x Hx. auto.
  Qed.

  Lemma Inv_init : Inv [] [] [] [].
  Proof.
    constructor; simpl; try tauto; try constructor.
  Qed.

  (* what exec_depth_first computes: a duplicate-free list of edges whose reversal is acyclic *)
  Lemma exec_depth_first_spec : forall g',
    exec_depth_first g = Ok g' ->
    exists rv fin,
      g' = fold_left reverse_edge rv g /\ NoDup rv /\ incl rv (g_E g) /\ NoDup fin /\ incl (g_N g) fin /\
      (forall e, In e (g_E g) -> ~ In e rv -> after fin (e_from (gedge g e)) (e_to (gedge g e))) /\
      (forall e, In e rv -> after fin (e_to (gedge g e)) (e_from (gedge g e))).
  Proof.
    intros g' H. unfold exec_depth_first in H.
    set (F := S (S (length (g_na g)))) in *.
    destruct (dfs_nodes F g (filter (fun n => Nat.eqb (indeg g n) 0) (g_N g)) ([], [], []))
      as [[[v1 a1] r1]|err] eqn:H1; cbn [bind] in H; [|discriminate].
    destruct (dfs_nodes_inv _ _ _ _ _ _ _ _ _ H1 Inv_init) as [fin1 [J1 [J2 _]]].
    { intros x Hx. apply filter_In in Hx. tauto. }
    subst a1.
    destruct (dfs_nodes F g (g_N g) (v1, [], r1)) as [[[v2 a2] r2]|err] eqn:H2; cbn [bind] in H; [|discriminate].
    destruct (dfs_nodes_inv _ _ _ _ _ _ _ _ _ H2 J1 (incl_refl _)) as [fin2 [K1 [K2 [K3 _]]]].
    subst a2. inversion H; subst g'.
    destruct K1 as [I1 I2 I3 I4 I5 I6]. unfold ord in *. simpl in *.
    assert (HNf : incl (g_N g) fin2).
    { intros x Hx. apply K3 in Hx. apply I2 in Hx. tauto. }
    exists r2, fin2. repeat split; auto.
    - intros e He. apply I4. exact He.
    - intros e He Hne. apply I3; auto. apply HNf.
      destruct C as [_ [_ CE2] _ _]. apply CE2. exact He.
    - intros e He. apply I4. exact He.
  Qed.
End DepthFirst.

(* T6 *)
Theorem exec_depth_first_ranked : forall g g',
  exec_depth_first g = Ok g' -> consistent g -> no_self_loops g ->
  consistent g' /\ no_self_loops g' /\ g_N g' = g_N g /\ g_E g' = g_E g /\ ranked g'.
Proof.
  intros g g' H C N.
  destruct (exec_depth_first_spec g C N g' H) as [rv [fin [Hg [Hnd [Hsub [Hndf [HN [H1 H2]]]]]]]].
  destruct (fold_reverse_edges rv g C N Hnd Hsub) as [A1 [A2 [A3 [A4 [A5 A6]]]]].
  rewrite <- Hg in *.
  split; [exact A1|]. split; [exact A2|]. split; [exact A3|]. split; [exact A4|].
  exists (fun v => Z.of_nat (posn v fin)). rewrite A4. intros e He.
  destruct (in_dec Nat.eq_dec e rv) as [Hin|Hnin].
  - destruct (A6 e Hin) as [B1 [B2 _]]. rewrite B1, B2.
    apply H2 in Hin. apply after_posn in Hin; auto. lia.
  - rewrite A5 by exact Hnin. pose proof (H1 e He Hnin) as Ha.
    apply after_posn in Ha; auto. lia.
Qed.
Print Assumptions exec_depth_first_ranked.

Example exec_depth_first_ex :
  exists g', exec_depth_first ex_cyc = Ok g' /\ has_cycles ex_cyc = Ok true /\ has_cycles g' = Ok false.
Proof. eexists. split; [vm_compute; reflexivity|]. split; vm_compute; reflexivity. Qed.

(* ================= T7: minimality of the depth-first feedback set ================= *)

(* the list of edges exec_depth_first reverses *)
Definition depth_first_rev (g : graph) : res (list nat) :=
  let fuel := S (S (length (g_na g))) in
  let sources := filter (fun n => Nat.eqb (indeg g n) 0) (g_N g) in
  do st <- dfs_nodes fuel g sources ([], [], []);
  do st <- dfs_nodes fuel g (g_N g) st;
  let '(_, _, rev) := st in Ok rev.

Lemma exec_depth_first_eq : forall g,
  exec_depth_first g = do rv <- depth_first_rev g; Ok (fold_left reverse_edge rv g).
Proof.
  intros g. unfold exec_depth_first, depth_first_rev.
  destruct (dfs_nodes _ g (filter _ _) _) as [st1|]; cbn [bind]; [|reflexivity].
  destruct (dfs_nodes _ g (g_N g) st1) as [[[v a] r]|]; reflexivity.
Qed.

Section Minimal.
  Variable g : graph.
  Hypothesis C : consistent g.
  Hypothesis NSL : no_self_loops g.

  (* a walk x ->* y along edges taken from the list [tree], endpoints read in g *)
  Inductive tpath (tree : list nat) : nat -> nat -> Prop :=
  | tp_nil : forall x, tpath tree x x
  | tp_step : forall t x z, In t tree -> e_from (gedge g t) = x -> tpath tree (e_to (gedge g t)) z -> tpath tree x z.

  Lemma tpath_mono : forall tree tree' x y, incl tree tree' -> tpath tree x y -> tpath tree' x y.
  Proof. intros tree tree' x y Hs H. induction H; [constructor|]. eapply tp_step; eauto. Qed.

  Lemma tpath_snoc : forall tree x y t, tpath tree x y -> In t tree -> e_from (gedge g t) = y ->
    tpath tree x (e_to (gedge g t)).
  Proof.
    intros tree x y t H Ht Hf. revert Hf. induction H as [x|t0 x z H0 H1 H2 IH]; intros Hf.
    - apply tp_step with t; auto. constructor.
    - apply tp_step with t0; auto.
  Qed.

  Fixpoint linked (act tree : list nat) : Prop :=
    match act with
    | a :: r => match r with
                | b :: _ => (exists t, In t tree /\ e_from (gedge g t) = b /\ e_to (gedge g t) = a) /\ linked r tree
                | [] => True
                end
    | [] => True
    end.

  Lemma linked_mono : forall act tree tree', incl tree tree' -> linked act tree -> linked act tree'.
  Proof.
    induction act as [|a r IH]; intros tree tree' Hs H; simpl in *; auto.
    destruct r as [|b r']; auto. destruct H as [[t [H1 H2]] H3]. split.
    - exists t. split; auto.
    - apply IH with tree; auto.
  Qed.

  Lemma linked_tail : forall a r tree, linked (a :: r) tree -> linked r tree.
  Proof. intros a r tree H. simpl in H. destruct r; [exact I|]. apply H. Qed.

  Lemma linked_path : forall act tree a x, linked (a :: act) tree -> In x act -> tpath tree x a.
  Proof.
    induction act as [|b r IH]; intros tree a x H Hx.
    - destruct Hx.
    - simpl in H. destruct H as [[t [H1 [H2 H3]]] H4].
      assert (Hb : tpath tree x b).
      { destruct Hx as [<-|Hx]; [constructor|]. apply IH; auto. }
      rewrite <- H3. eapply tpath_snoc; eauto.
  Qed.

  Record Inv7 (vis act rv tree : list nat) : Prop := {
    t_nd : NoDup (rv ++ tree);
    t_E : forall x, In x (rv ++ tree) -> In x (g_E g) /\ In (e_from (gedge g x)) vis;
    t_act : forall x, In x act -> In x vis;
    t_link : linked act tree;
    t_path : forall e, In e rv -> tpath tree (e_to (gedge g e)) (e_from (gedge g e))
  }.

  Definition link_pre (act tree : list nat) (n : nat) : Prop :=
    match act with
    | [] => True
    | a :: _ => exists t, In t tree /\ e_from (gedge g t) = a /\ e_to (gedge g t) = n
    end.

  Lemma dfs_visit_inv7 : forall f n vis act rv tree vis' act' rv',
    dfs_visit f g n (vis, act, rv) = Ok (vis', act', rv') ->
    Inv7 vis act rv tree -> In n (g_N g) -> link_pre act tree n ->
    exists tree', Inv7 vis' act' rv' tree' /\ act' = act /\ incl vis vis' /\ incl tree tree' /\ incl rv rv' /\
                  (forall x, In x (rv' ++ tree') -> In x (rv ++ tree) \/ ~ In (e_from (gedge g x)) vis).
  Proof.
    destruct C as [[CN1 CN2] [CE1 CE2] CO CI].
    induction f as [|f IHf]; intros n vis act rv tree vis' act' rv' Hrun HI Hn Hlp.
    - simpl in Hrun. discriminate.
    - rewrite dfs_visit_S in Hrun.
      destruct (mem_nat n vis) eqn:Hm.
      { inversion Hrun; subst.
        exists tree. split; [exact HI|]. repeat split; auto using incl_refl. }
      apply mem_nat_false in Hm.
      assert (Hloop : forall es vis0 rv0 tree0 vis1 act1 rv1,
                dfs_loop f g es (vis0, n :: act, rv0) = Ok (vis1, act1, rv1) ->
                Inv7 vis0 (n :: act) rv0 tree0 ->
                (forall e, In e es -> In e (g_E g) /\ e_from (gedge g e) = n) ->
                NoDup es ->
                (forall x, In x (rv0 ++ tree0) -> e_from (gedge g x) = n -> ~ In x es) ->
                In n vis0 ->
                exists tree1, Inv7 vis1 act1 rv1 tree1 /\ act1 = n :: act /\ incl vis0 vis1 /\
                  incl tree0 tree1 /\ incl rv0 rv1 /\
                  (forall x, In x (rv1 ++ tree1) ->
                             In x (rv0 ++ tree0) \/ ~ In (e_from (gedge g x)) vis0 \/ In x es)).
      { induction es as [|e t IHes]; intros vis0 rv0 tree0 vis1 act1 rv1 Hl HI0 Hes Hnd Hfr Hnv.
        - rewrite dfs_loop_nil in Hl. inversion Hl; subst.
          exists tree0. split; [exact HI0|]. repeat split; auto using incl_refl.
        - rewrite dfs_loop_cons in Hl.
          assert (Ht : forall e, In e t -> In e (g_E g) /\ e_from (gedge g e) = n).
          { intros e' He'. apply Hes. right. exact He'. }
          destruct (Hes e (or_introl eq_refl)) as [HeE Hefrom].
          apply NoDup_cons_iff in Hnd. destruct Hnd as [Hnt Hndt].
          rewrite (NSL e HeE) in Hl.
          pose proof (NSL e HeE) as Hsl. apply self_loop_false in Hsl.
          destruct (CE2 e HeE) as [_ [_ HtoN]].
          assert (Hne : ~ In e (rv0 ++ tree0)). { intros H. apply (Hfr e H Hefrom). left. reflexivity. }
          destruct (mem_nat (e_to (gedge g e)) (n :: act)) eqn:Hma.
          + (* back edge *)
            apply mem_nat_true in Hma.
            assert (HI1 : Inv7 vis0 (n :: act) (rv0 ++ [e]) tree0).
            { destruct HI0 as [I1 I2 I3 I4 I5]. constructor; auto.
              - rewrite <- app_assoc. simpl. apply NoDup_insert; auto.
              - intros x Hx. rewrite <- app_assoc in Hx. simpl in Hx.
                apply in_app_or in Hx. destruct Hx as [Hx|[<-|Hx]].
                + apply I2. apply in_or_app. auto.
                + rewrite Hefrom. auto.
                + apply I2. apply in_or_app. auto.
              - intros e' He'. apply in_app_or in He'. destruct He' as [He'|[<-|[]]]; auto.
                rewrite Hefrom. apply linked_path with act; auto.
                destruct Hma as [H|H]; [congruence|exact H]. }
            destruct (IHes _ _ _ _ _ _ Hl HI1 Ht Hndt) as [tree1 [J1 [J2 [J3 [J4 [J5 J6]]]]]]; auto.
            { intros x Hx Hf'. rewrite <- app_assoc in Hx. simpl in Hx.
              apply in_app_or in Hx. destruct Hx as [Hx|[<-|Hx]]; auto.
              - intros H. apply (Hfr x); auto. apply in_or_app. auto. right. exact H.
              - intros H. apply (Hfr x); auto. apply in_or_app. auto. right. exact H. }
            exists tree1. split; [exact J1|]. repeat split; auto.
            * intros x Hx. apply J5. apply in_or_app. auto.
            * intros x Hx. destruct (J6 x Hx) as [H|[H|H]]; auto.
              -- rewrite <- app_assoc in H. simpl in H.
                 apply in_app_or in H. destruct H as [H|[<-|H]].
                 ++ left. apply in_or_app. auto.
                 ++ right. right. left. reflexivity.
                 ++ left. apply in_or_app. auto.
              -- right. right. right. exact H.
          + (* recursive call; e joins the ghost list of processed, never reversed edges *)
            apply mem_nat_false in Hma.
            destruct (dfs_visit f g (e_to (gedge g e)) (vis0, n :: act, rv0)) as [[[v2 a2] r2]|err] eqn:Hv;
              cbn [bind] in Hl; [|discriminate].
            assert (HI1 : Inv7 vis0 (n :: act) rv0 (tree0 ++ [e])).
            { destruct HI0 as [I1 I2 I3 I4 I5]. constructor; auto.
              - rewrite app_assoc. apply NoDup_app_single; auto.
              - intros x Hx. rewrite app_assoc in Hx.
                apply in_app_or in Hx. destruct Hx as [Hx|[<-|[]]]; auto.
                rewrite Hefrom. auto.
              - apply linked_mono with tree0; auto. intros x Hx. apply in_or_app. auto.
              - intros e' He'. apply tpath_mono with tree0; auto. intros x Hx. apply in_or_app. auto. }
            destruct (IHf _ _ _ _ _ _ _ _ Hv HI1 HtoN) as [tree2 [K1 [K2 [K3 [K4 [K5 K6]]]]]].
            { simpl. exists e. split; [apply in_or_app; right; left; reflexivity|]. auto. }
            subst a2.
            destruct (IHes _ _ _ _ _ _ Hl K1 Ht Hndt) as [tree1 [J1 [J2 [J3 [J4 [J5 J6]]]]]]; auto.
            { intros x Hx Hf'. destruct (K6 x Hx) as [H|H].
              - rewrite app_assoc in H. apply in_app_or in H. destruct H as [H|[<-|[]]]; auto.
                intros H'. apply (Hfr x H Hf'). right. exact H'.
              - rewrite Hf' in H. tauto. }
            exists tree1. split; [exact J1|]. repeat split; auto.
            * intros x Hx. auto.
            * intros x Hx. apply J4. apply K4. apply in_or_app. auto.
            * intros x Hx. auto.
            * intros x Hx. destruct (J6 x Hx) as [H|[H|H]].
              -- destruct (K6 x H) as [H'|H']; auto.
                 rewrite app_assoc in H'. apply in_app_or in H'. destruct H' as [H'|[<-|[]]]; auto.
                 right. right. left. reflexivity.
              -- right. left. intros H'. apply H. apply K3. exact H'.
              -- right. right. right. exact H. }
      destruct (dfs_loop f g (n_out (gnode g n)) (n :: vis, n :: act, rv)) as [[[v1 a1] r1]|err] eqn:Hl;
        cbn [bind] in Hrun; [|discriminate].
      inversion Hrun; subst vis' act' rv'. clear Hrun.
      assert (Hnact : ~ In n act). { intros H. apply Hm. apply (t_act _ _ _ _ HI). exact H. }
      assert (HI0 : Inv7 (n :: vis) (n :: act) rv tree).
      { destruct HI as [I1 I2 I3 I4 I5]. constructor; auto.
        - intros x Hx. destruct (I2 x Hx). split; auto. right. auto.
        - intros x [<-|Hx]; [left; reflexivity|right; auto].
        - simpl. destruct act as [|a r]; [exact I|]. split; [|exact I4]. exact Hlp. }
      destruct (Hloop _ _ _ _ _ _ _ Hl HI0) as [tree1 [J1 [J2 [J3 [J4 [J5 J6]]]]]].
      { intros e He. apply (proj2 (CO n Hn)). exact He. }
      { apply (proj1 (CO n Hn)). }
      { intros x Hx Hf. exfalso. apply Hm. rewrite <- Hf. apply (t_E _ _ _ _ HI). exact Hx. }
      { left. reflexivity. }
      subst a1. rewrite remove_nat_head by exact Hnact.
      exists tree1.
      split; [|repeat split; auto].
      + destruct J1 as [I1 I2 I3 I4 I5]. constructor; auto.
        * intros x Hx. apply I3. right. exact Hx.
        * apply linked_tail with n. exact I4.
      + intros x Hx. apply J3. right. exact Hx.
      + intros x Hx. destruct (J6 x Hx) as [H|[H|H]]; auto.
        * right. intros H'. apply H. right. exact H'.
        * right. apply (proj2 (CO _ Hn)) in H. destruct H as [_ H]. rewrite H. exact Hm.
  Qed.

  Lemma dfs_nodes_inv7 : forall F ns vis rv tree vis' act' rv',
    dfs_nodes F g ns (vis, [], rv) = Ok (vis', act', rv') ->
    Inv7 vis [] rv tree -> incl ns (g_N g) ->
    exists tree', Inv7 vis' act' rv' tree' /\ act' = [].
  Proof.
    induction ns as [|n t IH]; intros vis rv tree vis' act' rv' Hrun HI Hsub.
    - simpl in Hrun. inversion Hrun; subst. exists tree. split; [exact HI|reflexivity].
    - rewrite dfs_nodes_cons in Hrun.
      destruct (dfs_visit F g n (vis, [], rv)) as [[[v2 a2] r2]|err] eqn:Hv; cbn [bind] in Hrun; [|discriminate].
      destruct (dfs_visit_inv7 _ _ _ _ _ _ _ _ _ Hv HI) as [tree2 [K1 [K2 _]]].
      { apply Hsub. left. reflexivity. }
      { exact I. }
      subst a2.
      apply (IH _ _ _ _ _ _ Hrun K1).
      intros x Hx. apply Hsub. right. exact Hx.
  Qed.

  Lemma depth_first_rev_spec : forall rv,
    depth_first_rev g = Ok rv ->
    exists tree, NoDup (rv ++ tree) /\ incl (rv ++ tree) (g_E g) /\
                 forall e, In e rv -> tpath tree (e_to (gedge g e)) (e_from (gedge g e)).
  Proof.
    intros rv H. unfold depth_first_rev in H.
    set (F := S (S (length (g_na g)))) in *.
    destruct (dfs_nodes F g (filter (fun n => Nat.eqb (indeg g n) 0) (g_N g)) ([], [], []))
      as [[[v1 a1] r1]|err] eqn:H1; cbn [bind] in H; [|discriminate].
    destruct (dfs_nodes_inv7 _ _ _ _ [] _ _ _ H1) as [tree1 [J1 J2]].
    { constructor; simpl; try tauto; constructor. }
    { intros x Hx. apply filter_In in Hx. tauto. }
    subst a1.
    destruct (dfs_nodes F g (g_N g) (v1, [], r1)) as [[[v2 a2] r2]|err] eqn:H2; cbn [bind] in H; [|discriminate].
    destruct (dfs_nodes_inv7 _ _ _ _ _ _ _ _ H2 J1 (incl_refl _)) as [tree2 [K1 K2]].
    inversion H; subst rv.
    exists tree2. destruct K1 as [I1 I2 I3 I4 I5]. split; [exact I1|]. split; [|exact I5].
    intros x Hx. apply I2. exact Hx.
  Qed.
End Minimal.

(* a walk in g along edges satisfying P *)
Inductive gpath (g : graph) (P : nat -> Prop) : nat -> nat -> Prop :=
| gp_nil : forall x, gpath g P x x
| gp_step : forall t x z, In t (g_E g) -> P t -> e_from (gedge g t) = x ->
                          gpath g P (e_to (gedge g t)) z -> gpath g P x z.

Lemma gpath_rank : forall g P rk x y,
  (forall e, In e (g_E g) -> (rk (e_from (gedge g e)) < rk (e_to (gedge g e)))%Z) ->
  gpath g P x y -> (rk x <= rk y)%Z.
Proof.
  intros g P rk x y Hrk H. induction H; [lia|]. specialize (Hrk t H). subst x. lia.
Qed.

(* T7: un-reversing any single edge e of the feedback set re-creates a directed cycle: e itself followed by
   a walk from its head back to its tail that only uses edges the breaker never reversed. *)
Theorem depth_first_minimal : forall g rv,
  consistent g -> no_self_loops g -> depth_first_rev g = Ok rv ->
  forall e, In e rv ->
    let g' := fold_left reverse_edge rv g in
    let g'' := reverse_edge g' e in
    exec_depth_first g = Ok g' /\
    In e (g_E g'') /\
    e_from (gedge g'' e) = e_from (gedge g e) /\ e_to (gedge g'' e) = e_to (gedge g e) /\
    gpath g'' (fun t => ~ In t rv) (e_to (gedge g'' e)) (e_from (gedge g'' e)).
Proof.
  intros g rv C N H e He g' g''.
  destruct (depth_first_rev_spec g C N rv H) as [tree [Hnd [Hsub Hpath]]].
  destruct (NoDup_app_inv rv tree Hnd) as [Hndr [_ Hdisj]].
  assert (Hsubr : incl rv (g_E g)) by (intros x Hx; apply Hsub; apply in_or_app; auto).
  destruct (fold_reverse_edges rv g C N Hndr Hsubr) as [A1 [A2 [A3 [A4 [A5 A6]]]]].
  fold g' in A1, A2, A3, A4, A5, A6.
  assert (HeE' : In e (g_E g')) by (rewrite A4; auto).
  destruct (reverse_edge_consistent g' e A1 HeE' (A2 e HeE')) as [_ [_ [HE [Ho [Hf [Ht _]]]]]].
  fold g'' in HE, Ho, Hf, Ht.
  destruct (A6 e He) as [B1 [B2 _]].
  split. { rewrite exec_depth_first_eq, H. reflexivity. }
  split. { rewrite HE. exact HeE'. }
  split. { rewrite Hf, B2. reflexivity. }
  split. { rewrite Ht, B1. reflexivity. }
  rewrite Hf, Ht, B1, B2.
  assert (Hedge : forall t, In t tree -> In t (g_E g'') /\ ~ In t rv /\ gedge g'' t = gedge g t).
  { intros t Htr.
    assert (Hnr : ~ In t rv) by (intros Hr; apply (Hdisj t Hr Htr)).
    split; [rewrite HE, A4; apply Hsub; apply in_or_app; auto|]. split; [exact Hnr|].
    rewrite Ho by (intros ->; tauto). apply A5. exact Hnr. }
  specialize (Hpath e He). clear - Hpath Hedge.
  induction Hpath as [x|t x z Htr Hfr Hp IH].
  - constructor.
  - destruct (Hedge t Htr) as [E1 [E2 E3]].
    apply gp_step with t; auto.
    + rewrite E3. exact Hfr.
    + rewrite E3. exact IH.
Qed.
Print Assumptions depth_first_minimal.

Corollary depth_first_minimal_cyclic : forall g rv,
  consistent g -> no_self_loops g -> depth_first_rev g = Ok rv ->
  forall e, In e rv -> ~ ranked (reverse_edge (fold_left reverse_edge rv g) e).
Proof.
  intros g rv C N H e He [rk Hrk].
  destruct (depth_first_minimal g rv C N H e He) as [_ [HeE [_ [_ Hp]]]].
  apply gpath_rank with (rk := rk) in Hp; [|exact Hrk].
  specialize (Hrk e HeE). lia.
Qed.

Example depth_first_minimal_ex :
  exists rv, depth_first_rev ex_cyc = Ok rv /\ rv <> [] /\
    forallb (fun e => match has_cycles (reverse_edge (fold_left reverse_edge rv ex_cyc) e) with
                      | Ok true => true | _ => false end) rv = true.
Proof. eexists. split; [vm_compute; reflexivity|]. split; [discriminate|vm_compute; reflexivity]. Qed.

(* T7, inclusion form: no proper subset of the reversed edges is a feedback set — reversing only the edges of
   rv' (any duplicate-free sub-list of rv that misses some e of rv) leaves a directed cycle. *)
Lemma tpath_rank : forall g tree (rk : nat -> Z) x y,
  (forall t, In t tree -> (rk (e_from (gedge g t)) < rk (e_to (gedge g t)))%Z) ->
  tpath g tree x y -> (rk x <= rk y)%Z.
Proof.
  intros g tree rk x y Hrk H. induction H as [x|t x z Ht Hf Hp IH]; [lia|].
  specialize (Hrk t Ht). subst x. lia.
Qed.

Theorem depth_first_feedback_minimal : forall g rv rv',
  consistent g -> no_self_loops g -> depth_first_rev g = Ok rv ->
  NoDup rv' -> incl rv' rv -> (exists e, In e rv /\ ~ In e rv') ->
  ~ ranked (fold_left reverse_edge rv' g).
Proof.
  intros g rv rv' C N H Hnd' Hsub' [e [He Hne]] [rk Hrk].
  destruct (depth_first_rev_spec g C N rv H) as [tree [Hnd [Hsub Hpath]]].
  destruct (NoDup_app_inv rv tree Hnd) as [_ [_ Hdisj]].
  assert (Hsubr : incl rv' (g_E g)).
  { intros x Hx. apply Hsub. apply in_or_app. left. apply Hsub'. exact Hx. }
  destruct (fold_reverse_edges rv' g C N Hnd' Hsubr) as [_ [_ [_ [A4 [A5 _]]]]].
  rewrite A4 in Hrk.
  assert (He' : (rk (e_from (gedge g e)) < rk (e_to (gedge g e)))%Z).
  { rewrite <- (A5 e Hne). apply Hrk. apply Hsub. apply in_or_app. left. exact He. }
  pose proof (Hpath e He) as Hp. apply tpath_rank with (rk := rk) in Hp; [lia|].
  intros t Ht. assert (Hnt : ~ In t rv') by (intros Hc; apply (Hdisj t (Hsub' t Hc) Ht)).
  rewrite <- (A5 t Hnt). apply Hrk. apply Hsub. apply in_or_app. right. exact Ht.
Qed.
Print Assumptions depth_first_feedback_minimal.
