(* CBExamples.v — boolean checkers for the hypotheses (sound), and concrete example graphs. *)
From Autog Require Import Base Graph Populate Phase1.
From Autog.Proofs Require Import CBBase.
From Coq Require Import Lia List Arith ZArith Bool.
Import ListNotations.
Local Open Scope nat_scope.

Fixpoint nodupb (l : list nat) : bool :=
  match l with [] => true | x :: t => negb (mem_nat x t) && nodupb t end.

Lemma nodupb_sound : forall l, nodupb l = true -> NoDup l.
Proof.
  induction l as [|x t IH]; simpl; intros H.
  - constructor.
  - apply andb_true_iff in H. destruct H as [H1 H2]. constructor; auto.
    apply negb_true_iff in H1. apply mem_nat_false; auto.
Qed.

Definition consistentb (g : graph) : bool :=
  nodupb (g_N g) && forallb (fun n => n <? length (g_na g)) (g_N g)
  && nodupb (g_E g)
  && forallb (fun e => (e <? length (g_ea g)) && mem_nat (e_from (gedge g e)) (g_N g)
                       && mem_nat (e_to (gedge g e)) (g_N g)) (g_E g)
  && forallb (fun n => nodupb (n_out (gnode g n))
                       && forallb (fun e => mem_nat e (g_E g) && (e_from (gedge g e) =? n)) (n_out (gnode g n))
                       && forallb (fun e => negb (e_from (gedge g e) =? n) || mem_nat e (n_out (gnode g n))) (g_E g))
             (g_N g)
  && forallb (fun n => nodupb (n_in (gnode g n))
                       && forallb (fun e => mem_nat e (g_E g) && (e_to (gedge g e) =? n)) (n_in (gnode g n))
                       && forallb (fun e => negb (e_to (gedge g e) =? n) || mem_nat e (n_in (gnode g n))) (g_E g))
             (g_N g).

Lemma consistentb_sound : forall g, consistentb g = true -> consistent g.
Proof.
  intros g H. unfold consistentb in H.
  repeat (apply andb_true_iff in H; destruct H as [H ?]).
  rename H into A1, H0 into A6, H1 into A5, H2 into A4, H3 into A3, H4 into A2.
  rewrite forallb_forall in A2, A4, A5, A6.
  constructor.
  - split. { apply nodupb_sound; auto. }
    intros n Hn. apply A2 in Hn. apply Nat.ltb_lt in Hn. exact Hn.
  - split. { apply nodupb_sound; auto. }
    intros e He. apply A4 in He.
    repeat (apply andb_true_iff in He; destruct He as [He ?]).
    apply Nat.ltb_lt in He. rewrite mem_nat_true in *. auto.
  - intros n Hn. apply A5 in Hn.
    repeat (apply andb_true_iff in Hn; destruct Hn as [Hn ?]).
    split. { apply nodupb_sound; auto. }
    rewrite forallb_forall in H, H0.
    intros e. split.
    + intros He. apply H0 in He. apply andb_true_iff in He. destruct He as [He1 He2].
      apply mem_nat_true in He1. apply Nat.eqb_eq in He2. auto.
    + intros [He1 He2]. apply H in He1. apply orb_true_iff in He1. destruct He1 as [He1|He1].
      * apply negb_true_iff in He1. apply Nat.eqb_neq in He1. congruence.
      * apply mem_nat_true; auto.
  - intros n Hn. apply A6 in Hn.
    repeat (apply andb_true_iff in Hn; destruct Hn as [Hn ?]).
    split. { apply nodupb_sound; auto. }
    rewrite forallb_forall in H, H0.
    intros e. split.
    + intros He. apply H0 in He. apply andb_true_iff in He. destruct He as [He1 He2].
      apply mem_nat_true in He1. apply Nat.eqb_eq in He2. auto.
    + intros [He1 He2]. apply H in He1. apply orb_true_iff in He1. destruct He1 as [He1|He1].
      * apply negb_true_iff in He1. apply Nat.eqb_neq in He1. congruence.
      * apply mem_nat_true; auto.
Qed.

Definition no_self_loopsb (g : graph) : bool := forallb (fun e => negb (self_loop g e)) (g_E g).
Lemma no_self_loopsb_sound : forall g, no_self_loopsb g = true -> no_self_loops g.
Proof.
  intros g H e He. unfold no_self_loopsb in H. rewrite forallb_forall in H.
  apply H in He. apply negb_true_iff in He. exact He.
Qed.

Definition rankedb (g : graph) (rk : nat -> Z) : bool :=
  forallb (fun e => (rk (e_from (gedge g e)) <? rk (e_to (gedge g e)))%Z) (g_E g).
Lemma rankedb_sound : forall g rk, rankedb g rk = true -> ranked g.
Proof.
  intros g rk H. exists rk. intros e He. unfold rankedb in H. rewrite forallb_forall in H.
  apply H in He. apply Z.ltb_lt in He. exact He.
Qed.

(* graphs from edge lists over nat identifiers, built by the model's own Populate *)
Definition graph_of (es : list (nat * nat)) : graph :=
  match populate nat Nat.eqb (map (fun p => [fst p; snd p]) es) with
  | Ok (_, g) => g
  | Err _ => empty_graph
  end.

(* a DAG with a diamond and a long edge *)
Definition ex_dag : graph := graph_of [(0,1); (0,2); (1,3); (2,3); (0,3); (3,4)].
(* a cyclic graph: 3-cycle 0->1->2->0, plus a 2-cycle 2<->3 and a chord *)
Definition ex_cyc : graph := graph_of [(0,1); (1,2); (2,0); (2,3); (3,2); (3,4); (4,1)].

Example ex_dag_consistent : consistent ex_dag.
Proof. apply consistentb_sound. vm_compute. reflexivity. Qed.
Example ex_dag_no_self_loops : no_self_loops ex_dag.
Proof. apply no_self_loopsb_sound. vm_compute. reflexivity. Qed.
Example ex_dag_ranked : ranked ex_dag.
Proof. apply rankedb_sound with (rk := Z.of_nat). vm_compute. reflexivity. Qed.

Example ex_cyc_consistent : consistent ex_cyc.
Proof. apply consistentb_sound. vm_compute. reflexivity. Qed.
Example ex_cyc_no_self_loops : no_self_loops ex_cyc.
Proof. apply no_self_loopsb_sound. vm_compute. reflexivity. Qed.

(* T1 on a concrete instance: reversing edge 2 (2->0) of the cyclic example *)
Example reverse_edge_consistent_ex :
  consistent (reverse_edge ex_cyc 2) /\
  e_from (gedge (reverse_edge ex_cyc 2) 2) = 0 /\ e_to (gedge (reverse_edge ex_cyc 2) 2) = 2 /\
  e_rev (gedge (reverse_edge ex_cyc 2) 2) = true.
Proof.
  destruct (reverse_edge_consistent ex_cyc 2 ex_cyc_consistent) as [H _].
  - vm_compute. auto.
  - vm_compute. reflexivity.
  - split; [exact H|]. vm_compute. auto.
Qed.
Print Assumptions reverse_edge_consistent.
