(* CBGreedy.v — T5: the greedy breaker. Part (b): the reversal loop orients every edge from lower to higher rank. *)
From Autog Require Import Base Graph Populate Phase1.
From Autog.Proofs Require Import CBBase CBExamples CBHasCycles.
From Coq Require Import Lia List Arith ZArith Bool.
Import ListNotations.
Local Open Scope nat_scope.

(* the reversal loop of exec_greedy for a given rank function *)
Definition gr_step (rk : nat -> Z) (n : nat) (g : graph) (e : nat) : graph :=
  if (rk (e_to (gedge g e)) <? rk n)%Z then reverse_edge g e else g.
Definition gr_node (rk : nat -> Z) (g : graph) (n : nat) : graph :=
  fold_left (gr_step rk n) (n_out (gnode g n)) g.
Definition gr_loop (rk : nat -> Z) (ns : list nat) (g : graph) : graph := fold_left (gr_node rk) ns g.

Lemma exec_greedy_eq : forall g,
  exec_greedy g = do r <- greedy_ranks g; Ok (gr_loop (rank_of r) (g_N g) g).
Proof. reflexivity. Qed.

Section Reversal.
  Variable rk : nat -> Z.

  Definition bad (g : graph) (e : nat) : Prop := (rk (e_to (gedge g e)) < rk (e_from (gedge g e)))%Z.

  (* well-formedness carried through the loop, relative to the initial graph g0 *)
  Definition wf (g0 g : graph) : Prop :=
    consistent g /\ no_self_loops g /\ g_N g = g_N g0 /\ g_E g = g_E g0.

  Lemma gr_inner : forall n es g0 g,
    wf g0 g -> NoDup es ->
    (forall e, In e es -> In e (g_E g) /\ e_from (gedge g e) = n) ->
    (forall e, In e (g_E g) -> e_from (gedge g e) = n -> ~ In e es -> ~ bad g e) ->
    let g' := fold_left (gr_step rk n) es g in
    wf g0 g' /\
    (forall e, In e (g_E g) -> e_from (gedge g' e) = n -> ~ bad g' e) /\
    (forall e, In e (g_E g) -> bad g' e -> bad g e /\ gedge g' e = gedge g e).
  Proof.
    induction es as [|e t IH]; intros g0 g Hwf Hnd Hes Hdone; simpl.
    - split; [exact Hwf|]. split; auto.
    - destruct Hwf as [C [N [HN HE]]].
      apply NoDup_cons_iff in Hnd. destruct Hnd as [Hnt Hndt].
      destruct (Hes e (or_introl eq_refl)) as [HeE Hefrom].
      destruct (rk (e_to (gedge g e)) <? rk n)%Z eqn:Hlt.
      + assert (Hstep : gr_step rk n g e = reverse_edge g e) by (unfold gr_step; rewrite Hlt; reflexivity).
        rewrite Hstep. clear Hstep.
        apply Z.ltb_lt in Hlt.
        destruct (reverse_edge_consistent g e C HeE (N e HeE)) as [C1 [HN1 [HE1 [Ho [Hf [Ht _]]]]]].
        pose proof (reverse_edge_no_self_loops g e C N HeE) as N1.
        pose proof (N e HeE) as Hsl. apply self_loop_false in Hsl.
        destruct (IH g0 (reverse_edge g e)) as [W [A B]].
        * split; [exact C1|]. split; [exact N1|]. split; congruence.
        * exact Hndt.
        * intros e' He'. assert (e' <> e) by (intros ->; tauto).
          rewrite HE1, Ho by assumption. apply Hes. right. exact He'.
        * rewrite HE1. intros e' He' Hf' Hn' Hbad.
          destruct (Nat.eq_dec e' e) as [->|Hne].
          -- rewrite Hf in Hf'. congruence.
          -- unfold bad in Hbad. rewrite Ho in Hf', Hbad by exact Hne.
             apply (Hdone e' He' Hf'); [|exact Hbad]. intros [H|H]; [congruence|tauto].
        * split; [exact W|]. rewrite HE1 in A, B. split; [exact A|].
          intros e' He' Hbad. destruct (B e' He' Hbad) as [B1 B2].
          destruct (Nat.eq_dec e' e) as [->|Hne].
          -- exfalso. unfold bad in B1. rewrite Hf, Ht, Hefrom in B1. lia.
          -- unfold bad in *. rewrite Ho in B1, B2 by exact Hne. auto.
      + assert (Hstep : gr_step rk n g e = g) by (unfold gr_step; rewrite Hlt; reflexivity).
        rewrite Hstep. clear Hstep.
        apply Z.ltb_ge in Hlt.
        destruct (IH g0 g) as [W [A B]]; auto.
        * split; auto.
        * intros e' He'. apply Hes. right. exact He'.
        * intros e' He' Hf' Hn' Hbad.
          destruct (Nat.eq_dec e' e) as [->|Hne].
          -- unfold bad in Hbad. rewrite Hefrom in Hbad. lia.
          -- apply (Hdone e' He' Hf'); [|exact Hbad]. intros [H|H]; [congruence|tauto].
  Qed.

  Lemma gr_node_spec : forall g0 g n,
    wf g0 g -> In n (g_N g) ->
    let g' := gr_node rk g n in
    wf g0 g' /\
    (forall e, In e (g_E g) -> e_from (gedge g' e) = n -> ~ bad g' e) /\
    (forall e, In e (g_E g) -> bad g' e -> bad g e /\ gedge g' e = gedge g e).
  Proof.
    intros g0 g n Hwf Hn. unfold gr_node.
    destruct Hwf as [C W]. pose proof C as [_ _ CO _]. destruct (CO n Hn) as [CO1 CO2].
    apply gr_inner.
    - split; assumption.
    - exact CO1.
    - intros e He. apply CO2. exact He.
    - intros e He Hf Hn'. exfalso. apply Hn'. apply CO2. auto.
  Qed.

  Lemma gr_loop_spec : forall ns g0 g done,
    wf g0 g -> incl ns (g_N g) ->
    (forall e, In e (g_E g) -> bad g e -> ~ In (e_from (gedge g e)) done) ->
    let g' := gr_loop rk ns g in
    wf g0 g' /\ (forall e, In e (g_E g) -> bad g' e -> ~ In (e_from (gedge g' e)) (ns ++ done)).
  Proof.
    induction ns as [|n t IH]; intros g0 g done Hwf Hsub Hdone; simpl.
    - split; [exact Hwf|exact Hdone].
    - destruct (gr_node_spec g0 g n Hwf) as [W [A B]].
      { apply Hsub. left. reflexivity. }
      assert (HN : g_N (gr_node rk g n) = g_N g) by (destruct W as [_ [_ [? ?]]], Hwf as [_ [_ [? ?]]]; congruence).
      assert (HE : g_E (gr_node rk g n) = g_E g) by (destruct W as [_ [_ [? ?]]], Hwf as [_ [_ [? ?]]]; congruence).
      destruct (IH g0 (gr_node rk g n) (n :: done) W) as [W' A'].
      + rewrite HN. intros x Hx. apply Hsub. right. exact Hx.
      + rewrite HE. intros e He Hbad [Hin|Hin].
        * apply (A e He); auto.
        * destruct (B e He Hbad) as [B1 B2]. rewrite B2 in Hin. apply (Hdone e He B1 Hin).
      + split; [exact W'|]. rewrite HE in A'. intros e He Hbad Hin.
        apply (A' e He Hbad). apply in_or_app.
        destruct Hin as [Hin|Hin]; [right; left; exact Hin|].
        apply in_app_or in Hin. destruct Hin as [Hin|Hin]; [left|right; right]; exact Hin.
  Qed.

  (* after the loop, no edge points from a higher to a lower rank *)
  Lemma gr_loop_no_bad : forall g,
    consistent g -> no_self_loops g ->
    let g' := gr_loop rk (g_N g) g in
    consistent g' /\ no_self_loops g' /\ g_N g' = g_N g /\ g_E g' = g_E g /\
    forall e, In e (g_E g') -> (rk (e_from (gedge g' e)) <= rk (e_to (gedge g' e)))%Z.
  Proof.
    intros g C N g'.
    destruct (gr_loop_spec (g_N g) g g [] ) as [[C' [N' [HN HE]]] A].
    - split; auto.
    - apply incl_refl.
    - intros e _ _ [].
    - fold g' in C', N', HN, HE, A.
      split; [exact C'|]. split; [exact N'|]. split; [exact HN|]. split; [exact HE|].
      intros e He. rewrite HE in He.
      destruct (Z_lt_le_dec (rk (e_to (gedge g' e))) (rk (e_from (gedge g' e)))) as [Hb|Hb]; [|exact Hb].
      exfalso. apply (A e He Hb). rewrite app_nil_r. rewrite <- HN.
      destruct C' as [_ [_ CE2] _ _]. apply CE2. rewrite HE. exact He.
  Qed.
End Reversal.

(* T5, conditional form: if the ranks computed by greedy_ranks are pairwise distinct on g_N, the result is acyclic *)
Definition injective_on (ns : list nat) (rk : nat -> Z) : Prop :=
  forall n m, In n ns -> In m ns -> rk n = rk m -> n = m.

Theorem exec_greedy_ranked_of_injective : forall g g' r,
  greedy_ranks g = Ok r -> exec_greedy g = Ok g' ->
  consistent g -> no_self_loops g -> injective_on (g_N g) (rank_of r) ->
  consistent g' /\ no_self_loops g' /\ g_N g' = g_N g /\ g_E g' = g_E g /\ ranked g'.
Proof.
  intros g g' r Hr Hx C N Hinj.
  rewrite exec_greedy_eq, Hr in Hx. cbn [bind] in Hx. inversion Hx; subst g'. clear Hx.
  destruct (gr_loop_no_bad (rank_of r) g C N) as [C' [N' [HN [HE A]]]].
  split; [exact C'|]. split; [exact N'|]. split; [exact HN|]. split; [exact HE|].
  exists (rank_of r). intros e He.
  pose proof (A e He) as Hle.
  destruct C' as [_ [_ CE2] _ _]. destruct (CE2 e He) as [_ [Hf Ht]]. rewrite HN in Hf, Ht.
  pose proof (N' e He) as Hsl. apply self_loop_false in Hsl.
  set (g' := gr_loop (rank_of r) (g_N g) g) in *.
  destruct (Z.eq_dec (rank_of r (e_from (gedge g' e))) (rank_of r (e_to (gedge g' e)))) as [Heq|Hne]; [|lia].
  exfalso. apply Hsl. apply Hinj; assumption.
Qed.
