(* CBGreedyRanks.v — T5 part (a): greedy_ranks assigns pairwise distinct ranks to the nodes of g_N,
   provided no node of g_N is isolated (true for a connected component with at least two nodes). *)
From Autog Require Import Base Graph Populate Phase1.
From Autog.Proofs Require Import CBBase CBExamples CBHasCycles CBGreedy.
From Coq Require Import Lia List Arith ZArith Bool.
Import ListNotations.
Local Open Scope nat_scope.

(* ---------- generic list facts ---------- *)
Lemma NoDup_app_intro : forall (a b : list nat),
  NoDup a -> NoDup b -> (forall x, In x a -> ~ In x b) -> NoDup (a ++ b).
Proof.
  induction a as [|h a IH]; simpl; intros b Ha Hb Hd; auto.
  inversion Ha; subst. constructor.
  - intros H. apply in_app_or in H. destruct H; [tauto|]. apply (Hd h); auto.
  - apply IH; auto.
Qed.

Lemma nth_repeat_None : forall (A : Type) n k, nth k (repeat (@None A) n) None = None.
Proof. induction n; destruct k; simpl; auto. Qed.

Lemma filter_ext_notin : forall (p p' : nat -> bool) k t,
  ~ In k t -> (forall n, n <> k -> p' n = p n) -> filter p' t = filter p t.
Proof.
  induction t as [|x t IH]; simpl; intros Hn Hoth; auto.
  assert (x <> k) by (intros ->; apply Hn; left; reflexivity).
  rewrite (Hoth x) by assumption. rewrite IH by tauto. reflexivity.
Qed.

Lemma filter_count_drop : forall (p p' : nat -> bool) l k,
  NoDup l -> In k l -> p k = true -> p' k = false -> (forall n, n <> k -> p' n = p n) ->
  length (filter p l) = S (length (filter p' l)).
Proof.
  induction l as [|h t IH]; intros k Hnd Hin Hk Hk' Hoth; [destruct Hin|].
  apply NoDup_cons_iff in Hnd. destruct Hnd as [Hnt Hndt].
  simpl. destruct (Nat.eq_dec h k) as [->|Hne].
  - rewrite Hk, Hk'. simpl. f_equal.
    rewrite (filter_ext_notin p p' k t Hnt Hoth). reflexivity.
  - destruct Hin as [->|Hin]; [congruence|].
    rewrite (Hoth h) by exact Hne. destruct (p h); simpl; rewrite (IH k); auto.
Qed.

Lemma set_nth_length : forall A (l : list A) i a, length (set_nth l i a) = length l.
Proof. intros. unfold set_nth. apply upd_length. Qed.
Lemma nth_set_nth_eq : forall A (l : list A) i a d, i < length l -> nth i (set_nth l i a) d = a.
Proof. intros. unfold set_nth. rewrite nth_upd_eq; auto. Qed.
Lemma nth_set_nth_neq : forall A (l : list A) i j a d, i <> j -> nth j (set_nth l i a) d = nth j l d.
Proof. intros. unfold set_nth. rewrite nth_upd_neq; auto. Qed.

(* the initial degree tables *)
Section InitTable.
  Variable f : nat -> Z.
  Let step := fun (l : list Z) (n : nat) => set_nth l n (f n).
  Lemma init_length : forall ns l, length (fold_left step ns l) = length l.
  Proof. induction ns; simpl; intros; auto. rewrite IHns. apply set_nth_length. Qed.
  Lemma init_notin : forall ns l v, ~ In v ns -> zget (fold_left step ns l) v = zget l v.
  Proof.
    induction ns as [|n t IH]; simpl; intros l v H; auto.
    rewrite IH by tauto. unfold zget, step. apply nth_set_nth_neq. intros ->. tauto.
  Qed.
  Lemma init_in : forall ns l v, In v ns -> v < length l -> zget (fold_left step ns l) v = f v.
  Proof.
    induction ns as [|n t IH]; simpl; intros l v H Hlt; [destruct H|].
    destruct (in_dec Nat.eq_dec v t) as [Hin|Hnin].
    - apply IH; auto. unfold step. rewrite set_nth_length. exact Hlt.
    - destruct H as [->|H]; [|tauto]. rewrite init_notin by exact Hnin.
      unfold zget, step. apply nth_set_nth_eq. exact Hlt.
  Qed.
End InitTable.

(* ---------- update_neighbors as two folds of named steps ---------- *)
Definition un_in_step (g : graph) (s : gst) (e : nat) : gst :=
  if self_loop g e then s else
  let src := e_from (gedge g e) in
  match arc_of s src with
  | Some _ => s
  | None =>
      let od := upd (outd s) src (fun z => z - 1)%Z in
      let sk := if (zget od src <=? 0)%Z && (0 <? zget (ind s) src)%Z then snks s ++ [src] else snks s in
      mkGst (arc s) od (ind s) (srcs s) sk (nextR s) (nextL s) (cnt s)
  end.

Definition un_out_step (g : graph) (s : gst) (e : nat) : gst :=
  if self_loop g e then s else
  let tgt := e_to (gedge g e) in
  match arc_of s tgt with
  | Some _ => s
  | None =>
      let id := upd (ind s) tgt (fun z => z - 1)%Z in
      let sr := if (zget id tgt <=? 0)%Z && (0 <? zget (outd s) tgt)%Z then srcs s ++ [tgt] else srcs s in
      mkGst (arc s) (outd s) id sr (snks s) (nextR s) (nextL s) (cnt s)
  end.

Lemma update_neighbors_eq : forall g s n,
  update_neighbors g s n =
  fold_left (un_out_step g) (n_out (gnode g n)) (fold_left (un_in_step g) (n_in (gnode g n)) s).
Proof. reflexivity. Qed.

Definition core (s : gst) := (arc s, nextL s, nextR s, cnt s).

Lemma un_in_step_core : forall g s e, core (un_in_step g s e) = core s.
Proof.
  intros. unfold un_in_step. destruct (self_loop g e); auto.
  destruct (arc_of s (e_from (gedge g e))); reflexivity.
Qed.
Lemma un_out_step_core : forall g s e, core (un_out_step g s e) = core s.
Proof.
  intros. unfold un_out_step. destruct (self_loop g e); auto.
  destruct (arc_of s (e_to (gedge g e))); reflexivity.
Qed.
Lemma fold_core : forall (step : gst -> nat -> gst), (forall s e, core (step s e) = core s) ->
  forall es s, core (fold_left step es s) = core s.
Proof. intros step H. induction es; simpl; intros; auto. rewrite IHes. apply H. Qed.
Lemma update_neighbors_core : forall g s n, core (update_neighbors g s n) = core s.
Proof.
  intros. rewrite update_neighbors_eq.
  rewrite (fold_core (un_out_step g) (un_out_step_core g)).
  apply (fold_core (un_in_step g) (un_in_step_core g)).
Qed.

Definition unasA (a : list (option Z)) (n : nat) : bool :=
  match nth n a None with None => true | Some _ => false end.

Lemma unasA_set_other : forall a k z n, n <> k -> unasA (set_nth a k (Some z)) n = unasA a n.
Proof. intros. unfold unasA. rewrite nth_set_nth_neq; auto. Qed.
Lemma unasA_set_same : forall a k z, k < length a -> unasA (set_nth a k (Some z)) k = false.
Proof. intros. unfold unasA. rewrite nth_set_nth_eq; auto. Qed.

Section Ranks.
  Variable g : graph.
  Hypothesis C : consistent g.
  Hypothesis NSL : no_self_loops g.

  Let L := length (g_na g).
  Let NN := g_N g.
  Let EE := g_E g.

  (* ================= A: what is assigned so far ================= *)
  Record AInvC (a : list (option Z)) (nl nr c : Z) : Prop := {
    a_len : length a = L;
    a_in : forall n z, nth n a None = Some z -> In n NN /\ ((1 <= z < nl) \/ (nr < z <= -1))%Z;
    a_inj : forall n m z, nth n a None = Some z -> nth m a None = Some z -> n = m;
    a_next : (1 <= nl /\ nr <= -1 /\ (nl - 1) + (-1 - nr) + c = Z.of_nat (length NN))%Z;
    a_cnt : c = Z.of_nat (length (filter (unasA a) NN))
  }.
  Definition AInv (s : gst) : Prop := AInvC (arc s) (nextL s) (nextR s) (cnt s).

  Lemma AInv_core : forall s s', core s = core s' -> AInv s -> AInv s'.
  Proof. intros s s' H. unfold core in H. inversion H. unfold AInv. congruence. Qed.

  Lemma NN_lt : forall n, In n NN -> n < L.
  Proof. intros n H. destruct C as [[_ CN2] _ _ _]. apply CN2. exact H. Qed.

  Lemma AInvC_assign : forall a nl nr c k z nl' nr',
    AInvC a nl nr c -> In k NN -> unasA a k = true ->
    ((z = nl /\ nl' = nl + 1 /\ nr' = nr) \/ (z = nr /\ nl' = nl /\ nr' = nr - 1))%Z ->
    AInvC (set_nth a k (Some z)) nl' nr' (c - 1).
  Proof.
    intros a nl nr c k z nl' nr' [A1 A2 A3 A4 A5] Hk Hun Hz.
    assert (Hkl : k < length a) by (rewrite A1; apply NN_lt; exact Hk).
    constructor.
    - rewrite set_nth_length. exact A1.
    - intros n z' Hn. destruct (Nat.eq_dec n k) as [->|Hne].
      + rewrite nth_set_nth_eq in Hn by exact Hkl. inversion Hn; subst z'. split; [exact Hk|]. lia.
      + rewrite nth_set_nth_neq in Hn by congruence. destruct (A2 n z' Hn) as [B1 B2]. split; [exact B1|]. lia.
    - intros n m z' Hn Hm.
      destruct (Nat.eq_dec n k) as [->|Hnk]; destruct (Nat.eq_dec m k) as [->|Hmk]; auto.
      + rewrite nth_set_nth_eq in Hn by exact Hkl. rewrite nth_set_nth_neq in Hm by congruence.
        inversion Hn; subst z'. destruct (A2 m z Hm) as [_ B]. lia.
      + rewrite nth_set_nth_eq in Hm by exact Hkl. rewrite nth_set_nth_neq in Hn by congruence.
        inversion Hm; subst z'. destruct (A2 n z Hn) as [_ B]. lia.
      + rewrite nth_set_nth_neq in Hn, Hm by congruence. eauto.
    - lia.
    - rewrite A5.
      rewrite (filter_count_drop (unasA a) (unasA (set_nth a k (Some z))) NN k); auto.
      + lia.
      + destruct C as [[CN1 _] _ _ _]. exact CN1.
      + apply unasA_set_same. exact Hkl.
      + intros n Hn. apply unasA_set_other. exact Hn.
  Qed.

  (* ================= B: the bookkeeping that makes popped nodes unassigned ================= *)
  Definition cntf (v : nat) (l : list nat) := length (filter (fun e => Nat.eqb (e_from (gedge g e)) v) l).
  Definition cntt (v : nat) (l : list nat) := length (filter (fun e => Nat.eqb (e_to (gedge g e)) v) l).

  Record BInvC (a : list (option Z)) (od id : list Z) (sr sk Dout Din : list nat) : Prop := {
    b_len : length od = L /\ length id = L;
    b_dout : NoDup Dout /\ forall e, In e Dout -> In e EE /\ unasA a (e_to (gedge g e)) = false;
    b_din : NoDup Din /\ forall e, In e Din -> In e EE /\ unasA a (e_from (gedge g e)) = false;
    b_outd : forall v, In v NN -> unasA a v = true ->
               zget od v = (Z.of_nat (outdeg g v) - Z.of_nat (cntf v Dout))%Z;
    b_ind : forall v, In v NN -> unasA a v = true ->
               zget id v = (Z.of_nat (indeg g v) - Z.of_nat (cntt v Din))%Z;
    b_lists : NoDup (sr ++ sk) /\ forall v, In v (sr ++ sk) -> In v NN /\ unasA a v = true;
    b_h1 : forall v, In v sr -> (zget id v <= 0)%Z;
    b_h2 : forall v, In v sk -> (zget od v <= 0)%Z
  }.
  Definition BInv (s : gst) (Dout Din : list nat) : Prop :=
    BInvC (arc s) (outd s) (ind s) (srcs s) (snks s) Dout Din.

  Lemma cntf_bound : forall v e Dout,
    In v NN -> NoDup (e :: Dout) -> (forall x, In x (e :: Dout) -> In x EE) -> e_from (gedge g e) = v ->
    S (cntf v Dout) <= outdeg g v.
  Proof.
    intros v e Dout Hv Hnd Hsub Hf. unfold cntf, outdeg.
    destruct C as [_ _ CO _]. destruct (CO v Hv) as [_ CO2].
    change (S (length (filter (fun e0 => Nat.eqb (e_from (gedge g e0)) v) Dout)))
      with (length (e :: filter (fun e0 => Nat.eqb (e_from (gedge g e0)) v) Dout)).
    apply NoDup_incl_length.
    - inversion Hnd; subst. constructor.
      + rewrite filter_In. tauto.
      + apply NoDup_filter. assumption.
    - intros x [<-|Hx].
      + apply CO2. split; auto. apply Hsub. left. reflexivity.
      + apply filter_In in Hx. destruct Hx as [Hx1 Hx2]. apply Nat.eqb_eq in Hx2.
        apply CO2. split; auto. apply Hsub. right. exact Hx1.
  Qed.

  Lemma cntt_bound : forall v e Din,
    In v NN -> NoDup (e :: Din) -> (forall x, In x (e :: Din) -> In x EE) -> e_to (gedge g e) = v ->
    S (cntt v Din) <= indeg g v.
  Proof.
    intros v e Din Hv Hnd Hsub Hf. unfold cntt, indeg.
    destruct C as [_ _ _ CI]. destruct (CI v Hv) as [_ CI2].
    change (S (length (filter (fun e0 => Nat.eqb (e_to (gedge g e0)) v) Din)))
      with (length (e :: filter (fun e0 => Nat.eqb (e_to (gedge g e0)) v) Din)).
    apply NoDup_incl_length.
    - inversion Hnd; subst. constructor.
      + rewrite filter_In. tauto.
      + apply NoDup_filter. assumption.
    - intros x [<-|Hx].
      + apply CI2. split; auto. apply Hsub. left. reflexivity.
      + apply filter_In in Hx. destruct Hx as [Hx1 Hx2]. apply Nat.eqb_eq in Hx2.
        apply CI2. split; auto. apply Hsub. right. exact Hx1.
  Qed.

  Lemma cntf_cons : forall v e l,
    cntf v (e :: l) = if Nat.eqb (e_from (gedge g e)) v then S (cntf v l) else cntf v l.
  Proof. intros. unfold cntf. simpl. destruct (Nat.eqb (e_from (gedge g e)) v); reflexivity. Qed.
  Lemma cntt_cons : forall v e l,
    cntt v (e :: l) = if Nat.eqb (e_to (gedge g e)) v then S (cntt v l) else cntt v l.
  Proof. intros. unfold cntt. simpl. destruct (Nat.eqb (e_to (gedge g e)) v); reflexivity. Qed.

  Lemma zget_upd_eq : forall l i f, i < length l -> zget (upd l i f) i = f (zget l i).
  Proof. intros. unfold zget. apply nth_upd_eq. assumption. Qed.
  Lemma zget_upd_neq : forall l i j f, i <> j -> zget (upd l i f) j = zget l j.
  Proof. intros. unfold zget. apply nth_upd_neq. assumption. Qed.

  (* one step of the first fold: edge e into the just-assigned node *)
  Lemma un_in_step_B : forall s Dout Din e,
    BInv s Dout Din -> In e EE -> unasA (arc s) (e_to (gedge g e)) = false -> ~ In e Dout ->
    BInv (un_in_step g s e) (e :: Dout) Din.
  Proof.
    intros s Dout Din e HB HeE Hto Hne.
    destruct HB as [[B1a B1b] [B2a B2b] B3 B4 B5 [B6a B6b] B7 B8].
    assert (Hsrc : In (e_from (gedge g e)) NN).
    { destruct C as [_ [_ CE2] _ _]. apply CE2. exact HeE. }
    assert (HD : NoDup (e :: Dout)) by (constructor; assumption).
    assert (HDE : forall x, In x (e :: Dout) -> In x EE).
    { intros x [<-|Hx]; auto. apply B2b. exact Hx. }
    unfold un_in_step. rewrite (NSL e HeE).
    set (src := e_from (gedge g e)) in *.
    assert (Hsl : src < length (outd s)) by (rewrite B1a; apply NN_lt; exact Hsrc).
    unfold arc_of. destruct (nth src (arc s) None) as [z|] eqn:Ha; cbv zeta.
    - (* source already assigned: nothing changes *)
      constructor; auto.
      + split; auto. intros x [<-|Hx]; auto.
      + intros v Hv Hun. rewrite cntf_cons.
        destruct (Nat.eqb (e_from (gedge g e)) v) eqn:E; [|auto].
        apply Nat.eqb_eq in E. fold src in E. subst v. unfold unasA in Hun. rewrite Ha in Hun. discriminate.
    - assert (Hunsrc : unasA (arc s) src = true) by (unfold unasA; rewrite Ha; reflexivity).
      assert (Hod : zget (upd (outd s) src (fun z => (z - 1)%Z)) src = (zget (outd s) src - 1)%Z)
        by (apply zget_upd_eq; exact Hsl).
      assert (Hge : (1 <= zget (outd s) src)%Z).
      { rewrite (B4 src Hsrc Hunsrc).
        pose proof (cntf_bound src e Dout Hsrc HD HDE eq_refl). lia. }
      constructor; cbn [arc outd ind srcs snks].
      + rewrite upd_length. auto.
      + split; auto. intros x [<-|Hx]; auto.
      + auto.
      + intros v Hv Hun. rewrite cntf_cons. fold src.
        destruct (Nat.eqb src v) eqn:E.
        * apply Nat.eqb_eq in E. subst v. rewrite Hod, (B4 src Hsrc Hun). lia.
        * apply Nat.eqb_neq in E. rewrite zget_upd_neq by exact E. auto.
      + exact B5.
      + destruct ((zget (upd (outd s) src (fun z => (z - 1)%Z)) src <=? 0)%Z && (0 <? zget (ind s) src)%Z) eqn:Hc.
        * apply andb_true_iff in Hc. destruct Hc as [Hc1 Hc2].
          apply Z.leb_le in Hc1. apply Z.ltb_lt in Hc2.
          assert (Hnl : ~ In src (srcs s ++ snks s)).
          { intros H. apply in_app_or in H. destruct H as [H|H].
            - apply B7 in H. lia.
            - apply B8 in H. lia. }
          split.
          -- rewrite app_assoc. apply NoDup_app_single; auto.
          -- intros v Hv. rewrite app_assoc in Hv. apply in_app_or in Hv.
             destruct Hv as [Hv|[<-|[]]]; auto.
        * split; auto.
      + exact B7.
      + intros v Hv.
        assert (Hmono : (zget (upd (outd s) src (fun z => (z - 1)%Z)) v <= zget (outd s) v)%Z).
        { destruct (Nat.eq_dec src v) as [<-|Hn]; [rewrite Hod; lia|rewrite zget_upd_neq by exact Hn; lia]. }
        destruct ((zget (upd (outd s) src (fun z => (z - 1)%Z)) src <=? 0)%Z && (0 <? zget (ind s) src)%Z) eqn:Hc.
        * apply in_app_or in Hv. destruct Hv as [Hv|[<-|[]]].
          -- apply B8 in Hv. lia.
          -- apply andb_true_iff in Hc. destruct Hc as [Hc1 _]. apply Z.leb_le in Hc1. exact Hc1.
        * apply B8 in Hv. lia.
  Qed.

  Lemma un_out_step_B : forall s Dout Din e,
    BInv s Dout Din -> In e EE -> unasA (arc s) (e_from (gedge g e)) = false -> ~ In e Din ->
    BInv (un_out_step g s e) Dout (e :: Din).
  Proof.
    intros s Dout Din e HB HeE Hfrom Hne.
    destruct HB as [[B1a B1b] B2 [B3a B3b] B4 B5 [B6a B6b] B7 B8].
    assert (Htgt : In (e_to (gedge g e)) NN).
    { destruct C as [_ [_ CE2] _ _]. apply CE2. exact HeE. }
    assert (HD : NoDup (e :: Din)) by (constructor; assumption).
    assert (HDE : forall x, In x (e :: Din) -> In x EE).
    { intros x [<-|Hx]; auto. apply B3b. exact Hx. }
    unfold un_out_step. rewrite (NSL e HeE).
    set (tgt := e_to (gedge g e)) in *.
    assert (Hsl : tgt < length (ind s)) by (rewrite B1b; apply NN_lt; exact Htgt).
    unfold arc_of. destruct (nth tgt (arc s) None) as [z|] eqn:Ha; cbv zeta.
    - constructor; auto.
      + split; auto. intros x [<-|Hx]; auto.
      + intros v Hv Hun. rewrite cntt_cons.
        destruct (Nat.eqb (e_to (gedge g e)) v) eqn:E; [|auto].
        apply Nat.eqb_eq in E. fold tgt in E. subst v. unfold unasA in Hun. rewrite Ha in Hun. discriminate.
    - assert (Huntgt : unasA (arc s) tgt = true) by (unfold unasA; rewrite Ha; reflexivity).
      assert (Hid : zget (upd (ind s) tgt (fun z => (z - 1)%Z)) tgt = (zget (ind s) tgt - 1)%Z)
        by (apply zget_upd_eq; exact Hsl).
      assert (Hge : (1 <= zget (ind s) tgt)%Z).
      { rewrite (B5 tgt Htgt Huntgt).
        pose proof (cntt_bound tgt e Din Htgt HD HDE eq_refl). lia. }
      constructor; cbn [arc outd ind srcs snks].
      + rewrite upd_length. auto.
      + auto.
      + split; auto. intros x [<-|Hx]; auto.
      + exact B4.
      + intros v Hv Hun. rewrite cntt_cons. fold tgt.
        destruct (Nat.eqb tgt v) eqn:E.
        * apply Nat.eqb_eq in E. subst v. rewrite Hid, (B5 tgt Htgt Hun). lia.
        * apply Nat.eqb_neq in E. rewrite zget_upd_neq by exact E. auto.
      + destruct ((zget (upd (ind s) tgt (fun z => (z - 1)%Z)) tgt <=? 0)%Z && (0 <? zget (outd s) tgt)%Z) eqn:Hc.
        * apply andb_true_iff in Hc. destruct Hc as [Hc1 Hc2].
          apply Z.leb_le in Hc1. apply Z.ltb_lt in Hc2.
          assert (Hnl : ~ In tgt (srcs s ++ snks s)).
          { intros H. apply in_app_or in H. destruct H as [H|H].
            - apply B7 in H. lia.
            - apply B8 in H. lia. }
          split.
          -- rewrite <- app_assoc. simpl. apply NoDup_insert; auto.
          -- intros v Hv. rewrite <- app_assoc in Hv. simpl in Hv. apply in_app_or in Hv.
             destruct Hv as [Hv|[<-|Hv]]; auto; apply B6b; apply in_or_app; auto.
        * split; auto.
      + intros v Hv.
        assert (Hmono : (zget (upd (ind s) tgt (fun z => (z - 1)%Z)) v <= zget (ind s) v)%Z).
        { destruct (Nat.eq_dec tgt v) as [<-|Hn]; [rewrite Hid; lia|rewrite zget_upd_neq by exact Hn; lia]. }
        destruct ((zget (upd (ind s) tgt (fun z => (z - 1)%Z)) tgt <=? 0)%Z && (0 <? zget (outd s) tgt)%Z) eqn:Hc.
        * apply in_app_or in Hv. destruct Hv as [Hv|[<-|[]]].
          -- apply B7 in Hv. lia.
          -- apply andb_true_iff in Hc. destruct Hc as [Hc1 _]. apply Z.leb_le in Hc1. exact Hc1.
        * apply B7 in Hv. lia.
      + exact B8.
  Qed.

  Lemma arc_of_core : forall s s', core s = core s' -> arc s = arc s'.
  Proof. intros s s' H. unfold core in H. inversion H. reflexivity. Qed.

  Lemma fold_in_B : forall k es s Dout Din,
    NoDup es -> (forall e, In e es -> In e EE /\ e_to (gedge g e) = k) ->
    (forall e, In e es -> ~ In e Dout) ->
    unasA (arc s) k = false -> BInv s Dout Din ->
    BInv (fold_left (un_in_step g) es s) (List.rev es ++ Dout) Din.
  Proof.
    induction es as [|e t IH]; intros s Dout Din Hnd Hes Hnin Hk HB; simpl; auto.
    inversion Hnd; subst.
    destruct (Hes e (or_introl eq_refl)) as [HeE Hto].
    rewrite <- app_assoc. simpl. apply IH; auto.
    - intros x Hx. apply Hes. right. exact Hx.
    - intros x Hx [<-|H]; [tauto|]. apply (Hnin x); [right; exact Hx|exact H].
    - rewrite (arc_of_core _ _ (un_in_step_core g s e)). exact Hk.
    - apply un_in_step_B; auto.
      + rewrite Hto. exact Hk.
      + apply Hnin. left. reflexivity.
  Qed.

  Lemma fold_out_B : forall k es s Dout Din,
    NoDup es -> (forall e, In e es -> In e EE /\ e_from (gedge g e) = k) ->
    (forall e, In e es -> ~ In e Din) ->
    unasA (arc s) k = false -> BInv s Dout Din ->
    BInv (fold_left (un_out_step g) es s) Dout (List.rev es ++ Din).
  Proof.
    induction es as [|e t IH]; intros s Dout Din Hnd Hes Hnin Hk HB; simpl; auto.
    inversion Hnd; subst.
    destruct (Hes e (or_introl eq_refl)) as [HeE Hfrom].
    rewrite <- app_assoc. simpl. apply IH; auto.
    - intros x Hx. apply Hes. right. exact Hx.
    - intros x Hx [<-|H]; [tauto|]. apply (Hnin x); [right; exact Hx|exact H].
    - rewrite (arc_of_core _ _ (un_out_step_core g s e)). exact Hk.
    - apply un_out_step_B; auto.
      + rewrite Hfrom. exact Hk.
      + apply Hnin. left. reflexivity.
  Qed.

  Lemma update_neighbors_B : forall s k Dout Din,
    In k NN -> unasA (arc s) k = false -> BInv s Dout Din ->
    (forall e, In e (n_in (gnode g k)) -> ~ In e Dout) ->
    (forall e, In e (n_out (gnode g k)) -> ~ In e Din) ->
    exists Dout' Din', BInv (update_neighbors g s k) Dout' Din'.
  Proof.
    intros s k Dout Din Hk Hun HB H1 H2.
    destruct C as [_ _ CO CI]. destruct (CO k Hk) as [CO1 CO2]. destruct (CI k Hk) as [CI1 CI2].
    rewrite update_neighbors_eq.
    eexists. eexists. apply fold_out_B with (k := k).
    - exact CO1.
    - intros e He. apply CO2. exact He.
    - exact H2.
    - rewrite (arc_of_core _ _ (fold_core (un_in_step g) (un_in_step_core g) _ s)). exact Hun.
    - apply fold_in_B with (k := k).
      + exact CI1.
      + intros e He. apply CI2. exact He.
      + exact H1.
      + exact Hun.
      + exact HB.
  Qed.

  (* assigning the head of the sink list / source list *)
  Lemma B_pop : forall a od id sr sk Dout Din k z sr' sk',
    BInvC a od id sr sk Dout Din -> length a = L ->
    ((sk = k :: sk' /\ sr' = sr) \/ (sr = k :: sr' /\ sk' = sk)) ->
    In k NN /\ unasA a k = true /\
    BInvC (set_nth a k (Some z)) od id sr' sk' Dout Din /\
    unasA (set_nth a k (Some z)) k = false /\
    (forall e, In e (n_in (gnode g k)) -> ~ In e Dout) /\
    (forall e, In e (n_out (gnode g k)) -> ~ In e Din).
  Proof.
    intros a od id sr sk Dout Din k z sr' sk' [B1 [B2a B2b] [B3a B3b] B4 B5 [B6a B6b] B7 B8] Hla Hpop.
    assert (Hkin : In k (sr ++ sk)).
    { apply in_or_app. destruct Hpop as [[-> _]|[-> _]]; [right|left]; left; reflexivity. }
    destruct (B6b k Hkin) as [HkN Hkun].
    assert (Hmono : forall v, unasA (set_nth a k (Some z)) v = true -> unasA a v = true).
    { intros v Hv. destruct (Nat.eq_dec v k) as [->|Hn]; [exact Hkun|].
      rewrite unasA_set_other in Hv by exact Hn. exact Hv. }
    assert (Hmono' : forall v, unasA a v = false -> unasA (set_nth a k (Some z)) v = false).
    { intros v Hv. destruct (unasA (set_nth a k (Some z)) v) eqn:E; auto. apply Hmono in E. congruence. }
    assert (Hnd' : NoDup (sr' ++ sk') /\ ~ In k (sr' ++ sk') /\ incl (sr' ++ sk') (sr ++ sk)).
    { destruct Hpop as [[-> ->]|[-> ->]].
      - split; [eapply NoDup_remove_1; eauto|]. split; [eapply NoDup_remove_2; eauto|].
        intros x Hx. apply in_app_or in Hx. apply in_or_app. destruct Hx; [left|right; right]; auto.
      - simpl in B6a. inversion B6a; subst. split; auto. split; auto.
        intros x Hx. right. exact Hx. }
    destruct Hnd' as [N1 [N2 N3]].
    destruct C as [_ _ CO CI]. destruct (CO k HkN) as [_ CO2]. destruct (CI k HkN) as [_ CI2].
    split; [exact HkN|]. split; [exact Hkun|]. split; [|split; [|split]].
    - constructor; auto.
      + split; auto. intros e He. destruct (B2b e He). auto.
      + split; auto. intros e He. destruct (B3b e He). auto.
      + split; auto. intros v Hv. destruct (B6b v (N3 v Hv)) as [E1 E2]. split; auto.
        rewrite unasA_set_other; auto. intros ->. tauto.
      + intros v Hv. apply B7. destruct Hpop as [[_ ->]|[-> _]]; [exact Hv|right; exact Hv].
      + intros v Hv. apply B8. destruct Hpop as [[-> _]|[_ ->]]; [right; exact Hv|exact Hv].
    - apply unasA_set_same. rewrite Hla. apply NN_lt. exact HkN.
    - intros e He Hd. apply CI2 in He. destruct He as [_ Hto]. destruct (B2b e Hd) as [_ Hu]. congruence.
    - intros e He Hd. apply CO2 in He. destruct He as [_ Hfr]. destruct (B3b e Hd) as [_ Hu]. congruence.
  Qed.

  (* ---------- one iteration of each drain loop ---------- *)
  Definition sink_next (s : gst) (k : nat) (rest : list nat) : gst :=
    let s1 := mkGst (set_nth (arc s) k (Some (nextR s))) (outd s) (ind s) (srcs s) rest
                    (nextR s - 1) (nextL s) (cnt s) in
    let s2 := update_neighbors g s1 k in
    mkGst (arc s2) (outd s2) (ind s2) (srcs s2) (snks s2) (nextR s2) (nextL s2) (cnt s2 - 1).

  Definition source_next (s : gst) (k : nat) (rest : list nat) : gst :=
    let s1 := mkGst (set_nth (arc s) k (Some (nextL s))) (outd s) (ind s) rest (snks s)
                    (nextR s) (nextL s + 1) (cnt s) in
    let s2 := update_neighbors g s1 k in
    mkGst (arc s2) (outd s2) (ind s2) (srcs s2) (snks s2) (nextR s2) (nextL s2) (cnt s2 - 1).

  Definition rest_next (s : gst) (n : nat) : gst :=
    let s1 := mkGst (set_nth (arc s) n (Some (nextL s))) (outd s) (ind s) (srcs s) (snks s)
                    (nextR s) (nextL s + 1) (cnt s) in
    let s2 := update_neighbors g s1 n in
    mkGst (arc s2) (outd s2) (ind s2) (srcs s2) (snks s2) (nextR s2) (nextL s2) (cnt s2 - 1).

  Lemma drain_sinks_eq : forall fuel s,
    drain_sinks fuel g s =
    match snks s with
    | [] => Ok s
    | k :: rest => match fuel with O => Err (ErrFuel 13) | S f => drain_sinks f g (sink_next s k rest) end
    end.
  Proof. intros [|f] s; reflexivity. Qed.

  Lemma drain_sources_eq : forall fuel s,
    drain_sources fuel g s =
    match srcs s with
    | [] => Ok s
    | k :: rest => match fuel with O => Err (ErrFuel 14) | S f => drain_sources f g (source_next s k rest) end
    end.
  Proof. intros [|f] s; reflexivity. Qed.

  Definition HasB (s : gst) : Prop := exists Dout Din, BInv s Dout Din.

  Lemma sink_next_inv : forall s k rest,
    snks s = k :: rest -> AInv s -> HasB s -> AInv (sink_next s k rest) /\ HasB (sink_next s k rest).
  Proof.
    intros s k rest Hs HA [Dout [Din HB]].
    destruct (B_pop (arc s) (outd s) (ind s) (srcs s) (snks s) Dout Din k (nextR s) (srcs s) rest HB)
      as [HkN [Hkun [HB1 [Hk1 [S1 S2]]]]].
    { apply (a_len _ _ _ _ HA). }
    { left. split; [exact Hs|reflexivity]. }
    set (s1 := mkGst (set_nth (arc s) k (Some (nextR s))) (outd s) (ind s) (srcs s) rest
                     (nextR s - 1) (nextL s) (cnt s)).
    destruct (update_neighbors_B s1 k Dout Din HkN Hk1 HB1 S1 S2) as [D1 [D2 HB2]].
    pose proof (update_neighbors_core g s1 k) as Hc. unfold core in Hc. inversion Hc as [[Ha Hl Hr Hn]].
    split.
    - unfold AInv, sink_next. fold s1. cbn [arc nextL nextR cnt]. rewrite Ha, Hl, Hr, Hn.
      subst s1. cbn [arc nextL nextR cnt].
      apply AInvC_assign with (nl := nextL s) (nr := nextR s); [exact HA|exact HkN|exact Hkun|right; auto].
    - exists D1, D2. exact HB2.
  Qed.

  Lemma source_next_inv : forall s k rest,
    srcs s = k :: rest -> AInv s -> HasB s -> AInv (source_next s k rest) /\ HasB (source_next s k rest).
  Proof.
    intros s k rest Hs HA [Dout [Din HB]].
    destruct (B_pop (arc s) (outd s) (ind s) (srcs s) (snks s) Dout Din k (nextL s) rest (snks s) HB)
      as [HkN [Hkun [HB1 [Hk1 [S1 S2]]]]].
    { apply (a_len _ _ _ _ HA). }
    { right. split; [exact Hs|reflexivity]. }
    set (s1 := mkGst (set_nth (arc s) k (Some (nextL s))) (outd s) (ind s) rest (snks s)
                     (nextR s) (nextL s + 1) (cnt s)).
    destruct (update_neighbors_B s1 k Dout Din HkN Hk1 HB1 S1 S2) as [D1 [D2 HB2]].
    pose proof (update_neighbors_core g s1 k) as Hc. unfold core in Hc. inversion Hc as [[Ha Hl Hr Hn]].
    split.
    - unfold AInv, source_next. fold s1. cbn [arc nextL nextR cnt]. rewrite Ha, Hl, Hr, Hn.
      subst s1. cbn [arc nextL nextR cnt].
      apply AInvC_assign with (nl := nextL s) (nr := nextR s); [exact HA|exact HkN|exact Hkun|left; auto].
    - exists D1, D2. exact HB2.
  Qed.

  Lemma rest_next_inv : forall s n,
    In n NN -> unasA (arc s) n = true -> AInv s -> AInv (rest_next s n).
  Proof.
    intros s n Hn Hun HA.
    set (s1 := mkGst (set_nth (arc s) n (Some (nextL s))) (outd s) (ind s) (srcs s) (snks s)
                     (nextR s) (nextL s + 1) (cnt s)).
    pose proof (update_neighbors_core g s1 n) as Hc. unfold core in Hc. inversion Hc as [[Ha Hl Hr Hc']].
    unfold AInv, rest_next. fold s1. cbn [arc nextL nextR cnt]. rewrite Ha, Hl, Hr, Hc'.
    subst s1. cbn [arc nextL nextR cnt].
    apply AInvC_assign with (nl := nextL s) (nr := nextR s); [exact HA|exact Hn|exact Hun|left; auto].
  Qed.

  Lemma drain_sinks_inv : forall f s s',
    drain_sinks f g s = Ok s' -> AInv s -> HasB s -> AInv s' /\ HasB s'.
  Proof.
    induction f as [|f IH]; intros s s' H HA HB; rewrite drain_sinks_eq in H;
      destruct (snks s) as [|k rest] eqn:Hs; try discriminate.
    - inversion H; subst. auto.
    - inversion H; subst. auto.
    - destruct (sink_next_inv s k rest Hs HA HB) as [HA1 HB1]. eapply IH; eauto.
  Qed.

  Lemma drain_sources_inv : forall f s s',
    drain_sources f g s = Ok s' -> AInv s -> HasB s -> AInv s' /\ HasB s'.
  Proof.
    induction f as [|f IH]; intros s s' H HA HB; rewrite drain_sources_eq in H;
      destruct (srcs s) as [|k rest] eqn:Hs; try discriminate.
    - inversion H; subst. auto.
    - inversion H; subst. auto.
    - destruct (source_next_inv s k rest Hs HA HB) as [HA1 HB1]. eapply IH; eauto.
  Qed.

  Lemma max_outflow_nodes_sub : forall s n,
    In n (max_outflow_nodes g s) -> In n NN /\ unasA (arc s) n = true.
  Proof.
    intros s n H. unfold max_outflow_nodes in H.
    set (unp := filter (fun n => match arc_of s n with None => true | Some _ => false end) (g_N g)) in *.
    assert (Hunp : In n unp).
    { destruct unp as [|n0 t]; [destruct H|]. apply filter_In in H. tauto. }
    apply filter_In in Hunp. exact Hunp.
  Qed.

  Lemma drain_rest_eq : forall fuel s,
    drain_rest fuel g s =
    if (cnt s <=? 0)%Z then Ok s else
    match fuel with
    | O => Err (ErrFuel 15)
    | S f =>
        match max_outflow_nodes g s with
        | [] => Err (ErrIndex 15)
        | c :: cs => drain_rest f g (rest_next s (nth (Nat.div (length (c :: cs)) 2) (c :: cs) 0))
        end
    end.
  Proof. intros [|f] s; reflexivity. Qed.

  Lemma drain_rest_inv : forall f s s',
    drain_rest f g s = Ok s' -> AInv s -> AInv s' /\ (cnt s' <= 0)%Z.
  Proof.
    induction f as [|f IH]; intros s s' H HA; rewrite drain_rest_eq in H;
      destruct (cnt s <=? 0)%Z eqn:Hc; try discriminate.
    - apply Z.leb_le in Hc. inversion H; subst. auto.
    - apply Z.leb_le in Hc. inversion H; subst. auto.
    - destruct (max_outflow_nodes g s) as [|c cs] eqn:Hm; [discriminate|].
      apply IH in H; auto.
      assert (Hin : In (nth (Nat.div (length (c :: cs)) 2) (c :: cs) 0) (max_outflow_nodes g s)).
      { rewrite Hm. apply nth_In. apply Nat.div_lt; simpl; lia. }
      apply max_outflow_nodes_sub in Hin. destruct Hin as [H1 H2].
      apply rest_next_inv; auto.
  Qed.

  Lemma greedy_outer_done : forall f s, (cnt s <= 0)%Z -> greedy_outer f g s = Ok s.
  Proof.
    intros f s H. apply Z.leb_le in H. destruct f; simpl; rewrite H; reflexivity.
  Qed.

  Lemma greedy_outer_eq : forall fuel s,
    greedy_outer fuel g s =
    if (cnt s <=? 0)%Z then Ok s else
    match fuel with
    | O => Err (ErrFuel 16)
    | S f =>
        let fl := S (length (g_na g) + length (g_ea g)) in
        do s <- drain_sinks fl g s;
        do s <- drain_sources fl g s;
        do s <- drain_rest fl g s;
        greedy_outer f g s
    end.
  Proof. intros [|f] s; reflexivity. Qed.

  Lemma greedy_outer_inv : forall f s s',
    greedy_outer f g s = Ok s' -> AInv s -> HasB s -> AInv s' /\ (cnt s' <= 0)%Z.
  Proof.
    intros f s s' H HA HB.
    destruct (Z_le_gt_dec (cnt s) 0) as [Hc|Hc].
    { rewrite greedy_outer_done in H by exact Hc. inversion H; subst. auto. }
    rewrite greedy_outer_eq in H.
    destruct (cnt s <=? 0)%Z eqn:Hc'. { apply Z.leb_le in Hc'. lia. }
    destruct f as [|f]; [discriminate|]. cbv zeta in H.
    set (fl := S (length (g_na g) + length (g_ea g))) in *.
      destruct (drain_sinks fl g s) as [s1|] eqn:H1; cbn [bind] in H; [|discriminate].
      destruct (drain_sinks_inv _ _ _ H1 HA HB) as [HA1 HB1].
      destruct (drain_sources fl g s1) as [s2|] eqn:H2; cbn [bind] in H; [|discriminate].
      destruct (drain_sources_inv _ _ _ H2 HA1 HB1) as [HA2 HB2].
      destruct (drain_rest fl g s2) as [s3|] eqn:H3; cbn [bind] in H; [|discriminate].
      destruct (drain_rest_inv _ _ _ H3 HA2) as [HA3 Hc3].
      rewrite greedy_outer_done in H by exact Hc3. inversion H; subst. auto.
  Qed.

  (* ---------- the initial state ---------- *)
  Definition no_isolated : Prop := forall n, In n NN -> indeg g n + outdeg g n > 0.

  Definition gst0 : gst :=
    let na := length (g_na g) in
    let zeros := repeat 0%Z na in
    let ind0 := fold_left (fun l n => set_nth l n (Z.of_nat (indeg g n))) (g_N g) zeros in
    let outd0 := fold_left (fun l n => set_nth l n (Z.of_nat (outdeg g n))) (g_N g) zeros in
    let sources := filter (fun n => Nat.eqb (indeg g n) 0) (g_N g) in
    let sinks := filter (fun n => Nat.eqb (outdeg g n) 0) (g_N g) in
    mkGst (repeat None na) outd0 ind0 sources sinks (-1) 1 (Z.of_nat (length (g_N g))).

  Lemma unasA_init : forall n, unasA (repeat None L) n = true.
  Proof. intros. unfold unasA. rewrite nth_repeat_None. reflexivity. Qed.

  Lemma AInv_init : AInv gst0.
  Proof.
    unfold AInv, gst0. cbn [arc nextL nextR cnt]. fold L. fold NN. constructor.
    - apply repeat_length.
    - intros n z H. rewrite nth_repeat_None in H. discriminate.
    - intros n m z H. rewrite nth_repeat_None in H. discriminate.
    - lia.
    - f_equal. clear. induction NN as [|h t IH]; simpl; auto. rewrite unasA_init. simpl. f_equal. exact IH.
  Qed.

  Lemma BInv_init : no_isolated -> BInv gst0 [] [].
  Proof.
    intros Hiso. unfold BInv, gst0. cbn [arc outd ind srcs snks]. fold L. fold NN.
    destruct C as [[CN1 CN2] _ _ _].
    constructor.
    - split; rewrite init_length; apply repeat_length.
    - split; [constructor|intros e []].
    - split; [constructor|intros e []].
    - intros v Hv _. rewrite init_in; auto. { unfold cntf. simpl. lia. }
      rewrite repeat_length. apply NN_lt. exact Hv.
    - intros v Hv _. rewrite init_in; auto. { unfold cntt. simpl. lia. }
      rewrite repeat_length. apply NN_lt. exact Hv.
    - split.
      + apply NoDup_app_intro.
        * apply NoDup_filter. exact CN1.
        * apply NoDup_filter. exact CN1.
        * intros x H1 H2. apply filter_In in H1. apply filter_In in H2.
          destruct H1 as [Hx H1]. destruct H2 as [_ H2].
          apply Nat.eqb_eq in H1. apply Nat.eqb_eq in H2.
          specialize (Hiso x Hx). lia.
      + intros v Hv. split; [|apply unasA_init].
        apply in_app_or in Hv. destruct Hv as [Hv|Hv]; apply filter_In in Hv; tauto.
    - intros v Hv. apply filter_In in Hv. destruct Hv as [Hv H0]. apply Nat.eqb_eq in H0.
      rewrite init_in; auto. { lia. } rewrite repeat_length. apply NN_lt. exact Hv.
    - intros v Hv. apply filter_In in Hv. destruct Hv as [Hv H0]. apply Nat.eqb_eq in H0.
      rewrite init_in; auto. { lia. } rewrite repeat_length. apply NN_lt. exact Hv.
  Qed.

  Definition shiftf (o : option Z) : option Z :=
    match o with
    | Some z => if (z <? 0)%Z then Some (z + (Z.of_nat (length (g_N g)) + 1))%Z else Some z
    | None => None
    end.

  Lemma greedy_ranks_eq :
    greedy_ranks g = do s <- greedy_outer (S (length (g_N g))) g gst0; Ok (map shiftf (arc s)).
  Proof. reflexivity. Qed.

  (* T5 (a) *)
  Lemma greedy_ranks_injective : forall r,
    no_isolated -> greedy_ranks g = Ok r -> injective_on NN (rank_of r).
  Proof.
    intros r Hiso H. rewrite greedy_ranks_eq in H.
    destruct (greedy_outer (S (length (g_N g))) g gst0) as [s|] eqn:Ho; cbn [bind] in H; [|discriminate].
    inversion H; subst r. clear H.
    destruct (greedy_outer_inv _ _ _ Ho AInv_init) as [[A1 A2 A3 A4 A5] Hc].
    { exists [], []. apply BInv_init. exact Hiso. }
    assert (Hc0 : cnt s = 0%Z) by lia.
    assert (Hall : forall n, In n NN -> exists z, nth n (arc s) None = Some z).
    { intros n Hn. rewrite Hc0 in A5.
      assert (Hf : filter (unasA (arc s)) NN = []).
      { destruct (filter (unasA (arc s)) NN); [reflexivity|simpl in A5; lia]. }
      destruct (nth n (arc s) None) as [z|] eqn:E; [eauto|].
      assert (In n (filter (unasA (arc s)) NN)).
      { apply filter_In. split; auto. unfold unasA. rewrite E. reflexivity. }
      rewrite Hf in H. destruct H. }
    assert (Hrk : forall n z, nth n (arc s) None = Some z ->
              rank_of (map shiftf (arc s)) n =
              if (z <? 0)%Z then (z + (Z.of_nat (length NN) + 1))%Z else z).
    { intros n z Hn. unfold rank_of.
      change (@None Z) with (shiftf None). rewrite map_nth. rewrite Hn. simpl.
      destruct (z <? 0)%Z; reflexivity. }
    intros n m Hn Hm Heq.
    destruct (Hall n Hn) as [zn Hzn]. destruct (Hall m Hm) as [zm Hzm].
    rewrite (Hrk n zn Hzn), (Hrk m zm Hzm) in Heq.
    destruct (A2 n zn Hzn) as [_ Rn]. destruct (A2 m zm Hzm) as [_ Rm].
    apply (A3 n m zn); auto. rewrite Hzm. f_equal.
    destruct (zn <? 0)%Z eqn:E1; destruct (zm <? 0)%Z eqn:E2;
      try apply Z.ltb_lt in E1; try apply Z.ltb_ge in E1;
      try apply Z.ltb_lt in E2; try apply Z.ltb_ge in E2; lia.
  Qed.
End Ranks.

Definition no_isolated_nodes (g : graph) : Prop :=
  forall n, In n (g_N g) -> indeg g n + outdeg g n > 0.

(* T5.
   Requested statement:
     forall g g', exec_greedy g = Ok g' -> consistent g -> no_self_loops g -> ranked g'.
   It is FALSE in the model: see greedy_counterexample in CycleBreaking.v (a consistent loop-free graph with
   isolated nodes on which phase1 Greedy = Err ErrStillCyclic; evaluated by vm_compute). An isolated node sits in
   both the initial source list and the initial sink list, is ranked and counted twice, and the main loop stops
   while some nodes still have no rank (they all read as rank 0, so a cycle among them survives).
   The closest true statement adds the hypothesis that no node of g_N is isolated, which holds for every
   connected component with at least two nodes (the only graphs phase1 runs exec_greedy on). *)
Theorem exec_greedy_ranked : forall g g',
  exec_greedy g = Ok g' -> consistent g -> no_self_loops g -> no_isolated_nodes g ->
  consistent g' /\ no_self_loops g' /\ g_N g' = g_N g /\ g_E g' = g_E g /\ ranked g'.
Proof.
  intros g g' H C N Hiso.
  destruct (greedy_ranks g) as [r|] eqn:Hr.
  - apply exec_greedy_ranked_of_injective with (r := r); auto.
    apply greedy_ranks_injective; auto.
  - rewrite exec_greedy_eq, Hr in H. discriminate.
Qed.
Print Assumptions exec_greedy_ranked.
