(* CBHasCycles.v — T2 (has_cycles complete), T3 (acyclic input untouched), T4 (has_cycles sound). *)
From Autog Require Import Base Graph Populate Phase1.
From Autog.Proofs Require Import CBBase CBExamples.
From Coq Require Import Lia List Arith ZArith Bool.
Import ListNotations.
Local Open Scope nat_scope.

(* ---------- the inner loop of hc_visit as a standalone definition ---------- *)
Definition hc_loop (f : nat) (g : graph) (n : nat) :=
  fix loop (es : list nat) (st : list nat * list nat) : res (bool * (list nat * list nat)) :=
    match es with
    | [] => Ok (false, st)
    | e :: t =>
        if self_loop g e then loop t st else
        let m := connected_node g e n in
        if mem_nat m (fst st) then Ok (true, st)
        else if negb (mem_nat m (snd st)) then
               do r <- hc_visit f g m st;
               if fst r then Ok r else loop t (snd r)
             else loop t st
    end.

Lemma hc_visit_S : forall f g n st,
  hc_visit (S f) g n st =
  (do r <- hc_loop f g n (n_out (gnode g n)) (n :: fst st, snd st);
   if fst r then Ok r else Ok (false, (remove_nat n (fst (snd r)), n :: snd (snd r)))).
Proof. reflexivity. Qed.

Lemma hc_loop_nil : forall f g n st, hc_loop f g n [] st = Ok (false, st).
Proof. reflexivity. Qed.

Lemma hc_loop_cons : forall f g n e t st,
  hc_loop f g n (e :: t) st =
  if self_loop g e then hc_loop f g n t st else
  let m := connected_node g e n in
  if mem_nat m (fst st) then Ok (true, st)
  else if negb (mem_nat m (snd st)) then
         do r <- hc_visit f g m st;
         if fst r then Ok r else hc_loop f g n t (snd r)
       else hc_loop f g n t st.
Proof. reflexivity. Qed.

Lemma hc_nodes_cons : forall F g n t st,
  hc_nodes F g (n :: t) st =
  if negb (mem_nat n (fst st)) && negb (mem_nat n (snd st)) then
    do r <- hc_visit F g n st; if fst r then Ok true else hc_nodes F g t (snd r)
  else hc_nodes F g t st.
Proof. reflexivity. Qed.

Lemma connected_node_out : forall g e n,
  e_from (gedge g e) = n -> self_loop g e = false -> connected_node g e n = e_to (gedge g e).
Proof.
  intros g e n Hf Hs. unfold connected_node.
  apply self_loop_false in Hs.
  destruct (Nat.eqb (e_to (gedge g e)) n) eqn:E; auto.
  apply Nat.eqb_eq in E. congruence.
Qed.

(* ================= T2: completeness ================= *)
Section Complete.
  Variable g : graph.
  Hypothesis C : consistent g.
  Variable rk : nat -> Z.
  Hypothesis Hrk : forall e, In e (g_E g) -> (rk (e_from (gedge g e)) < rk (e_to (gedge g e)))%Z.

  Lemma hc_visit_ranked : forall f n vis fin,
    In n (g_N g) ->
    (forall v, In v vis -> (rk v < rk n)%Z) ->
    NoDup vis -> (forall v, In v vis -> In v (g_N g)) ->
    f + length vis >= S (length (g_na g)) ->
    exists fin', hc_visit f g n (vis, fin) = Ok (false, (vis, fin')).
  Proof.
    destruct C as [[CN1 CN2] [CE1 CE2] CO CI].
    induction f as [|f IHf]; intros n vis fin Hn Hlt Hnd Hsub Hfuel.
    - exfalso.
      assert (Hnv : ~ In n vis). { intros H. apply Hlt in H. lia. }
      assert (length (n :: vis) <= length (g_na g)).
      { apply NoDup_bounded_length.
        - constructor; auto.
        - intros x [<-|Hx]; auto. }
      simpl in *. lia.
    - assert (Hnv : ~ In n vis). { intros H. apply Hlt in H. lia. }
      rewrite hc_visit_S. cbn [fst snd].
      assert (Hloop : forall es, (forall e, In e es -> In e (g_E g) /\ e_from (gedge g e) = n) ->
                forall fin0, exists fin', hc_loop f g n es (n :: vis, fin0) = Ok (false, (n :: vis, fin'))).
      { induction es as [|e t IHes]; intros Hes fin0.
        - exists fin0. reflexivity.
        - rewrite hc_loop_cons.
          assert (Ht : forall e, In e t -> In e (g_E g) /\ e_from (gedge g e) = n).
          { intros e' He'. apply Hes. right. exact He'. }
          destruct (Hes e (or_introl eq_refl)) as [HeE Hefrom].
          destruct (self_loop g e) eqn:Hsl.
          + apply IHes. exact Ht.
          + cbv zeta. rewrite (connected_node_out g e n Hefrom Hsl).
            pose proof (Hrk e HeE) as Hr. rewrite Hefrom in Hr.
            destruct (CE2 e HeE) as [_ [_ HtoN]].
            cbn [fst snd].
            assert (Hm : mem_nat (e_to (gedge g e)) (n :: vis) = false).
            { apply mem_nat_false. intros [H|H].
              - rewrite <- H in Hr. lia.
              - apply Hlt in H. lia. }
            rewrite Hm.
            destruct (mem_nat (e_to (gedge g e)) fin0) eqn:Hfin; cbn [negb].
            * apply IHes. exact Ht.
            * destruct (IHf (e_to (gedge g e)) (n :: vis) fin0) as [fin1 Hv].
              -- exact HtoN.
              -- intros v [<-|Hv]; [lia|]. apply Hlt in Hv. lia.
              -- constructor; auto.
              -- intros v [<-|Hv]; auto.
              -- simpl. lia.
              -- rewrite Hv. cbn [bind fst snd]. apply IHes. exact Ht. }
      destruct (Hloop (n_out (gnode g n))) with (fin0 := fin) as [fin' Hl].
      { intros e He. apply (proj2 (CO n Hn)). exact He. }
      rewrite Hl. cbn [bind fst snd].
      rewrite remove_nat_head by exact Hnv.
      eexists. reflexivity.
  Qed.

  Lemma hc_nodes_ranked : forall ns fin,
    incl ns (g_N g) -> hc_nodes (S (length (g_na g))) g ns ([], fin) = Ok false.
  Proof.
    induction ns as [|n t IH]; intros fin Hsub.
    - reflexivity.
    - rewrite hc_nodes_cons. cbn [fst snd].
      assert (Ht : incl t (g_N g)). { intros x Hx. apply Hsub. right. exact Hx. }
      destruct (negb (mem_nat n []) && negb (mem_nat n fin)) eqn:Hc.
      + destruct (hc_visit_ranked (S (length (g_na g))) n [] fin) as [fin' Hv].
        * apply Hsub. left. reflexivity.
        * intros v [].
        * constructor.
        * intros v [].
        * simpl. lia.
        * rewrite Hv. cbn [bind fst snd]. apply IH. exact Ht.
      + apply IH. exact Ht.
  Qed.
End Complete.

(* T2 *)
Theorem has_cycles_complete : forall g,
  consistent g -> no_self_loops g -> ranked g -> has_cycles g = Ok false.
Proof.
  intros g C _ [rk Hrk]. unfold has_cycles.
  apply hc_nodes_ranked with (rk := rk); auto. apply incl_refl.
Qed.
Print Assumptions has_cycles_complete.

Example has_cycles_complete_ex : has_cycles ex_dag = Ok false.
Proof. apply has_cycles_complete; [apply ex_dag_consistent|apply ex_dag_no_self_loops|apply ex_dag_ranked]. Qed.

(* ================= T3 ================= *)
Lemma seen_pair_true : forall p l, seen_pair p l = true -> In p l.
Proof.
  intros [a b] l H. unfold seen_pair in H. apply existsb_exists in H.
  destruct H as [[c d] [Hin Heq]]. unfold pair_eqb in Heq. simpl in Heq.
  apply andb_true_iff in Heq. destruct Heq as [H1 H2].
  apply Nat.eqb_eq in H1. apply Nat.eqb_eq in H2. subst. exact Hin.
Qed.

Lemma two_cycle_edges_ranked : forall g rk,
  (forall e, In e (g_E g) -> (rk (e_from (gedge g e)) < rk (e_to (gedge g e)))%Z) ->
  forall es seen,
    incl es (g_E g) ->
    (forall p, In p seen -> (rk (fst p) < rk (snd p))%Z) ->
    two_cycle_edges g es seen = [].
Proof.
  intros g rk Hrk. induction es as [|e t IH]; intros seen Hsub Hseen.
  - reflexivity.
  - simpl. assert (He : In e (g_E g)) by (apply Hsub; left; reflexivity).
    assert (Ht : incl t (g_E g)) by (intros x Hx; apply Hsub; right; exact Hx).
    pose proof (Hrk e He) as Hr.
    destruct (seen_pair (e_to (gedge g e), e_from (gedge g e)) seen) eqn:Hs.
    + apply seen_pair_true in Hs. apply Hseen in Hs. simpl in Hs. lia.
    + apply IH; auto. intros p [<-|Hp]; auto.
Qed.

Lemma remove_two_node_cycles_ranked : forall g, ranked g -> remove_two_node_cycles g = g.
Proof.
  intros g [rk Hrk]. unfold remove_two_node_cycles.
  rewrite (two_cycle_edges_ranked g rk Hrk); [reflexivity|apply incl_refl|intros p []].
Qed.

(* T3: half of C14 — an acyclic input is returned untouched by either algorithm *)
Theorem acyclic_input_untouched : forall alg g,
  consistent g -> no_self_loops g -> ranked g -> phase1 alg g = Ok g.
Proof.
  intros alg g C Hs Hr. unfold phase1.
  destruct (Nat.eqb (length (g_N g)) 1); [reflexivity|].
  rewrite (remove_two_node_cycles_ranked g Hr).
  rewrite (has_cycles_complete g C Hs Hr). reflexivity.
Qed.
Print Assumptions acyclic_input_untouched.

Example acyclic_input_untouched_ex :
  phase1 Greedy ex_dag = Ok ex_dag /\ phase1 DepthFirst ex_dag = Ok ex_dag.
Proof.
  split; apply acyclic_input_untouched;
    auto using ex_dag_consistent, ex_dag_no_self_loops, ex_dag_ranked.
Qed.

(* ================= order in a list: [after l x y] = y occurs strictly after an occurrence of x ================= *)
Inductive after : list nat -> nat -> nat -> Prop :=
| after_here : forall x l y, In y l -> after (x :: l) x y
| after_later : forall h l x y, after l x y -> after (h :: l) x y.

Lemma after_In_l : forall l x y, after l x y -> In x l.
Proof. induction 1; simpl; auto. Qed.
Lemma after_In_r : forall l x y, after l x y -> In y l.
Proof. induction 1; simpl; auto. Qed.

Lemma after_insert : forall a b n x y, after (a ++ b) x y -> after (a ++ n :: b) x y.
Proof.
  induction a as [|h a IH]; intros b n x y H; simpl in *.
  - apply after_later. exact H.
  - inversion H; subst.
    + apply after_here. rewrite in_app_iff in *. simpl. tauto.
    + apply after_later. apply IH. assumption.
Qed.

Fixpoint posn (x : nat) (l : list nat) : nat :=
  match l with [] => 0 | h :: t => if Nat.eqb x h then 0 else S (posn x t) end.

Lemma after_posn : forall l x y, NoDup l -> after l x y -> posn x l < posn y l.
Proof.
  intros l x y Hnd H. induction H as [x l y Hy | h l x y H IH].
  - inversion Hnd; subst. simpl. rewrite Nat.eqb_refl.
    destruct (Nat.eqb y x) eqn:E; [|lia]. apply Nat.eqb_eq in E. subst. tauto.
  - inversion Hnd; subst. simpl.
    pose proof (after_In_l _ _ _ H) as Hx. pose proof (after_In_r _ _ _ H) as Hy.
    destruct (Nat.eqb x h) eqn:E1. { apply Nat.eqb_eq in E1. subst. tauto. }
    destruct (Nat.eqb y h) eqn:E2. { apply Nat.eqb_eq in E2. subst. tauto. }
    specialize (IH H3). lia.
Qed.

(* ================= T4: soundness ================= *)
Section Sound.
  Variable g : graph.
  Hypothesis C : consistent g.
  Hypothesis NSL : no_self_loops g.

  (* finished list, most recently finished first: every edge out of a finished node leads to a node
     that was finished earlier *)
  Definition fin_ok (fin : list nat) : Prop :=
    NoDup fin /\
    forall u, In u fin -> forall e, In e (g_E g) -> e_from (gedge g e) = u -> after fin u (e_to (gedge g e)).

  Lemma hc_visit_sound : forall f n vis fin vis' fin',
    hc_visit f g n (vis, fin) = Ok (false, (vis', fin')) ->
    In n (g_N g) -> ~ In n vis -> ~ In n fin -> fin_ok fin ->
    (forall v, In v vis -> ~ In v fin) ->
    vis' = vis /\ fin_ok fin' /\ In n fin' /\ incl fin fin' /\ (forall v, In v vis -> ~ In v fin').
  Proof.
    destruct C as [[CN1 CN2] [CE1 CE2] CO CI].
    induction f as [|f IHf]; intros n vis fin vis' fin' Hrun Hn Hnv Hnf Hok Hdis.
    - simpl in Hrun. discriminate.
    - rewrite hc_visit_S in Hrun. cbn [fst snd] in Hrun.
      assert (Hloop : forall es fin0 vis1 fin1,
                hc_loop f g n es (n :: vis, fin0) = Ok (false, (vis1, fin1)) ->
                (forall e, In e es -> In e (g_E g) /\ e_from (gedge g e) = n) ->
                fin_ok fin0 -> (forall v, In v (n :: vis) -> ~ In v fin0) ->
                vis1 = n :: vis /\ fin_ok fin1 /\ incl fin0 fin1 /\
                (forall v, In v (n :: vis) -> ~ In v fin1) /\
                (forall e, In e es -> In (e_to (gedge g e)) fin1)).
      { induction es as [|e t IHes]; intros fin0 vis1 fin1 Hl Hes Hok0 Hdis0.
        - rewrite hc_loop_nil in Hl. inversion Hl; subst.
          repeat split; auto using incl_refl; try apply Hok0. intros e [].
        - rewrite hc_loop_cons in Hl.
          assert (Ht : forall e, In e t -> In e (g_E g) /\ e_from (gedge g e) = n).
          { intros e' He'. apply Hes. right. exact He'. }
          destruct (Hes e (or_introl eq_refl)) as [HeE Hefrom].
          rewrite (NSL e HeE) in Hl. cbv zeta in Hl.
          rewrite (connected_node_out g e n Hefrom (NSL e HeE)) in Hl.
          cbn [fst snd] in Hl.
          destruct (CE2 e HeE) as [_ [_ HtoN]].
          destruct (mem_nat (e_to (gedge g e)) (n :: vis)) eqn:Hm; [discriminate|].
          apply mem_nat_false in Hm.
          destruct (mem_nat (e_to (gedge g e)) fin0) eqn:Hfin; cbn [negb] in Hl.
          + apply mem_nat_true in Hfin.
            destruct (IHes fin0 vis1 fin1 Hl Ht Hok0 Hdis0) as [E1 [E2 [E3 [E4 E5]]]].
            repeat split; auto; try apply E2.
            intros e' [<-|He']; auto.
          + apply mem_nat_false in Hfin.
            destruct (hc_visit f g (e_to (gedge g e)) (n :: vis, fin0)) as [[b [v2 f2]]|err] eqn:Hv;
              cbn [bind fst snd] in Hl; [|discriminate].
            destruct b; [discriminate|].
            destruct (IHf _ _ _ _ _ Hv HtoN Hm Hfin Hok0 Hdis0) as [V1 [V2 [V3 [V4 V5]]]].
            subst v2.
            destruct (IHes f2 vis1 fin1 Hl Ht V2 V5) as [E1 [E2 [E3 [E4 E5]]]].
            repeat split; auto; try apply E2.
            * intros x Hx. apply E3. apply V4. exact Hx.
            * intros e' [<-|He']; auto. }
      destruct (hc_loop f g n (n_out (gnode g n)) (n :: vis, fin)) as [[b [v1 f1]]|err] eqn:Hl;
        cbn [bind fst snd] in Hrun; [|discriminate].
      destruct b; [discriminate|].
      inversion Hrun; subst vis' fin'. clear Hrun.
      destruct (Hloop _ _ _ _ Hl) as [E1 [E2 [E3 [E4 E5]]]].
      { intros e He. apply (proj2 (CO n Hn)). exact He. }
      { exact Hok. }
      { intros v [<-|Hv]; auto. }
      subst v1. rewrite remove_nat_head by exact Hnv.
      split; [reflexivity|].
      assert (Hnf1 : ~ In n f1) by (apply E4; left; reflexivity).
      split; [|split; [left; reflexivity|split]].
      + split.
        * constructor; [exact Hnf1|apply E2].
        * intros u [<-|Hu] e HeE Hfr.
          -- apply after_here. apply E5. apply (proj2 (CO _ Hn)). auto.
          -- apply after_later. apply (proj2 E2 u Hu e HeE Hfr).
      + intros x Hx. right. apply E3. exact Hx.
      + intros v Hv [<-|H]; [tauto|]. apply (E4 v); [right; exact Hv|exact H].
  Qed.

  Lemma hc_nodes_sound : forall F ns fin,
    hc_nodes F g ns ([], fin) = Ok false ->
    incl ns (g_N g) -> fin_ok fin ->
    exists fin', fin_ok fin' /\ incl fin fin' /\ incl ns fin'.
  Proof.
    induction ns as [|n t IH]; intros fin Hrun Hsub Hok.
    - exists fin. repeat split; auto using incl_refl; try apply Hok. intros x [].
    - rewrite hc_nodes_cons in Hrun. cbn [fst snd] in Hrun.
      assert (Ht : incl t (g_N g)). { intros x Hx. apply Hsub. right. exact Hx. }
      assert (Hn : In n (g_N g)) by (apply Hsub; left; reflexivity).
      destruct (mem_nat n fin) eqn:Hm; cbn [mem_nat existsb negb andb] in Hrun.
      + apply mem_nat_true in Hm.
        destruct (IH fin Hrun Ht Hok) as [fin' [A1 [A2 A3]]].
        exists fin'. repeat split; auto; try apply A1.
        intros x [<-|Hx]; auto.
      + apply mem_nat_false in Hm.
        destruct (hc_visit F g n ([], fin)) as [[b [v2 f2]]|err] eqn:Hv;
          cbn [bind fst snd] in Hrun; [|discriminate].
        destruct b; [discriminate|].
        destruct (hc_visit_sound _ _ _ _ _ _ Hv Hn) as [V1 [V2 [V3 [V4 V5]]]]; auto.
        subst v2.
        destruct (IH f2 Hrun Ht V2) as [fin' [A1 [A2 A3]]].
        exists fin'. repeat split; auto; try apply A1.
        * intros x Hx. apply A2. apply V4. exact Hx.
        * intros x [<-|Hx]; auto.
  Qed.
End Sound.

(* T4 *)
Theorem has_cycles_sound : forall g,
  consistent g -> no_self_loops g -> has_cycles g = Ok false -> ranked g.
Proof.
  intros g C NSL H. unfold has_cycles in H.
  destruct (hc_nodes_sound g C NSL _ _ _ H) as [fin [[Hnd Hok] [_ Hsub]]].
  - apply incl_refl.
  - split; [constructor|]. intros u [].
  - exists (fun v => Z.of_nat (posn v fin)). intros e He.
    destruct C as [_ [_ CE2] _ _]. destruct (CE2 e He) as [_ [Hf _]].
    apply Hsub in Hf.
    pose proof (Hok _ Hf e He eq_refl) as Ha.
    apply after_posn in Ha; auto. lia.
Qed.
Print Assumptions has_cycles_sound.

Example has_cycles_sound_ex : has_cycles ex_dag = Ok false /\ has_cycles ex_cyc = Ok true.
Proof. split; vm_compute; reflexivity. Qed.

(* ranked is exactly "has_cycles answers false" on consistent loop-free graphs *)
Corollary has_cycles_iff_ranked : forall g,
  consistent g -> no_self_loops g -> (has_cycles g = Ok false <-> ranked g).
Proof.
  intros g C N. split; [apply has_cycles_sound|apply has_cycles_complete]; auto.
Qed.
