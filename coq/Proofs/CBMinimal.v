(* CBMinimal.v — minimality of the reversed set for the WHOLE of phase 1 with the depth-first breaker:
   pre-pass removeTwoNodeCycles + depth-first pass, with the e_rev flag toggled by both.

   "Drawn reversed" = e_rev = true in the final graph g' = phase1 DepthFirst g; the edges "as drawn" = the
   orientation in g'; un-reversing e = reverse_edge g' e.

     phase1_dfs_minimal         un-reversing any single flagged edge re-creates a directed cycle
     phase1_dfs_minimal_path    ... and the cycle is: e followed by a walk of UNFLAGGED edges (so the flagged set is
                                a minimal feedback arc set in the removal sense too)
     phase1_dfs_minimal_subset  un-reversing any non-empty set of flagged edges leaves a directed cycle
     phase1_flagged_iff         which edges end up flagged: those reversed by exactly one of the two passes
     dfs_parallel_alike         the depth-first pass treats parallel edges alike                              *)
From Autog Require Import Base Graph Populate Phase1.
From Autog.Proofs Require Import CycleBreaking.
From Coq Require Import Lia List Arith ZArith Bool.
Import ListNotations.
Local Open Scope nat_scope.

(* the input of phase 1: nothing is flagged yet *)
Definition all_unflagged (g : graph) : Prop := forall e, In e (g_E g) -> e_rev (gedge g e) = false.

Definition all_unflaggedb (g : graph) : bool := forallb (fun e => negb (e_rev (gedge g e))) (g_E g).
Lemma all_unflaggedb_sound : forall g, all_unflaggedb g = true -> all_unflagged g.
Proof.
  intros g H e He. unfold all_unflaggedb in H. rewrite forallb_forall in H.
  apply H in He. apply negb_true_iff in He. exact He.
Qed.

(* ---------- the pre-pass: every edge it reverses has an earlier, un-reversed twin in the opposite direction ---------- *)
Lemma seen_pair_cons : forall p q l, seen_pair p (q :: l) = pair_eqb p q || seen_pair p l.
Proof. reflexivity. Qed.

Lemma pair_eqb_true : forall a b c d, pair_eqb (a, b) (c, d) = true <-> a = c /\ b = d.
Proof.
  intros. unfold pair_eqb. simpl. rewrite andb_true_iff, !Nat.eqb_eq. tauto.
Qed.

Lemma two_cycle_edges_twin_gen : forall g es seen e, NoDup es ->
  In e (two_cycle_edges g es seen) ->
  seen_pair (e_to (gedge g e), e_from (gedge g e)) seen = true \/
  exists e0, In e0 es /\ ~ In e0 (two_cycle_edges g es seen) /\
             e_from (gedge g e0) = e_to (gedge g e) /\ e_to (gedge g e0) = e_from (gedge g e).
Proof.
  intros g. induction es as [|x t IH]; intros seen e Hnd H; simpl in H |- *.
  - contradiction.
  - apply NoDup_cons_iff in Hnd. destruct Hnd as [Hxt Hndt].
    destruct (seen_pair (e_to (gedge g x), e_from (gedge g x)) seen) eqn:S.
    + destruct H as [<-|H]; [left; exact S|].
      destruct (IH seen e Hndt H) as [L|[e0 [A [B [D1 D2]]]]]; [left; exact L|].
      right. exists e0. split; [right; exact A|]. split; [|split; assumption].
      intros [<-|Hc]; [apply Hxt; exact A|apply B; exact Hc].
    + destruct (IH _ e Hndt H) as [L|[e0 [A [B [D1 D2]]]]].
      * rewrite seen_pair_cons in L. apply orb_true_iff in L. destruct L as [L|L]; [|left; exact L].
        apply pair_eqb_true in L. destruct L as [L1 L2].
        right. exists x. split; [left; reflexivity|]. split; [|split; congruence].
        intros Hc. apply two_cycle_edges_sub in Hc. apply Hxt. exact Hc.
      * right. exists e0. split; [right; exact A|]. split; [exact B|]. split; assumption.
Qed.

Lemma two_cycle_edges_twin : forall g e, NoDup (g_E g) ->
  In e (two_cycle_edges g (g_E g) []) ->
  exists e0, In e0 (g_E g) /\ ~ In e0 (two_cycle_edges g (g_E g) []) /\
             e_from (gedge g e0) = e_to (gedge g e) /\ e_to (gedge g e0) = e_from (gedge g e).
Proof.
  intros g e Hnd H. destruct (two_cycle_edges_twin_gen g (g_E g) [] e Hnd H) as [L|L]; [discriminate L|exact L].
Qed.

(* ---------- parallel edges are treated alike by any acyclic set of reversals ---------- *)
Lemma gpath_rank_P : forall g (P : nat -> Prop) (rk : nat -> Z) x y,
  (forall t, In t (g_E g) -> P t -> (rk (e_from (gedge g t)) < rk (e_to (gedge g t)))%Z) ->
  gpath g P x y -> (rk x <= rk y)%Z.
Proof.
  intros g P rk x y Hrk H. induction H as [x|t x z Ht HP Hf Hp IH]; [lia|].
  specialize (Hrk t Ht HP). subst x. lia.
Qed.

Lemma reversal_parallel_alike : forall g rv,
  consistent g -> no_self_loops g -> NoDup rv -> incl rv (g_E g) ->
  ranked (fold_left reverse_edge rv g) ->
  forall e1 e2, In e1 (g_E g) -> In e2 (g_E g) ->
    e_from (gedge g e1) = e_from (gedge g e2) -> e_to (gedge g e1) = e_to (gedge g e2) ->
    (In e1 rv <-> In e2 rv).
Proof.
  intros g rv C N Hnd Hsub R.
  assert (Hhalf : forall e1 e2, In e1 (g_E g) -> In e2 (g_E g) ->
    e_from (gedge g e1) = e_from (gedge g e2) -> e_to (gedge g e1) = e_to (gedge g e2) ->
    In e1 rv -> In e2 rv).
  { intros e1 e2 H1 H2 Hf Ht Hr1.
    destruct (in_dec Nat.eq_dec e2 rv) as [Hr2|Hr2]; [exact Hr2|exfalso].
    destruct (fold_reverse_edges rv g C N Hnd Hsub) as [_ [_ [_ [HE' [B5 B6]]]]].
    destruct R as [rk Hrk]. rewrite HE' in Hrk.
    pose proof (Hrk e1 H1) as K1. pose proof (Hrk e2 H2) as K2.
    destruct (B6 e1 Hr1) as [F1 [T1 _]]. rewrite F1, T1 in K1. rewrite (B5 e2 Hr2) in K2.
    rewrite Hf, Ht in K1. lia. }
  intros e1 e2 H1 H2 Hf Ht. split; [apply Hhalf; auto|apply Hhalf; auto].
Qed.

(* KEY LEMMA of the task description: the depth-first pass reverses either both or none of two parallel edges.
   (Operationally: while node a is being scanned, "b is active" does not change.  Here it simply follows from
   the acyclicity of the result: one reversed and one kept would be a 2-cycle.) *)
Theorem dfs_parallel_alike : forall g rv,
  consistent g -> no_self_loops g -> depth_first_rev g = Ok rv ->
  forall e1 e2, In e1 (g_E g) -> In e2 (g_E g) ->
    e_from (gedge g e1) = e_from (gedge g e2) -> e_to (gedge g e1) = e_to (gedge g e2) ->
    (In e1 rv <-> In e2 rv).
Proof.
  intros g rv C N H.
  destruct (depth_first_rev_spec g C N rv H) as [tree [Hnd [Hsub _]]].
  destruct (NoDup_app_inv rv tree Hnd) as [Hndr _].
  apply reversal_parallel_alike; auto.
  - intros x Hx. apply Hsub. apply in_or_app. left. exact Hx.
  - destruct (exec_depth_first_ranked g (fold_left reverse_edge rv g)) as [_ [_ [_ [_ R]]]]; auto.
    rewrite exec_depth_first_eq, H. reflexivity.
Qed.
Print Assumptions dfs_parallel_alike.

(* ---------- two passes of reversals ---------- *)
(* tc = the pre-pass list, rv = any second list whose reversal leaves the graph acyclic.  Everything we need to
   know about the final graph, edge by edge. *)
Section TwoPasses.
  Variable g : graph.
  Hypothesis C : consistent g.
  Hypothesis NSL : no_self_loops g.
  Hypothesis UF : all_unflagged g.
  Let tc := two_cycle_edges g (g_E g) [].
  Let g1 := remove_two_node_cycles g.
  Variable rv : list nat.
  Hypothesis Hnd : NoDup rv.
  Hypothesis Hsub : incl rv (g_E g1).
  Let g' := fold_left reverse_edge rv g1.
  Hypothesis R : ranked g'.

  Lemma tp_facts :
    (consistent g1 /\ no_self_loops g1 /\ g_E g1 = g_E g) /\
    (consistent g' /\ no_self_loops g' /\ g_E g' = g_E g) /\
    (forall e, ~ In e tc -> gedge g1 e = gedge g e) /\
    (forall e, In e tc -> e_from (gedge g1 e) = e_to (gedge g e) /\ e_to (gedge g1 e) = e_from (gedge g e) /\
                          e_rev (gedge g1 e) = negb (e_rev (gedge g e))) /\
    (forall e, ~ In e rv -> gedge g' e = gedge g1 e) /\
    (forall e, In e rv -> e_from (gedge g' e) = e_to (gedge g1 e) /\ e_to (gedge g' e) = e_from (gedge g1 e) /\
                          e_rev (gedge g' e) = negb (e_rev (gedge g1 e))).
  Proof.
    pose proof C as [_ [CE1 _] _ _].
    destruct (fold_reverse_edges tc g C NSL) as [A1 [A2 [A3 [A4 [A5 A6]]]]].
    { apply two_cycle_edges_nodup. exact CE1. }
    { intros e He. apply two_cycle_edges_sub in He. exact He. }
    change (fold_left reverse_edge tc g) with g1 in A1, A2, A3, A4, A5, A6.
    destruct (fold_reverse_edges rv g1 A1 A2 Hnd Hsub) as [B1 [B2 [B3 [B4 [B5 B6]]]]].
    change (fold_left reverse_edge rv g1) with g' in B1, B2, B3, B4, B5, B6.
    split; [auto|]. split; [split; [exact B1|split; [exact B2|congruence]]|].
    split; [exact A5|]. split; [exact A6|]. split; [exact B5|exact B6].
  Qed.

  (* which edges are flagged in the end *)
  Lemma tp_flagged_iff : forall e, In e (g_E g) ->
    (e_rev (gedge g' e) = true <-> (In e tc /\ ~ In e rv) \/ (In e rv /\ ~ In e tc)).
  Proof.
    intros e He. destruct tp_facts as [_ [_ [A5 [A6 [B5 B6]]]]].
    pose proof (UF e He) as Hu.
    destruct (in_dec Nat.eq_dec e tc) as [Ht|Ht]; destruct (in_dec Nat.eq_dec e rv) as [Hr|Hr].
    - destruct (B6 e Hr) as [_ [_ ->]]. destruct (A6 e Ht) as [_ [_ ->]]. rewrite Hu. simpl.
      split; [discriminate|tauto].
    - rewrite (B5 e Hr). destruct (A6 e Ht) as [_ [_ ->]]. rewrite Hu. simpl. tauto.
    - destruct (B6 e Hr) as [_ [_ ->]]. rewrite (A5 e Ht), Hu. simpl. tauto.
    - rewrite (B5 e Hr), (A5 e Ht), Hu. split; [discriminate|tauto].
  Qed.

  (* parallel edges of g1 are treated alike by the second pass: otherwise they would form a 2-cycle in g' *)
  Lemma tp_parallel_alike : forall e1 e2, In e1 (g_E g) -> In e2 (g_E g) ->
    e_from (gedge g1 e1) = e_from (gedge g1 e2) -> e_to (gedge g1 e1) = e_to (gedge g1 e2) ->
    (In e1 rv <-> In e2 rv).
  Proof.
    destruct tp_facts as [[C1 [N1 HE1]] _]. rewrite <- HE1.
    apply reversal_parallel_alike; auto.
  Qed.

  (* the twin of a pre-pass edge: an edge the pre-pass leaves alone, parallel to it in g1 (hence in g') *)
  Lemma tp_twin : forall e, In e tc ->
    exists e0, In e0 (g_E g) /\ ~ In e0 tc /\ e0 <> e /\
               e_from (gedge g1 e0) = e_from (gedge g1 e) /\ e_to (gedge g1 e0) = e_to (gedge g1 e) /\
               (In e0 rv <-> In e rv).
  Proof.
    intros e Ht. pose proof C as [_ [CE1 _] _ _].
    destruct (two_cycle_edges_twin g e CE1 Ht) as [e0 [H0 [Hn0 [D1 D2]]]]. fold tc in Hn0.
    destruct tp_facts as [_ [_ [A5 [A6 _]]]].
    destruct (A6 e Ht) as [F [T _]].
    assert (Hf : e_from (gedge g1 e0) = e_from (gedge g1 e)) by (rewrite (A5 e0 Hn0); congruence).
    assert (Hto : e_to (gedge g1 e0) = e_to (gedge g1 e)) by (rewrite (A5 e0 Hn0); congruence).
    exists e0. split; [exact H0|]. split; [exact Hn0|]. split; [intros ->; tauto|].
    split; [exact Hf|]. split; [exact Hto|].
    apply tp_parallel_alike; auto. apply (two_cycle_edges_sub g (g_E g) []). exact Ht.
  Qed.

  (* un-reversing a flagged edge that only the pre-pass reversed: a 2-cycle with its twin *)
  Lemma tp_prepass_only_cyclic : forall e, In e tc -> ~ In e rv -> ~ ranked (reverse_edge g' e).
  Proof.
    intros e Ht Hr [rk Hrk].
    destruct (tp_twin e Ht) as [e0 [H0 [Hn0 [Hne [Hf [Hto Hiff]]]]]].
    assert (Hr0 : ~ In e0 rv) by tauto.
    destruct tp_facts as [_ [[C' [N' HE']] [_ [_ [B5 _]]]]].
    assert (He : In e (g_E g')). { rewrite HE'. apply (two_cycle_edges_sub g (g_E g) []). exact Ht. }
    destruct (reverse_edge_consistent g' e C' He (N' e He)) as [_ [_ [HE2 [Ho [F2 [T2 _]]]]]].
    rewrite HE2, HE' in Hrk.
    pose proof (Hrk e0 H0) as K0. rewrite (Ho e0 Hne), (B5 e0 Hr0), Hf, Hto in K0.
    rewrite HE' in He. pose proof (Hrk e He) as K. rewrite F2, T2, (B5 e Hr) in K. lia.
  Qed.
  (* unflagged edges are drawn in their original direction, flagged ones in the opposite direction *)
  Lemma tp_orientation : forall e, In e (g_E g) ->
    if e_rev (gedge g' e)
    then e_from (gedge g' e) = e_to (gedge g e) /\ e_to (gedge g' e) = e_from (gedge g e)
    else e_from (gedge g' e) = e_from (gedge g e) /\ e_to (gedge g' e) = e_to (gedge g e).
  Proof.
    intros e He. destruct tp_facts as [_ [_ [A5 [A6 [B5 B6]]]]].
    pose proof (UF e He) as Hu.
    destruct (in_dec Nat.eq_dec e tc) as [Ht|Ht]; destruct (in_dec Nat.eq_dec e rv) as [Hr|Hr].
    - destruct (B6 e Hr) as [F [T ->]]. destruct (A6 e Ht) as [F1 [T1 ->]]. rewrite Hu. simpl. split; congruence.
    - rewrite (B5 e Hr). destruct (A6 e Ht) as [F1 [T1 ->]]. rewrite Hu. simpl. split; congruence.
    - destruct (B6 e Hr) as [F [T ->]]. rewrite (A5 e Ht) in *. rewrite Hu. simpl. split; congruence.
    - rewrite (B5 e Hr), (A5 e Ht), Hu. split; reflexivity.
  Qed.

  Lemma tp_unflagged : forall t, In t (g_E g) -> ~ In t tc -> ~ In t rv -> e_rev (gedge g' t) = false.
  Proof.
    intros t Ht H1 H2. destruct (e_rev (gedge g' t)) eqn:E; [|reflexivity].
    apply (tp_flagged_iff t Ht) in E. tauto.
  Qed.

  (* a walk that avoids e and the second list can be rerouted through unflagged edges only:
     a pre-pass edge on it is replaced by its twin *)
  Lemma tp_reroute : forall e, In e rv \/ In e tc -> forall x y,
    gpath (reverse_edge g' e) (fun t => t <> e /\ ~ In t rv) x y ->
    gpath (reverse_edge g' e) (fun t => t <> e /\ e_rev (gedge g' t) = false) x y.
  Proof.
    intros e Hin x y H. destruct tp_facts as [_ [[_ [_ HE']] [_ [_ [B5 _]]]]].
    induction H as [x|t x z Ht [Hne Hnr] Hf Hp IH]; [constructor|].
    rewrite reverse_edge_E, HE' in Ht.
    destruct (in_dec Nat.eq_dec t tc) as [Htc|Htc].
    - destruct (tp_twin t Htc) as [t0 [H0 [Hn0 [_ [F0 [T0 Hiff]]]]]].
      assert (Hr0 : ~ In t0 rv) by tauto.
      assert (Hne0 : t0 <> e). { intros ->. destruct Hin; tauto. }
      rewrite (reverse_edge_gedge_other g' e t Hne), (B5 t Hnr) in Hf, IH.
      apply gp_step with t0.
      + rewrite reverse_edge_E, HE'. exact H0.
      + split; [exact Hne0|]. apply tp_unflagged; assumption.
      + rewrite (reverse_edge_gedge_other g' e t0 Hne0), (B5 t0 Hr0), F0. exact Hf.
      + rewrite (reverse_edge_gedge_other g' e t0 Hne0), (B5 t0 Hr0), T0. exact IH.
    - apply gp_step with t; auto.
      + rewrite reverse_edge_E, HE'. exact Ht.
      + split; [exact Hne|]. apply tp_unflagged; assumption.
  Qed.

  (* the cycle through an un-reversed pre-pass-only edge: the twin *)
  Lemma tp_prepass_only_path : forall e, In e tc -> ~ In e rv ->
    gpath (reverse_edge g' e) (fun t => t <> e /\ e_rev (gedge g' t) = false)
          (e_from (gedge g' e)) (e_to (gedge g' e)).
  Proof.
    intros e Ht Hr.
    destruct (tp_twin e Ht) as [e0 [H0 [Hn0 [Hne [Hf [Hto Hiff]]]]]].
    assert (Hr0 : ~ In e0 rv) by tauto.
    destruct tp_facts as [_ [[_ [_ HE']] [_ [_ [B5 _]]]]].
    apply gp_step with e0.
    - rewrite reverse_edge_E, HE'. exact H0.
    - split; [exact Hne|]. apply tp_unflagged; assumption.
    - rewrite (reverse_edge_gedge_other g' e e0 Hne), (B5 e0 Hr0), (B5 e Hr). exact Hf.
    - rewrite (reverse_edge_gedge_other g' e e0 Hne), (B5 e0 Hr0), (B5 e Hr), Hto. constructor.
  Qed.
End TwoPasses.

(* ---------- what phase1 DepthFirst computes ---------- *)
Lemma phase1_dfs_shape : forall g g',
  consistent g -> no_self_loops g -> phase1 DepthFirst g = Ok g' ->
  g' = g \/
  exists rv, let g1 := remove_two_node_cycles g in
    g' = fold_left reverse_edge rv g1 /\ NoDup rv /\ incl rv (g_E g1) /\ ranked g' /\
    (forall e, In e rv -> ~ ranked (reverse_edge g' e)) /\
    (forall e, In e rv ->
       gpath (reverse_edge g' e) (fun t => ~ In t rv) (e_from (gedge g' e)) (e_to (gedge g' e))).
Proof.
  intros g g' C N H.
  destruct (phase1_post DepthFirst g g' C N) as [_ [_ [_ [_ R]]]]; [discriminate|exact H|].
  unfold phase1 in H.
  destruct (Nat.eqb (length (g_N g)) 1) eqn:H1.
  { left. inversion H. reflexivity. }
  right.
  destruct (remove_two_node_cycles_wf g C N) as [C1 [N1 [HN1 [HE1 _]]]].
  set (g1 := remove_two_node_cycles g) in *.
  destruct (has_cycles g1) as [c|] eqn:Hc; cbn [bind] in H; [|discriminate].
  destruct c; cbn [negb] in H.
  - rewrite exec_depth_first_eq in H.
    destruct (depth_first_rev g1) as [rv|] eqn:Hrv; cbn [bind] in H; [|discriminate].
    destruct (has_cycles (fold_left reverse_edge rv g1)) as [c|]; cbn [bind] in H; [|discriminate].
    destruct c; [discriminate|]. inversion H; subst g'. clear H.
    destruct (depth_first_rev_spec g1 C1 N1 rv Hrv) as [tree [Hnd [Hsub _]]].
    destruct (NoDup_app_inv rv tree Hnd) as [Hndr _].
    exists rv. split; [reflexivity|]. split; [exact Hndr|].
    split. { intros x Hx. apply Hsub. apply in_or_app. left. exact Hx. }
    split; [exact R|]. split.
    + intros e He. apply depth_first_minimal_cyclic; auto.
    + intros e He. destruct (depth_first_minimal g1 rv C1 N1 Hrv e He) as [_ [_ [F [T P]]]].
      cbv zeta in F, T, P.
      assert (Hsubr : incl rv (g_E g1)) by (intros x Hx; apply Hsub; apply in_or_app; auto).
      destruct (fold_reverse_edges rv g1 C1 N1 Hndr Hsubr) as [_ [_ [_ [_ [_ A6]]]]].
      destruct (A6 e He) as [B1 [B2 _]]. rewrite B1, B2, <- F, <- T. exact P.
  - inversion H; subst g'. exists []. simpl.
    split; [reflexivity|]. split; [constructor|]. split; [intros x []|]. split; [exact R|].
    split; intros e [].
Qed.

(* ---------- the main theorem ---------- *)
(* With the depth-first cycle breaker, un-reversing any single edge that is drawn reversed re-creates a directed
   cycle among the edges as drawn. *)
Theorem phase1_dfs_minimal : forall g g',
  consistent g -> no_self_loops g -> all_unflagged g ->
  phase1 DepthFirst g = Ok g' ->
  forall e, In e (g_E g') -> e_rev (gedge g' e) = true -> ~ ranked (reverse_edge g' e).
Proof.
  intros g g' C N UF H e He Hflag.
  destruct (phase1_dfs_shape g g' C N H) as [->|[rv [Hg [Hnd [Hsub [R [Hmin _]]]]]]].
  { rewrite (UF e He) in Hflag. discriminate. }
  cbv zeta in Hg, Hsub. subst g'.
  destruct (tp_facts g C N rv Hnd Hsub) as [_ [[_ [_ HE']] _]].
  rewrite HE' in He.
  apply (tp_flagged_iff g C N UF rv Hnd Hsub e He) in Hflag.
  destruct Hflag as [[Ht Hr]|[Hr _]].
  - apply (tp_prepass_only_cyclic g C N rv Hnd Hsub R e Ht Hr).
  - apply Hmin. exact Hr.
Qed.
Print Assumptions phase1_dfs_minimal.

(* ---------- stronger forms ---------- *)
Lemma gpath_weaken : forall g (P Q : nat -> Prop) x y,
  (forall t, P t -> Q t) -> gpath g P x y -> gpath g Q x y.
Proof.
  intros g P Q x y HPQ H. induction H as [x|t x z Ht HP Hf Hp IH]; [constructor|].
  apply gp_step with t; auto.
Qed.

(* The cycle re-created by un-reversing a flagged edge e: e itself (now pointing from the old head to the old tail)
   followed by a walk from the old tail to the old head that only uses edges that are NOT drawn reversed.
   Hence the flagged set is a minimal feedback arc set in the removal sense as well: the unflagged edges plus any
   single flagged edge, all taken in their original direction (see phase1_dfs_orientation), contain a cycle. *)
Theorem phase1_dfs_minimal_path : forall g g',
  consistent g -> no_self_loops g -> all_unflagged g ->
  phase1 DepthFirst g = Ok g' ->
  forall e, In e (g_E g') -> e_rev (gedge g' e) = true ->
    let g'' := reverse_edge g' e in
    e_from (gedge g'' e) = e_to (gedge g' e) /\ e_to (gedge g'' e) = e_from (gedge g' e) /\
    gpath g'' (fun t => t <> e /\ e_rev (gedge g' t) = false) (e_to (gedge g'' e)) (e_from (gedge g'' e)).
Proof.
  intros g g' C N UF H e He Hflag g''.
  destruct (phase1_post DepthFirst g g' C N) as [C' [N' _]]; [discriminate|exact H|].
  destruct (reverse_edge_consistent g' e C' He (N' e He)) as [_ [_ [_ [_ [F2 [T2 _]]]]]].
  fold g'' in F2, T2. split; [exact F2|]. split; [exact T2|]. rewrite F2, T2. unfold g''. clear F2 T2 g''.
  destruct (phase1_dfs_shape g g' C N H) as [->|[rv [Hg [Hnd [Hsub [R [_ Hpath]]]]]]].
  { rewrite (UF e He) in Hflag. discriminate. }
  cbv zeta in Hg, Hsub. subst g'.
  destruct (tp_facts g C N rv Hnd Hsub) as [_ [[_ [_ HE']] _]].
  rewrite HE' in He.
  apply (tp_flagged_iff g C N UF rv Hnd Hsub e He) in Hflag.
  destruct Hflag as [[Ht Hr]|[Hr _]].
  - apply (tp_prepass_only_path g C N UF rv Hnd Hsub R e Ht Hr).
  - apply (tp_reroute g C N UF rv Hnd Hsub R e (or_introl Hr)).
    apply gpath_weaken with (P := fun t => ~ In t rv); [|apply Hpath; exact Hr].
    intros t Ht. split; [intros ->; tauto|exact Ht].
Qed.
Print Assumptions phase1_dfs_minimal_path.

(* Inclusion form: un-reversing ANY non-empty set of flagged edges leaves a directed cycle, i.e. no proper subset
   of the flagged set, reversed in the input graph, makes it acyclic. *)
Theorem phase1_dfs_minimal_subset : forall g g',
  consistent g -> no_self_loops g -> all_unflagged g ->
  phase1 DepthFirst g = Ok g' ->
  forall S, NoDup S -> S <> [] ->
    (forall e, In e S -> In e (g_E g') /\ e_rev (gedge g' e) = true) ->
    ~ ranked (fold_left reverse_edge S g').
Proof.
  intros g g' C N UF H S HndS Hne HS [rk Hrk].
  destruct S as [|e S']; [congruence|]. clear Hne.
  destruct (HS e (or_introl eq_refl)) as [He Hflag].
  destruct (phase1_post DepthFirst g g' C N) as [C' [N' _]]; [discriminate|exact H|].
  destruct (phase1_dfs_minimal_path g g' C N UF H e He Hflag) as [F2 [T2 P]].
  rewrite F2, T2 in P. clear F2 T2.
  destruct (fold_reverse_edges (e :: S') g' C' N' HndS) as [_ [_ [_ [HE [A5 A6]]]]].
  { intros x Hx. apply HS. exact Hx. }
  rewrite HE in Hrk.
  pose proof (Hrk e He) as K. destruct (A6 e (or_introl eq_refl)) as [F [T _]]. rewrite F, T in K.
  apply gpath_rank_P with (rk := rk) in P; [lia|].
  intros t Ht [Hte Hun]. rewrite reverse_edge_E in Ht.
  rewrite (reverse_edge_gedge_other g' e t Hte).
  assert (HtS : ~ In t (e :: S')).
  { intros Hc. destruct (HS t Hc) as [_ Hf]. congruence. }
  rewrite <- (A5 t HtS). apply Hrk. exact Ht.
Qed.
Print Assumptions phase1_dfs_minimal_subset.

(* an edge is drawn reversed iff it points against its input direction *)
Theorem phase1_dfs_orientation : forall g g',
  consistent g -> no_self_loops g -> all_unflagged g ->
  phase1 DepthFirst g = Ok g' ->
  forall e, In e (g_E g) ->
    if e_rev (gedge g' e)
    then e_from (gedge g' e) = e_to (gedge g e) /\ e_to (gedge g' e) = e_from (gedge g e)
    else e_from (gedge g' e) = e_from (gedge g e) /\ e_to (gedge g' e) = e_to (gedge g e).
Proof.
  intros g g' C N UF H e He.
  destruct (phase1_dfs_shape g g' C N H) as [->|[rv [Hg [Hnd [Hsub [R _]]]]]].
  { rewrite (UF e He). split; reflexivity. }
  cbv zeta in Hg, Hsub. subst g'.
  apply (tp_orientation g C N UF rv Hnd Hsub e He).
Qed.

(* which edges end up flagged: those reversed by exactly one of the two passes *)
Theorem phase1_dfs_flagged : forall g g',
  consistent g -> no_self_loops g -> all_unflagged g ->
  phase1 DepthFirst g = Ok g' ->
  g' = g \/
  exists rv, g' = fold_left reverse_edge rv (remove_two_node_cycles g) /\ NoDup rv /\
    forall e, In e (g_E g) ->
      (e_rev (gedge g' e) = true <->
       (In e (two_cycle_edges g (g_E g) []) /\ ~ In e rv) \/ (In e rv /\ ~ In e (two_cycle_edges g (g_E g) []))).
Proof.
  intros g g' C N UF H.
  destruct (phase1_dfs_shape g g' C N H) as [->|[rv [Hg [Hnd [Hsub [R _]]]]]]; [left; reflexivity|right].
  cbv zeta in Hg, Hsub. subst g'. exists rv. split; [reflexivity|]. split; [exact Hnd|].
  intros e He. apply (tp_flagged_iff g C N UF rv Hnd Hsub e He).
Qed.

(* the easy companion, for BOTH breakers: the graph handed on is acyclic (this is phase1_post) *)
Theorem phase1_ranked_both : forall alg g g',
  consistent g -> no_self_loops g -> (alg = Greedy -> no_isolated_nodes g) ->
  phase1 alg g = Ok g' -> ranked g'.
Proof. intros alg g g' C N Hiso H. apply (phase1_post alg g g' C N Hiso H). Qed.
Print Assumptions phase1_ranked_both.

(* ---------- examples ---------- *)
Definition show_edges (g : graph) : list (nat * (nat * nat) * bool) :=
  map (fun e => (e, (e_from (gedge g e), e_to (gedge g e)), e_rev (gedge g e))) (g_E g).
Definition flagged_edges (g : graph) : list nat := filter (fun e => e_rev (gedge g e)) (g_E g).
Definition cyclic_after_unreverse (g : graph) (e : nat) : bool :=
  match has_cycles (reverse_edge g e) with Ok true => true | _ => false end.

(* antiparallel pair a<->b on a longer cycle: a->b, b->a, b->c, c->a  (a,b,c = 0,1,2) *)
Definition ex_min : graph := graph_of [(0,1); (1,0); (1,2); (2,0)].

Example ex_min_hyps : consistent ex_min /\ no_self_loops ex_min /\ all_unflagged ex_min.
Proof.
  split; [apply consistentb_sound; vm_compute; reflexivity|].
  split; [apply no_self_loopsb_sound; vm_compute; reflexivity|].
  apply all_unflaggedb_sound. vm_compute. reflexivity.
Qed.

(* edge 1 (b->a) is reversed by the pre-pass, edge 3 (c->a) by the depth-first pass; both end up flagged, and
   un-reversing either one re-creates a cycle (the 2-cycle a<->b, resp. a->b->c->a) *)
Example ex_min_run :
  exists g', phase1 DepthFirst ex_min = Ok g' /\
    two_cycle_edges ex_min (g_E ex_min) [] = [1] /\
    depth_first_rev (remove_two_node_cycles ex_min) = Ok [3] /\
    show_edges g' = [(0, (0, 1), false); (1, (0, 1), true); (2, (1, 2), false); (3, (0, 2), true)] /\
    flagged_edges g' = [1; 3] /\
    forallb (cyclic_after_unreverse g') (flagged_edges g') = true.
Proof. eexists. split; [vm_compute; reflexivity|]. repeat split; vm_compute; reflexivity. Qed.

Example ex_min_thm : forall g', phase1 DepthFirst ex_min = Ok g' ->
  forall e, In e (g_E g') -> e_rev (gedge g' e) = true -> ~ ranked (reverse_edge g' e).
Proof.
  destruct ex_min_hyps as [C [N UF]]. intros g'. apply phase1_dfs_minimal; assumption.
Qed.

(* an edge reversed by BOTH passes: s->b, a->b, b->a, b->c, c->a  (s,b,a,c = 0,1,2,3).  The pre-pass turns edge 2
   (b->a) into a->b; the depth-first pass enters b before a (via the source s) and finds both parallel edges 1 and 2
   (a->b) to be back edges.  Edge 2 is back in its input direction and is NOT flagged; edge 1 is flagged. *)
Definition ex_twice : graph := graph_of [(0,1); (2,1); (1,2); (1,3); (3,2)].

Example ex_twice_run :
  exists g', phase1 DepthFirst ex_twice = Ok g' /\
    consistent ex_twice /\ no_self_loops ex_twice /\ all_unflagged ex_twice /\
    two_cycle_edges ex_twice (g_E ex_twice) [] = [2] /\
    depth_first_rev (remove_two_node_cycles ex_twice) = Ok [1; 2] /\
    show_edges g' = [(0, (0, 1), false); (1, (1, 2), true); (2, (1, 2), false); (3, (1, 3), false); (4, (3, 2), false)] /\
    flagged_edges g' = [1] /\
    forallb (cyclic_after_unreverse g') (flagged_edges g') = true.
Proof.
  eexists. split; [vm_compute; reflexivity|].
  split; [apply consistentb_sound; vm_compute; reflexivity|].
  split; [apply no_self_loopsb_sound; vm_compute; reflexivity|].
  split; [apply all_unflaggedb_sound; vm_compute; reflexivity|].
  repeat split; vm_compute; reflexivity.
Qed.
