(* CBTotal.v — the explicit fuel of the model never runs out in phase 1 and no error value is produced:
   has_cycles, exec_depth_first and exec_greedy all return Ok on consistent loop-free graphs. *)
From Autog Require Import Base Graph Populate Phase1.
From Autog.Proofs Require Import CBBase CBExamples CBHasCycles CBDepthFirst CBGreedy CBGreedyRanks.
From Coq Require Import Lia List Arith ZArith Bool.
Import ListNotations.
Local Open Scope nat_scope.

Section Total.
  Variable g : graph.
  Hypothesis C : consistent g.

  Let L := length (g_na g).

  Lemma stack_bound : forall l, NoDup l -> incl l (g_N g) -> length l <= L.
  Proof.
    intros l Hnd Hsub. apply NoDup_bounded_length; auto.
    intros x Hx. destruct C as [[_ CN2] _ _ _]. apply CN2. apply Hsub. exact Hx.
  Qed.

  (* ================= has_cycles ================= *)
  Lemma connected_node_N : forall e n, In e (g_E g) -> In (connected_node g e n) (g_N g).
  Proof.
    intros e n He. destruct C as [_ [_ CE2] _ _]. destruct (CE2 e He) as [_ [Hf Ht]].
    unfold connected_node. destruct (Nat.eqb _ _); assumption.
  Qed.

  Lemma hc_visit_total : forall f n vis fin,
    In n (g_N g) -> ~ In n vis -> NoDup vis -> incl vis (g_N g) ->
    f + length vis >= S L ->
    exists r, hc_visit f g n (vis, fin) = Ok r /\ (fst r = false -> fst (snd r) = vis).
  Proof.
    induction f as [|f IHf]; intros n vis fin Hn Hnv Hnd Hsub Hfuel.
    - exfalso. assert (length (n :: vis) <= L).
      { apply stack_bound; [constructor; auto|]. intros x [<-|Hx]; auto. }
      simpl in *. lia.
    - rewrite hc_visit_S. cbn [fst snd].
      assert (Hloop : forall es fin0, (forall e, In e es -> In e (g_E g)) ->
                exists r, hc_loop f g n es (n :: vis, fin0) = Ok r /\ (fst r = false -> fst (snd r) = n :: vis)).
      { induction es as [|e t IHes]; intros fin0 Hes.
        - exists (false, (n :: vis, fin0)). split; reflexivity.
        - rewrite hc_loop_cons.
          assert (Ht : forall e, In e t -> In e (g_E g)) by (intros e' He'; apply Hes; right; exact He').
          destruct (self_loop g e); [apply IHes; exact Ht|]. cbv zeta. cbn [fst snd].
          pose proof (connected_node_N e n (Hes e (or_introl eq_refl))) as HmN.
          destruct (mem_nat (connected_node g e n) (n :: vis)) eqn:Hm.
          + eexists. split; [reflexivity|]. simpl. discriminate.
          + apply mem_nat_false in Hm.
            destruct (mem_nat (connected_node g e n) fin0); cbn [negb]; [apply IHes; exact Ht|].
            destruct (IHf (connected_node g e n) (n :: vis) fin0) as [[b [v1 f1]] [Hv Hst]]; auto.
            * constructor; auto.
            * intros x [<-|Hx]; auto.
            * simpl. lia.
            * rewrite Hv. cbn [bind fst snd]. destruct b.
              -- eexists. split; [reflexivity|]. simpl. discriminate.
              -- simpl in Hst. rewrite (Hst eq_refl). apply IHes. exact Ht. }
      destruct (Hloop (n_out (gnode g n)) fin) as [[b [v1 f1]] [Hl Hst]].
      { intros e He. destruct C as [_ _ CO _]. apply (proj2 (CO n Hn)). exact He. }
      rewrite Hl. cbn [bind fst snd]. destruct b.
      + eexists. split; [reflexivity|]. simpl. discriminate.
      + simpl in Hst. rewrite (Hst eq_refl). eexists. split; [reflexivity|].
        intros _. cbn [fst snd]. apply remove_nat_head. exact Hnv.
  Qed.

  Lemma hc_nodes_total : forall ns fin,
    incl ns (g_N g) -> exists b, hc_nodes (S L) g ns ([], fin) = Ok b.
  Proof.
    induction ns as [|n t IH]; intros fin Hsub.
    - exists false. reflexivity.
    - rewrite hc_nodes_cons. cbn [fst snd].
      assert (Ht : incl t (g_N g)) by (intros x Hx; apply Hsub; right; exact Hx).
      destruct (negb (mem_nat n []) && negb (mem_nat n fin)); [|apply IH; exact Ht].
      destruct (hc_visit_total (S L) n [] fin) as [[b [v1 f1]] [Hv Hst]].
      + apply Hsub. left. reflexivity.
      + intros [].
      + constructor.
      + intros x [].
      + simpl. lia.
      + rewrite Hv. cbn [bind fst snd]. destruct b.
        * exists true. reflexivity.
        * simpl in Hst. rewrite (Hst eq_refl). apply IH. exact Ht.
  Qed.

  Theorem has_cycles_total : exists b, has_cycles g = Ok b.
  Proof. unfold has_cycles. apply hc_nodes_total. apply incl_refl. Qed.

  (* ================= depth-first breaker ================= *)
  Hypothesis NSL : no_self_loops g.

  Lemma Inv_push : forall n vis act rv fin,
    Inv g vis act rv fin -> ~ In n vis -> Inv g (n :: vis) (n :: act) rv fin.
  Proof.
    intros n vis act rv fin [I1 I2 I3 I4 I5 I6] Hm.
    assert (Hnact : ~ In n act). { intros H. apply Hm. apply I2. auto. }
    assert (Hnfin : ~ In n fin). { intros H. apply Hm. apply I2. auto. }
    constructor; auto.
    - rewrite ord_push. apply NoDup_insert; auto.
      intros H. apply in_app_or in H. destruct H as [H|H]; auto. apply in_rev in H. auto.
    - intros x. simpl. rewrite I2. tauto.
    - intros u Hu e He Hf Hne. rewrite ord_push. apply after_insert. apply I3; auto.
    - intros e He. destruct (I4 e He). split; auto. rewrite ord_push. apply after_insert. auto.
    - intros e He. right. auto.
  Qed.

  Lemma Inv_act_nodup : forall vis act rv fin, Inv g vis act rv fin -> NoDup act.
  Proof.
    intros vis act rv fin [I1 _ _ _ _ _]. unfold ord in I1.
    apply NoDup_app_inv in I1. destruct I1 as [H _].
    apply NoDup_rev in H. rewrite rev_involutive in H. exact H.
  Qed.

  Lemma dfs_loop_split : forall f e t st,
    dfs_loop f g (e :: t) st = do st' <- dfs_loop f g [e] st; dfs_loop f g t st'.
  Proof.
    intros f e t [[v a] r]. rewrite !dfs_loop_cons.
    destruct (self_loop g e); [reflexivity|].
    destruct (mem_nat _ a); [reflexivity|].
    destruct (dfs_visit f g _ (v, a, r)); reflexivity.
  Qed.

  Definition visit_total (f : nat) : Prop :=
    forall n vis act rv fin,
      Inv g vis act rv fin -> In n (g_N g) -> incl act (g_N g) ->
      f + length act >= S (S L) ->
      exists st, dfs_visit f g n (vis, act, rv) = Ok st.

  Lemma dfs_loop_total : forall f, visit_total f -> forall n act es vis0 rv0 fin0,
    Inv g vis0 (n :: act) rv0 fin0 ->
    (forall e, In e es -> In e (g_E g) /\ e_from (gedge g e) = n) ->
    NoDup es ->
    (forall e, In e rv0 -> e_from (gedge g e) = n -> ~ In e es) ->
    In n vis0 -> incl (n :: act) (g_N g) ->
    f + length (n :: act) >= S (S L) ->
    exists st, dfs_loop f g es (vis0, n :: act, rv0) = Ok st.
  Proof.
    intros f IHf n act. induction es as [|e t IHes]; intros vis0 rv0 fin0 HI Hes Hnd Hfr Hnv Hsub Hfuel.
    - eexists. reflexivity.
    - destruct (Hes e (or_introl eq_refl)) as [HeE Hefrom].
      apply NoDup_cons_iff in Hnd. destruct Hnd as [Hnt Hndt].
      assert (H1 : exists st1, dfs_loop f g [e] (vis0, n :: act, rv0) = Ok st1).
      { rewrite dfs_loop_cons. rewrite (NSL e HeE).
        destruct (mem_nat (e_to (gedge g e)) (n :: act)); [eexists; reflexivity|].
        destruct (IHf (e_to (gedge g e)) vis0 (n :: act) rv0 fin0) as [st' Hv]; auto.
        { destruct C as [_ [_ CE2] _ _]. apply CE2. exact HeE. }
        rewrite Hv. cbn [bind]. eexists. reflexivity. }
      destruct H1 as [[[v1 a1] r1] H1].
      destruct (dfs_loop_inv g C NSL f (dfs_visit_inv g C NSL f) n act [e] _ _ _ _ _ _ H1 HI)
        as [fin1 [J1 [J2 [J3 [J4 [J5 [J6 J7]]]]]]].
      { intros e' [<-|[]]. auto. }
      { constructor; [intros []|constructor]. }
      { intros x Hx Hf [Heq|[]]. subst x. apply (Hfr e Hx Hf). left. reflexivity. }
      { exact Hnv. }
      subst a1. rewrite dfs_loop_split, H1. cbn [bind].
      apply IHes with (fin0 := fin1); auto.
      + intros x Hx. apply Hes. right. exact Hx.
      + intros x Hx Hf Hin. destruct (J6 x Hx) as [H|[H|H]].
        * apply (Hfr x H Hf). right. exact Hin.
        * rewrite Hf in H. tauto.
        * destruct H as [Heq|[]]. subst x. tauto.
  Qed.

  Lemma dfs_visit_total : forall f, visit_total f.
  Proof.
    induction f as [|f IHf]; intros n vis act rv fin HI Hn Hsub Hfuel.
    - exfalso. pose proof (stack_bound act (Inv_act_nodup _ _ _ _ HI) Hsub). lia.
    - rewrite dfs_visit_S. destruct (mem_nat n vis) eqn:Hm; [eexists; reflexivity|].
      apply mem_nat_false in Hm.
      destruct C as [_ _ CO _]. destruct (CO n Hn) as [CO1 CO2].
      destruct (dfs_loop_total f IHf n act (n_out (gnode g n)) (n :: vis) rv fin) as [[[v1 a1] r1] Hl].
      + apply Inv_push; auto.
      + intros e He. apply CO2. exact He.
      + exact CO1.
      + intros e He Hf. exfalso. apply Hm. rewrite <- Hf. destruct HI as [_ _ _ _ _ I6]. apply I6. exact He.
      + left. reflexivity.
      + intros x [<-|Hx]; auto.
      + simpl. lia.
      + rewrite Hl. cbn [bind]. eexists. reflexivity.
  Qed.

  Lemma dfs_nodes_total : forall ns vis rv fin,
    Inv g vis [] rv fin -> incl ns (g_N g) ->
    exists v r fin', dfs_nodes (S (S L)) g ns (vis, [], rv) = Ok (v, [], r) /\ Inv g v [] r fin'.
  Proof.
    induction ns as [|n t IH]; intros vis rv fin HI Hsub.
    - exists vis, rv, fin. split; [reflexivity|exact HI].
    - rewrite dfs_nodes_cons.
      assert (Hn : In n (g_N g)) by (apply Hsub; left; reflexivity).
      destruct (dfs_visit_total (S (S L)) n vis [] rv fin HI Hn) as [[[v1 a1] r1] Hv].
      { intros x []. }
      { simpl. lia. }
      destruct (dfs_visit_inv g C NSL _ _ _ _ _ _ _ _ _ Hv HI Hn) as [fin1 [K1 [K2 _]]].
      subst a1. rewrite Hv. cbn [bind]. apply IH with (fin := fin1); auto.
      intros x Hx. apply Hsub. right. exact Hx.
  Qed.

  Theorem exec_depth_first_total : exists g', exec_depth_first g = Ok g'.
  Proof.
    unfold exec_depth_first. fold L.
    destruct (dfs_nodes_total (filter (fun n => Nat.eqb (indeg g n) 0) (g_N g)) [] [] [] (Inv_init g))
      as [v1 [r1 [fin1 [H1 I1]]]].
    { intros x Hx. apply filter_In in Hx. tauto. }
    rewrite H1. cbn [bind].
    destruct (dfs_nodes_total (g_N g) v1 r1 fin1 I1 (incl_refl _)) as [v2 [r2 [fin2 [H2 I2]]]].
    rewrite H2. cbn [bind]. eexists. reflexivity.
  Qed.

  (* ================= greedy breaker ================= *)
  Lemma filter_length_le' : forall (p : nat -> bool) l, length (filter p l) <= length l.
  Proof. induction l as [|h t IH]; simpl; auto. destruct (p h); simpl; lia. Qed.

  Lemma AInv_cnt_bound : forall s, AInv g s -> (0 <= cnt s <= Z.of_nat (length (g_N g)))%Z.
  Proof.
    intros s [_ _ _ _ A5]. rewrite A5.
    pose proof (filter_length_le' (unasA (arc s)) (g_N g)). lia.
  Qed.

  Lemma AInv_cnt_pos : forall s k, AInv g s -> In k (g_N g) -> unasA (arc s) k = true -> (1 <= cnt s)%Z.
  Proof.
    intros s k [_ _ _ _ A5] Hk Hu. rewrite A5.
    assert (Hin : In k (filter (unasA (arc s)) (g_N g))) by (apply filter_In; auto).
    destruct (filter (unasA (arc s)) (g_N g)); [destruct Hin|simpl; lia].
  Qed.

  Lemma cnt_sink_next : forall s k rest, cnt (sink_next g s k rest) = (cnt s - 1)%Z.
  Proof.
    intros. unfold sink_next. cbn [cnt].
    match goal with |- context [update_neighbors g ?s1 k] => pose proof (update_neighbors_core g s1 k) as Hc end.
    unfold core in Hc. pose proof (f_equal snd Hc) as Hq. cbn [snd cnt] in Hq. rewrite Hq. reflexivity.
  Qed.
  Lemma cnt_source_next : forall s k rest, cnt (source_next g s k rest) = (cnt s - 1)%Z.
  Proof.
    intros. unfold source_next. cbn [cnt].
    match goal with |- context [update_neighbors g ?s1 k] => pose proof (update_neighbors_core g s1 k) as Hc end.
    unfold core in Hc. pose proof (f_equal snd Hc) as Hq. cbn [snd cnt] in Hq. rewrite Hq. reflexivity.
  Qed.
  Lemma cnt_rest_next : forall s n, cnt (rest_next g s n) = (cnt s - 1)%Z.
  Proof.
    intros. unfold rest_next. cbn [cnt].
    match goal with |- context [update_neighbors g ?s1 n] => pose proof (update_neighbors_core g s1 n) as Hc end.
    unfold core in Hc. pose proof (f_equal snd Hc) as Hq. cbn [snd cnt] in Hq. rewrite Hq. reflexivity.
  Qed.

  Lemma drain_sinks_total : forall f s,
    AInv g s -> HasB g s -> (cnt s <= Z.of_nat f)%Z -> exists s', drain_sinks f g s = Ok s'.
  Proof.
    induction f as [|f IH]; intros s HA HB Hf; rewrite drain_sinks_eq;
      destruct (snks s) as [|k rest] eqn:Hs; try (eexists; reflexivity).
    - exfalso. destruct HB as [D1 [D2 [_ _ _ _ _ [_ B6] _ _]]].
      destruct (B6 k) as [HkN Hku]. { apply in_or_app. right. rewrite Hs. left. reflexivity. }
      pose proof (AInv_cnt_pos s k HA HkN Hku). lia.
    - destruct (sink_next_inv g C NSL s k rest Hs HA HB) as [HA1 HB1].
      apply IH; auto. rewrite cnt_sink_next. lia.
  Qed.

  Lemma drain_sources_total : forall f s,
    AInv g s -> HasB g s -> (cnt s <= Z.of_nat f)%Z -> exists s', drain_sources f g s = Ok s'.
  Proof.
    induction f as [|f IH]; intros s HA HB Hf; rewrite drain_sources_eq;
      destruct (srcs s) as [|k rest] eqn:Hs; try (eexists; reflexivity).
    - exfalso. destruct HB as [D1 [D2 [_ _ _ _ _ [_ B6] _ _]]].
      destruct (B6 k) as [HkN Hku]. { apply in_or_app. left. rewrite Hs. left. reflexivity. }
      pose proof (AInv_cnt_pos s k HA HkN Hku). lia.
    - destruct (source_next_inv g C NSL s k rest Hs HA HB) as [HA1 HB1].
      apply IH; auto. rewrite cnt_source_next. lia.
  Qed.

  Lemma fold_max_attained : forall (flow : nat -> Z) l m0,
    let m := fold_left (fun m n => Z.max m (flow n)) l m0 in
    m = m0 \/ exists n, In n l /\ flow n = m.
  Proof.
    induction l as [|h t IH]; intros m0; simpl; auto.
    destruct (IH (Z.max m0 (flow h))) as [H|[n [Hn H]]].
    - destruct (Z.max_spec m0 (flow h)) as [[_ E]|[_ E]]; rewrite E in *.
      + right. exists h. split; [left; reflexivity|symmetry; exact H].
      + left. exact H.
    - right. exists n. split; [right; exact Hn|exact H].
  Qed.

  Lemma max_outflow_nodes_nonempty : forall s, AInv g s -> (0 < cnt s)%Z -> max_outflow_nodes g s <> [].
  Proof.
    intros s [_ _ _ _ A5] Hc. unfold max_outflow_nodes.
    change (filter (fun n => match arc_of s n with None => true | Some _ => false end) (g_N g))
      with (filter (unasA (arc s)) (g_N g)).
    destruct (filter (unasA (arc s)) (g_N g)) as [|n0 t] eqn:Hu; [simpl in A5; lia|].
    pose (flow := fun n => (zget (outd s) n - zget (ind s) n)%Z).
    change (filter (fun n => (flow n =? fold_left (fun m n1 => Z.max m (flow n1)) (n0 :: t) (flow n0))%Z) (n0 :: t) <> []).
    destruct (fold_max_attained flow (n0 :: t) (flow n0)) as [H|[n [Hn H]]]; intros Hf.
    - assert (Hin : In n0 (filter (fun n => (flow n =? fold_left (fun m n1 => Z.max m (flow n1)) (n0 :: t) (flow n0))%Z) (n0 :: t))).
      { apply filter_In. split; [left; reflexivity|]. apply Z.eqb_eq. symmetry. exact H. }
      rewrite Hf in Hin. destruct Hin.
    - assert (Hin : In n (filter (fun n => (flow n =? fold_left (fun m n1 => Z.max m (flow n1)) (n0 :: t) (flow n0))%Z) (n0 :: t))).
      { apply filter_In. split; [exact Hn|]. apply Z.eqb_eq. exact H. }
      rewrite Hf in Hin. destruct Hin.
  Qed.

  Lemma drain_rest_total : forall f s,
    AInv g s -> (cnt s <= Z.of_nat f)%Z -> exists s', drain_rest f g s = Ok s'.
  Proof.
    induction f as [|f IH]; intros s HA Hf; rewrite drain_rest_eq;
      destruct (cnt s <=? 0)%Z eqn:Hc; try (eexists; reflexivity).
    - apply Z.leb_gt in Hc. lia.
    - apply Z.leb_gt in Hc.
      pose proof (max_outflow_nodes_nonempty s HA Hc) as Hne.
      destruct (max_outflow_nodes g s) as [|c cs] eqn:Hm; [congruence|].
      assert (Hin : In (nth (Nat.div (length (c :: cs)) 2) (c :: cs) 0) (max_outflow_nodes g s)).
      { rewrite Hm. apply nth_In. apply Nat.div_lt; simpl; lia. }
      apply max_outflow_nodes_sub in Hin. destruct Hin as [H1 H2].
      apply IH.
      + apply rest_next_inv; auto.
      + rewrite cnt_rest_next. lia.
  Qed.

  Theorem greedy_ranks_total : no_isolated g -> exists r, greedy_ranks g = Ok r.
  Proof.
    intros Hiso. rewrite greedy_ranks_eq.
    assert (HA0 := AInv_init g).
    assert (HB0 : HasB g (gst0 g)) by (exists [], []; apply BInv_init; auto).
    assert (Hlen : length (g_N g) <= L).
    { destruct C as [[CN1 CN2] _ _ _]. apply NoDup_bounded_length; auto. }
    assert (Hfl : forall s, AInv g s -> (cnt s <= Z.of_nat (S (L + length (g_ea g))))%Z).
    { intros s HA. pose proof (AInv_cnt_bound s HA). lia. }
    rewrite greedy_outer_eq.
    destruct (cnt (gst0 g) <=? 0)%Z; [cbn [bind]; eexists; reflexivity|].
    cbv zeta. fold L.
    destruct (drain_sinks_total _ (gst0 g) HA0 HB0 (Hfl _ HA0)) as [s1 H1]. rewrite H1. cbn [bind].
    destruct (drain_sinks_inv g C NSL _ _ _ H1 HA0 HB0) as [HA1 HB1].
    destruct (drain_sources_total _ s1 HA1 HB1 (Hfl _ HA1)) as [s2 H2]. rewrite H2. cbn [bind].
    destruct (drain_sources_inv g C NSL _ _ _ H2 HA1 HB1) as [HA2 HB2].
    destruct (drain_rest_total _ s2 HA2 (Hfl _ HA2)) as [s3 H3]. rewrite H3. cbn [bind].
    destruct (drain_rest_inv g C _ _ _ H3 HA2) as [HA3 Hc3].
    rewrite greedy_outer_done by exact Hc3. cbn [bind]. eexists. reflexivity.
  Qed.

  Theorem exec_greedy_total : no_isolated g -> exists g', exec_greedy g = Ok g'.
  Proof.
    intros Hiso. destruct (greedy_ranks_total Hiso) as [r Hr].
    rewrite exec_greedy_eq, Hr. cbn [bind]. eexists. reflexivity.
  Qed.
End Total.

Print Assumptions has_cycles_total.
Print Assumptions exec_depth_first_total.
Print Assumptions exec_greedy_total.
