(* CertCheck.v — per-instance part of C10: the verified certificate checker [cert_ok] (Proofs/Optimality.v) is
   evaluated on the state the model reaches at the end of the pivot loop, started from the observed state
   before phase 2. By [cert_sound] a state that passes is optimal; [postprocess_optimal] carries optimality
   over normalize and vbalance. The correspondence check (step 4) ties the model's final layers to the
   implementation's. *)
From Autog Require Export Check Optimality.

(* state at the end of the pivot loop and whether the loop stopped on its budget *)
Definition ns_core (p : nsparams) (g : graph) : res (graph * bool) :=
  do r <- feasible_tree g;
  let '(g, ll) := r in
  let k1 := if 0 <? ns_maxiter_factor p then ns_maxiter_factor p else Z.sqrt (Z.of_nat (length (g_N g))) in
  let maxitr := ns_thoroughness p * k1 in
  do r <- pivot_loop (S (Z.to_nat (Z.min maxitr 100000))) 0 maxitr g ll;
  let '(g, ll, capped) := r in Ok (g, capped).

(* codes: 1401 certificate rejected although the budget was not exhausted; 1402 the final layering of the
   implementation is longer than the certified one; 1403 an empty band; 1410 budget exhausted (informational) *)
Definition cert_case (c : tcase) : list nat :=
  match o_p2 (c_opts c) with
  | LongestPath => []
  | NetworkSimplex =>
      flat_map (fun i =>
        match find_snap c 3 (Z.of_nat i), find_snap c 4 (Z.of_nat i) with
        | Some g3, Some g4 =>
            if Nat.leb (length (g_N g3)) 1 then [] else
            match ns_core (ns_params (c_opts c)) g3 with
            | Ok (g, capped) =>
                (if capped then [1410%nat] else if cert_ok g then [] else [1401%nat])
                ++ (if capped || (total_length (layer_of g4) g4 =? total_length (layer_of g) g) then [] else [1402%nat])
                ++ (if forallb (fun l => negb (Nat.eqb (length (l_nodes l)) 0)) (g_L g4) then [] else [1403%nat])
            | Err _ => [1499%nat]
            end
        | _, _ => []
        end) (iota 0 (length (filter (fun s => Nat.eqb (s_label s) 1) (c_snaps c))))
  end.

Definition cert_cases (cs : list (nat * tcase)) : list (nat * list nat) :=
  flat_map (fun p => match cert_case (snd p) with [] => [] | l => [(fst p, l)] end) cs.

(* unit correspondence for the whole network-simplex layering (unit function 3): the model's phase 2 on the
   synthetic component must give the implementation's layers; for the disagreeing cases the model's certified
   optimum is printed so that the harness can tell whether the implementation's layering is longer *)
Definition unit_ns_check (before after : graph) : bool :=
  match phase2 NetworkSimplex (mkNsParams 28 0 1) before with
  | Ok m => forall2b node_eqb_layer (g_na m) (g_na after)
  | Err _ => false
  end.

Definition unit_ns_failing (cs : list (nat * (nat * graph * graph))) : list (nat * Z * bool) :=
  flat_map (fun c => let '(i, (fn, b, a)) := c in
                     if unit_ns_check b a then [] else
                     match ns_core (mkNsParams 28 0 1) b with
                     | Ok (g, capped) => [(i, total_length (layer_of g) g, cert_ok g && negb capped)]
                     | Err _ => [(i, (-1)%Z, false)]
                     end) cs.
