(* CollectProofs.v — specification of collect_nodes / collect_edges (Model/Layout.v; output of autolayout.go) *)
From Autog Require Import Base Graph Layout.
Local Open Scope nat_scope.

(* the output record of node n of g, shifted right by shift *)
Definition onode_of (shift : Q) (g : graph) (n : nat) : onode :=
  mkONode n (n_x (gnode g n) + shift)%Q (n_y (gnode g n)) (n_w (gnode g n)) (n_h (gnode g n)).

(* which nodes are kept: non-virtual ones, or all of them when include_virtual is set *)
Definition keep_node (iv : bool) (g : graph) (n : nat) : bool := negb (n_virt (gnode g n)) || iv.

Definition oedge_of (shift : Q) (g : graph) (e : nat) : oedge :=
  mkOEdge (e_from (gedge g e)) (e_to (gedge g e))
          (map (fun p : pt => ((fst p + shift)%Q, snd p)) (e_pts (gedge g e))) (e_ahs (gedge g e)).

(* ---------- C1 ---------- *)
Lemma flat_map_map_filter : forall (X Y : Type) (p : X -> bool) (f : X -> Y) (l : list X),
  flat_map (fun x => if p x then [f x] else []) l = map f (filter p l).
Proof.
  intros X Y p f l. induction l as [|x t IH]; [reflexivity|].
  cbn [flat_map filter]. destruct (p x); cbn [map app]; rewrite IH; reflexivity.
Qed.

Theorem collect_nodes_map_filter : forall iv shift g,
  collect_nodes iv shift g =
  map (fun n => mkONode n (n_x (gnode g n) + shift)%Q (n_y (gnode g n)) (n_w (gnode g n)) (n_h (gnode g n)))
      (filter (fun n => negb (n_virt (gnode g n)) || iv) (g_N g)).
Proof.
  intros iv shift g. unfold collect_nodes.
  rewrite <- flat_map_map_filter.
  apply flat_map_ext. intros n.
  destruct (n_virt (gnode g n)); destruct iv; reflexivity.
Qed.
Print Assumptions collect_nodes_map_filter.

Corollary collect_nodes_map_filter' : forall iv shift g,
  collect_nodes iv shift g = map (onode_of shift g) (filter (keep_node iv g) (g_N g)).
Proof. intros. apply collect_nodes_map_filter. Qed.

(* ---------- C2 ---------- *)
Theorem collect_nodes_ids : forall iv shift g,
  map on_id (collect_nodes iv shift g) = filter (fun n => negb (n_virt (gnode g n)) || iv) (g_N g).
Proof.
  intros iv shift g. rewrite collect_nodes_map_filter. rewrite map_map. cbn [on_id]. apply map_id.
Qed.
Print Assumptions collect_nodes_ids.

Corollary collect_nodes_ids_all : forall shift g, map on_id (collect_nodes true shift g) = g_N g.
Proof.
  intros shift g. rewrite collect_nodes_ids.
  induction (g_N g) as [|n t IH]; [reflexivity|].
  cbn [filter]. rewrite orb_true_r. rewrite IH. reflexivity.
Qed.

Corollary collect_nodes_ids_real : forall shift g,
  map on_id (collect_nodes false shift g) = filter (fun n => negb (n_virt (gnode g n))) (g_N g).
Proof.
  intros shift g. rewrite collect_nodes_ids. apply filter_ext. intros n. apply orb_false_r.
Qed.

Corollary collect_nodes_length_all : forall shift g, length (collect_nodes true shift g) = length (g_N g).
Proof.
  intros shift g. rewrite <- (map_length on_id). rewrite collect_nodes_ids_all. reflexivity.
Qed.

Corollary collect_nodes_length : forall iv shift g,
  length (collect_nodes iv shift g) = length (filter (fun n => negb (n_virt (gnode g n)) || iv) (g_N g)).
Proof. intros iv shift g. rewrite <- (collect_nodes_ids iv shift g). rewrite map_length. reflexivity. Qed.

Corollary collect_nodes_length_le : forall iv shift g, length (collect_nodes iv shift g) <= length (g_N g).
Proof.
  intros iv shift g. rewrite collect_nodes_length.
  induction (g_N g) as [|n t IH]; [apply le_n|].
  cbn [filter]. destruct (negb (n_virt (gnode g n)) || iv); cbn [length]; lia.
Qed.

(* every entry is the (Leibniz-)exact record of a kept node of g_N *)
Lemma collect_nodes_In : forall iv shift g o,
  In o (collect_nodes iv shift g) <->
  exists n, In n (g_N g) /\ keep_node iv g n = true /\ o = onode_of shift g n.
Proof.
  intros iv shift g o. rewrite collect_nodes_map_filter'. rewrite in_map_iff. split.
  - intros (n & Ho & Hn). apply filter_In in Hn. destruct Hn as (Hn & Hk). exists n. auto.
  - intros (n & Hn & Hk & Ho). exists n. split; [auto|]. apply filter_In. auto.
Qed.

Theorem collect_nodes_entry : forall iv shift g o,
  In o (collect_nodes iv shift g) ->
  In (on_id o) (g_N g) /\
  (n_virt (gnode g (on_id o)) = false \/ iv = true) /\
  (on_x o == n_x (gnode g (on_id o)) + shift)%Q /\
  on_y o = n_y (gnode g (on_id o)) /\
  on_w o = n_w (gnode g (on_id o)) /\
  on_h o = n_h (gnode g (on_id o)).
Proof.
  intros iv shift g o Ho. apply collect_nodes_In in Ho. destruct Ho as (n & Hn & Hk & ->).
  unfold onode_of. cbn [on_id on_x on_y on_w on_h].
  split; [exact Hn|]. split.
  - unfold keep_node in Hk. apply orb_true_iff in Hk. destruct Hk as [Hk|Hk]; [left|right; exact Hk].
    apply negb_true_iff. exact Hk.
  - split; [apply Qeq_refl|]. auto.
Qed.
Print Assumptions collect_nodes_entry.

(* Leibniz form of the same fact: on_x is syntactically the sum *)
Theorem collect_nodes_entry_eq : forall iv shift g o,
  In o (collect_nodes iv shift g) ->
  In (on_id o) (g_N g) /\ (n_virt (gnode g (on_id o)) = false \/ iv = true) /\ o = onode_of shift g (on_id o).
Proof.
  intros iv shift g o Ho. apply collect_nodes_In in Ho. destruct Ho as (n & Hn & Hk & ->).
  unfold onode_of at 1 3 4. cbn [on_id]. split; [exact Hn|]. split; [|reflexivity].
  unfold keep_node in Hk. apply orb_true_iff in Hk. destruct Hk as [Hk|Hk]; [left|right; exact Hk].
  apply negb_true_iff. exact Hk.
Qed.

Theorem collect_nodes_complete : forall iv shift g n,
  In n (g_N g) -> (n_virt (gnode g n) = false \/ iv = true) ->
  exists o, In o (collect_nodes iv shift g) /\ on_id o = n /\
    (on_x o == n_x (gnode g n) + shift)%Q /\ on_y o = n_y (gnode g n) /\
    on_w o = n_w (gnode g n) /\ on_h o = n_h (gnode g n).
Proof.
  intros iv shift g n Hn Hk. exists (onode_of shift g n). split.
  - apply collect_nodes_In. exists n. split; [exact Hn|]. split; [|reflexivity].
    unfold keep_node. destruct Hk as [Hk|Hk]; rewrite Hk; [reflexivity|apply orb_true_r].
  - unfold onode_of. cbn [on_id on_x on_y on_w on_h]. split; [reflexivity|]. split; [apply Qeq_refl|]. auto.
Qed.
Print Assumptions collect_nodes_complete.

(* a virtual node has no entry when include_virtual is off *)
Corollary collect_nodes_no_virtual : forall shift g o,
  In o (collect_nodes false shift g) -> n_virt (gnode g (on_id o)) = false.
Proof.
  intros shift g o Ho. apply collect_nodes_entry in Ho. destruct Ho as (_ & [H|H] & _); [exact H|discriminate H].
Qed.

(* positional version for include_virtual = true: the i-th entry is the i-th node of g_N *)
Corollary collect_nodes_all_nth : forall shift g i n,
  nth_error (g_N g) i = Some n -> nth_error (collect_nodes true shift g) i = Some (onode_of shift g n).
Proof.
  intros shift g i n Hn. rewrite collect_nodes_map_filter'.
  assert (F : filter (keep_node true g) (g_N g) = g_N g).
  { clear Hn. induction (g_N g) as [|m t IH]; [reflexivity|].
    cbn [filter]. unfold keep_node at 1. rewrite orb_true_r. rewrite IH. reflexivity. }
  rewrite F. apply map_nth_error. exact Hn.
Qed.

(* the order of g_N is kept, so distinct nodes give distinct entries *)
Corollary collect_nodes_NoDup : forall iv shift g, NoDup (g_N g) -> NoDup (map on_id (collect_nodes iv shift g)).
Proof. intros iv shift g H. rewrite collect_nodes_ids. apply NoDup_filter. exact H. Qed.

(* ---------- C3 ---------- *)
Lemma shift_pts_Forall2 : forall shift (l : list pt),
  Forall2 (fun p q : pt => (fst q == fst p + shift)%Q /\ snd q = snd p)
          l (map (fun p : pt => ((fst p + shift)%Q, snd p)) l).
Proof.
  intros shift l. induction l as [|p t IH]; cbn [map]; constructor; [|exact IH].
  cbn [fst snd]. split; [apply Qeq_refl|reflexivity].
Qed.

Lemma collect_edges_map : forall shift g, collect_edges shift g = map (oedge_of shift g) (g_E g).
Proof. reflexivity. Qed.

Lemma collect_edges_length : forall shift g, length (collect_edges shift g) = length (g_E g).
Proof. intros. unfold collect_edges. apply map_length. Qed.

Theorem collect_edges_spec : forall shift g,
  length (collect_edges shift g) = length (g_E g) /\
  forall i e, nth_error (g_E g) i = Some e ->
    exists o, nth_error (collect_edges shift g) i = Some o /\
      oe_from o = e_from (gedge g e) /\ oe_to o = e_to (gedge g e) /\ oe_ahs o = e_ahs (gedge g e) /\
      length (oe_pts o) = length (e_pts (gedge g e)) /\
      Forall2 (fun p q : pt => (fst q == fst p + shift)%Q /\ snd q = snd p) (e_pts (gedge g e)) (oe_pts o).
Proof.
  intros shift g. split; [apply collect_edges_length|].
  intros i e He. exists (oedge_of shift g e). split.
  - rewrite collect_edges_map. apply map_nth_error. exact He.
  - unfold oedge_of. cbn [oe_from oe_to oe_ahs oe_pts].
    split; [reflexivity|]. split; [reflexivity|]. split; [reflexivity|].
    split; [apply map_length|apply shift_pts_Forall2].
Qed.
Print Assumptions collect_edges_spec.

(* converse direction: every output edge comes from the edge at the same position *)
Theorem collect_edges_nth_inv : forall shift g i o,
  nth_error (collect_edges shift g) i = Some o ->
  exists e, nth_error (g_E g) i = Some e /\ o = oedge_of shift g e.
Proof.
  intros shift g i o Ho. rewrite collect_edges_map in Ho. rewrite nth_error_map in Ho.
  destruct (nth_error (g_E g) i) as [e|]; cbn in Ho; [|discriminate Ho].
  injection Ho as <-. exists e. auto.
Qed.
Print Assumptions collect_edges_nth_inv.

(* pointwise form of the points: the k-th output point is the k-th point shifted *)
Corollary collect_edges_pts_nth : forall shift g e k p,
  nth_error (e_pts (gedge g e)) k = Some p ->
  nth_error (oe_pts (oedge_of shift g e)) k = Some ((fst p + shift)%Q, snd p).
Proof.
  intros shift g e k p Hp. unfold oedge_of. cbn [oe_pts].
  apply (map_nth_error (fun p : pt => ((fst p + shift)%Q, snd p))). exact Hp.
Qed.

(* shift 0 leaves coordinates unchanged up to Qeq *)
Corollary collect_nodes_shift0 : forall iv g o,
  In o (collect_nodes iv 0%Q g) -> (on_x o == n_x (gnode g (on_id o)))%Q.
Proof.
  intros iv g o Ho. apply collect_nodes_entry in Ho. destruct Ho as (_ & _ & Hx & _).
  rewrite Hx. apply Qplus_0_r.
Qed.

(* ---------- C4: examples ---------- *)
Definition cx_n0 : node := mkNode [] [0] 0 0 false 1 2 3 4.
Definition cx_n1 : node := mkNode [0] [] 1 0 true 5 6 0 0.
Definition cx_n2 : node := mkNode [] [] 2 0 false 7 8 9 10.
Definition cx_e0 : edge := mkEdge 0 2 1 1 false false 0 [(1, 2)%Q; (7, 8)%Q] true.
Definition cx_g : graph := mkGraph [cx_n0; cx_n1; cx_n2] [cx_e0] [0; 1; 2] [0] [].

Definition cx_nodes_real : list onode := Eval vm_compute in collect_nodes false 10 cx_g.
Definition cx_nodes_all : list onode := Eval vm_compute in collect_nodes true 10 cx_g.
Definition cx_edges : list oedge := Eval vm_compute in collect_edges 10 cx_g.

Example cx_nodes_real_ok : collect_nodes false 10 cx_g = cx_nodes_real.
Proof. vm_compute. reflexivity. Qed.

Example cx_nodes_real_val :
  cx_nodes_real = [mkONode 0 11 2 3 4; mkONode 2 17 8 9 10].
Proof. vm_compute. reflexivity. Qed.

Example cx_nodes_all_val :
  cx_nodes_all = [mkONode 0 11 2 3 4; mkONode 1 15 6 0 0; mkONode 2 17 8 9 10].
Proof. vm_compute. reflexivity. Qed.

Example cx_ids_real : map on_id (collect_nodes false 10 cx_g) = [0; 2].
Proof. vm_compute. reflexivity. Qed.

Example cx_ids_all : map on_id (collect_nodes true 10 cx_g) = [0; 1; 2].
Proof. vm_compute. reflexivity. Qed.

Example cx_edges_val :
  cx_edges = [mkOEdge 0 2 [(11, 2)%Q; (17, 8)%Q] true].
Proof. vm_compute. reflexivity. Qed.

Example cx_edges_ok : collect_edges 10 cx_g = cx_edges.
Proof. vm_compute. reflexivity. Qed.

(* the hypotheses of the theorems are met on the example *)
Example cx_entry_instance :
  In (mkONode 2 17 8 9 10) (collect_nodes false 10 cx_g) /\ n_virt (gnode cx_g 2) = false /\ In 2 (g_N cx_g).
Proof.
  split; [|split].
  - rewrite cx_nodes_real_ok, cx_nodes_real_val. right. left. reflexivity.
  - reflexivity.
  - cbn. right. right. left. reflexivity.
Qed.

Example cx_edge_instance : nth_error (g_E cx_g) 0 = Some 0 /\ length (e_pts (gedge cx_g 0)) = 2.
Proof. vm_compute. auto. Qed.
