(* ComponentsProofs.v — P4: connected components (Model/Populate.v: neighbours, reach, subgraph, components).
   For a consistent graph, `reach g n` is exactly the undirected-connectivity class of n, and `components g`
   partitions the node and edge lists of g into order-preserving, closed, consistent subgraphs, listed in the
   order of their first node. *)
From Autog Require Import Base Graph Populate.
From Autog.Proofs Require Import ListLemmas Consistent.
From Coq Require Import Permutation.
Local Open Scope nat_scope.

(* ====================================================================================================== *)
(* A. add_new / reach_step only append                                                                     *)
(* ====================================================================================================== *)
Definition extends (acc acc' : list nat) : Prop := exists ext, acc' = acc ++ ext.

Lemma extends_refl : forall a, extends a a.
Proof. intros a. exists []. rewrite app_nil_r. reflexivity. Qed.

Lemma extends_trans : forall a b c, extends a b -> extends b c -> extends a c.
Proof. intros a b c [x ->] [y ->]. exists (x ++ y). rewrite app_assoc. reflexivity. Qed.

Lemma extends_incl : forall a b, extends a b -> incl a b.
Proof. intros a b [x ->] y Hy. apply in_or_app. left. exact Hy. Qed.

Lemma extends_length : forall a b, extends a b -> length a <= length b.
Proof. intros a b [x ->]. rewrite app_length. lia. Qed.

Lemma extends_same_length : forall a b, extends a b -> length b = length a -> b = a.
Proof.
  intros a b [x ->] L. rewrite app_length in L. destruct x as [|y x]; [apply app_nil_r|].
  cbn in L. lia.
Qed.

Definition add1 (acc : list nat) (x : nat) : list nat := if mem_nat x acc then acc else acc ++ [x].

Lemma add_new_eq : forall l acc, add_new l acc = fold_left add1 l acc.
Proof. reflexivity. Qed.

Lemma add1_extends : forall acc x, extends acc (add1 acc x).
Proof. intros. unfold add1. destruct (mem_nat x acc); [apply extends_refl|]. exists [x]. reflexivity. Qed.

Lemma add1_in : forall acc x, In x (add1 acc x).
Proof.
  intros. unfold add1. destruct (mem_nat x acc) eqn:M.
  - apply mem_nat_In. exact M.
  - apply in_or_app. right. left. reflexivity.
Qed.

Lemma add1_inv : forall acc x y, In y (add1 acc x) -> In y acc \/ y = x.
Proof.
  intros acc x y H. unfold add1 in H. destruct (mem_nat x acc); [left; exact H|].
  apply in_app_or in H. destruct H as [H|[H|[]]]; auto.
Qed.

Lemma add1_nodup : forall acc x, NoDup acc -> NoDup (add1 acc x).
Proof.
  intros acc x ND. unfold add1. destruct (mem_nat x acc) eqn:M; [exact ND|].
  apply mem_nat_false in M.
  apply (Permutation_NoDup (l := x :: acc)); [apply Permutation_cons_append|].
  constructor; assumption.
Qed.

Lemma add_new_extends : forall l acc, extends acc (add_new l acc).
Proof.
  induction l as [|x l IH]; intros acc; cbn [add_new fold_left]; [apply extends_refl|].
  eapply extends_trans; [apply (add1_extends acc x)|]. apply IH.
Qed.

Lemma add_new_incl : forall l acc, incl l (add_new l acc).
Proof.
  induction l as [|x l IH]; intros acc y Hy; [destruct Hy|].
  cbn [add_new fold_left]. destruct Hy as [<-|Hy].
  - apply (extends_incl _ _ (add_new_extends l (add1 acc x))). apply add1_in.
  - apply (IH (add1 acc x)). exact Hy.
Qed.

Lemma add_new_inv : forall l acc y, In y (add_new l acc) -> In y acc \/ In y l.
Proof.
  induction l as [|x l IH]; intros acc y H; cbn [add_new fold_left] in H; [left; exact H|].
  apply IH in H. destruct H as [H|H]; [|right; right; exact H].
  apply add1_inv in H. destruct H as [H| ->]; [left; exact H|right; left; reflexivity].
Qed.

Lemma add_new_nodup : forall l acc, NoDup acc -> NoDup (add_new l acc).
Proof.
  induction l as [|x l IH]; intros acc ND; cbn [add_new fold_left]; [exact ND|].
  apply IH. apply add1_nodup. exact ND.
Qed.

(* the fold of reach_step, over an arbitrary list of sources *)
Definition step_over (g : graph) (l acc : list nat) : list nat :=
  fold_left (fun acc n => add_new (neighbours g n) acc) l acc.

Lemma reach_step_eq : forall g acc, reach_step g acc = step_over g acc acc.
Proof. reflexivity. Qed.

Lemma step_over_extends : forall g l acc, extends acc (step_over g l acc).
Proof.
  intros g. induction l as [|n l IH]; intros acc; cbn [step_over fold_left]; [apply extends_refl|].
  eapply extends_trans; [apply (add_new_extends (neighbours g n) acc)|]. apply IH.
Qed.

Lemma step_over_incl : forall g l acc n, In n l -> incl (neighbours g n) (step_over g l acc).
Proof.
  intros g. induction l as [|k l IH]; intros acc n Hn; [destruct Hn|].
  cbn [step_over fold_left]. destruct Hn as [<-|Hn].
  - intros y Hy. apply (extends_incl _ _ (step_over_extends g l _)). apply add_new_incl. exact Hy.
  - apply (IH _ n Hn).
Qed.

Lemma step_over_inv : forall g l acc y, In y (step_over g l acc) ->
  In y acc \/ exists n, In n l /\ In y (neighbours g n).
Proof.
  intros g. induction l as [|k l IH]; intros acc y H; cbn [step_over fold_left] in H; [left; exact H|].
  apply IH in H. destruct H as [H|[n [Hn Hy]]].
  - apply add_new_inv in H. destruct H as [H|H]; [left; exact H|].
    right. exists k. split; [left; reflexivity|exact H].
  - right. exists n. split; [right; exact Hn|exact Hy].
Qed.

Lemma step_over_nodup : forall g l acc, NoDup acc -> NoDup (step_over g l acc).
Proof.
  intros g. induction l as [|k l IH]; intros acc ND; cbn [step_over fold_left]; [exact ND|].
  apply IH. apply add_new_nodup. exact ND.
Qed.

(* ====================================================================================================== *)
(* B. undirected connectivity                                                                              *)
(* ====================================================================================================== *)
Inductive conn (g : graph) : nat -> nat -> Prop :=
| conn_refl : forall a, conn g a a
| conn_step : forall a b c, conn g a b -> In c (neighbours g b) -> conn g a c.

Lemma conn_trans : forall g a b c, conn g a b -> conn g b c -> conn g a c.
Proof.
  intros g a b c Hab Hbc. induction Hbc as [b|b c d Hbc IH Hd]; [exact Hab|].
  eapply conn_step; [apply IH; exact Hab|exact Hd].
Qed.

Lemma conn_one : forall g a b, In b (neighbours g a) -> conn g a b.
Proof. intros g a b H. eapply conn_step; [apply conn_refl|exact H]. Qed.

(* neighbours, for a listed node of a consistent graph: the other ends of the listed edges at n *)
Lemma neighbours_iff : forall g n m, consistent g -> In n (g_N g) ->
  (In m (neighbours g n) <->
   exists e, In e (g_E g) /\ ((e_from (gedge g e) = m /\ e_to (gedge g e) = n) \/
                              (e_from (gedge g e) = n /\ e_to (gedge g e) = m))).
Proof.
  intros g n m C Hn. unfold neighbours, all_edges.
  rewrite (c_in g C n Hn), (c_out g C n Hn). rewrite in_map_iff. split.
  - intros [e [Hm He]]. unfold connected_node in Hm. apply in_app_or in He. destruct He as [He|He].
    + apply in_in_edges in He. destruct He as [HE Ht]. exists e. split; [exact HE|]. left.
      rewrite Ht, Nat.eqb_refl in Hm. auto.
    + apply in_out_edges in He. destruct He as [HE Hf]. exists e. split; [exact HE|]. right.
      destruct (Nat.eqb (e_to (gedge g e)) n) eqn:E.
      * apply Nat.eqb_eq in E. split; congruence.
      * auto.
  - intros [e [HE [[Hf Ht]|[Hf Ht]]]].
    + exists e. split.
      * unfold connected_node. rewrite Ht, Nat.eqb_refl. exact Hf.
      * apply in_or_app. left. apply in_in_edges. auto.
    + exists e. split.
      * unfold connected_node. destruct (Nat.eqb (e_to (gedge g e)) n) eqn:E.
        -- apply Nat.eqb_eq in E. congruence.
        -- exact Ht.
      * apply in_or_app. right. apply in_out_edges. auto.
Qed.

Lemma neighbours_listed : forall g n m, consistent g -> In n (g_N g) -> In m (neighbours g n) -> In m (g_N g).
Proof.
  intros g n m C Hn Hm. apply (neighbours_iff g n m C Hn) in Hm.
  destruct Hm as [e [HE [[Hf Ht]|[Hf Ht]]]].
  - rewrite <- Hf. apply (c_from g C e HE).
  - rewrite <- Ht. apply (c_to g C e HE).
Qed.

Lemma neighbours_sym : forall g n m, consistent g -> In n (g_N g) -> In m (neighbours g n) -> In n (neighbours g m).
Proof.
  intros g n m C Hn Hm. pose proof (neighbours_listed g n m C Hn Hm) as Hm'.
  apply (neighbours_iff g m n C Hm'). apply (neighbours_iff g n m C Hn) in Hm.
  destruct Hm as [e [HE H]]. exists e. split; [exact HE|]. tauto.
Qed.

Lemma conn_listed : forall g a b, consistent g -> In a (g_N g) -> conn g a b -> In b (g_N g).
Proof.
  intros g a b C Ha H. induction H as [a|a b c Hab IH Hc]; [exact Ha|].
  apply (neighbours_listed g b c C (IH Ha) Hc).
Qed.

Lemma conn_sym : forall g a b, consistent g -> In a (g_N g) -> conn g a b -> conn g b a.
Proof.
  intros g a b C Ha H. induction H as [a|a b c Hab IH Hc]; [apply conn_refl|].
  pose proof (conn_listed g a b C Ha Hab) as Hb.
  apply (conn_trans g c b a).
  - apply conn_one. apply (neighbours_sym g b c C Hb Hc).
  - apply IH. exact Ha.
Qed.

(* both ends of a listed edge are connected *)
Lemma conn_edge : forall g e, consistent g -> In e (g_E g) ->
  conn g (e_from (gedge g e)) (e_to (gedge g e)) /\ conn g (e_to (gedge g e)) (e_from (gedge g e)).
Proof.
  intros g e C HE. split; apply conn_one.
  - apply (neighbours_iff g _ _ C (c_from g C e HE)). exists e. split; [exact HE|]. right. auto.
  - apply (neighbours_iff g _ _ C (c_to g C e HE)). exists e. split; [exact HE|]. left. auto.
Qed.

(* ====================================================================================================== *)
(* C. reach computes the connectivity class                                                                *)
(* ====================================================================================================== *)
Lemma listed_length : forall g, consistent g -> length (g_N g) <= length (g_na g).
Proof.
  intros g C. rewrite <- (seq_length (length (g_na g)) 0).
  apply NoDup_incl_length; [apply (c_nodupN g C)|].
  intros n Hn. apply in_seq. pose proof (c_N_lt g C n Hn). lia.
Qed.

Lemma reach_iter_spec : forall g, consistent g -> forall fuel acc,
  NoDup acc -> incl acc (g_N g) -> length (g_N g) < length acc + fuel ->
  let r := reach_iter fuel g acc in
  NoDup r /\ incl acc r /\ incl r (g_N g) /\
  (forall n, In n r -> incl (neighbours g n) r) /\
  (forall x, In x r -> exists a, In a acc /\ conn g a x).
Proof.
  intros g C. induction fuel as [|f IH]; intros acc ND SUB LEN.
  - pose proof (NoDup_incl_length ND SUB). lia.
  - cbn [reach_iter]. rewrite reach_step_eq.
    pose proof (step_over_extends g acc acc) as EXT.
    destruct (Nat.eqb (length (step_over g acc acc)) (length acc)) eqn:E.
    + apply Nat.eqb_eq in E. pose proof (extends_same_length _ _ EXT E) as SAME.
      cbv zeta. split; [exact ND|]. split; [apply incl_refl|]. split; [exact SUB|]. split.
      * intros n Hn. rewrite <- SAME. apply step_over_incl. exact Hn.
      * intros x Hx. exists x. split; [exact Hx|apply conn_refl].
    + apply Nat.eqb_neq in E. pose proof (extends_length _ _ EXT) as LE.
      assert (SUB' : incl (step_over g acc acc) (g_N g)).
      { intros y Hy. apply step_over_inv in Hy. destruct Hy as [Hy|[n [Hn Hy]]]; [apply SUB; exact Hy|].
        apply (neighbours_listed g n y C (SUB n Hn) Hy). }
      destruct (IH (step_over g acc acc) (step_over_nodup g acc acc ND) SUB') as [R1 [R2 [R3 [R4 R5]]]]; [lia|].
      cbv zeta. split; [exact R1|]. split.
      { intros y Hy. apply R2. apply (extends_incl _ _ EXT). exact Hy. }
      split; [exact R3|]. split; [exact R4|].
      intros x Hx. destruct (R5 x Hx) as [a [Ha Hax]].
      apply step_over_inv in Ha. destruct Ha as [Ha|[n [Hn Ha]]].
      * exists a. auto.
      * exists n. split; [exact Hn|]. apply (conn_trans g n a x); [apply conn_one; exact Ha|exact Hax].
Qed.

Theorem reach_spec : forall g n, consistent g -> In n (g_N g) ->
  NoDup (reach g n) /\ incl (reach g n) (g_N g) /\ In n (reach g n) /\
  (forall m, In m (reach g n) -> incl (neighbours g m) (reach g n)) /\
  (forall m, In m (reach g n) <-> conn g n m).
Proof.
  intros g n C Hn. unfold reach.
  assert (ND : NoDup [n]) by (constructor; [intros []|constructor]).
  assert (SUB : incl [n] (g_N g)) by (intros x [<-|[]]; exact Hn).
  assert (LEN : length (g_N g) < length [n] + length (g_na g)) by (pose proof (listed_length g C); cbn; lia).
  destruct (reach_iter_spec g C (length (g_na g)) [n] ND SUB LEN) as [R1 [R2 [R3 [R4 R5]]]].
  split; [exact R1|]. split; [exact R3|]. split; [apply R2; left; reflexivity|]. split; [exact R4|].
  intros m. split.
  - intros Hm. destruct (R5 m Hm) as [a [[<-|[]] Ha]]. exact Ha.
  - intros Hm. induction Hm as [a|a b c Hab IH Hc].
    + apply R2. left. reflexivity.
    + apply (R4 b); [apply IH; assumption|exact Hc].
Qed.

Print Assumptions reach_spec.

Lemma reach_self : forall g n, consistent g -> In n (g_N g) -> In n (reach g n).
Proof. intros g n C Hn. destruct (reach_spec g n C Hn) as [_ [_ [H _]]]. exact H. Qed.

Lemma reach_listed : forall g n, consistent g -> In n (g_N g) -> incl (reach g n) (g_N g).
Proof. intros g n C Hn. destruct (reach_spec g n C Hn) as [_ [H _]]. exact H. Qed.

Lemma reach_nodup : forall g n, consistent g -> In n (g_N g) -> NoDup (reach g n).
Proof. intros g n C Hn. destruct (reach_spec g n C Hn) as [H _]. exact H. Qed.

(* reach sets are equivalence classes of conn on the listed nodes *)
Lemma reach_in_iff : forall g n m, consistent g -> In n (g_N g) -> (In m (reach g n) <-> conn g n m).
Proof. intros g n m C Hn. apply (reach_spec g n C Hn). Qed.

Theorem reach_sym : forall g n m, consistent g -> In n (g_N g) -> In m (reach g n) -> In n (reach g m).
Proof.
  intros g n m C Hn Hm. apply (reach_in_iff g n m C Hn) in Hm.
  apply (reach_in_iff g m n C (conn_listed g n m C Hn Hm)). apply (conn_sym g n m C Hn Hm).
Qed.

Theorem reach_same_class : forall g n m x, consistent g -> In n (g_N g) -> In m (reach g n) ->
  (In x (reach g m) <-> In x (reach g n)).
Proof.
  intros g n m x C Hn Hm. apply (reach_in_iff g n m C Hn) in Hm.
  pose proof (conn_listed g n m C Hn Hm) as Hm'.
  rewrite (reach_in_iff g m x C Hm'), (reach_in_iff g n x C Hn). split; intros H.
  - apply (conn_trans g n m x Hm H).
  - apply (conn_trans g m n x (conn_sym g n m C Hn Hm) H).
Qed.

(* a reach set is closed under the listed edges, in both directions *)
Lemma reach_edge_closed : forall g r e, consistent g -> In r (g_N g) -> In e (g_E g) ->
  (In (e_from (gedge g e)) (reach g r) <-> In (e_to (gedge g e)) (reach g r)).
Proof.
  intros g r e C Hr HE. rewrite !(reach_in_iff g r _ C Hr).
  destruct (conn_edge g e C HE) as [F T]. split; intros H.
  - apply (conn_trans g r _ _ H F).
  - apply (conn_trans g r _ _ H T).
Qed.

(* ====================================================================================================== *)
(* D. components                                                                                           *)
(* ====================================================================================================== *)
(* the roots: the nodes at which components_from starts a new component *)
Fixpoint roots_from (g : graph) (todo visited : list nat) : list nat :=
  match todo with
  | [] => []
  | n :: t => if mem_nat n visited then roots_from g t visited
              else n :: roots_from g t (reach g n ++ visited)
  end.

Definition roots (g : graph) : list nat := roots_from g (g_N g) [].
Definition component (g : graph) (r : nat) : graph := subgraph g (reach g r).

Lemma components_from_roots : forall fuel g todo visited,
  components_from fuel g todo visited = map (component g) (roots_from g todo visited).
Proof.
  intros fuel g. induction todo as [|n t IH]; intros visited; cbn [components_from roots_from]; [reflexivity|].
  destruct (mem_nat n visited); [apply IH|]. cbn [map]. rewrite IH. reflexivity.
Qed.

Lemma components_roots : forall g, components g = map (component g) (roots g).
Proof. intros. apply components_from_roots. Qed.

Lemma component_N : forall g r, g_N (component g r) = filter (fun n => mem_nat n (reach g r)) (g_N g).
Proof. reflexivity. Qed.
Lemma component_E : forall g r,
  g_E (component g r) = filter (fun e => mem_nat (e_from (gedge g e)) (reach g r)) (g_E g).
Proof. reflexivity. Qed.
Lemma component_arenas : forall g r,
  g_na (component g r) = g_na g /\ g_ea (component g r) = g_ea g /\ g_L (component g r) = g_L g.
Proof. intros. repeat split; reflexivity. Qed.

Lemma in_component_N : forall g r n, consistent g -> In r (g_N g) ->
  (In n (g_N (component g r)) <-> In n (reach g r)).
Proof.
  intros g r n C Hr. rewrite component_N, filter_In, mem_nat_In. split; [tauto|].
  intros H. split; [|exact H]. apply (reach_listed g r C Hr). exact H.
Qed.

Lemma in_component_E : forall g r e,
  (In e (g_E (component g r)) <-> In e (g_E g) /\ In (e_from (gedge g e)) (reach g r)).
Proof. intros. rewrite component_E, filter_In, mem_nat_In. tauto. Qed.

(* visited sets are unions of classes *)
Definition conn_closed (g : graph) (v : list nat) : Prop := forall x y, In x v -> conn g x y -> In y v.

Lemma conn_closed_nil : forall g, conn_closed g [].
Proof. intros g x y []. Qed.

Lemma conn_closed_reach_app : forall g n v, consistent g -> In n (g_N g) -> conn_closed g v ->
  conn_closed g (reach g n ++ v).
Proof.
  intros g n v C Hn CV x y Hx Hxy. apply in_or_app. apply in_app_or in Hx. destruct Hx as [Hx|Hx].
  - left. apply (reach_in_iff g n y C Hn). apply (reach_in_iff g n x C Hn) in Hx.
    apply (conn_trans g n x y Hx Hxy).
  - right. apply (CV x y Hx Hxy).
Qed.

Lemma reach_disjoint_visited : forall g n v x, consistent g -> In n (g_N g) -> conn_closed g v ->
  ~ In n v -> In x (reach g n) -> ~ In x v.
Proof.
  intros g n v x C Hn CV NV Hx Hv. apply NV. apply (CV x n Hv).
  apply (reach_in_iff g n x C Hn) in Hx. apply (conn_sym g n x C Hn Hx).
Qed.

Lemma roots_from_incl : forall g todo visited, incl (roots_from g todo visited) todo.
Proof.
  intros g. induction todo as [|n t IH]; intros visited; cbn [roots_from]; [apply incl_refl|].
  destruct (mem_nat n visited).
  - apply incl_tl. apply IH.
  - intros x [<-|Hx]; [left; reflexivity|right; apply (IH _ x Hx)].
Qed.

Lemma roots_from_unvisited : forall g todo visited r, In r (roots_from g todo visited) -> ~ In r visited.
Proof.
  intros g. induction todo as [|n t IH]; intros visited r H; cbn [roots_from] in H; [destruct H|].
  destruct (mem_nat n visited) eqn:M.
  - apply (IH visited r H).
  - destruct H as [<-|H]; [apply mem_nat_false; exact M|].
    intros Hv. apply (IH _ r H). apply in_or_app. right. exact Hv.
Qed.

(* the roots form an order-preserving sublist of the node list *)
Lemma roots_from_sublist : forall g todo visited, NoDup todo ->
  roots_from g todo visited = filter (fun n => mem_nat n (roots_from g todo visited)) todo.
Proof.
  intros g. induction todo as [|n t IH]; intros visited ND; cbn [roots_from]; [reflexivity|].
  inversion ND as [|n' t' NI ND']; subst.
  destruct (mem_nat n visited) eqn:M.
  - cbn [filter].
    assert (NR : mem_nat n (roots_from g t visited) = false).
    { apply mem_nat_false. intros H. apply NI. apply (roots_from_incl g t visited n H). }
    rewrite NR. apply IH. exact ND'.
  - cbn [filter]. unfold mem_nat at 1. cbn [existsb]. rewrite Nat.eqb_refl. cbn [orb]. f_equal.
    rewrite (IH (reach g n ++ visited) ND') at 1.
    apply filter_ext_in. intros x Hx. unfold mem_nat at 2. cbn [existsb].
    destruct (Nat.eqb x n) eqn:E; [|reflexivity].
    apply Nat.eqb_eq in E. subst x. contradiction.
Qed.

(* the generic splitting step behind the partition of nodes (k = id) and of edges (k = e_from) *)
Lemma split_perm : forall (k : nat -> nat) ns visited (l : list nat),
  (forall x, In x ns -> ~ In x visited) ->
  Permutation (filter (fun a => mem_nat (k a) ns) l ++ filter (fun a => negb (mem_nat (k a) (ns ++ visited))) l)
              (filter (fun a => negb (mem_nat (k a) visited)) l).
Proof.
  intros k ns visited l D. induction l as [|a l IH]; [constructor|].
  cbn [filter]. rewrite mem_nat_app.
  destruct (mem_nat (k a) ns) eqn:M1; destruct (mem_nat (k a) visited) eqn:M2; cbn [negb orb app].
  - apply mem_nat_In in M1. apply mem_nat_In in M2. elim (D _ M1 M2).
  - constructor. exact IH.
  - exact IH.
  - apply Permutation_sym. apply Permutation_cons_app. apply Permutation_sym. exact IH.
Qed.

Section ComponentsOf.
  Variable g : graph.
  Hypothesis C : consistent g.

  (* partition of any list l keyed by listed nodes, along the roots *)
  Lemma roots_from_partition : forall (k : nat -> nat) (l : list nat),
    (forall a, In a l -> In (k a) (g_N g)) ->
    forall todo pre visited,
      g_N g = pre ++ todo -> incl pre visited -> conn_closed g visited ->
      Permutation (concat (map (fun r => filter (fun a => mem_nat (k a) (reach g r)) l) (roots_from g todo visited)))
                  (filter (fun a => negb (mem_nat (k a) visited)) l).
  Proof.
    intros k l KL. induction todo as [|n t IH]; intros pre visited SPLIT PV CV; cbn [roots_from].
    - cbn [map concat]. rewrite filter_false; [constructor|].
      intros a Ha. rewrite app_nil_r in SPLIT. apply negb_false_iff. apply mem_nat_In.
      apply PV. rewrite <- SPLIT. apply KL. exact Ha.
    - assert (SPLIT' : g_N g = (pre ++ [n]) ++ t) by (rewrite <- app_assoc; exact SPLIT).
      destruct (mem_nat n visited) eqn:M.
      + apply (IH (pre ++ [n]) visited SPLIT'); [|exact CV].
        intros x Hx. apply in_app_or in Hx. destruct Hx as [Hx|[<-|[]]]; [apply PV; exact Hx|].
        apply mem_nat_In. exact M.
      + apply mem_nat_false in M.
        assert (Hn : In n (g_N g)) by (rewrite SPLIT; apply in_or_app; right; left; reflexivity).
        cbn [map concat].
        eapply Permutation_trans; [|apply (split_perm k (reach g n) visited l)].
        * apply Permutation_app_head.
          apply (IH (pre ++ [n]) (reach g n ++ visited) SPLIT').
          -- intros x Hx. apply in_or_app. apply in_app_or in Hx. destruct Hx as [Hx|[<-|[]]].
             ++ right. apply PV. exact Hx.
             ++ left. apply (reach_self g n C Hn).
          -- apply conn_closed_reach_app; assumption.
        * intros x Hx. apply (reach_disjoint_visited g n visited x C Hn CV M Hx).
  Qed.

  (* every root is the first listed node of its component *)
  Lemma roots_from_first : forall todo pre visited,
    g_N g = pre ++ todo -> incl pre visited -> conn_closed g visited ->
    forall r, In r (roots_from g todo visited) -> hd_error (g_N (component g r)) = Some r.
  Proof.
    induction todo as [|n t IH]; intros pre visited SPLIT PV CV r Hr; cbn [roots_from] in Hr; [destruct Hr|].
    assert (SPLIT' : g_N g = (pre ++ [n]) ++ t) by (rewrite <- app_assoc; exact SPLIT).
    assert (Hn : In n (g_N g)) by (rewrite SPLIT; apply in_or_app; right; left; reflexivity).
    destruct (mem_nat n visited) eqn:M.
    - apply (IH (pre ++ [n]) visited SPLIT'); [|exact CV|exact Hr].
      intros x Hx. apply in_app_or in Hx. destruct Hx as [Hx|[<-|[]]]; [apply PV; exact Hx|].
      apply mem_nat_In. exact M.
    - apply mem_nat_false in M. destruct Hr as [<-|Hr].
      + rewrite component_N, SPLIT, filter_app. rewrite filter_false.
        * cbn [app filter].
          assert (R : mem_nat n (reach g n) = true) by (apply mem_nat_In; apply (reach_self g n C Hn)).
          rewrite R. reflexivity.
        * intros x Hx. apply mem_nat_false. intros Hx'.
          apply (reach_disjoint_visited g n visited x C Hn CV M Hx'). apply PV. exact Hx.
      + apply (IH (pre ++ [n]) (reach g n ++ visited) SPLIT'); [| |exact Hr].
        * intros x Hx. apply in_or_app. apply in_app_or in Hx. destruct Hx as [Hx|[<-|[]]].
          -- right. apply PV. exact Hx.
          -- left. apply (reach_self g n C Hn).
        * apply conn_closed_reach_app; assumption.
  Qed.

  Lemma roots_listed : forall r, In r (roots g) -> In r (g_N g).
  Proof. intros r Hr. apply (roots_from_incl g (g_N g) [] r Hr). Qed.

  Lemma roots_sublist : roots g = filter (fun n => mem_nat n (roots g)) (g_N g).
  Proof. apply roots_from_sublist. apply (c_nodupN g C). Qed.

  Lemma roots_nodup : NoDup (roots g).
  Proof. rewrite roots_sublist. apply NoDup_filter'. apply (c_nodupN g C). Qed.

  Lemma roots_first : forall r, In r (roots g) -> hd_error (g_N (component g r)) = Some r.
  Proof.
    intros r Hr. apply (roots_from_first (g_N g) [] []); auto.
    - intros x [].
    - apply conn_closed_nil.
  Qed.

  (* the first root is the first listed node *)
  Lemma roots_hd : hd_error (roots g) = hd_error (g_N g).
  Proof.
    unfold roots. destruct (g_N g) as [|n t]; [reflexivity|]. cbn [roots_from mem_nat existsb]. reflexivity.
  Qed.

  Lemma nodes_partition : Permutation (concat (map g_N (map (component g) (roots g)))) (g_N g).
  Proof.
    rewrite map_map.
    rewrite (map_ext (fun r => g_N (component g r)) (fun r => filter (fun a => mem_nat (id a) (reach g r)) (g_N g)))
      by (intros; reflexivity).
    eapply Permutation_trans.
    - apply (roots_from_partition id (g_N g)) with (pre := []) (visited := []); auto.
      + intros x [].
      + apply conn_closed_nil.
    - rewrite filter_true; [apply Permutation_refl|]. intros; reflexivity.
  Qed.

  Lemma edges_partition : Permutation (concat (map g_E (map (component g) (roots g)))) (g_E g).
  Proof.
    rewrite map_map.
    rewrite (map_ext (fun r => g_E (component g r))
                     (fun r => filter (fun a => mem_nat ((fun e => e_from (gedge g e)) a) (reach g r)) (g_E g)))
      by (intros; reflexivity).
    eapply Permutation_trans.
    - apply (roots_from_partition (fun e => e_from (gedge g e)) (g_E g)) with (pre := []) (visited := []); auto.
      + intros e He. apply (c_from g C e He).
      + intros x [].
      + apply conn_closed_nil.
    - rewrite filter_true; [apply Permutation_refl|]. intros; reflexivity.
  Qed.

  (* a component is a consistent graph of its own *)
  Lemma component_consistent : forall r, In r (g_N g) -> consistent (component g r).
  Proof.
    intros r Hr.
    assert (NIN : forall n, In n (g_N (component g r)) -> In n (g_N g) /\ In n (reach g r)).
    { intros n Hn. rewrite component_N, filter_In, mem_nat_In in Hn. exact Hn. }
    assert (EIN : forall e, In e (g_E (component g r)) -> In e (g_E g) /\ In (e_from (gedge g e)) (reach g r)).
    { intros e He. apply in_component_E. exact He. }
    constructor.
    - rewrite component_N. apply NoDup_filter'. apply (c_nodupN g C).
    - rewrite component_E. apply NoDup_filter'. apply (c_nodupE g C).
    - intros n Hn. apply (c_N_lt g C). apply NIN. exact Hn.
    - intros e He. apply (c_E_lt g C). apply EIN. exact He.
    - intros e He. destruct (EIN e He) as [HE HF].
      apply (in_component_N g r _ C Hr). exact HF.
    - intros e He. destruct (EIN e He) as [HE HF].
      apply (in_component_N g r _ C Hr). apply (reach_edge_closed g r e C Hr HE). exact HF.
    - intros n Hn. destruct (NIN n Hn) as [HN HR].
      change (n_out (gnode g n) = filter (fun e => Nat.eqb (e_from (gedge g e)) n) (g_E (component g r))).
      rewrite (c_out g C n HN). unfold out_edges. rewrite component_E, filter_filter.
      apply filter_ext_in. intros e He.
      destruct (Nat.eqb (e_from (gedge g e)) n) eqn:E; [|rewrite andb_false_r; reflexivity].
      apply Nat.eqb_eq in E. rewrite E. apply mem_nat_In in HR. rewrite HR. reflexivity.
    - intros n Hn. destruct (NIN n Hn) as [HN HR].
      change (n_in (gnode g n) = filter (fun e => Nat.eqb (e_to (gedge g e)) n) (g_E (component g r))).
      rewrite (c_in g C n HN). unfold in_edges. rewrite component_E, filter_filter.
      apply filter_ext_in. intros e He.
      destruct (Nat.eqb (e_to (gedge g e)) n) eqn:E; [|rewrite andb_false_r; reflexivity].
      apply Nat.eqb_eq in E.
      assert (HF : In (e_from (gedge g e)) (reach g r)).
      { apply (reach_edge_closed g r e C Hr He). rewrite E. exact HR. }
      apply mem_nat_In in HF. rewrite HF. reflexivity.
  Qed.
End ComponentsOf.

Lemma NoDup_concat_pairs : forall (ls : list (list nat)), NoDup (concat ls) ->
  ForallOrdPairs (fun l1 l2 => forall x, In x l1 -> ~ In x l2) ls.
Proof.
  induction ls as [|l ls IH]; intros ND; [constructor|].
  cbn [concat] in ND. constructor.
  - apply Forall_forall. intros l2 Hl2 x Hx1 Hx2.
    revert ND. apply (in_split l2) in Hl2. destruct Hl2 as [a [b ->]].
    rewrite concat_app. cbn [concat]. intros ND.
    apply (in_split x) in Hx1. destruct Hx1 as [u [v ->]].
    rewrite <- app_assoc in ND. cbn [app] in ND. apply NoDup_remove_2 in ND.
    apply ND. apply in_or_app. right. apply in_or_app. right. apply in_or_app. right.
    apply in_or_app. left. exact Hx2.
  - apply IH. revert ND. clear. induction l as [|y l IHl]; [auto|].
    cbn [app]. intros ND. inversion ND; subst. auto.
Qed.

Lemma FOP_map : forall (X Y : Type) (f : X -> Y) (R : Y -> Y -> Prop) (l : list X),
  ForallOrdPairs R (map f l) -> ForallOrdPairs (fun a b => R (f a) (f b)) l.
Proof.
  intros X Y f R. induction l as [|a l IH]; intros H; [constructor|].
  cbn [map] in H. inversion H as [|a' l' HA HL]; subst. constructor.
  - apply Forall_forall. intros b Hb. rewrite Forall_forall in HA. apply HA. apply in_map. exact Hb.
  - apply IH. exact HL.
Qed.

(* ---------- the main statement ---------- *)
Theorem components_partition : forall g, consistent g ->
  let cs := components g in
  (* same arenas, same layers *)
  (forall c, In c cs -> g_na c = g_na g /\ g_ea c = g_ea g /\ g_L c = g_L g) /\
  (* node and edge lists are order-preserving sublists of those of g *)
  (forall c, In c cs -> g_N c = filter (fun n => mem_nat n (g_N c)) (g_N g)) /\
  (forall c, In c cs -> g_E c = filter (fun e => mem_nat e (g_E c)) (g_E g)) /\
  (* pairwise disjoint *)
  ForallOrdPairs (fun c1 c2 => forall n, In n (g_N c1) -> ~ In n (g_N c2)) cs /\
  ForallOrdPairs (fun c1 c2 => forall e, In e (g_E c1) -> ~ In e (g_E c2)) cs /\
  (* covering *)
  Permutation (concat (map g_N cs)) (g_N g) /\
  Permutation (concat (map g_E cs)) (g_E g) /\
  (* an edge of g belongs to the component that contains its source, equivalently its target *)
  (forall c e, In c cs -> In e (g_E g) ->
     (In e (g_E c) <-> In (e_from (gedge g e)) (g_N c)) /\
     (In e (g_E c) <-> In (e_to (gedge g e)) (g_N c))) /\
  (* closed: both ends of every edge of a component are nodes of the component *)
  (forall c e, In c cs -> In e (g_E c) -> In (e_from (gedge c e)) (g_N c) /\ In (e_to (gedge c e)) (g_N c)) /\
  (* every component is exactly one undirected-connectivity class, and is not empty *)
  (forall c n, In c cs -> In n (g_N c) -> forall m, In m (g_N c) <-> conn g n m) /\
  (forall c, In c cs -> g_N c <> []) /\
  (* every component is itself consistent *)
  (forall c, In c cs -> consistent c) /\
  (* order: the first nodes of the components form an order-preserving sublist of g_N g that starts with the
     first node of g: the first component contains the first node, and components appear in the order of
     their first node *)
  (exists rs, map (fun c => hd_error (g_N c)) cs = map Some rs /\
              rs = filter (fun n => mem_nat n rs) (g_N g) /\
              hd_error rs = hd_error (g_N g) /\
              cs = map (fun r => subgraph g (reach g r)) rs).
Proof.
  intros g C cs. subst cs. rewrite components_roots.
  assert (INV : forall c, In c (map (component g) (roots g)) -> exists r, In r (roots g) /\ In r (g_N g) /\ c = component g r).
  { intros c Hc. apply in_map_iff in Hc. destruct Hc as [r [<- Hr]]. exists r.
    split; [exact Hr|]. split; [apply (roots_listed g r Hr)|reflexivity]. }
  assert (MEMN : forall r, In r (g_N g) -> forall n, mem_nat n (g_N (component g r)) = mem_nat n (reach g r)).
  { intros r Hr n. destruct (mem_nat n (reach g r)) eqn:M.
    - apply mem_nat_In. apply (in_component_N g r n C Hr). apply mem_nat_In. exact M.
    - apply mem_nat_false. intros H. apply (in_component_N g r n C Hr) in H. apply mem_nat_In in H. congruence. }
  assert (PN := nodes_partition g C). assert (PE := edges_partition g C).
  split.
  { intros c Hc. destruct (INV c Hc) as [r [_ [_ ->]]]. apply component_arenas. }
  split.
  { intros c Hc. destruct (INV c Hc) as [r [_ [Hr ->]]].
    rewrite (filter_ext _ _ (MEMN r Hr)). apply component_N. }
  split.
  { intros c Hc. destruct (INV c Hc) as [r [_ [Hr ->]]].
    rewrite component_E at 1. apply filter_ext_in. intros e He.
    destruct (mem_nat (e_from (gedge g e)) (reach g r)) eqn:M.
    - symmetry. apply mem_nat_In. apply in_component_E. split; [exact He|]. apply mem_nat_In. exact M.
    - symmetry. apply mem_nat_false. intros H. apply in_component_E in H. destruct H as [_ H].
      apply mem_nat_In in H. congruence. }
  split.
  { apply (FOP_map graph (list nat) g_N (fun l1 l2 => forall x, In x l1 -> ~ In x l2)). apply NoDup_concat_pairs.
    apply (Permutation_NoDup (Permutation_sym PN)). apply (c_nodupN g C). }
  split.
  { apply (FOP_map graph (list nat) g_E (fun l1 l2 => forall x, In x l1 -> ~ In x l2)). apply NoDup_concat_pairs.
    apply (Permutation_NoDup (Permutation_sym PE)). apply (c_nodupE g C). }
  split; [exact PN|]. split; [exact PE|].
  split.
  { intros c e Hc He. destruct (INV c Hc) as [r [_ [Hr ->]]].
    rewrite !(in_component_N g r _ C Hr). rewrite in_component_E. split.
    - tauto.
    - rewrite <- (reach_edge_closed g r e C Hr He). tauto. }
  split.
  { intros c e Hc He. destruct (INV c Hc) as [r [_ [Hr ->]]].
    pose proof (component_consistent g C r Hr) as CC.
    split; [apply (c_from _ CC e He)|apply (c_to _ CC e He)]. }
  split.
  { intros c n Hc Hn m. destruct (INV c Hc) as [r [_ [Hr ->]]].
    apply (in_component_N g r n C Hr) in Hn. rewrite (in_component_N g r m C Hr).
    rewrite <- (reach_same_class g r n m C Hr Hn).
    apply reach_in_iff; [exact C|]. apply (reach_listed g r C Hr). exact Hn. }
  split.
  { intros c Hc. destruct (INV c Hc) as [r [Hrr [Hr ->]]].
    pose proof (roots_first g C r Hrr) as H. intros E. rewrite E in H. discriminate H. }
  split.
  { intros c Hc. destruct (INV c Hc) as [r [_ [Hr ->]]]. apply (component_consistent g C r Hr). }
  exists (roots g). split.
  { rewrite map_map. apply map_ext_in. intros r Hr. apply (roots_first g C r Hr). }
  split; [apply (roots_sublist g C)|]. split; [apply (roots_hd g)|reflexivity].
Qed.

Print Assumptions components_partition.

(* the first component contains the first node of g *)
Corollary components_first : forall g n t, consistent g -> g_N g = n :: t ->
  exists c cs', components g = c :: cs' /\ hd_error (g_N c) = Some n.
Proof.
  intros g n t C E. rewrite components_roots.
  pose proof (roots_hd g) as H. rewrite E in H. cbn [hd_error] in H.
  destruct (roots g) as [|r rs] eqn:R; [discriminate H|]. cbn [hd_error] in H. injection H as ->.
  exists (component g n), (map (component g) rs). split; [reflexivity|].
  apply (roots_first g C). rewrite R. left. reflexivity.
Qed.

(* ---------- examples ---------- *)
Definition example_components : list graph := Eval vm_compute in components example_graph.

Example example_components_ok : components example_graph = example_components.
Proof. vm_compute. reflexivity. Qed.

Example example_components_nodes : map g_N example_components = [[0;1;2]; [3]].
Proof. reflexivity. Qed.

Example example_components_edges : map g_E example_components = [[0;1;2]; [3]].
Proof. reflexivity. Qed.

Example example_reach : reach example_graph 2 = [2;1;0].
Proof. vm_compute. reflexivity. Qed.

(* a graph whose components interleave in the node list: 1-2, 3-4, 2-5, 4-6 gives {1,2,5} and {3,4,6} *)
Definition example_graph3 : graph := Eval vm_compute in
  match populate nat Nat.eqb [[1;2];[3;4];[5;2];[4;6]] with Ok (_, g) => g | Err _ => empty_graph end.

Example example_graph3_components :
  map (fun c => (g_N c, g_E c)) (components example_graph3) = [([0;1;4], [0;2]); ([2;3;5], [1;3])].
Proof. vm_compute. reflexivity. Qed.

Example example_partition_instance :
  Permutation (concat (map g_N (components example_graph))) (g_N example_graph).
Proof. apply (components_partition example_graph example_graph_consistent). Qed.
