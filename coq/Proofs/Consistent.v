(* Consistent.v — the structural well-formedness predicate shared by the proofs about populate, components and
   self loops: node/edge lists without duplicates and inside the arenas, edges joining listed nodes, and the
   adjacency lists of every listed node being exactly the listed edges leaving / entering it, in list order. *)
From Autog Require Import Base Graph Populate.
From Autog.Proofs Require Import ListLemmas.
Local Open Scope nat_scope.

Definition out_edges (g : graph) (n : nat) : list nat :=
  filter (fun e => Nat.eqb (e_from (gedge g e)) n) (g_E g).
Definition in_edges (g : graph) (n : nat) : list nat :=
  filter (fun e => Nat.eqb (e_to (gedge g e)) n) (g_E g).

Record consistent (g : graph) : Prop := mkConsistent {
  c_nodupN : NoDup (g_N g);
  c_nodupE : NoDup (g_E g);
  c_N_lt : forall n, In n (g_N g) -> n < length (g_na g);
  c_E_lt : forall e, In e (g_E g) -> e < length (g_ea g);
  c_from : forall e, In e (g_E g) -> In (e_from (gedge g e)) (g_N g);
  c_to : forall e, In e (g_E g) -> In (e_to (gedge g e)) (g_N g);
  c_out : forall n, In n (g_N g) -> n_out (gnode g n) = out_edges g n;
  c_in : forall n, In n (g_N g) -> n_in (gnode g n) = in_edges g n
}.

Lemma in_out_edges : forall g n e, In e (out_edges g n) <-> In e (g_E g) /\ e_from (gedge g e) = n.
Proof. intros. unfold out_edges. rewrite filter_In, Nat.eqb_eq. tauto. Qed.

Lemma in_in_edges : forall g n e, In e (in_edges g n) <-> In e (g_E g) /\ e_to (gedge g e) = n.
Proof. intros. unfold in_edges. rewrite filter_In, Nat.eqb_eq. tauto. Qed.

(* a concrete non-trivial instance: the graph built from 1->2, 2->3, 1->2 (again), 4->4 *)
Definition example_graph : graph := Eval vm_compute in
  match populate nat Nat.eqb [[1;2];[2;3];[1;2];[4;4]] with
  | Ok (_, g) => g
  | Err _ => empty_graph
  end.

Ltac list_cases H :=
  repeat match type of H with
         | In _ (_ :: _) => destruct H as [H|H]; [subst|]
         | In _ [] => destruct H
         | _ \/ _ => destruct H as [H|H]; [subst|]
         | False => destruct H
         end.

Example example_graph_consistent : consistent example_graph.
Proof.
  constructor.
  - vm_compute. repeat constructor; cbn; intuition congruence.
  - vm_compute. repeat constructor; cbn; intuition congruence.
  - intros n H. vm_compute in H. list_cases H; vm_compute; lia.
  - intros n H. vm_compute in H. list_cases H; vm_compute; lia.
  - intros n H. vm_compute in H. list_cases H; vm_compute; tauto.
  - intros n H. vm_compute in H. list_cases H; vm_compute; tauto.
  - intros n H. vm_compute in H. list_cases H; vm_compute; reflexivity.
  - intros n H. vm_compute in H. list_cases H; vm_compute; reflexivity.
Qed.
