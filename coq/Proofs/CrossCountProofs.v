(* CrossCountProofs.v — correctness of the Barth-Mutzel accumulator-tree cross counter (Model/CrossCount.v)

   X1  cc_count_inversions     : the accumulator tree computes the number of inversions of the target sequence
   X2  radix_inversions_*      : inversions of the radix-sorted targets = naive number of crossings
   X3  count_crossings_exact / reported_crossings_exact : glue to the graph state *)
From Autog Require Import CrossCount.
From Coq Require Import ZifyNat Permutation Sorted.

Set Implicit Arguments.

Ltac dlia := zify; Z.div_mod_to_equations; lia.

(* ====================================================================================================== *)
(* Counting                                                                                               *)
(* ====================================================================================================== *)
Definition b2z (b : bool) : Z := if b then 1 else 0.

Fixpoint cnt (P : Z -> bool) (l : list Z) : Z :=
  match l with [] => 0 | u :: r => b2z (P u) + cnt P r end.

Lemma cnt_filter : forall P l, cnt P l = Z.of_nat (length (filter P l)).
Proof.
  intros P l; induction l as [|u r IH]; [reflexivity|].
  cbn [cnt filter]. destruct (P u); cbn [b2z length]; lia.
Qed.

Lemma cnt_nonneg : forall P l, 0 <= cnt P l.
Proof. intros; rewrite cnt_filter; lia. Qed.

Lemma cnt_ext_in : forall P Q l, (forall u, In u l -> P u = Q u) -> cnt P l = cnt Q l.
Proof.
  intros P Q l; induction l as [|u r IH]; intros H; [reflexivity|].
  cbn [cnt]. rewrite (H u (or_introl eq_refl)), IH; [reflexivity|].
  intros v Hv; apply H; right; exact Hv.
Qed.

Lemma cnt_add_in : forall R P Q l,
  (forall u, In u l -> b2z (R u) = b2z (P u) + b2z (Q u)) -> cnt R l = cnt P l + cnt Q l.
Proof.
  intros R P Q l; induction l as [|u r IH]; intros H; [reflexivity|].
  cbn [cnt]. rewrite (H u (or_introl eq_refl)), IH; [lia|].
  intros v Hv; apply H; right; exact Hv.
Qed.

Lemma cnt_zero_in : forall P l, (forall u, In u l -> P u = false) -> cnt P l = 0.
Proof.
  intros P l; induction l as [|u r IH]; intros H; [reflexivity|].
  cbn [cnt]. rewrite (H u (or_introl eq_refl)), IH; [reflexivity|].
  intros v Hv; apply H; right; exact Hv.
Qed.

Lemma cnt_app : forall P l1 l2, cnt P (l1 ++ l2) = cnt P l1 + cnt P l2.
Proof.
  intros P l1 l2; induction l1 as [|u r IH]; [reflexivity|].
  cbn [app cnt]. rewrite IH; lia.
Qed.

(* ====================================================================================================== *)
(* Inversions                                                                                             *)
(* ====================================================================================================== *)
(* number of pairs of positions a < b with  nth a l > nth b l : each element against the LATER ones *)
Fixpoint inversions (l : list Z) : Z :=
  match l with [] => 0 | x :: t => cnt (fun y => y <? x) t + inversions t end.

(* left-to-right formulation: each new element t contributes the number of EARLIER elements that are > t *)
Fixpoint inv_acc (seen : list Z) (ts : list Z) : Z :=
  match ts with [] => 0 | t :: r => cnt (fun u => t <? u) seen + inv_acc (t :: seen) r end.

Fixpoint cross_seen (seen ts : list Z) : Z :=
  match ts with [] => 0 | t :: r => cnt (fun u => t <? u) seen + cross_seen seen r end.

Lemma inv_acc_split : forall ts seen, inv_acc seen ts = cross_seen seen ts + inversions ts.
Proof.
  induction ts as [|t r IH]; intros seen; [reflexivity|].
  cbn [inv_acc cross_seen inversions]. rewrite IH.
  assert (E : forall l, cross_seen (t :: seen) l = cnt (fun y => y <? t) l + cross_seen seen l).
  { induction l as [|x l IHl]; [reflexivity|].
    cbn [cross_seen cnt]. rewrite IHl. lia. }
  rewrite E. lia.
Qed.

Lemma inv_acc_nil : forall ts, inv_acc [] ts = inversions ts.
Proof.
  intros ts. rewrite inv_acc_split.
  assert (E : cross_seen [] ts = 0) by (induction ts as [|t r IH]; [reflexivity|cbn [cross_seen cnt]; lia]).
  lia.
Qed.

(* the textbook formulation by positions: number of (a, b) with a < b < length l and nth b l < nth a l *)
Fixpoint sumn (n : nat) (f : nat -> Z) : Z :=
  match n with O => 0 | S k => f O + sumn k (fun i => f (S i)) end.

Definition inversions_pos (l : list Z) : Z :=
  sumn (length l) (fun a => sumn (length l) (fun b => b2z ((a <? b)%nat && (nth b l 0 <? nth a l 0)))).

Lemma sumn_ext : forall n f g, (forall i, f i = g i) -> sumn n f = sumn n g.
Proof.
  induction n as [|n IH]; intros f g H; [reflexivity|].
  cbn [sumn]. rewrite (H O). f_equal. apply IH. intros i; apply H.
Qed.

Lemma sumn_cnt : forall P t, sumn (length t) (fun b => b2z (P (nth b t 0))) = cnt P t.
Proof.
  intros P t; induction t as [|x t IH]; [reflexivity|].
  cbn [length sumn cnt nth]. rewrite IH. reflexivity.
Qed.

Theorem inversions_pos_eq : forall l, inversions_pos l = inversions l.
Proof.
  unfold inversions_pos. induction l as [|x t IH]; [reflexivity|].
  cbn [length inversions]. cbn [sumn]. rewrite <- IH. clear IH.
  f_equal.
  cbn [nth Nat.ltb Nat.leb andb b2z]. rewrite <- (sumn_cnt (fun y => y <? x) t). apply Z.add_0_l.
Qed.
Print Assumptions inversions_pos_eq.

Example inversions_pos_ex : inversions_pos [3;0;4;1;1;2] = 7 /\ inversions [3;0;4;1;1;2] = 7 /\ inv_acc [] [3;0;4;1;1;2] = 7.
Proof. vm_compute. repeat split; reflexivity. Qed.

(* ====================================================================================================== *)
(* Powers of two                                                                                          *)
(* ====================================================================================================== *)
Fixpoint p2 (n : nat) : Z := match n with O => 1 | S k => 2 * p2 k end.

Lemma p2_pos : forall n, 0 < p2 n.
Proof. induction n as [|n IH]; cbn [p2]; lia. Qed.

Lemma p2_add : forall a b, p2 (a + b) = p2 a * p2 b.
Proof. induction a as [|a IH]; intros b; cbn [p2 Nat.add]; [lia|rewrite IH; lia]. Qed.

Lemma p2_lt_mono : forall a b, (a < b)%nat -> 2 * p2 a <= p2 b.
Proof.
  intros a b H; induction H as [|b H IH]; cbn [p2]; [lia|].
  pose proof (p2_pos b). lia.
Qed.

Lemma p2_range_unique : forall a b j, p2 a <= j < 2 * p2 a -> p2 b <= j < 2 * p2 b -> a = b.
Proof.
  intros a b j Ha Hb.
  destruct (Nat.lt_trichotomy a b) as [H|[H|H]]; [|exact H|].
  - pose proof (p2_lt_mono H). lia.
  - pose proof (p2_lt_mono H). lia.
Qed.

Lemma pow2_ge_is_pow : forall fuel k q, (exists h, Z.of_nat k = p2 h) -> exists h, Z.of_nat (pow2_ge fuel k q) = p2 h.
Proof.
  induction fuel as [|f IH]; intros k q [h Hh]; cbn [pow2_ge]; [exists h; exact Hh|].
  destruct (Nat.ltb k q); [|exists h; exact Hh].
  apply IH. exists (S h). cbn [p2]. lia.
Qed.

Lemma pow2_ge_ge : forall fuel k q, (q <= k * 2 ^ fuel)%nat -> (q <= pow2_ge fuel k q)%nat.
Proof.
  induction fuel as [|f IH]; intros k q H; cbn [pow2_ge].
  - cbn in H. lia.
  - destruct (Nat.ltb k q) eqn:E.
    + apply IH. rewrite Nat.pow_succ_r' in H. lia.
    + apply Nat.ltb_ge in E. exact E.
Qed.

Lemma pow2_ge_spec : forall q, (q <= pow2_ge q 1 q)%nat /\ exists h, Z.of_nat (pow2_ge q 1 q) = p2 h.
Proof.
  intros q; split.
  - apply pow2_ge_ge. pose proof (Nat.pow_gt_lin_r 2 q). lia.
  - apply pow2_ge_is_pow. exists O. reflexivity.
Qed.

(* ====================================================================================================== *)
(* nth / upd / repeat                                                                                     *)
(* ====================================================================================================== *)
Lemma upd_length : forall A (l : list A) i f, length (upd l i f) = length l.
Proof.
  intros A l; induction l as [|x t IH]; intros i f; [reflexivity|].
  destruct i as [|i]; cbn [upd length]; [reflexivity|rewrite IH; reflexivity].
Qed.

Lemma nth_upd_same : forall A (l : list A) i f d, (i < length l)%nat -> nth i (upd l i f) d = f (nth i l d).
Proof.
  intros A l; induction l as [|x t IH]; intros i f d H; cbn [length] in H; [lia|].
  destruct i as [|i]; cbn [upd nth]; [reflexivity|apply IH; lia].
Qed.

Lemma nth_upd_other : forall A (l : list A) i j f d, i <> j -> nth j (upd l i f) d = nth j l d.
Proof.
  intros A l; induction l as [|x t IH]; intros i j f d H; [reflexivity|].
  destruct i as [|i]; destruct j as [|j]; cbn [upd nth]; try reflexivity; [lia|apply IH; lia].
Qed.

Lemma nth_repeat0 : forall n i, nth i (repeat 0 n) 0 = 0.
Proof.
  induction n as [|n IH]; intros i; destruct i; cbn [repeat nth]; try reflexivity. apply IH.
Qed.

(* ====================================================================================================== *)
(* X1: the accumulator tree                                                                               *)
(* ====================================================================================================== *)
Section Tree.
  (* the tree has K = 2^h leaves; we use 1-based node numbers j = i+1 : children 2j, 2j+1, parent j/2,
     leaf of target t is K+t. The node at height s above the leaf K+t is (K+t)/2^s. *)
  Variable h : nat.
  Local Notation K := (p2 h).

  Definition anc (s : nat) (u : Z) : Z := (K + u) / p2 s.

  Lemma anc_0 : forall u, anc 0 u = K + u.
  Proof. intros u; unfold anc; cbn [p2]. apply Z.div_1_r. Qed.

  Lemma anc_S : forall s u, anc (S s) u = anc s u / 2.
  Proof.
    intros s u; unfold anc; cbn [p2]. pose proof (p2_pos s).
    rewrite (Z.mul_comm 2). rewrite Z.div_div; [reflexivity|lia|lia].
  Qed.

  Lemma anc_mono : forall s u v, u <= v -> anc s u <= anc s v.
  Proof. intros s u v H; unfold anc. apply Z.div_le_mono; [apply p2_pos|lia]. Qed.

  Lemma anc_range : forall s u, (s <= h)%nat -> 0 <= u < K -> p2 (h - s) <= anc s u < 2 * p2 (h - s).
  Proof.
    intros s u Hs Hu; unfold anc.
    assert (E : K = p2 (h - s) * p2 s).
    { rewrite <- p2_add. f_equal. lia. }
    pose proof (p2_pos s) as Hp. pose proof (p2_pos (h - s)) as Hq.
    split.
    - apply Z.div_le_lower_bound; [exact Hp|]. rewrite E in *. nia.
    - apply Z.div_lt_upper_bound; [exact Hp|]. rewrite E in *. nia.
  Qed.

  Lemma anc_h : forall u, 0 <= u < K -> anc h u = 1.
  Proof.
    intros u Hu. pose proof (anc_range (Nat.le_refl h) Hu) as H.
    rewrite Nat.sub_diag in H. cbn [p2] in H. lia.
  Qed.

  Lemma range_below_2K : forall s' j, (s' <= h)%nat -> p2 (h - s') <= j < 2 * p2 (h - s') -> 1 <= j < 2 * K.
  Proof.
    intros s' j Hs Hj. pose proof (p2_pos (h - s')).
    destruct (Nat.eq_dec s' 0) as [->|Hn].
    - rewrite Nat.sub_0_r in Hj. lia.
    - assert (L : (h - s' < h)%nat) by lia. pose proof (p2_lt_mono L). lia.
  Qed.

  Variable seen : list Z.
  Hypothesis seen_ok : forall u, In u seen -> 0 <= u < K.

  (* the state of the tree in the middle of an insertion of t: the nodes on the path from the leaf of t up to
     height s (inclusive) already count t.  s = None: nothing counted yet. *)
  Definition bump (s : option nat) (t : Z) (s' : nat) (j : Z) : Z :=
    match s with
    | None => 0
    | Some s => b2z ((s' <=? s)%nat && (j =? anc s' t))
    end.

  Definition tree_mid (s : option nat) (t : Z) (tree : list Z) : Prop :=
    Z.of_nat (length tree) = 2 * K - 1 /\
    forall s' j, (s' <= h)%nat -> p2 (h - s') <= j < 2 * p2 (h - s') ->
      nth (Z.to_nat (j - 1)) tree 0 = cnt (fun u => anc s' u =? j) seen + bump s t s' j.

  (* one step up: bump the parent *)
  Lemma tree_mid_step : forall t tree s i,
    0 <= t < K -> (s < h)%nat -> tree_mid (Some s) t tree ->
    Z.of_nat (S i) = anc (S s) t ->
    tree_mid (Some (S s)) t (upd tree i (fun z => z + 1)).
  Proof.
    intros t tree s i Ht Hs [Hlen Hm] Hi. split; [rewrite upd_length; exact Hlen|].
    intros s' j Hs' Hj.
    pose proof (range_below_2K Hs' Hj) as Hj2.
    assert (Hra : p2 (h - S s) <= anc (S s) t < 2 * p2 (h - S s)) by (apply anc_range; [lia|exact Ht]).
    destruct (Z.eq_dec j (anc (S s) t)) as [Ej|Nj].
    - (* the bumped node *)
      assert (Es : s' = S s).
      { rewrite <- Ej in Hra. pose proof (p2_range_unique _ _ Hj Hra). lia. }
      subst s'.
      replace (Z.to_nat (j - 1)) with i by lia.
      rewrite nth_upd_same by lia.
      replace i with (Z.to_nat (j - 1)) by lia.
      rewrite (Hm (S s) j Hs' Hj). cbn [bump].
      replace (S s <=? s)%nat with false by (symmetry; apply Nat.leb_gt; lia).
      rewrite Nat.leb_refl. rewrite (proj2 (Z.eqb_eq _ _) Ej). cbn [andb b2z]. lia.
    - rewrite nth_upd_other by lia.
      rewrite (Hm s' j Hs' Hj). f_equal. cbn [bump].
      destruct (Z.eqb_spec j (anc s' t)) as [E|N].
      + assert (s' <> S s) by (intros ->; contradiction).
        rewrite !andb_true_r. f_equal.
        destruct (Nat.leb_spec s' s); destruct (Nat.leb_spec s' (S s)); try reflexivity; lia.
      + rewrite !andb_false_r. reflexivity.
  Qed.

  (* the walk from node i (= number j-1) at height s to the root *)
  Lemma walk_up_ok : forall t, 0 <= t < K ->
    forall fuel s tree i cross,
    (S i <= fuel)%nat -> (s <= h)%nat -> Z.of_nat (S i) = anc s t ->
    tree_mid (Some s) t tree ->
    tree_mid (Some h) t (fst (walk_up fuel tree i cross)) /\
    snd (walk_up fuel tree i cross) =
      cross + cnt (fun u => (t <? u) && negb (anc s u =? anc s t)) seen.
  Proof.
    intros t Ht. induction fuel as [|f IH]; intros s tree i cross Hf Hs Hi Hm; [lia|].
    cbn [walk_up].
    pose proof (anc_range Hs Ht) as Hr.
    destruct (Nat.eqb_spec i 0) as [E0|N0].
    - (* at the root *)
      subst i. cbn [fst snd].
      assert (Es : s = h).
      { assert (L : p2 (h - s) <= 1) by lia.
        destruct (h - s)%nat as [|d] eqn:Ed; [lia|].
        cbn [p2] in L. pose proof (p2_pos d). lia. }
      subst s. split; [exact Hm|].
      rewrite cnt_zero_in; [lia|].
      intros u Hu. rewrite (anc_h (seen_ok _ Hu)), (anc_h Ht). cbn. apply andb_false_r.
    - assert (Hsh : (s < h)%nat).
      { destruct (Nat.eq_dec s h) as [->|]; [|lia]. rewrite (anc_h Ht) in Hi. lia. }
      assert (Hi' : Z.of_nat (S ((i - 1) / 2)) = anc (S s) t).
      { rewrite anc_S, <- Hi. dlia. }
      specialize (IH (S s) (upd tree ((i - 1) / 2) (fun z => z + 1)) ((i - 1) / 2)%nat
                     (if Nat.odd i then cross + nth (S i) tree 0 else cross)).
      destruct IH as [IH1 IH2]; [dlia|lia|exact Hi'|apply tree_mid_step; assumption|].
      split; [exact IH1|]. rewrite IH2. clear IH1 IH2.
      set (j := anc s t) in *.
      destruct (Nat.odd i) eqn:Eo.
      + (* left child: j even, sibling j+1 *)
        assert (Ev : j mod 2 = 0).
        { apply Nat.odd_spec in Eo. destruct Eo as [m Em]. rewrite <- Hi. subst i.
          replace (Z.of_nat (S (2 * m + 1))) with ((Z.of_nat m + 1) * 2) by lia. apply Z_mod_mult. }
        assert (Hj1 : p2 (h - s) <= j + 1 < 2 * p2 (h - s)).
        { split; [lia|]. destruct (h - s)%nat as [|d] eqn:Ed; [lia|]. cbn [p2] in *. dlia. }
        destruct Hm as [_ Hm].
        replace (S i) with (Z.to_nat ((j + 1) - 1)) by lia.
        rewrite (Hm s (j + 1) Hs Hj1). cbn [bump].
        replace (j + 1 =? anc s t) with false by (symmetry; apply Z.eqb_neq; fold j; lia).
        rewrite andb_false_r. cbn [b2z].
        rewrite (@cnt_add_in (fun u => (t <? u) && negb (anc s u =? j))
                             (fun u => anc s u =? j + 1)
                             (fun u => (t <? u) && negb (anc (S s) u =? anc (S s) t))); [lia|].
        intros u Hu. rewrite !anc_S. fold j.
        pose proof (anc_mono s) as Hmono.
        assert (M1 : t <= u -> j <= anc s u) by (intros; apply Hmono; assumption).
        assert (M2 : u <= t -> anc s u <= j) by (intros; apply Hmono; assumption).
        set (a := anc s u) in *.
        destruct (Z.ltb_spec t u); destruct (Z.eqb_spec a j); destruct (Z.eqb_spec a (j + 1));
          destruct (Z.eqb_spec (a / 2) (j / 2)); cbn [andb negb b2z]; try reflexivity; exfalso; dlia.
      + (* right child: j odd *)
        assert (Ev : j mod 2 = 1).
        { assert (Ee : Nat.even i = true) by (rewrite <- Nat.negb_odd, Eo; reflexivity).
          apply Nat.even_spec in Ee. destruct Ee as [m Em]. rewrite <- Hi. subst i.
          replace (Z.of_nat (S (2 * m))) with (1 + Z.of_nat m * 2) by lia.
          rewrite Z_mod_plus_full. reflexivity. }
        f_equal. apply cnt_ext_in. intros u Hu. rewrite !anc_S. fold j.
        pose proof (anc_mono s) as Hmono.
        assert (M1 : t <= u -> j <= anc s u) by (intros; apply Hmono; assumption).
        assert (M2 : u <= t -> anc s u <= j) by (intros; apply Hmono; assumption).
        set (a := anc s u) in *.
        destruct (Z.ltb_spec t u); destruct (Z.eqb_spec a j);
          destruct (Z.eqb_spec (a / 2) (j / 2)); cbn [andb negb]; try reflexivity; exfalso; dlia.
  Qed.
End Tree.

Lemma tree_mid_leaf : forall h seen t tree i,
  0 <= t < p2 h -> tree_mid h seen None t tree ->
  Z.of_nat (S i) = p2 h + t ->
  tree_mid h seen (Some O) t (upd tree i (fun z => z + 1)).
Proof.
  intros h seen t tree i Ht [Hlen Hm] Hi. split; [rewrite upd_length; exact Hlen|].
  intros s' j Hs' Hj.
  pose proof (range_below_2K Hs' Hj) as Hj2.
  assert (Hra : p2 (h - 0) <= anc h 0 t < 2 * p2 (h - 0)) by (apply anc_range; [lia|exact Ht]).
  rewrite anc_0 in Hra.
  destruct (Z.eq_dec j (p2 h + t)) as [Ej|Nj].
  - assert (Es : s' = O).
    { rewrite <- Ej in Hra. pose proof (p2_range_unique _ _ Hj Hra). lia. }
    subst s'.
    replace (Z.to_nat (j - 1)) with i by lia.
    rewrite nth_upd_same by lia.
    replace i with (Z.to_nat (j - 1)) by lia.
    rewrite (Hm O j Hs' Hj). cbn [bump]. rewrite anc_0.
    rewrite (proj2 (Z.eqb_eq _ _) Ej). cbn. lia.
  - rewrite nth_upd_other by lia.
    rewrite (Hm s' j Hs' Hj). f_equal. cbn [bump].
    destruct (Nat.leb_spec s' 0) as [L|L]; [|reflexivity].
    assert (s' = O) by lia. subst s'. rewrite anc_0.
    replace (j =? p2 h + t) with false by (symmetry; apply Z.eqb_neq; exact Nj). reflexivity.
Qed.

Lemma tree_mid_done : forall h seen t t' tree,
  tree_mid h seen (Some h) t tree -> tree_mid h (t :: seen) None t' tree.
Proof.
  intros h seen t t' tree [Hlen Hm]. split; [exact Hlen|].
  intros s' j Hs' Hj. rewrite (Hm s' j Hs' Hj). cbn [bump cnt].
  replace (s' <=? h)%nat with true by (symmetry; apply Nat.leb_le; exact Hs').
  cbn [andb]. rewrite (Z.eqb_sym j). lia.
Qed.

Lemma cc_insert_ok : forall h k seen t st,
  Z.of_nat k = p2 h -> (forall u, In u seen -> 0 <= u < p2 h) -> 0 <= t < p2 h ->
  tree_mid h seen None 0 (fst st) ->
  tree_mid h (t :: seen) None 0 (fst (cc_insert (k - 1) st t)) /\
  snd (cc_insert (k - 1) st t) = snd st + cnt (fun u => t <? u) seen.
Proof.
  intros h k seen t st Hk Hseen Ht Hm. unfold cc_insert.
  pose proof (p2_pos h) as Hp.
  set (i := (Z.to_nat t + (k - 1))%nat).
  assert (Hi : Z.of_nat (S i) = p2 h + t) by (unfold i; lia).
  assert (Hm0 : tree_mid h seen (Some O) t (upd (fst st) i (fun z => z + 1))).
  { apply tree_mid_leaf; [exact Ht| |exact Hi].
    destruct Hm as [Hl Hm]. split; [exact Hl|exact Hm]. }
  destruct (@walk_up_ok h seen Hseen t Ht (S i) O (upd (fst st) i (fun z => z + 1)) i (snd st) (Nat.le_refl _) (Nat.le_0_l h)) as [W1 W2];
    [rewrite anc_0; exact Hi|exact Hm0|].
  split; [apply tree_mid_done with (t := t); exact W1|].
  rewrite W2. f_equal. apply cnt_ext_in. intros u _. rewrite !anc_0.
  destruct (Z.ltb_spec t u) as [L|L]; [|reflexivity].
  replace (p2 h + u =? p2 h + t) with false by (symmetry; apply Z.eqb_neq; lia). reflexivity.
Qed.

Lemma cc_fold_ok : forall h k, Z.of_nat k = p2 h ->
  forall ts seen st,
  (forall u, In u seen -> 0 <= u < p2 h) -> (forall u, In u ts -> 0 <= u < p2 h) ->
  tree_mid h seen None 0 (fst st) ->
  snd (fold_left (cc_insert (k - 1)) ts st) = snd st + inv_acc seen ts.
Proof.
  intros h k Hk. induction ts as [|t r IH]; intros seen st Hseen Hts Hm.
  - cbn [fold_left inv_acc]. lia.
  - cbn [fold_left inv_acc].
    assert (Ht : 0 <= t < p2 h) by (apply Hts; left; reflexivity).
    destruct (@cc_insert_ok h k seen t st Hk Hseen Ht Hm) as [I1 I2].
    rewrite (IH (t :: seen) (cc_insert (k - 1) st t)).
    + rewrite I2. lia.
    + intros u [<-|Hu]; [exact Ht|apply Hseen; exact Hu].
    + intros u Hu; apply Hts; right; exact Hu.
    + exact I1.
Qed.

(* X1 *)
Theorem cc_count_inversions : forall (q : nat) (ts : list Z),
  (forall t, In t ts -> 0 <= t < Z.of_nat q) ->
  cc_count q ts = inversions ts.
Proof.
  intros q ts Hts. unfold cc_count.
  destruct (pow2_ge_spec q) as [Hge [h Hh]].
  set (k := pow2_ge q 1 q) in *.
  rewrite (@cc_fold_ok h k Hh ts [] (repeat 0 (2 * k - 1)%nat, 0)).
  - cbn [snd]. rewrite inv_acc_nil. lia.
  - intros u [].
  - intros u Hu. specialize (Hts u Hu). lia.
  - cbn [fst]. pose proof (p2_pos h). split; [rewrite repeat_length; lia|].
    intros s' j _ _. rewrite nth_repeat0. cbn [cnt bump]. reflexivity.
Qed.
Print Assumptions cc_count_inversions.

Example cc_count_inversions_ex :
  (forall t, In t [3;0;4;1;1;2] -> 0 <= t < Z.of_nat 5) /\ cc_count 5 [3;0;4;1;1;2] = 7 /\ inversions [3;0;4;1;1;2] = 7.
Proof.
  split; [|split; vm_compute; reflexivity].
  intros t Ht; cbn in Ht; lia.
Qed.

(* ====================================================================================================== *)
(* X2: radix sort + inversions = naive crossings                                                          *)
(* ====================================================================================================== *)

(* ---------- naive_crossings is invariant under permutation ---------- *)
Lemma crosses_pair_sym : forall p q, crosses_pair p q = crosses_pair q p.
Proof. intros p q; unfold crosses_pair. apply orb_comm. Qed.

Lemma filter_length_perm : forall A (f : A -> bool) l l', Permutation l l' -> length (filter f l) = length (filter f l').
Proof.
  intros A f l l' H; induction H as [|x l l' H IH|x y l|l l' l'' H1 IH1 H2 IH2].
  - reflexivity.
  - cbn [filter]. destruct (f x); cbn [length]; rewrite IH; reflexivity.
  - cbn [filter]. destruct (f x); destruct (f y); reflexivity.
  - rewrite IH1; exact IH2.
Qed.

Lemma naive_crossings_perm : forall l l', Permutation l l' -> naive_crossings l = naive_crossings l'.
Proof.
  intros l l' H; induction H as [|x l l' H IH|x y l|l l' l'' H1 IH1 H2 IH2].
  - reflexivity.
  - cbn [naive_crossings]. rewrite IH, (filter_length_perm (crosses_pair x) H). reflexivity.
  - cbn [naive_crossings filter]. rewrite (crosses_pair_sym x y).
    destruct (crosses_pair y x); cbn [length]; lia.
  - rewrite IH1; exact IH2.
Qed.

(* ---------- sortedness helpers ---------- *)
Lemma in_iota : forall n s x, In x (iota s n) <-> (s <= x < s + n)%nat.
Proof.
  induction n as [|n IH]; intros s x; cbn [iota In]; [lia|].
  rewrite IH. lia.
Qed.

Lemma StronglySorted_app : forall A (R : A -> A -> Prop) l1 l2,
  StronglySorted R l1 -> StronglySorted R l2 -> (forall x y, In x l1 -> In y l2 -> R x y) ->
  StronglySorted R (l1 ++ l2).
Proof.
  intros A R l1 l2 H1 H2 H; induction H1 as [|x l1 H1 IH Hx]; cbn [app]; [exact H2|].
  constructor.
  - apply IH. intros a b Ha Hb; apply H; [right; exact Ha|exact Hb].
  - apply Forall_app; split; [exact Hx|].
    apply Forall_forall; intros y Hy; apply H; [left; reflexivity|exact Hy].
Qed.

Lemma StronglySorted_flat_map_iota : forall A (R : A -> A -> Prop) (f : nat -> list A),
  (forall a, StronglySorted R (f a)) ->
  (forall a b x y, (a < b)%nat -> In x (f a) -> In y (f b) -> R x y) ->
  forall n s, StronglySorted R (flat_map f (iota s n)).
Proof.
  intros A R f Hs Hab; induction n as [|n IH]; intros s; cbn [iota flat_map]; [constructor|].
  apply StronglySorted_app; [apply Hs|apply IH|].
  intros x y Hx Hy. apply in_flat_map in Hy. destruct Hy as [b [Hb Hy]].
  apply in_iota in Hb. apply (Hab s b); [lia|exact Hx|exact Hy].
Qed.

Lemma StronglySorted_NoDup : forall A (R : A -> A -> Prop) l,
  (forall x, ~ R x x) -> StronglySorted R l -> NoDup l.
Proof.
  intros A R l Hirr H; induction H as [|x l H IH Hx]; constructor; [|exact IH].
  intros Hin. rewrite Forall_forall in Hx. exact (Hirr x (Hx x Hin)).
Qed.

(* ---------- the cells of the matrix in row-major order ---------- *)
Definition lexlt (p q : Z * Z) : Prop := fst p < fst q \/ (fst p = fst q /\ snd p < snd q).

Definition radix_cells (m n : nat) (pairs : list (Z * Z)) : list (Z * Z) :=
  flat_map (fun i => flat_map (fun j => if has_pair (Z.of_nat i, Z.of_nat j) pairs
                                        then [(Z.of_nat i, Z.of_nat j)] else [])
                              (iota 0 n)) (iota 0 m).

Lemma map_flat_map : forall A B C (g : B -> C) (f : A -> list B) l,
  map g (flat_map f l) = flat_map (fun a => map g (f a)) l.
Proof.
  intros A B C g f l; induction l as [|a l IH]; [reflexivity|].
  cbn [flat_map]. rewrite map_app, IH. reflexivity.
Qed.

Lemma flat_map_ext_eq : forall A B (f g : A -> list B) l, (forall a, f a = g a) -> flat_map f l = flat_map g l.
Proof.
  intros A B f g l H; induction l as [|a l IH]; [reflexivity|]. cbn [flat_map]. rewrite H, IH. reflexivity.
Qed.

Lemma radix_targets_cells : forall m n pairs, radix_targets m n pairs = map snd (radix_cells m n pairs).
Proof.
  intros m n pairs. unfold radix_targets, radix_cells.
  rewrite map_flat_map. apply flat_map_ext_eq. intros i.
  rewrite map_flat_map. apply flat_map_ext_eq. intros j.
  destruct (has_pair (Z.of_nat i, Z.of_nat j) pairs); reflexivity.
Qed.

Lemma has_pair_In : forall p l, has_pair p l = true <-> In p l.
Proof.
  intros [a b] l. unfold has_pair. rewrite existsb_exists. split.
  - intros [[c d] [Hin H]]. cbn [fst snd] in H. apply andb_true_iff in H. destruct H as [H1 H2].
    apply Z.eqb_eq in H1. apply Z.eqb_eq in H2. subst. exact Hin.
  - intros Hin. exists (a, b). split; [exact Hin|]. cbn [fst snd]. rewrite !Z.eqb_refl. reflexivity.
Qed.

Lemma in_radix_cells : forall m n pairs p,
  In p (radix_cells m n pairs) <->
  In p pairs /\ exists i j, (i < m)%nat /\ (j < n)%nat /\ p = (Z.of_nat i, Z.of_nat j).
Proof.
  intros m n pairs p. unfold radix_cells. rewrite in_flat_map. split.
  - intros [i [Hi H]]. apply in_flat_map in H. destruct H as [j [Hj H]].
    apply in_iota in Hi. apply in_iota in Hj.
    destruct (has_pair (Z.of_nat i, Z.of_nat j) pairs) eqn:E; [|destruct H].
    destruct H as [<-|[]]. split; [apply has_pair_In; exact E|].
    exists i, j. repeat split; lia.
  - intros [Hin [i [j [Hi [Hj ->]]]]]. exists i. split; [apply in_iota; lia|].
    apply in_flat_map. exists j. split; [apply in_iota; lia|].
    rewrite (proj2 (has_pair_In _ _) Hin). left; reflexivity.
Qed.

Lemma radix_cells_sorted : forall m n pairs, StronglySorted lexlt (radix_cells m n pairs).
Proof.
  intros m n pairs. unfold radix_cells.
  apply StronglySorted_flat_map_iota.
  - intros i. apply StronglySorted_flat_map_iota.
    + intros j. destruct (has_pair _ _); repeat constructor.
    + intros a b x y Hab Hx Hy.
      destruct (has_pair (Z.of_nat i, Z.of_nat a) pairs); [|destruct Hx].
      destruct (has_pair (Z.of_nat i, Z.of_nat b) pairs); [|destruct Hy].
      destruct Hx as [<-|[]]. destruct Hy as [<-|[]]. right. cbn [fst snd]. lia.
  - intros a b x y Hab Hx Hy.
    apply in_flat_map in Hx. destruct Hx as [ja [_ Hx]].
    apply in_flat_map in Hy. destruct Hy as [jb [_ Hy]].
    destruct (has_pair (Z.of_nat a, Z.of_nat ja) pairs); [|destruct Hx].
    destruct (has_pair (Z.of_nat b, Z.of_nat jb) pairs); [|destruct Hy].
    destruct Hx as [<-|[]]. destruct Hy as [<-|[]]. left. cbn [fst snd]. lia.
Qed.

Lemma lexlt_irrefl : forall p, ~ lexlt p p.
Proof. intros p [H|[_ H]]; lia. Qed.

(* on a lexicographically sorted list of pairs: crossings = inversions of the second components *)
Lemma sorted_naive_inversions : forall l, StronglySorted lexlt l -> naive_crossings l = inversions (map snd l).
Proof.
  intros l H; induction H as [|p l H IH Hp]; [reflexivity|].
  cbn [naive_crossings map inversions]. rewrite IH. f_equal.
  clear IH H.
  induction l as [|q l IHl]; [reflexivity|].
  inversion Hp as [|? ? Hq Hl]; subst.
  cbn [filter map cnt]. rewrite <- (IHl Hl). clear IHl.
  assert (E : crosses_pair p q = (snd q <? snd p)).
  { unfold crosses_pair. destruct Hq as [Hq|[Hq1 Hq2]].
    - destruct (Z.ltb_spec (fst p) (fst q)); destruct (Z.ltb_spec (fst q) (fst p));
        destruct (Z.ltb_spec (snd q) (snd p)); destruct (Z.ltb_spec (snd p) (snd q)); cbn; try reflexivity; lia.
    - destruct (Z.ltb_spec (fst p) (fst q)); destruct (Z.ltb_spec (fst q) (fst p));
        destruct (Z.ltb_spec (snd q) (snd p)); destruct (Z.ltb_spec (snd p) (snd q)); cbn; try reflexivity; lia. }
  rewrite E. destruct (snd q <? snd p); cbn [length b2z]; lia.
Qed.

Definition pairs_in_range (m n : nat) (pairs : list (Z * Z)) : Prop :=
  forall p, In p pairs -> 0 <= fst p < Z.of_nat m /\ 0 <= snd p < Z.of_nat n.

(* X2, general form: any duplicate-free list with the same elements as [pairs] *)
Theorem radix_cells_perm : forall m n pairs pairs',
  pairs_in_range m n pairs -> NoDup pairs' -> (forall p, In p pairs' <-> In p pairs) ->
  Permutation pairs' (radix_cells m n pairs).
Proof.
  intros m n pairs pairs' Hr Hnd Hin.
  apply NoDup_Permutation; [exact Hnd| |].
  - apply StronglySorted_NoDup with (R := lexlt); [exact lexlt_irrefl|apply radix_cells_sorted].
  - intros p. rewrite Hin, in_radix_cells. split; [|tauto].
    intros Hp. split; [exact Hp|]. destruct (Hr p Hp) as [H1 H2].
    exists (Z.to_nat (fst p)), (Z.to_nat (snd p)). destruct p as [a b]; cbn [fst snd] in *.
    repeat split; try lia. f_equal; lia.
Qed.

(* radix_targets = second components of the duplicate-free lexicographically sorted version of pairs *)
Theorem radix_targets_sorted_spec : forall m n pairs,
  pairs_in_range m n pairs ->
  exists cells, radix_targets m n pairs = map snd cells /\
                StronglySorted lexlt cells /\ NoDup cells /\
                (forall p, In p cells <-> In p pairs).
Proof.
  intros m n pairs Hr. exists (radix_cells m n pairs).
  split; [apply radix_targets_cells|]. split; [apply radix_cells_sorted|].
  split; [apply StronglySorted_NoDup with (R := lexlt); [exact lexlt_irrefl|apply radix_cells_sorted]|].
  intros p. rewrite in_radix_cells. split; [tauto|].
  intros Hp. split; [exact Hp|]. destruct (Hr p Hp) as [H1 H2].
  exists (Z.to_nat (fst p)), (Z.to_nat (snd p)). destruct p as [a b]; cbn [fst snd] in *.
  repeat split; try lia. f_equal; lia.
Qed.
Print Assumptions radix_targets_sorted_spec.

Theorem radix_inversions_gen : forall m n pairs pairs',
  pairs_in_range m n pairs -> NoDup pairs' -> (forall p, In p pairs' <-> In p pairs) ->
  inversions (radix_targets m n pairs) = naive_crossings pairs'.
Proof.
  intros m n pairs pairs' Hr Hnd Hin.
  rewrite (naive_crossings_perm (radix_cells_perm Hr Hnd Hin)).
  rewrite radix_targets_cells. symmetry. apply sorted_naive_inversions. apply radix_cells_sorted.
Qed.
Print Assumptions radix_inversions_gen.

Definition zz_eq_dec : forall p q : Z * Z, {p = q} + {p <> q}.
Proof. decide equality; apply Z.eq_dec. Defined.

Definition dedup (l : list (Z * Z)) : list (Z * Z) := nodup zz_eq_dec l.

Theorem radix_inversions_dedup : forall m n pairs,
  pairs_in_range m n pairs ->
  inversions (radix_targets m n pairs) = naive_crossings (dedup pairs).
Proof.
  intros m n pairs Hr. apply radix_inversions_gen; [exact Hr|apply NoDup_nodup|].
  intros p. apply nodup_In.
Qed.
Print Assumptions radix_inversions_dedup.

Theorem radix_inversions_nodup : forall m n pairs,
  pairs_in_range m n pairs -> NoDup pairs ->
  inversions (radix_targets m n pairs) = naive_crossings pairs.
Proof.
  intros m n pairs Hr Hnd. apply radix_inversions_gen; [exact Hr|exact Hnd|tauto].
Qed.
Print Assumptions radix_inversions_nodup.

(* the whole bilayer counter on abstract pairs *)
Theorem cc_radix_crossings : forall m n q pairs,
  pairs_in_range m n pairs -> (n <= q)%nat ->
  cc_count q (radix_targets m n pairs) = naive_crossings (dedup pairs).
Proof.
  intros m n q pairs Hr Hq.
  rewrite cc_count_inversions; [apply radix_inversions_dedup; exact Hr|].
  intros t Ht. rewrite radix_targets_cells in Ht. apply in_map_iff in Ht.
  destruct Ht as [p [<- Hp]]. apply in_radix_cells in Hp. destruct Hp as [Hp _].
  destruct (Hr p Hp) as [_ H2]. lia.
Qed.
Print Assumptions cc_radix_crossings.

Example radix_ex :
  let pairs := [(2,0);(0,1);(1,1);(2,0);(0,2);(1,0)] in
  pairs_in_range 3 3 pairs /\
  radix_targets 3 3 pairs = [1;2;0;1;0] /\
  inversions (radix_targets 3 3 pairs) = 6 /\ naive_crossings (dedup pairs) = 6 /\
  cc_count 3 (radix_targets 3 3 pairs) = 6 /\ naive_crossings pairs = 9.
Proof.
  cbv zeta. split; [|vm_compute; repeat split; reflexivity].
  intros p Hp. cbn in Hp. repeat (destruct Hp as [<-|Hp]; [cbn; lia|]). destruct Hp.
Qed.

(* ====================================================================================================== *)
(* X3: glue to the graph state                                                                            *)
(* ====================================================================================================== *)
Definition lnodes (g : graph) (k : nat) : list nat := l_nodes (glayer g k).

Definition same_ends (g : graph) (e1 e2 : nat) : Prop :=
  (e_from (gedge g e1) = e_from (gedge g e2) /\ e_to (gedge g e1) = e_to (gedge g e2)) \/
  (e_from (gedge g e1) = e_to (gedge g e2) /\ e_to (gedge g e1) = e_from (gedge g e2)).

Record ordered_proper (g : graph) : Prop := {
  (* (a) LayerPos of the j-th node of a layer is j *)
  op_pos : forall k j, (j < length (lnodes g k))%nat -> pos_of g (nth j (lnodes g k) O) = Z.of_nat j;
  (* (b) the nodes listed in layer k have Layer = k *)
  op_layer : forall k u, In u (lnodes g k) -> layer_of g u = Z.of_nat k;
  (* every end point of an edge of the graph is listed in some layer *)
  op_ends : forall e, In e (g_E g) ->
            (exists k, In (e_from (gedge g e)) (lnodes g k)) /\ (exists k, In (e_to (gedge g e)) (lnodes g k));
  (* (c) adjacency lists are consistent with the edge list *)
  op_adj : forall k n, In n (lnodes g k) -> forall e,
           In e (all_edges g n) <-> (In e (g_E g) /\ (e_from (gedge g e) = n \/ e_to (gedge g e) = n));
  (* (d) no edge is listed twice, no parallel or antiparallel edges *)
  op_nodup : NoDup (g_E g);
  op_simple : forall e1 e2, In e1 (g_E g) -> In e2 (g_E g) -> same_ends g e1 e2 -> e1 = e2
}.

Section Glue.
  Variable g : graph.
  Hypothesis OP : ordered_proper g.

  Lemma node_index : forall k u, In u (lnodes g k) ->
    0 <= pos_of g u < Z.of_nat (length (lnodes g k)) /\ nth (Z.to_nat (pos_of g u)) (lnodes g k) O = u.
  Proof.
    intros k u Hu. destruct (In_nth _ _ O Hu) as [j [Hj Hn]].
    pose proof (op_pos OP k Hj) as Hp. rewrite Hn in Hp. rewrite Hp.
    rewrite Nat2Z.id. split; [lia|exact Hn].
  Qed.

  Lemma end_in_layer : forall u k, (exists k', In u (lnodes g k')) -> layer_of g u = Z.of_nat k -> In u (lnodes g k).
  Proof.
    intros u k [k' Hk'] Hl. rewrite (op_layer OP _ _ Hk') in Hl.
    assert (k' = k) by lia. subst k'. exact Hk'.
  Qed.

  Lemma pos_inj : forall k u v, In u (lnodes g k) -> In v (lnodes g k) -> pos_of g u = pos_of g v -> u = v.
  Proof.
    intros k u v Hu Hv E. destruct (node_index _ _ Hu) as [_ Eu]. destruct (node_index _ _ Hv) as [_ Ev].
    rewrite <- Eu, <- Ev, E. reflexivity.
  Qed.

  (* the contribution of one edge to bilayer_pairs / cc_pairs *)
  Definition bp_fun (la lb : Z) (e : nat) : list (Z * Z) :=
    let ed := gedge g e in
    let u := e_from ed in let v := e_to ed in
    if (layer_of g u =? la) && (layer_of g v =? lb) then [(pos_of g u, pos_of g v)]
    else if (layer_of g u =? lb) && (layer_of g v =? la) then [(pos_of g v, pos_of g u)]
    else [].

  Definition cc_fun (ui li : Z) (e : nat) : list (Z * Z) :=
    let ed := gedge g e in
    let lf := layer_of g (e_from ed) in let lt := layer_of g (e_to ed) in
    if ((Z.min lf lt =? Z.min ui li) && (Z.max lf lt =? Z.max ui li))%bool then
      if lf =? ui then [(pos_of g (e_from ed), pos_of g (e_to ed))]
      else [(pos_of g (e_to ed), pos_of g (e_from ed))]
    else [].

  Lemma bilayer_pairs_flat : forall la lb, bilayer_pairs g la lb = flat_map (bp_fun la lb) (g_E g).
  Proof. reflexivity. Qed.

  Lemma cc_pairs_flat : forall ui li U,
    cc_pairs g ui li U = flat_map (fun n => flat_map (cc_fun ui li) (all_edges g n)) U.
  Proof. reflexivity. Qed.

  Definition edge_pair (la lb : Z) (e : nat) (x : Z * Z) : Prop :=
    let ed := gedge g e in
    (layer_of g (e_from ed) = la /\ layer_of g (e_to ed) = lb /\ x = (pos_of g (e_from ed), pos_of g (e_to ed))) \/
    (layer_of g (e_from ed) = lb /\ layer_of g (e_to ed) = la /\ x = (pos_of g (e_to ed), pos_of g (e_from ed))).

  Lemma bp_fun_in : forall la lb e x, la <> lb -> (In x (bp_fun la lb e) <-> edge_pair la lb e x).
  Proof.
    intros la lb e x Hne. unfold bp_fun, edge_pair. cbv zeta.
    set (lf := layer_of g (e_from (gedge g e))). set (lt := layer_of g (e_to (gedge g e))).
    destruct (Z.eqb_spec lf la) as [E1|E1]; destruct (Z.eqb_spec lt lb) as [E2|E2]; cbn [andb];
      try (destruct (Z.eqb_spec lf lb) as [E3|E3]; destruct (Z.eqb_spec lt la) as [E4|E4]; cbn [andb]);
      cbn [In]; split; intros H;
      try (destruct H as [H|[]]; subst x);
      try (destruct H as [[H1 [H2 H3]]|[H1 [H2 H3]]]; subst x);
      try (exfalso; lia); auto.
  Qed.

  Lemma cc_fun_in : forall ui li e x, ui <> li -> (In x (cc_fun ui li e) <-> edge_pair ui li e x).
  Proof.
    intros ui li e x Hne. unfold cc_fun, edge_pair. cbv zeta.
    set (lf := layer_of g (e_from (gedge g e))). set (lt := layer_of g (e_to (gedge g e))).
    destruct (Z.eqb_spec (Z.min lf lt) (Z.min ui li)) as [E1|E1];
      destruct (Z.eqb_spec (Z.max lf lt) (Z.max ui li)) as [E2|E2]; cbn [andb];
      try (destruct (Z.eqb_spec lf ui) as [E3|E3]);
      cbn [In]; split; intros H;
      try (destruct H as [H|[]]; subst x);
      try (destruct H as [[H1 [H2 H3]]|[H1 [H2 H3]]]; subst x);
      try (exfalso; lia); auto.
    - left. repeat split; lia.
    - right. repeat split; lia.
  Qed.

  Lemma in_bilayer_pairs : forall la lb x, la <> lb ->
    (In x (bilayer_pairs g la lb) <-> exists e, In e (g_E g) /\ edge_pair la lb e x).
  Proof.
    intros la lb x Hne. rewrite bilayer_pairs_flat, in_flat_map.
    split; intros [e [He H]]; exists e; (split; [exact He|]); apply (bp_fun_in _ _ Hne); exact H.
  Qed.

  (* the pairs collected from the adjacency lists of the nodes of layer a = the pairs of the edge list *)
  Lemma in_cc_pairs : forall a b x, a <> b ->
    (In x (cc_pairs g (Z.of_nat a) (Z.of_nat b) (lnodes g a)) <-> In x (bilayer_pairs g (Z.of_nat a) (Z.of_nat b))).
  Proof.
    intros a b x Hne. assert (Hne' : Z.of_nat a <> Z.of_nat b) by lia.
    rewrite (in_bilayer_pairs _ Hne'), cc_pairs_flat, in_flat_map. split.
    - intros [n [Hn H]]. apply in_flat_map in H. destruct H as [e [He H]].
      apply (cc_fun_in _ _ Hne') in H. apply (op_adj OP _ _ Hn) in He.
      exists e. split; [apply He|exact H].
    - intros [e [He H]]. destruct (op_ends OP _ He) as [Hf Ht].
      destruct H as [[H1 [H2 H3]]|[H1 [H2 H3]]].
      + exists (e_from (gedge g e)). split; [apply end_in_layer; assumption|].
        apply in_flat_map. exists e. split.
        * apply (op_adj OP a); [apply end_in_layer; assumption|]. split; [exact He|left; reflexivity].
        * apply (cc_fun_in _ _ Hne'). left. auto.
      + exists (e_to (gedge g e)). split; [apply end_in_layer; assumption|].
        apply in_flat_map. exists e. split.
        * apply (op_adj OP a); [apply end_in_layer; assumption|]. split; [exact He|right; reflexivity].
        * apply (cc_fun_in _ _ Hne'). right. auto.
  Qed.

  Lemma bilayer_pairs_range : forall a b, a <> b ->
    pairs_in_range (length (lnodes g a)) (length (lnodes g b)) (bilayer_pairs g (Z.of_nat a) (Z.of_nat b)).
  Proof.
    intros a b Hne p Hp. assert (Hne' : Z.of_nat a <> Z.of_nat b) by lia.
    apply (in_bilayer_pairs _ Hne') in Hp. destruct Hp as [e [He H]].
    destruct (op_ends OP _ He) as [Hf Ht].
    destruct H as [[H1 [H2 H3]]|[H1 [H2 H3]]]; subst p; cbn [fst snd].
    - split; apply node_index; apply end_in_layer; assumption.
    - split; apply node_index; apply end_in_layer; assumption.
  Qed.

  Lemma NoDup_flat_map : forall A B (f : A -> list B) l,
    NoDup l -> (forall a, In a l -> NoDup (f a)) ->
    (forall a1 a2 x, In a1 l -> In a2 l -> In x (f a1) -> In x (f a2) -> a1 = a2) ->
    NoDup (flat_map f l).
  Proof.
    intros A B f l Hnd; induction Hnd as [|a l Ha Hnd IH]; intros Hf Hx; cbn [flat_map]; [constructor|].
    assert (IH' : NoDup (flat_map f l)).
    { apply IH.
      - intros a' Ha'; apply Hf; right; exact Ha'.
      - intros a1 a2 x H1 H2; apply Hx; right; assumption. }
    clear IH.
    assert (Hfa : NoDup (f a)) by (apply Hf; left; reflexivity).
    assert (Hd : forall x, In x (f a) -> ~ In x (flat_map f l)).
    { intros x Hxa Hxl. apply in_flat_map in Hxl. destruct Hxl as [a' [Ha' Hxa']].
      assert (a = a') by (apply (Hx a a' x); [left; reflexivity|right; exact Ha'|exact Hxa|exact Hxa']).
      subst a'. contradiction. }
    clear Hf Hx. induction Hfa as [|y r Hy Hr IHr]; cbn [app]; [exact IH'|].
    constructor.
    - rewrite in_app_iff. intros [H|H]; [contradiction|]. apply (Hd y); [left; reflexivity|exact H].
    - apply IHr. intros x Hxr; apply Hd; right; exact Hxr.
  Qed.

  Lemma bilayer_pairs_nodup : forall a b, a <> b -> NoDup (bilayer_pairs g (Z.of_nat a) (Z.of_nat b)).
  Proof.
    intros a b Hne. assert (Hne' : Z.of_nat a <> Z.of_nat b) by lia.
    rewrite bilayer_pairs_flat. apply NoDup_flat_map; [exact (op_nodup OP)| |].
    - intros e _. unfold bp_fun. cbv zeta.
      destruct (_ && _); [repeat constructor; intros []|].
      destruct (_ && _); [repeat constructor; intros []|constructor].
    - intros e1 e2 x He1 He2 H1 H2.
      apply (bp_fun_in _ _ Hne') in H1. apply (bp_fun_in _ _ Hne') in H2.
      destruct (op_ends OP _ He1) as [Hf1 Ht1]. destruct (op_ends OP _ He2) as [Hf2 Ht2].
      apply (op_simple OP); [exact He1|exact He2|]. unfold same_ends.
      destruct H1 as [[A1 [B1 C1]]|[A1 [B1 C1]]]; destruct H2 as [[A2 [B2 C2]]|[A2 [B2 C2]]];
        rewrite C1 in C2; injection C2 as P1 P2.
      + left. split; [apply (pos_inj a)|apply (pos_inj b)]; try apply end_in_layer; assumption.
      + right. split; [apply (pos_inj a)|apply (pos_inj b)]; try apply end_in_layer; assumption.
      + right. split; [apply (pos_inj b)|apply (pos_inj a)]; try apply end_in_layer; assumption.
      + left. split; [apply (pos_inj b)|apply (pos_inj a)]; try apply end_in_layer; assumption.
  Qed.
End Glue.

(* ---------- swapping both components ---------- *)
Definition swap (p : Z * Z) : Z * Z := (snd p, fst p).

Lemma crosses_pair_swap : forall p q, crosses_pair (swap p) (swap q) = crosses_pair p q.
Proof.
  intros p q. unfold crosses_pair, swap. cbn [fst snd].
  rewrite orb_comm. rewrite (andb_comm (snd q <? snd p)), (andb_comm (snd p <? snd q)). reflexivity.
Qed.

Lemma naive_crossings_swap : forall l, naive_crossings (map swap l) = naive_crossings l.
Proof.
  induction l as [|p l IH]; [reflexivity|].
  cbn [map naive_crossings]. rewrite IH. f_equal. f_equal. clear IH.
  induction l as [|q l IHl]; [reflexivity|].
  cbn [map filter]. rewrite crosses_pair_swap. destruct (crosses_pair p q); cbn [length]; rewrite IHl; reflexivity.
Qed.

Lemma bilayer_pairs_swap : forall g la lb, la <> lb ->
  bilayer_pairs g lb la = map swap (bilayer_pairs g la lb).
Proof.
  intros g la lb Hne. unfold bilayer_pairs. rewrite map_flat_map. apply flat_map_ext_eq. intros e. cbv zeta.
  set (lf := layer_of g (e_from (gedge g e))). set (lt := layer_of g (e_to (gedge g e))).
  destruct (Z.eqb_spec lf la) as [E1|E1]; destruct (Z.eqb_spec lt lb) as [E2|E2];
    destruct (Z.eqb_spec lf lb) as [E3|E3]; destruct (Z.eqb_spec lt la) as [E4|E4]; cbn [andb map swap fst snd];
    try reflexivity; exfalso; lia.
Qed.

Lemma naive_crossings_no_cross : forall l,
  (forall p q, In p l -> In q l -> crosses_pair p q = false) -> naive_crossings l = 0.
Proof.
  induction l as [|p l IH]; intros H; [reflexivity|].
  cbn [naive_crossings]. rewrite IH by (intros a b Ha Hb; apply H; right; assumption).
  assert (E : filter (crosses_pair p) l = []).
  { assert (Hp : forall q, In q l -> crosses_pair p q = false) by (intros q Hq; apply H; [left; reflexivity|right; exact Hq]).
    clear H IH. induction l as [|q l IHl]; [reflexivity|].
    cbn [filter]. rewrite (Hp q (or_introl eq_refl)). apply IHl. intros r Hr; apply Hp; right; exact Hr. }
  rewrite E. reflexivity.
Qed.

(* the counter on abstract pairs, with an arbitrary duplicate-free enumeration of the same pairs *)
Lemma cc_radix_gen : forall m n q pairs pairs',
  pairs_in_range m n pairs -> (n <= q)%nat -> NoDup pairs' -> (forall p, In p pairs' <-> In p pairs) ->
  cc_count q (radix_targets m n pairs) = naive_crossings pairs'.
Proof.
  intros m n q pairs pairs' Hr Hq Hnd Hin.
  rewrite cc_count_inversions; [apply radix_inversions_gen; assumption|].
  intros t Ht. rewrite radix_targets_cells in Ht. apply in_map_iff in Ht.
  destruct Ht as [p [<- Hp]]. apply in_radix_cells in Hp. destruct Hp as [Hp _].
  destruct (Hr p Hp) as [_ H2]. lia.
Qed.

(* countCrossings on the layers a (the larger one, "upper") and b *)
Lemma cc_layers : forall g a b q, ordered_proper g -> a <> b -> (length (lnodes g b) <= q)%nat ->
  cc_count q (radix_targets (length (lnodes g a)) (length (lnodes g b))
                            (cc_pairs g (Z.of_nat a) (Z.of_nat b) (lnodes g a)))
  = naive_crossings (bilayer_pairs g (Z.of_nat a) (Z.of_nat b)).
Proof.
  intros g a b q OP Hne Hq. apply cc_radix_gen.
  - intros p Hp. apply (in_cc_pairs OP _ Hne) in Hp. exact (bilayer_pairs_range OP Hne _ Hp).
  - exact Hq.
  - apply bilayer_pairs_nodup; assumption.
  - intros p. symmetry. apply in_cc_pairs; assumption.
Qed.

(* X3 *)
Theorem count_crossings_exact : forall g i, ordered_proper g ->
  count_crossings g i (S i) = naive_crossings (bilayer_pairs g (Z.of_nat i) (Z.of_nat (S i))).
Proof.
  intros g i OP. unfold count_crossings. fold (lnodes g i). fold (lnodes g (S i)).
  assert (Hne : i <> S i) by lia.
  pose proof (bilayer_pairs_range OP Hne) as Hr.
  destruct (Nat.ltb_spec (length (lnodes g i)) 2) as [L1|L1]; cbn [orb].
  { (* fewer than two nodes in layer i: all pairs share the first component *)
    symmetry. apply naive_crossings_no_cross. intros p q Hp Hq.
    destruct (Hr p Hp) as [Hp1 _]. destruct (Hr q Hq) as [Hq1 _]. unfold crosses_pair.
    replace (fst p <? fst q) with false by (symmetry; apply Z.ltb_ge; lia).
    replace (fst q <? fst p) with false by (symmetry; apply Z.ltb_ge; lia). reflexivity. }
  destruct (Nat.ltb_spec (length (lnodes g (S i))) 2) as [L2|L2].
  { symmetry. apply naive_crossings_no_cross. intros p q Hp Hq.
    destruct (Hr p Hp) as [_ Hp1]. destruct (Hr q Hq) as [_ Hq1]. unfold crosses_pair.
    replace (snd p <? snd q) with false by (symmetry; apply Z.ltb_ge; lia).
    replace (snd q <? snd p) with false by (symmetry; apply Z.ltb_ge; lia).
    rewrite !andb_false_r. reflexivity. }
  destruct (Nat.ltb_spec (length (lnodes g (S i))) (length (lnodes g i))) as [L|L].
  - (* layer i is the larger one *)
    apply cc_layers; [exact OP|lia|lia].
  - (* layer i+1 is the larger one (or equal) *)
    rewrite cc_layers; [|exact OP|lia|lia].
    rewrite (@bilayer_pairs_swap g (Z.of_nat i) (Z.of_nat (S i))) by lia.
    apply naive_crossings_swap.
Qed.
Print Assumptions count_crossings_exact.

Lemma fold_left_add_ext : forall (f h : nat -> Z) l a,
  (forall i, In i l -> f i = h i) -> fold_left (fun s i => s + f i) l a = fold_left (fun s i => s + h i) l a.
Proof.
  intros f h l; induction l as [|x l IH]; intros a H; [reflexivity|].
  cbn [fold_left]. rewrite (H x (or_introl eq_refl)). apply IH. intros i Hi; apply H; right; exact Hi.
Qed.

Theorem reported_crossings_exact : forall g, ordered_proper g -> reported_crossings g = drawing_crossings g.
Proof.
  intros g OP. unfold reported_crossings, drawing_crossings.
  apply fold_left_add_ext. intros i _. rewrite (count_crossings_exact i OP).
  replace (Z.of_nat (S i)) with (Z.of_nat i + 1) by lia. reflexivity.
Qed.
Print Assumptions reported_crossings_exact.

(* ====================================================================================================== *)
(* An executable check of [ordered_proper], sound, so the hypotheses can be tested on concrete states     *)
(* ====================================================================================================== *)
Definition all_layers (g : graph) : list nat := iota 0 (length (g_L g)).

Fixpoint nodupb (l : list nat) : bool :=
  match l with [] => true | x :: t => negb (mem_nat x t) && nodupb t end.

Definition same_ends_b (g : graph) (e1 e2 : nat) : bool :=
  (Nat.eqb (e_from (gedge g e1)) (e_from (gedge g e2)) && Nat.eqb (e_to (gedge g e1)) (e_to (gedge g e2))) ||
  (Nat.eqb (e_from (gedge g e1)) (e_to (gedge g e2)) && Nat.eqb (e_to (gedge g e1)) (e_from (gedge g e2))).

Definition touches (g : graph) (e n : nat) : bool :=
  Nat.eqb (e_from (gedge g e)) n || Nat.eqb (e_to (gedge g e)) n.

Definition chk_layers (g : graph) : bool :=
  forallb (fun k => forallb (fun j => let u := nth j (lnodes g k) O in
                                      (pos_of g u =? Z.of_nat j) && (layer_of g u =? Z.of_nat k))
                            (iota 0 (length (lnodes g k)))) (all_layers g).

Definition chk_ends (g : graph) : bool :=
  forallb (fun e => existsb (fun k => mem_nat (e_from (gedge g e)) (lnodes g k)) (all_layers g) &&
                    existsb (fun k => mem_nat (e_to (gedge g e)) (lnodes g k)) (all_layers g)) (g_E g).

Definition chk_adj (g : graph) : bool :=
  forallb (fun k => forallb (fun n =>
      forallb (fun e => mem_nat e (g_E g) && touches g e n) (all_edges g n) &&
      forallb (fun e => implb (touches g e n) (mem_nat e (all_edges g n))) (g_E g)) (lnodes g k)) (all_layers g).

Definition chk_simple (g : graph) : bool :=
  forallb (fun e1 => forallb (fun e2 => implb (same_ends_b g e1 e2) (Nat.eqb e1 e2)) (g_E g)) (g_E g).

Definition ordered_proper_b (g : graph) : bool :=
  chk_layers g && chk_ends g && chk_adj g && nodupb (g_E g) && chk_simple g.

Lemma mem_nat_In : forall x l, mem_nat x l = true <-> In x l.
Proof.
  intros x l. unfold mem_nat. rewrite existsb_exists. split.
  - intros [y [Hy E]]. apply Nat.eqb_eq in E. subst y. exact Hy.
  - intros H. exists x. split; [exact H|apply Nat.eqb_refl].
Qed.

Lemma nodupb_NoDup : forall l, nodupb l = true -> NoDup l.
Proof.
  induction l as [|x l IH]; intros H; [constructor|].
  cbn [nodupb] in H. apply andb_true_iff in H. destruct H as [H1 H2].
  constructor; [|apply IH; exact H2].
  intros Hin. apply mem_nat_In in Hin. rewrite Hin in H1. discriminate.
Qed.

Lemma lnodes_out : forall g k, (length (g_L g) <= k)%nat -> lnodes g k = [].
Proof. intros g k H. unfold lnodes, glayer. rewrite nth_overflow by exact H. reflexivity. Qed.

Lemma in_all_layers : forall g k u, In u (lnodes g k) -> In k (all_layers g).
Proof.
  intros g k u Hu. unfold all_layers. apply in_iota.
  destruct (Nat.lt_ge_cases k (length (g_L g))) as [L|L]; [lia|].
  rewrite (lnodes_out g L) in Hu. destruct Hu.
Qed.

Lemma touches_spec : forall g e n, touches g e n = true <-> (e_from (gedge g e) = n \/ e_to (gedge g e) = n).
Proof. intros g e n. unfold touches. rewrite orb_true_iff, !Nat.eqb_eq. reflexivity. Qed.

Theorem ordered_proper_b_sound : forall g, ordered_proper_b g = true -> ordered_proper g.
Proof.
  intros g H. unfold ordered_proper_b in H.
  repeat (apply andb_true_iff in H; destruct H as [H ?]).
  rename H into C1, H3 into C2, H2 into C3, H1 into C4, H0 into C5.
  assert (A : forall k j, (j < length (lnodes g k))%nat ->
              pos_of g (nth j (lnodes g k) O) = Z.of_nat j /\ layer_of g (nth j (lnodes g k) O) = Z.of_nat k).
  { intros k j Hj. unfold chk_layers in C1. rewrite forallb_forall in C1.
    assert (Hk : In k (all_layers g)) by (apply in_all_layers with (u := nth j (lnodes g k) O); apply nth_In; exact Hj).
    specialize (C1 k Hk). rewrite forallb_forall in C1.
    specialize (C1 j (proj2 (in_iota _ _ _) (conj (Nat.le_0_l j) Hj))). cbv zeta in C1.
    apply andb_true_iff in C1. destruct C1 as [P Q]. apply Z.eqb_eq in P. apply Z.eqb_eq in Q. split; assumption. }
  constructor.
  - intros k j Hj. apply A; exact Hj.
  - intros k u Hu. destruct (In_nth _ _ O Hu) as [j [Hj <-]]. apply A; exact Hj.
  - intros e He. unfold chk_ends in C2. rewrite forallb_forall in C2. specialize (C2 e He).
    apply andb_true_iff in C2. destruct C2 as [P Q].
    apply existsb_exists in P. destruct P as [k1 [_ P]]. apply mem_nat_In in P.
    apply existsb_exists in Q. destruct Q as [k2 [_ Q]]. apply mem_nat_In in Q.
    split; [exists k1; exact P|exists k2; exact Q].
  - intros k n Hn e. unfold chk_adj in C3. rewrite forallb_forall in C3.
    specialize (C3 k (in_all_layers _ _ _ Hn)). rewrite forallb_forall in C3. specialize (C3 n Hn).
    apply andb_true_iff in C3. destruct C3 as [P Q]. rewrite forallb_forall in P, Q. split.
    + intros He. specialize (P e He). apply andb_true_iff in P. destruct P as [P1 P2].
      split; [apply mem_nat_In; exact P1|apply touches_spec; exact P2].
    + intros [He Ht]. specialize (Q e He). apply touches_spec in Ht. rewrite Ht in Q. cbn [implb] in Q.
      apply mem_nat_In; exact Q.
  - apply nodupb_NoDup; exact C4.
  - intros e1 e2 H1 H2 Hs. unfold chk_simple in C5. rewrite forallb_forall in C5. specialize (C5 e1 H1).
    rewrite forallb_forall in C5. specialize (C5 e2 H2).
    assert (E : same_ends_b g e1 e2 = true).
    { unfold same_ends_b. destruct Hs as [[P Q]|[P Q]]; rewrite P, Q, !Nat.eqb_refl; cbn; [reflexivity|apply orb_true_r]. }
    rewrite E in C5. cbn [implb] in C5. apply Nat.eqb_eq; exact C5.
Qed.
Print Assumptions ordered_proper_b_sound.

Corollary reported_crossings_checked : forall g,
  ordered_proper_b g = true -> reported_crossings g = drawing_crossings g.
Proof. intros g H. apply reported_crossings_exact. apply ordered_proper_b_sound. exact H. Qed.

(* ---------- a concrete instance: 3 layers (2, 3, 2 nodes), 6 edges, one of them pointing upward ---------- *)
Definition ex_node (i o : list nat) (l p : nat) : node := mkNode i o (Z.of_nat l) (Z.of_nat p) false 0 0 0 0.
Definition ex_edge (a b : nat) : edge := mkEdge a b 1 1 false false 0 [] false.

Definition ex_graph : graph :=
  (mkGraph
    [ ex_node [] [0;1] 0 0;         (* node 0: layer 0, pos 0 *)
      ex_node [3] [2] 0 1;          (* node 1: layer 0, pos 1 *)
      ex_node [2] [4] 1 0;          (* node 2: layer 1, pos 0 *)
      ex_node [1] [3;5] 1 1;        (* node 3: layer 1, pos 1; edge 3 goes UP to node 1 *)
      ex_node [0] [] 1 2;           (* node 4: layer 1, pos 2 *)
      ex_node [5] [] 2 0;           (* node 5: layer 2, pos 0 *)
      ex_node [4] [] 2 1 ]          (* node 6: layer 2, pos 1 *)
    [ ex_edge 0 4; ex_edge 0 3; ex_edge 1 2; ex_edge 3 1; ex_edge 2 6; ex_edge 3 5 ]
    [0;1;2;3;4;5;6]
    [0;1;2;3;4;5]
    [ mkLayer [0;1] 0 0; mkLayer [2;3;4] 0 0; mkLayer [5;6] 0 0 ])%nat.

Example ex_graph_proper : ordered_proper ex_graph.
Proof. apply ordered_proper_b_sound. vm_compute. reflexivity. Qed.

Example ex_graph_crossings :
  reported_crossings ex_graph = 4 /\ drawing_crossings ex_graph = 4 /\
  count_crossings ex_graph 0 1 = 3 /\ naive_crossings (bilayer_pairs ex_graph 0 1) = 3.
Proof. vm_compute. repeat split; reflexivity. Qed.

(* hypothesis (d) is necessary: with a pair of antiparallel edges (0->3 and 3->0) the two segments are drawn on
   top of each other; the radix matrix collapses them into one cell, so the counter sees one edge where the
   naive count sees two. *)
Definition ex_graph_anti : graph :=
  (mkGraph
    [ ex_node [3] [0;1] 0 0; ex_node [] [2] 0 1;
      ex_node [2] [4] 1 0; ex_node [1] [3;5] 1 1; ex_node [0] [] 1 2;
      ex_node [5] [] 2 0; ex_node [4] [] 2 1 ]
    [ ex_edge 0 4; ex_edge 0 3; ex_edge 1 2; ex_edge 3 0; ex_edge 2 6; ex_edge 3 5 ]
    [0;1;2;3;4;5;6]
    [0;1;2;3;4;5]
    [ mkLayer [0;1] 0 0; mkLayer [2;3;4] 0 0; mkLayer [5;6] 0 0 ])%nat.

Example ex_graph_anti_mismatch :
  chk_layers ex_graph_anti = true /\ chk_ends ex_graph_anti = true /\ chk_adj ex_graph_anti = true /\
  nodupb (g_E ex_graph_anti) = true /\ chk_simple ex_graph_anti = false /\
  reported_crossings ex_graph_anti = 3 /\ drawing_crossings ex_graph_anti = 4.
Proof. vm_compute. repeat split; reflexivity. Qed.
