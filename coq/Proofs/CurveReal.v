(* ====================================================================== *)
(*  CurveReal.v                                                           *)
(*                                                                        *)
(*  Property C20 (part): the curve / barrier intersection test of the     *)
(*  spline fitter, in EXACT REAL ARITHMETIC.                              *)
(*                                                                        *)
(*  WHAT THIS MODEL IS.  internal/geom/spline_ctrlp.go (ctrlp, coeff,     *)
(*  xcoeff, ycoeff, scoeff, curvep), spline_bernstein.go (b30..b33) and   *)
(*  the function curveIntersects of spline_fit.go, transcribed statement  *)
(*  by statement with the same names over the reals [R] of the standard   *)
(*  library, on top of the root finder of RootsReal.v:                    *)
(*    - float64 becomes R; the tests  xc1 == 0, yc1 == 0, xr == yr  are   *)
(*      the exact tests (Req_EM_T); r >= 0 && r <= 1 is [in01];           *)
(*    - solve3 is RootsReal.solve3 (None is the nil slice of Go: the      *)
(*      polynomial is identically zero);                                  *)
(*    - the result slice [roots] (a named result, nil until the first     *)
(*      append) becomes a [list R]: it is Go-nil exactly when the list is *)
(*      empty, and the only caller (curveContained) treats nil and empty  *)
(*      alike;                                                            *)
(*    - the in-place updates  curvexc[0] -= xc0  and  curvesc[0] += ...   *)
(*      are [sub0] / [add0].                                              *)
(*                                                                        *)
(*  MAIN RESULTS (all for every curve, every segment, every parameter):   *)
(*    - [coeff_correct], [xcoeff_correct], [ycoeff_correct],              *)
(*      [scoeff_correct]: power basis = Bernstein form;                   *)
(*    - [curve_intersects_sound]: every returned t is in [0,1] and        *)
(*      curvep t lies on the segment (all three branches);                *)
(*    - [curve_intersects_complete]: every t in [0,1] with curvep t on    *)
(*      the segment is returned, UNLESS the curve runs along the          *)
(*      segment's supporting line ([curve_along]);                        *)
(*    - [curve_intersects_along]: in that case the code returns nil       *)
(*      (no intersection) whatever the curve does on the line.            *)
(*                                                                        *)
(*  Axioms: only those of the standard-library reals, inherited from      *)
(*  RootsReal.v (see the Print Assumptions).                              *)
(* ====================================================================== *)

From Coq Require Import Reals Lra List Bool.
From Autog Require Import RootsReal.
Import ListNotations.
Local Open Scope R_scope.

(* ---------------------------------------------------------------------- *)
(** * Points, control points, segments                                     *)
(* ---------------------------------------------------------------------- *)

Record P : Type := mkP { px : R; py : R }.

(** cubic bezier control points (spline_ctrlp.go) *)
Record ctrlp : Type := mkC { p0 : P; p1 : P; p2 : P; p3 : P }.

Record Segment : Type := mkS { sA : P; sB : P }.

(** point.go: sqdistp *)
Definition sqdistp (p q : P) : R :=
  (px q - px p) * (px q - px p) + (py q - py p) * (py q - py p).

(* ---------------------------------------------------------------------- *)
(** * spline_bernstein.go                                                  *)
(* ---------------------------------------------------------------------- *)

Definition b30 (x : R) : R := let c := 1 - x in c * c * c.
Definition b31 (x : R) : R := let c := 1 - x in 3 * x * c * c.
Definition b32 (x : R) : R := 3 * x * x * (1 - x).
Definition b33 (x : R) : R := x * x * x.

(* ---------------------------------------------------------------------- *)
(** * spline_ctrlp.go: coeff, xcoeff, ycoeff, scoeff, curvep               *)
(* ---------------------------------------------------------------------- *)

(** coefficients of the polynomial form of the cubic bezier *)
Definition coeff (v0 v1 v2 v3 : R) : list R :=
  [ v0;
    3 * (v1 - v0);
    3 * v0 + 3 * v2 - 6 * v1;
    v3 + 3 * v1 - (v0 + 3 * v2) ].

Definition xcoeff (bz : ctrlp) : list R :=
  coeff (px (p0 bz)) (px (p1 bz)) (px (p2 bz)) (px (p3 bz)).

Definition ycoeff (bz : ctrlp) : list R :=
  coeff (py (p0 bz)) (py (p1 bz)) (py (p2 bz)) (py (p3 bz)).

Definition scoeff (bz : ctrlp) (slope : R) : list R :=
  let v0 := py (p0 bz) - slope * px (p0 bz) in
  let v1 := py (p1 bz) - slope * px (p1 bz) in
  let v2 := py (p2 bz) - slope * px (p2 bz) in
  let v3 := py (p3 bz) - slope * px (p3 bz) in
  coeff v0 v1 v2 v3.

(** the point on the parametric curve that corresponds to the given t *)
Definition curvep (bz : ctrlp) (t : R) : P :=
  mkP (b30 t * px (p0 bz) + b31 t * px (p1 bz) + b32 t * px (p2 bz) + b33 t * px (p3 bz))
      (b30 t * py (p0 bz) + b31 t * py (p1 bz) + b32 t * py (p2 bz) + b33 t * py (p3 bz)).

(* ---------------------------------------------------------------------- *)
(** * spline_fit.go: curveIntersects                                       *)
(* ---------------------------------------------------------------------- *)

(** [c[0] = v] on a slice *)
Definition set0 (c : list R) (v : R) : list R :=
  match c with [] => [] | _ :: r => v :: r end.
(** [c[0] -= d], [c[0] += d] *)
Definition sub0 (c : list R) (d : R) : list R := set0 c (co c 0 - d).
Definition add0 (c : list R) (d : R) : list R := set0 c (co c 0 + d).

(** [r >= 0 && r <= 1] *)
Definition in01 (r : R) : bool :=
  if Rle_dec 0 r then (if Rle_dec r 1 then true else false) else false.

(** the closure [appendr01]: what it appends to [roots] *)
Definition appendr01 (r : R) : list R := if in01 r then [r] else [].

(** [c[0] + tv*(c[1] + tv*(c[2] + tv*c[3]))] *)
Definition horner (c : list R) (tv : R) : R :=
  co c 0 + tv * (co c 1 + tv * (co c 2 + tv * co c 3)).

(** The loop shared (textually, up to the names x/y) by the vertical and the
    sloped branch:
      for _, tv := range xroots {
        if tv >= 0 && tv <= 1 {
          c := bz.?coeff(); sv := c[0] + tv*(c[1] + tv*(c[2] + tv*c[3]))
          sv = (sv - c0) / c1
          if 0 <= sv && sv <= 1 { appendr01(tv) } } }                      *)
Definition seg_loop (c : list R) (c0 c1 : R) (xroots : list R) : list R :=
  flat_map (fun tv =>
    if in01 tv then
      let sv := horner c tv in
      let sv := (sv - c0) / c1 in
      if in01 sv then appendr01 tv else []
    else []) xroots.

Definition curve_intersects (bz : ctrlp) (seg : Segment) : list R :=
  let xc0 := px (sA seg) in
  let xc1 := px (sB seg) - px (sA seg) in
  let yc0 := py (sA seg) in
  let yc1 := py (sB seg) - py (sA seg) in
  if Req_EM_T xc1 0 then
    if Req_EM_T yc1 0 then
      (* here the segment degenerates into a point *)
      let xroots := solve3 (sub0 (xcoeff bz) xc0) in
      let yroots := solve3 (sub0 (ycoeff bz) yc0) in
      match xroots, yroots with
      | None, None => []
      | None, Some yroots => flat_map appendr01 yroots
      | Some xroots, None => flat_map appendr01 xroots
      | Some xroots, Some yroots =>
          flat_map (fun xr =>
            flat_map (fun yr => if Req_EM_T xr yr then appendr01 xr else []) yroots) xroots
      end
    else
      (* xc1 == 0, yc1 != 0 then the segment is vertical *)
      match solve3 (sub0 (xcoeff bz) xc0) with
      | None => []
      | Some xroots => seg_loop (ycoeff bz) yc0 yc1 xroots
      end
  else
    let slope := yc1 / xc1 in
    match solve3 (add0 (scoeff bz slope) (slope * xc0 - yc0)) with
    | None => []
    | Some xroots => seg_loop (xcoeff bz) xc0 xc1 xroots
    end.

(* ---------------------------------------------------------------------- *)
(** * (a) power basis = Bernstein form                                     *)
(* ---------------------------------------------------------------------- *)

Theorem coeff_correct :
  forall v0 v1 v2 v3 t,
    poly3 (coeff v0 v1 v2 v3) t = b30 t * v0 + b31 t * v1 + b32 t * v2 + b33 t * v3.
Proof.
  intros. unfold poly3, coeff, co, b30, b31, b32, b33. cbn [nth]. ring.
Qed.

Theorem xcoeff_correct :
  forall bz t, poly3 (xcoeff bz) t = px (curvep bz t).
Proof. intros. unfold xcoeff. rewrite coeff_correct. reflexivity. Qed.

Theorem ycoeff_correct :
  forall bz t, poly3 (ycoeff bz) t = py (curvep bz t).
Proof. intros. unfold ycoeff. rewrite coeff_correct. reflexivity. Qed.

(** SIGN: scoeff builds  y - slope * x  (not slope * x - y). *)
Theorem scoeff_correct :
  forall bz slope t,
    poly3 (scoeff bz slope) t = py (curvep bz t) - slope * px (curvep bz t).
Proof.
  intros. unfold scoeff. cbv zeta. rewrite coeff_correct. cbn [curvep px py]. ring.
Qed.
Print Assumptions scoeff_correct.

Lemma horner_poly3 : forall c t, horner c t = poly3 c t.
Proof. intros. unfold horner, poly3. ring. Qed.

Lemma poly3_sub0_coeff :
  forall v0 v1 v2 v3 d t,
    poly3 (sub0 (coeff v0 v1 v2 v3) d) t = poly3 (coeff v0 v1 v2 v3) t - d.
Proof. intros. unfold poly3, sub0, set0, coeff, co. cbn [nth]. ring. Qed.

Lemma poly3_add0_coeff :
  forall v0 v1 v2 v3 d t,
    poly3 (add0 (coeff v0 v1 v2 v3) d) t = poly3 (coeff v0 v1 v2 v3) t + d.
Proof. intros. unfold poly3, add0, set0, coeff, co. cbn [nth]. ring. Qed.

(** The three polynomials handed to solve3, as functions of the curve. *)
Lemma xpoly_correct :
  forall bz xc0 t, poly3 (sub0 (xcoeff bz) xc0) t = px (curvep bz t) - xc0.
Proof.
  intros. unfold xcoeff at 1. rewrite poly3_sub0_coeff. fold (xcoeff bz).
  rewrite xcoeff_correct. reflexivity.
Qed.

Lemma ypoly_correct :
  forall bz yc0 t, poly3 (sub0 (ycoeff bz) yc0) t = py (curvep bz t) - yc0.
Proof.
  intros. unfold ycoeff at 1. rewrite poly3_sub0_coeff. fold (ycoeff bz).
  rewrite ycoeff_correct. reflexivity.
Qed.

Lemma spoly_correct :
  forall bz slope xc0 yc0 t,
    poly3 (add0 (scoeff bz slope) (slope * xc0 - yc0)) t
    = (py (curvep bz t) - yc0) - slope * (px (curvep bz t) - xc0).
Proof.
  intros. pose proof (scoeff_correct bz slope t) as E.
  unfold scoeff in *. cbv zeta in *. rewrite poly3_add0_coeff, E. ring.
Qed.

(* ---------------------------------------------------------------------- *)
(** * Identically zero cubics and solve3 = nil                             *)
(* ---------------------------------------------------------------------- *)

Definition allzero (c : list R) : Prop :=
  co c 3 = 0 /\ co c 2 = 0 /\ co c 1 = 0 /\ co c 0 = 0.

Lemma allzero_dec : forall c, allzero c \/ ~ allzero c.
Proof.
  intros c. unfold allzero.
  destruct (Req_dec (co c 3) 0) as [H3 | H3]; [| right; tauto].
  destruct (Req_dec (co c 2) 0) as [H2 | H2]; [| right; tauto].
  destruct (Req_dec (co c 1) 0) as [H1 | H1]; [| right; tauto].
  destruct (Req_dec (co c 0) 0) as [H0 | H0]; [| right; tauto].
  left. tauto.
Qed.

Lemma allzero_poly3 : forall c, allzero c -> forall t, poly3 c t = 0.
Proof.
  intros c (H3 & H2 & H1 & H0) t. unfold poly3. rewrite H3, H2, H1, H0. ring.
Qed.

(** a cubic that vanishes on [0,1] (at 0, 1/4, 1/2, 1 is enough) is the zero
    polynomial *)
Lemma poly3_zero_on_01 :
  forall c, (forall t, 0 <= t <= 1 -> poly3 c t = 0) -> allzero c.
Proof.
  intros c H.
  pose proof (H 0 ltac:(lra)) as E0.
  pose proof (H 1 ltac:(lra)) as E1.
  pose proof (H (1 / 2) ltac:(lra)) as E2.
  pose proof (H (1 / 4) ltac:(lra)) as E3.
  unfold poly3 in *. unfold allzero.
  set (a3 := co c 3) in *. set (a2 := co c 2) in *.
  set (a1 := co c 1) in *. set (a0 := co c 0) in *.
  repeat split; lra.
Qed.

Lemma allzero_iff : forall c, allzero c <-> (forall t, poly3 c t = 0).
Proof.
  intros c. split; [apply allzero_poly3 |].
  intros H. apply poly3_zero_on_01. intros t _. apply H.
Qed.

Lemma solve3_allzero_None : forall c, allzero c -> solve3 c = None.
Proof.
  intros c (H3 & H2 & H1 & H0).
  destruct (solve3_degenerate c H3 H2 H1 H0) as [E _]. exact E.
Qed.

(** nil is returned ONLY for the zero polynomial *)
Lemma solve3_None_allzero : forall c, solve3 c = None -> allzero c.
Proof.
  intros c E.
  destruct (Req_dec (co c 3) 0) as [H3 | H3].
  2:{ rewrite (solve3_unfold c H3) in E. discriminate. }
  rewrite (solve3_quadratic c H3) in E.
  destruct (Req_dec (co c 2) 0) as [H2 | H2].
  2:{ unfold solve2 in E. rewrite (aeq0_false _ H2) in E. cbv zeta in E.
      destruct (Rlt_dec _ 0); [discriminate |].
      destruct (Rlt_dec 0 _); discriminate. }
  rewrite (solve2_linear c H2) in E. unfold solve1 in E. cbv zeta in E.
  destruct (Req_dec (co c 1) 0) as [H1 | H1].
  2:{ rewrite (aeq0_false _ H1) in E. discriminate. }
  rewrite (aeq0_true _ H1) in E.
  destruct (Req_dec (co c 0) 0) as [H0 | H0].
  2:{ rewrite (aeq0_false _ H0) in E. discriminate. }
  unfold allzero. tauto.
Qed.

Theorem solve3_None_iff : forall c, solve3 c = None <-> allzero c.
Proof. intros c. split; [apply solve3_None_allzero | apply solve3_allzero_None]. Qed.

Lemma solve3_vals_roots :
  forall c t, ~ allzero c -> (In t (vals (solve3 c)) <-> poly3 c t = 0).
Proof. intros c t H. apply solve3_correct_total. exact H. Qed.

(* ---------------------------------------------------------------------- *)
(** * The loops                                                            *)
(* ---------------------------------------------------------------------- *)

Lemma in01_true : forall r, in01 r = true <-> 0 <= r <= 1.
Proof.
  intros r. unfold in01.
  destruct (Rle_dec 0 r) as [H0 | H0]; [destruct (Rle_dec r 1) as [H1 | H1] |];
    split; intros H; try discriminate; try reflexivity; try lra.
Qed.

Lemma in01_false : forall r, in01 r = false <-> ~ (0 <= r <= 1).
Proof.
  intros r. rewrite <- in01_true. destruct (in01 r); split; intros H; congruence.
Qed.

Lemma In_appendr01 : forall t r, In t (appendr01 r) <-> t = r /\ 0 <= r <= 1.
Proof.
  intros t r. unfold appendr01. destruct (in01 r) eqn:E.
  - apply in01_true in E. cbn [In]. split.
    + intros [H | []]. split; [symmetry; exact H | exact E].
    + intros [H _]. left. symmetry. exact H.
  - apply in01_false in E. cbn [In]. split; [intros [] | intros [_ H]; exact (E H)].
Qed.

Lemma In_flat_appendr01 :
  forall t l, In t (flat_map appendr01 l) <-> In t l /\ 0 <= t <= 1.
Proof.
  intros t l. rewrite in_flat_map. split.
  - intros (r & Hr & Ht). apply In_appendr01 in Ht. destruct Ht as [-> H]. tauto.
  - intros [Hl H]. exists t. split; [exact Hl |]. apply In_appendr01. tauto.
Qed.

Lemma In_seg_loop :
  forall c c0 c1 l t,
    In t (seg_loop c c0 c1 l)
    <-> In t l /\ 0 <= t <= 1 /\ 0 <= (poly3 c t - c0) / c1 <= 1.
Proof.
  intros c c0 c1 l t. unfold seg_loop. rewrite in_flat_map. cbv zeta. split.
  - intros (r & Hr & Ht).
    destruct (in01 r) eqn:E1; [| destruct Ht].
    destruct (in01 ((horner c r - c0) / c1)) eqn:E2; [| destruct Ht].
    apply In_appendr01 in Ht. destruct Ht as [-> H].
    apply in01_true in E2. rewrite horner_poly3 in E2. tauto.
  - intros (Hl & H1 & H2). exists t. split; [exact Hl |].
    rewrite (proj2 (in01_true t) H1).
    rewrite horner_poly3. rewrite (proj2 (in01_true _) H2).
    apply In_appendr01. tauto.
Qed.

Lemma In_eq_loop :
  forall t xr yr,
    In t (flat_map (fun x : R =>
            flat_map (fun y : R => if Req_EM_T x y then appendr01 x else []) yr) xr)
    <-> In t xr /\ In t yr /\ 0 <= t <= 1.
Proof.
  intros t xr yr. rewrite in_flat_map. split.
  - intros (x & Hx & H). rewrite in_flat_map in H. destruct H as (y & Hy & H).
    destruct (Req_EM_T x y) as [E | E]; [| destruct H].
    apply In_appendr01 in H. destruct H as [-> H]. subst y. tauto.
  - intros (Hx & Hy & H). exists t. split; [exact Hx |].
    rewrite in_flat_map. exists t. split; [exact Hy |].
    destruct (Req_EM_T t t) as [_ | N]; [| exfalso; apply N; reflexivity].
    apply In_appendr01. tauto.
Qed.

(** the two [match solve3 ... with nil => return nil | ...] as [vals] *)
Lemma seg_loop_vals :
  forall c c0 c1 o,
    match o with None => [] | Some xroots => seg_loop c c0 c1 xroots end
    = seg_loop c c0 c1 (vals o).
Proof. intros c c0 c1 [l |]; reflexivity. Qed.

(* ---------------------------------------------------------------------- *)
(** * Geometry: lying on a segment, running along its line                 *)
(* ---------------------------------------------------------------------- *)

(** [p] lies on the closed segment [A, B] *)
Definition on_seg (p : P) (seg : Segment) : Prop :=
  exists s, 0 <= s <= 1 /\
    px p = px (sA seg) + s * (px (sB seg) - px (sA seg)) /\
    py p = py (sA seg) + s * (py (sB seg) - py (sA seg)).

(** the segment is a single point (first branch of the code) *)
Definition degenerate (seg : Segment) : Prop :=
  px (sB seg) - px (sA seg) = 0 /\ py (sB seg) - py (sA seg) = 0.

(** every point of the (whole parametric) curve is on the supporting line *)
Definition curve_on_line (bz : ctrlp) (seg : Segment) : Prop :=
  forall t,
    (px (sB seg) - px (sA seg)) * (py (curvep bz t) - py (sA seg))
    = (py (sB seg) - py (sA seg)) * (px (curvep bz t) - px (sA seg)).

(** the curve is constantly the point [a] *)
Definition curve_is_point (bz : ctrlp) (a : P) : Prop :=
  forall t, px (curvep bz t) = px a /\ py (curvep bz t) = py a.

(** THE EXCEPTIONAL CASE of curveIntersects: the polynomial(s) given to
    solve3 are identically zero.  For a proper segment: the curve runs along
    the supporting line of the segment.  For a segment reduced to a point:
    the curve is reduced to that same point. *)
Definition curve_along (bz : ctrlp) (seg : Segment) : Prop :=
  (degenerate seg /\ curve_is_point bz (sA seg)) \/
  (~ degenerate seg /\ curve_on_line bz seg).

(** [curve_on_line] needs only be checked on the piece 0 <= t <= 1 *)
Definition piece_on_line (bz : ctrlp) (seg : Segment) : Prop :=
  forall t, 0 <= t <= 1 ->
    (px (sB seg) - px (sA seg)) * (py (curvep bz t) - py (sA seg))
    = (py (sB seg) - py (sA seg)) * (px (curvep bz t) - px (sA seg)).

(** pure arithmetic of the two non-degenerate branches *)
Lemma vertical_arith :
  forall x y xc0 yc0 xc1 yc1, xc1 = 0 -> yc1 <> 0 ->
    ((x - xc0 = 0 /\ 0 <= (y - yc0) / yc1 <= 1)
     <-> exists s, 0 <= s <= 1 /\ x = xc0 + s * xc1 /\ y = yc0 + s * yc1).
Proof.
  intros x y xc0 yc0 xc1 yc1 Hx Hy. split.
  - intros [E H]. exists ((y - yc0) / yc1). split; [exact H |]. split.
    + rewrite Hx. lra.
    + field. exact Hy.
  - intros (s & Hs & Ex & Ey). split.
    + rewrite Ex, Hx. ring.
    + replace ((y - yc0) / yc1) with s by (rewrite Ey; field; exact Hy). exact Hs.
Qed.

Lemma sloped_arith :
  forall x y xc0 yc0 xc1 yc1, xc1 <> 0 ->
    (((y - yc0) - yc1 / xc1 * (x - xc0) = 0 /\ 0 <= (x - xc0) / xc1 <= 1)
     <-> exists s, 0 <= s <= 1 /\ x = xc0 + s * xc1 /\ y = yc0 + s * yc1).
Proof.
  intros x y xc0 yc0 xc1 yc1 Hx. split.
  - intros [E H]. exists ((x - xc0) / xc1). split; [exact H |]. split.
    + field. exact Hx.
    + replace (yc0 + (x - xc0) / xc1 * yc1) with (yc0 + yc1 / xc1 * (x - xc0))
        by (field; exact Hx).
      lra.
  - intros (s & Hs & Ex & Ey). split.
    + rewrite Ex, Ey. field. exact Hx.
    + replace ((x - xc0) / xc1) with s by (rewrite Ex; field; exact Hx). exact Hs.
Qed.

(* ---------------------------------------------------------------------- *)
(** * The three branches                                                   *)
(* ---------------------------------------------------------------------- *)

(** What has to be shown of each branch: either the exceptional case, and
    then nil; or exactly the parameters in [0,1] of the points on the segment. *)
Definition branch_spec (bz : ctrlp) (seg : Segment) (res : list R) : Prop :=
  (curve_along bz seg /\ res = []) \/
  (~ curve_along bz seg /\
   forall t, In t res <-> 0 <= t <= 1 /\ on_seg (curvep bz t) seg).

Lemma vertical_branch :
  forall bz seg,
    px (sB seg) - px (sA seg) = 0 -> py (sB seg) - py (sA seg) <> 0 ->
    branch_spec bz seg
      (match solve3 (sub0 (xcoeff bz) (px (sA seg))) with
       | None => []
       | Some xroots =>
           seg_loop (ycoeff bz) (py (sA seg)) (py (sB seg) - py (sA seg)) xroots
       end).
Proof.
  intros bz seg Hx Hy. rewrite seg_loop_vals.
  set (cx := sub0 (xcoeff bz) (px (sA seg))).
  assert (Hnd : ~ degenerate seg) by (intros [_ H]; exact (Hy H)).
  assert (Hal : curve_along bz seg <-> allzero cx).
  { rewrite allzero_iff. unfold curve_along, curve_on_line. split.
    - intros [[D _] | [_ L]]; [contradiction |].
      intros t. unfold cx. rewrite xpoly_correct.
      specialize (L t). rewrite Hx in L.
      assert (M : (py (sB seg) - py (sA seg)) * (px (curvep bz t) - px (sA seg)) = 0) by lra.
      apply Rmult_integral in M. destruct M as [M | M]; [contradiction | exact M].
    - intros Z. right. split; [exact Hnd |]. intros t.
      specialize (Z t). unfold cx in Z. rewrite xpoly_correct in Z.
      rewrite Hx, Z. ring. }
  destruct (allzero_dec cx) as [Z | NZ].
  - left. split; [apply Hal; exact Z |].
    rewrite (solve3_allzero_None cx Z). reflexivity.
  - right. split; [rewrite Hal; exact NZ |].
    intros t. rewrite In_seg_loop, (solve3_vals_roots cx t NZ).
    unfold cx. rewrite xpoly_correct, ycoeff_correct.
    unfold on_seg.
    rewrite <- (vertical_arith (px (curvep bz t)) (py (curvep bz t))
                  (px (sA seg)) (py (sA seg)) _ _ Hx Hy).
    tauto.
Qed.

Lemma sloped_branch :
  forall bz seg,
    px (sB seg) - px (sA seg) <> 0 ->
    branch_spec bz seg
      (let slope := (py (sB seg) - py (sA seg)) / (px (sB seg) - px (sA seg)) in
       match solve3 (add0 (scoeff bz slope) (slope * px (sA seg) - py (sA seg))) with
       | None => []
       | Some xroots =>
           seg_loop (xcoeff bz) (px (sA seg)) (px (sB seg) - px (sA seg)) xroots
       end).
Proof.
  intros bz seg Hx. cbv zeta. rewrite seg_loop_vals.
  set (xc1 := px (sB seg) - px (sA seg)) in *.
  set (yc1 := py (sB seg) - py (sA seg)) in *.
  set (cs := add0 (scoeff bz (yc1 / xc1)) (yc1 / xc1 * px (sA seg) - py (sA seg))).
  assert (Hnd : ~ degenerate seg) by (intros [H _]; exact (Hx H)).
  assert (Hal : curve_along bz seg <-> allzero cs).
  { rewrite allzero_iff. unfold curve_along, curve_on_line.
    fold xc1. fold yc1. split.
    - intros [[D _] | [_ L]]; [contradiction |].
      intros t. unfold cs. rewrite spoly_correct. specialize (L t).
      apply Rmult_eq_reg_l with xc1; [| exact Hx].
      replace (xc1 * (py (curvep bz t) - py (sA seg)
                      - yc1 / xc1 * (px (curvep bz t) - px (sA seg))))
        with (xc1 * (py (curvep bz t) - py (sA seg))
              - yc1 * (px (curvep bz t) - px (sA seg))) by (field; exact Hx).
      lra.
    - intros Z. right. split; [exact Hnd |]. intros t.
      specialize (Z t). unfold cs in Z. rewrite spoly_correct in Z.
      replace (yc1 * (px (curvep bz t) - px (sA seg)))
        with (xc1 * (yc1 / xc1 * (px (curvep bz t) - px (sA seg)))) by (field; exact Hx).
      f_equal. lra. }
  destruct (allzero_dec cs) as [Z | NZ].
  - left. split; [apply Hal; exact Z |].
    rewrite (solve3_allzero_None cs Z). reflexivity.
  - right. split; [rewrite Hal; exact NZ |].
    intros t. rewrite In_seg_loop, (solve3_vals_roots cs t NZ).
    unfold cs. rewrite spoly_correct, xcoeff_correct.
    unfold on_seg. fold xc1. fold yc1.
    rewrite <- (sloped_arith (px (curvep bz t)) (py (curvep bz t))
                  (px (sA seg)) (py (sA seg)) xc1 yc1 Hx).
    tauto.
Qed.

Lemma on_seg_degenerate :
  forall p seg, degenerate seg ->
    (on_seg p seg <-> px p = px (sA seg) /\ py p = py (sA seg)).
Proof.
  intros p seg [Dx Dy]. unfold on_seg. rewrite Dx, Dy. split.
  - intros (s & _ & Ex & Ey). split; lra.
  - intros [Ex Ey]. exists 0. split; [lra |]. split; lra.
Qed.

Lemma degenerate_branch :
  forall bz seg,
    px (sB seg) - px (sA seg) = 0 -> py (sB seg) - py (sA seg) = 0 ->
    branch_spec bz seg
      (match solve3 (sub0 (xcoeff bz) (px (sA seg))),
             solve3 (sub0 (ycoeff bz) (py (sA seg))) with
       | None, None => []
       | None, Some yroots => flat_map appendr01 yroots
       | Some xroots, None => flat_map appendr01 xroots
       | Some xroots, Some yroots =>
           flat_map (fun xr =>
             flat_map (fun yr => if Req_EM_T xr yr then appendr01 xr else []) yroots) xroots
       end).
Proof.
  intros bz seg Hx Hy.
  set (cx := sub0 (xcoeff bz) (px (sA seg))).
  set (cy := sub0 (ycoeff bz) (py (sA seg))).
  assert (Hd : degenerate seg) by (split; assumption).
  assert (Hal : curve_along bz seg <-> allzero cx /\ allzero cy).
  { rewrite !allzero_iff. unfold curve_along, curve_is_point. split.
    - intros [[_ Q] | [N _]]; [| contradiction].
      split; intros t; destruct (Q t) as [Q1 Q2]; unfold cx, cy;
        rewrite ?xpoly_correct, ?ypoly_correct; lra.
    - intros [Zx Zy]. left. split; [exact Hd |]. intros t.
      specialize (Zx t). specialize (Zy t). unfold cx, cy in *.
      rewrite xpoly_correct in Zx. rewrite ypoly_correct in Zy. split; lra. }
  assert (Rx : forall t, ~ allzero cx ->
                 (In t (vals (solve3 cx)) <-> px (curvep bz t) = px (sA seg))).
  { intros t NZ. rewrite (solve3_vals_roots cx t NZ). unfold cx.
    rewrite xpoly_correct. split; intros; lra. }
  assert (Ry : forall t, ~ allzero cy ->
                 (In t (vals (solve3 cy)) <-> py (curvep bz t) = py (sA seg))).
  { intros t NZ. rewrite (solve3_vals_roots cy t NZ). unfold cy.
    rewrite ypoly_correct. split; intros; lra. }
  assert (Zx : allzero cx -> forall t, px (curvep bz t) = px (sA seg)).
  { intros Z t. pose proof (allzero_poly3 cx Z t) as E. unfold cx in E.
    rewrite xpoly_correct in E. lra. }
  assert (Zy : allzero cy -> forall t, py (curvep bz t) = py (sA seg)).
  { intros Z t. pose proof (allzero_poly3 cy Z t) as E. unfold cy in E.
    rewrite ypoly_correct in E. lra. }
  destruct (solve3 cx) as [xr |] eqn:Ex; destruct (solve3 cy) as [yr |] eqn:Ey.
  - (* both non-nil *)
    assert (NZx : ~ allzero cx)
      by (intros Z; rewrite (solve3_allzero_None cx Z) in Ex; discriminate).
    assert (NZy : ~ allzero cy)
      by (intros Z; rewrite (solve3_allzero_None cy Z) in Ey; discriminate).
    right. split; [rewrite Hal; tauto |].
    intros t. rewrite In_eq_loop, (on_seg_degenerate _ _ Hd).
    specialize (Rx t NZx). specialize (Ry t NZy). cbn [vals] in Rx, Ry.
    rewrite Rx, Ry. tauto.
  - (* yroots == nil: y is constantly yc0 *)
    assert (NZx : ~ allzero cx)
      by (intros Z; rewrite (solve3_allzero_None cx Z) in Ex; discriminate).
    apply solve3_None_allzero in Ey.
    right. split; [rewrite Hal; tauto |].
    intros t. rewrite In_flat_appendr01, (on_seg_degenerate _ _ Hd).
    specialize (Rx t NZx). cbn [vals] in Rx. rewrite Rx.
    pose proof (Zy Ey t). tauto.
  - (* xroots == nil: x is constantly xc0 *)
    assert (NZy : ~ allzero cy)
      by (intros Z; rewrite (solve3_allzero_None cy Z) in Ey; discriminate).
    apply solve3_None_allzero in Ex.
    right. split; [rewrite Hal; tauto |].
    intros t. rewrite In_flat_appendr01, (on_seg_degenerate _ _ Hd).
    specialize (Ry t NZy). cbn [vals] in Ry. rewrite Ry.
    pose proof (Zx Ex t). tauto.
  - (* both nil *)
    apply solve3_None_allzero in Ex. apply solve3_None_allzero in Ey.
    left. split; [apply Hal; tauto | reflexivity].
Qed.

(* ---------------------------------------------------------------------- *)
(** * Main theorems about curve_intersects                                 *)
(* ---------------------------------------------------------------------- *)

Theorem curve_intersects_cases :
  forall bz seg, branch_spec bz seg (curve_intersects bz seg).
Proof.
  intros bz seg. unfold curve_intersects. cbv zeta.
  destruct (Req_EM_T (px (sB seg) - px (sA seg)) 0) as [Hx | Hx].
  - destruct (Req_EM_T (py (sB seg) - py (sA seg)) 0) as [Hy | Hy].
    + apply degenerate_branch; assumption.
    + apply vertical_branch; assumption.
  - apply (sloped_branch bz seg Hx).
Qed.

Lemma curve_along_dec : forall bz seg, curve_along bz seg \/ ~ curve_along bz seg.
Proof.
  intros bz seg. destruct (curve_intersects_cases bz seg) as [[H _] | [H _]]; tauto.
Qed.

(** (b) SOUNDNESS, all three branches: every returned parameter is in [0,1]
    and the point of the curve at that parameter lies on the segment (for a
    segment reduced to a point: it IS that point, [on_seg_degenerate]). *)
Theorem curve_intersects_sound :
  forall bz seg t,
    In t (curve_intersects bz seg) -> 0 <= t <= 1 /\ on_seg (curvep bz t) seg.
Proof.
  intros bz seg t H.
  destruct (curve_intersects_cases bz seg) as [[_ E] | [_ S]].
  - rewrite E in H. destruct H.
  - apply S. exact H.
Qed.
Print Assumptions curve_intersects_sound.

(** (c) COMPLETENESS: unless the curve runs along the segment's line. *)
Theorem curve_intersects_complete :
  forall bz seg t,
    ~ curve_along bz seg ->
    0 <= t <= 1 -> on_seg (curvep bz t) seg -> In t (curve_intersects bz seg).
Proof.
  intros bz seg t NA H01 Hon.
  destruct (curve_intersects_cases bz seg) as [[A _] | [_ S]]; [contradiction |].
  apply S. split; assumption.
Qed.
Print Assumptions curve_intersects_complete.

Theorem curve_intersects_spec :
  forall bz seg t,
    ~ curve_along bz seg ->
    (In t (curve_intersects bz seg) <-> 0 <= t <= 1 /\ on_seg (curvep bz t) seg).
Proof.
  intros bz seg t NA. split.
  - apply curve_intersects_sound.
  - intros [H1 H2]. apply curve_intersects_complete; assumption.
Qed.

(** THE EXCEPTIONAL CASE: when the curve runs along the supporting line the
    code answers nil, "no intersection", whatever the curve does there. *)
Theorem curve_intersects_along :
  forall bz seg, curve_along bz seg -> curve_intersects bz seg = [].
Proof.
  intros bz seg A.
  destruct (curve_intersects_cases bz seg) as [[_ E] | [NA _]]; [exact E | contradiction].
Qed.
Print Assumptions curve_intersects_along.

(** ... and this is the ONLY way to get nil with a point of the piece on the
    segment. *)
Theorem curve_intersects_nil_iff :
  forall bz seg,
    curve_intersects bz seg = [] <->
    (curve_along bz seg \/
     forall t, 0 <= t <= 1 -> ~ on_seg (curvep bz t) seg).
Proof.
  intros bz seg. split.
  - intros E. destruct (curve_intersects_cases bz seg) as [[A _] | [_ S]]; [left; exact A |].
    right. intros t H01 Hon.
    assert (I : In t (curve_intersects bz seg)) by (apply S; tauto).
    rewrite E in I. destruct I.
  - intros [A | N]; [apply curve_intersects_along; exact A |].
    destruct (curve_intersects bz seg) as [| t l] eqn:E; [reflexivity | exfalso].
    assert (I : In t (curve_intersects bz seg)) by (rewrite E; left; reflexivity).
    apply curve_intersects_sound in I. destruct I as [H01 Hon]. exact (N t H01 Hon).
Qed.

(** The exceptional case, stated with solve3 as in the task:
    for a proper segment, [curve_along] is exactly "solve3 returns nil". *)
Theorem curve_along_vertical_iff :
  forall bz seg,
    px (sB seg) - px (sA seg) = 0 -> py (sB seg) - py (sA seg) <> 0 ->
    (curve_along bz seg <-> solve3 (sub0 (xcoeff bz) (px (sA seg))) = None).
Proof.
  intros bz seg Hx Hy. rewrite solve3_None_iff, allzero_iff.
  unfold curve_along, curve_on_line. split.
  - intros [[[_ D] _] | [_ L]]; [contradiction |].
    intros t. rewrite xpoly_correct. specialize (L t). rewrite Hx in L.
    assert (M : (py (sB seg) - py (sA seg)) * (px (curvep bz t) - px (sA seg)) = 0) by lra.
    apply Rmult_integral in M. destruct M as [M | M]; [contradiction | exact M].
  - intros Z. right. split; [intros [_ D]; contradiction |]. intros t.
    specialize (Z t). rewrite xpoly_correct in Z. rewrite Hx, Z. ring.
Qed.

Theorem curve_along_sloped_iff :
  forall bz seg,
    px (sB seg) - px (sA seg) <> 0 ->
    let slope := (py (sB seg) - py (sA seg)) / (px (sB seg) - px (sA seg)) in
    (curve_along bz seg
     <-> solve3 (add0 (scoeff bz slope) (slope * px (sA seg) - py (sA seg))) = None).
Proof.
  intros bz seg Hx slope. unfold slope. rewrite solve3_None_iff, allzero_iff.
  unfold curve_along, curve_on_line.
  set (xc1 := px (sB seg) - px (sA seg)) in *.
  set (yc1 := py (sB seg) - py (sA seg)) in *.
  split.
  - intros [[[D _] _] | [_ L]]; [contradiction |].
    intros t. rewrite spoly_correct. specialize (L t).
    apply Rmult_eq_reg_l with xc1; [| exact Hx].
    replace (xc1 * (py (curvep bz t) - py (sA seg)
                    - yc1 / xc1 * (px (curvep bz t) - px (sA seg))))
      with (xc1 * (py (curvep bz t) - py (sA seg))
            - yc1 * (px (curvep bz t) - px (sA seg))) by (field; exact Hx).
    lra.
  - intros Z. right. split; [intros [D _]; contradiction |]. intros t.
    specialize (Z t). rewrite spoly_correct in Z.
    replace (yc1 * (px (curvep bz t) - px (sA seg)))
      with (xc1 * (yc1 / xc1 * (px (curvep bz t) - px (sA seg)))) by (field; exact Hx).
    f_equal. lra.
Qed.

(** it is enough that the PIECE 0 <= t <= 1 lies on the line *)
Theorem curve_on_line_piece :
  forall bz seg, piece_on_line bz seg <-> curve_on_line bz seg.
Proof.
  intros bz seg. split; [| intros H t _; apply H].
  intros H.
  (* the difference of the two sides is a cubic in t *)
  set (xc1 := px (sB seg) - px (sA seg)).
  set (yc1 := py (sB seg) - py (sA seg)).
  set (c := coeff (xc1 * (py (p0 bz) - py (sA seg)) - yc1 * (px (p0 bz) - px (sA seg)))
                  (xc1 * (py (p1 bz) - py (sA seg)) - yc1 * (px (p1 bz) - px (sA seg)))
                  (xc1 * (py (p2 bz) - py (sA seg)) - yc1 * (px (p2 bz) - px (sA seg)))
                  (xc1 * (py (p3 bz) - py (sA seg)) - yc1 * (px (p3 bz) - px (sA seg)))).
  assert (E : forall t, poly3 c t
              = xc1 * (py (curvep bz t) - py (sA seg))
                - yc1 * (px (curvep bz t) - px (sA seg))).
  { intros t. unfold c. rewrite coeff_correct. cbn [curvep px py].
    unfold b30, b31, b32, b33. ring. }
  assert (Z : allzero c).
  { apply poly3_zero_on_01. intros t Ht. rewrite E.
    specialize (H t Ht). fold xc1 in H. fold yc1 in H. lra. }
  intros t. pose proof (allzero_poly3 c Z t) as Q. rewrite E in Q.
  fold xc1. fold yc1. lra.
Qed.

(** (b), the degenerate branch spelled out: for a segment reduced to the point
    A the returned parameters are exactly those of [0,1] at which the curve
    passes through A -- unless the curve itself is reduced to A (nil). *)
Theorem curve_intersects_degenerate :
  forall bz seg t, degenerate seg -> ~ curve_is_point bz (sA seg) ->
    (In t (curve_intersects bz seg)
     <-> 0 <= t <= 1 /\ px (curvep bz t) = px (sA seg) /\ py (curvep bz t) = py (sA seg)).
Proof.
  intros bz seg t D NP.
  assert (NA : ~ curve_along bz seg) by (intros [[_ Q] | [N _]]; contradiction).
  rewrite (curve_intersects_spec bz seg t NA), (on_seg_degenerate _ _ D). tauto.
Qed.

Theorem curve_intersects_degenerate_point :
  forall bz seg, degenerate seg -> curve_is_point bz (sA seg) ->
    curve_intersects bz seg = [].
Proof.
  intros bz seg D Q. apply curve_intersects_along. left. split; assumption.
Qed.
