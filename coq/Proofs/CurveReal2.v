(* ====================================================================== *)
(*  CurveReal2.v                                                          *)
(*                                                                        *)
(*  Property C20 (part): the containment test curveContained of           *)
(*  internal/geom/spline_fit.go in EXACT REAL ARITHMETIC, on top of       *)
(*  CurveReal.v (curveIntersects) and RootsReal.v (solve3).               *)
(*                                                                        *)
(*  The tolerances epsilon1 (squared distance to a barrier end point) and *)
(*  epsilon2 (parameter distance to the ends 0 and 1 of the piece) are    *)
(*  PARAMETERS of the model; the theorems are given for arbitrary values, *)
(*  for the exact case 0 / 0 and for the values 1e-3 / 1e-6 of the code.  *)
(*                                                                        *)
(*  MAIN RESULTS                                                          *)
(*    - [curve_contained_spec]: for all tolerances, the test answers true *)
(*      EXACTLY when every crossing (t, b) -- t in [0,1], curvep t on the *)
(*      barrier b -- of a barrier the curve does not run along lies in an *)
(*      ignored zone: t < epsilon2, t > 1 - epsilon2, or curvep t within  *)
(*      squared distance epsilon1 of an end point of b;                   *)
(*    - [curve_contained_false_witness]: an answer false always comes     *)
(*      with a genuine point of the piece on a barrier, outside the zones;*)
(*    - [curve_contained_exact]: tolerances 0: true iff no point of the   *)
(*      piece 0 <= t <= 1 lies on a barrier -- except on barriers the     *)
(*      curve runs along, which are skipped altogether                    *)
(*      ([curve_contained_skips_along], witness [ex_along_*]);            *)
(*    - [curve_contained_real_zones]: the real tolerances, with distances *)
(*      (sqrt 1e-3 ~ 0.0316) instead of squared distances; witnesses      *)
(*      [ex_vertex_*] (a transversal crossing 0.01 away from a barrier    *)
(*      end is accepted) and [ex_square_*] (a curve that leaves a square  *)
(*      through one of its corners is accepted).                          *)
(*                                                                        *)
(*  Axioms: those of the standard-library reals, as for RootsReal.v.      *)
(* ====================================================================== *)

From Coq Require Import Reals Lra Lia List Bool Psatz.
From Autog Require Import RootsReal CurveReal.
Import ListNotations.
Local Open Scope R_scope.

(* ---------------------------------------------------------------------- *)
(** * The model of curveContained                                          *)
(* ---------------------------------------------------------------------- *)

(** The body of the inner loop for one root [r]: true = "continue",
    false = "return false".
      if r < epsilon2 || r > 1-epsilon2 { continue }
      rp := bz.curvep(r)
      if sqdistp(rp, b.A) < epsilon1 || sqdistp(rp, b.B) < epsilon1 { continue }
      return false                                                         *)
Definition root_ignored (eps1 eps2 : R) (bz : ctrlp) (b : Segment) (r : R) : bool :=
  if Rlt_dec r eps2 then true
  else if Rlt_dec (1 - eps2) r then true
  else
    let rp := curvep bz r in
    if Rlt_dec (sqdistp rp (sA b)) eps1 then true
    else if Rlt_dec (sqdistp rp (sB b)) eps1 then true
    else false.

(** for _, r := range roots { ... } ; true = the loop ran to its end *)
Fixpoint roots_loop (eps1 eps2 : R) (bz : ctrlp) (b : Segment) (roots : list R) : bool :=
  match roots with
  | [] => true
  | r :: rest =>
      if root_ignored eps1 eps2 bz b r then roots_loop eps1 eps2 bz b rest else false
  end.

(** for _, b := range barriers { roots := curveIntersects(bz, b);
      if roots == nil { continue }; <inner loop> }; return true
    (the nil test is subsumed: the inner loop over the empty list continues) *)
Fixpoint curve_contained (eps1 eps2 : R) (bz : ctrlp) (barriers : list Segment) : bool :=
  match barriers with
  | [] => true
  | b :: rest =>
      if roots_loop eps1 eps2 bz b (curve_intersects bz b)
      then curve_contained eps1 eps2 bz rest
      else false
  end.

(** the constants of spline_fit.go *)
Definition epsilon1 : R := 1 / 1000.
Definition epsilon2 : R := 1 / 1000000.

(* ---------------------------------------------------------------------- *)
(** * The ignored zones                                                    *)
(* ---------------------------------------------------------------------- *)

(** the crossing at parameter [t] of barrier [b] is ignored by the test *)
Definition ignored (eps1 eps2 : R) (bz : ctrlp) (b : Segment) (t : R) : Prop :=
  t < eps2 \/ 1 - eps2 < t \/
  sqdistp (curvep bz t) (sA b) < eps1 \/ sqdistp (curvep bz t) (sB b) < eps1.

Lemma root_ignored_true :
  forall eps1 eps2 bz b r,
    root_ignored eps1 eps2 bz b r = true <-> ignored eps1 eps2 bz b r.
Proof.
  intros eps1 eps2 bz b r. unfold root_ignored, ignored. cbv zeta.
  destruct (Rlt_dec r eps2) as [H1 | H1]; [tauto |].
  destruct (Rlt_dec (1 - eps2) r) as [H2 | H2]; [tauto |].
  destruct (Rlt_dec (sqdistp (curvep bz r) (sA b)) eps1) as [H3 | H3]; [tauto |].
  destruct (Rlt_dec (sqdistp (curvep bz r) (sB b)) eps1) as [H4 | H4]; [tauto |].
  split; [discriminate | tauto].
Qed.

Lemma root_ignored_false :
  forall eps1 eps2 bz b r,
    root_ignored eps1 eps2 bz b r = false <-> ~ ignored eps1 eps2 bz b r.
Proof.
  intros. rewrite <- root_ignored_true.
  destruct (root_ignored eps1 eps2 bz b r); split; intros H; congruence.
Qed.

Lemma roots_loop_true :
  forall eps1 eps2 bz b l,
    roots_loop eps1 eps2 bz b l = true
    <-> forall r, In r l -> ignored eps1 eps2 bz b r.
Proof.
  intros eps1 eps2 bz b l. induction l as [| r l IH]; cbn [roots_loop In].
  - split; [intros _ r [] | reflexivity].
  - destruct (root_ignored eps1 eps2 bz b r) eqn:E.
    + apply root_ignored_true in E. rewrite IH. split.
      * intros H x [-> | Hx]; [exact E | apply H; exact Hx].
      * intros H x Hx. apply H. right. exact Hx.
    + apply root_ignored_false in E. split; [discriminate |].
      intros H. exfalso. apply E. apply H. left. reflexivity.
Qed.

Lemma roots_loop_false :
  forall eps1 eps2 bz b l,
    roots_loop eps1 eps2 bz b l = false
    -> exists r, In r l /\ ~ ignored eps1 eps2 bz b r.
Proof.
  intros eps1 eps2 bz b l. induction l as [| r l IH]; cbn [roots_loop In].
  - discriminate.
  - destruct (root_ignored eps1 eps2 bz b r) eqn:E.
    + intros H. destruct (IH H) as (x & Hx & Nx). exists x. tauto.
    + intros _. apply root_ignored_false in E. exists r. tauto.
Qed.

Lemma curve_contained_true :
  forall eps1 eps2 bz bs,
    curve_contained eps1 eps2 bz bs = true
    <-> forall b, In b bs ->
          forall r, In r (curve_intersects bz b) -> ignored eps1 eps2 bz b r.
Proof.
  intros eps1 eps2 bz bs. induction bs as [| b bs IH]; cbn [curve_contained In].
  - split; [intros _ b [] | reflexivity].
  - destruct (roots_loop eps1 eps2 bz b (curve_intersects bz b)) eqn:E.
    + rewrite roots_loop_true in E. rewrite IH. split.
      * intros H x [<- | Hx]; [exact E | apply H; exact Hx].
      * intros H x Hx. apply H. right. exact Hx.
    + split; [discriminate |]. intros H. exfalso.
      apply roots_loop_false in E. destruct E as (r & Hr & Nr).
      apply Nr. apply (H b); [left; reflexivity | exact Hr].
Qed.

(* ---------------------------------------------------------------------- *)
(** * (d) What the test decides, for arbitrary tolerances                  *)
(* ---------------------------------------------------------------------- *)

(** EXACT CHARACTERISATION.  The answer is true iff every crossing of a
    barrier (that the curve does not run along) lies in an ignored zone. *)
Theorem curve_contained_spec :
  forall eps1 eps2 bz bs,
    curve_contained eps1 eps2 bz bs = true
    <-> forall b, In b bs -> ~ curve_along bz b ->
          forall t, 0 <= t <= 1 -> on_seg (curvep bz t) b ->
            ignored eps1 eps2 bz b t.
Proof.
  intros eps1 eps2 bz bs. rewrite curve_contained_true. split.
  - intros H b Hb NA t H01 Hon. apply (H b Hb).
    apply curve_intersects_complete; assumption.
  - intros H b Hb r Hr.
    destruct (curve_along_dec bz b) as [A | NA].
    + rewrite (curve_intersects_along bz b A) in Hr. destruct Hr.
    + apply curve_intersects_sound in Hr. destruct Hr as [H01 Hon].
      apply (H b Hb NA r H01 Hon).
Qed.
Print Assumptions curve_contained_spec.

(** An answer false is never a false alarm: there is a parameter of the
    piece whose point is ON a barrier and outside the ignored zones.
    (It may be a contact without crossing: the test does not distinguish.) *)
Theorem curve_contained_false_witness :
  forall eps1 eps2 bz bs,
    curve_contained eps1 eps2 bz bs = false ->
    exists b t, In b bs /\ 0 <= t <= 1 /\ on_seg (curvep bz t) b /\
                ~ ignored eps1 eps2 bz b t.
Proof.
  intros eps1 eps2 bz bs. induction bs as [| b bs IH]; cbn [curve_contained In].
  - discriminate.
  - destruct (roots_loop eps1 eps2 bz b (curve_intersects bz b)) eqn:E.
    + intros H. destruct (IH H) as (b' & t & Hb & R). exists b', t. tauto.
    + intros _. apply roots_loop_false in E. destruct E as (t & Ht & Nt).
      apply curve_intersects_sound in Ht. exists b, t. tauto.
Qed.
Print Assumptions curve_contained_false_witness.

(** THE SKIPPED BARRIERS.  A barrier the curve runs along contributes
    nothing, whatever the tolerances: removing it does not change the answer. *)
Theorem curve_contained_skips_along :
  forall eps1 eps2 bz b bs,
    curve_along bz b ->
    curve_contained eps1 eps2 bz (b :: bs) = curve_contained eps1 eps2 bz bs.
Proof.
  intros eps1 eps2 bz b bs A. cbn [curve_contained].
  rewrite (curve_intersects_along bz b A). reflexivity.
Qed.

(** the answer is monotone in the tolerances *)
Theorem curve_contained_mono :
  forall e1 e2 e1' e2' bz bs, e1 <= e1' -> e2 <= e2' ->
    curve_contained e1 e2 bz bs = true -> curve_contained e1' e2' bz bs = true.
Proof.
  intros e1 e2 e1' e2' bz bs L1 L2. rewrite !curve_contained_true.
  intros H b Hb r Hr. specialize (H b Hb r Hr). unfold ignored in *.
  destruct H as [H | [H | [H | H]]]; [left | right; left | right; right; left | right; right; right]; lra.
Qed.

(* ---------------------------------------------------------------------- *)
(** * Tolerances 0                                                         *)
(* ---------------------------------------------------------------------- *)

Lemma sqdistp_nonneg : forall p q, 0 <= sqdistp p q.
Proof.
  intros p q. unfold sqdistp.
  pose proof (Rle_0_sqr (px q - px p)) as H1.
  pose proof (Rle_0_sqr (py q - py p)) as H2. unfold Rsqr in *. lra.
Qed.

Lemma ignored_exact :
  forall bz b t, 0 <= t <= 1 -> ~ ignored 0 0 bz b t.
Proof.
  intros bz b t H01 I. unfold ignored in I.
  pose proof (sqdistp_nonneg (curvep bz t) (sA b)).
  pose proof (sqdistp_nonneg (curvep bz t) (sB b)).
  destruct I as [I | [I | [I | I]]]; lra.
Qed.

(** (d), exact case: true iff NO point of the piece -- end points t = 0 and
    t = 1 included -- lies on a barrier, except for the barriers the curve
    runs along (those are not examined at all). *)
Theorem curve_contained_exact :
  forall bz bs,
    curve_contained 0 0 bz bs = true
    <-> forall b, In b bs -> ~ curve_along bz b ->
          forall t, 0 <= t <= 1 -> ~ on_seg (curvep bz t) b.
Proof.
  intros bz bs. rewrite curve_contained_spec. split.
  - intros H b Hb NA t H01 Hon. exact (ignored_exact bz b t H01 (H b Hb NA t H01 Hon)).
  - intros H b Hb NA t H01 Hon. exfalso. exact (H b Hb NA t H01 Hon).
Qed.
Print Assumptions curve_contained_exact.

(** the statement of the task, for the open interval *)
Corollary curve_contained_exact_open :
  forall bz bs b t,
    curve_contained 0 0 bz bs = true -> In b bs -> ~ curve_along bz b ->
    0 < t < 1 -> ~ on_seg (curvep bz t) b.
Proof.
  intros bz bs b t H Hb NA Ht.
  apply (proj1 (curve_contained_exact bz bs) H b Hb NA). lra.
Qed.

(* ---------------------------------------------------------------------- *)
(** * The tolerances of the code: the ignored zones as distances           *)
(* ---------------------------------------------------------------------- *)

(** point.go: distp (math.Hypot) *)
Definition distp (p q : P) : R := sqrt (sqdistp p q).

Lemma sqdistp_lt_distp :
  forall p q e, 0 <= e -> (sqdistp p q < e <-> distp p q < sqrt e).
Proof.
  intros p q e He. unfold distp. pose proof (sqdistp_nonneg p q) as H. split.
  - intros L. apply sqrt_lt_1_alt. lra.
  - intros L. apply sqrt_lt_0_alt. exact L.
Qed.

(** the zones of the real code *)
Definition in_zone (bz : ctrlp) (b : Segment) (t : R) : Prop :=
  t < 1 / 1000000 \/ 1 - 1 / 1000000 < t \/
  distp (curvep bz t) (sA b) < sqrt (1 / 1000) \/
  distp (curvep bz t) (sB b) < sqrt (1 / 1000).

(** FINDING vertex-crossing, as a theorem: with the tolerances of the code
    the test accepts a curve EXACTLY when all its crossings of the barriers
    (it does not run along) happen within parameter 1e-6 of an end of the
    piece or within distance sqrt(1e-3) of an end point of the barrier. *)
Theorem curve_contained_real_zones :
  forall bz bs,
    curve_contained epsilon1 epsilon2 bz bs = true
    <-> forall b, In b bs -> ~ curve_along bz b ->
          forall t, 0 <= t <= 1 -> on_seg (curvep bz t) b -> in_zone bz b t.
Proof.
  intros bz bs. rewrite curve_contained_spec.
  assert (E : forall b t, ignored epsilon1 epsilon2 bz b t <-> in_zone bz b t).
  { intros b t. unfold ignored, in_zone, epsilon1, epsilon2.
    rewrite !(sqdistp_lt_distp _ _ (1 / 1000)) by lra. tauto. }
  split; intros H b Hb NA t H01 Hon; apply E; apply (H b Hb NA t H01 Hon).
Qed.
Print Assumptions curve_contained_real_zones.

(** the exact test is stricter than the real one *)
Corollary curve_contained_exact_real :
  forall bz bs,
    curve_contained 0 0 bz bs = true -> curve_contained epsilon1 epsilon2 bz bs = true.
Proof.
  intros bz bs. apply curve_contained_mono; unfold epsilon1, epsilon2; lra.
Qed.

(* ====================================================================== *)
(** * Examples                                                             *)
(* ====================================================================== *)

(** ** 1. The arch (0,0) (1,2) (3,2) (4,0) against the vertical barrier
       x = 2, 0 <= y <= 3, and against the sloped barrier (1/2,0)-(7/2,3) *)

Definition arch : ctrlp := mkC (mkP 0 0) (mkP 1 2) (mkP 3 2) (mkP 4 0).
Definition vseg : Segment := mkS (mkP 2 0) (mkP 2 3).
Definition dseg : Segment := mkS (mkP (1 / 2) 0) (mkP (7 / 2) 3).

Lemma arch_x : forall t, px (curvep arch t) = 3 * t + 3 * (t * t) - 2 * (t * t * t).
Proof.
  intros t. unfold arch. cbn [curvep px py p0 p1 p2 p3].
  unfold b30, b31, b32, b33. ring.
Qed.

Lemma arch_y : forall t, py (curvep arch t) = 6 * t - 6 * (t * t).
Proof.
  intros t. unfold arch. cbn [curvep px py p0 p1 p2 p3].
  unfold b30, b31, b32, b33. ring.
Qed.

Example ex_arch_coeffs :
  xcoeff arch = [0; 3 * (1 - 0); 3 * 0 + 3 * 3 - 6 * 1; 4 + 3 * 1 - (0 + 3 * 3)].
Proof. reflexivity. Qed.

Lemma arch_vseg_not_along : ~ curve_along arch vseg.
Proof.
  intros [[[_ D] _] | [_ L]].
  - unfold vseg in D. cbn [sA sB px py] in D. lra.
  - specialize (L 0). rewrite arch_x, arch_y in L.
    unfold vseg in L. cbn [sA sB px py] in L. lra.
Qed.

(** the curve meets the barrier exactly at t = 1/2 (the point (2, 3/2)) *)
Example ex_arch_vseg :
  forall t, In t (curve_intersects arch vseg) <-> t = 1 / 2.
Proof.
  intros t. rewrite (curve_intersects_spec arch vseg t arch_vseg_not_along).
  unfold on_seg. rewrite arch_x, arch_y. unfold vseg. cbn [sA sB px py]. split.
  - intros [H01 (s & Hs & Ex & Ey)].
    assert (F : (t - 1 / 2) * ((2 - t) * (t + 1)) = 0) by lra.
    apply Rmult_integral in F. destruct F as [F | F]; [lra |].
    apply Rmult_integral in F. destruct F; lra.
  - intros ->. split; [lra |]. exists (1 / 2). split; [lra |]. split; lra.
Qed.

Lemma arch_dseg_not_along : ~ curve_along arch dseg.
Proof.
  intros [[[D _] _] | [_ L]].
  - unfold dseg in D. cbn [sA sB px py] in D. lra.
  - specialize (L 0). rewrite arch_x, arch_y in L.
    unfold dseg in L. cbn [sA sB px py] in L. lra.
Qed.

(** general-slope branch: the arch meets (1/2,0)-(7/2,3) exactly at t = 1/2 *)
Example ex_arch_dseg :
  forall t, In t (curve_intersects arch dseg) <-> t = 1 / 2.
Proof.
  intros t. rewrite (curve_intersects_spec arch dseg t arch_dseg_not_along).
  unfold on_seg. rewrite arch_x, arch_y. unfold dseg. cbn [sA sB px py]. split.
  - intros [H01 (s & Hs & Ex & Ey)].
    assert (F : (t - 1 / 2) * (2 * (t * t) - 8 * t - 1) = 0) by lra.
    apply Rmult_integral in F. destruct F as [F | F]; [lra | exfalso].
    assert (0 <= t * t <= 1) by nra. nra.
  - intros ->. split; [lra |]. exists (1 / 2). split; [lra |]. split; lra.
Qed.

(** the test: with one crossing in the middle of the barrier the answer is
    false for both sets of tolerances *)
Example ex_arch_not_contained :
  curve_contained 0 0 arch [vseg] = false /\
  curve_contained epsilon1 epsilon2 arch [vseg] = false.
Proof.
  assert (R : curve_contained epsilon1 epsilon2 arch [vseg] = false).
  { destruct (curve_contained epsilon1 epsilon2 arch [vseg]) eqn:E; [exfalso | reflexivity].
    rewrite curve_contained_spec in E.
    assert (Hon : on_seg (curvep arch (1 / 2)) vseg).
    { unfold on_seg. rewrite arch_x, arch_y. unfold vseg. cbn [sA sB px py].
      exists (1 / 2). split; [lra |]. split; lra. }
    specialize (E vseg (or_introl eq_refl) arch_vseg_not_along (1 / 2) ltac:(lra) Hon).
    unfold ignored, sqdistp, epsilon1, epsilon2 in E. rewrite arch_x, arch_y in E.
    unfold vseg in E. cbn [sA sB px py] in E.
    destruct E as [E | [E | [E | E]]]; lra. }
  split; [| exact R].
  destruct (curve_contained 0 0 arch [vseg]) eqn:E; [| reflexivity].
  apply curve_contained_exact_real in E. congruence.
Qed.

(** ** 2. THE SKIPPED BARRIER: a straight bezier lying ON a vertical barrier *)

Definition vline : ctrlp := mkC (mkP 2 0) (mkP 2 1) (mkP 2 2) (mkP 2 3).

Lemma vline_x : forall t, px (curvep vline t) = 2.
Proof.
  intros t. unfold vline. cbn [curvep px py p0 p1 p2 p3].
  unfold b30, b31, b32, b33. ring.
Qed.

Lemma vline_y : forall t, py (curvep vline t) = 3 * t.
Proof.
  intros t. unfold vline. cbn [curvep px py p0 p1 p2 p3].
  unfold b30, b31, b32, b33. ring.
Qed.

Example ex_along_hyp : curve_along vline vseg.
Proof.
  right. split.
  - intros [_ D]. unfold vseg in D. cbn [sA sB px py] in D. lra.
  - intros t. rewrite vline_x, vline_y. unfold vseg. cbn [sA sB px py]. ring.
Qed.

(** every point of the piece is on the barrier ... *)
Example ex_along_on_barrier :
  forall t, 0 <= t <= 1 -> on_seg (curvep vline t) vseg.
Proof.
  intros t Ht. unfold on_seg. rewrite vline_x, vline_y. unfold vseg. cbn [sA sB px py].
  exists t. split; [exact Ht |]. split; lra.
Qed.

(** ... and the code finds no intersection and accepts, for all tolerances *)
Example ex_along_nil : curve_intersects vline vseg = [].
Proof. apply curve_intersects_along. exact ex_along_hyp. Qed.

Example ex_along_contained :
  forall eps1 eps2, curve_contained eps1 eps2 vline [vseg] = true.
Proof.
  intros eps1 eps2. rewrite (curve_contained_skips_along _ _ _ _ _ ex_along_hyp). reflexivity.
Qed.

(** so (d) WITHOUT the proviso [~ curve_along] is false *)
Example ex_along_refutes_unconditional :
  ~ (forall bz bs, curve_contained 0 0 bz bs = true ->
       forall b, In b bs -> forall t, 0 < t < 1 -> ~ on_seg (curvep bz t) b).
Proof.
  intros H.
  apply (H vline [vseg] (ex_along_contained 0 0) vseg (or_introl eq_refl) (1 / 2)); [lra |].
  apply ex_along_on_barrier. lra.
Qed.

(** ** 3. VERTEX-CROSSING: a transversal crossing 0.01 away from the end
       (0,0) of the barrier (0,0)-(0,1) *)

Definition hline : ctrlp :=
  mkC (mkP (-1) (1 / 100)) (mkP (-1 / 3) (1 / 100)) (mkP (1 / 3) (1 / 100)) (mkP 1 (1 / 100)).
Definition bseg : Segment := mkS (mkP 0 0) (mkP 0 1).

Lemma hline_x : forall t, px (curvep hline t) = 2 * t - 1.
Proof.
  intros t. unfold hline. cbn [curvep px py p0 p1 p2 p3].
  unfold b30, b31, b32, b33. field.
Qed.

Lemma hline_y : forall t, py (curvep hline t) = 1 / 100.
Proof.
  intros t. unfold hline. cbn [curvep px py p0 p1 p2 p3].
  unfold b30, b31, b32, b33. field.
Qed.

Lemma hline_not_along : ~ curve_along hline bseg.
Proof.
  intros [[[_ D] _] | [_ L]].
  - unfold bseg in D. cbn [sA sB px py] in D. lra.
  - specialize (L 0). rewrite hline_x, hline_y in L.
    unfold bseg in L. cbn [sA sB px py] in L. lra.
Qed.

(** the curve goes from the side x < 0 to the side x > 0 through the point
    (0, 1/100) of the barrier *)
Example ex_vertex_crossing :
  on_seg (curvep hline (1 / 2)) bseg /\
  px (curvep hline 0) < 0 /\ 0 < px (curvep hline 1).
Proof.
  rewrite !hline_x. split; [| lra].
  unfold on_seg. rewrite hline_x, hline_y. unfold bseg. cbn [sA sB px py].
  exists (1 / 100). split; [lra |]. split; lra.
Qed.

Example ex_vertex_accepted : curve_contained epsilon1 epsilon2 hline [bseg] = true.
Proof.
  apply curve_contained_spec. intros b [<- | []] _ t H01 (s & Hs & Ex & Ey).
  rewrite hline_x in Ex. rewrite hline_y in Ey. unfold bseg in *. cbn [sA sB px py] in *.
  assert (Et : t = 1 / 2) by lra. subst t.
  unfold ignored. right. right. left.
  unfold sqdistp, epsilon1. rewrite hline_x, hline_y. cbn [sA sB px py]. lra.
Qed.

Example ex_vertex_exact_rejected : curve_contained 0 0 hline [bseg] = false.
Proof.
  destruct (curve_contained 0 0 hline [bseg]) eqn:E; [exfalso | reflexivity].
  apply (proj1 (curve_contained_exact hline [bseg]) E bseg (or_introl eq_refl)
           hline_not_along (1 / 2)); [lra |].
  apply ex_vertex_crossing.
Qed.

(** ** 4. A curve that LEAVES the square [0,2]x[0,2] through its corner (2,2),
       running first along the side x = 2: accepted by the real tolerances *)

Definition square : list Segment :=
  [ mkS (mkP 0 0) (mkP 2 0); mkS (mkP 2 0) (mkP 2 2);
    mkS (mkP 2 2) (mkP 0 2); mkS (mkP 0 2) (mkP 0 0) ].
Definition exitc : ctrlp := mkC (mkP 2 1) (mkP 2 (5 / 3)) (mkP 2 (7 / 3)) (mkP 2 3).

Lemma exitc_x : forall t, px (curvep exitc t) = 2.
Proof.
  intros t. unfold exitc. cbn [curvep px py p0 p1 p2 p3].
  unfold b30, b31, b32, b33. ring.
Qed.

Lemma exitc_y : forall t, py (curvep exitc t) = 1 + 2 * t.
Proof.
  intros t. unfold exitc. cbn [curvep px py p0 p1 p2 p3].
  unfold b30, b31, b32, b33. field.
Qed.

Example ex_square_accepted : curve_contained epsilon1 epsilon2 exitc square = true.
Proof.
  apply curve_contained_spec. unfold square.
  intros b [<- | [<- | [<- | [<- | []]]]] NA t H01 (s & Hs & Ex & Ey);
    rewrite ?exitc_x, ?exitc_y in *; cbn [sA sB px py] in *.
  - exfalso. lra.
  - exfalso. apply NA. right. split.
    + intros [_ D]. cbn [sA sB px py] in D. lra.
    + intros u. rewrite exitc_x, exitc_y. cbn [sA sB px py]. ring.
  - assert (Et : t = 1 / 2) by lra. subst t.
    unfold ignored. right. right. left.
    unfold sqdistp, epsilon1. rewrite exitc_x, exitc_y. cbn [sA sB px py]. lra.
  - exfalso. lra.
Qed.

(** ... although the end of the piece is outside the square *)
Example ex_square_outside : py (curvep exitc 1) = 3 /\ px (curvep exitc 1) = 2.
Proof. rewrite exitc_x, exitc_y. split; lra. Qed.

(** with tolerances 0 the neighbouring side (2,2)-(0,2) catches it *)
Example ex_square_exact_rejected : curve_contained 0 0 exitc square = false.
Proof.
  destruct (curve_contained 0 0 exitc square) eqn:E; [exfalso | reflexivity].
  apply (proj1 (curve_contained_exact exitc square) E (mkS (mkP 2 2) (mkP 0 2))
           ltac:(unfold square; cbn [In]; right; right; left; reflexivity)) with (t := 1 / 2).
  - intros [[[D _] _] | [_ L]].
    + cbn [sA sB px py] in D. lra.
    + specialize (L 0). rewrite exitc_x, exitc_y in L. cbn [sA sB px py] in L. lra.
  - lra.
  - unfold on_seg. rewrite exitc_x, exitc_y. cbn [sA sB px py].
    exists 0. split; [lra |]. split; lra.
Qed.

(** ** 5. The returned list itself, computed through solve3 (branch disc < 0) *)

(** the cubic handed to solve3 for the arch and the barrier x = 2:
    -2 t^3 + 3 t^2 + 3 t - 2 = -2 (t - 2)(t + 1)(t - 1/2) *)
Definition arch_cubic : list R := [-2; 3; 3; -2].

Lemma arch_vseg_poly : sub0 (xcoeff arch) (px (sA vseg)) = arch_cubic.
Proof.
  unfold xcoeff, arch, vseg, coeff, sub0, set0, co, arch_cubic.
  cbn [nth px py p0 p1 p2 p3 sA sB]. repeat f_equal; lra.
Qed.

Lemma arch_cubic_wf : co arch_cubic 3 <> 0.
Proof. unfold co, arch_cubic. cbn [nth]. lra. Qed.

Lemma arch_cubic_branch : disc3 arch_cubic < 0.
Proof.
  assert (Eb : b3a arch_cubic = - (1 / 2))
    by (unfold b3a, co, arch_cubic; cbn [nth]; field).
  assert (Ep : dep_p arch_cubic = - (3 / 4))
    by (unfold dep_p; rewrite Eb; unfold co, arch_cubic; cbn [nth]; field).
  assert (Eq : dep_q arch_cubic = 0)
    by (unfold dep_q; rewrite Eb; unfold co, arch_cubic; cbn [nth]; field).
  unfold disc3. rewrite Ep, Eq. lra.
Qed.

Lemma arch_cubic_roots :
  forall x, In x (vals (solve3 arch_cubic)) <-> x = 2 \/ x = -1 \/ x = 1 / 2.
Proof.
  intros x. rewrite (solve3_correct _ _ arch_cubic_wf).
  unfold poly3, co, arch_cubic. cbn [nth].
  replace (-2 * (x * x * x) + 3 * (x * x) + 3 * x + -2)
    with (-2 * ((x - 2) * ((x + 1) * (x - 1 / 2)))) by field.
  split.
  - intros H. apply Rmult_integral in H. destruct H as [H | H]; [exfalso; lra |].
    apply Rmult_integral in H. destruct H as [H | H]; [left; lra |].
    apply Rmult_integral in H. destruct H; [right; left | right; right]; lra.
  - intros [H | [H | H]]; subst x; field.
Qed.

Lemma arch_cubic_values : solve3 arch_cubic = Some [2; -1; 1 / 2].
Proof.
  destruct (solve3_disc_neg_three_distinct arch_cubic arch_cubic_wf arch_cubic_branch)
    as (x1 & x2 & x3 & E & [O1 O2] & _).
  pose proof (arch_cubic_roots x1) as I1.
  pose proof (arch_cubic_roots x2) as I2.
  pose proof (arch_cubic_roots x3) as I3.
  rewrite E in *. cbn [vals In] in *.
  assert (V1 : x1 = 2 \/ x1 = -1 \/ x1 = 1 / 2) by (apply I1; auto).
  assert (V2 : x2 = 2 \/ x2 = -1 \/ x2 = 1 / 2) by (apply I2; auto).
  assert (V3 : x3 = 2 \/ x3 = -1 \/ x3 = 1 / 2) by (apply I3; auto).
  assert (x1 = 2 /\ x2 = -1 /\ x3 = 1 / 2) as (-> & -> & ->).
  { destruct V1 as [V1 | [V1 | V1]], V2 as [V2 | [V2 | V2]], V3 as [V3 | [V3 | V3]];
      subst; try (exfalso; lra); repeat split; reflexivity. }
  reflexivity.
Qed.

(** solve3 returns [2; -1; 1/2]; the loop keeps only 1/2, for which
    sv = (3/2 - 0) / 3 = 1/2 *)
Example ex_arch_vseg_list : curve_intersects arch vseg = [1 / 2].
Proof.
  unfold curve_intersects. cbv zeta.
  destruct (Req_EM_T (px (sB vseg) - px (sA vseg)) 0) as [Hx | Hx].
  2:{ exfalso. apply Hx. unfold vseg. cbn [sA sB px py]. lra. }
  destruct (Req_EM_T (py (sB vseg) - py (sA vseg)) 0) as [Hy | Hy].
  { exfalso. unfold vseg in Hy. cbn [sA sB px py] in Hy. lra. }
  rewrite arch_vseg_poly, arch_cubic_values.
  unfold seg_loop. cbn [flat_map]. cbv zeta.
  rewrite (proj2 (in01_false 2)) by lra.
  rewrite (proj2 (in01_false (-1))) by lra.
  rewrite (proj2 (in01_true (1 / 2))) by lra.
  assert (S : in01 ((horner (ycoeff arch) (1 / 2) - py (sA vseg))
                    / (py (sB vseg) - py (sA vseg))) = true).
  { apply in01_true. rewrite horner_poly3, ycoeff_correct, arch_y.
    unfold vseg. cbn [sA sB px py].
    replace ((6 * (1 / 2) - 6 * (1 / 2 * (1 / 2)) - 0) / (3 - 0)) with (1 / 2) by field.
    lra. }
  rewrite S. unfold appendr01. rewrite (proj2 (in01_true (1 / 2))) by lra.
  reflexivity.
Qed.

(** ** 6. A CONTACT WITHOUT CROSSING is rejected: the arch touches the
       horizontal barrier y = 3/2 at its apex (2, 3/2) and stays below it *)

Definition hseg : Segment := mkS (mkP 0 (3 / 2)) (mkP 4 (3 / 2)).

Example ex_tangent_below : forall t, py (curvep arch t) <= 3 / 2.
Proof.
  intros t. rewrite arch_y.
  pose proof (Rle_0_sqr (t - 1 / 2)) as H. unfold Rsqr in H. lra.
Qed.

Example ex_tangent_rejected :
  curve_contained 0 0 arch [hseg] = false /\
  curve_contained epsilon1 epsilon2 arch [hseg] = false.
Proof.
  assert (NA : ~ curve_along arch hseg).
  { intros [[[D _] _] | [_ L]].
    - unfold hseg in D. cbn [sA sB px py] in D. lra.
    - specialize (L 0). rewrite arch_x, arch_y in L.
      unfold hseg in L. cbn [sA sB px py] in L. lra. }
  assert (R : curve_contained epsilon1 epsilon2 arch [hseg] = false).
  { destruct (curve_contained epsilon1 epsilon2 arch [hseg]) eqn:E; [exfalso | reflexivity].
    rewrite curve_contained_spec in E.
    assert (Hon : on_seg (curvep arch (1 / 2)) hseg).
    { unfold on_seg. rewrite arch_x, arch_y. unfold hseg. cbn [sA sB px py].
      exists (1 / 2). split; [lra |]. split; lra. }
    specialize (E hseg (or_introl eq_refl) NA (1 / 2) ltac:(lra) Hon).
    unfold ignored, sqdistp, epsilon1, epsilon2 in E. rewrite arch_x, arch_y in E.
    unfold hseg in E. cbn [sA sB px py] in E.
    destruct E as [E | [E | [E | E]]]; lra. }
  split; [| exact R].
  destruct (curve_contained 0 0 arch [hseg]) eqn:E; [| reflexivity].
  apply curve_contained_exact_real in E. congruence.
Qed.

(** ** 7. A barrier reduced to a point never rejects when epsilon1 > 0:
       every intersection found by the first branch of curveIntersects is
       the point A itself, at squared distance 0 < epsilon1 *)

Theorem curve_contained_degenerate_ignored :
  forall eps1 eps2 bz b bs, 0 < eps1 -> degenerate b ->
    curve_contained eps1 eps2 bz (b :: bs) = curve_contained eps1 eps2 bz bs.
Proof.
  intros eps1 eps2 bz b bs He D. cbn [curve_contained].
  assert (L : roots_loop eps1 eps2 bz b (curve_intersects bz b) = true).
  { apply roots_loop_true. intros r Hr.
    apply curve_intersects_sound in Hr. destruct Hr as [_ Hon].
    apply (on_seg_degenerate _ _ D) in Hon. destruct Hon as [Ex Ey].
    unfold ignored. right. right. left. unfold sqdistp. rewrite Ex, Ey.
    replace ((px (sA b) - px (sA b)) * (px (sA b) - px (sA b))
             + (py (sA b) - py (sA b)) * (py (sA b) - py (sA b))) with 0 by ring.
    exact He. }
  rewrite L. reflexivity.
Qed.

(** ** 8. A crossing at a parameter below epsilon2 is ignored: the piece
       starts 1e-7 to the LEFT of the barrier (0,0)-(0,1), crosses it in its
       middle (0, 1/2) at t = 5e-8 and ends 2 to the right of it *)

Definition a7 : R := 1 / 10000000.
Definition sline : ctrlp :=
  mkC (mkP (- a7) (1 / 2)) (mkP (- a7 + 2 / 3) (1 / 2))
      (mkP (- a7 + 4 / 3) (1 / 2)) (mkP (- a7 + 2) (1 / 2)).

Lemma sline_x : forall t, px (curvep sline t) = 2 * t - a7.
Proof.
  intros t. unfold sline. cbn [curvep px py p0 p1 p2 p3].
  unfold b30, b31, b32, b33. field.
Qed.

Lemma sline_y : forall t, py (curvep sline t) = 1 / 2.
Proof.
  intros t. unfold sline. cbn [curvep px py p0 p1 p2 p3].
  unfold b30, b31, b32, b33. field.
Qed.

Example ex_start_crossing :
  px (curvep sline 0) < 0 /\ 0 < px (curvep sline 1) /\
  on_seg (curvep sline (a7 / 2)) bseg /\
  1 / 4 <= sqdistp (curvep sline (a7 / 2)) (sA bseg) /\
  1 / 4 <= sqdistp (curvep sline (a7 / 2)) (sB bseg).
Proof.
  rewrite !sline_x. unfold sqdistp, on_seg. rewrite !sline_x, !sline_y.
  unfold bseg, a7. cbn [sA sB px py].
  split; [lra |]. split; [lra |]. split; [| split; lra].
  exists (1 / 2). split; [lra |]. split; lra.
Qed.

Example ex_start_accepted : curve_contained epsilon1 epsilon2 sline [bseg] = true.
Proof.
  apply curve_contained_spec. intros b [<- | []] _ t H01 (s & Hs & Ex & Ey).
  rewrite sline_x in Ex. rewrite sline_y in Ey. unfold bseg, a7 in *. cbn [sA sB px py] in *.
  unfold ignored, epsilon2. left. lra.
Qed.

(** ** 9. The first branch (segment reduced to a point) *)

Definition pseg : Segment := mkS (mkP 2 (3 / 2)) (mkP 2 (3 / 2)).

Lemma pseg_degenerate : degenerate pseg.
Proof. unfold degenerate, pseg. cbn [sA sB px py]. split; ring. Qed.

(** both xroots and yroots non-nil: the arch passes through (2, 3/2) at 1/2 *)
Example ex_arch_pseg :
  forall t, In t (curve_intersects arch pseg) <-> t = 1 / 2.
Proof.
  intros t. rewrite (curve_intersects_degenerate arch pseg t pseg_degenerate).
  2:{ intros Q. destruct (Q 0) as [Q1 _]. rewrite arch_x in Q1.
      unfold pseg in Q1. cbn [sA sB px py] in Q1. lra. }
  rewrite arch_x, arch_y. unfold pseg. cbn [sA sB px py]. split.
  - intros [H01 [Ex Ey]].
    assert (F : (t - 1 / 2) * (t - 1 / 2) = 0) by lra.
    apply Rmult_integral in F. destruct F; lra.
  - intros ->. split; [lra |]. split; lra.
Qed.

(** xroots == nil (x is constantly 2 on [vline]), yroots non-nil *)
Example ex_vline_pseg :
  forall t, In t (curve_intersects vline pseg) <-> t = 1 / 2.
Proof.
  intros t. rewrite (curve_intersects_degenerate vline pseg t pseg_degenerate).
  2:{ intros Q. destruct (Q 0) as [_ Q2]. rewrite vline_y in Q2.
      unfold pseg in Q2. cbn [sA sB px py] in Q2. lra. }
  rewrite vline_x, vline_y. unfold pseg. cbn [sA sB px py]. split.
  - intros [H01 [Ex Ey]]. lra.
  - intros ->. split; [lra |]. split; lra.
Qed.

Example ex_vline_pseg_xroots_nil : solve3 (sub0 (xcoeff vline) (px (sA pseg))) = None.
Proof.
  apply solve3_allzero_None. unfold allzero, xcoeff, vline, pseg, coeff, sub0, set0, co.
  cbn [nth px py p0 p1 p2 p3 sA sB]. repeat split; lra.
Qed.
