(* ====================================================================== *)
(*  CurveReal3.v                                                          *)
(*                                                                        *)
(*  Property C20 (part): from [no barrier is met] to [the curve stays     *)
(*  inside], for a rectangular corridor, in exact real arithmetic.        *)
(*                                                                        *)
(*  CurveReal2.v characterises the answer of curveContained by the        *)
(*  crossings of the individual barriers.  Here the barriers are the four *)
(*  sides of a rectangle and the conclusion is about the REGION:          *)
(*    - [rect_exit_is_ignored]: for all tolerances, if the test answers   *)
(*      true and the piece starts strictly inside the rectangle, then     *)
(*      before any parameter at which the curve is not strictly inside    *)
(*      there is a crossing of a side that lies in an ignored zone;       *)
(*    - [rect_contained_exact_sound]: with tolerances 0 nothing is        *)
(*      ignored, hence the whole piece 0 <= t <= 1 is strictly inside.    *)
(*  The proof is the intermediate value theorem applied to the minimum of *)
(*  the four signed distances to the sides.                               *)
(*  With the tolerances of the code no such conclusion holds: see         *)
(*  [CurveReal2.ex_square_accepted] (the curve leaves through a corner).  *)
(*                                                                        *)
(*  Axioms: those of the standard-library reals, as for RootsReal.v.      *)
(* ====================================================================== *)

From Coq Require Import Reals Lra List Bool Psatz.
From Autog Require Import RootsReal CurveReal CurveReal2.
Import ListNotations.
Local Open Scope R_scope.

(* ---------------------------------------------------------------------- *)
(** * The minimum of two reals, as a continuous expression                 *)
(* ---------------------------------------------------------------------- *)

Definition m2 (a b : R) : R := (a + b - Rabs (a - b)) / 2.

Lemma m2_cases : forall a b, (m2 a b = a /\ a <= b) \/ (m2 a b = b /\ b <= a).
Proof.
  intros a b. unfold m2, Rabs. destruct (Rcase_abs (a - b)) as [H | H].
  - left. split; lra.
  - right. split; lra.
Qed.

Lemma m2_le_l : forall a b, m2 a b <= a.
Proof. intros a b. destruct (m2_cases a b) as [[E H] | [E H]]; lra. Qed.

Lemma m2_le_r : forall a b, m2 a b <= b.
Proof. intros a b. destruct (m2_cases a b) as [[E H] | [E H]]; lra. Qed.

Lemma m2_pos : forall a b, 0 < a -> 0 < b -> 0 < m2 a b.
Proof. intros a b Ha Hb. destruct (m2_cases a b) as [[E H] | [E H]]; lra. Qed.

Lemma m2_continuous :
  forall f g : R -> R, continuity f -> continuity g ->
    continuity (fun t => m2 (f t) (g t)).
Proof.
  intros f g Hf Hg. unfold m2.
  change (continuity ((f + g - comp Rabs (f - g)) / fct_cte 2)%F).
  apply continuity_div.
  - apply continuity_minus.
    + apply continuity_plus; assumption.
    + apply continuity_comp; [apply continuity_minus; assumption | apply Rcontinuity_abs].
  - apply continuity_const. intros x y. reflexivity.
  - intros x. unfold fct_cte. lra.
Qed.

(* ---------------------------------------------------------------------- *)
(** * The coordinates of the curve are continuous functions of t           *)
(* ---------------------------------------------------------------------- *)

Lemma curvep_x_continuous : forall bz, continuity (fun t => px (curvep bz t)).
Proof.
  intros bz. cbn [curvep px]. unfold b30, b31, b32, b33. cbv zeta. reg.
Qed.

Lemma curvep_y_continuous : forall bz, continuity (fun t => py (curvep bz t)).
Proof.
  intros bz. cbn [curvep py]. unfold b30, b31, b32, b33. cbv zeta. reg.
Qed.

(* ---------------------------------------------------------------------- *)
(** * Rectangles                                                           *)
(* ---------------------------------------------------------------------- *)

(** the four sides, as Polygon.Sides() lists them for the four corners
    (x0,y0) (x1,y0) (x1,y1) (x0,y1) *)
Definition rect_sides (x0 y0 x1 y1 : R) : list Segment :=
  [ mkS (mkP x0 y0) (mkP x1 y0); mkS (mkP x1 y0) (mkP x1 y1);
    mkS (mkP x1 y1) (mkP x0 y1); mkS (mkP x0 y1) (mkP x0 y0) ].

Definition strictly_inside (x0 y0 x1 y1 : R) (p : P) : Prop :=
  x0 < px p < x1 /\ y0 < py p < y1.

Lemma div01 : forall n d, 0 <= n <= d -> 0 < d -> 0 <= n / d <= 1.
Proof.
  intros n d [H0 H1] Hd. unfold Rdiv.
  assert (Hi : 0 < / d) by (apply Rinv_0_lt_compat; exact Hd).
  split.
  - apply Rmult_le_pos; lra.
  - apply Rmult_le_reg_r with d; [exact Hd |].
    rewrite Rmult_assoc, Rinv_l by lra. lra.
Qed.

(** a point of the boundary of the rectangle is on one of the four sides *)
Lemma boundary_on_side :
  forall x0 y0 x1 y1 p, x0 < x1 -> y0 < y1 ->
    x0 <= px p <= x1 -> y0 <= py p <= y1 ->
    (px p = x0 \/ px p = x1 \/ py p = y0 \/ py p = y1) ->
    exists b, In b (rect_sides x0 y0 x1 y1) /\ on_seg p b.
Proof.
  intros x0 y0 x1 y1 p Hx Hy Bx By [E | [E | [E | E]]].
  - (* left side: (x0,y1) -> (x0,y0) *)
    exists (mkS (mkP x0 y1) (mkP x0 y0)). split; [cbn [rect_sides In]; tauto |].
    exists ((y1 - py p) / (y1 - y0)). split; [apply div01; lra |].
    cbn [sA sB px py]. split; [lra | field; lra].
  - (* right side: (x1,y0) -> (x1,y1) *)
    exists (mkS (mkP x1 y0) (mkP x1 y1)). split; [cbn [rect_sides In]; tauto |].
    exists ((py p - y0) / (y1 - y0)). split; [apply div01; lra |].
    cbn [sA sB px py]. split; [lra | field; lra].
  - (* side y = y0: (x0,y0) -> (x1,y0) *)
    exists (mkS (mkP x0 y0) (mkP x1 y0)). split; [cbn [rect_sides In]; tauto |].
    exists ((px p - x0) / (x1 - x0)). split; [apply div01; lra |].
    cbn [sA sB px py]. split; [field; lra | lra].
  - (* side y = y1: (x1,y1) -> (x0,y1) *)
    exists (mkS (mkP x1 y1) (mkP x0 y1)). split; [cbn [rect_sides In]; tauto |].
    exists ((x1 - px p) / (x1 - x0)). split; [apply div01; lra |].
    cbn [sA sB px py]. split; [field; lra | lra].
Qed.

(** FIRST EXIT.  A curve that starts strictly inside and is not strictly
    inside at [t1] has, at some parameter z <= t1, a point on a side. *)
Lemma rect_exit_meets_side :
  forall bz x0 y0 x1 y1 t1, x0 < x1 -> y0 < y1 ->
    strictly_inside x0 y0 x1 y1 (curvep bz 0) ->
    0 <= t1 -> ~ strictly_inside x0 y0 x1 y1 (curvep bz t1) ->
    exists z b, 0 <= z <= t1 /\ In b (rect_sides x0 y0 x1 y1) /\ on_seg (curvep bz z) b.
Proof.
  intros bz x0 y0 x1 y1 t1 Hx Hy [[I1 I2] [I3 I4]] Ht1 Out.
  set (X := fun t => px (curvep bz t)) in *.
  set (Y := fun t => py (curvep bz t)) in *.
  set (f := fun t => m2 (m2 (X t - x0) (x1 - X t)) (m2 (Y t - y0) (y1 - Y t))).
  assert (CX : continuity X) by apply curvep_x_continuous.
  assert (CY : continuity Y) by apply curvep_y_continuous.
  assert (Cf : continuity f).
  { unfold f. apply m2_continuous; apply m2_continuous.
    - change (continuity (X - fct_cte x0)%F). apply continuity_minus; [exact CX |].
      apply continuity_const. intros u v. reflexivity.
    - change (continuity (fct_cte x1 - X)%F). apply continuity_minus; [| exact CX].
      apply continuity_const. intros u v. reflexivity.
    - change (continuity (Y - fct_cte y0)%F). apply continuity_minus; [exact CY |].
      apply continuity_const. intros u v. reflexivity.
    - change (continuity (fct_cte y1 - Y)%F). apply continuity_minus; [| exact CY].
      apply continuity_const. intros u v. reflexivity. }
  assert (F0 : 0 < f 0).
  { unfold f. apply m2_pos; apply m2_pos; unfold X, Y; lra. }
  assert (F1 : f t1 <= 0).
  { unfold f.
    pose proof (m2_le_l (m2 (X t1 - x0) (x1 - X t1)) (m2 (Y t1 - y0) (y1 - Y t1))) as L.
    pose proof (m2_le_r (m2 (X t1 - x0) (x1 - X t1)) (m2 (Y t1 - y0) (y1 - Y t1))) as R.
    pose proof (m2_le_l (X t1 - x0) (x1 - X t1)) as L1.
    pose proof (m2_le_r (X t1 - x0) (x1 - X t1)) as R1.
    pose proof (m2_le_l (Y t1 - y0) (y1 - Y t1)) as L2.
    pose proof (m2_le_r (Y t1 - y0) (y1 - Y t1)) as R2.
    destruct (Rle_dec (X t1 - x0) 0) as [A | A]; [lra |].
    destruct (Rle_dec (x1 - X t1) 0) as [B | B]; [lra |].
    destruct (Rle_dec (Y t1 - y0) 0) as [C | C]; [lra |].
    destruct (Rle_dec (y1 - Y t1) 0) as [D | D]; [lra |].
    exfalso. apply Out. unfold strictly_inside. fold (X t1). fold (Y t1). lra. }
  assert (Prod : f 0 * f t1 <= 0) by nra.
  destruct (IVT_cor f 0 t1 Cf Ht1 Prod) as [z [Hz Ez]].
  unfold f in Ez.
  destruct (m2_cases (m2 (X z - x0) (x1 - X z)) (m2 (Y z - y0) (y1 - Y z))) as [[E H] | [E H]];
    destruct (m2_cases (X z - x0) (x1 - X z)) as [[Ex Hx'] | [Ex Hx']];
    destruct (m2_cases (Y z - y0) (y1 - Y z)) as [[Ey Hy'] | [Ey Hy']];
    destruct (boundary_on_side x0 y0 x1 y1 (curvep bz z) Hx Hy) as (b & Hb & Hon);
    try (fold (X z); fold (Y z); lra);
    exists z, b; tauto.
Qed.

(** a curve that starts strictly inside runs along none of the sides *)
Lemma inside_not_along :
  forall bz x0 y0 x1 y1 b, x0 < x1 -> y0 < y1 ->
    strictly_inside x0 y0 x1 y1 (curvep bz 0) ->
    In b (rect_sides x0 y0 x1 y1) -> ~ curve_along bz b.
Proof.
  intros bz x0 y0 x1 y1 b Hx Hy [[I1 I2] [I3 I4]] Hb.
  cbn [rect_sides In] in Hb.
  destruct Hb as [<- | [<- | [<- | [<- | []]]]];
    intros [[[Dx Dy] _] | [_ L]]; cbn [sA sB px py] in *; try lra;
    specialize (L 0); cbn [sA sB px py] in L; nra.
Qed.

(* ---------------------------------------------------------------------- *)
(** * Main theorems                                                        *)
(* ---------------------------------------------------------------------- *)

(** For all tolerances: the curve can only get out of the rectangle after a
    crossing that the test ignores. *)
Theorem rect_exit_is_ignored :
  forall eps1 eps2 bz x0 y0 x1 y1 t1, x0 < x1 -> y0 < y1 ->
    curve_contained eps1 eps2 bz (rect_sides x0 y0 x1 y1) = true ->
    strictly_inside x0 y0 x1 y1 (curvep bz 0) ->
    0 <= t1 <= 1 -> ~ strictly_inside x0 y0 x1 y1 (curvep bz t1) ->
    exists z b, 0 <= z <= t1 /\ In b (rect_sides x0 y0 x1 y1) /\
                on_seg (curvep bz z) b /\ ignored eps1 eps2 bz b z.
Proof.
  intros eps1 eps2 bz x0 y0 x1 y1 t1 Hx Hy C I [T0 T1] Out.
  destruct (rect_exit_meets_side bz x0 y0 x1 y1 t1 Hx Hy I T0 Out) as (z & b & Hz & Hb & Hon).
  exists z, b. repeat split; try tauto.
  apply (proj1 (curve_contained_spec eps1 eps2 bz _) C b Hb).
  - apply (inside_not_along bz x0 y0 x1 y1 b Hx Hy I Hb).
  - lra.
  - exact Hon.
Qed.
Print Assumptions rect_exit_is_ignored.

(** Tolerances 0: the test is SOUND for containment in a rectangle. *)
Theorem rect_contained_exact_sound :
  forall bz x0 y0 x1 y1, x0 < x1 -> y0 < y1 ->
    curve_contained 0 0 bz (rect_sides x0 y0 x1 y1) = true ->
    strictly_inside x0 y0 x1 y1 (curvep bz 0) ->
    forall t, 0 <= t <= 1 -> strictly_inside x0 y0 x1 y1 (curvep bz t).
Proof.
  intros bz x0 y0 x1 y1 Hx Hy C I t Ht.
  assert (D : strictly_inside x0 y0 x1 y1 (curvep bz t) \/
              ~ strictly_inside x0 y0 x1 y1 (curvep bz t)).
  { unfold strictly_inside.
    destruct (Rlt_dec x0 (px (curvep bz t))); [| right; lra].
    destruct (Rlt_dec (px (curvep bz t)) x1); [| right; lra].
    destruct (Rlt_dec y0 (py (curvep bz t))); [| right; lra].
    destruct (Rlt_dec (py (curvep bz t)) y1); [| right; lra].
    left. lra. }
  destruct D as [D | Out]; [exact D | exfalso].
  destruct (rect_exit_is_ignored 0 0 bz x0 y0 x1 y1 t Hx Hy C I Ht Out)
    as (z & b & Hz & _ & _ & Ig).
  apply (ignored_exact bz b z); [lra | exact Ig].
Qed.
Print Assumptions rect_contained_exact_sound.

(** ... and COMPLETE: a piece strictly inside the rectangle is accepted
    (for all non-negative tolerances, by monotonicity). *)
Theorem rect_contained_exact_complete :
  forall bz x0 y0 x1 y1, x0 < x1 -> y0 < y1 ->
    (forall t, 0 <= t <= 1 -> strictly_inside x0 y0 x1 y1 (curvep bz t)) ->
    curve_contained 0 0 bz (rect_sides x0 y0 x1 y1) = true.
Proof.
  intros bz x0 y0 x1 y1 Hx Hy I. apply curve_contained_exact.
  intros b Hb _ t Ht (s & Hs & Ex & Ey).
  destruct (I t Ht) as [[I1 I2] [I3 I4]].
  cbn [rect_sides In] in Hb.
  destruct Hb as [<- | [<- | [<- | [<- | []]]]]; cbn [sA sB px py] in *; nra.
Qed.

(* ---------------------------------------------------------------------- *)
(** * Example: the arch inside the rectangle [-1,5] x [-1,3]               *)
(* ---------------------------------------------------------------------- *)

Example ex_arch_inside :
  forall t, 0 <= t <= 1 -> strictly_inside (-1) (-1) 5 3 (curvep arch t).
Proof.
  intros t Ht. unfold strictly_inside. rewrite arch_x, arch_y.
  assert (0 <= t * t <= 1) by nra.
  assert (0 <= t * t * t <= 1) by nra.
  assert (t * t * t <= t * t) by nra.
  assert (t * t <= t) by nra.
  repeat split; nra.
Qed.

Example ex_arch_rect_accepted :
  curve_contained 0 0 arch (rect_sides (-1) (-1) 5 3) = true.
Proof.
  apply rect_contained_exact_complete; [lra | lra | exact ex_arch_inside].
Qed.

(** the hypotheses of [rect_contained_exact_sound] are satisfiable *)
Example ex_arch_rect_sound_hyps :
  -1 < 5 /\ -1 < 3 /\
  curve_contained 0 0 arch (rect_sides (-1) (-1) 5 3) = true /\
  strictly_inside (-1) (-1) 5 3 (curvep arch 0).
Proof.
  repeat split; try lra; try exact ex_arch_rect_accepted;
    apply (ex_arch_inside 0); lra.
Qed.

(** the hypotheses of [rect_exit_is_ignored] are satisfiable with the real
    tolerances: the curve [exitc'] starts inside the square [0,2]x[0,2],
    crosses its side y = 2 at distance 0.01 from the corner (2,2), and
    ends outside; the test accepts it. *)
Definition exitc' : ctrlp :=
  mkC (mkP (199 / 100) 1) (mkP (199 / 100) (5 / 3)) (mkP (199 / 100) (7 / 3)) (mkP (199 / 100) 3).

Lemma exitc'_x : forall t, px (curvep exitc' t) = 199 / 100.
Proof.
  intros t. unfold exitc'. cbn [curvep px py p0 p1 p2 p3].
  unfold b30, b31, b32, b33. field.
Qed.

Lemma exitc'_y : forall t, py (curvep exitc' t) = 1 + 2 * t.
Proof.
  intros t. unfold exitc'. cbn [curvep px py p0 p1 p2 p3].
  unfold b30, b31, b32, b33. field.
Qed.

Example ex_exit_hyps :
  curve_contained epsilon1 epsilon2 exitc' (rect_sides 0 0 2 2) = true /\
  strictly_inside 0 0 2 2 (curvep exitc' 0) /\
  ~ strictly_inside 0 0 2 2 (curvep exitc' 1).
Proof.
  split; [| split].
  - apply curve_contained_spec. unfold rect_sides.
    intros b [<- | [<- | [<- | [<- | []]]]] NA t H01 (s & Hs & Ex & Ey);
      rewrite ?exitc'_x, ?exitc'_y in *; cbn [sA sB px py] in *; try (exfalso; lra).
    assert (Et : t = 1 / 2) by lra. subst t.
    unfold ignored. right. right. left.
    unfold sqdistp, epsilon1. rewrite exitc'_x, exitc'_y. cbn [sA sB px py]. lra.
  - unfold strictly_inside. rewrite exitc'_x, exitc'_y. lra.
  - unfold strictly_inside. rewrite exitc'_x, exitc'_y. lra.
Qed.

(* ---------------------------------------------------------------------- *)
(** * The same argument for an arbitrary region                            *)
(* ---------------------------------------------------------------------- *)

(** The soundness of the exact test for a region reduces to the existence
    of a function [d] (positive inside), continuous along the curve, whose
    zeros on the piece are points of barriers the curve does not run along.
    ([rect_contained_exact_sound] is the instance d = minimum of the four
    signed distances to the sides.) *)
Section Region.
  Variable bz : ctrlp.
  Variable bs : list Segment.
  Variable d : P -> R.
  Hypothesis d_continuous : continuity (fun t => d (curvep bz t)).
  Hypothesis d_zero_on_barrier :
    forall t, 0 <= t <= 1 -> d (curvep bz t) = 0 ->
      exists b, In b bs /\ ~ curve_along bz b /\ on_seg (curvep bz t) b.

  Theorem region_contained_exact_sound :
    curve_contained 0 0 bz bs = true ->
    0 < d (curvep bz 0) ->
    forall t, 0 <= t <= 1 -> 0 < d (curvep bz t).
  Proof.
    intros C D0 t Ht.
    destruct (Rlt_dec 0 (d (curvep bz t))) as [Hp | Hn]; [exact Hp | exfalso].
    assert (Prod : d (curvep bz 0) * d (curvep bz t) <= 0) by nra.
    destruct (IVT_cor (fun u => d (curvep bz u)) 0 t d_continuous (proj1 Ht) Prod)
      as [z [Hz Ez]].
    destruct (d_zero_on_barrier z ltac:(lra) Ez) as (b & Hb & NA & Hon).
    apply (proj1 (curve_contained_exact bz bs) C b Hb NA z); [lra | exact Hon].
  Qed.
End Region.
Print Assumptions region_contained_exact_sound.
