(* CycleBreaking.v — phase 1 (cycle breaking) of the layered layout: the main theorems.

   Files:
     CBBase.v         consistency predicate, arena lemmas, T1 reverse_edge_consistent, fold_reverse_edges
     CBExamples.v     sound boolean checkers for the hypotheses, example graphs
     CBHasCycles.v    T2 has_cycles_complete, T3 acyclic_input_untouched, T4 has_cycles_sound
     CBDepthFirst.v   T6 exec_depth_first_ranked, T7 depth_first_minimal
     CBGreedy.v       T5 (b) reversal loop, exec_greedy_ranked_of_injective
     CBGreedyRanks.v  T5 (a) greedy_ranks_injective, T5 exec_greedy_ranked
     CBTotal.v        no fuel exhaustion / no error at all in phase 1
     CycleBreaking.v  (this file) phase1 as a whole                                                      *)
From Autog Require Import Base Graph Populate Phase1.
From Autog.Proofs Require Export CBBase CBExamples CBHasCycles CBDepthFirst CBGreedy CBGreedyRanks CBTotal.
From Coq Require Import Lia List Arith ZArith Bool.
Import ListNotations.
Local Open Scope nat_scope.

(* ---------- removeTwoNodeCycles keeps the graph well formed ---------- *)
Lemma two_cycle_edges_sub : forall g es seen e, In e (two_cycle_edges g es seen) -> In e es.
Proof.
  induction es as [|x t IH]; simpl; intros seen e H; auto.
  destruct (seen_pair _ seen).
  - destruct H as [<-|H]; eauto.
  - eauto.
Qed.

Lemma two_cycle_edges_nodup : forall g es seen, NoDup es -> NoDup (two_cycle_edges g es seen).
Proof.
  induction es as [|x t IH]; simpl; intros seen H; [constructor|].
  inversion H; subst. destruct (seen_pair _ seen); auto.
  constructor; auto. intros Hin. apply two_cycle_edges_sub in Hin. tauto.
Qed.

(* every node has an incident edge: equivalent to no_isolated_nodes, and obviously stable under reversal *)
Definition has_incident (g : graph) : Prop :=
  forall n, In n (g_N g) -> exists e, In e (g_E g) /\ (e_from (gedge g e) = n \/ e_to (gedge g e) = n).

Lemma no_isolated_iff : forall g, consistent g -> (no_isolated_nodes g <-> has_incident g).
Proof.
  intros g [_ _ CO CI]. split; intros H n Hn.
  - specialize (H n Hn). destruct (CO n Hn) as [_ CO2]. destruct (CI n Hn) as [_ CI2].
    unfold indeg, outdeg in H.
    destruct (n_in (gnode g n)) as [|e t] eqn:Ei.
    + destruct (n_out (gnode g n)) as [|e t] eqn:Eo; [simpl in H; lia|].
      exists e. destruct (proj1 (CO2 e) (or_introl eq_refl)). auto.
    + exists e. destruct (proj1 (CI2 e) (or_introl eq_refl)). auto.
  - destruct (H n Hn) as [e [He [Hf|Ht]]].
    + destruct (CO n Hn) as [_ CO2]. assert (Hin : In e (n_out (gnode g n))) by (apply CO2; auto).
      unfold outdeg. destruct (n_out (gnode g n)); [destruct Hin|simpl; lia].
    + destruct (CI n Hn) as [_ CI2]. assert (Hin : In e (n_in (gnode g n))) by (apply CI2; auto).
      unfold indeg. destruct (n_in (gnode g n)); [destruct Hin|simpl; lia].
Qed.

Lemma remove_two_node_cycles_wf : forall g,
  consistent g -> no_self_loops g ->
  let g1 := remove_two_node_cycles g in
  consistent g1 /\ no_self_loops g1 /\ g_N g1 = g_N g /\ g_E g1 = g_E g /\
  (no_isolated_nodes g -> no_isolated_nodes g1).
Proof.
  intros g C N g1. unfold remove_two_node_cycles in g1.
  pose proof C as [_ [CE1 _] _ _].
  destruct (fold_reverse_edges (two_cycle_edges g (g_E g) []) g C N) as [A1 [A2 [A3 [A4 [A5 A6]]]]].
  - apply two_cycle_edges_nodup. exact CE1.
  - intros e He. apply two_cycle_edges_sub in He. exact He.
  - fold g1 in A1, A2, A3, A4, A5, A6.
    split; [exact A1|]. split; [exact A2|]. split; [exact A3|]. split; [exact A4|].
    intros Hiso. apply (no_isolated_iff g1 A1). apply (no_isolated_iff g C) in Hiso.
    intros n Hn. rewrite A3 in Hn. destruct (Hiso n Hn) as [e [He Hends]].
    exists e. rewrite A4. split; [exact He|].
    destruct (in_dec Nat.eq_dec e (two_cycle_edges g (g_E g) [])) as [Hin|Hnin].
    + destruct (A6 e Hin) as [B1 [B2 _]]. rewrite B1, B2. tauto.
    + rewrite (A5 e Hnin). exact Hends.
Qed.

(* ---------- phase 1 as a whole ---------- *)

(* what later phases rely on: the graph handed on is well formed and acyclic *)
Theorem phase1_post : forall alg g g',
  consistent g -> no_self_loops g -> (alg = Greedy -> no_isolated_nodes g) ->
  phase1 alg g = Ok g' ->
  consistent g' /\ no_self_loops g' /\ g_N g' = g_N g /\ g_E g' = g_E g /\ ranked g'.
Proof.
  intros alg g g' C N Hiso H. unfold phase1 in H.
  destruct (Nat.eqb (length (g_N g)) 1) eqn:H1.
  - inversion H; subst g'. repeat (split; [solve [auto]|]).
    exists (fun _ => 0%Z). intros e He. exfalso.
    apply Nat.eqb_eq in H1. destruct C as [_ [_ CE2] _ _]. destruct (CE2 e He) as [_ [Hf Ht]].
    pose proof (N e He) as Hs. apply self_loop_false in Hs.
    destruct (g_N g) as [|x [|y t]]; simpl in H1; try discriminate.
    destruct Hf as [Hf|[]]. destruct Ht as [Ht|[]]. congruence.
  - destruct (remove_two_node_cycles_wf g C N) as [C1 [N1 [HN1 [HE1 Hiso1]]]].
    set (g1 := remove_two_node_cycles g) in *.
    destruct (has_cycles g1) as [c|] eqn:Hc; cbn [bind] in H; [|discriminate].
    destruct c; cbn [negb] in H.
    + assert (Hx : exists g2, (match alg with Greedy => exec_greedy g1 | DepthFirst => exec_depth_first g1 end) = Ok g2
                   /\ consistent g2 /\ no_self_loops g2 /\ g_N g2 = g_N g1 /\ g_E g2 = g_E g1 /\ ranked g2).
      { destruct alg.
        - destruct (exec_greedy g1) as [g2|] eqn:Hg; cbn [bind] in H; [|discriminate].
          exists g2. split; [reflexivity|]. apply exec_greedy_ranked; auto.
        - destruct (exec_depth_first g1) as [g2|] eqn:Hg; cbn [bind] in H; [|discriminate].
          exists g2. split; [reflexivity|]. apply exec_depth_first_ranked; auto. }
      destruct Hx as [g2 [Hg [C2 [N2 [HN2 [HE2 R2]]]]]]. rewrite Hg in H. cbn [bind] in H.
      rewrite (has_cycles_complete g2 C2 N2 R2) in H. cbn [bind] in H. inversion H; subst g'.
      split; [exact C2|]. split; [exact N2|]. split; [congruence|]. split; [congruence|exact R2].
    + inversion H; subst g'.
      split; [exact C1|]. split; [exact N1|]. split; [exact HN1|]. split; [exact HE1|].
      apply has_cycles_sound; assumption.
Qed.
Print Assumptions phase1_post.

(* phase 1 never fails: neither a Go panic site nor the model's fuel is ever hit *)
Theorem phase1_total : forall alg g,
  consistent g -> no_self_loops g -> (alg = Greedy -> no_isolated_nodes g) ->
  exists g', phase1 alg g = Ok g'.
Proof.
  intros alg g C N Hiso. unfold phase1.
  destruct (Nat.eqb (length (g_N g)) 1); [eexists; reflexivity|].
  destruct (remove_two_node_cycles_wf g C N) as [C1 [N1 [HN1 [HE1 Hiso1]]]].
  set (g1 := remove_two_node_cycles g) in *.
  destruct (has_cycles_total g1 C1) as [c Hc]. rewrite Hc. cbn [bind].
  destruct c; cbn [negb]; [|eexists; reflexivity].
  assert (Hx : exists g2, (match alg with Greedy => exec_greedy g1 | DepthFirst => exec_depth_first g1 end) = Ok g2
               /\ has_cycles g2 = Ok false).
  { destruct alg.
    - destruct (exec_greedy_total g1 C1 N1) as [g2 Hg]. { apply Hiso1. apply Hiso. reflexivity. }
      exists g2. split; [exact Hg|].
      destruct (exec_greedy_ranked g1 g2 Hg C1 N1) as [C2 [N2 [_ [_ R2]]]]. { apply Hiso1. apply Hiso. reflexivity. }
      apply has_cycles_complete; auto.
    - destruct (exec_depth_first_total g1 C1 N1) as [g2 Hg].
      exists g2. split; [exact Hg|].
      destruct (exec_depth_first_ranked g1 g2 Hg C1 N1) as [C2 [N2 [_ [_ R2]]]].
      apply has_cycles_complete; auto. }
  destruct Hx as [g2 [Hg Hc2]]. rewrite Hg. cbn [bind]. rewrite Hc2. cbn [bind]. eexists. reflexivity.
Qed.
Print Assumptions phase1_total.

(* in particular the panic "graph is still cyclic" of alg_process.go is unreachable *)
Corollary phase1_never_still_cyclic : forall alg g,
  consistent g -> no_self_loops g -> (alg = Greedy -> no_isolated_nodes g) ->
  phase1 alg g <> Err ErrStillCyclic.
Proof.
  intros alg g C N Hiso. destruct (phase1_total alg g C N Hiso) as [g' H]. rewrite H. discriminate.
Qed.

(* Without the no-isolated-node hypothesis the greedy statement is FALSE in the model (and in the Go code, were it
   ever run on a disconnected graph): an isolated node is entered in both the source and the sink list, is
   counted twice, and the main loop stops before every node has a rank. *)
Definition add_isolated (g : graph) (k : nat) : graph :=
  with_N (with_na g (g_na g ++ repeat node0 k)) (g_N g ++ seq (length (g_na g)) k).
Definition ex_greedy_bad : graph := add_isolated (graph_of [(0,1); (1,2); (2,0); (3,4); (4,5); (5,3)]) 4.

Example greedy_counterexample :
  consistent ex_greedy_bad /\ no_self_loops ex_greedy_bad /\
  phase1 Greedy ex_greedy_bad = Err ErrStillCyclic.
Proof.
  split; [apply consistentb_sound; vm_compute; reflexivity|].
  split; [apply no_self_loopsb_sound; vm_compute; reflexivity|].
  vm_compute. reflexivity.
Qed.

(* the hypotheses of the greedy theorem are satisfiable on a cyclic example *)
Example ex_cyc_no_isolated : no_isolated_nodes ex_cyc.
Proof. intros n Hn. vm_compute in Hn. repeat (destruct Hn as [<-|Hn]; [vm_compute; lia|]). destruct Hn. Qed.

Example phase1_ex :
  (exists g', phase1 Greedy ex_cyc = Ok g' /\ has_cycles g' = Ok false) /\
  (exists g', phase1 DepthFirst ex_cyc = Ok g' /\ has_cycles g' = Ok false).
Proof. split; eexists; (split; [vm_compute; reflexivity|vm_compute; reflexivity]). Qed.

Example exec_greedy_ranked_ex : exists g', exec_greedy ex_cyc = Ok g' /\ consistent g' /\ ranked g'.
Proof.
  destruct (exec_greedy_total ex_cyc ex_cyc_consistent ex_cyc_no_self_loops ex_cyc_no_isolated) as [g' H].
  exists g'. split; [exact H|].
  destruct (exec_greedy_ranked ex_cyc g' H ex_cyc_consistent ex_cyc_no_self_loops ex_cyc_no_isolated)
    as [C' [_ [_ [_ R]]]].
  split; assumption.
Qed.
